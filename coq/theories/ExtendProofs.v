(** ExtendProofs.v — property C15: [extend] (extend_graph). *)
From CG Require Import Base Dec Digraph TSGraph TSGraphProofs MinimalProofs.
Local Open Scope Z_scope.

(** * Generic loop lemmas *)

Lemma rfold_map (S A B : Type) (f : S -> B -> res S) (g : A -> B) l x :
  rfold f (map g l) x = rfold (fun x a => f x (g a)) l x.
Proof.
  revert x; induction l as [|a l IH]; intros x; simpl; [reflexivity|].
  destruct (f x (g a)); [apply IH|reflexivity].
Qed.

(** A nested loop is a loop over the pairs, outer index first. *)
Lemma rfold_nested (S A B : Type) (f : A -> S -> B -> res S) la lb x :
  rfold (fun x a => rfold (f a) lb x) la x
  = rfold (fun x p => f (fst p) x (snd p)) (list_prod la lb) x.
Proof.
  revert x; induction la as [|a la IH]; intros x; simpl; [reflexivity|].
  rewrite rfold_app, rfold_map; simpl.
  destruct (rfold (f a) lb x); [apply IH|reflexivity].
Qed.

(** Total correctness where the step may use that the current element was not processed before. *)
Lemma rfold_total_nd (S A : Type) (f : S -> A -> res S) (Q : A -> Prop) (I : list A -> S -> Prop) :
  (forall done a x, Q a -> ~ In a done -> I done x ->
                    exists x', f x a = Ok x' /\ I (done ++ [a]) x') ->
  forall l done x, Forall Q l -> NoDup (done ++ l) -> I done x ->
    exists x', rfold f l x = Ok x' /\ I (done ++ l) x'.
Proof.
  intros Hstep; induction l as [|a l IH]; intros done x HQ ND HI; simpl.
  - exists x; rewrite app_nil_r; auto.
  - inversion HQ as [|? ? Qa HQ']; subst.
    assert (Hn : ~ In a done).
    { apply NoDup_remove_2 in ND; intros H; apply ND; apply in_or_app; auto. }
    destruct (Hstep done a x Qa Hn HI) as (x' & E & HI'); rewrite E.
    replace (done ++ a :: l) with ((done ++ [a]) ++ l) in * by (rewrite <- app_assoc; reflexivity).
    destruct (IH (done ++ [a]) x' HQ' ND HI') as (x'' & E' & HI''). eauto.
Qed.
Arguments rfold_total_nd {S A} f Q I _ l done x _ _ _.

Lemma fold_left_map (S A B : Type) (f : S -> B -> S) (g : A -> B) l x :
  fold_left f (map g l) x = fold_left (fun x a => f x (g a)) l x.
Proof. revert x; induction l as [|a l IH]; intros x; simpl; auto. Qed.

Lemma fold_left_nested (S A B : Type) (f : S -> B -> S) (h : A -> list B) la x :
  fold_left (fun x a => fold_left f (h a) x) la x = fold_left f (flat_map h la) x.
Proof.
  revert x; induction la as [|a la IH]; intros x; simpl; [reflexivity|].
  rewrite fold_left_app; apply IH.
Qed.

Arguments rfold_map {S A B} f g l x.
Arguments rfold_nested {S A B} f la lb x.
Arguments fold_left_map {S A B} f g l x.
Arguments fold_left_nested {S A B} f h la x.

Lemma zrange_in lo hi k : In k (zrange lo hi) <-> lo <= k <= hi.
Proof.
  unfold zrange; rewrite in_map_iff; split.
  - intros (i & <- & Hi); apply in_seq in Hi; lia.
  - intros H; exists (Z.to_nat (k - lo)); split; [lia|apply in_seq; lia].
Qed.

Lemma zrange_nodup lo hi : NoDup (zrange lo hi).
Proof.
  unfold zrange; apply FinFun.Injective_map_NoDup; [|apply seq_NoDup].
  intros i j H; lia.
Qed.

Lemma NoDup_app_intro (A : Type) (l1 l2 : list A) :
  NoDup l1 -> NoDup l2 -> (forall x, In x l1 -> ~ In x l2) -> NoDup (l1 ++ l2).
Proof.
  induction l1 as [|a l1 IH]; simpl; intros N1 N2 H; [exact N2|].
  inversion N1 as [|? ? Ha N1']; subst. constructor.
  - rewrite in_app_iff; intros [H1|H2]; [contradiction|exact (H a (or_introl eq_refl) H2)].
  - apply IH; auto.
Qed.

Lemma NoDup_list_prod (A B : Type) (la : list A) (lb : list B) :
  NoDup la -> NoDup lb -> NoDup (list_prod la lb).
Proof.
  intros Ha Hb; induction Ha as [|a la Hn Ha IH]; simpl; [constructor|].
  apply NoDup_app_intro; [|exact IH|].
  - apply FinFun.Injective_map_NoDup; [|exact Hb]. intros b1 b2 E; congruence.
  - intros [a' b'] H1 H2; apply in_map_iff in H1; destruct H1 as (b & E & _).
    apply in_prod_iff in H2; destruct H2 as [H2 _]. congruence.
Qed.

(** * Minimal graphs and time-shifted copies *)

(** What [extend] needs from the minimal graph: well formed, every edge ends at lag 0. *)
Definition mwf (m : tsg) : Prop := wf m /\ forall e, In e (tedges m) -> edl e = 0.

Definition is_copyP (e e' : tedge) : Prop :=
  es e' = es e /\ ed e' = ed e /\ delta e' = delta e /\ ety e' = ety e /\ em e' = em e.

(** Key of the copy of [e] that ends at time [t]. *)
Definition shiftk (e : tedge) (t : Z) : key * key := ((es e, t - delta e), (ed e, t)).

Record xinv (m x : tsg) : Prop := {
  xi_wf : wf x;
  xi_copy : forall e', In e' (tedges x) -> exists e, In e (tedges m) /\ is_copyP e e';
  xi_node : forall n', In n' (tnodes x) -> exists n, In n (tnodes m) /\ n' = relag n (tl n');
  xi_meta : tgmeta x = tgmeta m
}.

Lemma mwf_delta m e : mwf m -> In e (tedges m) -> 0 <= delta e /\ esl e = - delta e.
Proof.
  intros [W Z0] He; pose proof (wf_time m W e He); pose proof (Z0 e He); unfold delta; lia.
Qed.

(** Adding the copy of the minimal edge [e] ending at [t], when it is not there yet, succeeds
    (no CyclicConnectionError, no ReverseEdgeExistsError, no swap) and keeps the invariant. *)
Lemma try_add m x e ns nd t :
  mwf m -> xinv m x -> In e (tedges m) ->
  find_node m (esrc e) = Some ns -> find_node m (edst e) = Some nd ->
  ~ In (shiftk e t) (map ekey (tedges x)) ->
  let sn := relag ns (t - delta e) in
  let dn := relag nd t in
  add_edge x sn dn (ety e) (em e) = Ok (added x sn dn (ety e) (em e))
  /\ xinv m (added x sn dn (ety e) (em e))
  /\ nkey sn = fst (shiftk e t) /\ nkey dn = snd (shiftk e t).
Proof.
  intros Hm [Xw Xc Xn Xm] He Fs Fd Hnew sn dn.
  destruct (mwf_delta m e Hm He) as [Dp Dl]. destruct Hm as [Wm Z0].
  apply find_node_some in Fs, Fd. destruct Fs as [Hns Ks0], Fd as [Hnd Kd0].
  assert (Ks : nkey sn = (es e, t - delta e)).
  { unfold nkey, esrc in *; simpl; inversion Ks0; reflexivity. }
  assert (Kd : nkey dn = (ed e, t)).
  { unfold nkey, edst in *; simpl; inversion Kd0; reflexivity. }
  assert (Hle : tl sn <= tl dn) by (simpl; lia).
  assert (Hne : nkey sn <> nkey dn).
  { rewrite Ks, Kd; intros E; inversion E as [[E1 E2]].
    apply (wf_noself m e Wm He); unfold esrc, edst; f_equal; [exact E1|].
    pose proof (Z0 e He); lia. }
  assert (Hf : ~ In (nkey sn, nkey dn) (map ekey (tedges x))) by (rewrite Ks, Kd; exact Hnew).
  assert (Hr : ~ In (nkey dn, nkey sn) (map ekey (tedges x))).
  { rewrite Ks, Kd; intros Hin; apply in_map_iff in Hin; destruct Hin as (e'' & K & H'').
    apply ekey_inv in K; destruct K as [K1 K2].
    destruct (Xc e'' H'') as (e2 & H2 & C1 & C2 & C3 & _).
    destruct (mwf_delta m e2 (conj Wm Z0) H2) as [Dp2 Dl2].
    unfold esrc in K1; unfold edst in K2; inversion K1; inversion K2.
    assert (delta e2 = 0 /\ delta e = 0) as [D2 D0] by (unfold delta in C3 |- *; unfold delta in *; lia).
    apply (wf_norev m Wm e e2 He H2); unfold esrc, edst; f_equal; try congruence.
    - pose proof (Z0 e2 H2); lia.
    - pose proof (Z0 e He); lia. }
  split; [|split; [|split; [rewrite Ks|rewrite Kd]; reflexivity]].
  - rewrite add_edge_noswap by exact Hle.
    destruct (key_eqb_spec (nkey sn) (nkey dn)) as [|_]; [contradiction|].
    apply edge_exists_false in Hf, Hr; rewrite Hf, Hr; reflexivity.
  - constructor.
    + apply added_wf; assumption.
    + simpl; intros e' He'; apply in_app_iff in He'; simpl in He'.
      destruct He' as [He'|[<-|[]]]; [auto|].
      exists e; split; [exact He|]. unfold is_copyP, delta; simpl.
      unfold nkey, esrc, edst in Ks0, Kd0; inversion Ks0; inversion Kd0.
      repeat split; auto; unfold delta; lia.
    + simpl; intros n' Hn'. apply ensure_node_in in Hn'. destruct Hn' as [Hn'|[-> _]].
      * apply ensure_node_in in Hn'. destruct Hn' as [Hn'|[-> _]]; [auto|].
        exists ns; split; [exact Hns|reflexivity].
      * exists nd; split; [exact Hnd|reflexivity].
    + exact Xm.
Qed.

(** * Node loops *)

Definition ens_all (x : tsg) (l : list tnode) : tsg := fold_left ensure_node l x.

Lemma ens_all_spec l : forall x,
  let x' := ens_all x l in
  tedges x' = tedges x /\ tgmeta x' = tgmeta x
  /\ (NoDup (map nkey (tnodes x)) -> NoDup (map nkey (tnodes x')))
  /\ (forall n', In n' (tnodes x') -> In n' (tnodes x) \/ In n' l)
  /\ (forall n', In n' (tnodes x) -> In n' (tnodes x'))
  /\ (forall n, In n l -> In (nkey n) (map nkey (tnodes x'))).
Proof.
  induction l as [|a l IH]; intros x; simpl.
  - repeat split; auto. intros n [].
  - destruct (IH (ensure_node x a)) as (E1 & E2 & E3 & E4 & E5 & E6).
    unfold ens_all in *. rewrite ensure_node_edges in E1; rewrite ensure_node_meta in E2.
    repeat split; auto.
    + intros ND; apply E3, ensure_node_nodup, ND.
    + intros n' Hn'; destruct (E4 n' Hn') as [H|H]; [|auto].
      apply ensure_node_in in H; destruct H as [H|[-> _]]; auto.
    + intros n' Hn'; apply E5, ensure_node_incl, Hn'.
    + intros n [<-|Hn]; [|auto].
      assert (K : In (nkey a) (map nkey (tnodes (ensure_node x a)))) by (apply ensure_node_keys; auto).
      apply in_map_iff in K; destruct K as (n0 & K & H0); rewrite <- K; apply in_map, E5, H0.
Qed.

Lemma nodes_loop_eq m x (h : Z -> Z) lags :
  fold_left (fun x lag => ensure_nodes_at m x (h lag)) lags x
  = ens_all x (flat_map (fun lag => map (fun n => relag n (h lag)) (sorted_nodes m)) lags).
Proof.
  unfold ens_all, ensure_nodes_at.
  rewrite <- (fold_left_nested ensure_node
                (fun lag => map (fun n => relag n (h lag)) (sorted_nodes m))).
  revert x; induction lags as [|a lags IH]; intros x; simpl; [reflexivity|].
  rewrite fold_left_map; apply IH.
Qed.

Lemma ens_all_xinv m x l :
  xinv m x -> (forall n', In n' l -> exists n, In n (tnodes m) /\ n' = relag n (tl n')) ->
  xinv m (ens_all x l).
Proof.
  intros [Xw Xc Xn Xm] Hl; destruct (ens_all_spec l x) as (E1 & E2 & E3 & E4 & E5 & E6).
  destruct Xw as [W1 W2 W3 W4 W5]. constructor; [constructor|..]; rewrite ?E1, ?E2; auto.
  - intros e He; destruct (W4 e He) as [H1 H2]. split.
    + apply in_map_iff in H1; destruct H1 as (n & K & Hn); rewrite <- K; apply in_map, E5, Hn.
    + apply in_map_iff in H2; destruct H2 as (n & K & Hn); rewrite <- K; apply in_map, E5, Hn.
  - intros n' Hn'; destruct (E4 n' Hn'); auto.
Qed.

(** * Edge loops: the invariant of one phase started in [x0]; [ks] lists the keys wanted so far *)

Record pinv (m x0 : tsg) (ks : list (key * key)) (x : tsg) : Prop := {
  pi_x : xinv m x;
  pi_e1 : forall e', In e' (tedges x) -> In e' (tedges x0) \/ In (ekey e') ks;
  pi_e2 : forall k, In k ks -> In k (map ekey (tedges x));
  pi_e0 : forall e', In e' (tedges x0) -> In e' (tedges x);
  pi_n1 : forall n', In n' (tnodes x) ->
      In n' (tnodes x0) \/
      exists e', In e' (tedges x) /\ (nkey n' = esrc e' \/ nkey n' = edst e');
  pi_n0 : forall n', In n' (tnodes x0) -> In n' (tnodes x)
}.

Lemma pinv_init m x0 : xinv m x0 -> pinv m x0 [] x0.
Proof. intros X; constructor; auto. intros k []. Qed.

Lemma pinv_skip m x0 ks x k :
  pinv m x0 ks x -> In k (map ekey (tedges x)) -> pinv m x0 (ks ++ [k]) x.
Proof.
  intros [P1 P2 P3 P4 P5 P6] Hk; constructor; auto.
  - intros e' He'; destruct (P2 e' He'); [auto|right; apply in_or_app; auto].
  - intros k' Hk'; apply in_app_iff in Hk'; simpl in Hk'; destruct Hk' as [H|[<-|[]]]; auto.
Qed.

Lemma pinv_add m x0 ks x e ns nd t :
  mwf m -> pinv m x0 ks x -> In e (tedges m) ->
  find_node m (esrc e) = Some ns -> find_node m (edst e) = Some nd ->
  ~ In (shiftk e t) (map ekey (tedges x)) ->
  add_edge x (relag ns (t - delta e)) (relag nd t) (ety e) (em e)
    = Ok (added x (relag ns (t - delta e)) (relag nd t) (ety e) (em e))
  /\ pinv m x0 (ks ++ [shiftk e t]) (added x (relag ns (t - delta e)) (relag nd t) (ety e) (em e)).
Proof.
  intros Hm [P1 P2 P3 P4 P5 P6] He Fs Fd Hnew.
  destruct (try_add m x e ns nd t Hm P1 He Fs Fd Hnew) as (E & X' & Ks & Kd).
  split; [exact E|]. constructor; simpl; auto.
  - intros e' He'; apply in_app_iff in He'; simpl in He'.
    destruct He' as [He'|[<-|[]]].
    + destruct (P2 e' He'); [auto|right; apply in_or_app; auto].
    + right; apply in_or_app; right; left. rewrite ekey_mk_edge, Ks, Kd; reflexivity.
  - intros k Hk; rewrite map_app, in_app_iff; apply in_app_iff in Hk; simpl in Hk.
    destruct Hk as [Hk|[<-|[]]]; [left; auto|right; simpl; left].
    rewrite ekey_mk_edge, Ks, Kd; reflexivity.
  - intros e' He'; apply in_or_app; auto.
  - intros n' Hn'. apply ensure_node_in in Hn'. destruct Hn' as [Hn'|[-> _]].
    + apply ensure_node_in in Hn'. destruct Hn' as [Hn'|[-> _]].
      * destruct (P5 n' Hn') as [H|(e' & He' & H)]; [auto|right].
        exists e'; split; [apply in_or_app; auto|exact H].
      * right; eexists; split; [apply in_or_app; right; left; reflexivity|left; reflexivity].
    + right; eexists; split; [apply in_or_app; right; left; reflexivity|right; reflexivity].
  - intros n' Hn'; apply ensure_node_incl, ensure_node_incl, P6, Hn'.
Qed.

Lemma endpoint_nodes m e :
  mwf m -> In e (tedges m) ->
  exists ns nd, find_node m (esrc e) = Some ns /\ find_node m (edst e) = Some nd
                /\ tv ns = es e /\ tl ns = esl e /\ tv nd = ed e /\ tl nd = edl e.
Proof.
  intros [W _] He; destruct (wf_ends m W e He) as [H1 H2].
  destruct (find_node_in _ _ H1) as (ns & Fs); destruct (find_node_in _ _ H2) as (nd & Fd).
  exists ns, nd; split; [exact Fs|]. split; [exact Fd|].
  apply find_node_some in Fs, Fd; destruct Fs as [_ Ks], Fd as [_ Kd].
  unfold nkey, esrc, edst in Ks, Kd; inversion Ks; inversion Kd; auto.
Qed.

(** ** Backward *)

Definition wantb (bs : Z) (iap : bool) (p : Z * tedge) : list (key * key) :=
  if ((- fst p - delta (snd p)) <? (- bs)) && negb iap then [] else [shiftk (snd p) (- fst p)].

Lemma back_step_pinv m bs iap x0 ks x lag e :
  mwf m -> In e (tedges m) -> pinv m x0 ks x ->
  exists x', back_edge_step m bs iap lag x e = Ok x' /\ pinv m x0 (ks ++ wantb bs iap (lag, e)) x'.
Proof.
  intros Hm He HP. destruct (endpoint_nodes m e Hm He) as (ns & nd & Fs & Fd & T1 & T2 & T3 & T4).
  unfold back_edge_step, wantb; rewrite Fs, Fd; simpl fst; simpl snd.
  replace (tl nd - tl ns) with (delta e) by (unfold delta; lia).
  destruct ((- lag - delta e <? - bs) && negb iap).
  - exists x; rewrite app_nil_r; auto.
  - assert (K : (nkey (relag ns (- lag - delta e)), nkey (relag nd (- lag))) = shiftk e (- lag)).
    { unfold nkey, shiftk; simpl; rewrite T1, T3; reflexivity. }
    destruct (edge_exists x (nkey (relag ns (- lag - delta e))) (nkey (relag nd (- lag)))) eqn:Ex; simpl.
    + exists x; split; [reflexivity|]. apply pinv_skip; [exact HP|].
      apply edge_exists_in in Ex; rewrite K in Ex; exact Ex.
    + apply edge_exists_false in Ex; rewrite K in Ex.
      destruct (pinv_add m x0 ks x e ns nd (- lag) Hm HP He Fs Fd Ex) as [E P']. eauto.
Qed.

Lemma back_edges_pinv m bs iap x0 :
  mwf m -> xinv m x0 ->
  exists x, back_edges m bs iap x0 = Ok x
            /\ pinv m x0 (flat_map (wantb bs iap) (list_prod (zrange 1 bs) (sorted_edges m))) x.
Proof.
  intros Hm X0; unfold back_edges; rewrite rfold_nested.
  pose (I := fun (done : list (Z * tedge)) (x : tsg) => pinv m x0 (flat_map (wantb bs iap) done) x).
  destruct (rfold_total (fun x p => back_edge_step m bs iap (fst p) x (snd p))
              (fun p => In (snd p) (tedges m)) I) with
    (l := list_prod (zrange 1 bs) (sorted_edges m)) (done := @nil (Z * tedge)) (x := x0)
    as (x & E & HI).
  - intros done [lag e] x Qa HI; simpl in Qa |- *.
    destruct (back_step_pinv m bs iap x0 _ x lag e Hm Qa HI) as (x' & E & P').
    exists x'; split; [exact E|]. unfold I; rewrite flat_map_app; simpl; rewrite app_nil_r; exact P'.
  - apply Forall_forall; intros [lag e] Hp; apply in_prod_iff in Hp; simpl.
    destruct Hp as [_ H2]; apply isort_in in H2; exact H2.
  - apply pinv_init; exact X0.
  - exists x; auto.
Qed.

(** ** Forward *)

Lemma fwd_add_eq x ls ld a b ty em :
  let x2 := ensure_node (ensure_node x ls) ld in
  find_node x2 (nkey ls) = Some a -> find_node x2 (nkey ld) = Some b -> tl ls <= tl ld ->
  add_edge x2 a b ty em = add_edge x ls ld ty em.
Proof.
  intros x2 Fa Fb Hle. apply find_node_some in Fa, Fb. destruct Fa as [Ha Ka], Fb as [Hb Kb].
  assert (Ta : tv a = tv ls /\ tl a = tl ls) by (unfold nkey in Ka; inversion Ka; auto).
  assert (Tb : tv b = tv ld /\ tl b = tl ld) by (unfold nkey in Kb; inversion Kb; auto).
  destruct Ta as [Ta1 Ta2], Tb as [Tb1 Tb2].
  rewrite !add_edge_noswap by lia. rewrite Ka, Kb.
  assert (X : forall s d, edge_exists x2 s d = edge_exists x s d).
  { intros s d; unfold edge_exists, x2; rewrite !ensure_node_edges; reflexivity. }
  rewrite !X.
  destruct (key_eqb (nkey ls) (nkey ld)); [reflexivity|].
  destruct (edge_exists x (nkey ls) (nkey ld)); [reflexivity|].
  destruct (edge_exists x (nkey ld) (nkey ls)); [reflexivity|].
  f_equal; unfold added.
  assert (Na : ensure_node x2 a = x2).
  { unfold ensure_node. replace (node_exists x2 (nkey a)) with true; [reflexivity|].
    symmetry; apply node_exists_in, in_map, Ha. }
  assert (Nb : ensure_node x2 b = x2).
  { unfold ensure_node. replace (node_exists x2 (nkey b)) with true; [reflexivity|].
    symmetry; apply node_exists_in, in_map, Hb. }
  rewrite Na, Nb. unfold x2 at 2 3; rewrite !ensure_node_edges, !ensure_node_meta.
  unfold mk_edge; rewrite Ta1, Ta2, Tb1, Tb2; reflexivity.
Qed.

Lemma fwd_step_pinv m x0 ks x lag e :
  mwf m -> In e (tedges m) -> pinv m x0 ks x ->
  ~ In (shiftk e lag) (map ekey (tedges x)) ->
  exists x', fwd_edge_step m lag x e = Ok x' /\ pinv m x0 (ks ++ [shiftk e lag]) x'.
Proof.
  intros Hm He HP Hnew.
  destruct (endpoint_nodes m e Hm He) as (ns & nd & Fs & Fd & T1 & T2 & T3 & T4).
  destruct (mwf_delta m e Hm He) as [Dp Dl]. pose proof (proj2 Hm e He) as Z0.
  unfold fwd_edge_step; rewrite Fs, Fd.
  replace (tl ns + lag) with (lag - delta e) by lia. replace (tl nd + lag) with lag by lia.
  set (ls := relag ns (lag - delta e)). set (ld := relag nd lag).
  set (x2 := ensure_node (ensure_node x ls) ld).
  assert (H1 : In (nkey ls) (map nkey (tnodes x2))).
  { unfold x2; rewrite !ensure_node_keys; auto. }
  assert (H2 : In (nkey ld) (map nkey (tnodes x2))).
  { unfold x2; rewrite !ensure_node_keys; auto. }
  destruct (find_node_in _ _ H1) as (a & Fa); destruct (find_node_in _ _ H2) as (b & Fb).
  rewrite Fa, Fb. unfold x2 in Fa, Fb |- *.
  rewrite (fwd_add_eq x ls ld a b (ety e) (em e) Fa Fb) by (simpl; lia).
  destruct (pinv_add m x0 ks x e ns nd lag Hm HP He Fs Fd Hnew) as [E P']. eauto.
Qed.

Lemma shiftk_inj m e1 e2 t1 t2 :
  mwf m -> In e1 (tedges m) -> In e2 (tedges m) -> shiftk e1 t1 = shiftk e2 t2 ->
  t1 = t2 /\ e1 = e2.
Proof.
  intros Hm H1 H2 E; unfold shiftk in E.
  assert (E4 : t1 = t2) by congruence. assert (E1 : es e1 = es e2) by congruence.
  assert (E3 : ed e1 = ed e2) by congruence.
  assert (E2 : t1 - delta e1 = t2 - delta e2) by congruence.
  split; [exact E4|]. subst t2.
  destruct (mwf_delta m e1 Hm H1) as [_ L1]; destruct (mwf_delta m e2 Hm H2) as [_ L2].
  pose proof (proj2 Hm e1 H1) as Z1; pose proof (proj2 Hm e2 H2) as Z2.
  apply (NoDup_map_inj ekey (tedges m)); auto; [apply (wf_edges m (proj1 Hm))|].
  assert (esl e1 = esl e2) by lia. assert (edl e1 = edl e2) by lia.
  unfold ekey, esrc, edst; congruence.
Qed.

Lemma fwd_edges_pinv m fs x0 :
  mwf m -> xinv m x0 -> (forall e', In e' (tedges x0) -> edl e' <= 0) ->
  exists x, fwd_edges m fs x0 = Ok x
            /\ pinv m x0 (map (fun p => shiftk (snd p) (fst p))
                              (list_prod (zrange 1 fs) (sorted_edges m))) x.
Proof.
  intros Hm X0 Hneg; unfold fwd_edges; rewrite rfold_nested.
  pose (Q := fun p : Z * tedge => 1 <= fst p /\ In (snd p) (tedges m)).
  pose (I := fun (done : list (Z * tedge)) (x : tsg) =>
               Forall Q done /\ pinv m x0 (map (fun p => shiftk (snd p) (fst p)) done) x).
  destruct (rfold_total_nd (fun x p => fwd_edge_step m (fst p) x (snd p)) Q I) with
    (l := list_prod (zrange 1 fs) (sorted_edges m)) (done := @nil (Z * tedge)) (x := x0)
    as (x & E & _ & HI).
  - intros done [lag e] x [Q1 Q2] Hnd [HQ HI]; simpl in Q1, Q2 |- *.
    assert (Hnew : ~ In (shiftk e lag) (map ekey (tedges x))).
    { intros Hin; apply in_map_iff in Hin; destruct Hin as (e' & K & He').
      destruct (pi_e1 _ _ _ _ HI e' He') as [H0|Hk].
      - pose proof (Hneg e' H0). apply ekey_inv in K; destruct K as [_ K2].
        unfold edst in K2; inversion K2; lia.
      - rewrite K in Hk; apply in_map_iff in Hk; destruct Hk as ([lag' e2] & K' & Hp); simpl in K'.
        rewrite Forall_forall in HQ; destruct (HQ _ Hp) as [_ Q2']; simpl in Q2'.
        destruct (shiftk_inj m e2 e lag' lag Hm Q2' Q2 K') as [-> ->]. contradiction. }
    destruct (fwd_step_pinv m x0 _ x lag e Hm Q2 HI Hnew) as (x' & E & P').
    exists x'; split; [exact E|]. split.
    + apply Forall_app; split; [exact HQ|constructor; [split; assumption|constructor]].
    + rewrite map_app; exact P'.
  - apply Forall_forall; intros [lag e] Hp; apply in_prod_iff in Hp; destruct Hp as [H1 H2].
    apply zrange_in in H1; apply isort_in in H2; split; simpl; [lia|exact H2].
  - simpl; apply NoDup_list_prod; [apply zrange_nodup|].
    apply (NoDup_of_map _ _ ekey).
    eapply Permutation_NoDup; [apply Permutation_map, isort_perm|].
    apply (wf_edges m (proj1 Hm)).
  - split; [constructor|apply pinv_init; exact X0].
  - exists x; auto.
Qed.

(** * One direction of the extension, as a whole *)

Record phase (m x0 x : tsg) (P : tedge -> Z -> Prop) (N : Z -> Prop) : Prop := {
  ph_x : xinv m x;
  ph_e1 : forall e', In e' (tedges x) ->
      In e' (tedges x0) \/ exists e t, In e (tedges m) /\ P e t /\ ekey e' = shiftk e t;
  ph_e2 : forall e t, In e (tedges m) -> P e t -> In (shiftk e t) (map ekey (tedges x));
  ph_e0 : forall e', In e' (tedges x0) -> In e' (tedges x);
  ph_n1 : forall n', In n' (tnodes x) ->
      In n' (tnodes x0)
      \/ (exists n, In n (tnodes m) /\ N (tl n') /\ tv n' = tv n)
      \/ exists e', In e' (tedges x) /\ (nkey n' = esrc e' \/ nkey n' = edst e');
  ph_n0 : forall n', In n' (tnodes x0) -> In n' (tnodes x);
  ph_n2 : forall n k, In n (tnodes m) -> N k -> In (tv n, k) (map nkey (tnodes x))
}.

Lemma phase_id m x0 (P : tedge -> Z -> Prop) (N : Z -> Prop) :
  xinv m x0 -> (forall e t, ~ P e t) -> (forall k, ~ N k) -> phase m x0 x0 P N.
Proof.
  intros X HP HN; constructor; auto.
  - intros e t _ H; destruct (HP e t H).
  - intros n k _ H; destruct (HN k H).
Qed.

Definition Pb (b : option Z) (iap : bool) (e : tedge) (t : Z) : Prop :=
  exists bs, b = Some bs /\ - bs <= t <= -1 /\ (iap = true \/ - bs <= t - delta e).
Definition Nb (b : option Z) (k : Z) : Prop := exists bs, b = Some bs /\ - bs <= k <= 0.
Definition Pf (f : option Z) (e : tedge) (t : Z) : Prop := exists fs, f = Some fs /\ 1 <= t <= fs.
Definition Nf (f : option Z) (k : Z) : Prop := exists fs, f = Some fs /\ 0 <= k <= fs.

Definition lagged_all (m : tsg) (h : Z -> Z) (lags : list Z) : list tnode :=
  flat_map (fun lag => map (fun n => relag n (h lag)) (sorted_nodes m)) lags.

Lemma lagged_all_in m h lags n' :
  In n' (lagged_all m h lags) <->
  exists lag n, In lag lags /\ In n (tnodes m) /\ n' = relag n (h lag).
Proof.
  unfold lagged_all; rewrite in_flat_map; split.
  - intros (lag & Hl & H); apply in_map_iff in H; destruct H as (n & <- & Hn).
    apply isort_in in Hn; eauto.
  - intros (lag & n & Hl & Hn & ->); exists lag; split; [exact Hl|].
    apply in_map_iff; exists n; split; [reflexivity|apply isort_in; exact Hn].
Qed.

Lemma wantb_in bs iap lag e k :
  In k (wantb bs iap (lag, e)) <->
  k = shiftk e (- lag) /\ (iap = true \/ - bs <= - lag - delta e).
Proof.
  unfold wantb; simpl fst; simpl snd.
  destruct (Z.ltb_spec (- lag - delta e) (- bs)) as [Hlt|Hge]; destruct iap; simpl.
  - split; [intros [<-|[]]; auto|intros [-> _]; auto].
  - split; [intros []|intros [_ [H0|H0]]; [discriminate|lia]].
  - split; [intros [<-|[]]; auto|intros [-> _]; auto].
  - split; [intros [<-|[]]; auto|intros [-> _]; auto].
Qed.

Lemma nodes_phase m x0 (h : Z -> Z) lags :
  xinv m x0 ->
  let x1 := ens_all x0 (lagged_all m h lags) in
  xinv m x1 /\ tedges x1 = tedges x0
  /\ (forall n', In n' (tnodes x1) -> In n' (tnodes x0) \/
        exists lag n, In lag lags /\ In n (tnodes m) /\ n' = relag n (h lag))
  /\ (forall n', In n' (tnodes x0) -> In n' (tnodes x1))
  /\ (forall lag n, In lag lags -> In n (tnodes m) -> In (tv n, h lag) (map nkey (tnodes x1))).
Proof.
  intros X0 x1. destruct (ens_all_spec (lagged_all m h lags) x0) as (E1 & E2 & E3 & E4 & E5 & E6).
  split; [|split; [exact E1|split; [|split; [exact E5|]]]].
  - apply ens_all_xinv; [exact X0|]. intros n' Hn'; apply lagged_all_in in Hn'.
    destruct Hn' as (lag & n & _ & Hn & ->); exists n; auto.
  - intros n' Hn'; destruct (E4 n' Hn') as [H|H]; [auto|right; apply lagged_all_in; exact H].
  - intros lag n Hl Hn. change (tv n, h lag) with (nkey (relag n (h lag))).
    apply E6, lagged_all_in; eauto.
Qed.

Lemma back_phase m b iap x0 :
  mwf m -> (forall n, In n (tnodes m) -> tl n <= 0) -> tnodes m <> [] ->
  xinv m x0 -> neg_opt b = false ->
  exists x, extend_back m b iap x0 = Ok x /\ phase m x0 x (Pb b iap) (Nb b).
Proof.
  intros Hm Hneg Hne X0 Hb; destruct b as [bs|]; simpl.
  2:{ exists x0; split; [reflexivity|]. apply phase_id; [exact X0| |].
      - intros e t (bs & [=] & _). - intros k (bs & [=] & _). }
  simpl in Hb; apply Z.ltb_ge in Hb.
  assert (ML : exists k0, max_backward_lag m = Some k0).
  { unfold max_backward_lag. destruct (tnodes m) as [|n0 l] eqn:En; [contradiction|].
    simpl. assert (L : (tl n0 <=? 0) = true) by (apply Z.leb_le, Hneg; try rewrite En; left; reflexivity).
    rewrite L; eauto. }
  destruct ML as (k0 & ->).
  unfold back_nodes; rewrite (nodes_loop_eq m x0 Z.opp (zrange 0 bs)).
  fold (lagged_all m Z.opp (zrange 0 bs)).
  destruct (nodes_phase m x0 Z.opp (zrange 0 bs) X0) as (X1 & E1 & N1 & N0 & N2).
  set (x1 := ens_all x0 (lagged_all m Z.opp (zrange 0 bs))) in *.
  destruct (back_edges_pinv m bs iap x1 Hm X1) as (x & E & [P1 P2 P3 P4 P5 P6]).
  exists x; split; [exact E|]. constructor; auto.
  - intros e' He'; destruct (P2 e' He') as [H|H]; [left; rewrite <- E1; exact H|right].
    apply in_flat_map in H; destruct H as ([lag e] & Hp & Hk).
    apply in_prod_iff in Hp; destruct Hp as [Hl He]; apply zrange_in in Hl; apply isort_in in He.
    apply wantb_in in Hk; destruct Hk as [Hk Hc].
    exists e, (- lag); split; [exact He|]. split; [|exact Hk].
    exists bs; split; [reflexivity|]. split; [lia|exact Hc].
  - intros e t He (bs' & [= <-] & Ht & Hc). apply P3. apply in_flat_map.
    exists (- t, e); split.
    + apply in_prod_iff; split; [apply zrange_in; lia|apply isort_in; exact He].
    + apply wantb_in; rewrite Z.opp_involutive; auto.
  - intros e' He'; apply P4; rewrite E1; exact He'.
  - intros n' Hn'; destruct (P5 n' Hn') as [H|H]; [|auto].
    destruct (N1 n' H) as [H0|(lag & n & Hl & Hn & ->)]; [auto|].
    right; left; exists n; split; [exact Hn|]. split; [|reflexivity].
    apply zrange_in in Hl; exists bs; simpl; split; [reflexivity|lia].
  - intros n k Hn (bs' & [= <-] & Hk).
    specialize (N2 (- k) n); rewrite Z.opp_involutive in N2.
    assert (K : In (tv n, k) (map nkey (tnodes x1))) by (apply N2; [apply zrange_in; lia|exact Hn]).
    apply in_map_iff in K; destruct K as (n1 & K & H1); rewrite <- K; apply in_map, P6, H1.
Qed.

Lemma fwd_phase m f x0 :
  mwf m -> xinv m x0 -> (forall e', In e' (tedges x0) -> edl e' <= 0) -> neg_opt f = false ->
  exists x, extend_fwd m f x0 = Ok x /\ phase m x0 x (Pf f) (Nf f).
Proof.
  intros Hm X0 Hneg Hf; destruct f as [fs|]; simpl.
  2:{ exists x0; split; [reflexivity|]. apply phase_id; [exact X0| |].
      - intros e t (fs & [=] & _). - intros k (fs & [=] & _). }
  simpl in Hf; apply Z.ltb_ge in Hf.
  unfold fwd_nodes. rewrite (nodes_loop_eq m x0 (fun z => z) (zrange 0 fs)).
  fold (lagged_all m (fun z => z) (zrange 0 fs)).
  destruct (nodes_phase m x0 (fun z => z) (zrange 0 fs) X0) as (X1 & E1 & N1 & N0 & N2).
  set (x1 := ens_all x0 (lagged_all m (fun z => z) (zrange 0 fs))) in *.
  assert (Hneg1 : forall e', In e' (tedges x1) -> edl e' <= 0) by (rewrite E1; exact Hneg).
  destruct (fwd_edges_pinv m fs x1 Hm X1 Hneg1) as (x & E & [P1 P2 P3 P4 P5 P6]).
  exists x; split; [exact E|]. constructor; auto.
  - intros e' He'; destruct (P2 e' He') as [H|H]; [left; rewrite <- E1; exact H|right].
    apply in_map_iff in H; destruct H as ([lag e] & Hk & Hp); simpl in Hk.
    apply in_prod_iff in Hp; destruct Hp as [Hl He]; apply zrange_in in Hl; apply isort_in in He.
    exists e, lag; split; [exact He|]. split; [exists fs; auto|auto].
  - intros e t He (fs' & [= <-] & Ht). apply P3. apply in_map_iff.
    exists (t, e); split; [reflexivity|].
    apply in_prod_iff; split; [apply zrange_in; lia|apply isort_in; exact He].
  - intros e' He'; apply P4; rewrite E1; exact He'.
  - intros n' Hn'; destruct (P5 n' Hn') as [H|H]; [|auto].
    destruct (N1 n' H) as [H0|(lag & n & Hl & Hn & ->)]; [auto|].
    right; left; exists n; split; [exact Hn|]. split; [|reflexivity].
    apply zrange_in in Hl; exists fs; simpl; split; [reflexivity|lia].
  - intros n k Hn (fs' & [= <-] & Hk).
    assert (K : In (tv n, k) (map nkey (tnodes x1))) by (apply (N2 k n); [apply zrange_in; lia|exact Hn]).
    apply in_map_iff in K; destruct K as (n1 & K & H1); rewrite <- K; apply in_map, P6, H1.
Qed.

(** * C15: the specification of [x = extend ... ] relative to the minimal graph [m]
      (what [c15_check_m] decides) *)

Record c15_spec (m : tsg) (b f : option Z) (iap : bool) (x : tsg) : Prop := {
  (* every edge is a copy of a minimal edge (same variables, time difference, type, metadata)
     that is kept: it ends at 0, or in [-b,-1] (with its source not before -b unless
     include_all_parents), or in [1,f] *)
  c15_es : forall e', In e' (tedges x) ->
      (exists e, In e (tedges m) /\ is_copyP e e') /\ kept b f iap (esl e') (edl e') = true;
  (* every kept copy is there *)
  c15_ec : forall e t, In e (tedges m) -> In t (ends b f) ->
      kept b f iap (t - delta e) t = true -> In (shiftk e t) (map ekey (tedges x));
  c15_end : NoDup (map ekey (tedges x));
  (* nodes: minimal nodes, window nodes of the minimal variables, endpoints of kept copies;
     each carries the variable type and user metadata of a minimal node of its variable *)
  c15_ns : forall n', In n' (tnodes x) ->
      (In (nkey n') (map nkey (tnodes m))
       \/ (In (tv n') (map tv (tnodes m)) /\ in_window b f (tl n') = true)
       \/ exists e', In e' (tedges x) /\ (esrc e' = nkey n' \/ edst e' = nkey n'))
      /\ exists n, In n (tnodes m) /\ n' = relag n (tl n');
  c15_nc1 : forall n, In n (tnodes m) ->
      In (nkey n) (map nkey (tnodes x))
      /\ forall k, In k (windows b f) -> In (tv n, k) (map nkey (tnodes x));
  c15_nc2 : forall e', In e' (tedges x) ->
      In (esrc e') (map nkey (tnodes x)) /\ In (edst e') (map nkey (tnodes x));
  c15_nnd : NoDup (map nkey (tnodes x));
  c15_meta : tgmeta x = tgmeta m
}.

(** The part of [extend] after the argument check and the computation of the minimal graph. *)
Definition extend_from (m : tsg) (b f : option Z) (iap : bool) : res tsg :=
  if is_empty m then Ok m
  else match extend_back m b iap (copy_g m) with
       | Err e => Err e
       | Ok x => extend_fwd m f x
       end.

Lemma extend_unfold g b f iap :
  extend g b f iap =
    if neg_opt b || neg_opt f then Err EAssert
    else match minimal g with Err e => Err e | Ok m => extend_from m b f iap end.
Proof. reflexivity. Qed.

Lemma copy_g_xinv m : wf m -> xinv m (copy_g m).
Proof.
  intros [W1 W2 W3 W4 W5].
  assert (Hn : forall n, In n (sorted_nodes m) <-> In n (tnodes m)) by (intros; apply isort_in).
  assert (He : forall e, In e (sorted_edges m) <-> In e (tedges m)) by (intros; apply isort_in).
  constructor; [constructor|..]; simpl.
  - eapply Permutation_NoDup; [apply Permutation_map, isort_perm|exact W1].
  - eapply Permutation_NoDup; [apply Permutation_map, isort_perm|exact W2].
  - intros e1 e2 H1 H2; apply (W3 e1 e2); [apply He, H1|apply He, H2].
  - intros e H; apply He in H; destruct (W4 e H) as [H1 H2]. split.
    + apply in_map_iff in H1; destruct H1 as (n & K & Hn1); rewrite <- K; apply in_map, Hn, Hn1.
    + apply in_map_iff in H2; destruct H2 as (n & K & Hn2); rewrite <- K; apply in_map, Hn, Hn2.
  - intros e H; apply W5, He, H.
  - intros e' H; apply He in H; exists e'; split; [exact H|]. unfold is_copyP; auto.
  - intros n' H; apply Hn in H; exists n'; split; [exact H|]. symmetry; apply relag_same.
  - reflexivity.
Qed.

Lemma kept_Pb b f iap e t : Pb b iap e t -> kept b f iap (t - delta e) t = true.
Proof.
  intros (bs & -> & Ht & Hc); unfold kept, in_back, src_ok.
  apply orb_true_iff; left; apply orb_true_iff; right; apply andb_true_iff; split.
  - apply andb_true_iff; split; apply Z.leb_le; lia.
  - destruct Hc as [-> |Hc]; [reflexivity|]. apply orb_true_iff; right; apply Z.leb_le; lia.
Qed.

Lemma kept_Pf b f iap e t : Pf f e t -> kept b f iap (t - delta e) t = true.
Proof.
  intros (fs & -> & Ht); unfold kept, in_fwd.
  apply orb_true_iff; right; apply andb_true_iff; split; apply Z.leb_le; lia.
Qed.

Lemma kept_cases b f iap e t :
  kept b f iap (t - delta e) t = true -> t = 0 \/ Pb b iap e t \/ Pf f e t.
Proof.
  unfold kept; rewrite !orb_true_iff, andb_true_iff; intros [[H|[H1 H2]]|H].
  - left; apply Z.eqb_eq; exact H.
  - right; left; unfold in_back in H1; destruct b as [bs|]; [|discriminate].
    apply andb_true_iff in H1; destruct H1 as [A B]; apply Z.leb_le in A, B.
    exists bs; split; [reflexivity|]. split; [lia|].
    unfold src_ok in H2; apply orb_true_iff in H2; destruct H2 as [H2|H2]; [auto|].
    right; apply Z.leb_le; exact H2.
  - right; right; unfold in_fwd in H; destruct f as [fs|]; [|discriminate].
    apply andb_true_iff in H; destruct H as [A B]; apply Z.leb_le in A, B.
    exists fs; split; [reflexivity|lia].
Qed.

Lemma in_window_N b f k : in_window b f k = true <-> Nb b k \/ Nf f k.
Proof.
  unfold in_window, Nb, Nf; rewrite orb_true_iff; split.
  - intros [H|H].
    + left; destruct b as [bs|]; [|discriminate]. apply andb_true_iff in H; destruct H as [A B].
      apply Z.leb_le in A, B; exists bs; auto.
    + right; destruct f as [fs|]; [|discriminate]. apply andb_true_iff in H; destruct H as [A B].
      apply Z.leb_le in A, B; exists fs; auto.
  - intros [(bs & -> & A)|(fs & -> & A)]; [left|right]; apply andb_true_iff; split;
      apply Z.leb_le; lia.
Qed.

Lemma windows_N b f k : In k (windows b f) <-> Nb b k \/ Nf f k.
Proof.
  unfold windows, Nb, Nf; rewrite in_app_iff; split.
  - intros [H|H].
    + left; destruct b as [bs|]; [|destruct H]. apply zrange_in in H; exists bs; auto.
    + right; destruct f as [fs|]; [|destruct H]. apply zrange_in in H; exists fs; auto.
  - intros [(bs & -> & A)|(fs & -> & A)]; [left|right]; apply zrange_in; exact A.
Qed.

Lemma ekey_shiftk_copy m e e' t :
  mwf m -> In e (tedges m) -> ekey e' = shiftk e t ->
  esl e' = t - delta e /\ edl e' = t /\ es e' = es e /\ ed e' = ed e.
Proof.
  intros Hm He K; apply ekey_inv in K; destruct K as [K1 K2].
  unfold esrc in K1; unfold edst in K2; inversion K1; inversion K2; auto.
Qed.

Theorem extend_from_spec m b f iap :
  mwf m -> (forall n, In n (tnodes m) -> tl n <= 0) ->
  neg_opt b = false -> neg_opt f = false -> is_empty m = false ->
  exists x, extend_from m b f iap = Ok x /\ c15_spec m b f iap x /\ xinv m x.
Proof.
  intros Hm Hneg Hb Hf Hemp. pose proof Hm as [Wm Z0].
  assert (Hne : tnodes m <> []).
  { intros E; unfold is_empty in Hemp; rewrite E in Hemp.
    destruct (tedges m) as [|e l] eqn:Ee; [discriminate|].
    destruct (wf_ends m Wm e) as [H _]; [rewrite Ee; left; reflexivity|].
    rewrite E in H; destruct H. }
  unfold extend_from; rewrite Hemp.
  pose proof (copy_g_xinv m Wm) as X0.
  destruct (back_phase m b iap (copy_g m) Hm Hneg Hne X0 Hb) as (xb & Eb & [B1 B2 B3 B4 B5 B6 B7]).
  rewrite Eb.
  assert (He0 : forall e, In e (tedges (copy_g m)) <-> In e (tedges m)) by (intros; apply isort_in).
  assert (Hn0 : forall n, In n (tnodes (copy_g m)) <-> In n (tnodes m)) by (intros; apply isort_in).
  assert (Hnegb : forall e', In e' (tedges xb) -> edl e' <= 0).
  { intros e' He'; destruct (B2 e' He') as [H|(e & t & He & (bs & _ & Ht & _) & K)].
    - apply He0 in H; rewrite (Z0 e' H); lia.
    - destruct (ekey_shiftk_copy m e e' t Hm He K) as (_ & -> & _); lia. }
  destruct (fwd_phase m f xb Hm B1 Hnegb Hf) as (x & Ef & [F1 F2 F3 F4 F5 F6 F7]).
  exists x; split; [exact Ef|]. split; [|exact F1].
  pose proof (xi_wf m x F1) as Wx.
  constructor.
  - intros e' He'; split; [apply (xi_copy m x F1); exact He'|].
    assert (Hk : forall e t, In e (tedges m) -> ekey e' = shiftk e t ->
                             kept b f iap (t - delta e) t = true ->
                             kept b f iap (esl e') (edl e') = true).
    { intros e t He K Hk; destruct (ekey_shiftk_copy m e e' t Hm He K) as (-> & -> & _); exact Hk. }
    destruct (F2 e' He') as [H|(e & t & He & HP & K)].
    + destruct (B2 e' H) as [H0|(e & t & He & HP & K)].
      * apply He0 in H0; unfold kept; rewrite (Z0 e' H0); reflexivity.
      * apply (Hk e t He K), kept_Pb, HP.
    + apply (Hk e t He K), kept_Pf, HP.
  - intros e t He _ Hk; destruct (kept_cases b f iap e t Hk) as [-> |[HP|HP]].
    + destruct (mwf_delta m e Hm He) as [_ Dl].
      replace (shiftk e 0) with (ekey e).
      * apply in_map, F4, B4, He0, He.
      * unfold ekey, shiftk, esrc, edst; rewrite (Z0 e He); repeat f_equal; lia.
    + pose proof (B3 e t He HP) as K; apply in_map_iff in K; destruct K as (e' & K & He').
      rewrite <- K; apply in_map, F4, He'.
    + apply F3; assumption.
  - exact (wf_edges x Wx).
  - intros n' Hn'; split; [|apply (xi_node m x F1); exact Hn'].
    destruct (F5 n' Hn') as [H|[(n & Hn & HN & Tv)|(e' & He' & Hk)]].
    + destruct (B5 n' H) as [H0|[(n & Hn & HN & Tv)|(e' & He' & Hk)]].
      * left; apply in_map, Hn0, H0.
      * right; left; split; [rewrite Tv; apply in_map, Hn|apply in_window_N; auto].
      * right; right; exists e'; split; [apply F4, He'|destruct Hk; auto].
    + right; left; split; [rewrite Tv; apply in_map, Hn|apply in_window_N; auto].
    + right; right; exists e'; split; [exact He'|destruct Hk; auto].
  - intros n Hn; split.
    + apply in_map, F6, B6, Hn0, Hn.
    + intros k Hk; apply windows_N in Hk; destruct Hk as [Hk|Hk].
      * pose proof (B7 n k Hn Hk) as K; apply in_map_iff in K; destruct K as (n1 & K & H1).
        rewrite <- K; apply in_map, F6, H1.
      * apply F7; assumption.
  - exact (wf_ends x Wx).
  - exact (wf_nodes x Wx).
  - rewrite (xi_meta m x F1); reflexivity.
Qed.

(** * The boolean oracle [c15_check_m] decides [c15_spec] *)

Lemma is_copy_spec e e' : is_copy e e' = true <-> is_copyP e e'.
Proof.
  unfold is_copy, is_copyP.
  rewrite !andb_true_iff, !name_eqb_eq, Z.eqb_eq, etype_eqb_eq, meta_eqb_eq; tauto.
Qed.

Theorem c15_check_m_spec m b f iap x : c15_check_m m b f iap x = true <-> c15_spec m b f iap x.
Proof.
  unfold c15_check_m, c15_edge_sound, c15_edge_complete, c15_node_sound, c15_node_complete.
  rewrite !andb_true_iff, !forallb_forall, meta_eqb_eq.
  rewrite (nodup_by_spec ekey_eqb ekey_eqb_spec), (nodup_by_spec key_eqb key_eqb_spec).
  split.
  - intros [[[[[[H1 H2] H3] H4] [H5 H6]] H7] H8]. constructor; auto.
    + intros e' He'; specialize (H1 e' He'); apply andb_true_iff in H1; destruct H1 as [A B].
      split; [|exact B]. apply existsb_exists in A; destruct A as (e & He & C).
      exists e; split; [exact He|apply is_copy_spec; exact C].
    + intros e t He Ht Hk; specialize (H2 e He); rewrite forallb_forall in H2.
      specialize (H2 t Ht); rewrite Hk in H2; simpl in H2. apply edge_exists_in; exact H2.
    + intros n' Hn'; specialize (H4 n' Hn'); apply andb_true_iff in H4; destruct H4 as [A B]. split.
      * rewrite !orb_true_iff in A; destruct A as [[A|A]|A].
        -- left; apply node_exists_in; exact A.
        -- right; left; apply andb_true_iff in A; destruct A as [A1 A2].
           split; [apply has_var_in; exact A1|exact A2].
        -- right; right; apply existsb_exists in A; destruct A as (e' & He' & C).
           exists e'; split; [exact He'|]. apply orb_true_iff in C; rewrite !key_eqb_eq in C; exact C.
      * apply existsb_exists in B; destruct B as (n & Hn & C); apply tnode_eqb_eq in C; eauto.
    + intros n Hn; specialize (H5 n Hn); apply andb_true_iff in H5; destruct H5 as [A B].
      split; [apply node_exists_in; exact A|]. rewrite forallb_forall in B.
      intros k Hk; apply node_exists_in, B, Hk.
    + intros e' He'; specialize (H6 e' He'); apply andb_true_iff in H6.
      rewrite !node_exists_in in H6; exact H6.
  - intros [S1 S2 S3 S4 S5 S6 S7 S8]; repeat split; auto.
    + intros e' He'; destruct (S1 e' He') as [(e & He & C) B]; apply andb_true_iff; split; [|exact B].
      apply existsb_exists; exists e; split; [exact He|apply is_copy_spec; exact C].
    + intros e He; apply forallb_forall; intros t Ht.
      destruct (kept b f iap (t - delta e) t) eqn:Hk; [simpl|reflexivity].
      apply edge_exists_in; apply (S2 e t He Ht Hk).
    + intros n' Hn'; destruct (S4 n' Hn') as [A (n & Hn & C)]; apply andb_true_iff; split.
      * rewrite !orb_true_iff; destruct A as [A|[[A1 A2]|(e' & He' & C')]].
        -- left; left; apply node_exists_in; exact A.
        -- left; right; apply andb_true_iff; split; [apply has_var_in; exact A1|exact A2].
        -- right; apply existsb_exists; exists e'; split; [exact He'|].
           apply orb_true_iff; rewrite !key_eqb_eq; exact C'.
      * apply existsb_exists; exists n; split; [exact Hn|apply tnode_eqb_eq; exact C].
    + intros n Hn; destruct (S5 n Hn) as [A B]; apply andb_true_iff; split.
      * apply node_exists_in; exact A.
      * apply forallb_forall; intros k Hk; apply node_exists_in, B, Hk.
    + intros e' He'; apply andb_true_iff; rewrite !node_exists_in; apply S6, He'.
Qed.

(** * C15: the theorems about [extend] *)

Lemma minimal_mwf g m :
  consistent g -> minimal g = Ok m -> mwf m /\ (forall n, In n (tnodes m) -> tl n <= 0).
Proof.
  intros C E; destruct (minimal_c14 g m C E) as [S W]. destruct C as (Wg & _ & _).
  split; [split; [exact W|intros e He; exact (c14_edl0 g m e S He)]|].
  intros n' Hn'.
  destruct (c14_ns g m S n' Hn') as [(e0 & H0 & [(n0 & _ & ->)|(n0 & _ & ->)])|(_ & n0 & _ & ->)];
    simpl; try lia.
  pose proof (wf_time g Wg e0 H0); unfold delta; lia.
Qed.

(** Negative steps: AssertionError, before anything else. *)
Theorem extend_neg g b f iap : neg_opt b || neg_opt f = true -> extend g b f iap = Err EAssert.
Proof. intros H; rewrite extend_unfold, H; reflexivity. Qed.

(** extend_graph never fails on a consistent graph with b, f in {None, 0, 1, 2, ...}; an empty
    minimal graph is returned as is; otherwise the result satisfies the C15 characterisation. *)
Theorem extend_spec g m b f iap :
  consistent g -> minimal g = Ok m -> neg_opt b = false -> neg_opt f = false ->
  exists x, extend g b f iap = Ok x
            /\ (if is_empty m then x = m else c15_spec m b f iap x /\ xinv m x).
Proof.
  intros C E Hb Hf; destruct (minimal_mwf g m C E) as [Hm Hneg].
  rewrite extend_unfold, Hb, Hf, E; simpl.
  destruct (is_empty m) eqn:Hemp.
  - exists m; unfold extend_from; rewrite Hemp; auto.
  - destruct (extend_from_spec m b f iap Hm Hneg Hb Hf Hemp) as (x & Ex & S); eauto.
Qed.

Theorem extend_ok g b f iap :
  consistent g -> neg_opt b = false -> neg_opt f = false -> exists x, extend g b f iap = Ok x.
Proof.
  intros C Hb Hf; destruct (minimal_ok g C) as (m & E).
  destruct (extend_spec g m b f iap C E Hb Hf) as (x & Ex & _); eauto.
Qed.

(** The edges of the result are exactly the kept copies: the minimal graph (t = 0) plus, for
    every template and every t in [-b, -1] and [1, f], the copy ending at t — without
    include_all_parents a copy at negative t whose source falls before -b is left out.
    Each copy carries the type and metadata of its template. *)
Theorem extend_edges g m b f iap x :
  consistent g -> minimal g = Ok m -> is_empty m = false -> extend g b f iap = Ok x ->
  (forall k, In k (map ekey (tedges x)) <->
     exists e t, In e (tedges m) /\ k = shiftk e t /\ kept b f iap (t - delta e) t = true)
  /\ NoDup (map ekey (tedges x))
  /\ (forall e', In e' (tedges x) -> exists e, In e (tedges m) /\ is_copyP e e').
Proof.
  intros C E Hemp Ex.
  destruct (neg_opt b || neg_opt f) eqn:Hn; [rewrite extend_neg in Ex; [discriminate|exact Hn]|].
  apply orb_false_iff in Hn; destruct Hn as [Hb Hf].
  destruct (extend_spec g m b f iap C E Hb Hf) as (x' & Ex' & S); rewrite Hemp in S.
  assert (x' = x) by congruence; subst x'. destruct S as [[S1 S2 S3 _ _ _ _ _] _].
  destruct (minimal_mwf g m C E) as [Hm _].
  split; [|split; [exact S3|intros e' He'; apply S1; exact He']].
  intros k; split.
  - intros Hk; apply in_map_iff in Hk; destruct Hk as (e' & <- & He').
    destruct (S1 e' He') as [(e & He & C1 & C2 & C3 & _) Hk]. exists e, (edl e').
    split; [exact He|]. unfold delta in C3.
    replace (edl e' - delta e) with (esl e') by (unfold delta; lia).
    split; [|exact Hk]. unfold ekey, shiftk, esrc, edst. rewrite C1, C2.
    repeat f_equal; unfold delta; lia.
  - intros (e & t & He & -> & Hk). apply S2; auto.
    destruct (kept_cases b f iap e t Hk) as [-> |[(bs & -> & Ht & _)|(fs & -> & Ht)]]; unfold ends.
    + left; reflexivity.
    + right; apply in_or_app; left; apply zrange_in; lia.
    + right; apply in_or_app; right; apply zrange_in; lia.
Qed.

(** The nodes of the result: the minimal nodes, a node for every minimal variable at every lag
    of the windows [-b, 0] and [0, f], the endpoints of the kept copies (sources that fall
    before -b), and nothing else; each with the attributes of a minimal node of its variable. *)
Theorem extend_nodes g m b f iap x :
  consistent g -> minimal g = Ok m -> is_empty m = false -> extend g b f iap = Ok x ->
  (forall k, In k (map nkey (tnodes x)) <->
     In k (map nkey (tnodes m))
     \/ (In (fst k) (map tv (tnodes m)) /\ in_window b f (snd k) = true)
     \/ exists e', In e' (tedges x) /\ (esrc e' = k \/ edst e' = k))
  /\ NoDup (map nkey (tnodes x))
  /\ (forall n', In n' (tnodes x) -> exists n, In n (tnodes m) /\ n' = relag n (tl n')).
Proof.
  intros C E Hemp Ex.
  destruct (neg_opt b || neg_opt f) eqn:Hn; [rewrite extend_neg in Ex; [discriminate|exact Hn]|].
  apply orb_false_iff in Hn; destruct Hn as [Hb Hf].
  destruct (extend_spec g m b f iap C E Hb Hf) as (x' & Ex' & S); rewrite Hemp in S.
  assert (x' = x) by congruence; subst x'. destruct S as [[_ _ _ S4 S5 S6 S7 _] _].
  split; [|split; [exact S7|intros n' Hn'; exact (proj2 (S4 n' Hn'))]].
  intros k; split.
  - intros Hk; apply in_map_iff in Hk; destruct Hk as (n' & <- & Hn'). exact (proj1 (S4 n' Hn')).
  - intros [Hk|[[Hv Hw]|(e' & He' & [<-|<-])]].
    + apply in_map_iff in Hk; destruct Hk as (n & <- & Hn); exact (proj1 (S5 n Hn)).
    + apply in_map_iff in Hv; destruct Hv as (n & Tv & Hn).
      destruct k as [v j]; simpl in *; rewrite <- Tv. apply (proj2 (S5 n Hn)).
      apply windows_N, in_window_N; exact Hw.
    + exact (proj1 (S6 e' He')).
    + exact (proj2 (S6 e' He')).
Qed.

(** The model's extension passes its own oracle. *)
Corollary extend_check g b f iap x :
  consistent g -> extend g b f iap = Ok x -> c15_check g b f iap x = true.
Proof.
  intros C Ex.
  destruct (neg_opt b || neg_opt f) eqn:Hn; [rewrite extend_neg in Ex; [discriminate|exact Hn]|].
  apply orb_false_iff in Hn; destruct Hn as [Hb Hf].
  destruct (minimal_ok g C) as (m & E).
  destruct (extend_spec g m b f iap C E Hb Hf) as (x' & Ex' & S).
  assert (x' = x) by congruence; subst x'. unfold c15_check; rewrite E.
  destruct (is_empty m).
  - subst x; apply same_graph_b_spec; unfold same_graph; repeat split; auto.
  - apply c15_check_m_spec; tauto.
Qed.

(** * Examples (see [ex_g] in TSGraphProofs.v; values observed on the Python code) *)

(** Python: ex_g.extend_graph(1, 1, include_all_parents=True): 15 nodes (the sources at lag 2
    of the copies ending at -1 are added), 15 edges. *)
Example ex_g_extend_1_1_all :
  res_exact (extend ex_g (Some 1) (Some 1) true)
    (Ok (Gr [(Nd [87]%N (-1)%Z VUnspec []); (Nd [88]%N (0)%Z VUnspec []); (Nd [88]%N (-1)%Z VUnspec []); (Nd [89]%N (0)%Z VUnspec []); (Nd [89]%N (-1)%Z VUnspec []); (Nd [90]%N (0)%Z VCont [([97]%N, JInt (1)%Z)]); (Nd [87]%N (0)%Z VUnspec []); (Nd [90]%N (-1)%Z VCont [([97]%N, JInt (1)%Z)]); (Nd [87]%N (-2)%Z VUnspec []); (Nd [88]%N (-2)%Z VUnspec []); (Nd [89]%N (-2)%Z VUnspec []); (Nd [87]%N (1)%Z VUnspec []); (Nd [88]%N (1)%Z VUnspec []); (Nd [89]%N (1)%Z VUnspec []); (Nd [90]%N (1)%Z VCont [([97]%N, JInt (1)%Z)])] [(Ed [87]%N (0)%Z [89]%N (1)%Z Dir []); (Ed [87]%N (-1)%Z [89]%N (0)%Z Dir []); (Ed [87]%N (-2)%Z [89]%N (-1)%Z Dir []); (Ed [88]%N (0)%Z [88]%N (1)%Z Dir []); (Ed [88]%N (0)%Z [89]%N (0)%Z Dir []); (Ed [88]%N (0)%Z [89]%N (1)%Z Dir []); (Ed [88]%N (1)%Z [89]%N (1)%Z Dir []); (Ed [88]%N (-1)%Z [88]%N (0)%Z Dir []); (Ed [88]%N (-1)%Z [89]%N (0)%Z Dir []); (Ed [88]%N (-1)%Z [89]%N (-1)%Z Dir []); (Ed [88]%N (-2)%Z [88]%N (-1)%Z Dir []); (Ed [88]%N (-2)%Z [89]%N (-1)%Z Dir []); (Ed [89]%N (0)%Z [88]%N (1)%Z Dir [([98]%N, JStr [117]%N)]); (Ed [89]%N (-1)%Z [88]%N (0)%Z Dir [([98]%N, JStr [117]%N)]); (Ed [89]%N (-2)%Z [88]%N (-1)%Z Dir [([98]%N, JStr [117]%N)])] [([103]%N, JInt (1)%Z)])) = true.
Proof. vm_compute; reflexivity. Qed.

(** Python: ex_g.extend_graph(1, None, include_all_parents=False): only X lag1 -> Y lag1 is added. *)
Example ex_g_extend_1_none :
  res_exact (extend ex_g (Some 1) None false)
    (Ok (Gr [(Nd [87]%N (-1)%Z VUnspec []); (Nd [88]%N (0)%Z VUnspec []); (Nd [88]%N (-1)%Z VUnspec []); (Nd [89]%N (0)%Z VUnspec []); (Nd [89]%N (-1)%Z VUnspec []); (Nd [90]%N (0)%Z VCont [([97]%N, JInt (1)%Z)]); (Nd [87]%N (0)%Z VUnspec []); (Nd [90]%N (-1)%Z VCont [([97]%N, JInt (1)%Z)])] [(Ed [87]%N (-1)%Z [89]%N (0)%Z Dir []); (Ed [88]%N (0)%Z [89]%N (0)%Z Dir []); (Ed [88]%N (-1)%Z [88]%N (0)%Z Dir []); (Ed [88]%N (-1)%Z [89]%N (0)%Z Dir []); (Ed [88]%N (-1)%Z [89]%N (-1)%Z Dir []); (Ed [89]%N (-1)%Z [88]%N (0)%Z Dir [([98]%N, JStr [117]%N)])] [([103]%N, JInt (1)%Z)])) = true.
Proof. vm_compute; reflexivity. Qed.

Example ex_g_extend_neg : extend ex_g (Some (-1)) None true = Err EAssert.
Proof. vm_compute; reflexivity. Qed.

Example ex_empty_extend : extend (empty_tsg []) (Some 2) (Some 2) true = Ok (empty_tsg []).
Proof. vm_compute; reflexivity. Qed.

Example ex_g_c15_check :
  match extend ex_g (Some 1) (Some 1) true, extend ex_g (Some 2) None false with
  | Ok x1, Ok x2 => c15_check ex_g (Some 1) (Some 1) true x1 && c15_check ex_g (Some 2) None false x2
  | _, _ => false
  end = true.
Proof. vm_compute; reflexivity. Qed.

(** * Corollaries of the characterisation *)

(** With the default include_all_parents = True, every node of a variable at a time of the
    window has the same parents (and the same incoming edges of every type) up to a time shift:
    the copy of a template ending at [t1] is present iff the copy ending at [t2] is. *)
Definition in_range (b f : option Z) (t : Z) : bool := (t =? 0) || in_back b t || in_fwd f t.

Corollary extend_same_parents g m b f x :
  consistent g -> minimal g = Ok m -> is_empty m = false -> extend g b f true = Ok x ->
  forall u v d t1 t2, in_range b f t1 = true -> in_range b f t2 = true ->
    (In ((u, t1 - d), (v, t1)) (map ekey (tedges x)) <->
     In ((u, t2 - d), (v, t2)) (map ekey (tedges x))).
Proof.
  intros C E Hemp Ex u v d.
  destruct (extend_edges g m b f true x C E Hemp Ex) as (He & _ & _).
  assert (K : forall sl t, kept b f true sl t = in_range b f t).
  { intros sl t; unfold kept, in_range, src_ok; simpl; rewrite andb_true_r; reflexivity. }
  assert (Hgo : forall t1 t2, in_range b f t2 = true ->
            In ((u, t1 - d), (v, t1)) (map ekey (tedges x)) ->
            In ((u, t2 - d), (v, t2)) (map ekey (tedges x))).
  { intros t1 t2 R2 H1; apply He in H1; destruct H1 as (e & t & Hin & Ek & _).
    unfold shiftk in Ek.
    assert (es e = u /\ ed e = v /\ delta e = d) as (<- & <- & <-).
    { assert (t1 = t) by congruence. subst t. repeat split; try congruence.
      assert (t1 - d = t1 - delta e) by congruence. lia. }
    apply He; exists e, t2; split; [exact Hin|]. split; [reflexivity|rewrite K; exact R2]. }
  intros t1 t2 R1 R2; split; apply Hgo; assumption.
Qed.

(** A larger window gives a super-graph (same include_all_parents): every edge, with its type
    and metadata, and every node key of the smaller extension is in the larger one. *)
Definition opt_le (a b : option Z) : Prop :=
  match a, b with
  | None, _ => True
  | Some x, Some y => x <= y
  | Some _, None => False
  end.

Lemma kept_mono b f b' f' iap sl t :
  opt_le b b' -> opt_le f f' -> kept b f iap sl t = true -> kept b' f' iap sl t = true.
Proof.
  unfold kept, in_back, src_ok, in_fwd; intros Lb Lf.
  rewrite !orb_true_iff, !andb_true_iff. intros [[H|[H1 H2]]|H].
  - auto.
  - left; right. destruct b as [bs|]; [|discriminate]. destruct b' as [bs'|]; [|destruct Lb].
    simpl in Lb. rewrite andb_true_iff, !Z.leb_le in H1. rewrite andb_true_iff, !Z.leb_le.
    split; [lia|]. rewrite orb_true_iff in H2 |- *. destruct H2 as [H2|H2]; [auto|right].
    rewrite Z.leb_le in H2 |- *; lia.
  - right. destruct f as [fs|]; [|discriminate]. destruct f' as [fs'|]; [|destruct Lf].
    simpl in Lf. rewrite andb_true_iff, !Z.leb_le in H. rewrite andb_true_iff, !Z.leb_le; lia.
Qed.

Lemma in_window_mono b f b' f' k :
  opt_le b b' -> opt_le f f' -> in_window b f k = true -> in_window b' f' k = true.
Proof.
  unfold in_window; intros Lb Lf; rewrite !orb_true_iff. intros [H|H]; [left|right].
  - destruct b as [bs|]; [|discriminate]. destruct b' as [bs'|]; [|destruct Lb].
    simpl in Lb. rewrite andb_true_iff, !Z.leb_le in H |- *; lia.
  - destruct f as [fs|]; [|discriminate]. destruct f' as [fs'|]; [|destruct Lf].
    simpl in Lf. rewrite andb_true_iff, !Z.leb_le in H |- *; lia.
Qed.

Corollary extend_monotone g m b f b' f' iap x x' :
  consistent g -> minimal g = Ok m -> is_empty m = false ->
  opt_le b b' -> opt_le f f' ->
  extend g b f iap = Ok x -> extend g b' f' iap = Ok x' ->
  (forall e, In e (tedges x) ->
     exists e', In e' (tedges x') /\ ekey e' = ekey e /\ ety e' = ety e /\ em e' = em e)
  /\ (forall k, In k (map nkey (tnodes x)) -> In k (map nkey (tnodes x'))).
Proof.
  intros C E Hemp Lb Lf Ex Ex'.
  destruct (extend_edges g m b f iap x C E Hemp Ex) as (He & _ & Hc).
  destruct (extend_edges g m b' f' iap x' C E Hemp Ex') as (He' & _ & Hc').
  destruct (extend_nodes g m b f iap x C E Hemp Ex) as (Hn & _ & _).
  destruct (extend_nodes g m b' f' iap x' C E Hemp Ex') as (Hn' & _ & _).
  destruct (minimal_mwf g m C E) as [Hm _].
  assert (Hed : forall e, In e (tedges x) ->
     exists e', In e' (tedges x') /\ ekey e' = ekey e /\ ety e' = ety e /\ em e' = em e).
  { intros e1 H1. assert (K : In (ekey e1) (map ekey (tedges x'))).
    { apply He'. assert (K1 : In (ekey e1) (map ekey (tedges x))) by (apply in_map, H1).
      apply He in K1; destruct K1 as (e & t & Hin & Ek & Hk). exists e, t.
      split; [exact Hin|]. split; [exact Ek|]. eapply kept_mono; eauto. }
    apply in_map_iff in K; destruct K as (e' & K & H'). exists e'; split; [exact H'|].
    split; [exact K|].
    destruct (Hc e1 H1) as (ea & Ha & A1 & A2 & A3 & A4 & A5).
    destruct (Hc' e' H') as (eb & Hb & B1 & B2 & B3 & B4 & B5).
    assert (ea = eb); [|subst eb; split; congruence].
    apply ekey_inv in K; destruct K as [K1 K2]. unfold esrc in K1; unfold edst in K2.
    destruct (mwf_delta m ea Hm Ha) as [_ La]; destruct (mwf_delta m eb Hm Hb) as [_ Lb'].
    pose proof (proj2 Hm ea Ha) as Za; pose proof (proj2 Hm eb Hb) as Zb.
    apply (NoDup_map_inj ekey (tedges m)); auto; [apply (wf_edges m (proj1 Hm))|].
    assert (es ea = es eb) by congruence. assert (ed ea = ed eb) by congruence.
    assert (delta e' = delta e1).
    { unfold delta. assert (esl e' = esl e1) by congruence. assert (edl e' = edl e1) by congruence. lia. }
    assert (esl ea = esl eb) by lia. assert (edl ea = edl eb) by lia.
    unfold ekey, esrc, edst; congruence. }
  split; [exact Hed|].
  intros k Hk; apply Hn in Hk; apply Hn'. destruct Hk as [Hk|[[Hv Hw]|(e1 & H1 & Hk)]].
  - auto.
  - right; left; split; [exact Hv|]. eapply in_window_mono; eauto.
  - right; right. destruct (Hed e1 H1) as (e' & H' & K & _). exists e'; split; [exact H'|].
    apply ekey_inv in K; destruct K as [K1 K2]. destruct Hk as [<-|<-]; auto.
Qed.

(** An acyclic minimal graph always extends to an acyclic graph: if the contemporaneous
    directed edges of the minimal graph increase a rank [r] on variables, every directed edge of
    the extension increases the pair (time, rank) lexicographically. *)
Definition lex_lt (p q : Z * Z) : Prop := fst p < fst q \/ (fst p = fst q /\ snd p < snd q).

Corollary extend_acyclic g m b f iap x (r : name -> Z) :
  consistent g -> minimal g = Ok m -> extend g b f iap = Ok x ->
  (forall e, In e (tedges m) -> ety e = Dir -> delta e = 0 -> r (es e) < r (ed e)) ->
  forall e', In e' (tedges x) -> ety e' = Dir ->
    lex_lt (esl e', r (es e')) (edl e', r (ed e')).
Proof.
  intros C E Ex Hr e' He' Ty.
  destruct (neg_opt b || neg_opt f) eqn:Hn; [rewrite extend_neg in Ex; [discriminate|exact Hn]|].
  apply orb_false_iff in Hn; destruct Hn as [Hb Hf].
  destruct (minimal_mwf g m C E) as [Hm _].
  destruct (extend_spec g m b f iap C E Hb Hf) as (x' & Ex' & S).
  assert (x' = x) by congruence; subst x'.
  assert (Hc : exists e, In e (tedges m) /\ is_copyP e e').
  { destruct (is_empty m) eqn:Hemp; try rewrite Hemp in S; simpl in S.
    - subst x; exists e'; unfold is_copyP; split; [exact He'|repeat split; reflexivity].
    - destruct S as [S _]; exact (proj1 (c15_es _ _ _ _ _ S e' He')). }
  destruct Hc as (e & He & C1 & C2 & C3 & C4 & _).
  destruct (mwf_delta m e Hm He) as [Dp _]. unfold lex_lt; simpl.
  destruct (Z.eq_dec (delta e) 0) as [D0|Dn].
  - right; split; [unfold delta in *; lia|]. rewrite C1, C2; apply Hr; congruence.
  - left; unfold delta in *; lia.
Qed.

(** [lex_lt] is a strict order, so a graph whose arcs all increase it has no directed cycle. *)
Lemma lex_rank_acyclic (A : Type) (arcs : list (A * A)) (rk : A -> Z * Z) :
  (forall a b, In (a, b) arcs -> lex_lt (rk a) (rk b)) ->
  acyclic {| verts := []; arcs := arcs |}.
Proof.
  intros H v Hp.
  assert (T : forall a b, path {| verts := []; arcs := arcs |} a b -> lex_lt (rk a) (rk b)).
  { intros a b P; induction P as [a b Hab|a b c _ IH1 _ IH2]; [apply H; exact Hab|].
    unfold lex_lt in *; lia. }
  specialize (T v v Hp); unfold lex_lt in T; lia.
Qed.

Corollary extend_acyclic_digraph g m b f iap x (r : name -> Z) :
  consistent g -> minimal g = Ok m -> extend g b f iap = Ok x ->
  (forall e, In e (tedges m) -> ety e = Dir -> delta e = 0 -> r (es e) < r (ed e)) ->
  acyclic {| verts := []; arcs := map ekey (filter (fun e => etype_eqb (ety e) Dir) (tedges x)) |}.
Proof.
  intros C E Ex Hr.
  apply (lex_rank_acyclic key _ (fun k => (snd k, r (fst k)))).
  intros a b0 Hab; apply in_map_iff in Hab; destruct Hab as (e' & K & He').
  apply filter_In in He'; destruct He' as [He' Ty]; apply etype_eqb_eq in Ty.
  apply ekey_inv in K; destruct K as [<- <-]; simpl.
  apply (extend_acyclic g m b f iap x r C E Ex Hr e' He' Ty).
Qed.

(** * The minimal graph of the extension is the minimal graph of the input *)

Lemma xinv_consistent m x : mwf m -> xinv m x -> consistent x.
Proof.
  intros Hm [Xw Xc _ _]. pose proof Hm as [Wm Z0]. split; [exact Xw|]. split.
  - intros a1 a2 H1 H2 Es Ed Dl.
    destruct (Xc a1 H1) as (e1 & I1 & A1 & A2 & A3 & A4 & _).
    destruct (Xc a2 H2) as (e2 & I2 & B1 & B2 & B3 & B4 & _).
    destruct (mwf_delta m e1 Hm I1) as [_ L1]; destruct (mwf_delta m e2 Hm I2) as [_ L2].
    assert (e1 = e2); [|congruence].
    apply (NoDup_map_inj ekey (tedges m)); auto; [apply (wf_edges m Wm)|].
    assert (esl e1 = esl e2) by lia.
    assert (edl e1 = edl e2) by (rewrite (Z0 e1 I1), (Z0 e2 I2); reflexivity).
    unfold ekey, esrc, edst; congruence.
  - intros a1 a2 H1 H2 Es Ed D1 D2.
    destruct (Xc a1 H1) as (e1 & I1 & A1 & A2 & A3 & _).
    destruct (Xc a2 H2) as (e2 & I2 & B1 & B2 & B3 & _).
    destruct (mwf_delta m e1 Hm I1) as [_ L1]; destruct (mwf_delta m e2 Hm I2) as [_ L2].
    pose proof (Z0 e1 I1); pose proof (Z0 e2 I2).
    apply (wf_norev m Wm e1 e2 I1 I2); unfold esrc, edst; f_equal; try congruence; lia.
Qed.

(** A minimal graph is determined, as a set of node keys, by its own edges and variables. *)
Lemma minimal_nodes_self g m :
  consistent g -> minimal g = Ok m ->
  forall k, In k (map nkey (tnodes m)) <->
    (exists e, In e (tedges m) /\ (k = esrc e \/ k = edst e))
    \/ (exists n, In n (tnodes m) /\ touches m (tv n) = false /\ k = (tv n, 0)).
Proof.
  intros C E k; destruct (minimal_c14 g m C E) as [S W].
  assert (Tm : forall v, touches m v = true -> touches g v = true).
  { intros v T; apply touches_spec in T; destruct T as (e' & He' & Hv).
    destruct (c14_es g m S e' He') as (e0 & H0 & K1 & K2 & _).
    unfold esrc, edst, place_src, place_dst in K1, K2; inversion K1; inversion K2.
    apply touches_spec; exists e0; split; [exact H0|]. destruct Hv; [left|right]; congruence. }
  assert (Endp : forall n' e0, In n' (tnodes m) -> In e0 (tedges g) ->
            (nkey n' = place_src e0 \/ nkey n' = place_dst e0) ->
            exists e, In e (tedges m) /\ (nkey n' = esrc e \/ nkey n' = edst e)).
  { intros n' e0 _ H0 Hk. pose proof (c14_ec g m S e0 H0) as K; apply in_map_iff in K.
    destruct K as (e & K & He); apply ekey_inv in K; destruct K as [K1 K2].
    exists e; split; [exact He|]. destruct Hk as [Hk|Hk]; [left|right]; congruence. }
  assert (Cases : forall n', In n' (tnodes m) ->
            (exists e, In e (tedges m) /\ (nkey n' = esrc e \/ nkey n' = edst e))
            \/ (touches g (tv n') = false /\ tl n' = 0)).
  { intros n' Hn'.
    destruct (c14_ns g m S n' Hn') as [(e0 & H0 & [(n0 & F0 & R)|(n0 & F0 & R)])|(T & n0 & _ & R)].
    - left; apply (Endp n' e0 Hn' H0); left. apply find_node_some in F0; destruct F0 as [_ K].
      subst n'; unfold nkey, esrc in *; unfold place_src; simpl; inversion K; reflexivity.
    - left; apply (Endp n' e0 Hn' H0); right. apply find_node_some in F0; destruct F0 as [_ K].
      subst n'; unfold nkey, edst in *; unfold place_dst; simpl; inversion K; reflexivity.
    - right; split; [exact T|rewrite R; reflexivity]. }
  split.
  - intros Hk; apply in_map_iff in Hk; destruct Hk as (n' & <- & Hn').
    destruct (Cases n' Hn') as [(e & He & Hk)|[T Z]]; [left; eauto|right].
    exists n'; split; [exact Hn'|]. split; [|unfold nkey; rewrite Z; reflexivity].
    destruct (touches m (tv n')) eqn:T'; [apply Tm in T'; congruence|reflexivity].
  - intros [(e & He & [-> | ->])|(n & Hn & T & ->)].
    + exact (proj1 (wf_ends m W e He)).
    + exact (proj2 (wf_ends m W e He)).
    + destruct (Cases n Hn) as [(e & He & Hk)|[_ Z]].
      * exfalso. pose proof (proj1 (touches_false m (tv n)) T e He) as [N1 N2].
        destruct Hk as [Hk|Hk]; unfold nkey, esrc, edst in Hk; inversion Hk; congruence.
      * replace (tv n, 0) with (nkey n) by (unfold nkey; rewrite Z; reflexivity).
        apply in_map, Hn.
Qed.

Theorem minimal_of_extend g m b f iap x :
  consistent g -> minimal g = Ok m -> extend g b f iap = Ok x ->
  exists mx, minimal x = Ok mx
    /\ (forall k, In k (map ekey (tedges mx)) <-> In k (map ekey (tedges m)))
    /\ (forall e1 e2, In e1 (tedges mx) -> In e2 (tedges m) -> ekey e1 = ekey e2 ->
          ety e1 = ety e2 /\ em e1 = em e2)
    /\ (forall k, In k (map nkey (tnodes mx)) <-> In k (map nkey (tnodes m))).
Proof.
  intros C E Ex.
  destruct (neg_opt b || neg_opt f) eqn:Hn; [rewrite extend_neg in Ex; [discriminate|exact Hn]|].
  apply orb_false_iff in Hn; destruct Hn as [Hb Hf].
  destruct (minimal_mwf g m C E) as [Hm _]. pose proof Hm as [Wm Z0].
  destruct (extend_spec g m b f iap C E Hb Hf) as (x' & Ex' & S).
  assert (x' = x) by congruence; subst x'.
  destruct (is_empty m) eqn:Hemp.
  { subst x. destruct (minimal_idem g m C E) as (m' & E' & (Sn & Se & _) & _).
    exists m'; split; [exact E'|]. split; [|split].
    - intros k; split; intros Hk; apply in_map_iff in Hk; destruct Hk as (e & <- & He);
        apply in_map, Se, He.
    - intros e1 e2 H1 H2 K. apply Se in H1.
      assert (e1 = e2) by (apply (NoDup_map_inj ekey (tedges m)); auto; apply (wf_edges m Wm)).
      subst e2; auto.
    - intros k; split; intros Hk; apply in_map_iff in Hk; destruct Hk as (n & <- & Hn);
        apply in_map, Sn, Hn. }
  destruct S as [S X]. pose proof (xinv_consistent m x Hm X) as Cx.
  destruct (minimal_ok x Cx) as (mx & Emx). exists mx; split; [exact Emx|].
  destruct (minimal_c14 x mx Cx Emx) as [Sx Wmx].
  (* an edge of x and the minimal edge it copies have the same placed key *)
  assert (PK : forall e' e, In e (tedges m) -> is_copyP e e' ->
                 place_src e' = esrc e /\ place_dst e' = edst e).
  { intros e' e He (C1 & C2 & C3 & _). destruct (mwf_delta m e Hm He) as [_ L].
    unfold place_src, place_dst, esrc, edst; rewrite C1, C2, C3, (Z0 e He), L; auto. }
  (* every minimal edge is in x *)
  assert (MX : forall e, In e (tedges m) -> exists e', In e' (tedges x) /\ ekey e' = ekey e).
  { intros e He. assert (K : In (shiftk e 0) (map ekey (tedges x))).
    { apply (c15_ec _ _ _ _ _ S e 0 He); [left; reflexivity|reflexivity]. }
    apply in_map_iff in K; destruct K as (e' & K & He'); exists e'; split; [exact He'|].
    rewrite K. destruct (mwf_delta m e Hm He) as [_ L].
    unfold shiftk, ekey, esrc, edst; rewrite (Z0 e He), L; repeat f_equal; lia. }
  assert (EK : forall k, In k (map ekey (tedges mx)) <-> In k (map ekey (tedges m))).
  { intros k; split.
    - intros Hk; apply in_map_iff in Hk; destruct Hk as (e1 & <- & H1).
      destruct (c14_es x mx Sx e1 H1) as (e' & He' & K1 & K2 & _).
      destruct (xi_copy m x X e' He') as (e & He & Cp). destruct (PK e' e He Cp) as [P1 P2].
      replace (ekey e1) with (ekey e) by (unfold ekey; congruence). apply in_map, He.
    - intros Hk; apply in_map_iff in Hk; destruct Hk as (e & <- & He).
      destruct (MX e He) as (e' & He' & K).
      destruct (xi_copy m x X e' He') as (e2 & He2 & Cp). destruct (PK e' e2 He2 Cp) as [P1 P2].
      pose proof (c14_ec x mx Sx e' He') as Q.
      assert (e2 = e).
      { apply (NoDup_map_inj ekey (tedges m)); auto; [apply (wf_edges m Wm)|].
        destruct Cp as (C1 & C2 & C3 & _). apply ekey_inv in K; destruct K as [K1 K2].
        unfold esrc in K1; unfold edst in K2.
        destruct (mwf_delta m e2 Hm He2) as [_ L2]; destruct (mwf_delta m e Hm He) as [_ L].
        assert (delta e' = delta e).
        { unfold delta. assert (esl e' = esl e) by congruence. assert (edl e' = edl e) by congruence. lia. }
        assert (esl e2 = esl e) by lia.
        assert (edl e2 = edl e) by (rewrite (Z0 e2 He2), (Z0 e He); reflexivity).
        unfold ekey, esrc, edst; congruence. }
      subst e2. rewrite P1, P2 in Q; exact Q. }
  split; [exact EK|]. split.
  - intros e1 e2 H1 H2 K.
    destruct (c14_es x mx Sx e1 H1) as (e' & He' & K1 & K2 & Ty & Em).
    destruct (xi_copy m x X e' He') as (e & He & Cp). destruct (PK e' e He Cp) as [P1 P2].
    assert (e = e2).
    { apply (NoDup_map_inj ekey (tedges m)); auto; [apply (wf_edges m Wm)|].
      rewrite <- K; unfold ekey; congruence. }
    subst e2. destruct Cp as (_ & _ & _ & C4 & C5). split; congruence.
  - intros k. rewrite (minimal_nodes_self g m C E k), (minimal_nodes_self x mx Cx Emx k).
    assert (TX : forall v, touches x v = touches m v).
    { intros v. destruct (touches m v) eqn:T.
      - apply touches_spec in T; destruct T as (e & He & Hv). destruct (MX e He) as (e' & He' & K).
        apply ekey_inv in K; destruct K as [K1 K2]. unfold esrc in K1; unfold edst in K2.
        apply touches_spec; exists e'; split; [exact He'|]. destruct Hv; [left|right]; congruence.
      - apply touches_false; intros e' He'.
        destruct (xi_copy m x X e' He') as (e & He & C1 & C2 & _).
        pose proof (proj1 (touches_false m v) T e He) as [N1 N2]. split; congruence. }
    assert (TMX : forall v, touches mx v = touches m v).
    { intros v. destruct (touches m v) eqn:T.
      - apply touches_spec in T; destruct T as (e & He & Hv).
        assert (K : In (ekey e) (map ekey (tedges mx))) by (apply EK, in_map, He).
        apply in_map_iff in K; destruct K as (e1 & K & H1). apply ekey_inv in K; destruct K as [K1 K2].
        unfold esrc in K1; unfold edst in K2.
        apply touches_spec; exists e1; split; [exact H1|]. destruct Hv; [left|right]; congruence.
      - apply touches_false; intros e1 H1.
        assert (K : In (ekey e1) (map ekey (tedges m))) by (apply EK, in_map, H1).
        apply in_map_iff in K; destruct K as (e & K & He). apply ekey_inv in K; destruct K as [K1 K2].
        unfold esrc in K1; unfold edst in K2.
        pose proof (proj1 (touches_false m v) T e He) as [N1 N2]. split; congruence. }
    assert (VX : forall v, In v (map tv (tnodes mx)) <-> In v (map tv (tnodes m))).
    { intros v; split; intros Hv; apply in_map_iff in Hv; destruct Hv as (n & <- & Hn).
      - (* a node of mx comes from a node of x, which comes from a node of m *)
        assert (Vx : In (tv n) (map tv (tnodes x))).
        { destruct (c14_ns x mx Sx n Hn) as [(e0 & H0 & [(n0 & F0 & ->)|(n0 & F0 & ->)])|(_ & n0 & F0 & ->)];
            simpl.
          - apply find_node_some in F0; apply in_map; tauto.
          - apply find_node_some in F0; apply in_map; tauto.
          - apply first_of_var_some in F0; apply in_map; tauto. }
        apply in_map_iff in Vx; destruct Vx as (n' & Tv & Hn').
        destruct (xi_node m x X n' Hn') as (n1 & Hn1 & R). rewrite <- Tv, R; simpl.
        apply in_map, Hn1.
      - pose proof (proj1 (c15_nc1 _ _ _ _ _ S n Hn)) as K.
        apply in_map_iff in K; destruct K as (n' & K & Hn').
        assert (Tv : tv n' = tv n) by (unfold nkey in K; inversion K; reflexivity).
        rewrite <- Tv.
        destruct (touches x (tv n')) eqn:T.
        + apply touches_spec in T; destruct T as (e' & He' & Hv).
          destruct (c14_nc1 x mx Sx e' He') as [Q1 Q2]. apply in_map_iff in Q1, Q2.
          destruct Q1 as (n1 & Q1 & H1), Q2 as (n2 & Q2 & H2).
          unfold nkey, place_src, place_dst in Q1, Q2; inversion Q1; inversion Q2.
          destruct Hv as [Hv|Hv]; rewrite <- Hv; apply in_map_iff; eauto.
        + pose proof (c14_nc2 x mx Sx n' Hn' T) as Q. apply in_map_iff in Q.
          destruct Q as (n1 & Q & H1). unfold nkey in Q; inversion Q.
          apply in_map_iff; eauto. }
    split.
    + intros [(e1 & H1 & Hk)|(n1 & H1 & T & ->)].
      * left. assert (K : In (ekey e1) (map ekey (tedges m))) by (apply EK, in_map, H1).
        apply in_map_iff in K; destruct K as (e & K & He). apply ekey_inv in K; destruct K as [K1 K2].
        exists e; split; [exact He|]. destruct Hk as [-> | ->]; auto.
      * right. assert (Hv : In (tv n1) (map tv (tnodes m))) by (apply VX, in_map, H1).
        apply in_map_iff in Hv; destruct Hv as (n & Tv & Hn). exists n.
        split; [exact Hn|]. rewrite Tv, <- TMX. auto.
    + intros [(e & He & Hk)|(n & Hn & T & ->)].
      * left. assert (K : In (ekey e) (map ekey (tedges mx))) by (apply EK, in_map, He).
        apply in_map_iff in K; destruct K as (e1 & K & H1). apply ekey_inv in K; destruct K as [K1 K2].
        exists e1; split; [exact H1|]. destruct Hk as [-> | ->]; auto.
      * right. assert (Hv : In (tv n) (map tv (tnodes mx))) by (apply VX, in_map, Hn).
        apply in_map_iff in Hv; destruct Hv as (n1 & Tv & H1). exists n1.
        split; [exact H1|]. rewrite Tv, TMX. auto.
Qed.
