(** Base.v — shared vocabulary of the cai-causal-graph model.

    Names are Python [str] values, represented as lists of Unicode code points; Python orders
    [str] lexicographically by code point and so does [name_ltb].  Everything here is
    executable and axiom free. *)
From Coq Require Export List NArith ZArith Bool Lia.
From Coq Require Export Sorting.Permutation Sorting.Sorted.
Export ListNotations.
Set Implicit Arguments.

(** * Names *)

Definition name := list N.

Fixpoint name_eqb (a b : name) : bool :=
  match a, b with
  | [], [] => true
  | x :: a', y :: b' => N.eqb x y && name_eqb a' b'
  | _, _ => false
  end.

Lemma name_eqb_spec a b : reflect (a = b) (name_eqb a b).
Proof.
  revert b; induction a as [|x a IH]; intros [|y b]; simpl; try (constructor; congruence).
  destruct (N.eqb_spec x y) as [->|Hn]; simpl.
  - destruct (IH b) as [->|Hn]; constructor; congruence.
  - constructor; congruence.
Qed.

Lemma name_eqb_eq a b : name_eqb a b = true <-> a = b.
Proof. destruct (name_eqb_spec a b); split; congruence. Qed.

Lemma name_eqb_refl a : name_eqb a a = true.
Proof. apply name_eqb_eq; reflexivity. Qed.

Lemma name_eqb_neq a b : name_eqb a b = false <-> a <> b.
Proof. destruct (name_eqb_spec a b); split; congruence. Qed.

Lemma name_eqb_sym a b : name_eqb a b = name_eqb b a.
Proof. destruct (name_eqb_spec a b), (name_eqb_spec b a); congruence. Qed.

Definition name_eq_dec (a b : name) : {a = b} + {a <> b}.
Proof. destruct (name_eqb_spec a b); [left|right]; assumption. Defined.

(** Strict lexicographic order by code point (Python's [<] on [str]). *)
Fixpoint name_ltb (a b : name) : bool :=
  match a, b with
  | [], [] => false
  | [], _ :: _ => true
  | _ :: _, [] => false
  | x :: a', y :: b' =>
      if N.ltb x y then true else if N.eqb x y then name_ltb a' b' else false
  end.

Definition name_leb (a b : name) : bool := negb (name_ltb b a).

Lemma name_ltb_irrefl a : name_ltb a a = false.
Proof.
  induction a as [|x a IH]; simpl; [reflexivity|].
  rewrite N.ltb_irrefl, N.eqb_refl; exact IH.
Qed.

Lemma name_ltb_trans a b c : name_ltb a b = true -> name_ltb b c = true -> name_ltb a c = true.
Proof.
  revert b c; induction a as [|x a IH]; intros [|y b] [|z c]; simpl; try congruence.
  destruct (N.ltb_spec x y), (N.ltb_spec y z), (N.ltb_spec x z),
    (N.eqb_spec x y), (N.eqb_spec y z), (N.eqb_spec x z); try congruence; try lia.
  apply IH.
Qed.

Lemma name_ltb_asym a b : name_ltb a b = true -> name_ltb b a = false.
Proof.
  intros H; destruct (name_ltb b a) eqn:E; [|reflexivity].
  pose proof (name_ltb_trans _ _ _ H E) as T; rewrite name_ltb_irrefl in T; discriminate.
Qed.

Lemma name_ltb_total a b : name_ltb a b = false -> name_ltb b a = false -> a = b.
Proof.
  revert b; induction a as [|x a IH]; intros [|y b]; simpl; try congruence.
  destruct (N.ltb_spec x y), (N.ltb_spec y x), (N.eqb_spec x y), (N.eqb_spec y x);
    try congruence; try lia.
  intros H1 H2; f_equal; [assumption | apply IH; assumption].
Qed.

Lemma name_leb_refl a : name_leb a a = true.
Proof. unfold name_leb; rewrite name_ltb_irrefl; reflexivity. Qed.

Lemma name_leb_total a b : name_leb a b = true \/ name_leb b a = true.
Proof.
  unfold name_leb; destruct (name_ltb b a) eqn:E; [right|left; reflexivity].
  rewrite (name_ltb_asym _ _ E); reflexivity.
Qed.

Lemma name_leb_antisym a b : name_leb a b = true -> name_leb b a = true -> a = b.
Proof.
  unfold name_leb; intros H1 H2; apply negb_true_iff in H1, H2.
  apply name_ltb_total; assumption.
Qed.

Lemma name_leb_trans a b c : name_leb a b = true -> name_leb b c = true -> name_leb a c = true.
Proof.
  unfold name_leb; intros H1 H2; apply negb_true_iff in H1, H2; apply negb_true_iff.
  destruct (name_ltb c a) eqn:E; [|reflexivity].
  destruct (name_ltb a b) eqn:Eab.
  - pose proof (name_ltb_trans _ _ _ E Eab); congruence.
  - pose proof (name_ltb_total _ _ Eab H1); subst; congruence.
Qed.

Lemma name_ltb_leb a b : name_ltb a b = true -> name_leb a b = true.
Proof. intros H; unfold name_leb; rewrite (name_ltb_asym _ _ H); reflexivity. Qed.

(** Pairs of names, ordered lexicographically (source first, then destination): the
    documented order of [get_edges()]. *)
Definition pair_ltb (p q : name * name) : bool :=
  name_ltb (fst p) (fst q) || (name_eqb (fst p) (fst q) && name_ltb (snd p) (snd q)).
Definition pair_leb (p q : name * name) : bool := negb (pair_ltb q p).
Definition pair_eqb (p q : name * name) : bool :=
  name_eqb (fst p) (fst q) && name_eqb (snd p) (snd q).

Lemma pair_eqb_spec p q : reflect (p = q) (pair_eqb p q).
Proof.
  destruct p as [a b], q as [c d]; unfold pair_eqb; simpl.
  destruct (name_eqb_spec a c), (name_eqb_spec b d); simpl; constructor; congruence.
Qed.

Lemma pair_leb_total p q : pair_leb p q = true \/ pair_leb q p = true.
Proof.
  destruct p as [a b], q as [c d]; unfold pair_leb, pair_ltb; simpl.
  destruct (name_ltb c a) eqn:E1; simpl.
  - right. rewrite (name_ltb_asym _ _ E1). rewrite name_eqb_sym.
    destruct (name_eqb_spec c a) as [->|]; simpl; [|reflexivity].
    rewrite name_ltb_irrefl in E1; discriminate.
  - destruct (name_eqb_spec c a) as [->|Hn]; simpl.
    + rewrite name_ltb_irrefl, name_eqb_refl; simpl.
      destruct (name_leb_total b d) as [H|H]; unfold name_leb in H; [left|right]; exact H.
    + left; reflexivity.
Qed.

Lemma pair_leb_antisym p q : pair_leb p q = true -> pair_leb q p = true -> p = q.
Proof.
  destruct p as [a b], q as [c d]; unfold pair_leb, pair_ltb; simpl.
  intros H1 H2; apply negb_true_iff in H1, H2.
  apply orb_false_iff in H1, H2; destruct H1 as [H1 H1'], H2 as [H2 H2'].
  pose proof (name_ltb_total _ _ H2 H1); subst c.
  rewrite name_eqb_refl in *; simpl in *.
  pose proof (name_ltb_total _ _ H2' H1'); subst; reflexivity.
Qed.

Lemma pair_leb_trans p q r : pair_leb p q = true -> pair_leb q r = true -> pair_leb p r = true.
Proof.
  destruct p as [a b], q as [c d], r as [e f]; unfold pair_leb, pair_ltb; simpl.
  intros H1 H2; apply negb_true_iff in H1, H2; apply negb_true_iff.
  apply orb_false_iff in H1, H2; destruct H1 as [H1 H1'], H2 as [H2 H2'].
  apply orb_false_iff.
  assert (Hac : name_leb a c = true) by (unfold name_leb; rewrite H1; reflexivity).
  assert (Hce : name_leb c e = true) by (unfold name_leb; rewrite H2; reflexivity).
  pose proof (name_leb_trans _ _ _ Hac Hce) as Hae.
  unfold name_leb in Hae; apply negb_true_iff in Hae. split; [exact Hae|].
  destruct (name_eqb_spec e a) as [->|Hn]; simpl; [|reflexivity].
  (* a <= c <= a, so c = a *)
  assert (c = a) by (apply name_leb_antisym; assumption). subst c.
  rewrite name_eqb_refl in *; simpl in *.
  assert (Hbd : name_leb b d = true) by (unfold name_leb; rewrite H1'; reflexivity).
  assert (Hdf : name_leb d f = true) by (unfold name_leb; rewrite H2'; reflexivity).
  pose proof (name_leb_trans _ _ _ Hbd Hdf) as Hbf. unfold name_leb in Hbf.
  apply negb_true_iff in Hbf; exact Hbf.
Qed.

(** * Generic insertion sort keyed by a total preorder *)

Section Sort.
  Variable A : Type.
  Variable leb : A -> A -> bool.

  Fixpoint insert (x : A) (l : list A) : list A :=
    match l with
    | [] => [x]
    | y :: l' => if leb x y then x :: l else y :: insert x l'
    end.

  Fixpoint isort (l : list A) : list A :=
    match l with [] => [] | x :: l' => insert x (isort l') end.

  Lemma insert_perm x l : Permutation (x :: l) (insert x l).
  Proof.
    induction l as [|y l IH]; simpl; [reflexivity|].
    destruct (leb x y); [reflexivity|].
    rewrite perm_swap; constructor; exact IH.
  Qed.

  Lemma isort_perm l : Permutation l (isort l).
  Proof.
    induction l as [|x l IH]; simpl; [constructor|].
    rewrite <- insert_perm; constructor; exact IH.
  Qed.

  Lemma isort_in x l : In x (isort l) <-> In x l.
  Proof. split; apply Permutation_in; [symmetry|]; apply isort_perm. Qed.

  Lemma isort_length l : length (isort l) = length l.
  Proof. symmetry; apply Permutation_length, isort_perm. Qed.

  Hypothesis leb_total : forall x y, leb x y = true \/ leb y x = true.
  Hypothesis leb_trans : forall x y z, leb x y = true -> leb y z = true -> leb x z = true.

  Definition le (x y : A) : Prop := leb x y = true.

  Lemma insert_sorted x l : StronglySorted le l -> StronglySorted le (insert x l).
  Proof.
    induction 1 as [|y l Hs IH Hall]; simpl; [repeat constructor|].
    destruct (leb x y) eqn:E.
    - constructor; [constructor; assumption|].
      constructor; [exact E|]. rewrite Forall_forall in *; intros z Hz.
      eapply leb_trans; [exact E | apply Hall, Hz].
    - constructor; [exact IH|].
      rewrite Forall_forall in *; intros z Hz.
      apply (Permutation_in _ (Permutation_sym (insert_perm x l))) in Hz.
      destruct Hz as [<-|Hz]; [|apply Hall, Hz].
      destruct (leb_total x y) as [H|H]; [congruence|exact H].
  Qed.

  Lemma isort_sorted l : StronglySorted le (isort l).
  Proof. induction l; simpl; [constructor|apply insert_sorted; assumption]. Qed.

  Hypothesis leb_antisym : forall x y, leb x y = true -> leb y x = true -> x = y.

  (** Two sorted permutations of one another are equal (antisymmetric order). *)
  Lemma sorted_perm_eq l1 l2 :
    StronglySorted le l1 -> StronglySorted le l2 -> Permutation l1 l2 -> l1 = l2.
  Proof.
    revert l2; induction l1 as [|x l1 IH]; intros l2 S1 S2 P.
    - apply Permutation_nil in P; subst; reflexivity.
    - destruct l2 as [|y l2]; [apply Permutation_sym, Permutation_nil in P; discriminate|].
      inversion S1 as [|? ? S1' H1]; inversion S2 as [|? ? S2' H2]; subst.
      rewrite Forall_forall in H1, H2.
      assert (x = y).
      { assert (Hx : In x (y :: l2)) by (eapply Permutation_in; [exact P|left; reflexivity]).
        assert (Hy : In y (x :: l1)) by
          (eapply Permutation_in; [symmetry; exact P|left; reflexivity]).
        destruct Hx as [->|Hx]; [reflexivity|]. destruct Hy as [<-|Hy]; [reflexivity|].
        apply leb_antisym; [apply H1, Hy | apply H2, Hx]. }
      subst y; f_equal; apply IH; try assumption.
      eapply Permutation_cons_inv; exact P.
  Qed.

  Lemma isort_perm_eq l1 l2 : Permutation l1 l2 -> isort l1 = isort l2.
  Proof.
    intros P; apply sorted_perm_eq; try apply isort_sorted.
    rewrite <- (isort_perm l1), <- (isort_perm l2); exact P.
  Qed.

  Lemma isort_id l : StronglySorted le l -> isort l = l.
  Proof.
    intros S; apply sorted_perm_eq; [apply isort_sorted|exact S|symmetry; apply isort_perm].
  Qed.
End Sort.

Definition sort_names : list name -> list name := isort name_leb.

Lemma sort_names_sorted l : StronglySorted (le name_leb) (sort_names l).
Proof. apply isort_sorted; [apply name_leb_total|apply name_leb_trans]. Qed.

Lemma sort_names_perm_eq l1 l2 : Permutation l1 l2 -> sort_names l1 = sort_names l2.
Proof.
  apply isort_perm_eq; [apply name_leb_total|apply name_leb_trans|apply name_leb_antisym].
Qed.

Lemma sort_names_in x l : In x (sort_names l) <-> In x l.
Proof. apply isort_in. Qed.

(** * Small list utilities *)

Definition mem (x : name) (l : list name) : bool := existsb (name_eqb x) l.

Lemma mem_in x l : mem x l = true <-> In x l.
Proof.
  unfold mem; rewrite existsb_exists; split.
  - intros (y & Hy & E); apply name_eqb_eq in E; subst; exact Hy.
  - intros H; exists x; split; [exact H|apply name_eqb_refl].
Qed.

Lemma mem_false x l : mem x l = false <-> ~ In x l.
Proof. rewrite <- mem_in; destruct (mem x l); split; congruence. Qed.

(** First-occurrence de-duplication. *)
Fixpoint dedup (l : list name) : list name :=
  match l with
  | [] => []
  | x :: l' => x :: filter (fun y => negb (name_eqb x y)) (dedup l')
  end.

Lemma dedup_in x l : In x (dedup l) <-> In x l.
Proof.
  revert x; induction l as [|y l IH]; intros x; simpl; [tauto|].
  rewrite filter_In, IH. destruct (name_eqb_spec y x); simpl; split; intros H.
  - destruct H as [H|[H _]]; auto.
  - destruct H as [H|H]; auto.
  - destruct H as [H|[H _]]; auto.
  - destruct H as [H|H]; [congruence|auto].
Qed.

Lemma dedup_nodup l : NoDup (dedup l).
Proof.
  induction l as [|y l IH]; simpl; constructor.
  - rewrite filter_In; intros [_ H]; rewrite name_eqb_refl in H; discriminate.
  - apply NoDup_filter; exact IH.
Qed.

(** Association lists keyed by names. *)
Section Assoc.
  Variable V : Type.
  Fixpoint lookup (k : name) (l : list (name * V)) : option V :=
    match l with
    | [] => None
    | (k', v) :: l' => if name_eqb k k' then Some v else lookup k l'
    end.
  Definition remove_key (k : name) (l : list (name * V)) : list (name * V) :=
    filter (fun kv => negb (name_eqb k (fst kv))) l.
  (** Update in place if present, append otherwise (Python [d[k] = v]). *)
  Fixpoint upsert (k : name) (v : V) (l : list (name * V)) : list (name * V) :=
    match l with
    | [] => [(k, v)]
    | (k', v') :: l' => if name_eqb k k' then (k, v) :: l' else (k', v') :: upsert k v l'
    end.

  Lemma lookup_in k v l : lookup k l = Some v -> In (k, v) l.
  Proof.
    induction l as [|[k' v'] l IH]; simpl; [discriminate|].
    destruct (name_eqb_spec k k') as [->|]; [intros [= ->]; left; reflexivity|right; auto].
  Qed.

  Lemma lookup_none k l : lookup k l = None <-> ~ In k (map fst l).
  Proof.
    induction l as [|[k' v'] l IH]; simpl; [tauto|].
    destruct (name_eqb_spec k k') as [->|Hn].
    - split; [discriminate|intros H; exfalso; apply H; left; reflexivity].
    - rewrite IH; split; [intros H [E|E]; [congruence|contradiction]|tauto].
  Qed.

  Lemma lookup_upsert_eq k v l : lookup k (upsert k v l) = Some v.
  Proof.
    induction l as [|[k' v'] l IH]; simpl; [rewrite name_eqb_refl; reflexivity|].
    destruct (name_eqb_spec k k') as [->|Hn]; simpl.
    - rewrite name_eqb_refl; reflexivity.
    - destruct (name_eqb_spec k k'); [contradiction|exact IH].
  Qed.

  Lemma lookup_upsert_neq k k2 v l : k2 <> k -> lookup k2 (upsert k v l) = lookup k2 l.
  Proof.
    intros Hn; induction l as [|[k' v'] l IH]; simpl.
    - destruct (name_eqb_spec k2 k); [contradiction|reflexivity].
    - destruct (name_eqb_spec k k') as [->|Hn']; simpl.
      + destruct (name_eqb_spec k2 k'); [contradiction|reflexivity].
      + destruct (name_eqb k2 k'); [reflexivity|exact IH].
  Qed.
End Assoc.

(** * Edge types, variable types, error classes *)

Inductive etype := Dir | Und | Bi | Unk | UnkDir | UnkUnd.
(**                  ->    --    <>   oo    o>       o-       *)

Definition etype_eqb (a b : etype) : bool :=
  match a, b with
  | Dir, Dir | Und, Und | Bi, Bi | Unk, Unk | UnkDir, UnkDir | UnkUnd, UnkUnd => true
  | _, _ => false
  end.

Lemma etype_eqb_spec a b : reflect (a = b) (etype_eqb a b).
Proof. destruct a, b; simpl; constructor; congruence. Qed.

Definition etype_code (t : etype) : N :=
  match t with Dir => 0 | Und => 1 | Bi => 2 | Unk => 3 | UnkDir => 4 | UnkUnd => 5 end%N.

Inductive vtype := VUnspec | VCont | VBin | VMulti | VOrd.

Definition vtype_eqb (a b : vtype) : bool :=
  match a, b with
  | VUnspec, VUnspec | VCont, VCont | VBin, VBin | VMulti, VMulti | VOrd, VOrd => true
  | _, _ => false
  end.

Lemma vtype_eqb_spec a b : reflect (a = b) (vtype_eqb a b).
Proof. destruct a, b; simpl; constructor; congruence. Qed.

Definition vtype_code (t : vtype) : N :=
  match t with VUnspec => 0 | VCont => 1 | VBin => 2 | VMulti => 3 | VOrd => 4 end%N.

Inductive kind := Plain | TS.

(** Exception classes the modelled code can raise (message text is never modelled). *)
Inductive err :=
| ENodeDup | EEdgeDup | EReverse | ECyclic | ENodeMissing | EEdgeMissing | EEdgeExists
| EValue | EAssert | EKey | EType | EEdgeInvalid | EConv | EInvalidAdj | EIndex.

Definition err_code (e : err) : N :=
  match e with
  | ENodeDup => 1 | EEdgeDup => 2 | EReverse => 3 | ECyclic => 4 | ENodeMissing => 5
  | EEdgeMissing => 6 | EEdgeExists => 7 | EValue => 8 | EAssert => 9 | EKey => 10
  | EType => 11 | EEdgeInvalid => 12 | EConv => 13 | EInvalidAdj => 14 | EIndex => 15
  end%N.

Inductive res (A : Type) := Ok (a : A) | Err (e : err).
Arguments Ok {A} a.
Arguments Err {A} e.

Definition bind {A B} (r : res A) (f : A -> res B) : res B :=
  match r with Ok a => f a | Err e => Err e end.

(** * JSON-representable metadata values (floats excluded).  Objects are kept key-sorted by
    the harness, so Python's order-insensitive [dict.__eq__] is structural equality here. *)
Inductive json :=
| JNull | JBool (b : bool) | JInt (z : Z) | JStr (s : name)
| JList (l : list json) | JObj (l : list (name * json)).

Fixpoint json_eqb (a b : json) {struct a} : bool :=
  match a, b with
  | JNull, JNull => true
  | JBool x, JBool y => Bool.eqb x y
  | JInt x, JInt y => Z.eqb x y
  | JStr x, JStr y => name_eqb x y
  | JList x, JList y =>
      (fix go (x y : list json) {struct x} : bool :=
         match x, y with
         | [], [] => true
         | a :: x', b :: y' => json_eqb a b && go x' y'
         | _, _ => false
         end) x y
  | JObj x, JObj y =>
      (fix go (x y : list (name * json)) {struct x} : bool :=
         match x, y with
         | [], [] => true
         | (k, a) :: x', (k', b) :: y' => name_eqb k k' && json_eqb a b && go x' y'
         | _, _ => false
         end) x y
  | _, _ => false
  end.

(** Metadata of a node / edge / graph: a key-sorted association list. *)
Definition meta := list (name * json).

Fixpoint meta_eqb (x y : meta) : bool :=
  match x, y with
  | [], [] => true
  | (k, a) :: x', (k', b) :: y' => name_eqb k k' && json_eqb a b && meta_eqb x' y'
  | _, _ => false
  end.

(** Key-sorted insertion / replacement (Python [m[k] = v] seen through the canonical order). *)
Fixpoint meta_set (k : name) (v : json) (m : meta) : meta :=
  match m with
  | [] => [(k, v)]
  | (k', v') :: m' =>
      if name_eqb k k' then (k, v) :: m'
      else if name_ltb k k' then (k, v) :: m
      else (k', v') :: meta_set k v m'
  end.

Definition meta_get (k : name) (m : meta) : option json := lookup k m.
