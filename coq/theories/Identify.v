(** Identify.v — executable model of [identify_confounders], [identify_instruments] and
    [identify_mediators] of cai_causal_graph/identify_utils.py on a DAG.

    DEFINITIONS ONLY; the proofs are in IdentifyProofs.v.

    Modelling notes (what the Python code DOES):
    - The graph is a DAG given as a [digraph A]; the input checks of [_verify_identify_inputs]
      (DAG, nodes exist, the two nodes differ) are modelled elsewhere: here the two nodes are
      assumed to be distinct vertices of a well-formed acyclic graph.
    - Python returns [list(set)]: the ORDER of the result is hash dependent, so the results
      here are to be read as sets (they are compared as sets with the real code).
    - [conf_search] follows the nested helper
      [_identify_confounders_no_checks_no_descendant_pruning_networkx] as written.  The helper
      works in place: it removes the out-edges of [n1] and [n2], loops over the predecessors of
      [n1], recurses on the pruned graph and finally puts the removed edges back.  Since the
      edges are restored before the helper returns, passing the pruned graph [g'] to the
      recursive call is faithful.  [networkx.ancestors] are STRICT ancestors, as is [anc].
    - Recursion is by explicit fuel; running out of fuel gives [None] (never a normal looking
      value).  IdentifyProofs.v proves that the fuel used by [confounders] suffices.
    - [max_num_paths] (default 25) is ignored: the model describes the calls in which no
      enumeration of causal paths yields more than 26 paths, i.e. those that do not raise
      [ValueError].
    - [identify_mediators] computes [path.difference(source_id, destination_id)] with two
      STRINGS as arguments, so Python iterates over their characters.  For single-character
      identifiers this removes exactly the two end points, which is what is modelled here
      (element-wise removal).  For longer identifiers the real code differs (see the report). *)
From CG Require Import Base Digraph.
Set Implicit Arguments.

Section Identify.
  Variable A : Type.
  Variable eqb : A -> A -> bool.

  (** Union of a list of optional sets; [None] as soon as one component is [None]. *)
  Fixpoint id_collect (l : list (option (list A))) : option (list A) :=
    match l with
    | [] => Some []
    | o :: l' =>
        match o, id_collect l' with
        | Some s, Some r => Some (union eqb s r)
        | _, _ => None
        end
    end.

  (** The nested helper of [identify_confounders], searching from [n1]. *)
  Fixpoint conf_search (fuel : nat) (g : digraph A) (n1 n2 : A) : option (list A) :=
    match fuel with
    | O => None
    | S fuel' =>
        let g' := del_arcs_from eqb g [n1; n2] in
        let an := anc eqb g' n2 in
        id_collect
          (map (fun p => if memb eqb p an then Some [p] else conf_search fuel' g' p n2)
               (parents eqb g' n1))
    end.

  Definition conf_fuel (g : digraph A) : nat := length (verts g) + 1.

  (** [identify_confounders(graph, x, y)]. *)
  Definition confounders (g : digraph A) (x y : A) : option (list A) :=
    match conf_search (conf_fuel g) g x y, conf_search (conf_fuel g) g y x with
    | Some c1, Some c2 => Some (inter eqb c1 c2)
    | _, _ => None
    end.

  (** Concatenation of optional lists of paths. *)
  Fixpoint id_concat (l : list (option (list (list A)))) : option (list (list A)) :=
    match l with
    | [] => Some []
    | o :: l' =>
        match o, id_concat l' with
        | Some s, Some r => Some (s ++ r)
        | _, _ => None
        end
    end.

  (** All simple directed paths from [x] to [d] that avoid [visited] (the nodes of the DFS
      prefix, [x] excluded), each path given as the list of its nodes starting with [x].
      This is the DFS of [networkx.all_simple_paths]. *)
  Fixpoint id_paths_from (fuel : nat) (g : digraph A) (d : A) (visited : list A) (x : A)
    : option (list (list A)) :=
    if eqb x d then Some [[x]]
    else
      match fuel with
      | O => None
      | S fuel' =>
          option_map (map (cons x))
            (id_concat
               (map (fun c => if memb eqb c (x :: visited) then Some []
                              else id_paths_from fuel' g d (x :: visited) c)
                    (children eqb g x)))
      end.

  (** [graph.get_all_causal_paths(s, d)] (which returns [[]] when [s = d]). *)
  Definition id_all_paths (g : digraph A) (s d : A) : option (list (list A)) :=
    if eqb s d then Some [] else id_paths_from (length (verts g)) g d [] s.

  (** Filter with a test that may run out of fuel. *)
  Fixpoint id_filter_opt (f : A -> option bool) (l : list A) : option (list A) :=
    match l with
    | [] => Some []
    | x :: l' =>
        match f x, id_filter_opt f l' with
        | Some b, Some r => Some (if b then x :: r else r)
        | _, _ => None
        end
    end.

  (** [identify_instruments(graph, s, d)]. *)
  Definition instruments (g : digraph A) (s d : A) : option (list A) :=
    if memb eqb d (anc eqb g s) then Some []
    else
      match confounders g s d with
      | None => None
      | Some C =>
          (* ancestors of the source that are not confounders *)
          let cand0 := diff eqb (anc eqb g s) C in
          (* drop the candidates that are descendants or ancestors of a confounder *)
          let cand1 :=
            filter (fun c => negb (existsb (fun z => memb eqb c (desc eqb g z)
                                                     || memb eqb c (anc eqb g z)) C)) cand0 in
          (* drop the candidates with a causal path to the destination avoiding the source *)
          match id_filter_opt
                  (fun c => option_map (forallb (fun p => memb eqb s p)) (id_all_paths g c d))
                  cand1 with
          | None => None
          | Some cand2 =>
              (* drop the candidates confounded with the destination *)
              id_filter_opt
                (fun c => option_map (fun Z => match Z with [] => true | _ :: _ => false end)
                                     (confounders g c d))
                cand2
          end
      end.

  (** [identify_mediators(graph, s, d)]. *)
  Definition mediators (g : digraph A) (s d : A) : option (list A) :=
    if memb eqb d (anc eqb g s) then Some []
    else
      match confounders g s d with
      | None => None
      | Some C =>
          match id_all_paths g s d with
          | None => None
          | Some ps =>
              (* the paths with more than two nodes, end points removed *)
              let strip p := filter (fun v => negb (eqb v s) && negb (eqb v d)) p in
              match map strip (filter (fun p => Nat.ltb 2 (length p)) ps) with
              | [] => Some []
              | p0 :: rest =>
                  let cand := fold_left (inter eqb) rest p0 in
                  let pg := del_arcs_from eqb g [s] in
                  Some (filter (fun c => negb (existsb (fun z => memb eqb c (desc eqb pg z)) C))
                               cand)
              end
          end
      end.
End Identify.
