(** Serial.v — executable model of dictionary serialisation (C05): [CausalGraph.to_dict],
    [CausalGraph.from_dict], [copy], [Skeleton.to_dict / from_dict], [Node.to_dict / from_dict],
    [TimeSeriesNode.to_dict], [Edge.to_dict / from_dict] (node_class dispatch),
    [TimeSeriesEdge.__init__] (conversion of plain endpoints, swap / refusal against time) and
    [TimeSeriesCausalGraph.from_causal_graph].  DEFINITIONS ONLY; proofs are in SerialProofs.v.

    The serialised value is a [json] TREE WITH ORDERED OBJECTS: every [JObj] built here lists
    its entries in Python insertion order, except the payload of a 'meta' entry, which is the
    key-sorted [meta] of the model (the harness canonicalises exactly those dictionaries).
    String-valued enums serialise as their value ('unspecified', '->', ...), which is what
    [json.dumps] writes; 'version' is the fixed placeholder [s_version_value] that the harness
    substitutes for CAUSAL_GRAPH_VERSION.

    Domain of faithful modelling of [from_dict]: dictionaries whose shapes are those produced
    by [to_dict] (possibly with missing optional keys, unknown identifiers in edges, duplicated
    identifiers, unparsable time-series names).  On other shapes the model returns an error
    (never [Ok]); three deliberate simplifications, none reachable from a [to_dict] output:
      - an 'edge_type' that is not one of the six enum strings is [Err EType] (Python stores the
        raw value without complaint);
      - shape errors that Python reports as AttributeError are [Err EType];
      - plain-class [from_dict] of an edge whose source dictionary says TimeSeriesNode and whose
        destination dictionary says Node with the SAME identifier is [Err ECyclic] here, whereas
        [TimeSeriesNode.__eq__(Node)] is False in Python and a self-loop is stored. *)
From CG Require Import Base Graph GraphObs.
Set Implicit Arguments.
Local Open Scope N_scope.

(** * String constants (code points) *)
Definition s_identifier : name := [105; 100; 101; 110; 116; 105; 102; 105; 101; 114].
Definition s_variable_type : name := [118; 97; 114; 105; 97; 98; 108; 101; 95; 116; 121; 112; 101].
Definition s_node_class : name := [110; 111; 100; 101; 95; 99; 108; 97; 115; 115].
Definition s_meta : name := [109; 101; 116; 97].
Definition s_nodes : name := [110; 111; 100; 101; 115].
Definition s_edges : name := [101; 100; 103; 101; 115].
Definition s_version : name := [118; 101; 114; 115; 105; 111; 110].
Definition s_source : name := [115; 111; 117; 114; 99; 101].
Definition s_destination : name := [100; 101; 115; 116; 105; 110; 97; 116; 105; 111; 110].
Definition s_edge_type : name := [101; 100; 103; 101; 95; 116; 121; 112; 101].
Definition s_Node : name := [78; 111; 100; 101].
Definition s_TimeSeriesNode : name :=
  [84; 105; 109; 101; 83; 101; 114; 105; 101; 115; 78; 111; 100; 101].
(** "$VERSION": stands for CAUSAL_GRAPH_VERSION *)
Definition s_version_value : name := [36; 86; 69; 82; 83; 73; 79; 78].

Definition s_unspecified : name := [117; 110; 115; 112; 101; 99; 105; 102; 105; 101; 100].
Definition s_continuous : name := [99; 111; 110; 116; 105; 110; 117; 111; 117; 115].
Definition s_binary : name := [98; 105; 110; 97; 114; 121].
Definition s_multiclass : name := [109; 117; 108; 116; 105; 99; 108; 97; 115; 115].
Definition s_ordinal : name := [111; 114; 100; 105; 110; 97; 108].

Definition vtype_str (t : vtype) : name :=
  match t with
  | VUnspec => s_unspecified | VCont => s_continuous | VBin => s_binary
  | VMulti => s_multiclass | VOrd => s_ordinal
  end.

(** [NodeVariableType(s)]; [None] = ValueError *)
Definition vtype_of_str (s : name) : option vtype :=
  if name_eqb s s_unspecified then Some VUnspec
  else if name_eqb s s_continuous then Some VCont
  else if name_eqb s s_binary then Some VBin
  else if name_eqb s s_multiclass then Some VMulti
  else if name_eqb s s_ordinal then Some VOrd
  else None.

Definition etype_str (t : etype) : name :=
  match t with
  | Dir => [45; 62] | Und => [45; 45] | Bi => [60; 62]
  | Unk => [111; 111] | UnkDir => [111; 62] | UnkUnd => [111; 45]
  end.

Definition etype_of_str (s : name) : option etype :=
  if name_eqb s (etype_str Dir) then Some Dir
  else if name_eqb s (etype_str Und) then Some Und
  else if name_eqb s (etype_str Bi) then Some Bi
  else if name_eqb s (etype_str Unk) then Some Unk
  else if name_eqb s (etype_str UnkDir) then Some UnkDir
  else if name_eqb s (etype_str UnkUnd) then Some UnkUnd
  else None.

(** [self.__class__.__name__] of the node class of a graph class *)
Definition class_str (k : kind) : name :=
  match k with Plain => s_Node | TS => s_TimeSeriesNode end.

(** * to_dict *)

(** The [time_lag] / [variable_name] properties of TimeSeriesNode: [self.meta.get(TAG)], and
    ValueError if that is None. *)
Definition tag_json (key : name) (m : meta) : option json :=
  match meta_get key m with
  | None | Some JNull => None
  | Some j => Some j
  end.

Definition opt_json (o : option json) : json :=
  match o with Some j => j | None => JNull end.

(** the node can be serialised (no ValueError from the two properties) *)
Definition node_ok (k : kind) (n : node) : bool :=
  match k with
  | Plain => true
  | TS =>
      match tag_json k_time_lag (nmeta n), tag_json k_variable_name (nmeta n) with
      | Some _, Some _ => true
      | _, _ => false
      end
  end.

(** [Node.to_dict(include_meta)] / [TimeSeriesNode.to_dict(include_meta)] *)
Definition node_json (k : kind) (im : bool) (n : node) : json :=
  JObj ([(s_identifier, JStr (nid n));
         (s_variable_type, JStr (vtype_str (nvt n)));
         (s_node_class, JStr (class_str k))]
        ++ (if im then [(s_meta, JObj (nmeta n))] else [])
        ++ match k with
           | Plain => []
           | TS => [(k_time_lag, opt_json (tag_json k_time_lag (nmeta n)));
                    (k_variable_name, opt_json (tag_json k_variable_name (nmeta n)))]
           end).

(** the node object an edge holds IS the graph's node object: its dictionary always carries
    the metadata ([self._source.to_dict()] has no argument) *)
Definition endpoint_json (k : kind) (g : graph) (id : name) : json :=
  match get_node g id with
  | Some n => node_json k true n
  | None => JNull   (* guarded by [to_dict_defined] *)
  end.

(** [Edge.to_dict(include_meta)]; [ovr] is the edge type forced by the Skeleton view *)
Definition edge_json (k : kind) (g : graph) (im : bool) (ovr : option etype) (e : edge) : json :=
  JObj ([(s_source, endpoint_json k g (esrc e));
         (s_destination, endpoint_json k g (edst e));
         (s_edge_type, JStr (etype_str (match ovr with Some t => t | None => ety e end)))]
        ++ (if im then [(s_meta, JObj (emeta e))] else [])).

(** [edges[source][destination] = ...] over [get_edges()], which lists the edges of one
    source contiguously: consecutive grouping by source. *)
Fixpoint group_edges (es : list edge) : list (name * list edge) :=
  match es with
  | [] => []
  | e :: es' =>
      match group_edges es' with
      | (s, grp) :: rest =>
          if name_eqb (esrc e) s then (s, e :: grp) :: rest
          else (esrc e, [e]) :: (s, grp) :: rest
      | [] => [(esrc e, [e])]
      end
  end.

Definition nodes_json (k : kind) (g : graph) (im : bool) : json :=
  JObj (map (fun n => (nid n, node_json k im n)) (nodes_sorted g)).

Definition edges_json (k : kind) (g : graph) (im : bool) (ovr : option etype) : json :=
  JObj (map (fun sg : name * list edge =>
               (fst sg, JObj (map (fun e => (edst e, edge_json k g im ovr e)) (snd sg))))
          (group_edges (sorted_edges g))).

(** every node serialises and every edge holds two nodes of the graph *)
Definition to_dict_defined (k : kind) (g : graph) : bool :=
  forallb (node_ok k) (gnodes g)
  && forallb (fun e => node_exists g (esrc e) && node_exists g (edst e)) (gsrc g).

Definition to_dict_raw (k : kind) (g : graph) (im : bool) : json :=
  JObj ([(s_nodes, nodes_json k g im);
         (s_edges, edges_json k g im None);
         (s_version, JStr s_version_value)]
        ++ (if im then [(s_meta, JObj (gmeta g))] else [])).

(** [CausalGraph.to_dict(include_meta)] / [TimeSeriesCausalGraph.to_dict(include_meta)];
    [Err EValue] = the ValueError of a time-series node without its tags *)
Definition to_dict (k : kind) (g : graph) (im : bool) : res json :=
  if to_dict_defined k g then Ok (to_dict_raw k g im) else Err EValue.

(** [g.skeleton.to_dict(include_meta)]: every edge retyped '--', no graph metadata *)
Definition skeleton_to_dict (k : kind) (g : graph) (im : bool) : res json :=
  if to_dict_defined k g then
    Ok (JObj [(s_nodes, nodes_json k g im);
              (s_edges, edges_json k g im (Some Und));
              (s_version, JStr s_version_value)])
  else Err EValue.

(** * Deep equality of two states (what [__eq__(deep=True)] together with equality of the
    graph metadata means when edges are stored with the same orientation) *)
Definition edge4 (e : edge) : name * name * etype * meta := (esrc e, edst e, ety e, emeta e).

Definition deep_eq_state (g h : graph) : Prop :=
  v_nodes g = v_nodes h /\ map edge4 (v_edges g) = map edge4 (v_edges h) /\ gmeta g = gmeta h.

Fixpoint list_eqb {A} (eqb : A -> A -> bool) (x y : list A) : bool :=
  match x, y with
  | [], [] => true
  | a :: x', b :: y' => eqb a b && list_eqb eqb x' y'
  | _, _ => false
  end.

Definition node3_eqb (a b : name * vtype * meta) : bool :=
  let '(i, t, m) := a in let '(i', t', m') := b in
  name_eqb i i' && vtype_eqb t t' && meta_eqb m m'.
Definition edge4_eqb (a b : name * name * etype * meta) : bool :=
  let '(s, d, t, m) := a in let '(s', d', t', m') := b in
  name_eqb s s' && name_eqb d d' && etype_eqb t t' && meta_eqb m m'.

Definition deep_eqb (g h : graph) : bool :=
  list_eqb node3_eqb (v_nodes g) (v_nodes h)
  && list_eqb edge4_eqb (map edge4 (v_edges g)) (map edge4 (v_edges h))
  && meta_eqb (gmeta g) (gmeta h).

(** * from_dict *)
Section Serial.
  Variable parse : name -> option (name * Z).
  Variable fmt : name -> Z -> option name.

  Definition jobj (j : json) : res (list (name * json)) :=
    match j with JObj l => Ok l | _ => Err EType end.

  (** [d[key]] *)
  Definition jget (key : name) (j : json) : res json :=
    bind (jobj j) (fun l =>
      match lookup key l with Some v => Ok v | None => Err EKey end).

  (** [d.get(key)] *)
  Definition jget_opt (key : name) (j : json) : res (option json) :=
    bind (jobj j) (fun l => Ok (lookup key l)).

  (** a 'meta' value handed to [HasMetadata.__init__]: None -> empty *)
  Definition meta_of (o : option json) : res meta :=
    match o with
    | None | Some JNull => Ok []
    | Some (JObj m) => Ok m
    | Some _ => Err EType
    end.

  (** [NodeCls.from_dict(node_dict)] for [NodeCls] = Node ([Plain]) / TimeSeriesNode ([TS]):
      identifier, variable type and metadata of the node OBJECT that is built.  The
      time-series class parses the identifier (ValueError) and overwrites the two tags with
      the parsed values whatever the dictionary says ("explicit wins over metadata"); the
      top-level 'time_lag' / 'variable_name' entries are never read. *)
  Definition decode_node (cls : kind) (j : json) : res (name * vtype * meta) :=
    bind (jobj j) (fun l =>
      match lookup s_identifier l with
      | None => Err EAssert
      | Some (JStr id) =>
          let vt_r : res vtype :=
            match lookup s_variable_type l with
            | None => Ok VUnspec
            | Some (JStr s) =>
                match vtype_of_str s with Some t => Ok t | None => Err EValue end
            | Some _ => Err EType
            end in
          let m_r := meta_of (lookup s_meta l) in
          match cls with
          | Plain => bind vt_r (fun vt => bind m_r (fun m => Ok (id, vt, m)))
          | TS =>
              match parse id with
              | None => Err EValue
              | Some (v, lg) =>
                  bind m_r (fun m => bind vt_r (fun vt => Ok (id, vt, set_tags v lg m)))
              end
          end
      | Some _ => match cls with Plain => Err EAssert | TS => Err EType end
      end).

  (** [graph.add_node(node=NodeCls.from_dict(node_dict))] *)
  Definition add_node_step (k : kind) (acc : res graph) (j : json) : res graph :=
    bind acc (fun g =>
      bind (decode_node k j) (fun x =>
        let '(id, vt, m) := x in fst (run_op parse fmt k g (OAddNodeObj id vt m)))).

  (** [edge_dict[...].get('node_class', 'Node')] looked up in [_NodeClassDict] *)
  Definition node_class_of (j : json) : res kind :=
    bind (jobj j) (fun l =>
      match lookup s_node_class l with
      | Some (JStr s) => Ok (if name_eqb s s_TimeSeriesNode then TS else Plain)
      | Some (JList _) | Some (JObj _) => Err EType   (* unhashable *)
      | _ => Ok Plain
      end).

  Definition etype_of_json (j : json) : res etype :=
    match j with
    | JStr s => match etype_of_str s with Some t => Ok t | None => Err EType end
    | _ => Err EType
    end.

  Definition ep (x : name * vtype * meta) : endpoint :=
    let '(id, vt, m) := x in (id, Some (vt, m)).

  (** [TimeSeriesEdge.__init__] on one endpoint: a plain Node is rebuilt as a TimeSeriesNode
      through its dictionary (identifier parsed, tags overwritten); the lag compared is the
      node's [time_lag], which in both cases is the one parsed from the identifier. *)
  Definition ts_endpoint (cls : kind) (x : name * vtype * meta)
    : res (name * vtype * meta * Z) :=
    let '(id, vt, m) := x in
    match parse id with
    | None => Err EValue
    | Some (v, lg) =>
        Ok (id, vt, match cls with TS => m | Plain => set_tags v lg m end, lg)
    end.

  (** [EdgeCls.from_dict(edge_dict)]: the two endpoint node objects (after the swap of the
      time-series class), the edge type and the edge metadata. *)
  Definition decode_edge (k : kind) (j : json) : res (endpoint * endpoint * etype * meta) :=
    bind (jget s_source j) (fun sj =>
    bind (node_class_of sj) (fun scls =>
    bind (jget s_destination j) (fun dj =>
    bind (node_class_of dj) (fun dcls =>
    bind (decode_node scls sj) (fun s =>
    bind (decode_node dcls dj) (fun d =>
    bind (jget s_edge_type j) (fun tj =>
    bind (etype_of_json tj) (fun ty =>
    bind (jget_opt s_meta j) (fun mo =>
      match k with
      | Plain => bind (meta_of mo) (fun m => Ok (ep s, ep d, ty, m))
      | TS =>
          bind (ts_endpoint scls s) (fun s' =>
          bind (ts_endpoint dcls d) (fun d' =>
            let '(s3, ls) := s' in
            let '(d3, ld) := d' in
            if (ld <? ls)%Z then
              if etype_eqb ty Dir then Err EValue
              else bind (meta_of mo) (fun m => Ok (ep d3, ep s3, ty, m))
            else bind (meta_of mo) (fun m => Ok (ep s3, ep d3, ty, m))))
      end))))))))).

  (** [graph.add_edge(edge=EdgeCls.from_dict(edge_dict), validate=validate)] *)
  Definition add_edge_step (k : kind) (validate : bool) (acc : res graph) (j : json)
    : res graph :=
    bind acc (fun g =>
      bind (decode_edge k j) (fun x =>
        let '(sp, dp, ty, m) := x in
        fst (run_op parse fmt k g (OAddEdge sp dp ty (Some m) validate)))).

  (** [for destination, edge_dict in destinations.items(): ...] *)
  Definition add_group_step (k : kind) (validate : bool) (acc : res graph) (gj : json)
    : res graph :=
    bind acc (fun g =>
      bind (jobj gj) (fun dests =>
        fold_left (add_edge_step k validate) (map snd dests) (Ok g))).

  (** [cls.from_dict(d, validate)] *)
  Definition from_dict (k : kind) (j : json) (validate : bool) : res graph :=
    bind (jget_opt s_meta j) (fun mo =>
    bind (meta_of mo) (fun m =>
    bind (jget s_nodes j) (fun nj =>
    bind (jobj nj) (fun nodes =>
    bind (fold_left (add_node_step k) (map snd nodes) (Ok (empty_graph m))) (fun g1 =>
    bind (jget s_edges j) (fun ej =>
    bind (jobj ej) (fun groups =>
      fold_left (add_group_step k validate) (map snd groups) (Ok g1)))))))).

  (** [g.copy(include_meta)] *)
  Definition copy (k : kind) (g : graph) (im : bool) : res graph :=
    bind (to_dict k g im) (fun j => from_dict k j false).

  (** [Skeleton.from_dict(d, graph_class)]: the graph behind the new skeleton (validate is
      left at its default) *)
  Definition skeleton_from_dict (k : kind) (j : json) : res graph := from_dict k j true.

  (** [TimeSeriesCausalGraph.from_causal_graph(g)] for a plain [g] *)
  Definition from_causal_graph (g : graph) : res graph :=
    bind (to_dict Plain g true) (fun j => from_dict TS j false).

  (** [CausalGraph.from_dict(ts.to_dict())] *)
  Definition ts_to_cg (g : graph) : res graph :=
    bind (to_dict TS g true) (fun j => from_dict Plain j true).
End Serial.
