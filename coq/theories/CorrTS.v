(** CorrTS.v — entry points of the C14–C17 correspondence checks (DEFINITIONS ONLY).  A case is a
    time-series graph as the implementation stores it, together with what the implementation
    returned for get_minimal_graph / is_minimal_graph / extend_graph (a grid of windows) /
    get_stationary_graph / is_stationary_graph / get_summary_graph / adjacency_matrices.  Coq
    compares each with the model's answer and evaluates the property oracles (c14_check …
    c17_check, proved equivalent to the characterisations) on the IMPLEMENTATION's outputs. *)
From CG Require Import Base Digraph TSGraph.
Set Implicit Arguments.

Fixpoint list_eqb {A} (eqb : A -> A -> bool) (a b : list A) : bool :=
  match a, b with
  | [], [] => true
  | x :: a', y :: b' => eqb x y && list_eqb eqb a' b'
  | _, _ => false
  end.

Definition err_eqb (a b : err) : bool := N.eqb (err_code a) (err_code b).

(** exact comparison: nodes in (dict) insertion order with attributes, edges in sorted order *)
Definition tsg_eqb (a b : tsg) : bool :=
  list_eqb tnode_eqb (tnodes a) (tnodes b)
  && list_eqb tedge_eqb (sorted_edges a) (sorted_edges b)
  && meta_eqb (tgmeta a) (tgmeta b).
Definition res_eqb {A} (eqb : A -> A -> bool) (a b : res A) : bool :=
  match a, b with
  | Ok x, Ok y => eqb x y
  | Err x, Err y => err_eqb x y
  | _, _ => false
  end.

Definition pnode_eqb (a b : pnode) : bool :=
  name_eqb (pn a) (pn b) && vtype_eqb (pvt a) (pvt b) && meta_eqb (pm a) (pm b).
Definition pedge_eqb (a b : pedge) : bool :=
  name_eqb (ps a) (ps b) && name_eqb (pd a) (pd b) && etype_eqb (pty a) (pty b) && meta_eqb (pem a) (pem b).
Definition pgraph_eqb (a b : pgraph) : bool :=
  list_eqb pnode_eqb (pnodes a) (pnodes b)
  && Nat.eqb (length (pedges a)) (length (pedges b))
  && forallb (fun e => existsb (pedge_eqb e) (pedges b)) (pedges a)
  && forallb (fun e => existsb (pedge_eqb e) (pedges a)) (pedges b)
  && meta_eqb (pgmeta a) (pgmeta b).

Definition matrix_eqb (a b : matrix) : bool := list_eqb (list_eqb Bool.eqb) a b.
Definition adj_eqb (a b : list (Z * matrix)) : bool :=
  Nat.eqb (length a) (length b)
  && forallb (fun p => existsb (fun q => Z.eqb (fst p) (fst q) && matrix_eqb (snd p) (snd q)) b) a.

Record tcase := {
  tc_g : tsg;
  tc_which : list bool;      (* C14 C15 C16 C17 *)
  tc_min : res tsg;
  tc_ismin : res bool;
  tc_adj : res (list (Z * matrix));
  tc_ext : list (option Z * option Z * bool * res tsg);
  tc_stat : res tsg;
  tc_isstat : res bool;
  tc_sum : res pgraph
}.

Definition b2n (b : bool) : N := if b then 1%N else 0%N.
(** oracle bit: 1 = holds, 0 = fails, 2 = premises of the property not met / not evaluated *)
Definition oracle (premise : bool) (chk : unit -> bool) : N :=
  if premise then b2n (chk tt) else 2%N.

Definition nonneg (o : option Z) : bool := match o with Some z => (0 <=? z)%Z | None => true end.
Definition latest_is_zero (g : tsg) : bool :=
  match max_lag (map tl (tnodes g)) with Some z => Z.eqb z 0 | None => false end.

(** result vector:
    [min_eq; ismin_eq; adj_eq; ext_eq (all); stat_eq; isstat_eq; sum_eq;
     c14 oracle; is_minimal oracle; c15 oracle (all windows); c16 oracle; is_stationary oracle; c17 oracle] *)
Definition check_tcase (c : tcase) : list N :=
  let g := tc_g c in
  let on (i : nat) := nth i (tc_which c) false in
  let cons := consistent_b g in
  let dag := ts_is_dag g in
  let cmp (i : nat) (t : unit -> bool) : N := if on i then b2n (t tt) else 2%N in
  [ cmp 0 (fun _ => res_eqb tsg_eqb (minimal g) (tc_min c));
    cmp 0 (fun _ => res_eqb Bool.eqb (is_minimal g) (tc_ismin c));
    cmp 0 (fun _ => res_eqb adj_eqb (adj_matrices g) (tc_adj c));
    cmp 1 (fun _ => forallb (fun q => let '(b, f, iap, r) := q in res_eqb tsg_eqb (extend g b f iap) r) (tc_ext c));
    cmp 2 (fun _ => res_eqb tsg_eqb (stationary g) (tc_stat c));
    cmp 2 (fun _ => res_eqb Bool.eqb (is_stationary_graph g) (tc_isstat c));
    cmp 3 (fun _ => res_eqb pgraph_eqb (summary g) (tc_sum c));
    (* C14: the implementation's minimal graph meets the characterisation *)
    oracle (on 0 && cons) (fun _ => match tc_min c with Ok m => c14_check g m | Err _ => false end);
    (* is_minimal_graph(g) is true exactly when g equals its minimal graph *)
    oracle (on 0 && cons) (fun _ => match tc_min c, tc_ismin c with
                                    | Ok m, Ok b => Bool.eqb b (ts_graph_eqb g m) | _, _ => false end);
    (* C15 *)
    oracle (on 1 && cons) (fun _ =>
      forallb (fun q => let '(b, f, iap, r) := q in
                        if nonneg b && nonneg f
                        then match r with Ok x => c15_check g b f iap x | Err _ => false end
                        else match r with Err _ => true | Ok _ => false end) (tc_ext c));
    (* C16 *)
    oracle (on 2 && cons && dag && latest_is_zero g) (fun _ =>
      match tc_stat c with Ok s => c16_check g s | Err _ => false end);
    oracle (on 2 && cons && latest_is_zero g) (fun _ =>
      match tc_stat c, tc_isstat c with
      | Ok s, Ok b => Bool.eqb b (dag && ts_graph_eqb s g)
      | _, _ => false end);
    (* C17 *)
    oracle (on 3 && dag) (fun _ => match tc_sum c with Ok sg => c17_check g sg | Err _ => false end) ].

Definition check_tcases (cs : list tcase) : list (list N) := map check_tcase cs.
