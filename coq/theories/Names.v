(** Names.v — executable model of the time-series node-name codec of
    /repo/cai_causal_graph/utils.py:

      - [parse]  models  [get_variable_name_and_lag(node_name)]   ([None] = ValueError)
      - [fmt]    models  [get_name_with_lag(variable_or_node_name, lag)]

    The Python code is

      is_match = re.match(r'^(?s:(.+?\n{0,}))(?: lag\(n=(\d+)\))?(?: future\(n=(\d+)\))?$', s)
                 (the source writes the newline repetition with a star; it is spelt {0,} here
                  only because star-paren would close this Coq comment)
      num_matches = len(re.findall(r'lag\(n=(\d+)\)', s)) + len(re.findall(r'future\(n=(\d+)\)', s))
      if is_match:
          if num_matches > 1: raise ValueError
          if group(2): return group(1), -int(group(2))
          elif group(3): return group(1), int(group(3))
          else: return group(1), 0
      else: raise ValueError

    Names are lists of code points.  Only the ASCII digits 0-9 are modelled for [\d]
    (Python's [\d] on [str] also accepts other Unicode decimal digits; those are outside the
    model).  Everything here is executable and total (structural recursion only); proofs are
    in NamesProofs.v. *)
From CG Require Import Base Dec.
Local Open Scope N_scope.

(** * Characters and literal pieces *)

Definition c_nl : N := 10.      (* "\n" *)
Definition c_sp : N := 32.      (* " "  *)
Definition c_close : N := 41.   (* ")"  *)

Definition w_lag : name := [108; 97; 103].                       (* "lag"    *)
Definition w_future : name := [102; 117; 116; 117; 114; 101].    (* "future" *)
Definition open_n : name := [40; 110; 61].                       (* "(n="    *)

Definition is_digit (c : N) : bool := (48 <=? c) && (c <=? 57).

(** Greedy [\d*]: the longest prefix of digits and the rest. *)
Fixpoint span_digits (s : name) : name * name :=
  match s with
  | [] => ([], [])
  | c :: s' =>
      if is_digit c then let (d, r) := span_digits s' in (c :: d, r) else ([], s)
  end.

(** Match a literal at the head of [s]; returns the rest. *)
Fixpoint strip_prefix (p s : name) : option name :=
  match p with
  | [] => Some s
  | x :: p' =>
      match s with
      | [] => None
      | y :: s' => if x =? y then strip_prefix p' s' else None
      end
  end.

(** [starts w s]: the regex [w\(n=(\d+)\)] matched at the head of [s]; returns the digit group
    and the rest of the string.  [\d+] is greedy; giving digits back can never help because the
    next pattern character is the literal [")"], which is not a digit. *)
Definition starts (w s : name) : option (name * name) :=
  match strip_prefix w s with
  | None => None
  | Some s1 =>
      match strip_prefix open_n s1 with
      | None => None
      | Some s2 =>
          let (d, s3) := span_digits s2 in
          match d, s3 with
          | _ :: _, c :: r => if c =? c_close then Some (d, r) else None
          | _, _ => None
          end
      end
  end.

(** [mark w s]: the regex [ w\(n=(\d+)\)] (with its leading space) at the head of [s]. *)
Definition mark (w s : name) : option (name * name) :=
  match s with
  | c :: s' => if c =? c_sp then starts w s' else None
  | [] => None
  end.

(** * Counting markers: [len(re.findall(w\(n=(\d+)\), s))]

    [findall] scans left to right and returns non-overlapping matches: after a match at
    position [p] of length [m] the scan resumes at [p + m].  [skip] is the number of characters
    still covered by the previous match. *)
Fixpoint count (w s : name) (skip : nat) : nat :=
  match s with
  | [] => O
  | _ :: s' =>
      match skip with
      | S k => count w s' k
      | O =>
          match starts w s with
          | Some (_, r) => S (count w s' (length s' - length r))
          | None => count w s' O
          end
      end
  end.

Definition nmarkers (s : name) : nat := (count w_lag s 0 + count w_future s 0)%nat.

(** * Decimal numerals: Python [str(n)] and [int(digits)] for [n >= 0] *)

(** [str(n)] is [dec_N n] of Dec.v (no leading zeros, ["0"] for zero). *)
Definition print_dec (n : N) : name := dec_N n.

(** [int(s)] for a non-empty string of ASCII digits (leading zeros allowed), by Horner's rule;
    [None] when [s] is empty or contains a non-digit. *)
Fixpoint read_acc (s : name) (acc : N) : option N :=
  match s with
  | [] => Some acc
  | c :: s' => if is_digit c then read_acc s' (10 * acc + (c - 48)) else None
  end.

Definition read_dec (s : name) : option N :=
  match s with
  | [] => None
  | _ :: _ => read_acc s 0
  end.

(** * The anchored regular expression

    After the lazy [.+?] has taken its characters and [\n*] its newlines, the rest of the pattern
    is [(?: lag\(n=(\d+)\))?(?: future\(n=(\d+)\))?$].  Both optional groups are greedy, so the
    backtracking order is   L F $ ,  L $ ,  F $ ,  $ . *)

(** Python's [$] without MULTILINE: at the very end, or just before one final newline. *)
Definition at_end (s : name) : bool :=
  match s with
  | [] => true
  | [c] => c =? c_nl
  | _ => false
  end.

(** [(?: future\(n=(\d+)\))?$] at the head of [s]: [Some (Some d)] if the group took part with
    digits [d], [Some None] if the group was skipped, [None] if there is no match. *)
Definition tail_F (s : name) : option (option name) :=
  match mark w_future s with
  | Some (d, r) =>
      if at_end r then Some (Some d) else if at_end s then Some None else None
  | None => if at_end s then Some None else None
  end.

(** [(?: lag\(n=(\d+)\))?(?: future\(n=(\d+)\))?$] at the head of [s]: groups 2 and 3. *)
Definition tails (s : name) : option (option name * option name) :=
  match mark w_lag s with
  | Some (d, r) =>
      match tail_F r with
      | Some f => Some (Some d, f)
      | None =>
          match tail_F s with
          | Some f => Some (None, f)
          | None => None
          end
      end
  | None =>
      match tail_F s with
      | Some f => Some (None, f)
      | None => None
      end
  end.

(** Greedy [\n*] followed by the tails: take every newline first, give them back one at a time.
    Returns the newlines kept and the groups. *)
Fixpoint try_nl (s : name) : option (name * (option name * option name)) :=
  match s with
  | [] => option_map (fun g => ([], g)) (tails [])
  | c :: s' =>
      if c =? c_nl then
        match try_nl s' with
        | Some (nl, g) => Some (c :: nl, g)
        | None => option_map (fun g => ([], g)) (tails s)
        end
      else option_map (fun g => ([], g)) (tails s)
  end.

(** Lazy [.+?] (DOTALL) after its first, mandatory, character: try to finish here, otherwise
    take one more character.  Returns what group 1 holds beyond that first character. *)
Fixpoint scan (s : name) : option (name * (option name * option name)) :=
  match try_nl s with
  | Some r => Some r
  | None =>
      match s with
      | [] => None
      | c :: s' =>
          match scan s' with
          | Some (p, g) => Some (c :: p, g)
          | None => None
          end
      end
  end.

(** [if past_lag: -int(past_lag) elif future_lag: int(future_lag) else: 0].  A group that took
    part is a non-empty digit string, hence truthy (["0"] is truthy too). *)
Definition lag_of (g : option name * option name) : option Z :=
  match g with
  | (Some d, _) => option_map (fun n => (- Z.of_N n)%Z) (read_dec d)
  | (None, Some d) => option_map Z.of_N (read_dec d)
  | (None, None) => Some 0%Z
  end.

(** [get_variable_name_and_lag]; [None] is ValueError.  The [lag_of g = None] branch is
    unreachable (a group that took part is a digit string): NamesProofs.parse_none_iff shows
    [parse s = None] exactly when [s] is empty or holds more than one marker. *)
Definition parse (s : name) : option (name * Z) :=
  match s with
  | [] => None
  | c :: s' =>
      match scan s' with
      | None => None
      | Some (p, g) =>
          if (1 <? nmarkers s)%nat then None
          else
            match lag_of g with
            | Some k => Some (c :: p, k)
            | None => None
            end
      end
  end.

(** * Formatting *)

(** The string built from a variable name and a lag is [tident v k] of Dec.v:
    [v] if [k = 0], [v ++ " future(n=" ++ str k ++ ")"] if [k > 0],
    [v ++ " lag(n=" ++ str (-k) ++ ")"] if [k < 0]. *)
Definition render (v : name) (k : Z) : name := tident v k.

(** [get_name_with_lag]: strip the old lag (may raise), then append the new one. *)
Definition fmt (s : name) (k : Z) : option name :=
  match parse s with
  | None => None
  | Some (v, _) => Some (render v k)
  end.

(** * Well-formed variable names and canonical node names *)

(** Non-empty and free of anything [lag\(n=\d+\)] or [future\(n=\d+\)] would match. *)
Definition good (v : name) : bool :=
  match v with
  | [] => false
  | _ :: _ => (nmarkers v =? 0)%nat
  end.

Definition canonical (n : name) : bool :=
  match parse n with
  | Some (v, k) => good v && name_eqb n (render v k)
  | None => false
  end.
