(** CorrTSGenStationary.v — entry points of the correspondence harness for the functions GENERATED from
    [TimeSeriesCausalGraph.get_stationary_graph] / [is_stationary_graph] (TSGenStationary.v).  DEFINITIONS and
    pinned [Example]s only.  Depends on TSGenStationary.v only (not on TSGenSummary.v).

    Case format: exactly [CorrTS.tcase] (harness/tsprops.py [cq_case]); replace [check_tcases] with
    [check_tcases_genstat].  Result: the 13-column vector of [CorrTS.check_tcase] in which only the C16 columns are
    evaluated,
      column 4  (stat_eq)    1 iff the generated get_stationary_graph equals what the implementation returned
                             ([res_eqb tsg_eqb]: nodes in dict order with attributes, edges, metadata),
      column 5  (isstat_eq)  1 iff the generated is_stationary_graph, started with an empty cache, returns what
                             the implementation returned (a returned None, i.e. not a bool, counts as [Err EType]),
      columns 10, 11         the C16 oracles on the implementation's outputs (identical to [check_tcase]),
    every other column is 2 (not evaluated). *)
From CG Require Import Base Digraph TSGraph CorrTS PyRtTSa TSGenStationary CorrTSGenCases.
Set Implicit Arguments.
Local Open Scope N_scope.

Definition gen_stationary_res (g : tsg) : res tsg := out_res (gen_get_stationary_graph g).
Definition gen_is_stationary_res (g : tsg) : res bool :=
  match gen_is_stationary_graph g None with
  | Ret (_, Some b) => Ok b
  | Ret (_, None) => Err EType
  | Exc e => Err e
  end.

Definition check_tcase_genstat (c : tcase) : list N :=
  let g := tc_g c in
  let on2 := nth 2 (tc_which c) false in
  let cons := consistent_b g in
  let dag := ts_is_dag g in
  [ 2; 2; 2; 2;
    if on2 then b2n (res_eqb tsg_eqb (gen_stationary_res g) (tc_stat c)) else 2;
    if on2 then b2n (res_eqb Bool.eqb (gen_is_stationary_res g) (tc_isstat c)) else 2;
    2; 2; 2; 2;
    oracle (on2 && cons && dag && latest_is_zero g) (fun _ =>
      match tc_stat c with Ok s => c16_check g s | Err _ => false end);
    oracle (on2 && cons && latest_is_zero g) (fun _ =>
      match tc_stat c, tc_isstat c with
      | Ok s, Ok b => Bool.eqb b (dag && ts_graph_eqb s g)
      | _, _ => false end);
    2 ].
Definition check_tcases_genstat (cs : list tcase) : list (list N) := map check_tcase_genstat cs.

Definition c16_cols (v : list N) : list N := [nth 4 v 9; nth 5 v 9; nth 10 v 9; nth 11 v 9].

(** * Pinned behaviour: the expected outputs inside [pinned_cases] were produced by the real library *)
Example genstat_pinned_eq :
  forallb (fun c => match c16_cols (check_tcase_genstat c) with
                    | [a; b; _; _] => N.eqb a 1 && N.eqb b 1 | _ => false end) pinned_cases = true.
Proof. vm_compute. reflexivity. Qed.
Example genstat_pinned_same_as_model :
  map (fun c => c16_cols (check_tcase_genstat c)) pinned_cases = map (fun c => c16_cols (check_tcase c)) pinned_cases.
Proof. vm_compute. reflexivity. Qed.
(** what the cases exercise: is_stationary_graph False (non-stationary and non-DAG inputs), True (case 8),
    AssertionError (forward lags: extend_graph asserts) and IndexError (the empty graph) *)
Example genstat_pinned_values :
  map (fun c => match gen_is_stationary_res (tc_g c) with Ok b => b2n b | Err e => 100 + err_code e end) pinned_cases
  = map (fun c => match tc_isstat c with Ok b => b2n b | Err e => 100 + err_code e end) pinned_cases.
Proof. vm_compute. reflexivity. Qed.
Example genstat_pinned_values_explicit :
  map (fun c => match gen_is_stationary_res (tc_g c) with Ok b => b2n b | Err e => 100 + err_code e end) pinned_cases
  = [0; 0; 0; 0; 0; 0; 109; 0; 1; 115; 1; 0].
Proof. vm_compute. reflexivity. Qed.
