(** TopoSortProofs.v — the modelled [networkx.topological_sort] /
    [networkx.topological_generations] and [networkx.lexicographical_topological_sort]
    (TopoSort.v), i.e. the DEFAULT answers of [get_topological_order()] (PROOFS ONLY).

    Generic part (any vertex type with a decidable equality, [wf] digraphs):
    (T1) [topological_generations_correct], [topological_sort_correct],
         [topological_sort_acyclic], [topological_sort_cycle_iff],
         [get_topological_order_correct]: a permutation of the vertices with [is_topo = true] on
         acyclic graphs, NetworkXUnfeasible (resp. the AssertionError of the library) exactly on
         cyclic ones; the KeyError branch and the end of the fuel are unreachable.
         [topological_generations_layers]: the generations are the layers of the DAG.
    (T2) [lex_topological_sort_correct], [lex_topological_sort_acyclic],
         [lex_topological_sort_cycle_iff], [get_time_topological_order_correct]: the same for any
         key; with a key that never decreases along an arc the output is [lags_sorted] and a
         member of [all_time_topo].  [lex_topological_sort_ref]: the heap algorithm is "least
         available node first"; [lex_topological_sort_least]: its answer is the lexicographically
         least topological order for [(key, index)].
    (T3) [lex_topological_sort_depends], [lex_topological_sort_perm],
         [lex_topological_sort_key_ext], [get_time_topological_order_depends]: the time-series
         default depends only on the node order, the SET of arcs and the keys of the nodes.
         [topological_generations_depends], [topological_sort_depends],
         [topological_sort_depends_children], [get_topological_order_depends]: the CausalGraph
         default depends only on the node order and the adjacency LIST of each node;
         [topological_sort_perm_refuted]: it does depend on the order inside an adjacency list.
    On the concrete graph state of Graph.v ([GraphInv.Inv], hence every reachable state):
         [v_topological_order_correct], [v_time_topological_order_correct],
         [reachable_default_topo], [reachable_default_time_topo],
         [v_time_topological_order_depends], [equal_graphs_same_time_order] (graphs that
         compare equal with [==] have the same time-series default order) and
         [equal_graphs_same_order_refuted] (false for the CausalGraph default order). *)
From Coq Require Import Relations.Relation_Operators.
From CG Require Import Base Digraph DigraphProofs Queries QueriesProofs Graph GraphObs GraphInv
  GraphInvProofs GraphAcyclicLemmas GraphAcyclicProofs Names Bridge BridgeProofs Equality
  EqualityProofs TopoSort.
Set Implicit Arguments.

Section TopoSortProofs.
  Variable A : Type.
  Variable eqb : A -> A -> bool.
  Hypothesis eqb_spec : forall x y, reflect (x = y) (eqb x y).

  Notation digraph := (digraph A).
  Local Notation memb_in := (memb_in eqb eqb_spec).
  Local Notation memb_false := (memb_false eqb eqb_spec).
  Local Notation eqb_eq := (eqb_eq eqb eqb_spec).
  Local Notation eqb_neq := (eqb_neq eqb eqb_spec).
  Local Notation eqb_refl := (eqb_refl eqb eqb_spec).
  Local Notation children_in := (children_in eqb eqb_spec).
  Local Notation parents_in := (parents_in eqb eqb_spec).
  Local Notation removeb_in := (removeb_in eqb eqb_spec).
  Local Notation dedupf := (dedupf eqb).
  Local Notation adj := (adj eqb).
  Local Notation preds := (preds eqb).
  Local Notation indeg := (indeg eqb).
  Local Notation cnt_get := (cnt_get eqb).
  Local Notation cnt_set := (cnt_set eqb).
  Local Notation cnt_del := (cnt_del eqb).
  Local Notation relax := (relax eqb).
  Local Notation memb := (memb eqb).

  (** * Dictionary keys: [dedupf] *)

  Lemma dedupf_in y l : In y (dedupf l) <-> In y l.
  Proof.
    induction l as [|x l IH]; simpl; [tauto|].
    rewrite removeb_in, IH. split.
    - intros [H|[H _]]; [left|right]; exact H.
    - intros [H|H]; [left; exact H|].
      destruct (eqb_spec y x) as [->|Hne]; [left; reflexivity|right; split; assumption].
  Qed.

  Lemma dedupf_nodup l : NoDup (dedupf l).
  Proof.
    induction l as [|x l IH]; simpl; [constructor|].
    constructor.
    - rewrite removeb_in. intros [_ H]; apply H; reflexivity.
    - apply removeb_nodup, IH.
  Qed.

  Lemma adj_in (g : digraph) x y : In y (adj g x) <-> arc g x y.
  Proof. unfold adj. rewrite dedupf_in. apply children_in. Qed.

  Lemma preds_in (g : digraph) v p : In p (preds g v) <-> arc g p v.
  Proof. unfold preds. rewrite dedupf_in. apply parents_in. Qed.

  Lemma adj_nodup (g : digraph) x : NoDup (adj g x).
  Proof. apply dedupf_nodup. Qed.

  Lemma preds_nodup (g : digraph) v : NoDup (preds g v).
  Proof. apply dedupf_nodup. Qed.

  (** * The dictionary [indegree_map] as a partial function *)

  Lemma cnt_get_del u v m : cnt_get u (cnt_del v m) = if eqb u v then None else cnt_get u m.
  Proof.
    induction m as [|[k d] m IH]; simpl; [destruct (eqb u v); reflexivity|].
    destruct (eqb_spec k v) as [->|Hkv]; simpl.
    - rewrite IH. destruct (eqb_spec u v); reflexivity.
    - rewrite IH. destruct (eqb_spec u k) as [->|Huk]; [|reflexivity].
      destruct (eqb_spec k v); [contradiction|reflexivity].
  Qed.

  Lemma cnt_get_set u v d m :
    cnt_get u (cnt_set v d m) =
    if eqb u v then match cnt_get v m with Some _ => Some d | None => None end else cnt_get u m.
  Proof.
    induction m as [|[k d0] m IH]; simpl; [destruct (eqb u v); reflexivity|].
    destruct (eqb_spec v k) as [->|Hvk]; simpl.
    - destruct (eqb_spec u k); reflexivity.
    - rewrite IH. destruct (eqb_spec u k) as [->|Huk]; [|reflexivity].
      destruct (eqb_spec k v) as [->|_]; [contradiction|reflexivity].
  Qed.

  Lemma cnt_get_nil_iff (m : cmap A) : m = [] <-> forall v, cnt_get v m = None.
  Proof.
    split; [intros -> v; reflexivity|].
    destruct m as [|[k d] m]; [reflexivity|]. intros H. specialize (H k). simpl in H.
    rewrite eqb_refl in H. discriminate.
  Qed.

  Lemma cnt_get_init (f : A -> nat) v l :
    cnt_get v (filter (fun p => negb (Nat.eqb (snd p) 0)) (map (fun v => (v, f v)) l)) =
    if memb v l && negb (Nat.eqb (f v) 0) then Some (f v) else None.
  Proof.
    induction l as [|a l IH]; [reflexivity|].
    cbn [map filter snd]. change (memb v (a :: l)) with (eqb v a || memb v l).
    destruct (eqb_spec v a) as [->|Hva].
    - destruct (Nat.eqb (f a) 0) eqn:E; cbn [negb].
      + rewrite IH. cbn [negb]. rewrite !andb_false_r. reflexivity.
      + cbn [cnt_get TopoSort.cnt_get]. rewrite eqb_refl. reflexivity.
    - cbn [orb]. destruct (Nat.eqb (f a) 0); cbn [negb]; [exact IH|].
      cbn [cnt_get TopoSort.cnt_get]. destruct (eqb_spec v a); [contradiction|exact IH].
  Qed.

  (** * [relax]: the inner [for child in ...] loop, as a function on dictionaries *)

  Definition dec (o : option nat) : option nat :=
    match o with
    | Some d => if Nat.eqb (d - 1) 0 then None else Some (d - 1)
    | None => None
    end.

  Lemma relax_spec cs :
    forall m, NoDup cs -> (forall c, In c cs -> cnt_get c m <> None) ->
      exists new m',
        (forall ready, relax cs m ready = Some (ready ++ new, m'))
        /\ NoDup new
        /\ (forall c, In c new <-> In c cs /\ exists d, cnt_get c m = Some d /\ d - 1 = 0)
        /\ (forall u, cnt_get u m' = if memb u cs then dec (cnt_get u m) else cnt_get u m).
  Proof.
    induction cs as [|c cs IH]; intros m Hnd Hkeys.
    - exists [], m. split; [intros ready; simpl; rewrite app_nil_r; reflexivity|].
      split; [constructor|]. split; [|intros u; reflexivity].
      intros c; simpl; tauto.
    - inversion Hnd as [|? ? Hnin Hnd']; subst.
      destruct (cnt_get c m) as [d|] eqn:Ec; [|exfalso; apply (Hkeys c); [left; reflexivity|exact Ec]].
      destruct (Nat.eqb (d - 1) 0) eqn:Ed.
      + (* the count reaches 0: the child becomes ready and its entry is deleted *)
        destruct (IH (cnt_del c m) Hnd') as (new & m' & Hrun & Hndn & Hnew & Hget).
        { intros c' Hc'. rewrite cnt_get_del.
          destruct (eqb_spec c' c) as [->|_]; [contradiction|]. apply Hkeys; right; exact Hc'. }
        exists (c :: new), m'. split; [|split; [|split]].
        * intros ready. cbn [relax TopoSort.relax]. rewrite Ec, Ed, Hrun, <- app_assoc. reflexivity.
        * constructor; [|exact Hndn]. intros Hin. apply Hnew in Hin. apply Hnin, (proj1 Hin).
        * intros u. cbn [In]. rewrite Hnew, cnt_get_del. split.
          -- intros [<-|[Hu (d' & Hd' & Hz)]].
             ++ split; [left; reflexivity|]. exists d. split; [exact Ec|apply Nat.eqb_eq, Ed].
             ++ destruct (eqb_spec u c) as [->|_]; [discriminate|].
                split; [right; exact Hu|]. exists d'. split; assumption.
          -- intros [[<-|Hu] (d' & Hd' & Hz)]; [left; reflexivity|right].
             split; [exact Hu|]. destruct (eqb_spec u c) as [->|_]; [contradiction|].
             exists d'. split; assumption.
        * intros u. rewrite Hget, cnt_get_del. change (memb u (c :: cs)) with (eqb u c || memb u cs).
          destruct (eqb_spec u c) as [->|Huc]; cbn [orb].
          -- destruct (memb c cs) eqn:Em; [apply memb_in in Em; contradiction|].
             rewrite Ec. cbn [dec]. rewrite Ed. reflexivity.
          -- reflexivity.
      + (* the count stays positive *)
        destruct (IH (cnt_set c (d - 1) m) Hnd') as (new & m' & Hrun & Hndn & Hnew & Hget).
        { intros c' Hc'. rewrite cnt_get_set.
          destruct (eqb_spec c' c) as [->|_]; [contradiction|]. apply Hkeys; right; exact Hc'. }
        exists new, m'. split; [|split; [exact Hndn|split]].
        * intros ready. cbn [relax TopoSort.relax]. rewrite Ec, Ed, Hrun. reflexivity.
        * intros u. rewrite Hnew, cnt_get_set. cbn [In]. split.
          -- intros [Hu (d' & Hd' & Hz)]. destruct (eqb_spec u c) as [->|_]; [contradiction|].
             split; [right; exact Hu|]. exists d'. split; assumption.
          -- intros [[<-|Hu] (d' & Hd' & Hz)].
             ++ exfalso. rewrite Ec in Hd'. inversion Hd'; subst d'.
                apply Nat.eqb_neq in Ed. contradiction.
             ++ split; [exact Hu|]. destruct (eqb_spec u c) as [->|_]; [contradiction|].
                exists d'. split; assumption.
        * intros u. rewrite Hget, cnt_get_set. change (memb u (c :: cs)) with (eqb u c || memb u cs).
          destruct (eqb_spec u c) as [->|Huc]; cbn [orb].
          -- destruct (memb c cs) eqn:Em; [apply memb_in in Em; contradiction|].
             rewrite Ec. cbn [dec]. rewrite Ed. reflexivity.
          -- reflexivity.
  Qed.

  (** The nodes made ready by [relax] are children that were passed to it. *)
  Lemma relax_ready_in cs :
    forall m ready ready' m', relax cs m ready = Some (ready', m') ->
      forall y, In y ready' -> In y ready \/ In y cs.
  Proof.
    induction cs as [|c cs IH]; intros m ready ready' m' Hr y Hy.
    - simpl in Hr. inversion Hr; subst. left; exact Hy.
    - cbn [relax TopoSort.relax] in Hr. destruct (cnt_get c m) as [d|]; [|discriminate].
      destruct (Nat.eqb (d - 1) 0).
      + destruct (IH _ _ _ _ Hr y Hy) as [H|H]; [|right; right; exact H].
        apply in_app_or in H. destruct H as [H|[<-|[]]]; [left; exact H|right; left; reflexivity].
      + destruct (IH _ _ _ _ Hr y Hy) as [H|H]; [left; exact H|right; right; exact H].
  Qed.

  (** * Small facts on lists *)

  Lemma memb_app x l1 l2 : memb x (l1 ++ l2) = memb x l1 || memb x l2.
  Proof. unfold Digraph.memb. apply existsb_app. Qed.

  Lemma filter_nil_iff (X : Type) (f : X -> bool) l :
    filter f l = [] <-> forall x, In x l -> f x = false.
  Proof.
    induction l as [|a l IH]; simpl; [split; [intros _ x []|reflexivity]|].
    destruct (f a) eqn:E.
    - split; [discriminate|]. intros H. rewrite (H a (or_introl eq_refl)) in E. discriminate.
    - rewrite IH. split.
      + intros H x [<-|Hx]; [exact E|apply H, Hx].
      + intros H x Hx. apply H. right; exact Hx.
  Qed.

  Lemma filter_all (X : Type) (f : X -> bool) l :
    (forall x, In x l -> f x = true) -> filter f l = l.
  Proof.
    induction l as [|a l IH]; intros H; simpl; [reflexivity|].
    rewrite (H a (or_introl eq_refl)), IH; [reflexivity|]. intros x Hx; apply H; right; exact Hx.
  Qed.

  (** Removing one element of a duplicate-free list from a filter. *)
  Lemma filter_remove_length (f : A -> bool) x l :
    NoDup l ->
    length (filter (fun p => f p && negb (eqb p x)) l) + (if memb x l && f x then 1 else 0)
    = length (filter f l).
  Proof.
    induction l as [|a l IH]; intros Hnd; [reflexivity|].
    inversion Hnd as [|? ? Hnin Hnd']; subst. specialize (IH Hnd').
    change (memb x (a :: l)) with (eqb x a || memb x l). cbn [filter].
    destruct (eqb_spec x a) as [->|Hxa]; cbn [orb].
    - rewrite eqb_refl, andb_false_r.
      assert (Em : memb a l = false) by (apply memb_false; exact Hnin).
      rewrite Em in IH. cbn [andb] in IH |- *. destruct (f a); simpl; lia.
    - destruct (eqb_spec a x) as [->|_]; [contradiction|]. rewrite andb_true_r.
      destruct (f a); simpl; lia.
  Qed.

  Lemma before_snoc (l : list A) a b x : before l a b -> before (l ++ [x]) a b.
  Proof.
    intros (l1 & l2 & l3 & ->). exists l1, l2, (l3 ++ [x]).
    rewrite <- app_assoc. simpl. rewrite <- app_assoc. reflexivity.
  Qed.

  Lemma before_last (l : list A) a x : In a l -> before (l ++ [x]) a x.
  Proof.
    intros Ha. apply in_split in Ha. destruct Ha as (l1 & l2 & ->). exists l1, l2, [].
    rewrite <- app_assoc. reflexivity.
  Qed.

  (** * Kahn's invariant, shared by the two routines *)
  Section Kahn.
    Variable g : digraph.
    Hypothesis Hwf : wf g.

    (** the number of predecessors of [v] that have not been output yet *)
    Definition rc (done : list A) (v : A) : nat :=
      length (filter (fun p => negb (memb p done)) (preds g v)).

    Lemma rc_nil v : rc [] v = indeg g v.
    Proof. unfold rc, TopoSort.indeg. rewrite filter_all; [reflexivity|]. intros x _; reflexivity. Qed.

    Lemma rc_zero done v : rc done v = 0 <-> forall p, arc g p v -> In p done.
    Proof.
      unfold rc. rewrite length_zero_iff_nil, filter_nil_iff. split.
      - intros H p Hp. apply preds_in in Hp. apply H in Hp. apply negb_false_iff, memb_in in Hp. exact Hp.
      - intros H p Hp. apply preds_in in Hp. apply negb_false_iff, memb_in, H, Hp.
    Qed.

    Lemma rc_pos done v : rc done v > 0 -> exists p, arc g p v /\ ~ In p done.
    Proof.
      unfold rc. destruct (filter (fun p => negb (memb p done)) (preds g v)) as [|p r] eqn:E;
        [simpl; lia|]. intros _.
      assert (Hp : In p (filter (fun p => negb (memb p done)) (preds g v))) by (rewrite E; left; reflexivity).
      apply filter_In in Hp. destruct Hp as [Hp Hn]. exists p. split; [apply preds_in, Hp|].
      apply memb_false, negb_true_iff, Hn.
    Qed.

    Lemma rc_snoc done x v :
      ~ In x done -> rc (done ++ [x]) v + (if memb v (adj g x) then 1 else 0) = rc done v.
    Proof.
      intros Hx. unfold rc.
      rewrite (filter_ext (fun p => negb (memb p (done ++ [x])))
                          (fun p => negb (memb p done) && negb (eqb p x))).
      2:{ intros p. rewrite memb_app. simpl. rewrite orb_false_r, negb_orb. reflexivity. }
      rewrite <- (filter_remove_length (fun p => negb (memb p done)) x (preds_nodup g v)).
      f_equal.
      assert (Hd : memb x done = false) by (apply memb_false; exact Hx). rewrite Hd, andb_true_r.
      destruct (memb_reflect eqb eqb_spec v (adj g x)) as [H1|H1];
        destruct (memb_reflect eqb eqb_spec x (preds g v)) as [H2|H2]; try reflexivity; exfalso.
      - apply H2, preds_in, adj_in, H1.
      - apply H1, adj_in, preds_in, H2.
    Qed.

    Record KInv (done pend : list A) (m : cmap A) : Prop := {
      inv_nd_done : NoDup done;
      inv_nd_pend : NoDup pend;
      inv_disj : forall v, In v done -> ~ In v pend;
      inv_done_verts : incl done (verts g);
      inv_pend_verts : incl pend (verts g);
      inv_pend_rc : forall v, In v pend -> rc done v = 0;
      inv_map : forall v d,
          cnt_get v m = Some d <-> In v (verts g) /\ ~ In v done /\ ~ In v pend /\ d = rc done v;
      inv_pos : forall v, In v (verts g) -> ~ In v done -> ~ In v pend -> rc done v > 0;
      inv_topo : forall a b, arc g a b -> In b done -> before done a b
    }.

    (** The initial state of both routines. *)
    Lemma inv_init : KInv [] (zero_indegree eqb g) (indegree_map eqb g).
    Proof.
      destruct Hwf as [Hndv Harcs].
      unfold zero_indegree, indegree_map. constructor.
      - constructor.
      - apply NoDup_filter, Hndv.
      - intros v [].
      - intros v [].
      - intros v Hv. apply filter_In in Hv. exact (proj1 Hv).
      - intros v Hv. apply filter_In in Hv. rewrite rc_nil. apply Nat.eqb_eq, (proj2 Hv).
      - intros v d. rewrite cnt_get_init, rc_nil, filter_In.
        destruct (memb_reflect eqb eqb_spec v (verts g)) as [Hv|Hv]; cbn [andb].
        + destruct (Nat.eqb (indeg g v) 0) eqn:E; cbn [negb]; split.
          * discriminate.
          * intros (_ & _ & Hn & _). exfalso. apply Hn. split; [exact Hv|reflexivity].
          * intros H; inversion H; subst d. split; [exact Hv|]. split; [intros []|].
            split; [|reflexivity]. intros [_ H']; discriminate.
          * intros (_ & _ & _ & ->). reflexivity.
        + split; [discriminate|]. intros (H & _); contradiction.
      - intros v Hv _ Hn. rewrite rc_nil.
        destruct (Nat.eqb (indeg g v) 0) eqn:E; [|apply Nat.eqb_neq in E; lia].
        exfalso. apply Hn, filter_In. split; assumption.
      - intros a b _ [].
    Qed.

    (** Output one pending node [x] and relax its children. *)
    Lemma kahn_step done pend m x pend' :
      KInv done pend m -> Permutation pend (x :: pend') ->
      exists new m',
        (forall ready, relax (adj g x) m ready = Some (ready ++ new, m'))
        /\ (forall c, In c new -> arc g x c)
        /\ KInv (done ++ [x]) (pend' ++ new) m'.
    Proof.
      intros HI Hperm. destruct Hwf as [Hndv Harcs].
      assert (Hxp : In x pend) by (apply (Permutation_in _ (Permutation_sym Hperm)); left; reflexivity).
      assert (Hxd : ~ In x done) by (intros H; exact (inv_disj HI x H Hxp)).
      assert (Hnd' : NoDup (x :: pend')) by (apply (Permutation_NoDup Hperm), (inv_nd_pend HI)).
      inversion Hnd' as [|? ? Hxp' Hndp']; subst.
      assert (Hsub : forall v, In v pend' -> In v pend).
      { intros v Hv. apply (Permutation_in _ (Permutation_sym Hperm)). right; exact Hv. }
      assert (Hsplit : forall v, In v pend -> v = x \/ In v pend').
      { intros v Hv. apply (Permutation_in _ Hperm) in Hv. destruct Hv as [<-|Hv]; [left|right]; auto. }
      assert (Hrcx : rc done x = 0) by (apply (inv_pend_rc HI), Hxp).
      (* the children of [x] still have an entry *)
      assert (Hch : forall c, In c (adj g x) ->
                 In c (verts g) /\ ~ In c done /\ ~ In c pend /\ rc done c > 0).
      { intros c Hc. apply adj_in in Hc.
        assert (Hcd : ~ In c done).
        { intros H. apply (inv_topo HI x c Hc) in H. apply before_in in H. exact (Hxd (proj1 H)). }
        assert (Hcp : ~ In c pend).
        { intros H. apply (inv_pend_rc HI) in H. apply Hxd. exact (proj1 (rc_zero done c) H x Hc). }
        assert (Hcv : In c (verts g)) by apply (Harcs x c Hc).
        split; [exact Hcv|]. split; [exact Hcd|]. split; [exact Hcp|]. apply (inv_pos HI); assumption. }
      destruct (@relax_spec (adj g x) m (adj_nodup g x)) as (new & m' & Hrun & Hndn & Hnew & Hget).
      { intros c Hc. destruct (Hch c Hc) as (H1 & H2 & H3 & _).
        assert (E : cnt_get c m = Some (rc done c)) by (apply (inv_map HI); tauto).
        rewrite E. discriminate. }
      assert (Hnew' : forall c, In c new <-> In c (adj g x) /\ rc done c = 1).
      { intros c. rewrite Hnew. split.
        - intros [Hc (d & Hd & Hz)]. split; [exact Hc|]. destruct (Hch c Hc) as (_ & _ & _ & Hpos).
          apply (inv_map HI) in Hd. destruct Hd as (_ & _ & _ & ->). lia.
        - intros [Hc H1]. split; [exact Hc|]. destruct (Hch c Hc) as (H2 & H3 & H4 & _).
          exists (rc done c). split; [apply (inv_map HI); tauto|lia]. }
      assert (Hsn : forall v, rc (done ++ [x]) v + (if memb v (adj g x) then 1 else 0) = rc done v)
        by (intros v; apply rc_snoc, Hxd).
      exists new, m'. split; [exact Hrun|]. split.
      { intros c Hc. apply Hnew' in Hc. apply adj_in, (proj1 Hc). }
      constructor.
      - (* NoDup (done ++ [x]) *)
        apply NoDup_app_intro; [exact (inv_nd_done HI)|constructor; [intros []|constructor]|].
        intros v Hv [<-|[]]. exact (Hxd Hv).
      - (* NoDup (pend' ++ new) *)
        apply NoDup_app_intro; [exact Hndp'|exact Hndn|].
        intros v Hv Hn. apply Hnew' in Hn. destruct (Hch v (proj1 Hn)) as (_ & _ & H & _).
        apply H, Hsub, Hv.
      - (* disjoint *)
        intros v Hv Hp. apply in_app_or in Hv. apply in_app_or in Hp.
        destruct Hv as [Hv|[<-|[]]]; destruct Hp as [Hp|Hp].
        + exact (inv_disj HI v Hv (Hsub v Hp)).
        + apply Hnew' in Hp. destruct (Hch v (proj1 Hp)) as (_ & H & _). exact (H Hv).
        + exact (Hxp' Hp).
        + apply Hnew' in Hp. destruct (Hch x (proj1 Hp)) as (_ & _ & H & _). exact (H Hxp).
      - intros v Hv. apply in_app_or in Hv. destruct Hv as [Hv|[<-|[]]];
          [apply (inv_done_verts HI), Hv|apply (inv_pend_verts HI), Hxp].
      - intros v Hv. apply in_app_or in Hv. destruct Hv as [Hv|Hv];
          [apply (inv_pend_verts HI), Hsub, Hv|].
        apply Hnew' in Hv. apply (Hch v (proj1 Hv)).
      - (* the pending nodes have no predecessor left *)
        intros v Hv. specialize (Hsn v). apply in_app_or in Hv. destruct Hv as [Hv|Hv].
        + pose proof (inv_pend_rc HI v (Hsub v Hv)) as H0. lia.
        + apply Hnew' in Hv. destruct Hv as [Hv H1].
          apply (memb_in v (adj g x)) in Hv. rewrite Hv in Hsn. lia.
      - (* the dictionary *)
        intros v d. rewrite Hget. specialize (Hsn v).
        destruct (memb_reflect eqb eqb_spec v (adj g x)) as [Hv|Hv].
        + destruct (Hch v Hv) as (H1 & H2 & H3 & H4).
          assert (E : cnt_get v m = Some (rc done v)) by (apply (inv_map HI); tauto).
          rewrite E. cbn [dec].
          destruct (Nat.eqb (rc done v - 1) 0) eqn:Ez.
          * apply Nat.eqb_eq in Ez. split; [discriminate|].
            intros (_ & _ & Hn & _). exfalso. apply Hn, in_or_app. right. apply Hnew'. split; [exact Hv|lia].
          * apply Nat.eqb_neq in Ez. split.
            -- intros H; inversion H; subst d. split; [exact H1|]. split; [|split; [|lia]].
               ++ intros Hin. apply in_app_or in Hin. destruct Hin as [Hin|[<-|[]]]; [exact (H2 Hin)|exact (H3 Hxp)].
               ++ intros Hin. apply in_app_or in Hin. destruct Hin as [Hin|Hin]; [exact (H3 (Hsub v Hin))|].
                  apply Hnew' in Hin. lia.
            -- intros (_ & _ & _ & ->). f_equal. lia.
        + split.
          * intros H. apply (inv_map HI) in H. destruct H as (H1 & H2 & H3 & ->).
            split; [exact H1|]. split; [|split; [|lia]].
            -- intros Hin. apply in_app_or in Hin. destruct Hin as [Hin|[<-|[]]]; [exact (H2 Hin)|exact (H3 Hxp)].
            -- intros Hin. apply in_app_or in Hin. destruct Hin as [Hin|Hin]; [exact (H3 (Hsub v Hin))|].
               apply Hnew' in Hin. exact (Hv (proj1 Hin)).
          * intros (H1 & H2 & H3 & ->). apply (inv_map HI). split; [exact H1|].
            split; [intros Hin; apply H2, in_or_app; left; exact Hin|].
            split; [|lia]. intros Hin. destruct (Hsplit v Hin) as [->|Hin'].
            -- apply H2, in_or_app. right; left; reflexivity.
            -- apply H3, in_or_app. left; exact Hin'.
      - (* the remaining entries are positive *)
        intros v H1 H2 H3. specialize (Hsn v).
        assert (H2' : ~ In v done) by (intros Hin; apply H2, in_or_app; left; exact Hin).
        assert (Hvx : v <> x) by (intros ->; apply H2, in_or_app; right; left; reflexivity).
        assert (H3' : ~ In v pend).
        { intros Hin. destruct (Hsplit v Hin) as [->|Hin']; [congruence|].
          apply H3, in_or_app. left; exact Hin'. }
        pose proof (inv_pos HI v H1 H2' H3') as Hpos.
        destruct (memb_reflect eqb eqb_spec v (adj g x)) as [Hv|Hv]; [|lia].
        assert (rc done v <> 1); [|lia].
        intros E1. apply H3, in_or_app. right. apply Hnew'. split; assumption.
      - (* the output so far is a topological order of what it contains *)
        intros a b Hab Hb. apply in_app_or in Hb. destruct Hb as [Hb|[<-|[]]].
        + apply before_snoc, (inv_topo HI a b Hab Hb).
        + apply before_last. exact (proj1 (rc_zero done x) Hrcx a Hab).
    Qed.

    Lemma inv_length done pend m : KInv done pend m -> length done + length pend <= length (verts g).
    Proof.
      intros HI. rewrite <- app_length. apply NoDup_incl_length.
      - apply NoDup_app_intro; [exact (inv_nd_done HI)|exact (inv_nd_pend HI)|exact (inv_disj HI)].
      - intros v Hv. apply in_app_or in Hv.
        destruct Hv as [Hv|Hv]; [apply (inv_done_verts HI), Hv|apply (inv_pend_verts HI), Hv].
    Qed.

    (** Nothing is pending and the dictionary is empty: everything has been output. *)
    Lemma inv_final_ok done : KInv done [] [] -> topo_order g done.
    Proof.
      intros HI. destruct Hwf as [Hndv Harcs].
      assert (Hall : forall v, In v (verts g) -> In v done).
      { intros v Hv. destruct (memb_reflect eqb eqb_spec v done) as [H|H]; [exact H|exfalso].
        assert (E : cnt_get v [] = Some (rc done v)).
        { apply (inv_map HI). split; [exact Hv|]. split; [exact H|]. split; [intros []|reflexivity]. }
        discriminate. }
      split.
      - apply NoDup_Permutation; [exact (inv_nd_done HI)|exact Hndv|].
        intros v; split; [apply (inv_done_verts HI)|apply Hall].
      - intros a b Hab. apply (inv_topo HI a b Hab), Hall, (Harcs a b Hab).
    Qed.

    (** Nothing is pending but some entry is left: every remaining node has a remaining
        predecessor, so the graph has a cycle. *)
    Lemma inv_final_cycle done m : KInv done [] m -> m <> [] -> ~ acyclic g.
    Proof.
      intros HI Hne Hac.
      destruct (acyclic_rank eqb eqb_spec Hwf Hac) as (rank & Hrank).
      destruct Hwf as [Hndv Harcs].
      assert (Hno : forall n v, rank v < n -> In v (verts g) -> ~ In v done -> False).
      { induction n as [|n IH]; intros v Hlt Hv Hd; [lia|].
        destruct (@rc_pos done v) as (p & Hp & Hpd); [apply (inv_pos HI); [exact Hv|exact Hd|intros []]|].
        apply (IH p); [pose proof (Hrank p v Hp); lia|apply (Harcs p v Hp)|exact Hpd]. }
      destruct m as [|[k d] m]; [contradiction|].
      assert (E : cnt_get k ((k, d) :: m) = Some d) by (simpl; rewrite eqb_refl; reflexivity).
      apply (inv_map HI) in E. destruct E as (Hk & Hkd & _).
      exact (Hno (S (rank k)) k (Nat.lt_succ_diag_r _) Hk Hkd).
    Qed.

    (** ** [topological_generations] / [topological_sort] *)

    Lemma gen_step_inv gen :
      forall done next m, KInv done (gen ++ next) m ->
        exists next' m', gen_step eqb g gen m next = Some (next', m')
                         /\ KInv (done ++ gen) next' m'
                         /\ (forall v, In v next' -> In v next \/ exists x, In x gen /\ arc g x v).
    Proof.
      induction gen as [|x gen IH]; intros done next m HI.
      - exists next, m. split; [reflexivity|]. split; [rewrite app_nil_r; exact HI|].
        intros v Hv; left; exact Hv.
      - destruct (@kahn_step done (x :: gen ++ next) m x (gen ++ next) HI (Permutation_refl _))
          as (new & m' & Hrun & Hnew & HI').
        rewrite <- app_assoc in HI'.
        destruct (IH (done ++ [x]) (next ++ new) m' HI') as (next' & m'' & Hstep & HI'' & Hfrom).
        exists next', m''. split; [|split].
        + cbn [gen_step]. rewrite Hrun. exact Hstep.
        + rewrite <- app_assoc in HI''. exact HI''.
        + intros v Hv. destruct (Hfrom v Hv) as [Hin|(y & Hy & Hyv)].
          * apply in_app_or in Hin. destruct Hin as [Hin|Hin]; [left; exact Hin|].
            right. exists x. split; [left; reflexivity|apply Hnew, Hin].
          * right. exists y. split; [right; exact Hy|exact Hyv].
    Qed.

    Lemma gens_loop_nil fuel m :
      gens_loop eqb fuel g [] m = match m with [] => TOk [] | _ :: _ => TCycle end.
    Proof. destruct fuel; reflexivity. Qed.

    Lemma gens_loop_spec fuel :
      forall done gen m, KInv done gen m -> length (verts g) <= fuel + length done ->
        match gens_loop eqb fuel g gen m with
        | TOk gs => topo_order g (done ++ concat gs)
        | TCycle => ~ acyclic g
        | _ => False
        end.
    Proof.
      induction fuel as [|f IH]; intros done gen m HI Hfuel.
      - destruct gen as [|x gen].
        + rewrite gens_loop_nil. destruct m as [|e m].
          * simpl. rewrite app_nil_r. apply inv_final_ok, HI.
          * apply (inv_final_cycle HI). discriminate.
        + pose proof (inv_length HI) as Hlen. simpl in Hlen, Hfuel. lia.
      - destruct gen as [|x gen].
        + rewrite gens_loop_nil. destruct m as [|e m].
          * simpl. rewrite app_nil_r. apply inv_final_ok, HI.
          * apply (inv_final_cycle HI). discriminate.
        + cbn [gens_loop].
          assert (HI0 : KInv done ((x :: gen) ++ []) m) by (rewrite app_nil_r; exact HI).
          destruct (@gen_step_inv (x :: gen) done [] m HI0) as (next & m' & Hstep & HI' & _).
          rewrite Hstep.
          assert (Hfuel' : length (verts g) <= f + length (done ++ x :: gen))
            by (rewrite app_length; simpl; lia).
          specialize (IH (done ++ x :: gen) next m' HI' Hfuel').
          destruct (gens_loop eqb f g next m') as [gs| | | |]; try exact IH.
          cbn [concat]. rewrite app_assoc. exact IH.
    Qed.

    (** The generations are the layers of the graph: a generation is not empty, all the
        parents of its nodes are in earlier generations, and (from the second generation on)
        every node has a parent in the generation just before — so the generation of a node is
        the length of the longest path that ends in it, whatever the order of the arcs. *)
    Fixpoint layered (done : list A) (gs : list (list A)) : Prop :=
      match gs with
      | [] => True
      | gen :: gs' =>
          gen <> [] /\ (forall v p, In v gen -> arc g p v -> In p done) /\ layered (done ++ gen) gs'
      end.

    Fixpoint linked (prev : list A) (gs : list (list A)) : Prop :=
      match gs with
      | [] => True
      | gen :: gs' => (forall v, In v gen -> exists p, In p prev /\ arc g p v) /\ linked gen gs'
      end.

    Lemma gens_loop_layers fuel :
      forall done gen m gs, KInv done gen m -> gens_loop eqb fuel g gen m = TOk gs ->
        layered done gs
        /\ match gs with [] => gen = [] | g0 :: rest => g0 = gen /\ linked gen rest end.
    Proof.
      induction fuel as [|f IH]; intros done gen m gs HI H.
      - destruct gen as [|x gen]; [|discriminate]. rewrite gens_loop_nil in H.
        destruct m; inversion H; subst. split; [exact I|reflexivity].
      - destruct gen as [|x gen].
        + rewrite gens_loop_nil in H. destruct m; inversion H; subst. split; [exact I|reflexivity].
        + cbn [gens_loop] in H.
          assert (HI0 : KInv done ((x :: gen) ++ []) m) by (rewrite app_nil_r; exact HI).
          destruct (@gen_step_inv (x :: gen) done [] m HI0) as (next & m' & Hstep & HI' & Hfrom).
          rewrite Hstep in H.
          destruct (gens_loop eqb f g next m') as [gs0| | | |] eqn:E; try discriminate.
          inversion H; subst gs. clear H.
          destruct (IH (done ++ x :: gen) next m' gs0 HI' E) as [Hlay Hhd].
          split.
          * cbn [layered]. split; [discriminate|]. split; [|exact Hlay].
            intros v p Hv Hp. exact (proj1 (rc_zero done v) (inv_pend_rc HI v Hv) p Hp).
          * split; [reflexivity|]. destruct gs0 as [|g1 rest]; [exact I|].
            destruct Hhd as [-> Hlink]. cbn [linked]. split; [|exact Hlink].
            intros v Hv. destruct (Hfrom v Hv) as [[]|(y & Hy & Hyv)]. exists y. split; assumption.
    Qed.

    (** ** [lexicographical_topological_sort] *)

    Lemma pop_min_none (leb : A -> A -> bool) l : pop_min leb l = None -> l = [].
    Proof.
      destruct l as [|a l]; [reflexivity|]. simpl.
      destruct (pop_min leb l) as [[m0 r]|]; [destruct (leb a m0)|]; discriminate.
    Qed.

    Lemma pop_min_perm (leb : A -> A -> bool) l :
      forall x r, pop_min leb l = Some (x, r) -> Permutation l (x :: r).
    Proof.
      induction l as [|a l IH]; intros x r H; [discriminate|]. simpl in H.
      destruct (pop_min leb l) as [[m0 r0]|] eqn:E.
      - specialize (IH m0 r0 eq_refl). destruct (leb a m0); inversion H; subst.
        + reflexivity.
        + rewrite IH. apply perm_swap.
      - apply pop_min_none in E. subst l. inversion H; subst. reflexivity.
    Qed.

    Lemma pop_min_least (leb : A -> A -> bool) :
      (forall x y, leb x y = true \/ leb y x = true) ->
      (forall x y z, leb x y = true -> leb y z = true -> leb x z = true) ->
      forall l x r, pop_min leb l = Some (x, r) -> forall y, In y l -> leb x y = true.
    Proof.
      intros Htot Htrans. induction l as [|a l IH]; intros x r H y Hy; [discriminate|]. simpl in H.
      assert (Hrefl : forall z, leb z z = true) by (intros z; destruct (Htot z z); assumption).
      destruct (pop_min leb l) as [[m0 r0]|] eqn:E.
      - specialize (IH m0 r0 eq_refl). destruct (leb a m0) eqn:Eam; inversion H; subst.
        + destruct Hy as [<-|Hy]; [apply Hrefl|]. apply (Htrans x m0 y Eam), IH, Hy.
        + destruct Hy as [<-|Hy]; [|apply IH, Hy].
          destruct (Htot a x) as [H1|H1]; [congruence|exact H1].
      - apply pop_min_none in E. subst l. inversion H; subst.
        destruct Hy as [<-|[]]. apply Hrefl.
    Qed.

    Lemma lex_loop_spec (leb : A -> A -> bool) fuel :
      forall done heap m, KInv done heap m -> length (verts g) <= fuel + length done ->
        match lex_loop eqb fuel g leb heap m with
        | TOk l => topo_order g (done ++ l)
        | TCycle => ~ acyclic g
        | _ => False
        end.
    Proof.
      induction fuel as [|f IH]; intros done heap m HI Hfuel.
      - cbn [lex_loop]. destruct (pop_min leb heap) as [[x heap']|] eqn:E.
        + apply pop_min_perm in E. pose proof (inv_length HI) as Hlen.
          rewrite (Permutation_length E) in Hlen. simpl in Hlen, Hfuel. lia.
        + apply pop_min_none in E. subst heap. destruct m as [|e m].
          * rewrite app_nil_r. apply inv_final_ok, HI.
          * apply (inv_final_cycle HI). discriminate.
      - cbn [lex_loop]. destruct (pop_min leb heap) as [[x heap']|] eqn:E.
        + apply pop_min_perm in E.
          destruct (@kahn_step done heap m x heap' HI E) as (new & m' & Hrun & _ & HI').
          rewrite Hrun.
          assert (Hfuel' : length (verts g) <= f + length (done ++ [x]))
            by (rewrite app_length; simpl; lia).
          specialize (IH (done ++ [x]) (heap' ++ new) m' HI' Hfuel').
          destruct (lex_loop eqb f g leb (heap' ++ new) m') as [l| | | |]; try exact IH.
          rewrite <- app_assoc in IH. exact IH.
        + apply pop_min_none in E. subst heap. destruct m as [|e m].
          * rewrite app_nil_r. apply inv_final_ok, HI.
          * apply (inv_final_cycle HI). discriminate.
    Qed.

    (** With a key that never decreases along an arc, the keys of the output never decrease. *)
    Lemma lex_loop_sorted (key : A -> Z) (leb : A -> A -> bool) :
      (forall x y, leb x y = true \/ leb y x = true) ->
      (forall x y z, leb x y = true -> leb y z = true -> leb x z = true) ->
      (forall x y, leb x y = true -> (key x <= key y)%Z) ->
      (forall a b, arc g a b -> (key a <= key b)%Z) ->
      forall fuel heap m l, lex_loop eqb fuel g leb heap m = TOk l ->
        lags_sorted key l = true
        /\ forall x l', l = x :: l' -> In x heap /\ forall y, In y heap -> (key x <= key y)%Z.
    Proof.
      intros Htot Htrans Hkey Harc.
      induction fuel as [|f IH]; intros heap m l H; cbn [lex_loop] in H.
      - destruct (pop_min leb heap) as [[x heap']|]; [discriminate|].
        destruct m; inversion H; subst. split; [reflexivity|]. intros x l' E; discriminate.
      - destruct (pop_min leb heap) as [[x heap']|] eqn:E.
        2:{ destruct m; inversion H; subst. split; [reflexivity|]. intros x l' E'; discriminate. }
        destruct (relax (adj g x) m heap') as [[heap'' m']|] eqn:Er; [|discriminate].
        destruct (lex_loop eqb f g leb heap'' m') as [l0| | | |] eqn:El; try discriminate.
        inversion H; subst l. clear H.
        pose proof (@pop_min_least leb Htot Htrans heap x heap' E) as Hleast.
        pose proof (@pop_min_perm leb heap x heap' E) as Hperm.
        destruct (IH _ _ _ El) as [Hs Hhd]. split.
        + destruct l0 as [|y t]; [reflexivity|].
          change (negb (Z.ltb (key y) (key x)) && lags_sorted key (y :: t) = true).
          rewrite Hs, andb_true_r. apply negb_true_iff, Z.ltb_ge.
          destruct (Hhd y t eq_refl) as [Hy _].
          destruct (@relax_ready_in (adj g x) m heap' heap'' m' Er y Hy) as [Hy'|Hy'].
          * apply Hkey, Hleast. apply (Permutation_in _ (Permutation_sym Hperm)). right; exact Hy'.
          * apply Harc, adj_in, Hy'.
        + intros x0 l' E0. inversion E0; subst x0 l'. split.
          * apply (Permutation_in _ (Permutation_sym Hperm)). left; reflexivity.
          * intros y Hy. apply Hkey, Hleast, Hy.
    Qed.

    (** ** The heap algorithm computes the reference [lex_ref_loop] *)

    Lemma available_in done v :
      In v (available eqb g done) <->
      In v (verts g) /\ ~ In v done /\ forall p, arc g p v -> In p done.
    Proof.
      unfold available. rewrite filter_In, andb_true_iff, negb_true_iff, memb_false, forallb_forall.
      split.
      - intros (Hv & Hd & Hp). split; [exact Hv|]. split; [exact Hd|].
        intros p Hpv. apply memb_in, Hp, parents_in, Hpv.
      - intros (Hv & Hd & Hp). split; [exact Hv|]. split; [exact Hd|].
        intros p Hpv. apply memb_in, Hp, parents_in, Hpv.
    Qed.

    Lemma inv_available done heap m : KInv done heap m -> Permutation heap (available eqb g done).
    Proof.
      intros HI. apply NoDup_Permutation.
      - exact (inv_nd_pend HI).
      - apply NoDup_filter, (proj1 Hwf).
      - intros v. rewrite available_in. split.
        + intros Hv. split; [apply (inv_pend_verts HI), Hv|]. split.
          * intros Hd. exact (inv_disj HI v Hd Hv).
          * apply rc_zero, (inv_pend_rc HI), Hv.
        + intros (Hv & Hd & Hp).
          destruct (memb_reflect eqb eqb_spec v heap) as [H|H]; [exact H|exfalso].
          pose proof (inv_pos HI v Hv Hd H) as Hpos. apply rc_zero in Hp. lia.
    Qed.

    Lemma inv_all_done done m :
      KInv done [] m -> (m = [] <-> forallb (fun v => memb v done) (verts g) = true).
    Proof.
      intros HI. rewrite forallb_forall. split.
      - intros -> v Hv. apply memb_in.
        destruct (memb_reflect eqb eqb_spec v done) as [H|H]; [exact H|exfalso].
        assert (E : cnt_get v [] = Some (rc done v)).
        { apply (inv_map HI). split; [exact Hv|]. split; [exact H|]. split; [intros []|reflexivity]. }
        discriminate.
      - intros Hall. apply cnt_get_nil_iff. intros v.
        destruct (cnt_get v m) as [d|] eqn:E; [exfalso|reflexivity].
        apply (inv_map HI) in E. destruct E as (Hv & Hd & _). apply Hd, memb_in, Hall, Hv.
    Qed.

    Lemma pop_min_same (leb : A -> A -> bool) l1 l2 :
      (forall x y, leb x y = true \/ leb y x = true) ->
      (forall x y z, leb x y = true -> leb y z = true -> leb x z = true) ->
      (forall x y, In x l1 -> In y l1 -> leb x y = true -> leb y x = true -> x = y) ->
      Permutation l1 l2 ->
      match pop_min leb l1, pop_min leb l2 with
      | Some (x1, _), Some (x2, _) => x1 = x2
      | None, None => True
      | _, _ => False
      end.
    Proof.
      intros Htot Htrans Hanti Hperm.
      destruct (pop_min leb l1) as [[x1 r1]|] eqn:E1; destruct (pop_min leb l2) as [[x2 r2]|] eqn:E2.
      - pose proof (@pop_min_least leb Htot Htrans l1 x1 r1 E1) as H1.
        pose proof (@pop_min_least leb Htot Htrans l2 x2 r2 E2) as H2.
        assert (Hx1 : In x1 l1)
          by (apply (Permutation_in _ (Permutation_sym (@pop_min_perm leb l1 x1 r1 E1))); left; reflexivity).
        assert (Hx2 : In x2 l2)
          by (apply (Permutation_in _ (Permutation_sym (@pop_min_perm leb l2 x2 r2 E2))); left; reflexivity).
        assert (Hx2' : In x2 l1) by (apply (Permutation_in _ (Permutation_sym Hperm)), Hx2).
        apply Hanti; [exact Hx1|exact Hx2'|apply H1, Hx2'|apply H2, (Permutation_in _ Hperm), Hx1].
      - apply pop_min_none in E2. subst l2. apply Permutation_sym, Permutation_nil in Hperm. subst l1.
        discriminate.
      - apply pop_min_none in E1. subst l1. apply Permutation_nil in Hperm. subst l2. discriminate.
      - exact I.
    Qed.

    Lemma lex_loop_ref (leb : A -> A -> bool) :
      (forall x y, leb x y = true \/ leb y x = true) ->
      (forall x y z, leb x y = true -> leb y z = true -> leb x z = true) ->
      (forall x y, In x (verts g) -> In y (verts g) -> leb x y = true -> leb y x = true -> x = y) ->
      forall fuel done heap m, KInv done heap m ->
        lex_loop eqb fuel g leb heap m = lex_ref_loop eqb fuel g leb done.
    Proof.
      intros Htot Htrans Hanti. induction fuel as [|f IH]; intros done heap m HI.
      - cbn [lex_loop lex_ref_loop].
        assert (Hanti' : forall x y, In x heap -> In y heap -> leb x y = true -> leb y x = true -> x = y)
          by (intros x y Hx Hy; apply Hanti; apply (inv_pend_verts HI); assumption).
        pose proof (@pop_min_same leb heap (available eqb g done) Htot Htrans Hanti' (inv_available HI)) as Hsame.
        destruct (pop_min leb heap) as [[x heap']|] eqn:E1;
          destruct (pop_min leb (available eqb g done)) as [[x2 r2]|] eqn:E2; try contradiction.
        + reflexivity.
        + apply pop_min_none in E1. subst heap. pose proof (inv_all_done HI) as Hd.
          destruct m as [|e m]; destruct (forallb (fun v => memb v done) (verts g)); try reflexivity; exfalso.
          * destruct Hd as [Hd _]. specialize (Hd eq_refl). discriminate.
          * destruct Hd as [_ Hd]. specialize (Hd eq_refl). discriminate.
      - cbn [lex_loop lex_ref_loop].
        assert (Hanti' : forall x y, In x heap -> In y heap -> leb x y = true -> leb y x = true -> x = y)
          by (intros x y Hx Hy; apply Hanti; apply (inv_pend_verts HI); assumption).
        pose proof (@pop_min_same leb heap (available eqb g done) Htot Htrans Hanti' (inv_available HI)) as Hsame.
        destruct (pop_min leb heap) as [[x heap']|] eqn:E1;
          destruct (pop_min leb (available eqb g done)) as [[x2 r2]|] eqn:E2; try contradiction.
        + subst x2. apply pop_min_perm in E1.
          destruct (@kahn_step done heap m x heap' HI E1) as (new & m' & Hrun & _ & HI').
          rewrite Hrun, (IH (done ++ [x]) (heap' ++ new) m' HI'). reflexivity.
        + apply pop_min_none in E1. subst heap. pose proof (inv_all_done HI) as Hd.
          destruct m as [|e m]; destruct (forallb (fun v => memb v done) (verts g)); try reflexivity; exfalso.
          * destruct Hd as [Hd _]. specialize (Hd eq_refl). discriminate.
          * destruct Hd as [_ Hd]. specialize (Hd eq_refl). discriminate.
    Qed.
  End Kahn.

  (** * The priority [(key, index)] *)

  Lemma pos_in_inj l x y : In x l -> pos_in eqb x l = pos_in eqb y l -> x = y.
  Proof.
    induction l as [|a l IH]; intros Hx E; [contradiction|]. simpl in E.
    destruct (eqb_spec x a) as [->|Hxa].
    - destruct (eqb_spec y a) as [->|_]; [reflexivity|discriminate].
    - destruct (eqb_spec y a) as [->|_]; [discriminate|].
      destruct Hx as [Hx|Hx]; [congruence|]. apply IH; [exact Hx|]. injection E; auto.
  Qed.

  Lemma prio_leb_iff key order x y :
    prio_leb eqb key order x y = true <->
    (key x < key y)%Z \/ (key x = key y /\ pos_in eqb x order <= pos_in eqb y order).
  Proof.
    unfold prio_leb. rewrite orb_true_iff, andb_true_iff, Z.ltb_lt, Z.eqb_eq, Nat.leb_le. tauto.
  Qed.

  Lemma prio_leb_total key order x y :
    prio_leb eqb key order x y = true \/ prio_leb eqb key order y x = true.
  Proof. rewrite !prio_leb_iff. lia. Qed.

  Lemma prio_leb_trans key order x y z :
    prio_leb eqb key order x y = true -> prio_leb eqb key order y z = true ->
    prio_leb eqb key order x z = true.
  Proof. rewrite !prio_leb_iff. lia. Qed.

  Lemma prio_leb_key key order x y : prio_leb eqb key order x y = true -> (key x <= key y)%Z.
  Proof. rewrite prio_leb_iff. lia. Qed.

  Lemma prio_leb_antisym key order x y :
    In x order -> prio_leb eqb key order x y = true -> prio_leb eqb key order y x = true -> x = y.
  Proof.
    rewrite !prio_leb_iff. intros Hx H1 H2. apply (@pos_in_inj order x y Hx). lia.
  Qed.

  (** * (T1) [networkx.topological_generations] / [networkx.topological_sort] *)

  (** On every well-formed digraph the run ends either with the generations, whose
      concatenation is a topological order, or with NetworkXUnfeasible, and then the graph has a
      cycle; the [KeyError] branch and the end of the fuel are never reached. *)
  Theorem topological_generations_correct (g : digraph) :
    wf g ->
    match topological_generations eqb g with
    | TOk gs => Permutation (concat gs) (verts g) /\ is_topo eqb g (concat gs) = true /\ acyclic g
    | TCycle => ~ acyclic g
    | _ => False
    end.
  Proof.
    intros Hwf. unfold topological_generations.
    pose proof (@gens_loop_spec g Hwf (length (verts g)) [] _ _ (inv_init Hwf)) as H.
    specialize (H (Nat.le_add_r _ _)).
    destruct (gens_loop eqb (length (verts g)) g (zero_indegree eqb g) (indegree_map eqb g))
      as [gs| | | |]; try exact H.
    simpl in H. split; [exact (proj1 H)|]. split.
    - apply (is_topo_spec eqb eqb_spec (concat gs) Hwf), H.
    - apply (topo_order_acyclic eqb eqb_spec Hwf H).
  Qed.

  (** The generations are the layers of the DAG (see [layered], [linked]); the first one lists
      the nodes without parents in node order. *)
  Theorem topological_generations_layers (g : digraph) gs :
    wf g -> topological_generations eqb g = TOk gs ->
    layered g [] gs
    /\ match gs with
       | [] => zero_indegree eqb g = []
       | g0 :: rest => g0 = zero_indegree eqb g /\ linked g g0 rest
       end.
  Proof.
    intros Hwf E. unfold topological_generations in E.
    destruct (@gens_loop_layers g Hwf (length (verts g)) [] _ _ gs (inv_init Hwf) E) as [H1 H2].
    split; [exact H1|]. destruct gs as [|g0 rest]; [exact H2|].
    destruct H2 as [-> H2]. split; [reflexivity|exact H2].
  Qed.

  Theorem topological_sort_correct (g : digraph) :
    wf g ->
    match topological_sort eqb g with
    | TOk l => Permutation l (verts g) /\ is_topo eqb g l = true /\ acyclic g
    | TCycle => ~ acyclic g
    | _ => False
    end.
  Proof.
    intros Hwf. unfold topological_sort.
    pose proof (topological_generations_correct Hwf) as H.
    destruct (topological_generations eqb g); exact H.
  Qed.

  Corollary topological_sort_acyclic (g : digraph) :
    wf g -> acyclic g ->
    exists l, topological_sort eqb g = TOk l /\ Permutation l (verts g) /\ is_topo eqb g l = true.
  Proof.
    intros Hwf Hac. pose proof (topological_sort_correct Hwf) as H.
    destruct (topological_sort eqb g) as [l| | | |]; try contradiction.
    exists l. split; [reflexivity|]. split; [exact (proj1 H)|exact (proj1 (proj2 H))].
  Qed.

  Corollary topological_sort_cycle_iff (g : digraph) :
    wf g -> (topological_sort eqb g = TCycle <-> ~ acyclic g).
  Proof.
    intros Hwf. pose proof (topological_sort_correct Hwf) as H.
    destruct (topological_sort eqb g) as [l| | | |]; try contradiction.
    - split; [discriminate|]. intros Hn. destruct (Hn (proj2 (proj2 H))).
    - split; [intros _; exact H|reflexivity].
  Qed.

  (** [CausalGraph.get_topological_order()]: AssertionError exactly on the graphs with a cycle,
      otherwise a permutation of the nodes that is a topological order (one of those listed by
      [return_all=True]). *)
  Theorem get_topological_order_correct (g : digraph) :
    wf g ->
    (acyclic g ->
     exists l, get_topological_order eqb g = TOk l /\ Permutation l (verts g)
               /\ is_topo eqb g l = true /\ In l (all_topo eqb g))
    /\ (~ acyclic g -> get_topological_order eqb g = TNotDag).
  Proof.
    intros Hwf. unfold get_topological_order. split.
    - intros Hac. rewrite (proj2 (acyclicb_spec eqb eqb_spec Hwf) Hac).
      destruct (topological_sort_acyclic Hwf Hac) as (l & E & Hp & Ht).
      exists l. split; [exact E|]. split; [exact Hp|]. split; [exact Ht|].
      apply (all_topo_spec eqb eqb_spec l Hwf), Ht.
    - intros Hn. destruct (acyclicb eqb g) eqn:E; [|reflexivity].
      apply (acyclicb_spec eqb eqb_spec Hwf) in E. contradiction.
  Qed.

  (** * (T2) [networkx.lexicographical_topological_sort] *)

  (** With ANY key the run ends with a topological order or, exactly on the cyclic graphs, with
      NetworkXUnfeasible.  If the key never decreases along an arc (the invariant TimeOK of the
      time-series graphs, with key = time lag), the keys never decrease along the output: it is
      one of the orders kept by [return_all=True, respect_time_ordering=True]. *)
  Theorem lex_topological_sort_correct (g : digraph) (key : A -> Z) :
    wf g ->
    match lexicographical_topological_sort eqb g key with
    | TOk l => Permutation l (verts g) /\ is_topo eqb g l = true /\ acyclic g
               /\ ((forall a b, arc g a b -> (key a <= key b)%Z) ->
                   lags_sorted key l = true /\ In l (all_time_topo eqb g key))
    | TCycle => ~ acyclic g
    | _ => False
    end.
  Proof.
    intros Hwf. unfold lexicographical_topological_sort.
    pose proof (@lex_loop_spec g Hwf (prio_leb eqb key (verts g)) (length (verts g)) [] _ _ (inv_init Hwf)) as H.
    specialize (H (Nat.le_add_r _ _)).
    destruct (lex_loop eqb (length (verts g)) g (prio_leb eqb key (verts g)) (zero_indegree eqb g)
                       (indegree_map eqb g)) as [l| | | |] eqn:E; try exact H.
    simpl in H.
    assert (Ht : is_topo eqb g l = true) by (apply (is_topo_spec eqb eqb_spec l Hwf), H).
    split; [exact (proj1 H)|]. split; [exact Ht|]. split; [apply (topo_order_acyclic eqb eqb_spec Hwf H)|].
    intros Hkey.
    destruct (@lex_loop_sorted g key (prio_leb eqb key (verts g))
                (prio_leb_total key (verts g)) (prio_leb_trans key (verts g))
                (prio_leb_key key (verts g)) Hkey _ _ _ _ E) as [Hs _].
    split; [exact Hs|]. apply (all_time_topo_spec eqb eqb_spec key l Hwf). split; assumption.
  Qed.

  Corollary lex_topological_sort_acyclic (g : digraph) (key : A -> Z) :
    wf g -> acyclic g ->
    exists l, lexicographical_topological_sort eqb g key = TOk l /\ Permutation l (verts g)
              /\ is_topo eqb g l = true.
  Proof.
    intros Hwf Hac. pose proof (lex_topological_sort_correct key Hwf) as H.
    destruct (lexicographical_topological_sort eqb g key) as [l| | | |]; try contradiction.
    exists l. split; [reflexivity|]. split; [exact (proj1 H)|exact (proj1 (proj2 H))].
  Qed.

  Corollary lex_topological_sort_cycle_iff (g : digraph) (key : A -> Z) :
    wf g -> (lexicographical_topological_sort eqb g key = TCycle <-> ~ acyclic g).
  Proof.
    intros Hwf. pose proof (lex_topological_sort_correct key Hwf) as H.
    destruct (lexicographical_topological_sort eqb g key) as [l| | | |]; try contradiction.
    - split; [discriminate|]. intros Hn. destruct (Hn (proj1 (proj2 (proj2 H)))).
    - split; [intros _; exact H|reflexivity].
  Qed.

  (** [TimeSeriesCausalGraph.get_topological_order()] with the defaults. *)
  Theorem get_time_topological_order_correct (g : digraph) (lag : A -> Z) :
    wf g ->
    (acyclic g ->
     exists l, get_time_topological_order eqb g lag = TOk l /\ Permutation l (verts g)
               /\ is_topo eqb g l = true /\ In l (all_topo eqb g)
               /\ ((forall a b, arc g a b -> (lag a <= lag b)%Z) ->
                   lags_sorted lag l = true /\ In l (all_time_topo eqb g lag)))
    /\ (~ acyclic g -> get_time_topological_order eqb g lag = TNotDag).
  Proof.
    intros Hwf. unfold get_time_topological_order. split.
    - intros Hac. rewrite (proj2 (acyclicb_spec eqb eqb_spec Hwf) Hac).
      pose proof (lex_topological_sort_correct lag Hwf) as H.
      destruct (lexicographical_topological_sort eqb g lag) as [l| | | |]; try contradiction.
      destruct H as (Hp & Ht & _ & Hs).
      exists l. split; [reflexivity|]. split; [exact Hp|]. split; [exact Ht|].
      split; [apply (all_topo_spec eqb eqb_spec l Hwf), Ht|exact Hs].
    - intros Hn. destruct (acyclicb eqb g) eqn:E; [|reflexivity].
      apply (acyclicb_spec eqb eqb_spec Hwf) in E. contradiction.
  Qed.

  (** * (T3) What the answers depend on *)

  (** ** [lexicographical_topological_sort]: the node order and the SET of arcs *)

  (** The heap algorithm is the greedy "least available node first". *)
  Theorem lex_topological_sort_ref (g : digraph) (key : A -> Z) :
    wf g -> lexicographical_topological_sort eqb g key = lex_ref eqb g key.
  Proof.
    intros Hwf. unfold lexicographical_topological_sort, lex_ref.
    apply (@lex_loop_ref g Hwf (prio_leb eqb key (verts g))).
    - apply prio_leb_total.
    - apply prio_leb_trans.
    - intros x y Hx _. apply prio_leb_antisym, Hx.
    - apply inv_init, Hwf.
  Qed.

  Lemma available_ext (g1 g2 : digraph) done :
    verts g1 = verts g2 -> (forall a b, arc g1 a b <-> arc g2 a b) ->
    available eqb g1 done = available eqb g2 done.
  Proof.
    intros Hv Ha. unfold available. rewrite Hv. apply filter_ext. intros v. f_equal.
    apply eq_true_iff_eq. rewrite !forallb_forall.
    split; intros H p Hp; apply H; apply parents_in; apply parents_in in Hp; apply Ha, Hp.
  Qed.

  Lemma lex_ref_loop_ext (g1 g2 : digraph) (leb : A -> A -> bool) :
    verts g1 = verts g2 -> (forall a b, arc g1 a b <-> arc g2 a b) ->
    forall fuel done, lex_ref_loop eqb fuel g1 leb done = lex_ref_loop eqb fuel g2 leb done.
  Proof.
    intros Hv Ha. induction fuel as [|f IH]; intros done; cbn [lex_ref_loop];
      rewrite (@available_ext g1 g2 done Hv Ha), Hv; [reflexivity|].
    destruct (pop_min leb (available eqb g2 done)) as [[x r]|]; [|reflexivity].
    rewrite IH. reflexivity.
  Qed.

  Lemma wf_ext (g1 g2 : digraph) :
    verts g1 = verts g2 -> (forall a b, arc g1 a b <-> arc g2 a b) -> wf g1 -> wf g2.
  Proof.
    intros Hv Ha [Hnd Hin]. split; [rewrite <- Hv; exact Hnd|].
    intros a b Hab. rewrite <- Hv. apply Hin, Ha, Hab.
  Qed.

  (** Two graphs with the same node order and the same SET of arcs (in any order, with any
      repetitions) get the same answer, error cases included. *)
  Theorem lex_topological_sort_depends (g1 g2 : digraph) (key : A -> Z) :
    wf g1 -> verts g1 = verts g2 -> (forall a b, arc g1 a b <-> arc g2 a b) ->
    lexicographical_topological_sort eqb g1 key = lexicographical_topological_sort eqb g2 key.
  Proof.
    intros Hwf Hv Ha.
    rewrite (@lex_topological_sort_ref g1 key Hwf), (@lex_topological_sort_ref g2 key (@wf_ext g1 g2 Hv Ha Hwf)).
    unfold lex_ref. rewrite <- Hv. apply lex_ref_loop_ext; assumption.
  Qed.

  Corollary lex_topological_sort_perm (g1 g2 : digraph) (key : A -> Z) :
    wf g1 -> verts g1 = verts g2 -> Permutation (arcs g1) (arcs g2) ->
    lexicographical_topological_sort eqb g1 key = lexicographical_topological_sort eqb g2 key.
  Proof.
    intros Hwf Hv Hp. apply lex_topological_sort_depends; [exact Hwf|exact Hv|].
    intros a b. unfold arc. split; apply Permutation_in; [exact Hp|apply Permutation_sym, Hp].
  Qed.

  Lemma acyclic_ext (g1 g2 : digraph) :
    (forall a b, arc g1 a b <-> arc g2 a b) -> acyclic g1 -> acyclic g2.
  Proof.
    intros Ha Hac v Hp. apply (Hac v). revert Hp. apply path_mono. intros a b; apply Ha.
  Qed.

  Theorem get_time_topological_order_depends (g1 g2 : digraph) (lag : A -> Z) :
    wf g1 -> verts g1 = verts g2 -> (forall a b, arc g1 a b <-> arc g2 a b) ->
    get_time_topological_order eqb g1 lag = get_time_topological_order eqb g2 lag.
  Proof.
    intros Hwf Hv Ha. unfold get_time_topological_order.
    pose proof (@wf_ext g1 g2 Hv Ha Hwf) as Hwf2.
    assert (E : acyclicb eqb g1 = acyclicb eqb g2).
    { apply eq_true_iff_eq.
      rewrite (acyclicb_spec eqb eqb_spec Hwf), (acyclicb_spec eqb eqb_spec Hwf2).
      split; apply acyclic_ext; intros a b; [|symmetry]; apply Ha. }
    rewrite E, (@lex_topological_sort_depends g1 g2 lag Hwf Hv Ha). reflexivity.
  Qed.

  (** ** [topological_sort]: the node order and the adjacency LISTS *)

  Section SameAdj.
    Variables g1 g2 : digraph.
    Hypothesis Hv : verts g1 = verts g2.
    Hypothesis Hadj : forall x, adj g1 x = adj g2 x.

    Lemma indeg_same_adj v : indeg g1 v = indeg g2 v.
    Proof.
      unfold TopoSort.indeg. apply Permutation_length, NoDup_Permutation; try apply preds_nodup.
      intros p. rewrite !preds_in, <- !adj_in, Hadj. tauto.
    Qed.

    Lemma gen_step_same_adj gen :
      forall m next, gen_step eqb g1 gen m next = gen_step eqb g2 gen m next.
    Proof.
      induction gen as [|x gen IH]; intros m next; [reflexivity|]. cbn [gen_step].
      rewrite Hadj. destruct (relax (adj g2 x) m next) as [[next' m']|]; [apply IH|reflexivity].
    Qed.

    Lemma gens_loop_same_adj fuel :
      forall gen m, gens_loop eqb fuel g1 gen m = gens_loop eqb fuel g2 gen m.
    Proof.
      induction fuel as [|f IH]; intros gen m; [destruct gen; reflexivity|].
      destruct gen as [|x gen]; [reflexivity|]. cbn [gens_loop].
      rewrite gen_step_same_adj.
      destruct (gen_step eqb g2 (x :: gen) m []) as [[next m']|]; [rewrite IH|]; reflexivity.
    Qed.

    (** No hypothesis of well-formedness: the model itself reads nothing else. *)
    Theorem topological_generations_depends :
      topological_generations eqb g1 = topological_generations eqb g2.
    Proof.
      unfold topological_generations, zero_indegree, indegree_map. rewrite Hv.
      rewrite (filter_ext (fun v => Nat.eqb (indeg g1 v) 0) (fun v => Nat.eqb (indeg g2 v) 0))
        by (intros v; rewrite indeg_same_adj; reflexivity).
      rewrite (map_ext (fun v => (v, indeg g1 v)) (fun v => (v, indeg g2 v)))
        by (intros v; rewrite indeg_same_adj; reflexivity).
      apply gens_loop_same_adj.
    Qed.

    Theorem topological_sort_depends : topological_sort eqb g1 = topological_sort eqb g2.
    Proof. unfold topological_sort. rewrite topological_generations_depends. reflexivity. Qed.
  End SameAdj.

  (** In particular the relative order of edges with DIFFERENT sources is irrelevant. *)
  Corollary topological_sort_depends_children (g1 g2 : digraph) :
    verts g1 = verts g2 -> (forall x, children eqb g1 x = children eqb g2 x) ->
    topological_sort eqb g1 = topological_sort eqb g2.
  Proof.
    intros Hv Hc. apply topological_sort_depends; [exact Hv|].
    intros x. unfold TopoSort.adj. rewrite Hc. reflexivity.
  Qed.

  Lemma iter_same_children (g1 g2 : digraph) :
    (forall x, children eqb g1 x = children eqb g2 x) ->
    forall n S, iter eqb n g1 S = iter eqb n g2 S.
  Proof.
    intros Hc. induction n as [|n IH]; intros S; [reflexivity|]. cbn [iter].
    rewrite (flat_map_ext (children eqb g1) (children eqb g2) Hc). apply IH.
  Qed.

  Lemma forallb_pointwise (X : Type) (f h : X -> bool) l :
    (forall x, f x = h x) -> forallb f l = forallb h l.
  Proof. intros E. induction l as [|a l IH]; simpl; [reflexivity|]. rewrite E, IH. reflexivity. Qed.

  Theorem get_topological_order_depends (g1 g2 : digraph) :
    verts g1 = verts g2 -> (forall x, children eqb g1 x = children eqb g2 x) ->
    get_topological_order eqb g1 = get_topological_order eqb g2.
  Proof.
    intros Hv Hc. unfold get_topological_order.
    rewrite (@topological_sort_depends_children g1 g2 Hv Hc).
    assert (E : acyclicb eqb g1 = acyclicb eqb g2).
    { unfold acyclicb, reachb, desc. rewrite Hv. apply forallb_pointwise. intros v.
      rewrite Hc, (@iter_same_children g1 g2 Hc). reflexivity. }
    rewrite E. reflexivity.
  Qed.

  (** ** ... and the keys OF THE NODES only *)

  Lemma pop_min_ext (leb1 leb2 : A -> A -> bool) l :
    (forall x y, In x l -> In y l -> leb1 x y = leb2 x y) -> pop_min leb1 l = pop_min leb2 l.
  Proof.
    induction l as [|a l IH]; intros H; [reflexivity|]. simpl.
    rewrite IH by (intros x y Hx Hy; apply H; right; assumption).
    destruct (pop_min leb2 l) as [[m0 r]|] eqn:E; [|reflexivity].
    rewrite (H a m0); [reflexivity|left; reflexivity|right].
    apply (Permutation_in _ (Permutation_sym (@pop_min_perm leb2 l m0 r E))). left; reflexivity.
  Qed.

  Lemma lex_ref_loop_ext_leb (g : digraph) (leb1 leb2 : A -> A -> bool) :
    (forall x y, In x (verts g) -> In y (verts g) -> leb1 x y = leb2 x y) ->
    forall fuel done, lex_ref_loop eqb fuel g leb1 done = lex_ref_loop eqb fuel g leb2 done.
  Proof.
    intros H. induction fuel as [|f IH]; intros done; cbn [lex_ref_loop].
    - rewrite (@pop_min_ext leb1 leb2 (available eqb g done)); [reflexivity|].
      intros x y Hx Hy. apply H; [apply filter_In in Hx|apply filter_In in Hy]; tauto.
    - rewrite (@pop_min_ext leb1 leb2 (available eqb g done)).
      + destruct (pop_min leb2 (available eqb g done)) as [[x r]|]; [rewrite IH|]; reflexivity.
      + intros x y Hx Hy. apply H; [apply filter_In in Hx|apply filter_In in Hy]; tauto.
  Qed.

  Theorem lex_topological_sort_key_ext (g : digraph) (key1 key2 : A -> Z) :
    wf g -> (forall v, In v (verts g) -> key1 v = key2 v) ->
    lexicographical_topological_sort eqb g key1 = lexicographical_topological_sort eqb g key2.
  Proof.
    intros Hwf Hk. rewrite !(lex_topological_sort_ref _ Hwf). unfold lex_ref.
    apply lex_ref_loop_ext_leb. intros x y Hx Hy. unfold prio_leb.
    rewrite (Hk x Hx), (Hk y Hy). reflexivity.
  Qed.

  (** * The answer of [lexicographical_topological_sort] is the LEAST topological order

      ... for the lexicographic comparison of lists induced by [(key, index)]: it is equal to,
      or at the first difference smaller than, every topological order of the graph.  Together
      with [lex_topological_sort_correct] this specifies the default order of the time-series
      class without mentioning the algorithm. *)
  Definition lex_first_diff (leb : A -> A -> bool) (l l' : list A) : Prop :=
    l = l' \/ exists p x s y s', l = p ++ x :: s /\ l' = p ++ y :: s' /\ x <> y /\ leb x y = true.

  Lemma lex_ref_loop_least (g : digraph) (leb : A -> A -> bool) :
    wf g ->
    (forall x y, leb x y = true \/ leb y x = true) ->
    (forall x y z, leb x y = true -> leb y z = true -> leb x z = true) ->
    forall fuel done r, lex_ref_loop eqb fuel g leb done = TOk r ->
      forall r', NoDup (done ++ r') -> (forall v, In v (done ++ r') <-> In v (verts g)) ->
                 fwd g r' -> lex_first_diff leb r r'.
  Proof.
    intros Hwf Htot Htrans. induction fuel as [|f IH]; intros done r H r' Hnd Hall Hf;
      cbn [lex_ref_loop] in H.
    - destruct (pop_min leb (available eqb g done)) as [[x rest]|] eqn:E; [discriminate|].
      destruct (forallb (fun v => memb v done) (verts g)) eqn:Ed; [|discriminate].
      inversion H; subst r. left. destruct r' as [|y r1]; [reflexivity|exfalso].
      rewrite forallb_forall in Ed.
      assert (Hy : In y (verts g)) by (apply Hall, in_or_app; right; left; reflexivity).
      apply Ed, memb_in in Hy. apply NoDup_remove_2 in Hnd. apply Hnd, in_or_app. left; exact Hy.
    - destruct (pop_min leb (available eqb g done)) as [[x rest]|] eqn:E.
      2:{ destruct (forallb (fun v => memb v done) (verts g)) eqn:Ed; [|discriminate].
          inversion H; subst r. left. destruct r' as [|y r1]; [reflexivity|exfalso].
          rewrite forallb_forall in Ed.
          assert (Hy : In y (verts g)) by (apply Hall, in_or_app; right; left; reflexivity).
          apply Ed, memb_in in Hy. apply NoDup_remove_2 in Hnd. apply Hnd, in_or_app. left; exact Hy. }
      destruct (lex_ref_loop eqb f g leb (done ++ [x])) as [r0| | | |] eqn:Er; try discriminate.
      inversion H; subst r. clear H.
      assert (Hx : In x (available eqb g done))
        by (apply (Permutation_in _ (Permutation_sym (@pop_min_perm leb _ x rest E))); left; reflexivity).
      apply (available_in g) in Hx. destruct Hx as (Hxv & Hxd & _).
      destruct r' as [|y r1].
      { exfalso. rewrite app_nil_r in Hall. apply Hxd, Hall, Hxv. }
      destruct Hf as [Hfy Hf1].
      assert (Hy : In y (available eqb g done)).
      { apply (available_in g). split; [apply Hall, in_or_app; right; left; reflexivity|]. split.
        - apply NoDup_remove_2 in Hnd. intros Hin. apply Hnd, in_or_app. left; exact Hin.
        - intros p Hp. assert (Hpv : In p (done ++ y :: r1)) by (apply Hall, (proj2 Hwf p y Hp)).
          apply in_app_or in Hpv. destruct Hpv as [Hpv|Hpv]; [exact Hpv|].
          destruct (Hfy p Hpv Hp). }
      pose proof (@pop_min_least leb Htot Htrans _ x rest E y Hy) as Hxy.
      destruct (eqb_spec x y) as [->|Hne].
      + assert (Hnd' : NoDup ((done ++ [y]) ++ r1)) by (rewrite <- app_assoc; exact Hnd).
        assert (Hall' : forall v, In v ((done ++ [y]) ++ r1) <-> In v (verts g))
          by (intros v; rewrite <- app_assoc; apply Hall).
        destruct (IH (done ++ [y]) r0 Er r1 Hnd' Hall' Hf1) as [->|(p & a & s & b & s' & -> & -> & Hab & Hle)].
        * left; reflexivity.
        * right. exists (y :: p), a, s, b, s'. repeat split; assumption.
      + right. exists [], x, r0, y, r1. repeat split; assumption.
  Qed.

  Theorem lex_topological_sort_least (g : digraph) (key : A -> Z) l l' :
    wf g -> lexicographical_topological_sort eqb g key = TOk l -> is_topo eqb g l' = true ->
    lex_first_diff (prio_leb eqb key (verts g)) l l'.
  Proof.
    intros Hwf E Ht. rewrite (lex_topological_sort_ref key Hwf) in E. unfold lex_ref in E.
    unfold is_topo in Ht. rewrite !andb_true_iff in Ht. destruct Ht as [[Hnd Hset] Hf].
    apply (proj1 (distinctb_spec eqb eqb_spec _)) in Hnd.
    pose proof (proj1 (seteqb_spec eqb eqb_spec _ _) Hset) as Hset'.
    apply (proj1 (fwdb_spec eqb eqb_spec _ _)) in Hf.
    apply (@lex_ref_loop_least g (prio_leb eqb key (verts g)) Hwf
             (prio_leb_total key (verts g)) (prio_leb_trans key (verts g)) _ [] l E l');
      simpl; assumption.
  Qed.
End TopoSortProofs.

(** * The dependence of [topological_sort] on the adjacency ORDER is real

    Same node order, same set of arcs, different answers: the statement of
    [lex_topological_sort_perm] is FALSE of [topological_sort].  Observed on the library:
    [g.add_edge('a','c'); g.add_edge('a','b')] gives [['a', 'c', 'b']], adding the two edges in
    the other order gives [['a', 'b', 'c']]; so does [g.copy()] of the first graph ([to_dict]
    sorts the edges), although [g == g.copy()]. *)
Definition topological_sort_perm_statement : Prop :=
  forall g1 g2 : digraph nat,
    wf g1 -> verts g1 = verts g2 -> Permutation (arcs g1) (arcs g2) ->
    topological_sort Nat.eqb g1 = topological_sort Nat.eqb g2.

Definition ts_g1 : digraph nat := {| verts := [0; 1; 2]; arcs := [(0, 2); (0, 1)] |}.
Definition ts_g2 : digraph nat := {| verts := [0; 1; 2]; arcs := [(0, 1); (0, 2)] |}.

Theorem topological_sort_perm_refuted :
  exists g1 g2 : digraph nat,
    wf g1 /\ verts g1 = verts g2 /\ Permutation (arcs g1) (arcs g2)
    /\ topological_sort Nat.eqb g1 <> topological_sort Nat.eqb g2.
Proof.
  exists ts_g1, ts_g2. split; [|split; [reflexivity|split]].
  - apply (proj1 (wfb_spec Nat.eqb Nat.eqb_spec _)); reflexivity.
  - apply perm_swap.
  - vm_compute. discriminate.
Qed.

Corollary topological_sort_perm_false : ~ topological_sort_perm_statement.
Proof.
  intros H. destruct topological_sort_perm_refuted as (g1 & g2 & Hwf & Hv & Hp & Hne).
  exact (Hne (H g1 g2 Hwf Hv Hp)).
Qed.

Example ts_g1_value : topological_sort Nat.eqb ts_g1 = TOk [0; 2; 1].
Proof. vm_compute. reflexivity. Qed.
Example ts_g2_value : topological_sort Nat.eqb ts_g2 = TOk [0; 1; 2].
Proof. vm_compute. reflexivity. Qed.
(** ... whereas the time-series default does not see the difference *)
Example ts_g12_lex :
  lexicographical_topological_sort Nat.eqb ts_g1 (fun _ => 0%Z) = TOk [0; 1; 2]
  /\ lexicographical_topological_sort Nat.eqb ts_g2 (fun _ => 0%Z) = TOk [0; 1; 2].
Proof. vm_compute. split; reflexivity. Qed.

(** * Examples: non-vacuity of the hypotheses and values observed on the real library
    (vertices [0, 1, 2, ...] stand for the sorted node names; more pinned values are in
    CorrTopoSort.v) *)

(** the graphs [qg] (a DAG), [qc] (cyclic) and [qt] (time series) of QueriesProofs.v *)
Example topological_sort_ex :
  exists l, topological_sort Nat.eqb qg = TOk l /\ Permutation l (verts qg) /\ is_topo Nat.eqb qg l = true.
Proof. exact (topological_sort_acyclic Nat.eqb Nat.eqb_spec qg_wf qg_acyclic). Qed.
Example topological_sort_ex_value : topological_sort Nat.eqb qg = TOk [0; 5; 1; 2; 3; 4].
Proof. vm_compute. reflexivity. Qed.
Example topological_generations_ex_value :
  topological_generations Nat.eqb qg = TOk [[0; 5]; [1; 2]; [3]; [4]].
Proof. vm_compute. reflexivity. Qed.
Example topological_sort_ex_cyclic : topological_sort Nat.eqb qc = TCycle.
Proof. apply (topological_sort_cycle_iff Nat.eqb Nat.eqb_spec qc_wf), qc_cyclic. Qed.
Example get_topological_order_ex_cyclic : get_topological_order Nat.eqb qc = TNotDag.
Proof. apply (get_topological_order_correct Nat.eqb Nat.eqb_spec qc_wf), qc_cyclic. Qed.
Example get_topological_order_ex :
  exists l, get_topological_order Nat.eqb qg = TOk l /\ Permutation l (verts qg)
            /\ is_topo Nat.eqb qg l = true /\ In l (all_topo Nat.eqb qg).
Proof. apply (get_topological_order_correct Nat.eqb Nat.eqb_spec qg_wf), qg_acyclic. Qed.

Example get_time_topological_order_ex :
  exists l, get_time_topological_order Nat.eqb qt qt_lag = TOk l /\ Permutation l (verts qt)
            /\ is_topo Nat.eqb qt l = true /\ In l (all_topo Nat.eqb qt)
            /\ lags_sorted qt_lag l = true /\ In l (all_time_topo Nat.eqb qt qt_lag).
Proof.
  destruct (proj1 (get_time_topological_order_correct Nat.eqb Nat.eqb_spec qt_lag qt_wf) qt_acyclic)
    as (l & E & Hp & Ht & Ha & Hs).
  exists l. destruct (Hs qt_lag_monotone) as [H1 H2]. repeat split; assumption.
Qed.
Example get_time_topological_order_ex_value :
  get_time_topological_order Nat.eqb qt qt_lag = TOk [0; 2; 1; 3].
Proof. vm_compute. reflexivity. Qed.
Example get_time_topological_order_ex_cyclic :
  get_time_topological_order Nat.eqb qc (fun _ => 0%Z) = TNotDag.
Proof. apply (get_time_topological_order_correct Nat.eqb Nat.eqb_spec (fun _ => 0%Z) qc_wf), qc_cyclic. Qed.

(** a key that DECREASES along the arc 0 -> 1: still a topological order, not sorted by key *)
Definition kd : digraph nat := {| verts := [0; 1; 2]; arcs := [(0, 1)] |}.
Definition kd_key (x : nat) : Z := nth x [5%Z; 0%Z; 3%Z] 0%Z.
Example lex_unsorted_key_value :
  lexicographical_topological_sort Nat.eqb kd kd_key = TOk [2; 0; 1]
  /\ is_topo Nat.eqb kd [2; 0; 1] = true /\ lags_sorted kd_key [2; 0; 1] = false.
Proof. vm_compute. repeat split; reflexivity. Qed.

(** the reference and the heap algorithm on [qt], and the independence of the arc order *)
Example lex_ref_ex : lexicographical_topological_sort Nat.eqb qt qt_lag = lex_ref Nat.eqb qt qt_lag.
Proof. exact (lex_topological_sort_ref Nat.eqb Nat.eqb_spec qt_lag qt_wf). Qed.
Example lex_depends_ex :
  lexicographical_topological_sort Nat.eqb qt qt_lag =
  lexicographical_topological_sort Nat.eqb
    {| verts := verts qt; arcs := [(1, 3); (0, 3); (0, 3); (2, 3); (0, 1)] |} qt_lag.
Proof.
  apply (lex_topological_sort_depends Nat.eqb Nat.eqb_spec); [exact qt_wf|reflexivity|].
  intros a b. unfold arc. simpl. tauto.
Qed.
(** reordering edges that have different sources does not change [topological_sort] *)
Example topological_sort_depends_ex :
  topological_sort Nat.eqb qg =
  topological_sort Nat.eqb
    {| verts := verts qg; arcs := [(5, 2); (3, 4); (1, 3); (0, 1); (2, 3); (1, 4); (0, 2)] |}.
Proof.
  apply (topological_sort_depends_children Nat.eqb Nat.eqb_spec); [reflexivity|].
  intros x. do 6 (destruct x as [|x]; [reflexivity|]). reflexivity.
Qed.

(** * The two methods on the concrete graph state (Graph.v): every state satisfying the
      invariant [GraphInv.Inv] — hence every reachable state — gets a correct answer *)

Lemma nx_digraph_wf g : wf (dgraph g) -> wf (nx_digraph g).
Proof.
  intros [Hnd Hin]. split; cbn [verts nx_digraph].
  - apply (Permutation_NoDup (isort_perm name_leb _)), Hnd.
  - intros a b Hab. rewrite !sort_names_in. exact (Hin a b Hab).
Qed.

Lemma nx_digraph_acyclic g : acyclic (nx_digraph g) <-> acyclic (dgraph g).
Proof. split; apply acyclic_ext; intros a b; reflexivity. Qed.

Lemma nx_digraph_is_topo g l :
  wf (dgraph g) -> is_topo name_eqb (nx_digraph g) l = true -> is_topo name_eqb (dgraph g) l = true.
Proof.
  intros Hwf H. apply (is_topo_spec name_eqb name_eqb_spec l (nx_digraph_wf Hwf)) in H.
  apply (is_topo_spec name_eqb name_eqb_spec l Hwf). destruct H as [Hp Hb]. split.
  - rewrite Hp. apply Permutation_sym, (isort_perm name_leb).
  - exact Hb.
Qed.

Lemma is_dag_model_split g :
  is_dag_model g = fully_directed g && acyclicb name_eqb (dgraph g).
Proof. reflexivity. Qed.

Lemma nx_digraph_acyclicb g :
  wf (dgraph g) -> acyclicb name_eqb (nx_digraph g) = acyclicb name_eqb (dgraph g).
Proof.
  intros Hwf. apply eq_true_iff_eq.
  rewrite (acyclicb_spec name_eqb name_eqb_spec (nx_digraph_wf Hwf)),
          (acyclicb_spec name_eqb name_eqb_spec Hwf).
  apply nx_digraph_acyclic.
Qed.

(** [CausalGraph.get_topological_order()] on a state: AssertionError exactly when [is_dag()] is
    false, otherwise one of the topological orders of the directed part. *)
Theorem v_topological_order_correct prs k g :
  GraphInv.Inv prs k g ->
  (is_dag_model g = true ->
   exists l, v_topological_order g = TOk l /\ Permutation l (node_ids g)
             /\ is_topo name_eqb (dgraph g) l = true /\ In l (all_topo name_eqb (dgraph g)))
  /\ (is_dag_model g = false -> v_topological_order g = TNotDag).
Proof.
  intros HI. pose proof (reachable_dgraph_wf HI) as Hwf.
  pose proof (nx_digraph_wf Hwf) as Hwf'.
  rewrite is_dag_model_split. unfold v_topological_order. split.
  - intros H. apply andb_true_iff in H. destruct H as [Hd Hac]. rewrite Hd.
    apply (acyclicb_spec name_eqb name_eqb_spec Hwf), nx_digraph_acyclic in Hac.
    destruct (proj1 (get_topological_order_correct name_eqb name_eqb_spec Hwf') Hac)
      as (l & E & Hp & Ht & _).
    apply (nx_digraph_is_topo _ Hwf) in Ht.
    exists l. split; [exact E|]. split.
    + rewrite Hp. apply Permutation_sym, (isort_perm name_leb).
    + split; [exact Ht|]. apply (all_topo_spec name_eqb name_eqb_spec l Hwf), Ht.
  - intros H. destruct (fully_directed g); [|reflexivity]. cbn [andb] in H.
    unfold get_topological_order. rewrite (nx_digraph_acyclicb Hwf), H. reflexivity.
Qed.

(** [TimeSeriesCausalGraph.get_topological_order()] on a state of the time-series class: when
    [is_dag()] holds the answer is a topological order along which the time lags never
    decrease — one of the orders kept by [return_all=True] — because no stored edge goes back
    in time (field TimeOK of the invariant). *)
Theorem v_time_topological_order_correct prs g :
  GraphInv.Inv prs TS g ->
  (is_dag_model g = true ->
   exists l, v_time_topological_order g = TOk l /\ Permutation l (node_ids g)
             /\ is_topo name_eqb (dgraph g) l = true
             /\ lags_sorted (lag_fn g) l = true
             /\ In l (all_time_topo name_eqb (dgraph g) (lag_fn g)))
  /\ (is_dag_model g = false -> v_time_topological_order g = TNotDag).
Proof.
  intros HI. pose proof (reachable_dgraph_wf HI) as Hwf.
  pose proof (nx_digraph_wf Hwf) as Hwf'.
  rewrite is_dag_model_split. unfold v_time_topological_order. split.
  - intros H. apply andb_true_iff in H. destruct H as [Hd Hac]. rewrite Hd.
    apply (acyclicb_spec name_eqb name_eqb_spec Hwf), nx_digraph_acyclic in Hac.
    destruct (proj1 (get_time_topological_order_correct name_eqb name_eqb_spec (lag_fn g) Hwf') Hac)
      as (l & E & Hp & Ht & _ & Hs).
    destruct Hs as [Hs _].
    { intros a b Hab. exact (arcs_forward_in_time a b HI Hab). }
    apply (nx_digraph_is_topo _ Hwf) in Ht.
    exists l. split; [exact E|]. split.
    + rewrite Hp. apply Permutation_sym, (isort_perm name_leb).
    + split; [exact Ht|]. split; [exact Hs|].
      apply (all_time_topo_spec name_eqb name_eqb_spec (lag_fn g) l Hwf). split; assumption.
  - intros H. destruct (fully_directed g); [|reflexivity]. cbn [andb] in H.
    unfold get_time_topological_order. rewrite (nx_digraph_acyclicb Hwf), H. reflexivity.
Qed.

(** After ANY validated history that stored directed edges only. *)
Corollary reachable_default_topo prs fm k ops m0 :
  forallb validated ops = true ->
  let g := run prs fm k ops (empty_graph m0) in
  (forall e, In e (gsrc g) -> ety e = Dir) ->
  exists l, v_topological_order g = TOk l /\ Permutation l (node_ids g)
            /\ is_topo name_eqb (dgraph g) l = true /\ In l (all_topo name_eqb (dgraph g)).
Proof.
  intros Hv g Hd.
  apply (proj1 (v_topological_order_correct (inv_run prs fm k ops m0))).
  exact (reachable_is_dag prs fm k ops m0 Hv Hd).
Qed.

Corollary reachable_default_time_topo prs fm ops m0 :
  forallb validated ops = true ->
  let g := run prs fm TS ops (empty_graph m0) in
  (forall e, In e (gsrc g) -> ety e = Dir) ->
  exists l, v_time_topological_order g = TOk l /\ Permutation l (node_ids g)
            /\ is_topo name_eqb (dgraph g) l = true
            /\ lags_sorted (lag_fn g) l = true
            /\ In l (all_time_topo name_eqb (dgraph g) (lag_fn g)).
Proof.
  intros Hv g Hd.
  apply (proj1 (v_time_topological_order_correct (inv_run prs fm TS ops m0))).
  exact (reachable_is_dag prs fm TS ops m0 Hv Hd).
Qed.

(** ** The default order of the time-series class is a function of what [==] compares

    Same node set, same directed arcs, same lags: same answer, whatever the order in which the
    nodes and edges were added (or removed and added again). *)
Theorem v_time_topological_order_depends g1 g2 :
  wf (dgraph g1) ->
  Permutation (node_ids g1) (node_ids g2) ->
  (forall a b, arc (dgraph g1) a b <-> arc (dgraph g2) a b) ->
  fully_directed g1 = fully_directed g2 ->
  (forall id, In id (node_ids g1) -> lag_fn g1 id = lag_fn g2 id) ->
  v_time_topological_order g1 = v_time_topological_order g2.
Proof.
  intros Hwf Hp Ha Hfd Hlag. unfold v_time_topological_order. rewrite <- Hfd.
  destruct (fully_directed g1); [|reflexivity].
  assert (Hv : verts (nx_digraph g1) = verts (nx_digraph g2))
    by (cbn [verts nx_digraph]; apply sort_names_perm_eq, Hp).
  assert (Ha' : forall a b, arc (nx_digraph g1) a b <-> arc (nx_digraph g2) a b) by exact Ha.
  pose proof (nx_digraph_wf Hwf) as Hwf1.
  rewrite (@get_time_topological_order_depends name name_eqb name_eqb_spec
             (nx_digraph g1) (nx_digraph g2) (lag_fn g1) Hwf1 Hv Ha').
  unfold get_time_topological_order. destruct (acyclicb name_eqb (nx_digraph g2)); [|reflexivity].
  apply (lex_topological_sort_key_ext name_eqb name_eqb_spec).
  - exact (@wf_ext name (nx_digraph g1) (nx_digraph g2) Hv Ha' Hwf1).
  - intros v Hv2. cbn [verts nx_digraph] in Hv2. apply (proj1 (sort_names_in _ _)) in Hv2.
    apply Hlag, (Permutation_in _ (Permutation_sym Hp)), Hv2.
Qed.

Lemma canon_edge_dir e a b :
  canon_edge e = ((a, b), Dir) <-> ety e = Dir /\ esrc e = a /\ edst e = b.
Proof.
  unfold canon_edge, canon_pair. split.
  - intros H. assert (Ht : ety e = Dir) by (inversion H; reflexivity).
    rewrite Ht in H. cbn in H. inversion H. auto.
  - intros (Ht & <- & <-). rewrite Ht. reflexivity.
Qed.

Lemma arc_dgraph_canon g a b :
  arc (dgraph g) a b <-> In ((a, b), Dir) (snd (canon g)).
Proof.
  unfold canon. cbn [snd]. rewrite isort_in, in_map_iff, arc_dgraph.
  split; intros (e & H1 & H2).
  - exists e. split; [apply canon_edge_dir; tauto|tauto].
  - exists e. apply canon_edge_dir in H1. tauto.
Qed.

Lemma fully_directed_canon g :
  fully_directed g = true <-> forall c, In c (snd (canon g)) -> snd c = Dir.
Proof.
  unfold fully_directed, canon. cbn [snd]. rewrite forallb_forall. split.
  - intros H c Hc. apply isort_in, in_map_iff in Hc. destruct Hc as (e & <- & He).
    specialize (H e He). destruct (etype_eqb_spec (ety e) Dir) as [E|]; [exact E|discriminate].
  - intros H e He.
    assert (Hc : In (canon_edge e) (isort cedge_leb (map canon_edge (gsrc g))))
      by (apply isort_in, in_map, He).
    apply H in Hc. cbn in Hc. rewrite Hc. reflexivity.
Qed.

Lemma node_ids_perm_canon g : Permutation (node_ids g) (fst (canon g)).
Proof.
  unfold canon, v_node_names, nodes_sorted, node_ids. cbn [fst].
  apply Permutation_map, isort_perm.
Qed.

Lemma lag_fn_parse prs g id :
  GraphInv.Inv prs TS g -> In id (node_ids g) -> exists v, prs id = Some (v, lag_fn g id).
Proof.
  intros HI Hid. destruct (find_node_in _ _ Hid) as (n & Hn).
  unfold lag_fn, node_lag, get_node. rewrite Hn. apply find_node_some in Hn.
  destruct Hn as [Hn Hnid].
  destruct (ts_nodeok (inv_ts HI eq_refl) n Hn) as (v & l & Hp & _ & Hl).
  rewrite Hl. exists v. rewrite <- Hnid. exact Hp.
Qed.

(** Two time-series graphs that compare equal ([g == h], the shallow [__eq__]) have the same
    default topological order. *)
Theorem equal_graphs_same_time_order prs g h :
  GraphInv.Inv prs TS g -> GraphInv.Inv prs TS h ->
  graph_eqb TS false g h = Ok true ->
  v_time_topological_order g = v_time_topological_order h.
Proof.
  intros Ig Ih Heq. apply (graph_eq_char Ig Ih) in Heq.
  assert (Hp : Permutation (node_ids g) (node_ids h)).
  { rewrite (node_ids_perm_canon g), (node_ids_perm_canon h), Heq. reflexivity. }
  apply v_time_topological_order_depends.
  - exact (reachable_dgraph_wf Ig).
  - exact Hp.
  - intros a b. rewrite !arc_dgraph_canon, Heq. reflexivity.
  - apply eq_true_iff_eq. rewrite !fully_directed_canon, Heq. reflexivity.
  - intros id Hid.
    destruct (@lag_fn_parse prs g id Ig Hid) as (v & E1).
    destruct (@lag_fn_parse prs h id Ih (Permutation_in _ Hp Hid)) as (v' & E2).
    rewrite E1 in E2. inversion E2. reflexivity.
Qed.

(** ... but NOT the default order of [CausalGraph]: two reachable graphs that compare equal
    and answer differently.  Observed on the library:
    [g.add_edge('a','c'); g.add_edge('a','b')], [h.add_edge('a','b'); h.add_edge('a','c')]
    (or [h = g.copy()]): [g == h] is [True], [g.get_topological_order()] is [['a','c','b']] and
    [h.get_topological_order()] is [['a','b','c']]. *)
Definition equal_graphs_same_order_statement : Prop :=
  forall g h,
    GraphInv.Inv parse Plain g -> GraphInv.Inv parse Plain h ->
    graph_eqb Plain false g h = Ok true ->
    v_topological_order g = v_topological_order h.

Definition eo_a : name := [97]%N.
Definition eo_b : name := [98]%N.
Definition eo_c : name := [99]%N.
Definition eo_ops_g : list op :=
  [OAddEdge (str_ep eo_a) (str_ep eo_c) Dir None true; OAddEdge (str_ep eo_a) (str_ep eo_b) Dir None true].
Definition eo_ops_h : list op :=
  [OAddEdge (str_ep eo_a) (str_ep eo_b) Dir None true; OAddEdge (str_ep eo_a) (str_ep eo_c) Dir None true].
Definition eo_g : graph := run parse fmt Plain eo_ops_g (empty_graph []).
Definition eo_h : graph := run parse fmt Plain eo_ops_h (empty_graph []).

(* Python: the two orders quoted above, and g == h *)
Example eo_values :
  v_topological_order eo_g = TOk [eo_a; eo_c; eo_b]
  /\ v_topological_order eo_h = TOk [eo_a; eo_b; eo_c]
  /\ graph_eqb Plain false eo_g eo_h = Ok true.
Proof. vm_compute. repeat split; reflexivity. Qed.

Theorem equal_graphs_same_order_refuted : ~ equal_graphs_same_order_statement.
Proof.
  intros H. specialize (H eo_g eo_h (inv_run parse fmt Plain eo_ops_g []) (inv_run parse fmt Plain eo_ops_h [])).
  destruct eo_values as (Eg & Eh & Eeq). specialize (H Eeq). rewrite Eg, Eh in H. discriminate.
Qed.

(** the same two histories on the time-series class: one answer *)
Example eo_time_values :
  v_time_topological_order (run parse fmt TS eo_ops_g (empty_graph [])) = TOk [eo_a; eo_b; eo_c]
  /\ v_time_topological_order (run parse fmt TS eo_ops_h (empty_graph [])) = TOk [eo_a; eo_b; eo_c].
Proof. vm_compute. split; reflexivity. Qed.

(** The history [bx_hist] of BridgeProofs.v (3 variables, lags -2..0, failed calls, a deleted
    edge).  Python: [get_topological_order()] =
    [['Y lag(n=2)', 'X lag(n=1)', 'Z lag(n=1)', 'X', 'Y', 'Z']],
    [get_topological_order(respect_time_ordering=False)] =
    [['Y lag(n=2)', 'Z', 'Z lag(n=1)', 'X lag(n=1)', 'X', 'Y']]. *)
Example bx_default_orders :
  v_time_topological_order bx_g = TOk [bx_Y2; bx_X1; bx_Z1; bx_X; bx_Y; bx_Z]
  /\ v_topological_order bx_g = TOk [bx_Y2; bx_Z; bx_Z1; bx_X1; bx_X; bx_Y].
Proof. vm_compute. split; reflexivity. Qed.

Example bx_default_time_order_applies :
  exists l, v_time_topological_order bx_g = TOk l /\ Permutation l (node_ids bx_g)
            /\ is_topo name_eqb (dgraph bx_g) l = true
            /\ lags_sorted (lag_fn bx_g) l = true
            /\ In l (all_time_topo name_eqb (dgraph bx_g) (lag_fn bx_g)).
Proof.
  rewrite bx_g_reach.
  apply (reachable_default_time_topo parse fmt bx_hist bx_gm bx_validated).
  rewrite <- bx_g_reach. apply (proj1 (is_dag_model_bridge bx_inv)). vm_compute. reflexivity.
Qed.

(** the least-order theorem and the layers of the generations, instantiated *)
Example lex_least_ex l' :
  is_topo Nat.eqb qt l' = true ->
  lex_first_diff (prio_leb Nat.eqb qt_lag (verts qt)) [0; 2; 1; 3] l'.
Proof.
  apply (@lex_topological_sort_least nat Nat.eqb Nat.eqb_spec qt qt_lag [0; 2; 1; 3] l' qt_wf).
  vm_compute. reflexivity.
Qed.

Example generations_layers_ex :
  layered qg [] [[0; 5]; [1; 2]; [3]; [4]] /\ linked qg [0; 5] [[1; 2]; [3]; [4]].
Proof.
  destruct (@topological_generations_layers nat Nat.eqb Nat.eqb_spec qg [[0; 5]; [1; 2]; [3]; [4]] qg_wf)
    as [H1 [_ H2]]; [vm_compute; reflexivity|]. split; assumption.
Qed.
