(** CorrIdentifyGenIM.v — harness entry points for [identify_instruments] and [identify_mediators]
    (property C19): the functions GENERATED in IdentifyGenIM.v evaluated on a DAG over [0 .. n-1];
    conventions in CorrIdentifyGen.v (DEFINITIONS ONLY, plus pinned examples).  [cig_all] also
    evaluates [identify_confounders] (IdentifyGenConf.v, which IdentifyGenIM.v imports anyway). *)
From CG Require Import Base Digraph PyRt CorrIdentifyGen IdentifyGenConf IdentifyGenIM.
Set Implicit Arguments.

(** [identify_instruments(graph, x, y, max_num_paths)] *)
Definition cigo_instruments_max (ord : pyorder) (n : nat) (arcs : list (nat * nat))
           (x y max_num_paths : nat) : pyout (list nat) :=
  cig_sorted (gen_identify_instruments Nat.eqb (cig_none n) (cig_empty_str n) ord (cig_fuel n)
                (cig_graph n arcs) x y max_num_paths).
Definition cig_instruments_max := cigo_instruments_max pyorder_id.

(** [identify_mediators(graph, x, y, max_num_paths)] *)
Definition cigo_mediators_max (ord : pyorder) (n : nat) (arcs : list (nat * nat))
           (x y max_num_paths : nat) : pyout (list nat) :=
  cig_sorted (gen_identify_mediators Nat.eqb (cig_none n) (cig_empty_str n) ord (cig_fuel n)
                (cig_graph n arcs) x y max_num_paths).
Definition cig_mediators_max := cigo_mediators_max pyorder_id.

(** with the default [max_num_paths = 25] *)
Definition cig_instruments (n : nat) (arcs : list (nat * nat)) (x y : nat) : pyout (list nat) :=
  cig_instruments_max n arcs x y 25.
Definition cig_mediators (n : nat) (arcs : list (nat * nat)) (x y : nat) : pyout (list nat) :=
  cig_mediators_max n arcs x y 25.

(** The three result sets of one call (confounders, instruments, mediators), and their tokens. *)
Definition cig_all (n : nat) (arcs : list (nat * nat)) (x y : nat)
  : pyout (list nat) * pyout (list nat) * pyout (list nat) :=
  (cig_sorted (gen_identify_confounders Nat.eqb (cig_none n) (cig_empty_str n) pyorder_id (cig_fuel n)
                 (cig_graph n arcs) x y),
   cig_instruments n arcs x y, cig_mediators n arcs x y).
Definition cig_all_tokens (n : nat) (arcs : list (nat * nat)) (x y : nat) : list (list nat) :=
  let '(c, i, m) := cig_all n arcs x y in [cig_tokens c; cig_tokens i; cig_tokens m].

(** * Pinned examples (every right-hand side was obtained from the real library) *)

(** docstring of [identify_instruments]: z=0 u=1 x=2 y=3 *)
Example cig_ex_inst : cig_instruments 4 [(0, 2); (1, 2); (1, 3); (2, 3)] 2 3 = Ret [0].
Proof. vm_compute. reflexivity. Qed.
(** docstring of [identify_mediators]: x=0 m=1 y=2 u=3 *)
Example cig_ex_med : cig_mediators 4 [(0, 1); (1, 2); (3, 0); (3, 2); (0, 2)] 0 2 = Ret [1].
Proof. vm_compute. reflexivity. Qed.
Example cig_ex_all : cig_all 4 [(0, 1); (1, 2); (3, 0); (3, 2); (0, 2)] 0 2 = (Ret [3], Ret [], Ret [1]).
Proof. vm_compute. reflexivity. Qed.
(** unknown node: NodeDoesNotExistError *)
Example cig_ex_im_errors : cig_mediators 2 [(0, 1)] 7 0 = Exc PyNodeDoesNotExistError.
Proof. vm_compute. reflexivity. Qed.
(** x -> a -> y, x -> b -> y, x -> y: three causal paths; with max_num_paths = 1 the third one
    (index 2 > 1) makes identify_mediators raise ValueError; with max_num_paths = 2 it returns [] *)
Example cig_ex_max_paths :
  cig_mediators_max 4 [(0, 1); (1, 3); (0, 2); (2, 3); (0, 3)] 0 3 1 = Exc PyValueError /\
  cig_mediators_max 4 [(0, 1); (1, 3); (0, 2); (2, 3); (0, 3)] 0 3 2 = Ret [].
Proof. vm_compute. split; reflexivity. Qed.
(** the other concrete iteration order (reversed at the odd observation sites) *)
Example cig_ex_im_other_order :
  cigo_instruments_max pyorder_alt 4 [(0, 2); (1, 2); (1, 3); (2, 3)] 2 3 25 = Ret [0] /\
  cigo_mediators_max pyorder_alt 4 [(0, 1); (1, 2); (3, 0); (3, 2); (0, 2)] 0 2 25 = Ret [1] /\
  cigo_mediators_max pyorder_alt 4 [(0, 1); (1, 3); (0, 2); (2, 3); (0, 3)] 0 3 1 = Exc PyValueError.
Proof. vm_compute. repeat split; reflexivity. Qed.

(** the regression cases of CorrIdentifyGen.v, both iteration orders *)
Definition cig_check_dag_im (ord : pyorder)
    (c : nat * list (nat * nat) * nat * nat * nat
         * (pyout (list nat) * pyout (list nat) * pyout (list nat)) * pyout (list nat)) : bool :=
  let '(n, arcs, x, y, mx, (ec, ei, em), emb) := c in
  cig_out_eqb (cigo_instruments_max ord n arcs x y mx) ei
  && cig_out_eqb (cigo_mediators_max ord n arcs x y mx) em.
Example cig_regression_im_ok :
  forallb (cig_check_dag_im pyorder_id) cig_regression_dags = true /\
  forallb (cig_check_dag_im pyorder_alt) cig_regression_dags = true.
Proof. vm_compute. split; reflexivity. Qed.
