(** CorrTraversalGenQ.v — entry points of the correspondence harness for the functions GENERATED from
    [CausalGraph.get_nodes_between] and [CausalGraph.directed_path_exists] (TraversalGenQ.v), in the style of
    CorrIdentifyGen*.v.  DEFINITIONS and pinned [Example]s only.  Depends on TraversalGenQ.v only (not on
    TraversalGenCyc.v).

    Argument formats
    - a graph is [n] and a list of typed edges [(src, dst, etype)] over the nodes [0 .. n-1]
      ([etype] = Dir Und Bi Unk UnkDir UnkUnd = -> -- <> oo o> o-): the CausalGraph obtained by adding the
      nodes 0 .. n-1 in this order and then the edges in list order with [add_edge(src, dst, edge_type=..)]
      ([validate=False] when the list contains a directed cycle).
      The graph handed to the generated code is [ctg_graph n edges] = [pg_of_mgraph] of it: only the [Dir]
      edges appear in the inbound / outbound lists, [is_dag()] = all edges directed and no directed cycle.
    - a node argument is a number; a number [>= n] is an identifier that is not in the graph.
    - token forms [ctgt_*] for a harness that compares lists of numbers: [0 :: payload] for a normal return
      (payload = [] for None, [0]/[1] for False/True, the sorted list for a set), [[1; k]] for an exception
      ([cig_exc_code]: 2 KeyError, 6 AssertionError, 7 IndexError, ..), [[2]] for fuel ([Fuel] is never a
      normal-looking value).
    - fuel: [n + 1] for both (TraversalGenQProofs.gen_nodes_between_equiv, gen_directed_path_exists_correct: enough
      whenever the directed part is acyclic).
    - [ctg_nodes_between n edges a b : pyout (list nat)]: the set of nodes, SORTED; [Exc PyAssertionError] when the
      graph is not a DAG, [Exc PyKeyError] for an unknown node.
      [ctg_directed_path_exists n edges a b : pyout bool]: [Exc PyAssertionError] for an unknown node, [Fuel]
      exactly where Python dies with RecursionError on a directed cycle. *)
From CG Require Import Base Digraph Markov PyRt PyRtLoop CorrIdentifyGen CorrTraversalBase TraversalGenQ.
Set Implicit Arguments.

Definition ctg_nodes_between (n : nat) (edges : list (nat * nat * etype)) (a b : nat) : pyout (list nat) :=
  cig_sorted (gen_get_nodes_between Nat.eqb (n + 1) (ctg_graph n edges) a b).
Definition ctg_directed_path_exists (n : nat) (edges : list (nat * nat * etype)) (a b : nat) : pyout bool :=
  gen_directed_path_exists Nat.eqb (n + 1) (ctg_graph n edges) a b.
Definition ctgt_nodes_between n edges a b : list nat := cig_tokens (ctg_nodes_between n edges a b).
Definition ctgt_directed_path_exists n edges a b : list nat :=
  cig_tokens (ctg_map (fun r : bool => [if r then 1 else 0]) (ctg_directed_path_exists n edges a b)).

(** * Pinned behaviour: every right-hand side below was obtained from the real library
    (PYTHONPATH=/repo /venv/bin/python; nodes are the strings "0" .. "n-1", the last argument value n is an
    identifier that is not in the graph) *)
(* the graphs [ctg_*_edges] are defined and described in CorrTraversalBase.v *)
Example ctg_mixed_directed_path_exists :
  map (fun a => map (ctgt_directed_path_exists 6 ctg_mixed_edges a) (seq 0 7)) (seq 0 7)
  = [[[0; 0]; [0; 1]; [0; 1]; [0; 0]; [0; 0]; [0; 0]; [1; 6]]; [[0; 0]; [0; 0]; [0; 1]; [0; 0]; [0; 0]; [0; 0]; [1; 6]]; [[0; 0]; [0; 0]; [0; 0]; [0; 0]; [0; 0]; [0; 0]; [1; 6]]; [[0; 0]; [0; 0]; [0; 0]; [0; 0]; [0; 0]; [0; 0]; [1; 6]]; [[0; 0]; [0; 0]; [0; 0]; [0; 0]; [0; 0]; [0; 1]; [1; 6]]; [[0; 0]; [0; 0]; [0; 0]; [0; 0]; [0; 0]; [0; 0]; [1; 6]]; [[1; 6]; [1; 6]; [1; 6]; [1; 6]; [1; 6]; [1; 6]; [1; 6]]].
Proof. vm_compute. reflexivity. Qed.
Example ctg_mixed_nodes_between :
  map (fun a => map (ctgt_nodes_between 6 ctg_mixed_edges a) (seq 0 7)) (seq 0 7)
  = [[[1; 6]; [1; 6]; [1; 6]; [1; 6]; [1; 6]; [1; 6]; [1; 6]]; [[1; 6]; [1; 6]; [1; 6]; [1; 6]; [1; 6]; [1; 6]; [1; 6]]; [[1; 6]; [1; 6]; [1; 6]; [1; 6]; [1; 6]; [1; 6]; [1; 6]]; [[1; 6]; [1; 6]; [1; 6]; [1; 6]; [1; 6]; [1; 6]; [1; 6]]; [[1; 6]; [1; 6]; [1; 6]; [1; 6]; [1; 6]; [1; 6]; [1; 6]]; [[1; 6]; [1; 6]; [1; 6]; [1; 6]; [1; 6]; [1; 6]; [1; 6]]; [[1; 6]; [1; 6]; [1; 6]; [1; 6]; [1; 6]; [1; 6]; [1; 6]]].
Proof. vm_compute. reflexivity. Qed.
Example ctg_dag_directed_path_exists :
  map (fun a => map (ctgt_directed_path_exists 6 ctg_dag_edges a) (seq 0 7)) (seq 0 7)
  = [[[0; 0]; [0; 1]; [0; 1]; [0; 1]; [0; 1]; [0; 0]; [1; 6]]; [[0; 0]; [0; 0]; [0; 0]; [0; 1]; [0; 1]; [0; 0]; [1; 6]]; [[0; 0]; [0; 0]; [0; 0]; [0; 1]; [0; 1]; [0; 0]; [1; 6]]; [[0; 0]; [0; 0]; [0; 0]; [0; 0]; [0; 1]; [0; 0]; [1; 6]]; [[0; 0]; [0; 0]; [0; 0]; [0; 0]; [0; 0]; [0; 0]; [1; 6]]; [[0; 0]; [0; 0]; [0; 1]; [0; 1]; [0; 1]; [0; 0]; [1; 6]]; [[1; 6]; [1; 6]; [1; 6]; [1; 6]; [1; 6]; [1; 6]; [1; 6]]].
Proof. vm_compute. reflexivity. Qed.
Example ctg_dag_nodes_between :
  map (fun a => map (ctgt_nodes_between 6 ctg_dag_edges a) (seq 0 7)) (seq 0 7)
  = [[[0; 0]; [0; 0; 1]; [0; 0; 2]; [0; 0; 1; 2; 3]; [0; 0; 1; 2; 3; 4]; [0]; [1; 2]]; [[0]; [0; 1]; [0]; [0; 1; 3]; [0; 1; 3; 4]; [0]; [1; 2]]; [[0]; [0]; [0; 2]; [0; 2; 3]; [0; 2; 3; 4]; [0]; [1; 2]]; [[0]; [0]; [0]; [0; 3]; [0; 3; 4]; [0]; [1; 2]]; [[0]; [0]; [0]; [0]; [0; 4]; [0]; [1; 2]]; [[0]; [0]; [0; 2; 5]; [0; 2; 3; 5]; [0; 2; 3; 4; 5]; [0; 5]; [1; 2]]; [[1; 2]; [1; 2]; [1; 2]; [1; 2]; [1; 2]; [1; 2]; [1; 2]]].
Proof. vm_compute. reflexivity. Qed.
Example ctg_cyclic_directed_path_exists :
  map (fun a => map (ctgt_directed_path_exists 5 ctg_cyclic_edges a) (seq 0 6)) (seq 0 6)
  = [[[0; 1]; [0; 1]; [0; 1]; [2]; [2]; [1; 6]]; [[0; 1]; [0; 1]; [0; 1]; [2]; [2]; [1; 6]]; [[0; 1]; [0; 1]; [0; 1]; [2]; [2]; [1; 6]]; [[0; 1]; [0; 1]; [0; 1]; [2]; [2]; [1; 6]]; [[0; 0]; [0; 0]; [0; 0]; [0; 0]; [0; 0]; [1; 6]]; [[1; 6]; [1; 6]; [1; 6]; [1; 6]; [1; 6]; [1; 6]]].
Proof. vm_compute. reflexivity. Qed.
Example ctg_cyclic_nodes_between :
  map (fun a => map (ctgt_nodes_between 5 ctg_cyclic_edges a) (seq 0 6)) (seq 0 6)
  = [[[1; 6]; [1; 6]; [1; 6]; [1; 6]; [1; 6]; [1; 6]]; [[1; 6]; [1; 6]; [1; 6]; [1; 6]; [1; 6]; [1; 6]]; [[1; 6]; [1; 6]; [1; 6]; [1; 6]; [1; 6]; [1; 6]]; [[1; 6]; [1; 6]; [1; 6]; [1; 6]; [1; 6]; [1; 6]]; [[1; 6]; [1; 6]; [1; 6]; [1; 6]; [1; 6]; [1; 6]]; [[1; 6]; [1; 6]; [1; 6]; [1; 6]; [1; 6]; [1; 6]]].
Proof. vm_compute. reflexivity. Qed.
Example ctg_rand1_directed_path_exists :
  map (fun a => map (ctgt_directed_path_exists 3 ctg_rand1_edges a) (seq 0 4)) (seq 0 4)
  = [[[0; 0]; [0; 1]; [0; 1]; [1; 6]]; [[0; 0]; [0; 0]; [0; 0]; [1; 6]]; [[0; 0]; [0; 1]; [0; 0]; [1; 6]]; [[1; 6]; [1; 6]; [1; 6]; [1; 6]]].
Proof. vm_compute. reflexivity. Qed.
Example ctg_rand1_nodes_between :
  map (fun a => map (ctgt_nodes_between 3 ctg_rand1_edges a) (seq 0 4)) (seq 0 4)
  = [[[0; 0]; [0; 0; 1; 2]; [0; 0; 2]; [1; 2]]; [[0]; [0; 1]; [0]; [1; 2]]; [[0]; [0; 1; 2]; [0; 2]; [1; 2]]; [[1; 2]; [1; 2]; [1; 2]; [1; 2]]].
Proof. vm_compute. reflexivity. Qed.
Example ctg_rand2_directed_path_exists :
  map (fun a => map (ctgt_directed_path_exists 6 ctg_rand2_edges a) (seq 0 7)) (seq 0 7)
  = [[[0; 0]; [0; 0]; [0; 0]; [0; 0]; [0; 0]; [0; 0]; [1; 6]]; [[0; 1]; [0; 0]; [0; 1]; [0; 0]; [0; 1]; [0; 1]; [1; 6]]; [[0; 0]; [0; 0]; [0; 0]; [0; 0]; [0; 0]; [0; 0]; [1; 6]]; [[0; 0]; [0; 0]; [0; 1]; [0; 0]; [0; 1]; [0; 0]; [1; 6]]; [[0; 0]; [0; 0]; [0; 1]; [0; 0]; [0; 0]; [0; 0]; [1; 6]]; [[0; 1]; [0; 0]; [0; 0]; [0; 0]; [0; 0]; [0; 0]; [1; 6]]; [[1; 6]; [1; 6]; [1; 6]; [1; 6]; [1; 6]; [1; 6]; [1; 6]]].
Proof. vm_compute. reflexivity. Qed.
Example ctg_rand2_nodes_between :
  map (fun a => map (ctgt_nodes_between 6 ctg_rand2_edges a) (seq 0 7)) (seq 0 7)
  = [[[1; 6]; [1; 6]; [1; 6]; [1; 6]; [1; 6]; [1; 6]; [1; 6]]; [[1; 6]; [1; 6]; [1; 6]; [1; 6]; [1; 6]; [1; 6]; [1; 6]]; [[1; 6]; [1; 6]; [1; 6]; [1; 6]; [1; 6]; [1; 6]; [1; 6]]; [[1; 6]; [1; 6]; [1; 6]; [1; 6]; [1; 6]; [1; 6]; [1; 6]]; [[1; 6]; [1; 6]; [1; 6]; [1; 6]; [1; 6]; [1; 6]; [1; 6]]; [[1; 6]; [1; 6]; [1; 6]; [1; 6]; [1; 6]; [1; 6]; [1; 6]]; [[1; 6]; [1; 6]; [1; 6]; [1; 6]; [1; 6]; [1; 6]; [1; 6]]].
Proof. vm_compute. reflexivity. Qed.
Example ctg_rand3_directed_path_exists :
  map (fun a => map (ctgt_directed_path_exists 5 ctg_rand3_edges a) (seq 0 6)) (seq 0 6)
  = [[[0; 0]; [0; 0]; [0; 0]; [0; 0]; [0; 1]; [1; 6]]; [[0; 0]; [0; 0]; [0; 0]; [0; 1]; [0; 0]; [1; 6]]; [[0; 1]; [0; 1]; [0; 0]; [0; 1]; [0; 1]; [1; 6]]; [[0; 0]; [0; 0]; [0; 0]; [0; 0]; [0; 0]; [1; 6]]; [[0; 0]; [0; 0]; [0; 0]; [0; 0]; [0; 0]; [1; 6]]; [[1; 6]; [1; 6]; [1; 6]; [1; 6]; [1; 6]; [1; 6]]].
Proof. vm_compute. reflexivity. Qed.
Example ctg_rand3_nodes_between :
  map (fun a => map (ctgt_nodes_between 5 ctg_rand3_edges a) (seq 0 6)) (seq 0 6)
  = [[[0; 0]; [0]; [0]; [0]; [0; 0; 4]; [1; 2]]; [[0]; [0; 1]; [0]; [0; 1; 3]; [0]; [1; 2]]; [[0; 0; 2]; [0; 1; 2]; [0; 2]; [0; 1; 2; 3]; [0; 0; 2; 4]; [1; 2]]; [[0]; [0]; [0]; [0; 3]; [0]; [1; 2]]; [[0]; [0]; [0]; [0]; [0; 4]; [1; 2]]; [[1; 2]; [1; 2]; [1; 2]; [1; 2]; [1; 2]; [1; 2]]].
Proof. vm_compute. reflexivity. Qed.
Example ctg_rand4_directed_path_exists :
  map (fun a => map (ctgt_directed_path_exists 7 ctg_rand4_edges a) (seq 0 8)) (seq 0 8)
  = [[[0; 0]; [0; 1]; [0; 1]; [0; 0]; [0; 0]; [0; 0]; [0; 0]; [1; 6]]; [[0; 0]; [0; 0]; [0; 0]; [0; 0]; [0; 0]; [0; 0]; [0; 0]; [1; 6]]; [[0; 0]; [0; 0]; [0; 0]; [0; 0]; [0; 0]; [0; 0]; [0; 0]; [1; 6]]; [[0; 0]; [0; 0]; [0; 0]; [0; 0]; [0; 0]; [0; 0]; [0; 0]; [1; 6]]; [[0; 0]; [0; 0]; [0; 0]; [0; 0]; [0; 0]; [0; 0]; [0; 0]; [1; 6]]; [[0; 0]; [0; 0]; [0; 0]; [0; 0]; [0; 0]; [0; 0]; [0; 0]; [1; 6]]; [[0; 0]; [0; 0]; [0; 0]; [0; 0]; [0; 0]; [0; 0]; [0; 0]; [1; 6]]; [[1; 6]; [1; 6]; [1; 6]; [1; 6]; [1; 6]; [1; 6]; [1; 6]; [1; 6]]].
Proof. vm_compute. reflexivity. Qed.
Example ctg_rand4_nodes_between :
  map (fun a => map (ctgt_nodes_between 7 ctg_rand4_edges a) (seq 0 8)) (seq 0 8)
  = [[[1; 6]; [1; 6]; [1; 6]; [1; 6]; [1; 6]; [1; 6]; [1; 6]; [1; 6]]; [[1; 6]; [1; 6]; [1; 6]; [1; 6]; [1; 6]; [1; 6]; [1; 6]; [1; 6]]; [[1; 6]; [1; 6]; [1; 6]; [1; 6]; [1; 6]; [1; 6]; [1; 6]; [1; 6]]; [[1; 6]; [1; 6]; [1; 6]; [1; 6]; [1; 6]; [1; 6]; [1; 6]; [1; 6]]; [[1; 6]; [1; 6]; [1; 6]; [1; 6]; [1; 6]; [1; 6]; [1; 6]; [1; 6]]; [[1; 6]; [1; 6]; [1; 6]; [1; 6]; [1; 6]; [1; 6]; [1; 6]; [1; 6]]; [[1; 6]; [1; 6]; [1; 6]; [1; 6]; [1; 6]; [1; 6]; [1; 6]; [1; 6]]; [[1; 6]; [1; 6]; [1; 6]; [1; 6]; [1; 6]; [1; 6]; [1; 6]; [1; 6]]].
Proof. vm_compute. reflexivity. Qed.
Example ctg_rand5_directed_path_exists :
  map (fun a => map (ctgt_directed_path_exists 3 ctg_rand5_edges a) (seq 0 4)) (seq 0 4)
  = [[[0; 0]; [0; 0]; [0; 0]; [1; 6]]; [[0; 0]; [0; 0]; [0; 0]; [1; 6]]; [[0; 0]; [0; 0]; [0; 0]; [1; 6]]; [[1; 6]; [1; 6]; [1; 6]; [1; 6]]].
Proof. vm_compute. reflexivity. Qed.
Example ctg_rand5_nodes_between :
  map (fun a => map (ctgt_nodes_between 3 ctg_rand5_edges a) (seq 0 4)) (seq 0 4)
  = [[[0; 0]; [0]; [0]; [1; 2]]; [[0]; [0; 1]; [0]; [1; 2]]; [[0]; [0]; [0; 2]; [1; 2]]; [[1; 2]; [1; 2]; [1; 2]; [1; 2]]].
Proof. vm_compute. reflexivity. Qed.
Example ctg_rand6_directed_path_exists :
  map (fun a => map (ctgt_directed_path_exists 7 ctg_rand6_edges a) (seq 0 8)) (seq 0 8)
  = [[[0; 0]; [0; 0]; [0; 0]; [0; 0]; [0; 0]; [0; 0]; [0; 0]; [1; 6]]; [[0; 0]; [0; 0]; [0; 0]; [0; 0]; [0; 0]; [0; 0]; [0; 0]; [1; 6]]; [[0; 0]; [0; 0]; [0; 0]; [0; 0]; [0; 0]; [0; 0]; [0; 0]; [1; 6]]; [[0; 0]; [0; 0]; [0; 0]; [0; 0]; [0; 0]; [0; 0]; [0; 0]; [1; 6]]; [[0; 0]; [0; 0]; [0; 0]; [0; 0]; [0; 0]; [0; 0]; [0; 0]; [1; 6]]; [[0; 0]; [0; 0]; [0; 0]; [0; 0]; [0; 0]; [0; 0]; [0; 0]; [1; 6]]; [[0; 0]; [0; 0]; [0; 0]; [0; 0]; [0; 0]; [0; 0]; [0; 0]; [1; 6]]; [[1; 6]; [1; 6]; [1; 6]; [1; 6]; [1; 6]; [1; 6]; [1; 6]; [1; 6]]].
Proof. vm_compute. reflexivity. Qed.
Example ctg_rand6_nodes_between :
  map (fun a => map (ctgt_nodes_between 7 ctg_rand6_edges a) (seq 0 8)) (seq 0 8)
  = [[[0; 0]; [0]; [0]; [0]; [0]; [0]; [0]; [1; 2]]; [[0]; [0; 1]; [0]; [0]; [0]; [0]; [0]; [1; 2]]; [[0]; [0]; [0; 2]; [0]; [0]; [0]; [0]; [1; 2]]; [[0]; [0]; [0]; [0; 3]; [0]; [0]; [0]; [1; 2]]; [[0]; [0]; [0]; [0]; [0; 4]; [0]; [0]; [1; 2]]; [[0]; [0]; [0]; [0]; [0]; [0; 5]; [0]; [1; 2]]; [[0]; [0]; [0]; [0]; [0]; [0]; [0; 6]; [1; 2]]; [[1; 2]; [1; 2]; [1; 2]; [1; 2]; [1; 2]; [1; 2]; [1; 2]; [1; 2]]].
Proof. vm_compute. reflexivity. Qed.
Example ctg_rand7_directed_path_exists :
  map (fun a => map (ctgt_directed_path_exists 2 ctg_rand7_edges a) (seq 0 3)) (seq 0 3)
  = [[[0; 0]; [0; 0]; [1; 6]]; [[0; 1]; [0; 0]; [1; 6]]; [[1; 6]; [1; 6]; [1; 6]]].
Proof. vm_compute. reflexivity. Qed.
Example ctg_rand7_nodes_between :
  map (fun a => map (ctgt_nodes_between 2 ctg_rand7_edges a) (seq 0 3)) (seq 0 3)
  = [[[0; 0]; [0]; [1; 2]]; [[0; 0; 1]; [0; 1]; [1; 2]]; [[1; 2]; [1; 2]; [1; 2]]].
Proof. vm_compute. reflexivity. Qed.
Example ctg_rand8_directed_path_exists :
  map (fun a => map (ctgt_directed_path_exists 5 ctg_rand8_edges a) (seq 0 6)) (seq 0 6)
  = [[[0; 0]; [0; 0]; [0; 0]; [0; 0]; [0; 0]; [1; 6]]; [[0; 0]; [0; 0]; [0; 0]; [0; 0]; [0; 0]; [1; 6]]; [[0; 1]; [0; 0]; [0; 0]; [0; 1]; [0; 0]; [1; 6]]; [[0; 0]; [0; 0]; [0; 0]; [0; 0]; [0; 0]; [1; 6]]; [[0; 0]; [0; 0]; [0; 0]; [0; 0]; [0; 0]; [1; 6]]; [[1; 6]; [1; 6]; [1; 6]; [1; 6]; [1; 6]; [1; 6]]].
Proof. vm_compute. reflexivity. Qed.
Example ctg_rand8_nodes_between :
  map (fun a => map (ctgt_nodes_between 5 ctg_rand8_edges a) (seq 0 6)) (seq 0 6)
  = [[[0; 0]; [0]; [0]; [0]; [0]; [1; 2]]; [[0]; [0; 1]; [0]; [0]; [0]; [1; 2]]; [[0; 0; 2]; [0]; [0; 2]; [0; 2; 3]; [0]; [1; 2]]; [[0]; [0]; [0]; [0; 3]; [0]; [1; 2]]; [[0]; [0]; [0]; [0]; [0; 4]; [1; 2]]; [[1; 2]; [1; 2]; [1; 2]; [1; 2]; [1; 2]; [1; 2]]].
Proof. vm_compute. reflexivity. Qed.
