(** SubGraph.v — executable model, on the CONCRETE state of Graph.v, of the sub-graph methods of
    [CausalGraph] / [TimeSeriesCausalGraph] (cai_causal_graph/causal_graph.py):
    [_get_subgraph], [get_ancestors], [get_descendants], [get_ancestral_graph],
    [get_descendant_graph], [get_parents_graph], [get_children_graph] (property C10).
    DEFINITIONS ONLY; the proofs are in SubGraphProofs.v.

    Everything follows the Python statement by statement:

    {[
      def _get_subgraph(self, nodes):
          node_list = [identifier_from(node) for node in nodes]
          filtered_edges = [edge for edge in self.edges
                            if edge.source.identifier in node_list
                            and edge.destination.identifier in node_list]
          filtered_graph = self.__class__(meta=deepcopy(self.meta))
          if len(filtered_edges) == 0:
              for node in nodes:
                  filtered_graph.add_node(node=self.get_node(node))
          for edge in filtered_edges:
              filtered_graph.add_edge(edge=edge, validate=False)
          return filtered_graph
    ]}

    NB (observed on the implementation, see the examples of SubGraphProofs.v): when at least one
    edge is kept the nodes are created ONLY as endpoints of the kept edges, so a listed node
    without a kept edge is silently dropped, and a listed identifier that is not a node of the
    graph is silently ignored; when no edge is kept every listed node is copied, an unknown
    identifier raises KeyError and a repeated one NodeDuplicatedError.

    The class of the result ([self.__class__]) is the [kind] parameter [k]; [deepcopy] is the
    identity on the immutable values of the model. *)
From CG Require Import Base Digraph Graph GraphObs GraphInv Queries Matrix Skeleton Serial.
Set Implicit Arguments.

(** the identifiers that occur as an endpoint in a list of edges *)
Definition endpoints_of (es : list edge) : list name := flat_map (fun e => [esrc e; edst e]) es.

(** [filtered_edges]: in the order of [self.edges] (sorted by source, then destination) *)
Definition sub_edges (g : graph) (nodes : list name) : list edge :=
  filter (fun e => mem (esrc e) nodes && mem (edst e) nodes) (v_edges g).

(** * networkx side of [get_ancestors] / [get_descendants]

    [to_networkx()] refuses a graph that is neither fully directed nor fully undirected
    (GraphConversionError); a fully directed one (in particular one without edges) becomes a
    [networkx.DiGraph] with one arc per edge, a fully undirected one a [networkx.Graph], on
    which [networkx.ancestors] and [networkx.descendants] both follow the edges in either
    direction (the arcs are symmetrised here).  Both networkx routines return
    [{child for parent, child in bfs_edges(G, source)}], which never contains [source]. *)
Definition nx_arcs (g : graph) : list (name * name) := map edge_key (gsrc g).
Definition sym_arcs (l : list (name * name)) : list (name * name) :=
  l ++ map (fun p => (snd p, fst p)) l.

Definition nx_view (g : graph) : res (digraph name) :=
  let fd := fully_directed g in
  let fu := fully_undirected g in
  if negb fd && negb fu then Err EConv
  else if fd then Ok {| verts := node_ids g; arcs := nx_arcs g |}
  else Ok {| verts := node_ids g; arcs := sym_arcs (nx_arcs g) |}.

(** [get_ancestors(node)] / [get_descendants(node)]: AssertionError for an unknown node first,
    then the conversion.  The result is a Python [set]: the order of the list is NOT modelled
    (the theorems about the sub-graphs hold for every enumeration of the set). *)
Definition g_ancestors (g : graph) (x : name) : res (list name) :=
  if node_exists g x then
    bind (nx_view g) (fun d => Ok (removeb name_eqb x (anc name_eqb d x)))
  else Err EAssert.

Definition g_descendants (g : graph) (x : name) : res (list name) :=
  if node_exists g x then
    bind (nx_view g) (fun d => Ok (removeb name_eqb x (desc name_eqb d x)))
  else Err EAssert.

(** * [Edge.__eq__] (shallow) against a DIRECTED edge [s2 -> d2]: what [e not in inbound] /
    [e not in outbound] evaluates ([list.__contains__] uses [==]) *)
Definition dont_care_dir (t : etype) : bool :=
  match t with Und | Bi | Unk => true | _ => false end.
Definition edge_sheq (e : edge) (s2 d2 : name) (t2 : etype) : bool :=
  if name_eqb (esrc e) s2 && name_eqb (edst e) d2 then etype_eqb (ety e) t2
  else if name_eqb (esrc e) d2 && name_eqb (edst e) s2
       then dont_care_dir (ety e) && etype_eqb (ety e) t2
       else false.

Section SubGraph.
  Variable parse : name -> option (name * Z).
  Variable fmt : name -> Z -> option name.
  Variable k : kind.

  (** [h.add_node(node=g.get_node(x))]: KeyError for an unknown identifier *)
  Definition add_node_of (g : graph) (acc : res graph) (x : name) : res graph :=
    bind acc (fun h =>
      match get_node g x with
      | None => Err EKey
      | Some n => add_node_obj parse k h (nid n) (nvt n) (nmeta n)
      end).

  (** [h.add_edge(edge=e, validate=False)] for an edge object [e] of [g]: the endpoints are
      handed over as the Node OBJECTS the edge holds (identifier, variable type, metadata of
      the node of [g]); an exception leaves the local [h] to be discarded.  [Err EKey] for an
      endpoint that is not a node of [g] is a model-only outcome (an edge object always holds
      its two node objects); it is excluded by the invariant. *)
  Definition add_edge_of (g : graph) (acc : res graph) (e : edge) : res graph :=
    bind acc (fun h =>
      match attr_of g (esrc e), attr_of g (edst e) with
      | Some a, Some b =>
          fst (add_edge parse k h (esrc e, Some a) (edst e, Some b) (ety e) (Some (emeta e)) false)
      | _, _ => Err EKey
      end).

  (** [_get_subgraph(nodes)] *)
  Definition get_subgraph (g : graph) (nodes : list name) : res graph :=
    let es := sub_edges g nodes in
    let h0 := empty_graph (gmeta g) in
    let h1 := match es with
              | [] => fold_left (add_node_of g) nodes (Ok h0)
              | _ :: _ => Ok h0
              end in
    fold_left (add_edge_of g) es h1.

  (** [get_ancestral_graph(node)]: [_get_subgraph([*get_ancestors(node), node])] *)
  Definition ancestral_graph (g : graph) (x : name) : res graph :=
    bind (g_ancestors g x) (fun l => get_subgraph g (l ++ [x])).

  (** [get_descendant_graph(node)] *)
  Definition descendant_graph (g : graph) (x : name) : res graph :=
    bind (g_descendants g x) (fun l => get_subgraph g (l ++ [x])).

  (** the two loops shared by [get_parents_graph] and [get_children_graph]:
      {[
        for e in c.edges:
            if e not in kept_edges: c.delete_edge( *e.get_edge_pair())
        for n in c.nodes:
            if n.identifier not in kept_nodes: c.delete_node(n.identifier)
      ]}
      both iterate over a snapshot list taken before the loop *)
  Definition prune (c : graph) (keep : edge -> bool) (kept_nodes : list name) : res graph :=
    bind (fold_left (fun acc e => bind acc (fun h =>
                       if keep e then Ok h else delete_edge h (esrc e) (edst e) None))
            (v_edges c) (Ok c))
      (fun c1 =>
         fold_left (fun acc n => bind acc (fun h =>
                      if mem (nid n) kept_nodes then Ok h else delete_node k h (nid n)))
           (nodes_sorted c1) (Ok c1)).

  (** [get_parents_graph(node)]: the inbound list is read from [self] *)
  Definition parents_graph (g : graph) (x : name) : res graph :=
    if node_exists g x then
      bind (copy parse fmt k g true) (fun c =>
        match get_node g x with
        | None => Err EKey
        | Some nx =>
            prune c (fun e => existsb (fun p => edge_sheq e p x Dir) (ninb nx)) (x :: ninb nx)
        end)
    else Err EAssert.

  (** [get_children_graph(node)]: the outbound list is read from the COPY *)
  Definition children_graph (g : graph) (x : name) : res graph :=
    if node_exists g x then
      bind (copy parse fmt k g true) (fun c =>
        match get_node c x with
        | None => Err EKey
        | Some nx =>
            prune c (fun e => existsb (fun d => edge_sheq e x d Dir) (noutb nx)) (x :: noutb nx)
        end)
    else Err EAssert.

  (** * What a caller can see of a returned graph (used by the examples and by the
      correspondence with the implementation) *)
  Definition graph_view (h : graph)
    : list (name * vtype * meta) * list (name * name * etype * meta) * meta * list name :=
    (v_nodes h, map edge4 (v_edges h), gmeta h, map nid (gnodes h)).

  Definition res_view (r : res graph) :=
    match r with Ok h => Ok (graph_view h) | Err x => Err x end.
End SubGraph.
