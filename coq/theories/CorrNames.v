(** CorrNames.v — entry points evaluated by the C12 correspondence check (DEFINITIONS ONLY). *)
From CG Require Import Base Dec Names.

Definition oname_eqb (a b : option name) : bool :=
  match a, b with
  | None, None => true
  | Some x, Some y => name_eqb x y
  | _, _ => false
  end.
Definition oparse_eqb (a b : option (name * Z)) : bool :=
  match a, b with
  | None, None => true
  | Some (x, i), Some (y, j) => name_eqb x y && Z.eqb i j
  | _, _ => false
  end.

(** a string, what the implementation's parser answered, and what its formatter answered for
    a few lags *)
Definition ncase := (name * option (name * Z) * list (Z * option name))%type.

Definition ncase_ok (c : ncase) : bool :=
  let '(s, p, fs) := c in
  oparse_eqb (parse s) p && forallb (fun kr => oname_eqb (fmt s (fst kr)) (snd kr)) fs.

Fixpoint idx_where {A} (f : A -> bool) (i : nat) (l : list A) : list nat :=
  match l with
  | [] => []
  | x :: l' => if f x then i :: idx_where f (S i) l' else idx_where f (S i) l'
  end.

Definition nmismatches (cs : list ncase) : list nat := idx_where (fun c => negb (ncase_ok c)) 0 cs.
Definition goods (cs : list ncase) : list nat := idx_where (fun c => good (fst (fst c))) 0 cs.
Definition canonicals (cs : list ncase) : list nat := idx_where (fun c => canonical (fst (fst c))) 0 cs.
