(** CorrTopoSort.v — entry points of the correspondence harness for the DEFAULT answer of
    [get_topological_order()] (properties C10 / C13), DEFINITIONS and pinned examples only.

    A case is a directed graph over the vertices [0 .. n-1]:
    - [node_order]: the vertices in the node order of [to_networkx()], i.e. in the order of
      their identifiers SORTED as Python strings ([get_node_names()] sorts; the order in which the
      nodes were added to the causal graph is irrelevant);
    - [arcs]: the directed edges [(source, destination)] in the order in which they were added
      to the causal graph (any order that lists the edges leaving each source in the key order
      of [_edges_by_source[source]] gives the same answer, see
      [TopoSortProofs.topological_sort_depends] / [lex_topological_sort_depends]);
    - [lags]: the time lag of vertex [i] is [nth i lags 0] (time-series graphs only).

    The answer is the exact order returned by the library.  Failures are encoded by a
    one-element list that cannot be an order: [[n + 1]] when the graph is not a DAG (the library
    raises AssertionError), [[n + 2]] when [node_order] is not a permutation of [0 .. n-1] or an
    arc leaves [0 .. n-1] (ill-formed case), [[n + 3]] for the states proved unreachable. *)
From CG Require Import Base Digraph Queries Graph GraphInv Names TopoSort.
Set Implicit Arguments.

Definition ct_graph (node_order : list nat) (arcs : list (nat * nat)) : digraph nat :=
  {| verts := node_order; arcs := arcs |}.

Definition ct_wfb (n : nat) (node_order : list nat) (arcs : list (nat * nat)) : bool :=
  Nat.eqb (length node_order) n
  && forallb (fun v => memb Nat.eqb v node_order) (seq 0 n)
  && forallb (fun e => Nat.ltb (fst e) n && Nat.ltb (snd e) n) arcs.

Definition ct_encode (n : nat) (r : tres (list nat)) : list nat :=
  match r with
  | TOk l => l
  | TNotDag => [n + 1]
  | TCycle | TKeyError | TFuel => [n + 3]
  end.

Definition ct_lag (lags : list Z) (v : nat) : Z := nth v lags 0%Z.

(** [CausalGraph.get_topological_order()] *)
Definition corr_topo_default (n : nat) (node_order : list nat) (arcs : list (nat * nat)) : list nat :=
  if ct_wfb n node_order arcs
  then ct_encode n (get_topological_order Nat.eqb (ct_graph node_order arcs))
  else [n + 2].

(** [TimeSeriesCausalGraph.get_topological_order()] ([respect_time_ordering=True]) *)
Definition corr_topo_time (n : nat) (node_order : list nat) (arcs : list (nat * nat)) (lags : list Z)
  : list nat :=
  if ct_wfb n node_order arcs
  then ct_encode n (get_time_topological_order Nat.eqb (ct_graph node_order arcs) (ct_lag lags))
  else [n + 2].

(** The bare networkx routines (no [is_dag] assertion): [[n + 1]] is NetworkXUnfeasible. *)
Definition ct_encode_nx (n : nat) (r : tres (list nat)) : list nat :=
  match r with
  | TOk l => l
  | TCycle => [n + 1]
  | TNotDag | TKeyError | TFuel => [n + 3]
  end.

Definition corr_nx_topological_sort (n : nat) (node_order : list nat) (arcs : list (nat * nat)) : list nat :=
  if ct_wfb n node_order arcs
  then ct_encode_nx n (topological_sort Nat.eqb (ct_graph node_order arcs))
  else [n + 2].

Definition corr_nx_lex_topological_sort (n : nat) (node_order : list nat) (arcs : list (nat * nat))
           (keys : list Z) : list nat :=
  if ct_wfb n node_order arcs
  then ct_encode_nx n (lexicographical_topological_sort Nat.eqb (ct_graph node_order arcs) (ct_lag keys))
  else [n + 2].

(** [list(networkx.topological_generations(G))], generations separated by [n] *)
Definition corr_nx_generations (n : nat) (node_order : list nat) (arcs : list (nat * nat)) : list nat :=
  if ct_wfb n node_order arcs
  then match topological_generations Nat.eqb (ct_graph node_order arcs) with
       | TOk gs => flat_map (fun gen => gen ++ [n]) gs
       | TCycle => [n + 1]
       | _ => [n + 3]
       end
  else [n + 2].

(** * Examples pinned on the real library

    Produced by running cai_causal_graph (PYTHONPATH=/repo PYTHONHASHSEED=0 /venv/bin/python,
    networkx 3.2.1).  Vertex [v] of a [py_default_*] case is the node named ["n%03d" % k] where
    [k] is the position of [v] in [node_order]; the nodes are added in a random order and the
    edges with [add_edge] in the order of [arcs].  Vertex [v] of a [py_time_*] case is the node
    ["v%03d" % k] of lag 0 or ["v%03d lag(n=L)" % k] of lag [-L] of a TimeSeriesCausalGraph;
    the second component is [get_topological_order(respect_time_ordering=False)].  The
    [py_nx_*] cases call networkx directly on [DiGraph(); add_nodes_from(node_order);
    add_edge(u, v) for (u, v) in arcs] (arbitrary keys, cyclic graphs, repeated edges).  The same
    comparison was run on 6800 random cases (exact equality of the orders) before the proofs
    were written. *)

(* a -> c added before a -> b: ['a', 'c', 'b'] *)
Example py_default_0 : corr_topo_default 3 [0; 1; 2] [(0, 2); (0, 1)] = [0; 2; 1].
Proof. vm_compute. reflexivity. Qed.

(* the same edges added in the other order (also what copy() of the previous graph returns): ['a', 'b', 'c'] *)
Example py_default_1 : corr_topo_default 3 [0; 1; 2] [(0, 1); (0, 2)] = [0; 1; 2].
Proof. vm_compute. reflexivity. Qed.

(* node names sorted: 2 < 0 < 1; isolated node first in its generation *)
Example py_default_2 : corr_topo_default 3 [2; 0; 1] [(2, 1)] = [2; 0; 1].
Proof. vm_compute. reflexivity. Qed.

(* the graph qg of QueriesProofs.v *)
Example py_default_3 : corr_topo_default 6 [0; 1; 2; 3; 4; 5] [(0, 1); (0, 2); (1, 3); (2, 3); (3, 4); (1, 4); (5, 2)] = [0; 5; 1; 2; 3; 4].
Proof. vm_compute. reflexivity. Qed.

(* a directed cycle built with validate=False: AssertionError *)
Example py_default_4 : corr_topo_default 3 [0; 1; 2] [(0, 1); (1, 2); (2, 0)] = [4].
Proof. vm_compute. reflexivity. Qed.

(* the empty graph *)
Example py_default_5 : corr_topo_default 0 [] [] = [].
Proof. vm_compute. reflexivity. Qed.

(* no edges: the sorted identifiers *)
Example py_default_6 : corr_topo_default 4 [3; 2; 1; 0] [] = [3; 2; 1; 0].
Proof. vm_compute. reflexivity. Qed.

(* random DAG, random insertion order *)
Example py_default_7 : corr_topo_default 6 [1; 2; 5; 3; 4; 0] [(3, 5); (0, 4); (3, 4); (2, 0); (3, 2); (2, 1)] = [3; 5; 2; 0; 1; 4].
Proof. vm_compute. reflexivity. Qed.

(* random DAG, random insertion order *)
Example py_default_8 : corr_topo_default 6 [3; 4; 2; 0; 5; 1] [(0, 2); (1, 5); (0, 1); (1, 3); (2, 3)] = [4; 0; 2; 1; 5; 3].
Proof. vm_compute. reflexivity. Qed.

(* random DAG, random insertion order *)
Example py_default_9 : corr_topo_default 8 [6; 7; 1; 0; 2; 3; 5; 4] [(3, 0); (7, 0); (7, 6); (1, 0); (6, 0); (6, 4); (6, 2); (5, 3); (7, 1); (5, 2)] = [7; 5; 6; 1; 3; 4; 2; 0].
Proof. vm_compute. reflexivity. Qed.

(* random DAG, random insertion order *)
Example py_default_10 : corr_topo_default 6 [2; 5; 4; 0; 1; 3] [(1, 0); (3, 1); (3, 5); (5, 0); (2, 1)] = [2; 4; 3; 1; 5; 0].
Proof. vm_compute. reflexivity. Qed.

(* random DAG, random insertion order *)
Example py_default_11 : corr_topo_default 6 [3; 1; 2; 0; 4; 5] [(3, 0); (3, 2); (2, 5); (4, 2)] = [3; 1; 4; 0; 2; 5].
Proof. vm_compute. reflexivity. Qed.

(* random DAG, random insertion order *)
Example py_default_12 : corr_topo_default 8 [6; 4; 3; 7; 1; 0; 2; 5] [(6, 7); (5, 3); (5, 2); (6, 5); (2, 3); (0, 7); (0, 3); (4, 5)] = [6; 4; 1; 0; 5; 7; 2; 3].
Proof. vm_compute. reflexivity. Qed.

(* 'Y lag(n=1)' -> 'Y' <- 'X' (docstring example): nodes X=0, Y=1, Y lag(n=1)=2 *)
Example py_time_13 : corr_topo_time 3 [0; 1; 2] [(2, 1); (0, 1)] [(0)%Z; (0)%Z; (-1)%Z] = [2; 0; 1]
  /\ corr_topo_default 3 [0; 1; 2] [(2, 1); (0, 1)] = [0; 2; 1].
Proof. vm_compute. split; reflexivity. Qed.

(* edge order is irrelevant with respect_time_ordering=True, not without *)
Example py_time_14 : corr_topo_time 3 [0; 1; 2] [(0, 2); (0, 1)] [(0)%Z; (0)%Z; (0)%Z] = [0; 1; 2]
  /\ corr_topo_default 3 [0; 1; 2] [(0, 2); (0, 1)] = [0; 2; 1].
Proof. vm_compute. split; reflexivity. Qed.

(* edge order is irrelevant with respect_time_ordering=True, not without *)
Example py_time_15 : corr_topo_time 3 [0; 1; 2] [(0, 1); (0, 2)] [(0)%Z; (0)%Z; (0)%Z] = [0; 1; 2]
  /\ corr_topo_default 3 [0; 1; 2] [(0, 1); (0, 2)] = [0; 1; 2].
Proof. vm_compute. split; reflexivity. Qed.

(* a directed cycle built with validate=False: AssertionError *)
Example py_time_16 : corr_topo_time 3 [0; 1; 2] [(0, 1); (1, 2); (2, 0)] [(0)%Z; (0)%Z; (0)%Z] = [4]
  /\ corr_topo_default 3 [0; 1; 2] [(0, 1); (1, 2); (2, 0)] = [4].
Proof. vm_compute. split; reflexivity. Qed.

(* the graph qt of QueriesProofs.v *)
Example py_time_17 : corr_topo_time 4 [0; 1; 2; 3] [(0, 1); (2, 3); (0, 3); (1, 3)] [(-1)%Z; (0)%Z; (-1)%Z; (0)%Z] = [0; 2; 1; 3]
  /\ corr_topo_default 4 [0; 1; 2; 3] [(0, 1); (2, 3); (0, 3); (1, 3)] = [0; 2; 1; 3].
Proof. vm_compute. split; reflexivity. Qed.

(* random time-respecting DAG, random insertion order *)
Example py_time_18 : corr_topo_time 6 [2; 3; 5; 0; 1; 4] [(3, 1); (3, 4)] [(-2)%Z; (0)%Z; (0)%Z; (0)%Z; (0)%Z; (-1)%Z] = [0; 5; 2; 3; 1; 4]
  /\ corr_topo_default 6 [2; 3; 5; 0; 1; 4] [(3, 1); (3, 4)] = [2; 3; 5; 0; 1; 4].
Proof. vm_compute. split; reflexivity. Qed.

(* random time-respecting DAG, random insertion order *)
Example py_time_19 : corr_topo_time 7 [2; 0; 6; 5; 3; 1; 4] [(4, 2); (4, 5); (2, 0); (6, 1); (1, 0)] [(-1)%Z; (-1)%Z; (-1)%Z; (0)%Z; (-2)%Z; (0)%Z; (-1)%Z] = [4; 2; 6; 1; 0; 5; 3]
  /\ corr_topo_default 7 [2; 0; 6; 5; 3; 1; 4] [(4, 2); (4, 5); (2, 0); (6, 1); (1, 0)] = [6; 3; 4; 1; 2; 5; 0].
Proof. vm_compute. split; reflexivity. Qed.

(* random time-respecting DAG, random insertion order *)
Example py_time_20 : corr_topo_time 5 [3; 4; 0; 2; 1] [(1, 2); (0, 2); (0, 1)] [(-2)%Z; (-1)%Z; (-1)%Z; (0)%Z; (-2)%Z] = [4; 0; 1; 2; 3]
  /\ corr_topo_default 5 [3; 4; 0; 2; 1] [(1, 2); (0, 2); (0, 1)] = [3; 4; 0; 1; 2].
Proof. vm_compute. split; reflexivity. Qed.

(* random time-respecting DAG, random insertion order *)
Example py_time_21 : corr_topo_time 8 [3; 2; 6; 5; 0; 1; 7; 4] [(7, 2); (1, 3); (5, 7); (5, 3); (0, 1); (0, 4); (5, 2)] [(-1)%Z; (0)%Z; (0)%Z; (0)%Z; (-1)%Z; (-2)%Z; (-1)%Z; (-2)%Z] = [5; 7; 6; 0; 4; 2; 1; 3]
  /\ corr_topo_default 8 [3; 2; 6; 5; 0; 1; 7; 4] [(7, 2); (1, 3); (5, 7); (5, 3); (0, 1); (0, 4); (5, 2)] = [6; 5; 0; 7; 1; 4; 2; 3].
Proof. vm_compute. split; reflexivity. Qed.

(* random time-respecting DAG, random insertion order *)
Example py_time_22 : corr_topo_time 6 [4; 5; 1; 0; 3; 2] [(5, 2); (0, 2); (0, 5)] [(-1)%Z; (-2)%Z; (-1)%Z; (0)%Z; (0)%Z; (-1)%Z] = [1; 0; 5; 2; 4; 3]
  /\ corr_topo_default 6 [4; 5; 1; 0; 3; 2] [(5, 2); (0, 2); (0, 5)] = [4; 1; 0; 3; 5; 2].
Proof. vm_compute. split; reflexivity. Qed.

(* random time-respecting DAG, random insertion order *)
Example py_time_23 : corr_topo_time 5 [1; 0; 2; 3; 4] [(2, 4); (0, 4); (2, 1); (1, 4)] [(-2)%Z; (-2)%Z; (-2)%Z; (0)%Z; (-2)%Z] = [0; 2; 1; 4; 3]
  /\ corr_topo_default 5 [1; 0; 2; 3; 4] [(2, 4); (0, 4); (2, 1); (1, 4)] = [0; 2; 3; 1; 4].
Proof. vm_compute. split; reflexivity. Qed.

(* random time-respecting DAG, random insertion order *)
Example py_time_24 : corr_topo_time 7 [3; 5; 4; 1; 2; 0; 6] [(6, 0); (1, 4); (2, 5); (1, 5); (1, 0); (1, 6)] [(0)%Z; (-2)%Z; (-2)%Z; (-1)%Z; (-1)%Z; (-1)%Z; (0)%Z] = [1; 2; 3; 5; 4; 6; 0]
  /\ corr_topo_default 7 [3; 5; 4; 1; 2; 0; 6] [(6, 0); (1, 4); (2, 5); (1, 5); (1, 0); (1, 6)] = [3; 1; 2; 4; 6; 5; 0].
Proof. vm_compute. split; reflexivity. Qed.

(* a repeated edge; keys that DECREASE along arcs *)
Example py_nx_25 : corr_nx_topological_sort 4 [3; 1; 0; 2] [(0, 1); (0, 1); (2, 1); (0, 3)] = [0; 2; 3; 1]
  /\ corr_nx_lex_topological_sort 4 [3; 1; 0; 2] [(0, 1); (0, 1); (2, 1); (0, 3)] [(5)%Z; (-2)%Z; (0)%Z; (1)%Z] = [2; 0; 1; 3]
  /\ corr_nx_generations 4 [3; 1; 0; 2] [(0, 1); (0, 1); (2, 1); (0, 3)] = [0; 2; 4; 3; 1; 4].
Proof. vm_compute. repeat split; reflexivity. Qed.

(* a cycle behind a source: NetworkXUnfeasible after the source was yielded *)
Example py_nx_26 : corr_nx_topological_sort 4 [0; 1; 2; 3] [(0, 1); (1, 2); (2, 1); (2, 3)] = [5]
  /\ corr_nx_lex_topological_sort 4 [0; 1; 2; 3] [(0, 1); (1, 2); (2, 1); (2, 3)] [(0)%Z; (0)%Z; (0)%Z; (0)%Z] = [5]
  /\ corr_nx_generations 4 [0; 1; 2; 3] [(0, 1); (1, 2); (2, 1); (2, 3)] = [5].
Proof. vm_compute. repeat split; reflexivity. Qed.

(* a self-loop *)
Example py_nx_27 : corr_nx_topological_sort 2 [0; 1] [(0, 0)] = [3]
  /\ corr_nx_lex_topological_sort 2 [0; 1] [(0, 0)] [(0)%Z; (0)%Z] = [3]
  /\ corr_nx_generations 2 [0; 1] [(0, 0)] = [3].
Proof. vm_compute. repeat split; reflexivity. Qed.

(* random DAG, arbitrary keys *)
Example py_nx_28 : corr_nx_topological_sort 6 [3; 0; 1; 2; 4; 5] [(2, 0); (2, 4); (1, 5); (1, 2); (2, 3); (0, 3); (1, 3)] = [1; 5; 2; 0; 4; 3]
  /\ corr_nx_lex_topological_sort 6 [3; 0; 1; 2; 4; 5] [(2, 0); (2, 4); (1, 5); (1, 2); (2, 3); (0, 3); (1, 3)] [(2)%Z; (2)%Z; (0)%Z; (-2)%Z; (0)%Z; (-1)%Z] = [1; 5; 2; 4; 0; 3]
  /\ corr_nx_generations 6 [3; 0; 1; 2; 4; 5] [(2, 0); (2, 4); (1, 5); (1, 2); (2, 3); (0, 3); (1, 3)] = [1; 6; 5; 2; 6; 0; 4; 6; 3; 6].
Proof. vm_compute. repeat split; reflexivity. Qed.

(* random DAG, arbitrary keys *)
Example py_nx_29 : corr_nx_topological_sort 5 [4; 0; 1; 3; 2] [(0, 3)] = [4; 0; 1; 2; 3]
  /\ corr_nx_lex_topological_sort 5 [4; 0; 1; 3; 2] [(0, 3)] [(0)%Z; (-2)%Z; (-2)%Z; (0)%Z; (-1)%Z] = [1; 2; 4; 0; 3]
  /\ corr_nx_generations 5 [4; 0; 1; 3; 2] [(0, 3)] = [4; 0; 1; 2; 5; 3; 5].
Proof. vm_compute. repeat split; reflexivity. Qed.

(* random DAG, arbitrary keys *)
Example py_nx_30 : corr_nx_topological_sort 5 [1; 0; 2; 4; 3] [(2, 3); (0, 4); (4, 1); (0, 2)] = [0; 4; 2; 1; 3]
  /\ corr_nx_lex_topological_sort 5 [1; 0; 2; 4; 3] [(2, 3); (0, 4); (4, 1); (0, 2)] [(0)%Z; (1)%Z; (-2)%Z; (2)%Z; (-1)%Z] = [0; 2; 4; 1; 3]
  /\ corr_nx_generations 5 [1; 0; 2; 4; 3] [(2, 3); (0, 4); (4, 1); (0, 2)] = [0; 5; 4; 2; 5; 1; 3; 5].
Proof. vm_compute. repeat split; reflexivity. Qed.

(* random DAG, arbitrary keys *)
Example py_nx_31 : corr_nx_topological_sort 6 [4; 0; 1; 5; 2; 3] [(5, 2); (5, 0); (2, 0); (3, 1); (1, 4)] = [5; 3; 2; 1; 0; 4]
  /\ corr_nx_lex_topological_sort 6 [4; 0; 1; 5; 2; 3] [(5, 2); (5, 0); (2, 0); (3, 1); (1, 4)] [(2)%Z; (-1)%Z; (-1)%Z; (-2)%Z; (-1)%Z; (0)%Z] = [3; 1; 4; 5; 2; 0]
  /\ corr_nx_generations 6 [4; 0; 1; 5; 2; 3] [(5, 2); (5, 0); (2, 0); (3, 1); (1, 4)] = [5; 3; 6; 2; 1; 6; 0; 4; 6].
Proof. vm_compute. repeat split; reflexivity. Qed.

(** * The same two methods after a history of mutator calls on the concrete model of Graph.v

    [ops] is replayed from the empty graph of class [k] ([Graph.run] with the name codec of
    Names.v); the answer is [TopoSort.v_topological_order] / [v_time_topological_order] of the
    state reached: [TOk order] or [TNotDag] (AssertionError).  This exercises what the two
    entry points above take as an input: the per-source edge order left by deletions,
    re-insertions and [change_edge_type] (which removes the edge and adds it again, at the end
    of the adjacency of its source). *)
Definition corr_topo_hist_default (k : kind) (ops : list op) : tres (list name) :=
  v_topological_order (run parse fmt k ops (empty_graph [])).
Definition corr_topo_hist_time (ops : list op) : tres (list name) :=
  v_time_topological_order (run parse fmt TS ops (empty_graph [])).

(** Examples pinned on the real library (every call of these histories succeeds; node names are
    code-point lists: 97.. = 'a'.., [120; 32; 108; 97; 103; 40; 110; 61; 49; 41] = 'x lag(n=1)';
    the second component of a time-series case is
    [get_topological_order(respect_time_ordering=False)]).  2000 random histories of this kind
    (add_node, add_edge, delete_edge, delete_node, change_edge_type on both classes) were
    compared in the same way. *)

Example py_hist_0 :
  let ops := [
     OAddEdge (str_ep [120]%N) (str_ep [122]%N) Dir None true;
     OAddEdge (str_ep [120; 32; 108; 97; 103; 40; 110; 61; 49; 41]%N) (str_ep [122; 32; 108; 97; 103; 40; 110; 61; 49; 41]%N) Dir None true;
     OAddEdge (str_ep [121; 32; 108; 97; 103; 40; 110; 61; 50; 41]%N) (str_ep [120; 32; 108; 97; 103; 40; 110; 61; 49; 41]%N) Dir None true;
     OAddEdge (str_ep [120]%N) (str_ep [121]%N) Dir None true;
     OAddEdge (str_ep [122]%N) (str_ep [121]%N) Dir None true;
     ODeleteEdge [122]%N [121]%N None] in
  corr_topo_hist_time ops = TOk [[121; 32; 108; 97; 103; 40; 110; 61; 50; 41]%N; [120; 32; 108; 97; 103; 40; 110; 61; 49; 41]%N; [122; 32; 108; 97; 103; 40; 110; 61; 49; 41]%N; [120]%N; [121]%N; [122]%N]
  /\ corr_topo_hist_default TS ops = TOk [[120]%N; [121; 32; 108; 97; 103; 40; 110; 61; 50; 41]%N; [122]%N; [121]%N; [120; 32; 108; 97; 103; 40; 110; 61; 49; 41]%N; [122; 32; 108; 97; 103; 40; 110; 61; 49; 41]%N].
Proof. vm_compute. split; reflexivity. Qed.

Example py_hist_1 :
  corr_topo_hist_default Plain [
     OAddEdge (str_ep [102]%N) (str_ep [100]%N) Dir None true;
     OAddNode [98]%N VUnspec None;
     ODeleteNode [100]%N;
     OAddEdge (str_ep [97]%N) (str_ep [98]%N) Dir None true;
     OAddNode [103]%N VUnspec None;
     OChangeEdgeType [97]%N [98]%N Und;
     ODeleteEdge [97]%N [98]%N None;
     OAddEdge (str_ep [99]%N) (str_ep [103]%N) Dir None true;
     OAddEdge (str_ep [100]%N) (str_ep [101]%N) Dir None true] = TOk [[97]%N; [98]%N; [99]%N; [100]%N; [102]%N; [103]%N; [101]%N].
Proof. vm_compute. reflexivity. Qed.

Example py_hist_2 :
  corr_topo_hist_default Plain [
     OAddEdge (str_ep [99]%N) (str_ep [97]%N) Dir None true;
     OAddEdge (str_ep [102]%N) (str_ep [101]%N) Dir None true;
     OAddEdge (str_ep [98]%N) (str_ep [103]%N) Dir None true;
     ODeleteNode [98]%N;
     OChangeEdgeType [99]%N [97]%N Bi;
     ODeleteEdge [99]%N [97]%N None;
     OAddEdge (str_ep [103]%N) (str_ep [99]%N) Dir None true] = TOk [[97]%N; [102]%N; [103]%N; [101]%N; [99]%N].
Proof. vm_compute. reflexivity. Qed.

Example py_hist_3 :
  corr_topo_hist_default Plain [
     OAddNode [102]%N VUnspec None;
     OAddEdge (str_ep [99]%N) (str_ep [102]%N) Dir None true;
     OAddEdge (str_ep [101]%N) (str_ep [100]%N) Dir None true;
     ODeleteNode [102]%N;
     OAddEdge (str_ep [97]%N) (str_ep [100]%N) Dir None true;
     OAddEdge (str_ep [103]%N) (str_ep [100]%N) Dir None true;
     OAddEdge (str_ep [98]%N) (str_ep [99]%N) Dir None true] = TOk [[97]%N; [98]%N; [101]%N; [103]%N; [99]%N; [100]%N].
Proof. vm_compute. reflexivity. Qed.

Example py_hist_4 :
  let ops := [
     OAddEdge (str_ep [121; 32; 108; 97; 103; 40; 110; 61; 50; 41]%N) (str_ep [122]%N) Dir None true;
     OChangeEdgeType [121; 32; 108; 97; 103; 40; 110; 61; 50; 41]%N [122]%N Und;
     OAddEdge (str_ep [121; 32; 108; 97; 103; 40; 110; 61; 50; 41]%N) (str_ep [121; 32; 108; 97; 103; 40; 110; 61; 49; 41]%N) Dir None true;
     OAddEdge (str_ep [121; 32; 108; 97; 103; 40; 110; 61; 50; 41]%N) (str_ep [121]%N) Dir None true;
     OAddEdge (str_ep [122; 32; 108; 97; 103; 40; 110; 61; 49; 41]%N) (str_ep [120]%N) Dir None true;
     OAddNode [120; 32; 108; 97; 103; 40; 110; 61; 49; 41]%N VUnspec None;
     OAddNode [120; 32; 108; 97; 103; 40; 110; 61; 50; 41]%N VUnspec None] in
  corr_topo_hist_time ops = TNotDag
  /\ corr_topo_hist_default TS ops = TNotDag.
Proof. vm_compute. split; reflexivity. Qed.

Example py_hist_5 :
  corr_topo_hist_default Plain [
     OAddNode [102]%N VUnspec None;
     OAddEdge (str_ep [103]%N) (str_ep [98]%N) Dir None true;
     OAddEdge (str_ep [100]%N) (str_ep [99]%N) Dir None true;
     OAddEdge (str_ep [97]%N) (str_ep [100]%N) Dir None true;
     OAddNode [101]%N VUnspec None;
     ODeleteEdge [97]%N [100]%N None;
     OAddEdge (str_ep [97]%N) (str_ep [98]%N) Dir None true;
     OAddEdge (str_ep [103]%N) (str_ep [101]%N) Dir None true;
     OAddEdge (str_ep [101]%N) (str_ep [99]%N) Dir None true;
     OChangeEdgeType [103]%N [101]%N Und;
     OAddEdge (str_ep [99]%N) (str_ep [102]%N) Dir None true;
     OAddEdge (str_ep [102]%N) (str_ep [97]%N) Dir None true] = TNotDag.
Proof. vm_compute. reflexivity. Qed.
