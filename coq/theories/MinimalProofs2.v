(** MinimalProofs2.v — property C14, continued: [adj_matrices] (adjacency_matrices).

    [adj_matrices_spec] proves (and strengthens) the statement MinimalProofs.v left open
    ([adj_matrices_statement], which is correct as stated: [adj_matrices_closes]):
    on a consistent graph whose minimal graph [m] has only directed and undirected edges,
    adjacency_matrices returns a dict with one [n x n] matrix ([n] = number of variables) per
    source lag of [m], and cell (i, j) of the matrix of lag [k] is set exactly when [m] has an
    edge with source lag [k] from the i-th to the j-th variable, or an UNDIRECTED edge with source
    lag [k] from the j-th to the i-th variable.  Any other edge type: TypeError
    ([adj_matrices_type_error]). *)
From CG Require Import Base Dec Digraph TSGraph TSGraphProofs MinimalProofs.
Local Open Scope Z_scope.

(** * Lists, [index_of], [set_nth] *)

Lemma index_of_lt v l : forall i, index_of v l = Some i -> (i < length l)%nat.
Proof.
  induction l as [|x l IH]; simpl; intros i H; [discriminate|].
  destruct (name_eqb v x); [inversion H; lia|].
  destruct (index_of v l) as [i'|]; [|discriminate].
  inversion H; subst i. specialize (IH i' eq_refl); lia.
Qed.

Lemma index_of_in v l : In v l -> exists i, index_of v l = Some i.
Proof.
  induction l as [|x l IH]; simpl; intros H; [destruct H|].
  destruct (name_eqb_spec v x) as [->|Hn]; [eauto|].
  destruct H as [H|H]; [congruence|]. destruct (IH H) as (i & ->); eauto.
Qed.

Lemma index_of_nth v l : forall i, index_of v l = Some i -> nth_error l i = Some v.
Proof.
  induction l as [|x l IH]; simpl; intros i H; [discriminate|].
  destruct (name_eqb_spec v x) as [->|Hn]; [inversion H; reflexivity|].
  destruct (index_of v l) as [i'|]; [|discriminate].
  inversion H; subst i; simpl; apply IH; reflexivity.
Qed.

Lemma nth_index_of l : NoDup l -> forall i v, nth_error l i = Some v -> index_of v l = Some i.
Proof.
  induction 1 as [|x l Hx ND IH]; intros i v H; [destruct i; discriminate|].
  destruct i as [|i]; simpl in H |- *.
  - inversion H; subst; rewrite name_eqb_refl; reflexivity.
  - destruct (name_eqb_spec v x) as [->|Hn].
    + exfalso; apply Hx; eapply nth_error_In; exact H.
    + rewrite (IH i v H); reflexivity.
Qed.

Lemma nth_error_set_nth (A : Type) (f : A -> A) l : forall i a,
  nth_error (set_nth i f l) a =
  if Nat.eqb a i then option_map f (nth_error l a) else nth_error l a.
Proof.
  induction l as [|x l IH]; intros i a.
  - destruct i as [|i], a as [|a]; simpl; try reflexivity.
    destruct (Nat.eqb a i); reflexivity.
  - destruct i as [|i], a as [|a]; simpl; try reflexivity. apply IH.
Qed.

Lemma set_nth_length (A : Type) (f : A -> A) l : forall i, length (set_nth i f l) = length l.
Proof.
  induction l as [|x l IH]; intros i; [destruct i; reflexivity|].
  destruct i; simpl; [reflexivity|rewrite IH; reflexivity].
Qed.

Lemma Forall_set_nth (A : Type) (P : A -> Prop) (f : A -> A) l :
  (forall x, P x -> P (f x)) -> Forall P l -> forall i, Forall P (set_nth i f l).
Proof.
  intros Hf; induction 1 as [|x l Hx Hl IH]; intros i; [destruct i; constructor|].
  destruct i; simpl; constructor; auto.
Qed.

(** * Matrices *)

(** an [n x n] matrix *)
Definition dim (n : nat) (mx : matrix) : Prop :=
  length mx = n /\ Forall (fun r => length r = n) mx.

Lemma dim_zeros n : dim n (zeros n).
Proof.
  unfold zeros; split; [apply repeat_length|].
  apply Forall_forall; intros r Hr; apply repeat_spec in Hr; subst r; apply repeat_length.
Qed.

Lemma dim_set_cell n i j mx : dim n mx -> dim n (set_cell i j mx).
Proof.
  intros [L F]; unfold set_cell; split; [rewrite set_nth_length; exact L|].
  apply Forall_set_nth; [|exact F]. intros r Hr; rewrite set_nth_length; exact Hr.
Qed.

Lemma cell_zeros n a b : cell (zeros n) a b = false.
Proof.
  unfold cell, zeros. destruct (nth_error (repeat (repeat false n) n) a) as [row|] eqn:R; [|reflexivity].
  apply nth_error_In, repeat_spec in R; subst row.
  destruct (nth_error (repeat false n) b) as [c|] eqn:C; [|reflexivity].
  apply nth_error_In, repeat_spec in C; exact C.
Qed.

(** [m[i, j] = 1] on an [n x n] matrix with [i, j < n] sets that cell and no other. *)
Lemma cell_set_cell n mx i j a b :
  dim n mx -> (i < n)%nat -> (j < n)%nat ->
  cell (set_cell i j mx) a b = (Nat.eqb a i && Nat.eqb b j) || cell mx a b.
Proof.
  intros [L F] Hi Hj; unfold cell, set_cell. rewrite nth_error_set_nth.
  destruct (Nat.eqb_spec a i) as [->|Na]; simpl; [|reflexivity].
  destruct (nth_error mx i) as [row|] eqn:R; simpl.
  - rewrite nth_error_set_nth. destruct (Nat.eqb_spec b j) as [->|Nb]; simpl; [|reflexivity].
    assert (Lr : length row = n).
    { rewrite Forall_forall in F; apply F; eapply nth_error_In; exact R. }
    destruct (nth_error row j) as [c|] eqn:C; [reflexivity|].
    apply nth_error_None in C; lia.
  - apply nth_error_None in R; lia.
Qed.

(** * The dict of matrices *)

Lemma upd_lag_keys k n f d k' :
  In k' (map fst (upd_lag k n f d)) <-> k' = k \/ In k' (map fst d).
Proof.
  induction d as [|[k0 mx0] d IH]; simpl.
  - split; [intros [H|[]]; auto|intros [H|[]]; auto].
  - destruct (Z.eqb_spec k k0) as [->|Hn]; simpl.
    + split; [intros [H|H]; auto|intros [H|[H|H]]; auto].
    + rewrite IH; tauto.
Qed.

Lemma upd_lag_nodup k n f d : NoDup (map fst d) -> NoDup (map fst (upd_lag k n f d)).
Proof.
  induction d as [|[k0 mx0] d IH]; simpl; intros ND.
  - constructor; [intros []|constructor].
  - inversion ND as [|? ? Hx ND']; subst. destruct (Z.eqb_spec k k0) as [->|Hn]; simpl.
    + constructor; assumption.
    + constructor; [|auto]. rewrite upd_lag_keys; intros [E|H]; [congruence|contradiction].
Qed.

(** an entry of the updated dict is an untouched entry of another lag, or the updated matrix
    of lag [k] (a fresh zero matrix when the lag is new) *)
Lemma upd_lag_in k n f d k' mx' :
  NoDup (map fst d) -> In (k', mx') (upd_lag k n f d) ->
  (k' <> k /\ In (k', mx') d)
  \/ (k' = k /\ exists mx, mx' = f mx
                 /\ (In (k, mx) d \/ (mx = zeros n /\ ~ In k (map fst d)))).
Proof.
  induction d as [|[k0 mx0] d IH]; simpl; intros ND H.
  - destruct H as [H|[]]; inversion H; subst. right; split; [reflexivity|].
    exists (zeros n); split; [reflexivity|]. right; split; [reflexivity|intros []].
  - inversion ND as [|? ? Hx ND']; subst. destruct (Z.eqb_spec k k0) as [->|Hn]; simpl in H.
    + destruct H as [H|H].
      * inversion H; subst. right; split; [reflexivity|].
        exists mx0; split; [reflexivity|]. left; left; reflexivity.
      * left; split; [|right; exact H].
        intros ->; apply Hx; apply in_map_iff; exists (k0, mx'); auto.
    + destruct H as [H|H].
      * inversion H; subst. left; split; [congruence|left; reflexivity].
      * destruct (IH ND' H) as [[N I]|[-> (mx & -> & [I|[-> I]])]].
        -- left; split; [exact N|right; exact I].
        -- right; split; [reflexivity|]. exists mx; split; [reflexivity|]. left; right; exact I.
        -- right; split; [reflexivity|]. exists (zeros n); split; [reflexivity|].
           right; split; [reflexivity|]. intros [E|E]; [congruence|contradiction].
Qed.

(** * The loop of adjacency_matrices *)

(** edge [e] sets cell (i, j): it goes from the i-th to the j-th variable, or it is undirected
    and goes from the j-th to the i-th variable *)
Definition hit (vars : list name) (e : tedge) (i j : nat) : Prop :=
  (index_of (es e) vars = Some i /\ index_of (ed e) vars = Some j)
  \/ (ety e = Und /\ index_of (es e) vars = Some j /\ index_of (ed e) vars = Some i).

Record ainv (vars : list name) (done : list tedge) (d : list (Z * matrix)) : Prop := {
  ai_nd : NoDup (map fst d);
  ai_keys : forall k, In k (map fst d) <-> exists e, In e done /\ esl e = k;
  ai_dim : forall k mx, In (k, mx) d -> dim (length vars) mx;
  ai_cell : forall k mx i j, In (k, mx) d ->
      (cell mx i j = true <-> exists e, In e done /\ esl e = k /\ hit vars e i j)
}.

Lemma ainv_nil vars : ainv vars [] [].
Proof.
  constructor; simpl.
  - constructor.
  - intros k; split; [intros []|intros (e & [] & _)].
  - intros k mx [].
  - intros k mx i j [].
Qed.

Lemma upd_ainv vars done d e (f : matrix -> matrix) :
  ainv vars done d ->
  (forall mx, dim (length vars) mx ->
     dim (length vars) (f mx)
     /\ forall a b, cell (f mx) a b = true <-> hit vars e a b \/ cell mx a b = true) ->
  ainv vars (done ++ [e]) (upd_lag (esl e) (length vars) f d).
Proof.
  intros [And Akeys Adim Acell] Hf.
  assert (Hdone : forall (P : tedge -> Prop),
            (exists e0, In e0 (done ++ [e]) /\ P e0) <-> (exists e0, In e0 done /\ P e0) \/ P e).
  { intros P; split.
    - intros (e0 & H0 & HP); apply in_app_iff in H0; simpl in H0.
      destruct H0 as [H0|[<-|[]]]; [left; eauto|right; exact HP].
    - intros [(e0 & H0 & HP)|HP].
      + exists e0; split; [apply in_or_app; auto|exact HP].
      + exists e; split; [apply in_or_app; right; left; reflexivity|exact HP]. }
  constructor.
  - apply upd_lag_nodup; exact And.
  - intros k; rewrite upd_lag_keys, (Hdone (fun e0 => esl e0 = k)), Akeys.
    split; intros [H|H]; auto.
  - intros k mx' Hin; destruct (upd_lag_in _ _ _ _ _ _ And Hin) as [[_ I]|[_ (mx & -> & [I|[-> _]])]].
    + exact (Adim k mx' I).
    + exact (proj1 (Hf mx (Adim _ mx I))).
    + exact (proj1 (Hf _ (dim_zeros (length vars)))).
  - intros k mx' i j Hin. rewrite (Hdone (fun e0 => esl e0 = k /\ hit vars e0 i j)).
    destruct (upd_lag_in _ _ _ _ _ _ And Hin) as [[N I]|[-> (mx & -> & [I|[-> I]])]].
    + rewrite (Acell k mx' i j I). split; [auto|]. intros [H|[H _]]; [exact H|congruence].
    + rewrite (proj2 (Hf mx (Adim _ mx I)) i j), (Acell _ mx i j I).
      split; [intros [H|H]; auto|intros [H|[_ H]]; auto].
    + rewrite (proj2 (Hf _ (dim_zeros (length vars))) i j), cell_zeros. split.
      * intros [H|H]; [auto|discriminate].
      * intros [(e0 & H0 & K & _)|[_ H]]; [|auto].
        exfalso; apply I, Akeys; eauto.
Qed.

Lemma adj_step_ok vars done d e :
  In (es e) vars -> In (ed e) vars -> (ety e = Dir \/ ety e = Und) ->
  ainv vars done d ->
  exists d', adj_step vars d e = Ok d' /\ ainv vars (done ++ [e]) d'.
Proof.
  intros Vs Vd Ty HI.
  destruct (index_of_in _ _ Vs) as (i & Ei); destruct (index_of_in _ _ Vd) as (j & Ej).
  pose proof (index_of_lt _ _ _ Ei) as Li; pose proof (index_of_lt _ _ _ Ej) as Lj.
  unfold adj_step; rewrite Ei, Ej.
  assert (Hsome : forall a b : nat, Some a = Some b <-> b = a).
  { intros a b; split; [intros H; inversion H; reflexivity|intros ->; reflexivity]. }
  destruct Ty as [Ty|Ty]; rewrite Ty.
  - eexists; split; [reflexivity|]. apply upd_ainv; [exact HI|].
    intros mx Dm; split; [apply dim_set_cell; exact Dm|]. intros a b.
    rewrite (cell_set_cell (length vars) mx i j a b Dm Li Lj).
    unfold hit; rewrite Ei, Ej, Ty, !Hsome.
    rewrite orb_true_iff, andb_true_iff, !Nat.eqb_eq. split.
    + intros [[-> ->]|H]; auto.
    + intros [[[-> ->]|[H _]]|H]; auto. discriminate.
  - eexists; split; [reflexivity|]. apply upd_ainv; [exact HI|].
    intros mx Dm; split; [apply dim_set_cell, dim_set_cell; exact Dm|]. intros a b.
    rewrite (cell_set_cell (length vars) (set_cell i j mx) j i a b (dim_set_cell _ i j mx Dm) Lj Li).
    rewrite (cell_set_cell (length vars) mx i j a b Dm Li Lj).
    unfold hit; rewrite Ei, Ej, !Hsome.
    rewrite !orb_true_iff, !andb_true_iff, !Nat.eqb_eq. split.
    + intros [[-> ->]|[[-> ->]|H]]; auto.
    + intros [[[-> ->]|[_ [-> ->]]]|H]; auto.
Qed.

Lemma minimal_edge_vars g m e :
  consistent g -> minimal g = Ok m -> In e (tedges m) ->
  In (es e) (variables m) /\ In (ed e) (variables m).
Proof.
  intros C E He; destruct (minimal_c14 g m C E) as [_ W].
  destruct (wf_ends m W e He) as [H1 H2]. apply in_map_iff in H1, H2.
  destruct H1 as (n1 & K1 & Hn1), H2 as (n2 & K2 & Hn2).
  pose proof (f_equal fst K1) as T1; pose proof (f_equal fst K2) as T2; simpl in T1, T2.
  split; apply variables_in; [rewrite <- T1|rewrite <- T2]; apply in_map; assumption.
Qed.

(** * C14: adjacency_matrices *)

Theorem adj_matrices_spec g m :
  consistent g -> minimal g = Ok m ->
  (forall e, In e (tedges m) -> ety e = Dir \/ ety e = Und) ->
  exists d, adj_matrices g = Ok d
    /\ NoDup (map fst d)
    /\ (forall k, In k (map fst d) <-> exists e, In e (tedges m) /\ esl e = k)
    /\ (forall k mx, In (k, mx) d -> dim (length (variables m)) mx)
    /\ (forall k mx i j, In (k, mx) d ->
          (cell mx i j = true <->
           exists e, In e (tedges m) /\ esl e = k /\
             ((index_of (es e) (variables m) = Some i /\ index_of (ed e) (variables m) = Some j)
              \/ (ety e = Und /\ index_of (es e) (variables m) = Some j
                               /\ index_of (ed e) (variables m) = Some i)))).
Proof.
  intros C E Ty. unfold adj_matrices; rewrite E.
  destruct (rfold_total (adj_step (variables m)) (fun e => In e (tedges m)) (ainv (variables m)))
    with (l := sorted_edges m) (done := @nil tedge) (x := @nil (Z * matrix))
    as (d & Ed & [And Akeys Adim Acell]).
  - intros done e d Qe HI. destruct (minimal_edge_vars g m e C E Qe) as [Vs Vd].
    exact (adj_step_ok (variables m) done d e Vs Vd (Ty e Qe) HI).
  - apply Forall_forall; intros e He; apply isort_in in He; exact He.
  - apply ainv_nil.
  - simpl in Akeys, Acell.
    assert (Hs : forall (P : tedge -> Prop),
              (exists e, In e (sorted_edges m) /\ P e) <-> (exists e, In e (tedges m) /\ P e)).
    { intros P; split; intros (e & He & HP); exists e; (split; [|exact HP]).
      - apply (proj1 (@isort_in _ edge_leb e (tedges m))); exact He.
      - apply (proj2 (@isort_in _ edge_leb e (tedges m))); exact He. }
    exists d; split; [exact Ed|]. split; [exact And|]. split; [|split; [exact Adim|]].
    + intros k; rewrite Akeys; apply Hs.
    + intros k mx i j Hin; rewrite (Acell k mx i j Hin).
      apply (Hs (fun e => esl e = k /\ hit (variables m) e i j)).
Qed.

(** The statement of MinimalProofs.v is right as it stands and follows. *)
Theorem adj_matrices_closes : adj_matrices_statement.
Proof.
  intros g m d C E Ty Ed.
  destruct (adj_matrices_spec g m C E Ty) as (d' & Ed' & H1 & H2 & _ & H4).
  assert (d' = d) by congruence; subst d'. auto.
Qed.

(** Any edge of the minimal graph that is neither directed nor undirected: TypeError. *)
Lemma adj_fold_err vars l : forall d,
  (forall e, In e l -> In (es e) vars /\ In (ed e) vars) ->
  (exists e, In e l /\ ety e <> Dir /\ ety e <> Und) ->
  rfold (adj_step vars) l d = Err EType.
Proof.
  induction l as [|a l IH]; intros d Hv (e & He & T1 & T2); [destruct He|]. simpl.
  destruct (Hv a (or_introl eq_refl)) as [V1 V2].
  destruct (index_of_in _ _ V1) as (i & Ei); destruct (index_of_in _ _ V2) as (j & Ej).
  assert (Hrest : ety a = Dir \/ ety a = Und -> exists e, In e l /\ ety e <> Dir /\ ety e <> Und).
  { intros Ta; destruct He as [<-|He]; [destruct Ta; contradiction|eauto]. }
  assert (Hv' : forall e, In e l -> In (es e) vars /\ In (ed e) vars) by (intros; apply Hv; right; auto).
  unfold adj_step at 1; rewrite Ei, Ej.
  destruct (ety a) eqn:Ta; try reflexivity.
  - apply IH; [exact Hv'|apply Hrest; auto].
  - apply IH; [exact Hv'|apply Hrest; auto].
Qed.

Theorem adj_matrices_type_error g m :
  consistent g -> minimal g = Ok m ->
  (exists e, In e (tedges m) /\ ety e <> Dir /\ ety e <> Und) ->
  adj_matrices g = Err EType.
Proof.
  intros C E (e & He & T); unfold adj_matrices; rewrite E. apply adj_fold_err.
  - intros e0 H0; apply isort_in in H0; exact (minimal_edge_vars g m e0 C E H0).
  - exists e; split; [apply isort_in; exact He|exact T].
Qed.

(** adjacency_matrices of a consistent graph returns normally exactly when every edge of the
    minimal graph is directed or undirected. *)
Corollary adj_matrices_ok_iff g m :
  consistent g -> minimal g = Ok m ->
  ((exists d, adj_matrices g = Ok d) <->
   forall e, In e (tedges m) -> ety e = Dir \/ ety e = Und).
Proof.
  intros C E; split.
  - intros (d & Ed) e He.
    destruct (ety e) eqn:Ty; auto; exfalso;
      rewrite (adj_matrices_type_error g m C E) in Ed; try discriminate;
      exists e; split; auto; rewrite Ty; split; discriminate.
  - intros Ty; destruct (adj_matrices_spec g m C E Ty) as (d & Ed & _); eauto.
Qed.

(** ** The same, read through the variable list instead of [index_of] *)

Lemma variables_nodup g : NoDup (variables g).
Proof.
  unfold variables, sort_names.
  eapply Permutation_NoDup; [apply isort_perm|apply dedup_nodup].
Qed.

(** With [vars = sorted variable names] (the order of [graph.variables]): entry (i, j) of the
    matrix of lag [k] is 1 iff the minimal graph has an edge from [(vars[i], k)] to
    [(vars[j], 0)], or an undirected edge from [(vars[j], k)] to [(vars[i], 0)]. *)
Theorem adj_matrices_entries g m d :
  consistent g -> minimal g = Ok m ->
  (forall e, In e (tedges m) -> ety e = Dir \/ ety e = Und) ->
  adj_matrices g = Ok d ->
  forall k mx i j, In (k, mx) d ->
    (cell mx i j = true <->
     exists vi vj, nth_error (variables m) i = Some vi /\ nth_error (variables m) j = Some vj
       /\ exists e, In e (tedges m)
            /\ ((esrc e = (vi, k) /\ edst e = (vj, 0))
                \/ (ety e = Und /\ esrc e = (vj, k) /\ edst e = (vi, 0)))).
Proof.
  intros C E Ty Ed k mx i j Hin.
  destruct (adj_matrices_spec g m C E Ty) as (d' & Ed' & _ & _ & _ & H4).
  assert (d' = d) by congruence; subst d'. rewrite (H4 k mx i j Hin).
  destruct (minimal_c14 g m C E) as [S _].
  pose proof (variables_nodup m) as ND. split.
  - intros (e & He & K & [[I1 I2]|[U [I1 I2]]]); pose proof (c14_edl0 g m e S He) as Z0.
    + exists (es e), (ed e). split; [apply index_of_nth; exact I1|].
      split; [apply index_of_nth; exact I2|]. exists e; split; [exact He|left].
      unfold esrc, edst; rewrite K, Z0; auto.
    + exists (ed e), (es e). split; [apply index_of_nth; exact I2|].
      split; [apply index_of_nth; exact I1|]. exists e; split; [exact He|right].
      unfold esrc, edst; rewrite K, Z0; auto.
  - intros (vi & vj & N1 & N2 & e & He & [[K1 K2]|[U [K1 K2]]]);
      unfold esrc, edst in K1, K2; inversion K1; inversion K2; subst;
      exists e; (split; [exact He|]); (split; [reflexivity|]).
    + left; split; apply nth_index_of; assumption.
    + right; split; [exact U|]. split; apply nth_index_of; assumption.
Qed.

(** * Examples *)

(** the hypotheses of [adj_matrices_spec] hold of [ex_g] (TSGraphProofs.v), whose matrices are
    pinned to the Python values by [ex_g_adj] (MinimalProofs.v) *)
Example ex_g_adj_hyps :
  consistent ex_g /\ exists m, minimal ex_g = Ok m
    /\ forall e, In e (tedges m) -> ety e = Dir \/ ety e = Und.
Proof.
  split; [exact ex_g_consistent|].
  destruct (minimal ex_g) as [m|er] eqn:E; [|vm_compute in E; discriminate].
  exists m; split; [reflexivity|]. intros e He.
  assert (A : forallb (fun e => etype_eqb (ety e) Dir) (tedges m) = true).
  { assert (Q : match minimal ex_g with
                | Ok m => forallb (fun e => etype_eqb (ety e) Dir) (tedges m)
                | Err _ => false
                end = true) by (vm_compute; reflexivity).
    rewrite E in Q; exact Q. }
  rewrite forallb_forall in A; left; apply etype_eqb_eq, A, He.
Qed.

(** Python: add_edge('X lag(n=1)', 'Y', '--'); add_edge('X', 'Y'); add_edge('Y lag(n=2)',
    'Y lag(n=1)'): adjacency_matrices = {0: [[0,1],[0,0]], -1: [[0,1],[1,1]]} — the undirected
    template sets both cells, in the matrix of its stored source lag. *)
Definition ex_und : tsg :=
  Gr [Nd [88]%N (-1) VUnspec []; Nd [89]%N 0 VUnspec []; Nd [88]%N 0 VUnspec [];
      Nd [89]%N (-2) VUnspec []; Nd [89]%N (-1) VUnspec []]
     [Ed [88]%N (-1) [89]%N 0 Und []; Ed [88]%N 0 [89]%N 0 Dir [];
      Ed [89]%N (-2) [89]%N (-1) Dir []] [].
Example ex_und_consistent : consistent ex_und.
Proof. apply consistent_b_spec; vm_compute; reflexivity. Qed.
Example ex_und_adj :
  adj_matrices ex_und = Ok [(0, [[false; true]; [false; false]]);
                            (-1, [[false; true]; [true; true]])].
Proof. vm_compute; reflexivity. Qed.

(** Python: add_edge('X', 'Y'); add_edge('Y lag(n=1)', 'X', 'oo'): TypeError *)
Example ex_unk_adj :
  adj_matrices (Gr [Nd [88]%N 0 VUnspec []; Nd [89]%N 0 VUnspec []; Nd [89]%N (-1) VUnspec []]
                   [Ed [88]%N 0 [89]%N 0 Dir []; Ed [89]%N (-1) [88]%N 0 Unk []] []) = Err EType.
Proof. vm_compute; reflexivity. Qed.

(** [adj_matrices_spec] applied to [ex_g] and to [ex_und] *)
Example ex_g_adj_inst : exists d, adj_matrices ex_g = Ok d /\ NoDup (map fst d).
Proof.
  destruct ex_g_adj_hyps as (C & m & E & Ty).
  destruct (adj_matrices_spec ex_g m C E Ty) as (d & Ed & ND & _); eauto.
Qed.

Example ex_und_adj_hyps :
  exists m, minimal ex_und = Ok m
    /\ (forall e, In e (tedges m) -> ety e = Dir \/ ety e = Und)
    /\ exists e, In e (tedges m) /\ ety e = Und.
Proof.
  destruct (minimal ex_und) as [m|er] eqn:E; [|vm_compute in E; discriminate].
  exists m; split; [reflexivity|].
  assert (Q : match minimal ex_und with
              | Ok m => forallb (fun e => etype_eqb (ety e) Dir || etype_eqb (ety e) Und) (tedges m)
                        && existsb (fun e => etype_eqb (ety e) Und) (tedges m)
              | Err _ => false
              end = true) by (vm_compute; reflexivity).
  rewrite E in Q; apply andb_true_iff in Q; destruct Q as [A B]. split.
  - intros e He; rewrite forallb_forall in A; specialize (A e He).
    apply orb_true_iff in A; rewrite !etype_eqb_eq in A; exact A.
  - apply existsb_exists in B; destruct B as (e & He & T); apply etype_eqb_eq in T; eauto.
Qed.
