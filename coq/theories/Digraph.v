(** Digraph.v — executable definitions on finite directed graphs, generic in the vertex type.

    DEFINITIONS ONLY (no proofs): the proofs live in DigraphProofs.v / QueriesProofs.v /
    DSepProofs.v / IdentifyProofs.v, so that this file keeps compiling whatever happens to
    a proof.  Used at [A := name] (the graph model) and at [A := nat] (finite sweeps). *)
From CG Require Import Base.
From Coq Require Import Relations.Relation_Operators.
Set Implicit Arguments.

Section Digraph.
  Variable A : Type.
  Variable eqb : A -> A -> bool.

  Record digraph := { verts : list A; arcs : list (A * A) }.

  Definition memb (x : A) (l : list A) : bool := existsb (eqb x) l.

  (** [union l1 l2]: the elements of [l1] not already present are put in front of [l2]. *)
  Definition union (l1 l2 : list A) : list A :=
    fold_right (fun x acc => if memb x acc then acc else x :: acc) l2 l1.

  Definition inter (l1 l2 : list A) : list A := filter (fun x => memb x l2) l1.
  Definition diff (l1 l2 : list A) : list A := filter (fun x => negb (memb x l2)) l1.
  Definition subsetb (l1 l2 : list A) : bool := forallb (fun x => memb x l2) l1.
  Definition seteqb (l1 l2 : list A) : bool := subsetb l1 l2 && subsetb l2 l1.

  Definition children (g : digraph) (x : A) : list A :=
    map snd (filter (fun e => eqb (fst e) x) (arcs g)).
  Definition parents (g : digraph) (x : A) : list A :=
    map fst (filter (fun e => eqb (snd e) x) (arcs g)).

  Definition has_arc (g : digraph) (a b : A) : bool :=
    existsb (fun e => eqb (fst e) a && eqb (snd e) b) (arcs g).
  Definition adjacentb (g : digraph) (a b : A) : bool := has_arc g a b || has_arc g b a.

  Definition rev_graph (g : digraph) : digraph :=
    {| verts := verts g; arcs := map (fun e => (snd e, fst e)) (arcs g) |}.

  (** [n] rounds of "add all children of the current set". *)
  Fixpoint iter (n : nat) (g : digraph) (S : list A) : list A :=
    match n with
    | O => S
    | Datatypes.S n' => iter n' g (union (flat_map (children g) S) S)
    end.

  (** Strict descendants / ancestors: reachable by a directed path of length >= 1. *)
  Definition desc (g : digraph) (x : A) : list A := iter (length (verts g)) g (union (children g x) []).
  Definition anc (g : digraph) (x : A) : list A := desc (rev_graph g) x.

  Definition reachb (g : digraph) (x y : A) : bool := memb y (desc g x).

  (** A vertex lies on a directed cycle iff it is its own strict descendant. *)
  Definition acyclicb (g : digraph) : bool := forallb (fun v => negb (reachb g v v)) (verts g).

  (** Prop-level counterparts. *)
  Definition arc (g : digraph) (a b : A) : Prop := In (a, b) (arcs g).
  Definition path (g : digraph) : A -> A -> Prop := clos_trans A (arc g).
  Definition acyclic (g : digraph) : Prop := forall v, ~ path g v v.
  Definition wf (g : digraph) : Prop :=
    NoDup (verts g) /\ forall a b, arc g a b -> In a (verts g) /\ In b (verts g).

  Definition add_arc (g : digraph) (a b : A) : digraph :=
    {| verts := verts g; arcs := arcs g ++ [(a, b)] |}.
  Definition del_arcs_from (g : digraph) (xs : list A) : digraph :=
    {| verts := verts g; arcs := filter (fun e => negb (memb (fst e) xs)) (arcs g) |}.
End Digraph.

Arguments verts {A} _.
Arguments arcs {A} _.
