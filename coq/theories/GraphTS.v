(** GraphTS.v — the graph model instantiated with the verified name codec of Names.v, and the
    entry points evaluated by the correspondence checks (DEFINITIONS ONLY). *)
From CG Require Import Base Graph GraphObs Tok Names.
From Coq Require Import Uint63.

Definition g_run_op := run_op parse fmt.
Definition g_step := step parse fmt.
Definition g_run := run parse fmt.
Definition g_observe := observe parse.
Definition g_run_hist := run_hist parse fmt.
Definition g_run_tokens := run_tokens parse fmt.

Definition step_eqb (a b : N * int) : bool := N.eqb (fst a) (fst b) && Uint63.eqb (snd a) (snd b).

Fixpoint first_diff (i : nat) (xs ys : list (N * int)) : option nat :=
  match xs, ys with
  | [], [] => None
  | x :: xs', y :: ys' => if step_eqb x y then first_diff (S i) xs' ys' else Some i
  | _, _ => Some i
  end.

(** one correspondence case: class, start metadata, history, query pools, and what the
    implementation showed after every step (outcome code, hash of its observation) *)
Record hcase := {
  hc_kind : kind; hc_ops : list op; hc_pool : list name; hc_lags : list Z; hc_vars : list name;
  hc_expected : list (N * int)
}.

Definition check_case (c : hcase) : option nat :=
  first_diff 0 (g_run_hist (hc_kind c) (empty_graph []) (hc_ops c) (hc_pool c) (hc_lags c) (hc_vars c))
    (hc_expected c).

Fixpoint mismatches_from (i : nat) (cs : list hcase) : list (nat * nat) :=
  match cs with
  | [] => []
  | c :: cs' =>
      match check_case c with
      | Some j => (i, j) :: mismatches_from (S i) cs'
      | None => mismatches_from (S i) cs'
      end
  end.
Definition mismatches (cs : list hcase) : list (nat * nat) := mismatches_from 0 cs.
