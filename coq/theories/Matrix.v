(** Matrix.v — executable model of the matrix / networkx conversions of [CausalGraph] and
    [TimeSeriesCausalGraph] (cai_causal_graph/causal_graph.py): [adjacency_matrix], [to_numpy],
    [from_adjacency_matrix], [to_networkx], [from_networkx], the refusal logic of
    [to_gml_string] (DEFINITIONS ONLY; proofs are in MatrixProofs.v).

    A numpy 2-D integer array is a [list (list Z)] (list of rows).  A "ragged / non 2-D" input
    is modelled as a non-square one (both are refused with InvalidAdjacencyMatrixError); the
    0 x 0 array is [[]].  networkx graphs are modelled by specification as
    (directed?, node list, edge list): only what [networkx.to_numpy_array] and [g.nodes()] show
    of them is used by the library.  GML text is not modelled.  The caches ([_adjacency],
    [_networkx], ...) are the subject of Cache.v and are not repeated here: every function is
    the UNCACHED computation on the current state. *)
From CG Require Import Base Dec Graph GraphObs Tok.
Set Implicit Arguments.

Definition matrix := list (list Z).

(** [A[i, j]]; [None] = IndexError. *)
Definition entry (a : matrix) (i j : nat) : option Z :=
  match nth_error a i with
  | Some r => nth_error r j
  | None => None
  end.

(** [l[i] = v]; [None] = IndexError. *)
Fixpoint set_nth {A} (i : nat) (v : A) (l : list A) : option (list A) :=
  match l, i with
  | [], _ => None
  | _ :: l', O => Some (v :: l')
  | x :: l', S i' =>
      match set_nth i' v l' with
      | Some r => Some (x :: r)
      | None => None
      end
  end.

(** [A[i, j] = v] *)
Definition mset (a : matrix) (i j : nat) (v : Z) : option matrix :=
  match nth_error a i with
  | None => None
  | Some r =>
      match set_nth j v r with
      | None => None
      | Some r' => set_nth i r' a
      end
  end.

(** [numpy.zeros((n, n), dtype=int)] *)
Definition zeros (n : nat) : matrix := repeat (repeat 0%Z n) n.

(** [{node: i for i, node in enumerate(names)}[x]] / [names.index(x)] (the names are the keys
    of a dict, so the first position is the only one); [None] = KeyError / ValueError. *)
Fixpoint index_of (x : name) (l : list name) : option nat :=
  match l with
  | [] => None
  | y :: l' =>
      if name_eqb x y then Some O
      else match index_of x l' with Some i => Some (S i) | None => None end
  end.

Definition dir_or_und (t : etype) : bool :=
  match t with Dir | Und => true | _ => false end.

(** * [CausalGraph.adjacency_matrix] (uncached) *)

(** one iteration of [for edge in self.edges] *)
Definition to_matrix_step (names : list name) (acc : res matrix) (e : edge) : res matrix :=
  bind acc (fun a =>
    match ety e with
    | Dir =>
        match index_of (esrc e) names, index_of (edst e) names with
        | Some i, Some j =>
            match mset a i j 1%Z with Some a' => Ok a' | None => Err EIndex end
        | _, _ => Err EKey
        end
    | Und =>
        match index_of (esrc e) names, index_of (edst e) names with
        | Some i, Some j =>
            match mset a i j 1%Z with
            | Some a' => match mset a' j i 1%Z with Some a'' => Ok a'' | None => Err EIndex end
            | None => Err EIndex
            end
        | _, _ => Err EKey
        end
    | _ => Err EType
    end).

Definition to_matrix (g : graph) : res matrix :=
  let names := v_node_names g in
  fold_left (to_matrix_step names) (v_edges g) (Ok (zeros (length names))).

(** * [CausalGraph.to_numpy]: the explicit type loop, then the matrix and the node order *)
Definition to_numpy (g : graph) : res (matrix * list name) :=
  if existsb (fun e => negb (dir_or_und (ety e))) (v_edges g) then Err EType
  else bind (to_matrix g) (fun a => Ok (a, v_node_names g)).

(** * [CausalGraph.to_networkx] (uncached) *)

Definition nxgraph := (bool * list name * list (name * name))%type.
(**                    directed?  g.nodes()    g.edges()                                    *)

Definition fully_directed (g : graph) : bool :=
  forallb (fun e => etype_eqb (ety e) Dir) (v_edges g).
Definition fully_undirected (g : graph) : bool :=
  forallb (fun e => etype_eqb (ety e) Und) (v_edges g).

(** The edge list is given in the order of [get_edges()]; the order in which networkx lists
    edges (it follows the key order of [_edges_by_source]) is not modelled: nothing the library
    does with the networkx object depends on it. *)
Definition to_nx (g : graph) : res nxgraph :=
  let fd := fully_directed g in
  let fu := fully_undirected g in
  if negb fd && negb fu then Err EConv
  else if fd then Ok (true, v_node_names g, map edge_key (v_edges g))
  else Ok (false, v_node_names g, map edge_key (v_edges g)).

(** [_is_directed_and_or_undirected_error_message(is_one_kind_only=False) != ''] *)
Definition gml_message_nonempty (g : graph) : bool :=
  negb (fully_directed g) && negb (fully_undirected g)
  && existsb (fun e => negb (dir_or_und (ety e))) (v_edges g).

(** what [to_gml_string] hands to [networkx.generate_gml] *)
Definition to_gml_nx (g : graph) : res nxgraph :=
  if gml_message_nonempty g then Err EConv else to_nx g.

(** * networkx side, by specification *)

(** [g.nodes()] of a networkx graph built from a node list and an edge list: the listed nodes
    first, then every endpoint not yet present, each once. *)
Definition nx_nodes (x : nxgraph) : list name :=
  let '(_, ns, es) := x in dedup (ns ++ flat_map (fun e => [fst e; snd e]) es).

Definition nx_has (x : nxgraph) (u v : name) : bool :=
  let '(dir, _, es) := x in
  existsb (fun e => pair_eqb e (u, v) || (negb dir && pair_eqb e (v, u))) es.

(** [networkx.to_numpy_array(g)] (all weights are 1) *)
Definition nx_to_matrix (x : nxgraph) : matrix :=
  map (fun u => map (fun v => if nx_has x u v then 1%Z else 0%Z) (nx_nodes x)) (nx_nodes x).

(** * [from_adjacency_matrix] *)

Definition is_square (a : matrix) : bool :=
  forallb (fun r => Nat.eqb (length r) (length a)) a.

(** [numpy.array_equal(a, a.astype(bool))] on an integer array *)
Definition is_binary (a : matrix) : bool :=
  forallb (forallb (fun z => Z.eqb z 0 || Z.eqb z 1)) a.

(** "node_" *)
Definition node_prefix : name := [110; 111; 100; 101; 95]%N.
Definition default_names (n : nat) : list name :=
  map (fun i => node_prefix ++ dec_N (N.of_nat i)) (seq 0 n).

(** [itertools.combinations(range(n), 2)] *)
Definition pairs (n : nat) : list (nat * nat) :=
  flat_map (fun i => map (fun j => (i, j)) (seq (S i) (n - S i))) (seq 0 n).

Section FromMatrix.
  Variable parse : name -> option (name * Z).
  Variable fmt : name -> Z -> option name.
  Variable k : kind.

  Definition add_edge_op (g : graph) (s d : name) (ty : etype) : res graph :=
    fst (run_op parse fmt k g (OAddEdge (str_ep s) (str_ep d) ty None false)).

  (** one iteration of [for i, j in itertools.combinations(range(len(nodes)), 2)] *)
  Definition edge_step (a : matrix) (nodes : list name) (acc : res graph) (p : nat * nat)
    : res graph :=
    bind acc (fun g =>
      match entry a (fst p) (snd p), entry a (snd p) (fst p),
            nth_error nodes (fst p), nth_error nodes (snd p) with
      | Some x, Some y, Some ni, Some nj =>
          if negb (Z.eqb x 0) && Z.eqb y 0 then add_edge_op g ni nj Dir
          else if Z.eqb x 0 && negb (Z.eqb y 0) then add_edge_op g nj ni Dir
          else if negb (Z.eqb x 0) && negb (Z.eqb y 0) then add_edge_op g ni nj Und
          else Ok g
      | _, _, _, _ => Err EIndex
      end).

  (** [for node in nodes: graph._assert_node_does_not_depend_on_itself(node)];
      the first AssertionError becomes CyclicConnectionError.  [EIndex] = the check ran out of
      fuel or met an unknown node: excluded by theorem. *)
  Fixpoint check_nodes (g : graph) (nodes : list name) : res unit :=
    match nodes with
    | [] => Ok tt
    | n :: ns =>
        match depends_on_itself g n with
        | Some false => check_nodes g ns
        | Some true => Err ECyclic
        | None => Err EIndex
        end
    end.

  Definition from_matrix (a : matrix) (names : option (list name)) (validate : bool) : res graph :=
    if negb (is_square a) then Err EInvalidAdj
    else if negb (is_binary a) then Err EInvalidAdj
    else
      let nodes_r : res (list name) :=
        match names with
        | Some l => if Nat.eqb (length l) (length a) then Ok l else Err EAssert
        | None => Ok (default_names (length a))
        end in
      bind nodes_r (fun nodes =>
        bind (fst (run_op parse fmt k (empty_graph []) (OAddNodesFrom nodes))) (fun g0 =>
          bind (fold_left (edge_step a nodes) (pairs (length nodes)) (Ok g0)) (fun g1 =>
            if validate then bind (check_nodes g1 nodes) (fun _ => Ok g1) else Ok g1))).

  (** [from_networkx(g) = from_adjacency_matrix(networkx.to_numpy_array(g), list(g.nodes()))] *)
  Definition from_nx (x : nxgraph) (validate : bool) : res graph :=
    from_matrix (nx_to_matrix x) (Some (nx_nodes x)) validate.
End FromMatrix.

(** * Token forms used by the correspondence check *)
Definition tk_matrix (a : matrix) : list N := tk_list (tk_list tk_Z) a.
Definition tk_pairs (l : list (name * name)) : list N :=
  tk_list (fun p => tk_name (fst p) ++ tk_name (snd p)) l.
Definition tk_nx (x : nxgraph) : list N :=
  let '(dir, ns, es) := x in tk_bool dir ++ tk_names ns ++ tk_pairs es.

Definition obs_matrix (g : graph) : list N :=
  tk_res tk_matrix (to_matrix g)
  ++ tk_res (fun p => tk_matrix (fst p) ++ tk_names (snd p)) (to_numpy g)
  ++ tk_res tk_nx (to_nx g)
  ++ tk_res tk_nx (to_gml_nx g).
