(** Equality.v — executable model of [CausalGraph.__eq__] / [__ne__], [Skeleton.__eq__],
    [Node.__eq__], [TimeSeriesNode.__eq__] and [Edge.__eq__] (shallow and deep) on the concrete
    graph state of Graph.v, and the canonical forms that characterise them (DEFINITIONS ONLY;
    proofs are in EqualityProofs.v).

    The functions follow the Python control flow statement by statement: same order of tests,
    first [False] wins, and an exception raised by a sub-call is returned as [Err]. *)
From CG Require Import Base Graph GraphObs.
Set Implicit Arguments.

(** * Python [==] on metadata values

    [bool] is a subclass of [int] in Python: [True == 1] and [False == 0], also inside lists
    and dicts, so [{'b': True} == {'b': 1}].  (Observed on the implementation:
    [g.__eq__(h, True)] is [True] for two graphs whose only node has these two metadata.)
    [json_norm] maps every boolean to the integer it is equal to; Python's [==] on two
    JSON-representable values is structural equality of the normal forms. *)
Fixpoint json_norm (j : json) : json :=
  match j with
  | JBool b => JInt (if b then 1 else 0)%Z
  | JList l => JList (map json_norm l)
  | JObj l => JObj (map (fun kv => let '(k, v) := kv in (k, json_norm v)) l)
  | _ => j
  end.

Definition meta_norm (m : meta) : meta := map (fun kv => (fst kv, json_norm (snd kv))) m.

(** [a.meta == b.meta] *)
Definition py_meta_eqb (a b : meta) : bool := meta_eqb (meta_norm a) (meta_norm b).

(** * Node.__eq__ / TimeSeriesNode.__eq__ *)

(** [Node.__eq__(a, b, deep)] *)
Definition node_eqb_base (deep : bool) (a b : node) : bool :=
  if deep then
    name_eqb (nid a) (nid b) && vtype_eqb (nvt a) (nvt b) && py_meta_eqb (nmeta a) (nmeta b)
  else name_eqb (nid a) (nid b).

(** [a.__eq__(b, deep)] for the node class of a graph of kind [k].  The time-series class
    first calls the base comparison and then reads [variable_name] and [time_lag] of both nodes
    through the property accessors, which raise ValueError when the tag is missing; Python's
    [and] evaluates [self.variable_name == other.variable_name] first and the lags only when the
    variable names agree. *)
Definition node_eqb (k : kind) (deep : bool) (a b : node) : res bool :=
  match k with
  | Plain => Ok (node_eqb_base deep a b)
  | TS =>
      if negb (node_eqb_base deep a b) then Ok false
      else
        match meta_var (nmeta a) with
        | None => Err EValue
        | Some va =>
            match meta_var (nmeta b) with
            | None => Err EValue
            | Some vb =>
                if negb (name_eqb va vb) then Ok false
                else
                  match meta_lag (nmeta a) with
                  | None => Err EValue
                  | Some la =>
                      match meta_lag (nmeta b) with
                      | None => Err EValue
                      | Some lb => Ok (Z.eqb la lb)
                      end
                  end
            end
        end
  end.

(** * Edge.__eq__ *)

(** the literal list [dont_care_direction] *)
Definition dont_care : list etype := [Und; Bi; Unk].
Definition in_dont_care (t : etype) : bool := existsb (etype_eqb t) dont_care.

(** the tail of [Edge.__eq__]: the pair / reversed-pair test *)
Definition edge_pair_test (e e' : edge) : bool :=
  if pair_eqb (edge_key e) (edge_key e') then etype_eqb (ety e) (ety e')
  else if pair_eqb (edge_key e) (edst e', esrc e') then
    in_dont_care (ety e) && etype_eqb (ety e) (ety e')
  else false.

(** [e.__eq__(e', deep)] where [e] is an edge of [g] and [e'] an edge of [h].  The Node objects
    an edge holds are the node objects of its graph, so the deep branch looks the endpoints up
    in the respective graph ([Err EKey] for a dangling endpoint is a model-only outcome; it is
    excluded by the invariant). *)
Definition edge_eqb (k : kind) (deep : bool) (g h : graph) (e e' : edge) : res bool :=
  if deep then
    match get_node g (esrc e), get_node g (edst e), get_node h (esrc e'), get_node h (edst e') with
    | Some s, Some d, Some s', Some d' =>
        bind (node_eqb k true s s') (fun src_eq =>
        bind (node_eqb k true d d') (fun dst_eq =>
        let are_sources_not_equal := negb src_eq in
        let are_destinations_not_equal := negb dst_eq in
        bind
          (if in_dont_care (ety e) && etype_eqb (ety e) (ety e') then
             (* allow source and destination to be flipped between each edge *)
             bind (if are_sources_not_equal
                   then bind (node_eqb k true s d') (fun b => Ok (negb b))
                   else Ok false) (fun fail_s =>
             if fail_s then Ok false
             else
               bind (if are_destinations_not_equal
                     then bind (node_eqb k true d s') (fun b => Ok (negb b))
                     else Ok false) (fun fail_d => Ok (negb fail_d)))
           else Ok (negb (are_sources_not_equal || are_destinations_not_equal)))
          (fun nodes_ok =>
             if negb nodes_ok then Ok false
             else if negb (py_meta_eqb (emeta e) (emeta e')) then Ok false
             else Ok (edge_pair_test e e'))))
    | _, _, _, _ => Err EKey
    end
  else Ok (edge_pair_test e e').

(** * CausalGraph.__eq__ *)

(** [set(a) == set(b)] on lists of names *)
Definition name_set_eqb (a b : list name) : bool :=
  forallb (fun x => mem x b) a && forallb (fun x => mem x a) b.

(** [frozenset(p) == frozenset(q)] for two pairs of names *)
Definition in_pair (x : name) (p : name * name) : bool := name_eqb x (fst p) || name_eqb x (snd p).
Definition upair_eqb (p q : name * name) : bool :=
  in_pair (fst p) q && in_pair (snd p) q && in_pair (fst q) p && in_pair (snd q) p.

(** [{frozenset(p) for p in a} == {frozenset(q) for q in b}] *)
Definition upair_set_eqb (a b : list (name * name)) : bool :=
  forallb (fun p => existsb (upair_eqb p) b) a && forallb (fun q => existsb (upair_eqb q) a) b.

(** a [for] loop whose body returns [False] on the first failing element *)
Fixpoint all_res {A} (f : A -> res bool) (l : list A) : res bool :=
  match l with
  | [] => Ok true
  | x :: l' =>
      match f x with
      | Ok true => all_res f l'
      | Ok false => Ok false
      | Err x => Err x
      end
  end.

(** [try: other.get_edge(s, d) except (KeyError, EdgeDoesNotExistError): other.get_edge(d, s)] *)
Definition other_edge (h : graph) (e : edge) : res edge :=
  match edge_at h (esrc e) (edst e) with
  | Some e' => Ok e'
  | None =>
      match edge_at h (edst e) (esrc e) with
      | Some e' => Ok e'
      | None => Err EEdgeMissing
      end
  end.

(** [g.__eq__(h, deep)] for two graphs of the same class [k] *)
Definition graph_eqb (k : kind) (deep : bool) (g h : graph) : res bool :=
  if negb (Nat.eqb (length (v_nodes g)) (length (v_nodes h)))
     || negb (Nat.eqb (length (v_edges g)) (length (v_edges h))) then Ok false
  else if negb (name_set_eqb (v_node_names g) (v_node_names h)) then Ok false
  else if negb (upair_set_eqb (map edge_key (v_edges g)) (map edge_key (v_edges h))) then Ok false
  else
    match all_res (fun n => match get_node h (nid n) with
                            | None => Err EKey
                            | Some n' => node_eqb k deep n n'
                            end) (nodes_sorted g) with
    | Ok true =>
        all_res (fun e => bind (other_edge h e) (fun e' => edge_eqb k deep g h e e')) (v_edges g)
    | r => r
    end.

(** [g != h] = [not (g == h)] *)
Definition graph_neb (k : kind) (g h : graph) : res bool :=
  match graph_eqb k false g h with Ok b => Ok (negb b) | Err x => Err x end.

(** * Skeleton.__eq__

    [Skeleton.nodes] re-creates every node from (identifier, meta, variable_type) and
    [Skeleton.edges] re-creates every edge as an undirected [Edge] over the SAME node objects and
    metadata; [Skeleton.get_node] / [Skeleton.get_edge] scan these lists and assert that exactly
    one element matches ([get_edge] matches either orientation, so the retry in the [except
    AssertionError] branch fails the same way). *)
Definition und (e : edge) : edge :=
  {| esrc := esrc e; edst := edst e; ety := Und; emeta := emeta e |}.
Definition sk_edges (g : graph) : list edge := map und (v_edges g).

Definition sk_get_node (h : graph) (id : name) : res node :=
  match filter (fun n => name_eqb (nid n) id) (nodes_sorted h) with
  | [n] => Ok n
  | _ => Err EAssert
  end.

Definition sk_get_edge (h : graph) (s d : name) : res edge :=
  match filter (fun e => pair_eqb (edge_key e) (s, d) || pair_eqb (edge_key e) (d, s)) (sk_edges h) with
  | [e] => Ok e
  | _ => Err EAssert
  end.

Definition skeleton_eqb (k : kind) (deep : bool) (g h : graph) : res bool :=
  if negb (Nat.eqb (length (nodes_sorted g)) (length (nodes_sorted h)))
     || negb (Nat.eqb (length (sk_edges g)) (length (sk_edges h))) then Ok false
  else if negb (name_set_eqb (v_node_names g) (v_node_names h)) then Ok false
  else if negb (upair_set_eqb (map edge_key (sk_edges g)) (map edge_key (sk_edges h))) then Ok false
  else
    match all_res (fun n => bind (sk_get_node h (nid n)) (fun n' => node_eqb k deep n n'))
            (nodes_sorted g) with
    | Ok true =>
        all_res (fun e =>
                   bind (match sk_get_edge h (esrc e) (edst e) with
                         | Ok e' => Ok e'
                         | Err _ => sk_get_edge h (edst e) (esrc e)
                         end) (fun e' => edge_eqb k deep g h e e')) (sk_edges g)
    | r => r
    end.

Definition skeleton_neb (k : kind) (g h : graph) : res bool :=
  match skeleton_eqb k false g h with Ok b => Ok (negb b) | Err x => Err x end.

(** * Canonical forms *)

(** an edge of a symmetric type is oriented by [name_leb] of its endpoints *)
Definition canon_pair (e : edge) : name * name :=
  if in_dont_care (ety e) && negb (name_leb (esrc e) (edst e)) then (edst e, esrc e)
  else (esrc e, edst e).
Definition canon_edge (e : edge) : (name * name) * etype := (canon_pair e, ety e).
Definition cedge_leb (a b : (name * name) * etype) : bool := pair_leb (fst a) (fst b).

(** sorted node ids, sorted canonical edges *)
Definition canon (g : graph) : list name * list ((name * name) * etype) :=
  (v_node_names g, isort cedge_leb (map canon_edge (gsrc g))).

Definition canon_node (n : node) : name * vtype * meta := (nid n, nvt n, meta_norm (nmeta n)).
Definition canon_dedge (e : edge) : ((name * name) * etype) * meta :=
  (canon_edge e, meta_norm (emeta e)).
Definition dedge_leb (a b : ((name * name) * etype) * meta) : bool := cedge_leb (fst a) (fst b).

(** the same with variable types and (normalised) metadata *)
Definition canon_deep (g : graph)
  : list (name * vtype * meta) * list (((name * name) * etype) * meta) :=
  (map canon_node (nodes_sorted g), isort dedge_leb (map canon_dedge (gsrc g))).

(** the skeleton: node ids and unordered adjacent pairs *)
Definition sk_pair (e : edge) : name * name :=
  if name_leb (esrc e) (edst e) then (esrc e, edst e) else (edst e, esrc e).
Definition canon_skel (g : graph) : list name * list (name * name) :=
  (v_node_names g, isort pair_leb (map sk_pair (gsrc g))).
Definition sk_dedge (e : edge) : (name * name) * meta := (sk_pair e, meta_norm (emeta e)).
Definition canon_skel_deep (g : graph)
  : list (name * vtype * meta) * list ((name * name) * meta) :=
  (map canon_node (nodes_sorted g),
   isort (fun a b : (name * name) * meta => pair_leb (fst a) (fst b)) (map sk_dedge (gsrc g))).
