(** PyRt.v — the small runtime library targeted by /verif/tools/translate_identify.py.

    The translator reads cai_causal_graph/identify_utils.py with the Python [ast] module and
    writes IdentifyGenConf.v, IdentifyGenIM.v and IdentifyGenMB.v (one file per property): one
    Gallina function per Python function, statement by statement.
    Everything the generated code calls is defined HERE, as ordinary total Gallina functions
    over [digraph A] and [list A].  DEFINITIONS and pinned [Example]s only (the proofs about the
    generated code are in IdentifyGenLemmas.v and IdentifyGen{Conf,IM,MB}Proofs.v).

    ** Conventions
    - A node identifier is a value of the vertex type [A] ([NodeLike] arguments are restricted
      to identifiers; [Node.identifier_from] is the identity).  [None] and the empty string
      [''] (both occur in [_verify_identify_inputs]) are two distinguished values of [A] that
      every generated function takes as parameters [py_None] / [py_empty_str]; the theorems
      about the two-node functions assume that the second node differs from [py_None] (a node
      equal to it would be read as an omitted argument).
    - A [CausalGraph] that is a DAG (the only graphs on which these functions do not raise
      [TypeError]) and a [networkx.DiGraph] are both a [digraph A]: [verts] = the nodes,
      [arcs] = the directed edges.  All graph-valued operations keep [verts] unchanged.
    - A Python [set] is a duplicate-free [list A].  Real Python iterates over a set in an order
      that depends on hashes and on the history of the object, so the order in which a set is
      ITERATED is not the list order but [py_order X k l], where [py_order : pyorder] is an
      arbitrary function (a parameter of every generated function) and [k] numbers the place in
      the program text where the iteration happens.  The same oracle orders the collections that
      the library builds from sets and dictionaries ([get_children], [get_parents],
      [get_neighbors], [successors], [predecessors], [get_all_causal_paths]).  The theorems of
      the proof files hold for EVERY oracle that returns a permutation of its argument
      ([pyorder_ok]): the computed sets do not depend on any iteration order.  Results are
      compared as sets.  A Python [list] is a [list] (its order is definite).
    - A Python object that is mutated in place ([s.add(x)], [g.remove_edge(u, v)],
      [l.append(x)]) is threaded through as state: the statement rebinds the variable that
      holds it.  A function that mutates one of its parameters returns the final value of that
      parameter together with its result (the nested helper of [identify_confounders] returns
      [(graph, confounders)]).  The translator refuses (exit code 2) every program in which two
      live names could denote the same mutable object, except for the plain alias
      [final_graph = clean_graph], which it resolves by using ONE Coq variable for both names.
    - Outcome of a call: [Ret v] (normal return), [Exc e] (a Python exception was raised; only
      its class is modelled, not its message), [Fuel] (the explicit recursion fuel ran out; never
      a normal-looking value).
    - A [for] loop is [py_for inj xs s body k]: [xs] is the list of items (evaluated ONCE before
      the loop, as Python evaluates the iterable once), [s] the initial value of the tuple of
      variables the body assigns, [body x s] the body ([Cont s'] = fell through or [continue],
      [Brk s'] = [break], [Done o] = [return] / [raise] / out of fuel) and [k s'] the rest of the
      enclosing block.  [inj] embeds an outcome into the enclosing context: [py_top] at the
      level of the function body, [py_in] inside another loop body.

    ** THE TRUSTED TABLE: Python construct  |->  Coq term emitted by the translator
       (each row is pinned by an [Example] below whose right-hand side was obtained from the real
        library / interpreter; see the section "Pinned rows")

       -- builtins: sets, lists, integers ---------------------------------------------------
       set()                         |-> py_set_empty                 ([])
       list() , []                   |-> py_list_empty                ([])
       set(xs)                       |-> py_set_of eqb xs             (duplicates dropped)
       {a, b}                        |-> py_set_of eqb [a; b]
       list(xs)   (xs a list / view) |-> py_list xs                   (a snapshot: xs itself)
       list(s)    (s a set)          |-> py_list (py_iter_set py_order k s)
       for x in s (s a set), comprehension over a set, enumerate(s), combinations(s, 2)
                                     |-> the set is replaced by py_iter_set py_order k s
       s.copy()           (s a set)  |-> py_copy s                    (a snapshot: s itself)
       s.add(x)                      |-> s := py_set_add eqb s x
       s.remove(x)                   |-> s := py_set_remove eqb s x   (Exc PyKeyError if absent)
       s.union(t)                    |-> py_union eqb s t
       s.intersection(t)             |-> py_inter eqb s t
       s.difference(t)               |-> py_diff eqb s t
       set.intersection( *ls)         |-> py_set_intersection_star eqb ls
                                          (Exc PyTypeError when ls = [])
       [e for x in xs]               |-> map (fun x => e) xs
       {e for x in xs for y in ys if c}
                                     |-> py_set_of eqb (flat_map (fun x => flat_map (fun y =>
                                            if c then [e] else []) ys) xs)
                                          (same scheme for any number of generators / conditions;
                                           a list comprehension is the same without py_set_of)
       s | t               (sets)    |-> py_union eqb s t
       s & t               (sets)    |-> py_inter eqb s t
       s - t               (sets)    |-> py_diff eqb s t
       logger.debug/info/warning/error/critical(<side-effect free arguments>)   |-> (nothing)
       x: T = e  (annotated assignment) |-> as x = e (the annotation is ignored)
       l.append(x)                   |-> l := py_list_append l x
       x in s , x not in s           |-> memb eqb x s , negb (memb eqb x s)
       len(xs)                       |-> length xs
       enumerate(xs)                 |-> py_enumerate xs              ([(0, x0); (1, x1); ...])
       a > b, a >= b, a == b (ints)  |-> Nat.ltb b a, Nat.leb b a, Nat.eqb a b
       a == b (identifiers)          |-> eqb a b
       x is not None                 |-> negb (eqb x py_None)
       a and b, a or b, not a        |-> a && b, a || b, negb a       (operands without effects only)
       e1 if c else e2               |-> if c then e1 else e2
       raise E(...)                  |-> Exc PyE                      (message dropped)
       -- CausalGraph (a DAG) -----------------------------------------------------------------
       isinstance(graph, CausalGraph)|-> true                         (the model only has DAG-shaped CausalGraphs)
       graph.is_dag()                |-> py_cg_is_dag eqb g           (acyclicb)
       graph.node_exists(n)          |-> py_cg_node_exists eqb g n    (memb n (verts g))
       Node.identifier_from(n)       |-> n
       graph.get_ancestors(n)        |-> py_cg_get_ancestors eqb g n  (anc: STRICT ancestors)
       graph.get_descendants(n)      |-> py_cg_get_descendants eqb g n (desc: STRICT descendants)
       graph.get_children(n)         |-> py_cg_get_children eqb py_order k g n  (a fresh list, no duplicates)
       graph.get_parents(n)          |-> py_cg_get_parents eqb py_order k g n
       graph.get_neighbors(n)        |-> py_cg_get_neighbors eqb py_order k g n  (parents and children, n excluded)
       graph.get_all_causal_paths(s, d) |-> py_cg_get_all_causal_paths eqb py_order k g s d
                                          (Identify.id_all_paths: all simple directed paths as
                                           node lists, [] when s = d; a fully built LIST, so
                                           [enumerate] over it cannot observe later mutations)
       graph.copy()                  |-> py_cg_copy g                 (independent copy: g itself)
       graph.remove_edge(source=s, destination=d)
                                     |-> g := py_cg_remove_edge eqb g s d
                                          (Exc PyEdgeDoesNotExistError if absent)
       graph.to_networkx()           |-> py_cg_to_networkx g          (independent DiGraph: g itself)
       -- networkx.DiGraph --------------------------------------------------------------------
       G.successors(n)               |-> py_nx_successors eqb py_order k G n  (LIVE view: the translator insists
       G.predecessors(n)             |-> py_nx_predecessors eqb py_order k G n  on a list(...) snapshot when the
                                                                        loop body mutates anything)
       G.remove_edge(u, v)           |-> G := py_nx_remove_edge eqb G u v (Exc PyNetworkXError if absent)
       G.add_edge(u, v)              |-> G := py_nx_add_edge eqb G u v  (no-op when the edge exists)
       G.add_edge( *e)               |-> G := py_nx_add_edge eqb G (fst e) (snd e)
       networkx.ancestors(G, n)      |-> py_nx_ancestors eqb G n      (anc: STRICT ancestors)

       -- CausalGraph with arbitrary edge types ([identify_colliders] only; [mgraph A]) ---------
       graph.get_node_names()        |-> py_mcg_get_node_names g      (the nodes, insertion order)
       graph.get_bidirected_edges()  |-> py_mcg_get_bidirected_edges g (the edges of type <>)
       graph.get_neighbors(n)        |-> py_mcg_get_neighbors eqb py_order k g n (Markov.mg_neighbors)
       graph.edge_exists(a, b)       |-> py_mcg_edge_exists eqb g a b (an edge STORED as (a, b), any type)
       graph.get_edge(a, b)          |-> py_mcg_get_edge eqb g a b    (Exc PyEdgeDoesNotExistError if absent)
       e.source.identifier , e.destination.identifier , e.edge_type
                                     |-> py_edge_source_identifier e , py_edge_destination_identifier e ,
                                         py_edge_edge_type e
       EdgeType.DIRECTED_EDGE ...    |-> Dir Und Bi Unk UnkDir UnkUnd  (-> -- <> oo o> o-)
       t1 == t2 (edge types)         |-> etype_eqb t1 t2
       (a, b) in ps (list of pairs)  |-> py_pair_memb eqb (a, b) ps
       combinations(s, 2)            |-> py_combinations2 s           (Markov.pairs2: pairs in iteration order)
       x = A and B   (B can raise)   |-> if A: x = B else: x = False   (statement level; Python evaluates B
       x = A or B    (B can raise)   |-> if A: x = True else: x = B     only when needed; A, B booleans)

    Preconditions not modelled as exceptions (they hold in every call made by the translated
    functions once [_verify_identify_inputs] has passed, because every node handed to the graph
    API comes out of the graph): the node arguments of the graph queries are nodes of the graph
    (otherwise the library raises AssertionError / NetworkXError / NodeDoesNotExistError). *)
From CG Require Import Base Digraph Identify Markov.
Set Implicit Arguments.

(** * Outcomes *)

Inductive pyexc : Type :=
| PyTypeError | PyValueError | PyKeyError
| PyNodeDoesNotExistError | PyEdgeDoesNotExistError | PyNetworkXError
| PyAssertionError | PyIndexError.   (* added for tools/translate_traversal.py (PyRtLoop.v) *)

Inductive pyout (R : Type) : Type :=
| Ret (r : R)
| Exc (e : pyexc)
| Fuel.
Arguments Ret {R} r.
Arguments Exc {R} e.
Arguments Fuel {R}.

(** What a loop body hands back to the loop. *)
Inductive pyctl (S R : Type) : Type :=
| Cont (s : S)
| Brk (s : S)
| Done (o : pyout R).
Arguments Cont {S R} s.
Arguments Brk {S R} s.
Arguments Done {S R} o.

(** Embedding of an outcome into the enclosing context. *)
Definition py_top {R : Type} (o : pyout R) : pyout R := o.
Definition py_in {S R : Type} (o : pyout R) : pyctl S R := Done o.

(** Sequencing of a computation that may raise / run out of fuel. *)
Definition py_bind {T R Res : Type} (inj : pyout R -> Res) (o : pyout T) (k : T -> Res) : Res :=
  match o with
  | Ret t => k t
  | Exc e => inj (Exc e)
  | Fuel => inj Fuel
  end.

(** [for x in xs: body] followed by [k]. *)
Fixpoint py_for {X S R Res : Type} (inj : pyout R -> Res) (xs : list X) (s : S)
         (body : X -> S -> pyctl S R) (k : S -> Res) {struct xs} : Res :=
  match xs with
  | [] => k s
  | x :: xs' =>
      match body x s with
      | Cont s' => py_for inj xs' s' body k
      | Brk s' => k s'
      | Done o => inj o
      end
  end.

(** * Iteration order *)

(** [ord X k l]: the order in which the collection [l] is iterated at the observation site [k]. *)
Definition pyorder : Type := forall X : Type, nat -> list X -> list X.
Definition pyorder_ok (ord : pyorder) : Prop :=
  forall (X : Type) (k : nat) (l : list X), Permutation (ord X k l) l.
(** two concrete oracles: the list order, and the reverse of the list order at odd sites *)
Definition pyorder_id : pyorder := fun _ _ l => l.
Definition pyorder_alt : pyorder := fun _ k l => if Nat.odd k then rev l else l.
Definition py_iter_set (ord : pyorder) (k : nat) {X : Type} (s : list X) : list X := ord X k s.

(** * Builtins *)

Definition py_list_empty {X : Type} : list X := [].
Definition py_set_empty {X : Type} : list X := [].
Definition py_list {X : Type} (xs : list X) : list X := xs.
Definition py_copy {X : Type} (xs : list X) : list X := xs.
Definition py_list_append {X : Type} (l : list X) (x : X) : list X := l ++ [x].
Definition py_enumerate {X : Type} (xs : list X) : list (nat * X) := combine (seq 0 (length xs)) xs.

Section PyRt.
  Variable A : Type.
  Variable eqb : A -> A -> bool.

  Definition py_set_of (xs : list A) : list A := union eqb xs [].
  Definition py_set_add (s : list A) (x : A) : list A := if memb eqb x s then s else s ++ [x].
  Definition py_set_remove (s : list A) (x : A) : pyout (list A) :=
    if memb eqb x s then Ret (filter (fun y => negb (eqb y x)) s) else Exc PyKeyError.
  Definition py_union (s t : list A) : list A := union eqb s t.
  Definition py_inter (s t : list A) : list A := inter eqb s t.
  Definition py_diff (s t : list A) : list A := diff eqb s t.
  Definition py_set_intersection_star (ls : list (list A)) : pyout (list A) :=
    match ls with
    | [] => Exc PyTypeError
    | s0 :: rest => Ret (fold_left (inter eqb) rest s0)
    end.

  (** * CausalGraph *)
  Definition py_del_arc (g : digraph A) (u v : A) : digraph A :=
    {| verts := verts g;
       arcs := filter (fun e => negb (eqb (fst e) u && eqb (snd e) v)) (arcs g) |}.

  Definition py_cg_is_dag (g : digraph A) : bool := acyclicb eqb g.
  Definition py_cg_node_exists (g : digraph A) (n : A) : bool := memb eqb n (verts g).
  Definition py_cg_get_ancestors (g : digraph A) (n : A) : list A := anc eqb g n.
  Definition py_cg_get_descendants (g : digraph A) (n : A) : list A := desc eqb g n.
  Definition py_cg_get_children (ord : pyorder) (k : nat) (g : digraph A) (n : A) : list A :=
    ord A k (union eqb (children eqb g n) []).
  Definition py_cg_get_parents (ord : pyorder) (k : nat) (g : digraph A) (n : A) : list A :=
    ord A k (union eqb (parents eqb g n) []).
  Definition py_cg_get_neighbors (ord : pyorder) (k : nat) (g : digraph A) (n : A) : list A :=
    ord A k (filter (fun m => negb (eqb m n)) (union eqb (children eqb g n) (union eqb (parents eqb g n) []))).
  Definition py_cg_get_all_causal_paths (ord : pyorder) (k : nat) (g : digraph A) (s d : A)
    : pyout (list (list A)) :=
    match id_all_paths eqb g s d with
    | Some ps => Ret (ord (list A) k ps)
    | None => Fuel
    end.
  Definition py_cg_copy (g : digraph A) : digraph A := g.
  Definition py_cg_remove_edge (g : digraph A) (s d : A) : pyout (digraph A) :=
    if has_arc eqb g s d then Ret (py_del_arc g s d) else Exc PyEdgeDoesNotExistError.
  Definition py_cg_to_networkx (g : digraph A) : digraph A := g.

  (** * CausalGraph with arbitrary edge types (used by [identify_colliders] only) *)
  Record mgraph : Type := { mnodes : list A; medges : list (medge A) }.

  Definition py_mcg_get_node_names (g : mgraph) : list A := mnodes g.
  Definition py_mcg_get_bidirected_edges (g : mgraph) : list (medge A) :=
    filter (fun e => etype_eqb (mty e) Bi) (medges g).
  Definition py_mcg_get_neighbors (ord : pyorder) (k : nat) (g : mgraph) (n : A) : list A :=
    ord A k (mg_neighbors eqb (medges g) n).
  Definition py_mcg_edge_exists (g : mgraph) (a b : A) : bool := mg_edge_exists eqb (medges g) a b.
  Definition py_mcg_get_edge (g : mgraph) (a b : A) : pyout (medge A) :=
    match mg_get_edge eqb (medges g) a b with
    | Some e => Ret e
    | None => Exc PyEdgeDoesNotExistError
    end.
  Definition py_edge_source_identifier (e : medge A) : A := msrc e.
  Definition py_edge_destination_identifier (e : medge A) : A := mdst e.
  Definition py_edge_edge_type (e : medge A) : etype := mty e.
  Definition py_pair_memb (p : A * A) (l : list (A * A)) : bool :=
    existsb (fun q => eqb (fst q) (fst p) && eqb (snd q) (snd p)) l.
  Definition py_combinations2 (s : list A) : list (A * A) := pairs2 s.

  (** * networkx.DiGraph *)
  Definition py_nx_successors (ord : pyorder) (k : nat) (g : digraph A) (n : A) : list A :=
    ord A k (union eqb (children eqb g n) []).
  Definition py_nx_predecessors (ord : pyorder) (k : nat) (g : digraph A) (n : A) : list A :=
    ord A k (union eqb (parents eqb g n) []).
  Definition py_nx_remove_edge (g : digraph A) (u v : A) : pyout (digraph A) :=
    if has_arc eqb g u v then Ret (py_del_arc g u v) else Exc PyNetworkXError.
  Definition py_nx_add_edge (g : digraph A) (u v : A) : digraph A :=
    if has_arc eqb g u v then g else add_arc g u v.
  Definition py_nx_ancestors (g : digraph A) (n : A) : list A := anc eqb g n.
End PyRt.

(** * Pinned rows

    Nodes a b c d = 0 1 2 3; the graph of the probe is a->b a->c b->c c->d.  Every right-hand
    side below is what the real interpreter / library printed for the same call (results that
    are Python sets are compared after sorting). *)
Module PyRtExamples.
  Definition E := Nat.eqb.
  Definition O := pyorder_id.
  Definition g0 : digraph nat := {| verts := [0; 1; 2; 3]; arcs := [(0, 1); (0, 2); (1, 2); (2, 3)] |}.
  Definition sorted (l : list nat) : list nat := isort Nat.leb l.
  Definition garcs (o : pyout (digraph nat)) : pyout (list (nat * nat)) :=
    match o with Ret g => Ret (arcs g) | Exc e => Exc e | Fuel => Fuel end.

  (* set(), set([..]), {a, b}, add, remove, union, intersection, difference, copy *)
  Example ex_set_of : sorted (py_set_of E [3; 1; 3; 2; 1]) = [1; 2; 3].
  Proof. vm_compute. reflexivity. Qed.
  Example ex_set_add : py_set_add E [1; 2] 2 = [1; 2] /\ sorted (py_set_add E [1; 2] 0) = [0; 1; 2].
  Proof. vm_compute. split; reflexivity. Qed.
  (* {1,2}.remove(1) = {2};  set().remove(1) raises KeyError *)
  Example ex_set_remove : py_set_remove E [1; 2] 1 = Ret [2] /\ py_set_remove E [] 1 = Exc PyKeyError.
  Proof. vm_compute. split; reflexivity. Qed.
  Example ex_set_ops :
    sorted (py_union E [1; 2] [2; 3]) = [1; 2; 3] /\ py_inter E [1; 2; 3] [2; 3; 4] = [2; 3] /\
    py_diff E [1; 2; 3] [2] = [1; 3].
  Proof. vm_compute. repeat split; reflexivity. Qed.
  (* set.intersection( *[{1,2,3},{2,3},{3,4}]) = {3};  set.intersection( *[]) raises TypeError *)
  Example ex_inter_star :
    py_set_intersection_star E [[1; 2; 3]; [2; 3]; [3; 4]] = Ret [3] /\
    py_set_intersection_star E [] = Exc PyTypeError.
  Proof. vm_compute. split; reflexivity. Qed.
  (* [x + 1 for x in [1, 2]] = [2, 3]; 2 in {1, 2}; 3 not in {1, 2}; len([7, 8]) = 2;
     (5 if 1 is not None else 6) = 5  with None = 9 *)
  Example ex_misc :
    map (fun x => x + 1) [1; 2] = [2; 3] /\ memb E 2 [1; 2] = true /\ negb (memb E 3 [1; 2]) = true /\
    length [7; 8] = 2 /\ (if negb (E 1 9) then 5 else 6) = 5.
  Proof. vm_compute. repeat split; reflexivity. Qed.
  (* list(enumerate(['x','y'])) = [(0,'x'), (1,'y')] *)
  Example ex_enumerate : py_enumerate [7; 9] = [(0, 7); (1, 9)].
  Proof. vm_compute. reflexivity. Qed.
  Example ex_append : py_list_append [(0, 1)] (0, 2) = [(0, 1); (0, 2)].
  Proof. reflexivity. Qed.

  (* g.is_dag() = True; g.node_exists('a') = True; g.node_exists('zz') = False *)
  Example ex_is_dag : py_cg_is_dag E g0 = true /\ py_cg_node_exists E g0 0 = true /\ py_cg_node_exists E g0 9 = false.
  Proof. vm_compute. repeat split; reflexivity. Qed.
  (* a cycle is not a DAG *)
  Example ex_is_dag_cyc : py_cg_is_dag E {| verts := [0; 1]; arcs := [(0, 1); (1, 0)] |} = false.
  Proof. vm_compute. reflexivity. Qed.
  (* sorted(g.get_ancestors('d')) = ['a','b','c']; sorted(g.get_descendants('a')) = ['b','c','d'] *)
  Example ex_anc_desc :
    sorted (py_cg_get_ancestors E g0 3) = [0; 1; 2] /\ sorted (py_cg_get_descendants E g0 0) = [1; 2; 3] /\
    sorted (py_nx_ancestors E g0 3) = [0; 1; 2].
  Proof. vm_compute. repeat split; reflexivity. Qed.
  (* g.get_all_causal_paths('a','d') = [['a','b','c','d'], ['a','c','d']]; ('a','a') -> []; ('d','a') -> [] *)
  Example ex_paths :
    py_cg_get_all_causal_paths E O 0 g0 0 3 = Ret [[0; 1; 2; 3]; [0; 2; 3]] /\
    py_cg_get_all_causal_paths E O 0 g0 0 0 = Ret [] /\ py_cg_get_all_causal_paths E O 0 g0 3 0 = Ret [].
  Proof. vm_compute. repeat split; reflexivity. Qed.
  (* g.get_children('a') = ['c','b'] (a list built from a set: order unspecified) *)
  Example ex_children : sorted (py_cg_get_children E O 0 g0 0) = [1; 2] /\ sorted (py_cg_get_parents E O 0 g0 2) = [0; 1].
  Proof. vm_compute. split; reflexivity. Qed.
  (* sorted(g.get_neighbors('c')) = ['a','b','d'] *)
  Example ex_neighbors : sorted (py_cg_get_neighbors E O 0 g0 2) = [0; 1; 3].
  Proof. vm_compute. reflexivity. Qed.
  (* {p for c in ['b','c'] for p in g.get_parents(c) if p != 'a'} = {'b'};  {1,2} | {2,3} = {1,2,3} *)
  Example ex_setcomp :
    py_set_of E (flat_map (fun c => flat_map (fun p => if negb (E p 0) then [p] else [])
                                      (py_cg_get_parents E O 0 g0 c)) [1; 2]) = [1] /\
    sorted (py_union E [1; 2] [2; 3]) = [1; 2; 3].
  Proof. vm_compute. split; reflexivity. Qed.
  (* c = g.copy(); c.remove_edge(source='a', destination='b'): c.get_children('a') = ['c'] and g is unchanged;
     removing it again raises EdgeDoesNotExistError *)
  Example ex_cg_remove :
    garcs (py_cg_remove_edge E (py_cg_copy g0) 0 1) = Ret [(0, 2); (1, 2); (2, 3)] /\
    py_bind py_top (py_cg_remove_edge E g0 0 1) (fun c => py_cg_remove_edge E c 0 1) = Exc PyEdgeDoesNotExistError.
  Proof. vm_compute. split; reflexivity. Qed.
  (* n = g.to_networkx(): list(n.successors('a')) = ['b','c']; list(n.predecessors('c')) = ['a','b'] *)
  Example ex_nx_views :
    py_nx_successors E O 0 (py_cg_to_networkx g0) 0 = [1; 2] /\ py_nx_predecessors E O 0 (py_cg_to_networkx g0) 2 = [0; 1].
  Proof. vm_compute. split; reflexivity. Qed.
  (* n.remove_edge('a','b') twice: the second call raises NetworkXError;
     n.add_edge('a','b') twice after the removal: successors of a are {'b','c'}, 4 edges *)
  Example ex_nx_remove_add :
    py_bind py_top (py_nx_remove_edge E g0 0 1) (fun n => py_nx_remove_edge E n 0 1) = Exc PyNetworkXError /\
    py_bind py_top (py_nx_remove_edge E g0 0 1)
      (fun n => Ret (length (arcs (py_nx_add_edge E (py_nx_add_edge E n 0 1) 0 1)),
                     sorted (py_nx_successors E O 0 (py_nx_add_edge E (py_nx_add_edge E n 0 1) 0 1) 0)))
    = Ret (4, [1; 2]).
  Proof. vm_compute. split; reflexivity. Qed.

  (* mixed graph of the probe: a -> c, b -> c, c <> d, d -- e, a -> e (a .. e = 0 .. 4) *)
  Definition m0 : mgraph nat :=
    {| mnodes := [0; 1; 2; 3; 4];
       medges := [(0, 2, Dir); (1, 2, Dir); (2, 3, Bi); (3, 4, Und); (0, 4, Dir)] |}.
  (* get_node_names() = [a..e]; get_bidirected_edges() = [c <> d];
     sorted neighbours of c, d, e = [a,b,d], [c,e], [a,d] *)
  Example ex_mcg_queries :
    py_mcg_get_node_names m0 = [0; 1; 2; 3; 4] /\
    map (fun e => (py_edge_source_identifier e, py_edge_destination_identifier e, py_edge_edge_type e))
        (py_mcg_get_bidirected_edges m0) = [(2, 3, Bi)] /\
    map (fun n => sorted (py_mcg_get_neighbors E O 0 m0 n)) [2; 3; 4] = [[0; 1; 3]; [2; 4]; [0; 3]].
  Proof. vm_compute. repeat split; reflexivity. Qed.
  (* edge_exists: (a,c) True, (c,a) False, (c,d) True, (d,c) False, (d,e) True, (e,d) False *)
  Example ex_mcg_edge_exists :
    map (fun p => py_mcg_edge_exists E m0 (fst p) (snd p)) [(0, 2); (2, 0); (2, 3); (3, 2); (3, 4); (4, 3)]
    = [true; false; true; false; true; false].
  Proof. vm_compute. reflexivity. Qed.
  (* get_edge('c','d').edge_type == BIDIRECTED_EDGE; get_edge('a','c').edge_type == DIRECTED_EDGE;
     get_edge('c','a') raises EdgeDoesNotExistError *)
  Example ex_mcg_get_edge :
    py_bind py_top (py_mcg_get_edge E m0 2 3) (fun e => Ret (etype_eqb (py_edge_edge_type e) Bi,
                                                            etype_eqb (py_edge_edge_type e) Dir))
    = Ret (true, false) /\
    py_bind py_top (py_mcg_get_edge E m0 0 2) (fun e => Ret (etype_eqb (py_edge_edge_type e) Dir)) = Ret true /\
    py_bind py_top (py_mcg_get_edge E m0 2 0) (fun e => Ret (py_edge_edge_type e)) = Exc PyEdgeDoesNotExistError.
  Proof. vm_compute. repeat split; reflexivity. Qed.
  (* list(combinations(['x','y','z'], 2)) = [(x,y), (x,z), (y,z)];
     ('a','b') in [('a','b'), ('c','d')] = True; ('b','a') in [('a','b')] = False *)
  Example ex_combinations_pairs :
    py_combinations2 [7; 8; 9] = [(7, 8); (7, 9); (8, 9)] /\
    py_pair_memb E (0, 1) [(0, 1); (2, 3)] = true /\ py_pair_memb E (1, 0) [(0, 1)] = false.
  Proof. vm_compute. repeat split; reflexivity. Qed.
  (* s = {1,2}; t = s.copy(); t.remove(1): s is still {1,2} (copy and list are snapshots) *)
  Example ex_copy_snapshot :
    (let s := [1; 2] in let t := py_copy s in (s, py_set_remove E t 1)) = ([1; 2], Ret [2]).
  Proof. vm_compute. reflexivity. Qed.

  (* the iteration-order oracle: the list order, or reversed at the odd observation sites *)
  Example ex_order :
    py_iter_set pyorder_id 1 [1; 2; 3] = [1; 2; 3] /\ py_iter_set pyorder_alt 1 [1; 2; 3] = [3; 2; 1] /\
    py_iter_set pyorder_alt 2 [1; 2; 3] = [1; 2; 3] /\
    py_nx_successors E pyorder_alt 1 g0 0 = [2; 1] /\
    py_cg_get_all_causal_paths E pyorder_alt 1 g0 0 3 = Ret [[0; 2; 3]; [0; 1; 2; 3]].
  Proof. vm_compute. repeat split; reflexivity. Qed.

  (* for-loop semantics: break keeps the state, return/raise leaves the loop and the function *)
  Example ex_for_break :
    py_for py_top [1; 2; 3; 4] 0 (fun x s => if Nat.eqb x 3 then Brk s else Cont (s + x)) (fun s => Ret s)
    = Ret 3.
  Proof. vm_compute. reflexivity. Qed.
  Example ex_for_return :
    py_for py_top [1; 2; 3; 4] 0 (fun x s => if Nat.eqb x 3 then Done (Ret 100) else Cont (s + x))
      (fun s => Ret s) = Ret 100.
  Proof. vm_compute. reflexivity. Qed.
  Example ex_for_nested_raise :
    py_for py_top [1; 2] 0
      (fun x s => py_for py_in [5; 6] s (fun y t => if Nat.eqb y 6 then Done (Exc PyValueError) else Cont (t + y))
                    (fun t => Cont t))
      (fun s => Ret s) = (Exc PyValueError : pyout nat).
  Proof. vm_compute. reflexivity. Qed.
End PyRtExamples.
