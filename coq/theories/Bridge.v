(** Bridge.v — the maps that tie the three executable models to EACH OTHER (DEFINITIONS ONLY;
    the proofs are in BridgeProofs.v).

      (1) Graph.v     concrete mutable state of CausalGraph / TimeSeriesCausalGraph
      (2) Digraph.v   [digraph name] : queries / d-separation / identification / Markov
      (3) TSGraph.v   [tsg]          : minimal / extended / stationary / summary graphs

    (1) -> (2) is [GraphInv.dgraph] (the directed part) and, for the routines that look at the
    edge types, [mgraph] below (every stored edge with its type).
    (1) -> (3) is [to_tsg] below: what the correspondence harness (harness/tsprops.py, [cq_tsg])
    extracts from a Python [TimeSeriesCausalGraph]:
      - nodes in [_nodes_by_identifier] (insertion) order, keyed by the reserved tags
        [variable_name] / [time_lag] of the node, with the node's variable type and its metadata
        WITHOUT the two reserved tags;
      - edges with the (variable, lag) of their two endpoint nodes, their type and metadata
        (here in [_edges_by_source] order; [TSGraph.tedges] is order-insensitive);
      - the graph metadata.
    [None] when a tag is missing (never on a reachable time-series state: [to_tsg_total]).

    Graph.v and TSGraph.v both define [esrc], [edst], [ety], [node_exists], [add_edge], ...;
    TSGraph is therefore used qualified. *)
From CG Require Import Base Dec Digraph Graph GraphObs GraphInv Names Markov.
From CG Require TSGraph.
Set Implicit Arguments.

(** * Graph -> mixed graph of Markov.v (identify_colliders, skeleton Markov boundary) *)
Definition mgraph (g : graph) : list (medge name) :=
  map (fun e => (esrc e, edst e, ety e)) (gsrc g).

(** * Graph (time-series class) -> TSGraph *)

(** The user metadata of a node: the two reserved tags removed (key order is kept). *)
Definition user_meta (m : meta) : meta :=
  remove_key k_variable_name (remove_key k_time_lag m).

(** (variable_name, time_lag) read from the reserved tags. *)
Definition tag_key (n : node) : option TSGraph.key :=
  match meta_var (nmeta n), meta_lag (nmeta n) with
  | Some v, Some l => Some (v, l)
  | _, _ => None
  end.

Definition to_tnode (n : node) : option TSGraph.tnode :=
  match tag_key n with
  | Some (v, l) =>
      Some {| TSGraph.tv := v; TSGraph.tl := l; TSGraph.tvt := nvt n;
              TSGraph.tm := user_meta (nmeta n) |}
  | None => None
  end.

(** [edge.source.variable_name, edge.source.time_lag]: looked up from the endpoint NODE. *)
Definition key_of (g : graph) (id : name) : option TSGraph.key :=
  match get_node g id with
  | Some n => tag_key n
  | None => None
  end.

Definition to_tedge (g : graph) (e : edge) : option TSGraph.tedge :=
  match key_of g (esrc e), key_of g (edst e) with
  | Some (sv, sl), Some (dv, dl) =>
      Some {| TSGraph.es := sv; TSGraph.esl := sl; TSGraph.ed := dv; TSGraph.edl := dl;
              TSGraph.ety := ety e; TSGraph.em := emeta e |}
  | _, _ => None
  end.

Definition to_tsg (g : graph) : option TSGraph.tsg :=
  match all_some (map to_tnode (gnodes g)), all_some (map (to_tedge g) (gsrc g)) with
  | Some ns, Some es =>
      Some {| TSGraph.tnodes := ns; TSGraph.tedges := es; TSGraph.tgmeta := gmeta g |}
  | _, _ => None
  end.

(** * The hypothesis on node names under which keys and identifiers are interchangeable

    [spelled n]: [n] is spelt the way [get_name_with_lag] spells what [n] parses to, i.e.
    [n = tident v k] for [parse n = Some (v, k)].  Every [Names.canonical] name is spelled; so
    is a name without a recognised suffix ('lag(n=1)' parses to itself at lag 0).  NOT spelled:
    'X lag(n=01)', 'X lag(n=1)\n', 'X lag(n=0)' (they parse to (X,-1), (X,-1), (X,0)). *)
Definition spelled (n : name) : bool :=
  match parse n with
  | Some (v, k) => name_eqb n (tident v k)
  | None => false
  end.

Definition spelled_names_b (g : graph) : bool := forallb (fun n => spelled (nid n)) (gnodes g).
Definition canonical_names_b (g : graph) : bool := forallb (fun n => canonical (nid n)) (gnodes g).

Definition spelled_names (g : graph) : Prop := forall n, In n (gnodes g) -> spelled (nid n) = true.
Definition canonical_names (g : graph) : Prop :=
  forall n, In n (gnodes g) -> canonical (nid n) = true.

(** The time lag of a node identifier as a total function (for [Queries.all_time_topo], whose
    [lag] argument is a function): the tag of the node, [0] for a name that is not a node (the
    theorems only ever evaluate it on nodes). *)
Definition lag_fn (g : graph) (id : name) : Z :=
  match node_lag g id with Some l => l | None => 0%Z end.

(** * Where node identifiers come from

    [op_ids parse fmt o]: every identifier the operation [o] can ADD to the node set (the names
    it is given, or the names [get_name_with_lag] builds for it).  BridgeProofs.run_within shows
    that a property of names that holds of all of them holds of every node of the reached
    state; so a hypothesis about the node names of a STATE (such as [spelled_names]) can be
    discharged from the INPUTS of the history. *)
Section OpIds.
  Variable parse : name -> option (name * Z).
  Variable fmt : name -> Z -> option name.

  Definition fmt_ids (v : name) (l : Z) : list name :=
    match fmt v l with Some id => [id] | None => [] end.

  (** the re-lagging form of replace_node *)
  Definition relag_ids (id : name) (lag : option Z) (var : option name) : list name :=
    match lag, var with
    | None, None => []
    | _, _ =>
        match parse id with
        | Some (dv, dl) =>
            fmt_ids (match var with Some x => x | None => dv end)
                    (match lag with Some x => x | None => dl end)
        | None => []
        end
    end.

  Definition op_ids (o : op) : list name :=
    match o with
    | OAddNode id _ _ | OAddNodeObj id _ _ => [id]
    | OAddNodeVL v l _ _ => fmt_ids v l
    | OAddNodesFrom ids => ids
    | OAddFullyConnected ins outs => ins ++ outs
    | ODeleteNode _ | ODeleteEdge _ _ _ | OChangeEdgeType _ _ _ => []
    | OReplaceNode id new_id lag var _ _ =>
        match new_id with Some x => [x] | None => relag_ids id lag var end
    | OAddEdge sp dp _ _ _ => [fst sp; fst dp]
    | OAddEdgesFrom pairs _ => flat_map (fun p => [fst p; snd p]) pairs
    | OAddPath path _ => path
    | OAddPaths paths => concat paths
    | OAddTimeEdge sv st dv dt _ _ => fmt_ids sv st ++ fmt_ids dv dt
    | OReplaceEdge _ _ s' d' _ _ => [s'; d']
    end.
End OpIds.

(** A sufficient, directly checkable condition on a call for the Names.v codec: identifiers are
    given in canonical spelling, variable names are good. *)
Definition op_canonical_b (o : op) : bool :=
  match o with
  | OAddNode id _ _ | OAddNodeObj id _ _ => canonical id
  | OAddNodeVL v _ _ _ => good v
  | OAddNodesFrom ids => forallb canonical ids
  | OAddFullyConnected ins outs => forallb canonical ins && forallb canonical outs
  | ODeleteNode _ | ODeleteEdge _ _ _ | OChangeEdgeType _ _ _ => true
  | OReplaceNode id new_id lag var _ _ =>
      match new_id with
      | Some x => canonical x
      | None =>
          match var with
          | Some v => good v
          | None => match lag with Some _ => canonical id | None => true end
          end
      end
  | OAddEdge sp dp _ _ _ => canonical (fst sp) && canonical (fst dp)
  | OAddEdgesFrom pairs _ => forallb (fun p => canonical (fst p) && canonical (snd p)) pairs
  | OAddPath path _ => forallb canonical path
  | OAddPaths paths => forallb (forallb canonical) paths
  | OAddTimeEdge sv _ dv _ _ _ => good sv && good dv
  | OReplaceEdge _ _ s' d' _ _ => canonical s' && canonical d'
  end.
