(** LagMatrix.v — executable model of the per-lag matrix conversions of
    [TimeSeriesCausalGraph] (/repo/cai_causal_graph/time_series_causal_graph.py):

      [to_numpy_by_lag]            to_numpy_by_lag()  (= (adjacency_matrices, minimal.variables))
      [from_adjacency_matrix_ts]   TimeSeriesCausalGraph.from_adjacency_matrix(full, node_names, validate)
      [from_adjacency_matrices]    TimeSeriesCausalGraph.from_adjacency_matrices(d, names,
                                                                construct_minimal, validate)

    DEFINITIONS ONLY (proofs: LagMatrixProofs.v; harness entry points: CorrLagMatrix.v).

    Level: the template level of TSGraph.v ([tsg]: nodes are keys (variable, lag)).  The
    [adjacency_matrices] property itself is [TSGraph.adj_matrices] (keys in first-seen order of the
    source lags of the minimal graph's edges taken in [get_edges()] order).

    Data:  a numpy 2-D array is a [matrix] = list of rows of booleans, the boolean being
    "the entry is non-zero" (the only thing [numpy.where] looks at; what the library writes is
    0./1.).  [[]] is the 0 x 0 array.  A dict [time delta -> array] is a [lagdict]: an
    association list in INSERTION order ([dict_of] gives a list of pairs the meaning of
    [dict(pairs)], so a duplicated key keeps its first position and its last value).
    Outside the model: keys that are not Python ints (the asserts reject str / float / numpy
    integer keys; [True]/[False] pass the assert and are not modelled), arrays that are not 2-D,
    ragged rows (not an ndarray: the model answers [Err EType], which the library never raises
    in these functions).

    What the Python code does, statement by statement (from_adjacency_matrices):
      1. asserts; [len(set(shapes)) == 1]  -> AssertionError on an EMPTY dict or differing shapes;
      2. [shape = shapes[0]]; only [shape[0]] (the number of ROWS) is used afterwards, so r x c
         arrays with c < r are accepted silently and arrays with c > r raise IndexError only if
         a non-zero entry sits in a column >= r;
      3. key 0 absent: a copy of the dict gets an all-zero [0] entry APPENDED (last key);
      4. [variable_names]: length must be [shape[0]] (AssertionError); [None]: 'node_0', ...;
      5. node names, variable-major then in key order of the dict:
         [get_name_with_lag(str(v), time_delta)] ([Names.fmt]; ValueError if [v] is empty or has
         two markers; a lag already present in [v] is dropped);
      6. [time_delta_to_index], the full (r*T) x (r*T) matrix, filled by
         [for td, a in d.items(): for row, col in zip( *numpy.where(a)): full[idx[td] + T*row,
         idx[0] + T*col] = 1]   (row-major order of [numpy.where]);
      7. [cls.from_adjacency_matrix(full, node_names, validate)] (see [from_adjacency_matrix_ts]);
      8. [construct_minimal]: [get_minimal_graph()] ([TSGraph.minimal]). *)
From CG Require Import Base Dec Digraph Names TSGraph.
Set Implicit Arguments.
Local Open Scope Z_scope.

Definition lagdict := list (Z * matrix).

(** * to_numpy_by_lag

    [adjacency_matrices = self.adjacency_matrices; graph = self.get_minimal_graph();
     return adjacency_matrices, graph.variables].  ([graph.variables] is never [None].) *)
Definition to_numpy_by_lag (g : tsg) : res (lagdict * list name) :=
  match adj_matrices g with
  | Err e => Err e
  | Ok d =>
      match minimal g with
      | Ok m => Ok (d, variables m)
      | Err e => Err e
      end
  end.

(** * Arrays *)

(** [a[i, j]]; [None] = IndexError. *)
Definition entry (mx : matrix) (i j : nat) : option bool :=
  match nth_error mx i with
  | Some r => nth_error r j
  | None => None
  end.

(** [a[i, j] = 1]; [None] = IndexError. *)
Definition mset (i j : nat) (mx : matrix) : option matrix :=
  match entry mx i j with
  | Some _ => Some (set_cell i j mx)
  | None => None
  end.

(** [zip( *numpy.where(a))]: the positions of the non-zero entries in row-major order. *)
Fixpoint row_hits (j : nat) (r : list bool) : list nat :=
  match r with
  | [] => []
  | b :: r' => if b then j :: row_hits (S j) r' else row_hits (S j) r'
  end.
Fixpoint hits_from (i : nat) (mx : matrix) : list (nat * nat) :=
  match mx with
  | [] => []
  | r :: mx' => map (fun j => (i, j)) (row_hits O r) ++ hits_from (S i) mx'
  end.
Definition hits (mx : matrix) : list (nat * nat) := hits_from O mx.

(** [a.shape] of a 2-D array given as a list of rows; [None]: ragged (not an ndarray). *)
Definition shape (mx : matrix) : option (nat * nat) :=
  match mx with
  | [] => Some (O, O)
  | r :: rs =>
      if forallb (fun r' => Nat.eqb (length r') (length r)) rs
      then Some (length mx, length r) else None
  end.
Definition shape_eqb (a b : nat * nat) : bool :=
  Nat.eqb (fst a) (fst b) && Nat.eqb (snd a) (snd b).

Fixpoint shapes (d : lagdict) : option (list (nat * nat)) :=
  match d with
  | [] => Some []
  | (_, mx) :: d' =>
      match shape mx, shapes d' with
      | Some s, Some l => Some (s :: l)
      | _, _ => None
      end
  end.

(** * Dicts in insertion order *)

(** [d[k] = mx] *)
Fixpoint dict_set (k : Z) (mx : matrix) (d : lagdict) : lagdict :=
  match d with
  | [] => [(k, mx)]
  | (k', mx') :: d' => if k =? k' then (k', mx) :: d' else (k', mx') :: dict_set k mx d'
  end.
(** [dict(pairs)] *)
Definition dict_of (l : lagdict) : lagdict :=
  fold_left (fun d p => dict_set (fst p) (snd p) d) l [].

Definition has_key (k : Z) (d : lagdict) : bool := existsb (fun p => fst p =? k) d.

(** [{td: i for i, td in enumerate(d)}[k]]; [None] = KeyError. *)
Fixpoint zindex (k : Z) (l : list Z) : option nat :=
  match l with
  | [] => None
  | x :: l' => if k =? x then Some O
               else match zindex k l' with Some i => Some (S i) | None => None end
  end.

(** * Names *)

(** "node_" *)
Definition node_prefix : name := [110; 111; 100; 101; 95]%N.
(** [[f'node_{i}' for i in range(n)]] *)
Definition default_var_names (n : nat) : list name :=
  map (fun i => node_prefix ++ dec_N (N.of_nat i)) (seq 0 n).

Fixpoint collect (A B : Type) (f : A -> option B) (l : list A) : option (list B) :=
  match l with
  | [] => Some []
  | a :: l' =>
      match f a, collect f l' with
      | Some b, Some r => Some (b :: r)
      | _, _ => None
      end
  end.

(** [for variable_name in variable_names_str: for time_delta in adjacency_matrices:
       node_names.append(get_name_with_lag(str(variable_name), time_delta))];
    [None]: some [get_name_with_lag] raised ValueError. *)
Definition var_lag_pairs (vars : list name) (ks : list Z) : list (name * Z) :=
  flat_map (fun v => map (fun k => (v, k)) ks) vars.
Definition node_names (vars : list name) (ks : list Z) : option (list name) :=
  collect (fun vk => fmt (fst vk) (snd vk)) (var_lag_pairs vars ks).

(** * The full matrix *)

(** [adjacency_matrix_full[idx[td] + T*row, idx[0] + T*col] = 1] *)
Definition fill_step (T i0 ti : nat) (full : matrix) (p : nat * nat) : res matrix :=
  match mset (ti + T * fst p) (i0 + T * snd p) full with
  | Some f => Ok f
  | None => Err EIndex
  end.
(** the body of [for time_delta, adjacency_matrix in adjacency_matrices.items()] *)
Definition fill_lag (ks : list Z) (T i0 : nat) (full : matrix) (kv : Z * matrix) : res matrix :=
  match zindex (fst kv) ks with
  | Some ti => rfold (fill_step T i0 ti) (hits (snd kv)) full
  | None => Err EKey      (* unreachable: [ks] are the keys of the dict being iterated *)
  end.

(** * TimeSeriesCausalGraph.from_adjacency_matrix (causal_graph.py, with [cls] the time-series
      class), on a boolean matrix and an explicit list of node names.

    [graph = cls(); graph.add_nodes_from(nodes)]: each name goes through
    [TimeSeriesNode(identifier=name)] (ValueError if the name does not parse) and then
    [CausalGraph.add_node] (NodeDuplicatedError if the identifier STRING is already present).
    The template level identifies a node with its key (variable, lag) = [parse name]; two
    different strings with the same key cannot be represented and are answered [Err EKey]
    (never the case for names produced by [get_name_with_lag]: LagMatrixProofs shows it for
    good variable names).  New nodes: variable type UNSPECIFIED, no user metadata. *)
Definition mk_node (k : key) : tnode :=
  {| tv := fst k; tl := snd k; tvt := VUnspec; tm := [] |}.

Definition add_named (st : list name * tsg) (s : name) : res (list name * tsg) :=
  match parse s with
  | None => Err EValue
  | Some k =>
      if mem s (fst st) then Err ENodeDup
      else if node_exists (snd st) k then Err EKey
      else Ok (fst st ++ [s], add_node (snd st) (mk_node k))
  end.

(** [itertools.combinations(range(n), 2)] *)
Definition pairs (n : nat) : list (nat * nat) :=
  flat_map (fun i => map (fun j => (i, j)) (seq (S i) (n - S i))) (seq 0 n).

(** one iteration of [for i, j in itertools.combinations(range(len(nodes)), 2)]; the edges are
    added with [validate=False] and no metadata through the time-series [add_edge]
    ([TSGraph.add_edge]: a directed edge from a later to an earlier node is a ValueError, an
    undirected one is stored earlier -> later). *)
Definition edge_step (full : matrix) (nodes : list tnode) (g : tsg) (p : nat * nat) : res tsg :=
  match entry full (fst p) (snd p), entry full (snd p) (fst p),
        nth_error nodes (fst p), nth_error nodes (snd p) with
  | Some x, Some y, Some ni, Some nj =>
      if x && negb y then add_edge g ni nj Dir []
      else if negb x && y then add_edge g nj ni Dir []
      else if x && y then add_edge g ni nj Und []
      else Ok g
  | _, _, _, _ => Err EIndex
  end.

(** The graph of the DIRECTED edges: what [_assert_node_does_not_depend_on_itself] walks
    ([get_inbound_edges()] lists directed edges only).  The check raises for a node exactly when
    the node is reachable from itself along at least one inbound edge, i.e. lies on a directed
    cycle; run over every node it raises (CyclicConnectionError) iff that graph has a cycle. *)
Definition dir_digraph (g : tsg) : digraph key :=
  {| verts := map nkey (tnodes g);
     arcs := map ekey (filter (fun e => etype_eqb (ety e) Dir) (tedges g)) |}.

Definition is_square (a : matrix) : bool :=
  forallb (fun r => Nat.eqb (length r) (length a)) a.

Definition from_adjacency_matrix_ts (full : matrix) (names : list name) (validate : bool)
  : res tsg :=
  if negb (is_square full) then Err EInvalidAdj
  else if negb (Nat.eqb (length names) (length full)) then Err EAssert
  else
    match rfold add_named names ([], empty_tsg []) with
    | Err e => Err e
    | Ok (_, g0) =>
        match rfold (edge_step full (tnodes g0)) (pairs (length names)) g0 with
        | Err e => Err e
        | Ok g1 =>
            if validate then
              if acyclicb key_eqb (dir_digraph g1) then Ok g1 else Err ECyclic
            else Ok g1
        end
    end.

(** * from_adjacency_matrices *)

Definition from_adjacency_matrices (d0 : lagdict) (names : option (list name))
  (construct_minimal validate : bool) : res tsg :=
  let d := dict_of d0 in
  match shapes d with
  | None => Err EType                       (* ragged rows: outside the model *)
  | Some [] => Err EAssert                  (* len(set(shapes)) == 0 *)
  | Some (sh :: shs) =>
      if negb (forallb (shape_eqb sh) shs) then Err EAssert
      else
        let r := fst sh in
        let d1 := if has_key 0 d then d else d ++ [(0, zeros r)] in
        let vars_r : res (list name) :=
          match names with
          | Some l => if Nat.eqb (length l) r then Ok l else Err EAssert
          | None => Ok (default_var_names r)
          end in
        match vars_r with
        | Err e => Err e
        | Ok vars =>
            let ks := map fst d1 in
            let T := length d1 in
            match node_names vars ks with
            | None => Err EValue
            | Some nn =>
                match zindex 0 ks with
                | None => Err EKey            (* unreachable: key 0 was added *)
                | Some i0 =>
                    match rfold (fill_lag ks T i0) d1 (zeros (r * T)) with
                    | Err e => Err e
                    | Ok full =>
                        match from_adjacency_matrix_ts full nn validate with
                        | Err e => Err e
                        | Ok g => if construct_minimal then minimal g else Ok g
                        end
                    end
                end
            end
        end
  end.

(** [TimeSeriesCausalGraph.from_adjacency_matrices( *g.to_numpy_by_lag())] (defaults:
    construct_minimal=True, validate=True). *)
Definition lag_roundtrip (validate : bool) (g : tsg) : res tsg :=
  match to_numpy_by_lag g with
  | Err e => Err e
  | Ok (d, vars) => from_adjacency_matrices d (Some vars) true validate
  end.

(** * Deciders for the hypotheses and conclusions of the round-trip theorem *)

(** every variable name is non-empty and marker free ([Names.good]) *)
Definition good_vars_b (g : tsg) : bool := forallb (fun n => good (tv n)) (tnodes g).

(** only directed edges and CONTEMPORANEOUS undirected edges *)
Definition dir_or_und0_b (g : tsg) : bool :=
  forallb (fun e => etype_eqb (ety e) Dir || (etype_eqb (ety e) Und && (delta e =? 0)))
          (tedges g).

(** [g] has an edge from [s] to [d] of type [ty], or, for an undirected type, from [d] to [s] *)
Definition has_edge_b (g : tsg) (s d : key) (ty : etype) : bool :=
  existsb (fun e => key_eqb (esrc e) s && key_eqb (edst e) d && etype_eqb (ety e) ty) (tedges g).
Definition has_uedge_b (g : tsg) (s d : key) (ty : etype) : bool :=
  has_edge_b g s d ty || (etype_eqb ty Und && has_edge_b g d s ty).

(** same node keys; same edges with orientation and type (undirected edges up to orientation) *)
Definition same_shape_b (a b : tsg) : bool :=
  forallb (fun n => node_exists b (nkey n)) (tnodes a)
  && forallb (fun n => node_exists a (nkey n)) (tnodes b)
  && forallb (fun e => has_uedge_b b (esrc e) (edst e) (ety e)) (tedges a)
  && forallb (fun e => has_uedge_b a (esrc e) (edst e) (ety e)) (tedges b).
