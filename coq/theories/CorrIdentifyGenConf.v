(** CorrIdentifyGenConf.v — harness entry points for [identify_confounders] (property C18): the
    function GENERATED in IdentifyGenConf.v evaluated on a DAG over [0 .. n-1]; conventions in
    CorrIdentifyGen.v (DEFINITIONS ONLY, plus pinned examples). *)
From CG Require Import Base Digraph PyRt CorrIdentifyGen IdentifyGenConf.
Set Implicit Arguments.

(** [identify_confounders(graph, x, y)] *)
Definition cigo_confounders (ord : pyorder) (n : nat) (arcs : list (nat * nat)) (x y : nat)
  : pyout (list nat) :=
  cig_sorted (gen_identify_confounders Nat.eqb (cig_none n) (cig_empty_str n) ord (cig_fuel n)
                (cig_graph n arcs) x y).
Definition cig_confounders := cigo_confounders pyorder_id.
Definition cig_confounders_tokens (n : nat) (arcs : list (nat * nat)) (x y : nat) : list nat :=
  cig_tokens (cig_confounders n arcs x y).

(** * Pinned examples (every right-hand side was obtained from the real library) *)

(** docstring of [identify_confounders]: z=0 u=1 x=2 y=3 *)
Example cig_ex_conf : cig_confounders 4 [(0, 1); (1, 2); (1, 3); (2, 3)] 2 3 = Ret [1].
Proof. vm_compute. reflexivity. Qed.
(** equal nodes: ValueError; unknown node: NodeDoesNotExistError *)
Example cig_ex_conf_errors :
  cig_confounders 2 [(0, 1)] 1 1 = Exc PyValueError /\
  cig_confounders 2 [(0, 1)] 0 5 = Exc PyNodeDoesNotExistError.
Proof. vm_compute. split; reflexivity. Qed.
(** the other concrete iteration order (reversed at the odd observation sites) *)
Example cig_ex_conf_other_order :
  cigo_confounders pyorder_alt 4 [(0, 1); (1, 2); (1, 3); (2, 3)] 2 3 = Ret [1].
Proof. vm_compute. reflexivity. Qed.

(** the regression cases of CorrIdentifyGen.v, both iteration orders *)
Definition cig_check_dag_conf (ord : pyorder)
    (c : nat * list (nat * nat) * nat * nat * nat
         * (pyout (list nat) * pyout (list nat) * pyout (list nat)) * pyout (list nat)) : bool :=
  let '(n, arcs, x, y, mx, (ec, ei, em), emb) := c in
  cig_out_eqb (cigo_confounders ord n arcs x y) ec.
Example cig_regression_conf_ok :
  forallb (cig_check_dag_conf pyorder_id) cig_regression_dags = true /\
  forallb (cig_check_dag_conf pyorder_alt) cig_regression_dags = true.
Proof. vm_compute. split; reflexivity. Qed.
