(** TraversalGenQProofs.v — the functions GENERATED from [CausalGraph.get_nodes_between] (with the nested
    [_has_causal_path_inner]) and [CausalGraph.directed_path_exists] (TraversalGenQ.v, tools/translate_traversal.py)
    equal the hand-written models of Queries.v, for ALL inputs.  This file depends on TraversalGenQ.v only (not on
    TraversalGenCyc.v).

    - [gen_inner_sim]: the memoised recursion simulates [nb_inner] for every graph, fuel and cache (no hypothesis;
      the generated dictionary is in insertion order, the hand cache newest first: [seen_rel]);
      [gen_nodes_between_equiv]: on a DAG, with fuel [> |V|], generated [get_nodes_between] and the hand model
      [nodes_between] both terminate and return the same SET; [gen_nodes_between_correct]:
      [nodes_between_correct] transferred; [gen_nodes_between_not_dag].
    - [gen_directed_path_exists_equiv]: for every fuel, generated [directed_path_exists] = hand model [dpe]
      (well-formed graph, both nodes present); [gen_directed_path_exists_correct], [.._missing].
    The proofs never quote the generated loop bodies (they are picked out of the goal). *)
From Coq Require Import Relations.Relation_Operators.
From CG Require Import Base Digraph DigraphProofs Queries QueriesProofs Markov PyRt PyRtLoop TraversalGenLemmas
  TraversalGenQ.
Set Implicit Arguments.

Section TraversalGenQProofs.
  Variable A : Type.
  Variable eqb : A -> A -> bool.
  Hypothesis eqb_spec : forall x y, reflect (x = y) (eqb x y).

  Local Notation memb_in := (memb_in eqb eqb_spec).
  Local Notation children_in := (children_in eqb eqb_spec).
  Local Notation parents_in := (parents_in eqb eqb_spec).
  Local Notation pgd_inbound_sources := (@pgd_inbound_sources A eqb).
  Local Notation pgd_outbound_destinations := (@pgd_outbound_destinations A eqb).
  Local Notation pgd_get_node := (@pgd_get_node A eqb eqb_spec).
  Local Notation memb_rev := (@memb_rev A eqb eqb_spec).
  Local Notation seen_rel := (@seen_rel A eqb).
  Local Notation seen_rel_set := (@seen_rel_set A eqb eqb_spec).
  Local Notation pgd_outbound_children := (@pgd_outbound_children A eqb).
  Local Notation pgd_is_sink := (@pgd_is_sink A eqb).
  Local Notation dict_get_in := (@dict_get_in A eqb eqb_spec).
  Local Notation lookupb_dict_get := (@lookupb_dict_get A eqb).
  Local Notation py_set_add_in := (@py_set_add_in A eqb eqb_spec).
  Local Notation py_set_add_nodup := (@py_set_add_nodup A eqb eqb_spec).

  Theorem gen_directed_path_exists_equiv (g : digraph A) :
    wf g -> forall fuel a b, In a (verts g) -> In b (verts g) ->
    gen_directed_path_exists eqb fuel (pg_of_digraph eqb g) a b
    = ob_out (directed_path_exists eqb fuel g a b).
  Proof.
    intros Hwf. unfold directed_path_exists.
    induction fuel as [|f IH]; intros a b Ha Hb; [reflexivity|].
    cbn [gen_directed_path_exists dpe].
    assert (Hall : forallb (fun v_node : A => memb eqb v_node (py_pg_get_node_names (pg_of_digraph eqb g))) [a; b] = true).
    { cbn [forallb]. unfold py_pg_get_node_names, pg_of_digraph; cbn [pg_node_names].
      rewrite (proj2 (memb_in a (verts g)) Ha), (proj2 (memb_in b (verts g)) Hb). reflexivity. }
    rewrite Hall, (pgd_get_node g a Ha). cbn [py_bind]. rewrite pgd_outbound_destinations.
    destruct (memb eqb b (children eqb g a)); [reflexivity|].
    assert (Hcs : forall c, In c (children eqb g a) -> In c (verts g)).
    { intros c Hc. apply children_in in Hc. apply (proj2 Hwf a c Hc). }
    revert Hcs. generalize (children eqb g a) as cs.
    induction cs as [|c cs IHcs]; intros Hcs; [reflexivity|].
    cbn [py_for dpe_children]. rewrite (IH c b (Hcs c (or_introl eq_refl)) Hb).
    destruct (dpe eqb f g b c) as [[|]|]; cbn [ob_out py_bind py_in py_top]; try reflexivity.
    apply IHcs. intros c' Hc'. apply Hcs. right; exact Hc'.
  Qed.

  Definition inner_sim (g : digraph A) (b : A) (fuel : nat) : Prop :=
    forall seen d x, seen_rel seen d ->
      match nb_inner eqb fuel g b seen x with
      | None => gen_get_nodes_between__has_causal_path_inner eqb fuel (pg_of_digraph eqb g) d x b = Fuel
      | Some (r, seen') =>
          exists d', gen_get_nodes_between__has_causal_path_inner eqb fuel (pg_of_digraph eqb g) d x b = Ret (d', r)
                     /\ seen_rel seen' d'
      end.

  Lemma gen_inner_sim (g : digraph A) (b : A) : forall fuel, inner_sim g b fuel.
  Proof.
    induction fuel as [|f IH]; intros seen d x Hrel; [reflexivity|].
    cbn [nb_inner gen_get_nodes_between__has_causal_path_inner].
    unfold py_node_identifier, py_dict_contains, py_dict_getitem.
    destruct Hrel as [Hnd Hget]. rewrite <- (Hget x).
    destruct (lookupb eqb x seen) as [r|] eqn:El.
    - cbn [py_bind py_top]. exists d. split; [reflexivity|split; assumption].
    - destruct (eqb x b).
      + eexists. split; [reflexivity|]. apply seen_rel_set. split; assumption.
      + rewrite pgd_is_sink, pgd_outbound_children.
        destruct (children eqb g x) as [|c0 cs0] eqn:Ec.
        * eexists. split; [reflexivity|]. apply seen_rel_set. split; assumption.
        * match goal with |- context [py_for py_top _ _ ?bd ?k] => set (body := bd); set (kk := k) end.
          assert (Hloop : forall cs acc dd sn any, seen_rel sn dd -> any = py_any acc ->
                    match nb_children (nb_inner eqb f g b) cs sn any with
                    | None => py_for py_top cs (acc, dd) body kk = Fuel
                    | Some (has, sn') =>
                        exists acc' d', py_for py_top cs (acc, dd) body kk = kk (acc', d')
                                        /\ seen_rel sn' d' /\ has = py_any acc'
                    end).
          { induction cs as [|c cs IHcs]; intros acc dd sn any Hr Hany; cbn [nb_children py_for].
            - exists acc, dd. split; [reflexivity|]. split; assumption.
            - assert (Hb : body c (acc, dd)
                           = py_bind py_in
                               (gen_get_nodes_between__has_causal_path_inner eqb f (pg_of_digraph eqb g) dd c b)
                               (fun '(d0, t) => Cont (py_list_append acc t, d0))) by reflexivity.
              rewrite Hb. clear Hb. pose proof (IH sn dd c Hr) as Hc.
              destruct (nb_inner eqb f g b sn c) as [[r1 sn1]|].
              + destruct Hc as (d1 & E1 & Hr1). rewrite E1. cbn [py_bind].
                apply IHcs; [exact Hr1|]. unfold py_list_append. rewrite py_any_app, Hany. reflexivity.
              + rewrite Hc. reflexivity. }
          specialize (Hloop (c0 :: cs0) py_list_empty d seen false (conj Hnd Hget) eq_refl).
          destruct (nb_children (nb_inner eqb f g b) (c0 :: cs0) seen false) as [[has sn']|].
          -- destruct Hloop as (acc' & d' & E & Hr' & Hhas). rewrite E. subst kk. cbv beta iota.
             unfold py_top. rewrite <- Hhas. eexists. split; [reflexivity|]. apply seen_rel_set, Hr'.
          -- exact Hloop.
  Qed.

  Theorem gen_nodes_between_equiv (g : digraph A) a b fuel :
    wf g -> acyclic g -> In a (verts g) -> In b (verts g) -> fuel > length (verts g) ->
    exists S S', nodes_between eqb fuel g a b = Some S /\
                 gen_get_nodes_between eqb fuel (pg_of_digraph eqb g) a b = Ret S' /\
                 (forall v, In v S' <-> In v S) /\ NoDup S'.
  Proof.
    intros Hwf Hac Ha Hb Hfuel.
    destruct (@nodes_between_correct_fuel A eqb eqb_spec g a b fuel Hwf Hac Hfuel) as (S & ES & HS & _ & _).
    exists S. pose proof ES as ES0. unfold nodes_between in ES. unfold gen_get_nodes_between. cbv zeta.
    assert (Hdag : py_pg_is_dag (pg_of_digraph eqb g) = true).
    { unfold py_pg_is_dag, pg_of_digraph; cbn [pg_is_dag]. apply (acyclicb_spec eqb eqb_spec Hwf), Hac. }
    rewrite Hdag, (pgd_get_node g a Ha), (pgd_get_node g b Hb). cbn [py_bind].
    assert (Hok0 : seen_ok g b (@nil (A * bool))).
    { split; [constructor|]. split; [intros x r0 []|intros x c []]. }
    assert (Hlt : length (desc eqb g a) < fuel).
    { pose proof (@desc_length_le _ eqb eqb_spec g a Hwf) as Hle. lia. }
    destruct (@nb_inner_spec A eqb eqb_spec g b Hwf Hac fuel a Hlt [] Hok0) as (r & seen & E & _ & Hpost).
    destruct Hpost as ((Hnds & _ & _) & _).
    pose proof (@gen_inner_sim g b fuel [] py_dict_empty a (conj (@NoDup_nil A) (fun x => eq_refl))) as Hsim.
    rewrite E in Hsim, ES. destruct Hsim as (d' & Ed & Hndd & Hget). rewrite Ed. cbn [py_bind].
    assert (Hseen : forall v, In (v, true) seen <-> In (v, true) d').
    { intros v. rewrite <- (dict_get_in d' v true Hndd), <- Hget, lookupb_dict_get.
      symmetry. apply dict_get_in. exact Hnds. }
    destruct r; cbn [negb].
    - inversion ES as [ES']. clear ES. subst S.
      assert (HinS : forall v, In v (map fst (filter snd seen)) <-> In (v, true) seen).
      { intros v. rewrite in_map_iff. split.
        - intros ([v' r'] & Ev & Hf). cbn in Ev; subst v'. apply filter_In in Hf.
          destruct Hf as [Hin Hr']. cbn in Hr'; subst r'. exact Hin.
        - intros Hin. exists (v, true). split; [reflexivity|]. apply filter_In. split; [exact Hin|reflexivity]. }
      unfold py_dict_items, py_top.
      match goal with |- context [py_for _ _ _ ?bd ?k] => set (body := bd); set (kk := k) end.
      assert (Hcollect : forall items acc, (forall v, In (v, true) items -> In v (verts g)) ->
                exists S', py_for (fun o : pyout (list A) => o) items acc body kk = Ret S' /\
                           (forall v, In v S' <-> In v acc \/ In (v, true) items) /\
                           (NoDup acc -> NoDup S')).
      { induction items as [|[v hp] items IHi]; intros acc Hv; cbn [py_for].
        - exists acc. split; [reflexivity|]. split; [|intros H; exact H].
          intros v. split; [intros H; left; exact H|intros [H|[]]; exact H].
        - destruct hp.
          + assert (Hb' : body (v, true) acc = Cont (py_set_add eqb acc v)).
            { subst body. cbv beta iota. rewrite (pgd_get_node g v (Hv v (or_introl eq_refl))). reflexivity. }
            rewrite Hb'. destruct (IHi (py_set_add eqb acc v)) as (S' & ES1 & Hin1 & Hnd1).
            { intros w Hw. apply Hv. right; exact Hw. }
            exists S'. split; [exact ES1|]. split.
            * intros w. rewrite Hin1, py_set_add_in. cbn [In]. split.
              -- intros [[H|H]|H]; [left; exact H|right; left; subst w; reflexivity|right; right; exact H].
              -- intros [H|[H|H]]; [left; left; exact H|left; right; inversion H; reflexivity|right; exact H].
            * intros Hnd. apply Hnd1, py_set_add_nodup, Hnd.
          + assert (Hb' : body (v, false) acc = Cont acc) by reflexivity.
            rewrite Hb'. destruct (IHi acc) as (S' & ES1 & Hin1 & Hnd1).
            { intros w Hw. apply Hv. right; exact Hw. }
            exists S'. split; [exact ES1|]. split; [|exact Hnd1].
            intros w. rewrite Hin1. cbn [In]. split.
            * intros [H|H]; [left; exact H|right; right; exact H].
            * intros [H|[H|H]]; [left; exact H|discriminate H|right; exact H]. }
      destruct (Hcollect d' py_set_empty) as (S' & ES1 & Hin1 & Hnd1).
      { intros v Hv. apply Hseen, HinS in Hv. apply HS in Hv.
        destruct Hv as [[->|Hp] _]; [exact Ha|]. apply (path_in_verts Hwf Hp). }
      exists S'. split; [exact ES0|]. split; [exact ES1|]. split; [|apply Hnd1; constructor].
      intros v. rewrite Hin1, HinS, Hseen. cbn [py_set_empty In]. tauto.
    - inversion ES as [ES']. subst S. exists py_set_empty. split; [exact ES0|]. split; [reflexivity|].
      split; [reflexivity|constructor].
  Qed.

  (** [get_nodes_between] on a DAG: exactly the nodes on directed paths from [a] to [b] (endpoints
      included), the empty set when there is none ([nodes_between_correct] transferred). *)
  Corollary gen_nodes_between_correct (g : digraph A) a b fuel :
    wf g -> acyclic g -> In a (verts g) -> In b (verts g) -> fuel > length (verts g) ->
    exists S', gen_get_nodes_between eqb fuel (pg_of_digraph eqb g) a b = Ret S' /\
      (forall v, In v S' <-> ((v = a \/ path g a v) /\ (v = b \/ path g v b))) /\
      (~ (a = b \/ path g a b) -> S' = []) /\ NoDup S'.
  Proof.
    intros Hwf Hac Ha Hb Hfuel.
    destruct (@gen_nodes_between_equiv g a b fuel Hwf Hac Ha Hb Hfuel) as (S & S' & ES & ES' & Hin & Hnd).
    destruct (@nodes_between_correct_fuel A eqb eqb_spec g a b fuel Hwf Hac Hfuel) as (S0 & ES0 & HS & Hemp & _).
    rewrite ES in ES0. inversion ES0; subst S0.
    exists S'. split; [exact ES'|]. split; [intros v; rewrite Hin; apply HS|]. split; [|exact Hnd].
    intros Hn. specialize (Hemp Hn). subst S. destruct S' as [|x S']; [reflexivity|].
    exfalso. apply (proj1 (Hin x)). left; reflexivity.
  Qed.

  (** [get_nodes_between] on a graph that is not a DAG raises AssertionError (whatever the fuel) *)
  Lemma gen_nodes_between_not_dag (pg : pygraph A) a b fuel :
    pg_is_dag pg = false -> gen_get_nodes_between eqb fuel pg a b = Exc PyAssertionError.
  Proof. intros H. unfold gen_get_nodes_between, py_pg_is_dag. rewrite H. reflexivity. Qed.

  (** [directed_path_exists] on an acyclic directed part: fuel [|V|] suffices and the answer is exact. *)
  Corollary gen_directed_path_exists_correct (g : digraph A) a b fuel :
    wf g -> acyclic g -> In a (verts g) -> In b (verts g) -> fuel >= length (verts g) ->
    exists r, gen_directed_path_exists eqb fuel (pg_of_digraph eqb g) a b = Ret r /\ (r = true <-> path g a b).
  Proof.
    intros Hwf Hac Ha Hb Hfuel. rewrite (gen_directed_path_exists_equiv Hwf fuel a b Ha Hb).
    destruct (@directed_path_exists_correct_fuel A eqb eqb_spec g a b fuel Hwf Hac Ha Hfuel) as (r & E & Hr).
    rewrite E. exists r. split; [reflexivity|exact Hr].
  Qed.

  (** a missing source or destination: the [assert all(..)] fails *)
  Lemma gen_directed_path_exists_missing (g : digraph A) a b fuel :
    ~ In a (verts g) \/ ~ In b (verts g) -> fuel >= 1 ->
    gen_directed_path_exists eqb fuel (pg_of_digraph eqb g) a b = Exc PyAssertionError.
  Proof.
    intros Hab Hfuel. destruct fuel as [|f]; [lia|]. cbn [gen_directed_path_exists forallb].
    unfold py_pg_get_node_names. cbn [pg_of_digraph pg_node_names].
    destruct Hab as [H|H]; rewrite (proj2 (memb_false eqb eqb_spec _ (verts g)) H).
    - reflexivity.
    - rewrite andb_false_r. cbn [andb]. destruct (memb eqb a (verts g)); reflexivity.
  Qed.
End TraversalGenQProofs.

(** * Non-vacuity and pinned values *)
Example gen_dpe_equiv_ex :
  gen_directed_path_exists Nat.eqb 6 (pg_of_digraph Nat.eqb qg) 5 4 = ob_out (Queries.directed_path_exists Nat.eqb 6 qg 5 4).
Proof. apply (gen_directed_path_exists_equiv Nat.eqb Nat.eqb_spec qg_wf); simpl; tauto. Qed.
Example gen_dpe_ex_value :
  gen_directed_path_exists Nat.eqb 6 (pg_of_digraph Nat.eqb qg) 5 4 = Ret true /\
  gen_directed_path_exists Nat.eqb 6 (pg_of_digraph Nat.eqb qg) 4 5 = Ret false /\
  gen_directed_path_exists Nat.eqb 6 (pg_of_digraph Nat.eqb qg) 5 9 = Exc PyAssertionError.
Proof. vm_compute. repeat split; reflexivity. Qed.
(** on a cyclic graph the Python recursion never returns; the generated code runs out of any fuel we try *)
Example gen_dpe_cyclic : gen_directed_path_exists Nat.eqb 200 (pg_of_digraph Nat.eqb qc) 0 3 = Fuel.
Proof. vm_compute. reflexivity. Qed.

Example gen_nodes_between_equiv_ex :
  exists S S', Queries.nodes_between Nat.eqb 7 qg 5 4 = Some S /\
               gen_get_nodes_between Nat.eqb 7 (pg_of_digraph Nat.eqb qg) 5 4 = Ret S' /\
               (forall v, In v S' <-> In v S) /\ NoDup S'.
Proof. apply (gen_nodes_between_equiv Nat.eqb Nat.eqb_spec 5 4 qg_wf qg_acyclic); simpl; try tauto; lia. Qed.
(** the hand model lists its cache newest first, the generated code in insertion order *)
Example gen_nodes_between_ex_value :
  Queries.nodes_between Nat.eqb 7 qg 5 4 = Some [5; 2; 3; 4] /\
  gen_get_nodes_between Nat.eqb 7 (pg_of_digraph Nat.eqb qg) 5 4 = Ret [4; 3; 2; 5] /\
  gen_get_nodes_between Nat.eqb 7 (pg_of_digraph Nat.eqb qg) 4 0 = Ret [] /\
  gen_get_nodes_between Nat.eqb 3 (pg_of_digraph Nat.eqb qg) 0 4 = Fuel /\
  gen_get_nodes_between Nat.eqb 7 (pg_of_digraph Nat.eqb qc) 0 4 = Exc PyAssertionError /\
  gen_get_nodes_between Nat.eqb 7 (pg_of_digraph Nat.eqb qg) 9 4 = Exc PyKeyError.
Proof. vm_compute. repeat split; reflexivity. Qed.

Print Assumptions gen_inner_sim.
Print Assumptions gen_nodes_between_equiv.
Print Assumptions gen_nodes_between_correct.
Print Assumptions gen_directed_path_exists_equiv.
Print Assumptions gen_directed_path_exists_correct.
Print Assumptions gen_directed_path_exists_missing.
