(** PyRtLoop.v — the additional runtime targeted by /verif/tools/translate_traversal.py
    (DEFINITIONS and pinned [Example]s only; PyRt.v is the base runtime, whose conventions apply:
    [pyout] / [Ret] / [Exc] / [Fuel], [pyctl], [py_bind], [py_for], [py_top] / [py_in]).

    The translator reads three traversal methods of class [CausalGraph]
    (cai_causal_graph/causal_graph.py) with the Python [ast] module and writes, independently of each other,
      TraversalGenCyc.v  _assert_node_does_not_depend_on_itself
      TraversalGenQ.v    get_nodes_between (+ the nested _has_causal_path_inner) and directed_path_exists.

    ** Conventions (in addition to those of PyRt.v)
    - A node identifier AND a [Node] object of the graph are both a value of [A] (a graph holds
      exactly one valid [Node] per identifier; [Node.__eq__] / [__hash__] look at the identifier only).
    - An [Edge] object is a [medge A] = (source, destination, edge type).
    - [self] (a [CausalGraph] with arbitrary edge types) is a [pygraph A]: exactly the data that
      the three methods read,
        pg_node_names       the keys of [self._nodes_by_identifier]
        pg_inbound  n       [n._inbound_edges]  = [n.get_inbound_edges()]   (a Python list, in order)
        pg_outbound n       [n._outbound_edges] = [n.get_outbound_edges()]
        pg_is_dag           [self.is_dag()]
      In the library only edges of type [->] are registered in the inbound / outbound lists
      (CausalGraph._set_edge), and [get_outbound_edges()] returns the list [_outbound_edges]
      itself: [pg_of_mgraph] builds the view of a graph given by nodes and typed edges in that
      way; [pg_of_digraph] is the view of a [digraph A] (all edges directed).
    - A Python [dict] is an association list in INSERTION order (oldest first); keys are
      identifiers.  [d[k] = v] on an existing key keeps the position of the key.
    - [while] loops and recursive functions take explicit fuel: one unit per evaluation of a
      [while] condition, one unit per (recursive) function entry; [Fuel] when it runs out.

    ** THE TRUSTED TABLE (rows added to the table of PyRt.v)
       while c: body                 |-> py_while inj fuel (fun s => c) s (fun s => body) (fun s => rest)
       l.pop()                       |-> py_bind inj (py_list_pop l) (fun '(l, x) => ..)   (the LAST element;
                                          Exc PyIndexError on an empty list)
       l.pop(0)                      |-> py_bind inj (py_list_pop0 l) (fun '(l, x) => ..)  (the FIRST element)
       [a, b]                        |-> [a; b]
       any(l) , all(l)  (l a list of booleans, fully built)
                                     |-> py_any l , py_all l
       any(p for x in xs) , all(p for x in xs)   (p without effects; also with a list comprehension)
                                     |-> existsb (fun x => p) xs , forallb (fun x => p) xs
       {} , dict()                   |-> py_dict_empty
       k in d , k not in d           |-> py_dict_contains eqb d k , negb (..)
       d[k]                          |-> py_dict_getitem eqb d k       (Exc PyKeyError if absent)
       d[k] = v                      |-> d := py_dict_setitem eqb d k v
       d.items()                     |-> py_dict_items d               (pairs in insertion order)
       len(d)                        |-> length d
       assert c [, msg]              |-> if c then .. else Exc PyAssertionError
       [f(x) for x in xs] , {f(x) for x in xs if c}  where f can raise / mutates captured state
                                     |-> acc = [] / set(); for x in xs: [if c:] acc.append / add (f(x))
                                          (every element is evaluated, left to right)
       a nested [def] that mutates a variable of the enclosing function
                                     |-> takes the variable as an extra parameter and returns
                                          (final value of the variable, result)
       -- CausalGraph (arbitrary edge types; [pygraph A]) ------------------------------------
       self._NodeCls.identifier_from(n) , Node.identifier_from(n)  |-> n
       self.get_node(n)              |-> py_pg_get_node eqb self n    (self._nodes_by_identifier[..]:
       self._nodes_by_identifier[n]  |-> py_pg_nodes_by_identifier_getitem eqb self n   Exc PyKeyError if absent)
       x in self.get_node_names()    |-> memb eqb x (py_pg_get_node_names self)  (membership only: the
                                          library returns the SORTED identifiers)
       self.node_exists(n)           |-> py_pg_node_exists eqb self n
       self.is_dag()                 |-> py_pg_is_dag self
       n.get_inbound_edges() , n._inbound_edges    |-> py_node_get_inbound_edges self n , py_node__inbound_edges self n
       n.get_outbound_edges() , n._outbound_edges  |-> py_node_get_outbound_edges self n , py_node__outbound_edges self n
       n.is_sink_node() , n.is_source_node()       |-> py_node_is_sink_node self n , py_node_is_source_node self n
       n.identifier                  |-> py_node_identifier n         (n itself)
       e.source , e.destination      |-> py_edge_source e , py_edge_destination e   (Node objects)
       n1 == n2 (nodes)              |-> eqb n1 n2 *)
From CG Require Import Base Digraph Markov PyRt.
Set Implicit Arguments.

(** * [while] *)
Fixpoint py_while {St R Res : Type} (inj : pyout R -> Res) (fuel : nat) (cond : St -> bool) (s : St)
         (body : St -> pyctl St R) (k : St -> Res) {struct fuel} : Res :=
  match fuel with
  | O => inj Fuel
  | S fuel' =>
      if cond s then
        match body s with
        | Cont s' => py_while inj fuel' cond s' body k
        | Brk s' => k s'
        | Done o => inj o
        end
      else k s
  end.

(** * Lists *)
Definition py_list_pop {X : Type} (l : list X) : pyout (list X * X) :=
  match rev l with
  | [] => Exc PyIndexError
  | x :: r => Ret (rev r, x)
  end.
Definition py_list_pop0 {X : Type} (l : list X) : pyout (list X * X) :=
  match l with
  | [] => Exc PyIndexError
  | x :: r => Ret (r, x)
  end.
Definition py_any (l : list bool) : bool := existsb (fun b => b) l.
Definition py_all (l : list bool) : bool := forallb (fun b => b) l.

(** * Dictionaries keyed by identifiers *)
Definition py_dict_empty {K V : Type} : list (K * V) := [].
Definition py_dict_items {K V : Type} (d : list (K * V)) : list (K * V) := d.

Section PyDict.
  Variable A : Type.
  Variable eqb : A -> A -> bool.
  Variable V : Type.

  Fixpoint py_dict_get (d : list (A * V)) (k : A) : option V :=
    match d with
    | [] => None
    | (k', v) :: d' => if eqb k k' then Some v else py_dict_get d' k
    end.
  Definition py_dict_contains (d : list (A * V)) (k : A) : bool :=
    match py_dict_get d k with Some _ => true | None => false end.
  Definition py_dict_getitem (d : list (A * V)) (k : A) : pyout V :=
    match py_dict_get d k with Some v => Ret v | None => Exc PyKeyError end.
  Fixpoint py_dict_setitem (d : list (A * V)) (k : A) (v : V) : list (A * V) :=
    match d with
    | [] => [(k, v)]
    | (k', v') :: d' => if eqb k k' then (k', v) :: d' else (k', v') :: py_dict_setitem d' k v
    end.
End PyDict.

(** * The graph as the traversal methods see it *)
Record pygraph (A : Type) : Type := {
  pg_node_names : list A;
  pg_inbound : A -> list (medge A);
  pg_outbound : A -> list (medge A);
  pg_is_dag : bool
}.

Section PyGraph.
  Variable A : Type.
  Variable eqb : A -> A -> bool.

  Definition py_pg_get_node (g : pygraph A) (n : A) : pyout A :=
    if memb eqb n (pg_node_names g) then Ret n else Exc PyKeyError.
  Definition py_pg_nodes_by_identifier_getitem (g : pygraph A) (n : A) : pyout A :=
    if memb eqb n (pg_node_names g) then Ret n else Exc PyKeyError.
  Definition py_pg_get_node_names (g : pygraph A) : list A := pg_node_names g.
  Definition py_pg_node_exists (g : pygraph A) (n : A) : bool := memb eqb n (pg_node_names g).
  Definition py_pg_is_dag (g : pygraph A) : bool := pg_is_dag g.
  Definition py_node_get_inbound_edges (g : pygraph A) (n : A) : list (medge A) := pg_inbound g n.
  Definition py_node__inbound_edges (g : pygraph A) (n : A) : list (medge A) := pg_inbound g n.
  Definition py_node_get_outbound_edges (g : pygraph A) (n : A) : list (medge A) := pg_outbound g n.
  Definition py_node__outbound_edges (g : pygraph A) (n : A) : list (medge A) := pg_outbound g n.
  Definition py_node_is_sink_node (g : pygraph A) (n : A) : bool := Nat.eqb (length (pg_outbound g n)) 0.
  Definition py_node_is_source_node (g : pygraph A) (n : A) : bool := Nat.eqb (length (pg_inbound g n)) 0.
  Definition py_node_identifier (n : A) : A := n.
  Definition py_edge_source (e : medge A) : A := msrc e.
  Definition py_edge_destination (e : medge A) : A := mdst e.

  (** ** The view of a graph given by its nodes and typed edges (both in insertion order). *)
  Definition pg_dir_in (es : list (medge A)) (x : A) : list (medge A) :=
    filter (fun e => etype_eqb (mty e) Dir && eqb (mdst e) x) es.
  Definition pg_dir_out (es : list (medge A)) (x : A) : list (medge A) :=
    filter (fun e => etype_eqb (mty e) Dir && eqb (msrc e) x) es.
  Definition mg_dir_digraph (m : mgraph A) : digraph A :=
    {| verts := mnodes m;
       arcs := map (fun e => (msrc e, mdst e)) (filter (fun e => etype_eqb (mty e) Dir) (medges m)) |}.
  (** [is_dag()]: every edge is directed and the directed graph is acyclic. *)
  Definition mg_is_dag (m : mgraph A) : bool :=
    forallb (fun e => etype_eqb (mty e) Dir) (medges m) && acyclicb eqb (mg_dir_digraph m).
  Definition pg_of_mgraph (m : mgraph A) : pygraph A :=
    {| pg_node_names := mnodes m;
       pg_inbound := pg_dir_in (medges m);
       pg_outbound := pg_dir_out (medges m);
       pg_is_dag := mg_is_dag m |}.

  (** ** The view of a [digraph] (every arc is a directed edge). *)
  Definition arc_edge (e : A * A) : medge A := (fst e, snd e, Dir).
  Definition pg_of_digraph (g : digraph A) : pygraph A :=
    {| pg_node_names := verts g;
       pg_inbound := fun x => map arc_edge (filter (fun e => eqb (snd e) x) (arcs g));
       pg_outbound := fun x => map arc_edge (filter (fun e => eqb (fst e) x) (arcs g));
       pg_is_dag := acyclicb eqb g |}.
End PyGraph.

(** * Pinned rows

    Every right-hand side below is what the real interpreter / library printed for the same
    expression (/venv/bin/python, PYTHONPATH=/repo).  Nodes a .. e = 0 .. 4. *)
Module PyRtLoopExamples.
  Definition E := Nat.eqb.

  (* l = [1, 2, 3]; x = l.pop() -> x = 3, l = [1, 2];  [].pop() raises IndexError;
     l = [1, 2, 3]; x = l.pop(0) -> x = 1, l = [2, 3];  [].pop(0) raises IndexError *)
  Example ex_pop :
    py_list_pop [1; 2; 3] = Ret ([1; 2], 3) /\ py_list_pop (@nil nat) = Exc PyIndexError /\
    py_list_pop0 [1; 2; 3] = Ret ([2; 3], 1) /\ py_list_pop0 (@nil nat) = Exc PyIndexError.
  Proof. vm_compute. repeat split; reflexivity. Qed.
  (* l = [1]; l.append(2); l.append(3); l.pop() -> 3 (append adds at the END, pop takes from the END) *)
  Example ex_append_pop :
    py_list_pop (py_list_append (py_list_append [1] 2) 3) = Ret ([1; 2], 3).
  Proof. vm_compute. reflexivity. Qed.
  (* any([]) = False; any([False, True]) = True; all([]) = True; all([True, False]) = False *)
  Example ex_any_all :
    py_any [] = false /\ py_any [false; true] = true /\ py_all [] = true /\ py_all [true; false] = false.
  Proof. vm_compute. repeat split; reflexivity. Qed.
  (* all(x in [0, 1, 2] for x in [1, 3]) = False; all(x in [0, 1, 2] for x in [1, 2]) = True *)
  Example ex_all_gen :
    forallb (fun x => memb E x [0; 1; 2]) [1; 3] = false /\ forallb (fun x => memb E x [0; 1; 2]) [1; 2] = true.
  Proof. vm_compute. split; reflexivity. Qed.
  (* d = {}; d[1] = True; d[2] = False; d[1] = False  ->  list(d.items()) = [(1, False), (2, False)];
     1 in d = True; 3 in d = False; d[2] = False; d[3] raises KeyError; len(d) = 2 *)
  Example ex_dict :
    let d := py_dict_setitem E (py_dict_setitem E (py_dict_setitem E py_dict_empty 1 true) 2 false) 1 false in
    py_dict_items d = [(1, false); (2, false)] /\ py_dict_contains E d 1 = true /\
    py_dict_contains E d 3 = false /\ py_dict_getitem E d 2 = Ret false /\
    py_dict_getitem E d 3 = Exc PyKeyError /\ length d = 2.
  Proof. vm_compute. repeat split; reflexivity. Qed.
  (* i = 0; s = 0
     while i < 5: i += 1; (if i == 2: continue); (if i == 4: break); s += i      ->  (i, s) = (4, 4) *)
  Example ex_while :
    py_while py_top 10 (fun '(i, s) => Nat.ltb i 5) (0, 0)
      (fun '(i, s) => let i := i + 1 in
                      if Nat.eqb i 2 then Cont (i, s) else if Nat.eqb i 4 then Brk (i, s) else Cont (i, s + i))
      (fun s => Ret s) = Ret (4, 4).
  Proof. vm_compute. reflexivity. Qed.
  (* the same loop with 3 units of fuel does not finish: the distinguished value, not a result *)
  Example ex_while_fuel :
    py_while py_top 3 (fun '(i, s) => Nat.ltb i 5) (0, 0)
      (fun '(i, s) => Cont (i + 1, s + i)) (fun s => Ret s) = Fuel.
  Proof. vm_compute. reflexivity. Qed.

  (* mixed graph of the probe (edges added in this order):
       a -> b, b -> c, c -- d, d <> a, e -> c, a -> c, d o> e        (a .. e = 0 .. 4)
     for every node n: [e.source.identifier for e in n.get_inbound_edges()],
                       [e.destination.identifier for e in n._outbound_edges], n.is_sink_node(), n.is_source_node()
       a: [], ['b', 'c'], False, True      b: ['a'], ['c'], False, False
       c: ['b', 'e', 'a'], [], True, False  d: [], [], True, True       e: [], ['c'], False, True
     g.is_dag() = False; g.get_node('zz') raises KeyError; g._nodes_by_identifier['zz'] raises KeyError;
     'c' in g.get_node_names() = True; 'zz' in g.get_node_names() = False *)
  Definition m1 : mgraph nat :=
    {| mnodes := [0; 1; 2; 3; 4];
       medges := [(0, 1, Dir); (1, 2, Dir); (2, 3, Und); (3, 0, Bi); (4, 2, Dir); (0, 2, Dir); (3, 4, UnkDir)] |}.
  Definition p1 := pg_of_mgraph E m1.
  Example ex_pg_views :
    map (fun n => (map (@py_edge_source_identifier nat) (py_node_get_inbound_edges p1 n),
                   map (@py_edge_destination_identifier nat) (py_node__outbound_edges p1 n),
                   py_node_is_sink_node p1 n, py_node_is_source_node p1 n)) [0; 1; 2; 3; 4]
    = [([], [1; 2], false, true); ([0], [2], false, false); ([1; 4; 0], [], true, false);
       ([], [], true, true); ([], [2], false, true)].
  Proof. vm_compute. reflexivity. Qed.
  Example ex_pg_same_lists :
    forallb (fun n => Nat.eqb (length (py_node_get_outbound_edges p1 n)) (length (py_node__outbound_edges p1 n)) &&
                      Nat.eqb (length (py_node_get_inbound_edges p1 n)) (length (py_node__inbound_edges p1 n)))
            [0; 1; 2; 3; 4] = true.
  Proof. vm_compute. reflexivity. Qed.
  Example ex_pg_misc :
    py_pg_is_dag p1 = false /\ py_pg_get_node E p1 9 = Exc PyKeyError /\
    py_pg_nodes_by_identifier_getitem E p1 9 = Exc PyKeyError /\ py_pg_get_node E p1 2 = Ret 2 /\
    memb E 2 (py_pg_get_node_names p1) = true /\ memb E 9 (py_pg_get_node_names p1) = false /\
    py_pg_node_exists E p1 2 = true /\ py_pg_node_exists E p1 9 = false.
  Proof. vm_compute. repeat split; reflexivity. Qed.
  (* the directed part alone: a -> b, b -> c, e -> c, a -> c is a DAG: is_dag() = True;
     a directed cycle a -> b -> c -> a cannot be built through add_edge (it raises); the model answers False *)
  Example ex_pg_is_dag :
    py_pg_is_dag (pg_of_mgraph E {| mnodes := [0; 1; 2; 4]; medges := [(0, 1, Dir); (1, 2, Dir); (4, 2, Dir); (0, 2, Dir)] |}) = true /\
    py_pg_is_dag (pg_of_mgraph E {| mnodes := [0; 1; 2]; medges := [(0, 1, Dir); (1, 2, Dir); (2, 0, Dir)] |}) = false.
  Proof. vm_compute. split; reflexivity. Qed.
  (* e = g.get_edge('a', 'b'): e.source == g.get_node('a'), e.destination.identifier == 'b' *)
  Example ex_edge_ends :
    py_edge_source ((0, 1, Dir) : medge nat) = 0 /\ py_node_identifier (py_edge_destination ((0, 1, Dir) : medge nat)) = 1.
  Proof. vm_compute. split; reflexivity. Qed.
  (* the digraph view agrees with the typed-edge view on a fully directed graph *)
  Example ex_pg_of_digraph :
    let g := {| verts := [0; 1; 2; 4]; arcs := [(0, 1); (1, 2); (4, 2); (0, 2)] |} in
    map (fun n => (py_node_get_inbound_edges (pg_of_digraph E g) n, py_node__outbound_edges (pg_of_digraph E g) n)) [0; 1; 2; 4]
    = map (fun n => (py_node_get_inbound_edges (pg_of_mgraph E {| mnodes := [0; 1; 2; 4]; medges := map (@arc_edge nat) (arcs g) |}) n,
                     py_node__outbound_edges (pg_of_mgraph E {| mnodes := [0; 1; 2; 4]; medges := map (@arc_edge nat) (arcs g) |}) n)) [0; 1; 2; 4].
  Proof. vm_compute. reflexivity. Qed.
End PyRtLoopExamples.
