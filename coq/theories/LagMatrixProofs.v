(** LagMatrixProofs.v — proofs about LagMatrix.v: [to_numpy_by_lag], [from_adjacency_matrices]
    and the round-trip clause of property C08

      "for a time-series graph, from_adjacency_matrices( *to_numpy_by_lag()) equals its minimal graph"

    quantified over consistent time-series graphs with at least one edge, made of directed edges
    and CONTEMPORANEOUS undirected edges, whose variable names are marker free.

    Main results
      [lag_matrices_entry_spec]          what to_numpy_by_lag returns, entry by entry
      [lag_matrices_key_order]           key order of the dict (first-seen source lags), variable list
      [lag_matrices_refuse_other_types]  any other edge type in the graph: TypeError
      [lag_matrices_edgeless]            no edge: ({}, variables) and then AssertionError
      [from_adjacency_matrices_spec]     nodes and edges of the graph built from a well-shaped dict
      [from_adjacency_matrices_future]   a non-zero entry under a positive key: ValueError
      [from_adjacency_matrices_bad_names], [_bad_shapes], [_empty]   AssertionError
      [from_adjacency_matrices_dup_names] two equal variable names: NodeDuplicatedError
      [lag_matrices_roundtrip]           the C08 clause (validate=False always; validate=True when
                                         the directed part of the minimal graph is acyclic); the
                                         result has default attributes everywhere
      [lag_matrices_roundtrip_cyclic]    otherwise validate=True raises CyclicConnectionError
      [lag_matrices_roundtrip_full]      construct_minimal=False
      [lag_matrices_roundtrip_b]         the same with boolean premises
      [same_shape_eqb], [same_shape_b_spec]   "same nodes, same edges up to the orientation of
                                         undirected edges" implies [==]; its boolean decider
      [c08_roundtrip_refuted] (+ [c08_roundtrip_partial]), [roundtrip_any_und_refuted],
      [roundtrip_any_name_refuted], [roundtrip_edgeless_refuted]
                                         each hypothesis is needed (witnesses run on the Python code)
*)
From CG Require Import Base Dec Digraph Names TSGraph TSGraphProofs MinimalProofs MinimalProofs2.
From CG Require DigraphProofs NamesProofs Matrix.
From CG Require Import LagMatrix.
Local Open Scope Z_scope.

(** * Lists *)

Lemma NoDup_app_intro (A : Type) (l1 l2 : list A) :
  NoDup l1 -> NoDup l2 -> (forall x, In x l1 -> In x l2 -> False) -> NoDup (l1 ++ l2).
Proof.
  induction l1 as [|a l1 IH]; simpl; intros N1 N2 D; [exact N2|].
  inversion N1 as [|? ? Ha N1']; subst. constructor.
  - rewrite in_app_iff; intros [H|H]; [contradiction|exact (D a (or_introl eq_refl) H)].
  - apply IH; auto. intros x H1 H2; exact (D x (or_intror H1) H2).
Qed.

Lemma NoDup_app_inv (A : Type) (l1 l2 : list A) :
  NoDup (l1 ++ l2) -> NoDup l1 /\ NoDup l2 /\ (forall x, In x l1 -> In x l2 -> False).
Proof.
  induction l1 as [|a l1 IH]; simpl; intros ND.
  - split; [constructor|]. split; [exact ND|intros x []].
  - inversion ND as [|? ? Ha ND']; subst. destruct (IH ND') as (N1 & N2 & D).
    rewrite in_app_iff in Ha. split; [constructor; tauto|]. split; [exact N2|].
    intros x [<-|H1] H2; [tauto|exact (D x H1 H2)].
Qed.

Arguments NoDup_app_intro {A} l1 l2 _ _ _.
Arguments NoDup_app_inv {A} l1 l2 _.

Lemma nth_error_nodup_inj (A : Type) (l : list A) i j x :
  NoDup l -> nth_error l i = Some x -> nth_error l j = Some x -> i = j.
Proof.
  intros ND Hi Hj. apply (proj1 (NoDup_nth_error l) ND); [|congruence].
  apply nth_error_Some; congruence.
Qed.

Arguments nth_error_nodup_inj {A} l i j x _ _ _.

Lemma nth_error_lt (A : Type) (l : list A) i x : nth_error l i = Some x -> (i < length l)%nat.
Proof. intros H; apply nth_error_Some; rewrite H; discriminate. Qed.
Arguments nth_error_lt {A} l i x _.

(** * Arrays: [entry], [cell], [hits], [mset] *)

Lemma entry_cell mx i j : entry mx i j = Some true <-> cell mx i j = true.
Proof.
  unfold entry, cell. destruct (nth_error mx i) as [r|]; [|split; discriminate].
  destruct (nth_error r j) as [c|]; [|split; discriminate].
  split; [intros [= ->]; reflexivity|intros ->; reflexivity].
Qed.

Lemma entry_dim n mx i j : dim n mx -> (i < n)%nat -> (j < n)%nat -> exists b, entry mx i j = Some b.
Proof.
  intros [L F] Hi Hj; unfold entry.
  destruct (nth_error mx i) as [r|] eqn:R; [|apply nth_error_None in R; lia].
  assert (Lr : length r = n) by (rewrite Forall_forall in F; apply F; eapply nth_error_In; exact R).
  destruct (nth_error r j) as [c|] eqn:C; [eauto|apply nth_error_None in C; lia].
Qed.

Lemma cell_true_lt n mx i j : dim n mx -> cell mx i j = true -> (i < n)%nat /\ (j < n)%nat.
Proof.
  intros [L F]; unfold cell.
  destruct (nth_error mx i) as [r|] eqn:R; [|discriminate].
  destruct (nth_error r j) as [c|] eqn:C; [|discriminate]. intros _.
  assert (Lr : length r = n) by (rewrite Forall_forall in F; apply F; eapply nth_error_In; exact R).
  split; [rewrite <- L; apply nth_error_Some; congruence|rewrite <- Lr; apply nth_error_Some; congruence].
Qed.

Lemma row_hits_spec r : forall j0 j,
  In j (row_hits j0 r) <-> exists j', j = (j0 + j')%nat /\ nth_error r j' = Some true.
Proof.
  induction r as [|b r IH]; intros j0 j; simpl.
  - split; [intros []|intros (j' & _ & H); destruct j'; discriminate].
  - assert (Hrest : In j (row_hits (S j0) r) <->
                    exists j', j = (j0 + S j')%nat /\ nth_error r j' = Some true).
    { rewrite IH; split; intros (j' & E & H); exists j'; (split; [lia|exact H]). }
    destruct b; simpl.
    + rewrite Hrest; split.
      * intros [<-|(j' & E & H)]; [exists O; split; [lia|reflexivity]|exists (S j'); auto].
      * intros ([|j'] & E & H); [left; lia|right; exists j'; auto].
    + rewrite Hrest; split.
      * intros (j' & E & H); exists (S j'); auto.
      * intros ([|j'] & E & H); [discriminate|exists j'; auto].
Qed.

Lemma hits_from_spec mx : forall i0 i j,
  In (i, j) (hits_from i0 mx) <-> exists i', i = (i0 + i')%nat /\ entry mx i' j = Some true.
Proof.
  induction mx as [|r mx IH]; intros i0 i j; simpl.
  - split; [intros []|intros (i' & _ & H); unfold entry in H; destruct i'; discriminate].
  - rewrite in_app_iff, in_map_iff, IH. split.
    + intros [(j' & E & H)|(i' & E & H)].
      * inversion E; subst. apply row_hits_spec in H; destruct H as (j'' & E' & H).
        exists O; split; [lia|]. simpl in E'; subst j''. exact H.
      * exists (S i'); split; [lia|exact H].
    + intros ([|i'] & E & H).
      * left; exists j; split; [f_equal; lia|]. apply row_hits_spec; exists j; auto.
      * right; exists i'; split; [lia|exact H].
Qed.

Lemma hits_spec mx i j : In (i, j) (hits mx) <-> cell mx i j = true.
Proof.
  unfold hits; rewrite hits_from_spec, <- entry_cell. split.
  - intros (i' & E & H); simpl in E; subst; exact H.
  - intros H; exists i; auto.
Qed.

Lemma mset_ok n mx a b : dim n mx -> (a < n)%nat -> (b < n)%nat -> mset a b mx = Some (set_cell a b mx).
Proof.
  intros D Ha Hb; unfold mset. destruct (entry_dim n mx a b D Ha Hb) as (c & ->); reflexivity.
Qed.

Lemma mset_none mx a b : entry mx a b = None -> mset a b mx = None.
Proof. unfold mset; intros ->; reflexivity. Qed.

(** * [zindex] *)

Lemma zindex_nth k l : forall t, zindex k l = Some t -> nth_error l t = Some k.
Proof.
  induction l as [|x l IH]; simpl; intros t H; [discriminate|].
  destruct (Z.eqb_spec k x) as [->|Hn]; [inversion H; reflexivity|].
  destruct (zindex k l) as [t'|]; [|discriminate]. inversion H; subst; simpl; auto.
Qed.

Lemma zindex_lt k l t : zindex k l = Some t -> (t < length l)%nat.
Proof. intros H; apply nth_error_Some; rewrite (zindex_nth _ _ _ H); discriminate. Qed.

Lemma zindex_in k l : In k l -> exists t, zindex k l = Some t.
Proof.
  induction l as [|x l IH]; simpl; intros H; [destruct H|].
  destruct (Z.eqb_spec k x) as [->|Hn]; [eauto|].
  destruct H as [H|H]; [congruence|]. destruct (IH H) as (t & ->); eauto.
Qed.

Lemma nth_zindex l : NoDup l -> forall t k, nth_error l t = Some k -> zindex k l = Some t.
Proof.
  induction 1 as [|x l Hx ND IH]; intros t k H; [destruct t; discriminate|].
  destruct t as [|t]; simpl in H |- *.
  - inversion H; subst; rewrite Z.eqb_refl; reflexivity.
  - destruct (Z.eqb_spec k x) as [->|Hn].
    + exfalso; apply Hx; eapply nth_error_In; exact H.
    + rewrite (IH t k H); reflexivity.
Qed.

(** * The full matrix *)

Lemma idx_bound (T r t i : nat) : (t < T)%nat -> (i < r)%nat -> (t + T * i < r * T)%nat.
Proof. intros Ht Hi. nia. Qed.

(** one lag: every hit sets its cell *)
Lemma fill_hits_ok (N T i0 ti : nat) l : forall full,
  dim N full ->
  (forall p, In p l -> (ti + T * fst p < N)%nat /\ (i0 + T * snd p < N)%nat) ->
  exists full', rfold (fill_step T i0 ti) l full = Ok full' /\ dim N full'
    /\ forall a b, cell full' a b = true <->
         cell full a b = true
         \/ exists p, In p l /\ a = (ti + T * fst p)%nat /\ b = (i0 + T * snd p)%nat.
Proof.
  induction l as [|p l IH]; intros full D Hb; simpl.
  - exists full; split; [reflexivity|]. split; [exact D|].
    intros a b; split; [auto|intros [H|(p & [] & _)]; exact H].
  - destruct (Hb p (or_introl eq_refl)) as [B1 B2].
    unfold fill_step at 1. rewrite (mset_ok N full _ _ D B1 B2).
    destruct (IH (set_cell (ti + T * fst p) (i0 + T * snd p) full)) as (full' & E & D' & C).
    + apply dim_set_cell; exact D.
    + intros q Hq; apply Hb; right; exact Hq.
    + exists full'; split; [exact E|]. split; [exact D'|].
      intros a b; rewrite C, (cell_set_cell N full _ _ a b D B1 B2).
      rewrite orb_true_iff, andb_true_iff, !Nat.eqb_eq. split.
      * intros [[[-> ->]|H]|(q & Hq & R)]; [right; exists p; auto|auto|right; exists q; auto].
      * intros [H|(q & [<-|Hq] & -> & ->)]; [auto|auto|right; exists q; auto].
Qed.

Section Full.
  Variable ks : list Z.
  Variable T r i0 : nat.
  Hypothesis Hi0 : (i0 < T)%nat.

  Lemma fill_ok dl : forall full,
    (forall kv, In kv dl -> (exists t, zindex (fst kv) ks = Some t /\ (t < T)%nat) /\ dim r (snd kv)) ->
    dim (r * T) full ->
    exists full', rfold (fill_lag ks T i0) dl full = Ok full' /\ dim (r * T) full'
      /\ forall a b, cell full' a b = true <->
           cell full a b = true
           \/ exists k mx t i j, In (k, mx) dl /\ zindex k ks = Some t /\ cell mx i j = true
                /\ a = (t + T * i)%nat /\ b = (i0 + T * j)%nat.
  Proof.
    induction dl as [|[k mx] dl IH]; intros full Hd D; simpl.
    - exists full; split; [reflexivity|]. split; [exact D|].
      intros a b; split; [auto|intros [H|(k & mx & t & i & j & [] & _)]; exact H].
    - destruct (Hd (k, mx) (or_introl eq_refl)) as [(t & Zt & Lt) Dm]; simpl in Zt, Dm.
      unfold fill_lag at 1; simpl; rewrite Zt.
      destruct (fill_hits_ok (r * T) T i0 t (hits mx) full D) as (f1 & E1 & D1 & C1).
      { intros [i j] Hp; apply hits_spec in Hp. destruct (cell_true_lt r mx i j Dm Hp) as [Li Lj].
        simpl; split; apply idx_bound; assumption. }
      rewrite E1. destruct (IH f1) as (f2 & E2 & D2 & C2); [intros kv Hkv; apply Hd; right; exact Hkv|exact D1|].
      exists f2; split; [exact E2|]. split; [exact D2|].
      intros a b; rewrite C2, C1. split.
      + intros [[H|([i j] & Hp & -> & ->)]|(k' & mx' & t' & i & j & Hin & R)].
        * left; exact H.
        * right; exists k, mx, t, i, j. apply hits_spec in Hp. simpl; auto.
        * right; exists k', mx', t', i, j; auto.
      + intros [H|(k' & mx' & t' & i & j & [Hin|Hin] & Zt' & Hc & -> & ->)].
        * left; left; exact H.
        * inversion Hin; subst k' mx'. assert (t' = t) by congruence; subst t'.
          left; right; exists (i, j); split; [apply hits_spec; exact Hc|simpl; auto].
        * right; exists k', mx', t', i, j; auto.
  Qed.
End Full.

(** * Node names, node positions, node creation *)

Definition tid (vk : key) : name := tident (fst vk) (snd vk).

Lemma nkey_mk_node k : nkey (mk_node k) = k.
Proof. destruct k; reflexivity. Qed.

Lemma map_nkey_mk_node l : map nkey (map mk_node l) = l.
Proof. induction l as [|k l IH]; simpl; [reflexivity|rewrite nkey_mk_node, IH; reflexivity]. Qed.

Lemma in_var_lag_pairs vars ks v k : In (v, k) (var_lag_pairs vars ks) <-> In v vars /\ In k ks.
Proof.
  unfold var_lag_pairs; rewrite in_flat_map; split.
  - intros (v' & Hv & H); apply in_map_iff in H; destruct H as (k' & E & Hk).
    inversion E; subst; auto.
  - intros [Hv Hk]; exists v; split; [exact Hv|apply in_map_iff; exists k; auto].
Qed.

Lemma var_lag_pairs_nodup vars ks : NoDup vars -> NoDup ks -> NoDup (var_lag_pairs vars ks).
Proof.
  intros NV NK; induction NV as [|v vars Hv NV IH]; simpl; [constructor|].
  apply NoDup_app_intro; [|exact IH|].
  - clear -NK. induction NK as [|k ks Hk NK IH]; simpl; constructor; [|exact IH].
    rewrite in_map_iff; intros (k' & E & H); inversion E; subst; contradiction.
  - intros [v' k'] H1 H2. apply in_map_iff in H1; destruct H1 as (k'' & E & _); inversion E; subst.
    apply in_var_lag_pairs in H2; tauto.
Qed.

Lemma var_lag_pairs_length vars ks :
  length (var_lag_pairs vars ks) = (length vars * length ks)%nat.
Proof.
  induction vars as [|v vars IH]; simpl; [reflexivity|].
  rewrite app_length, map_length, IH; reflexivity.
Qed.

(** node [t + T * i] is variable [i] at the [t]-th key: variable-major, then dict key order *)
Lemma nth_var_lag_pairs ks vars : forall i v t k,
  nth_error vars i = Some v -> nth_error ks t = Some k ->
  nth_error (var_lag_pairs vars ks) (t + length ks * i) = Some (v, k).
Proof.
  induction vars as [|v0 vars IH]; intros i v t k Hv Hk; [destruct i; discriminate|].
  assert (Lt : (t < length ks)%nat) by (apply nth_error_Some; congruence).
  simpl. destruct i as [|i]; simpl in Hv.
  - inversion Hv; subst v0. rewrite Nat.mul_0_r, Nat.add_0_r.
    rewrite nth_error_app1 by (rewrite map_length; exact Lt).
    apply map_nth_error; exact Hk.
  - rewrite nth_error_app2 by (rewrite map_length; nia).
    rewrite map_length.
    replace (t + length ks * S i - length ks)%nat with (t + length ks * i)%nat by nia.
    apply IH; assumption.
Qed.

Lemma collect_map (A B : Type) (f : A -> option B) (h : A -> B) l :
  (forall a, In a l -> f a = Some (h a)) -> collect f l = Some (map h l).
Proof.
  induction l as [|a l IH]; simpl; intros H; [reflexivity|].
  rewrite (H a (or_introl eq_refl)), IH by (intros; apply H; right; assumption). reflexivity.
Qed.

Lemma node_names_good vars ks :
  (forall v, In v vars -> good v = true) ->
  node_names vars ks = Some (map tid (var_lag_pairs vars ks)).
Proof.
  intros G; unfold node_names. apply collect_map. intros [v k] H.
  apply in_var_lag_pairs in H. unfold tid; simpl. apply NamesProofs.fmt_good, G, H.
Qed.

Lemma add_named_loop ps : forall done,
  (forall vk, In vk (done ++ ps) -> good (fst vk) = true) -> NoDup (done ++ ps) ->
  rfold add_named (map tid ps) (map tid done, Build_tsg (map mk_node done) [] [])
  = Ok (map tid (done ++ ps), Build_tsg (map mk_node (done ++ ps)) [] []).
Proof.
  induction ps as [|[v k] ps IH]; intros done G ND; simpl.
  - rewrite app_nil_r; reflexivity.
  - assert (Gv : good v = true) by (apply (G (v, k)); apply in_or_app; right; left; reflexivity).
    unfold add_named at 1. change (tid (v, k)) with (tident v k).
    rewrite (NamesProofs.parse_tident v k Gv).
    destruct (NoDup_app_inv _ _ ND) as (_ & ND2 & Dj).
    assert (Hfresh : ~ In (v, k) done).
    { intros H; exact (Dj (v, k) H (or_introl eq_refl)). }
    assert (M : mem (tident v k) (map tid done) = false).
    { apply mem_false; intros H; apply in_map_iff in H; destruct H as ([v' k'] & E & H').
      assert (Gv' : good v' = true) by (apply (G (v', k')); apply in_or_app; left; exact H').
      unfold tid in E; simpl in E.
      destruct (NamesProofs.tident_inj v' k' v k Gv' Gv E) as [-> ->]. contradiction. }
    cbn [fst snd]; rewrite M.
    assert (X : node_exists (Build_tsg (map mk_node done) [] []) (v, k) = false).
    { apply node_exists_false; simpl; rewrite map_nkey_mk_node; exact Hfresh. }
    rewrite X.
    specialize (IH (done ++ [(v, k)])).
    rewrite <- !app_assoc in IH; simpl in IH.
    rewrite <- IH; [|exact G|exact ND].
    unfold add_node; simpl. rewrite !map_app; reflexivity.
Qed.

(** * [pairs] = [itertools.combinations(range(n), 2)] *)

Lemma pairs_spec n a b : In (a, b) (pairs n) <-> (a < b < n)%nat.
Proof.
  unfold pairs; rewrite in_flat_map; split.
  - intros (i & Hi & H); apply in_map_iff in H; destruct H as (j & E & Hj).
    inversion E; subst. apply in_seq in Hi, Hj. lia.
  - intros H; exists a; split; [apply in_seq; lia|].
    apply in_map_iff; exists b; split; [reflexivity|apply in_seq; lia].
Qed.

Lemma pairs_nodup n : NoDup (pairs n).
Proof.
  unfold pairs. generalize (seq_NoDup n 0). generalize (seq 0 n) as l.
  induction l as [|i l IH]; intros ND; simpl; [constructor|].
  inversion ND as [|? ? Hi ND']; subst. apply NoDup_app_intro; [|apply IH; exact ND'|].
  - generalize (seq_NoDup (n - S i) (S i)). generalize (seq (S i) (n - S i)) as l2.
    induction l2 as [|j l2 IH2]; intros N2; simpl; constructor.
    + inversion N2; subst. rewrite in_map_iff; intros (j' & E & H); inversion E; subst; contradiction.
    + inversion N2; subst; apply IH2; assumption.
  - intros [a b] H1 H2. apply in_map_iff in H1; destruct H1 as (j & E & _); inversion E; subst.
    apply in_flat_map in H2; destruct H2 as (i' & Hi' & H2).
    apply in_map_iff in H2; destruct H2 as (j' & E' & _); inversion E'; subst. contradiction.
Qed.

(** * The edge loop of from_adjacency_matrix *)

(** [add_edge] between two existing nodes given in time order *)
Lemma add_edge_existing g sn dn ty m :
  In (nkey sn) (map nkey (tnodes g)) -> In (nkey dn) (map nkey (tnodes g)) ->
  tl sn <= tl dn -> nkey sn <> nkey dn ->
  ~ In (nkey sn, nkey dn) (map ekey (tedges g)) ->
  ~ In (nkey dn, nkey sn) (map ekey (tedges g)) ->
  add_edge g sn dn ty m = Ok (added g sn dn ty m) /\ tnodes (added g sn dn ty m) = tnodes g.
Proof.
  intros Hs Hd Hle Hne Hf Hr. rewrite (add_edge_noswap g sn dn ty m Hle).
  destruct (key_eqb_spec (nkey sn) (nkey dn)) as [|_]; [contradiction|].
  apply edge_exists_false in Hf, Hr. rewrite Hf, Hr. split; [reflexivity|].
  unfold added; simpl. rewrite !ensure_node_nodes.
  apply node_exists_in in Hs. rewrite Hs.
  assert (Hd' : node_exists (ensure_node g sn) (nkey dn) = true).
  { apply node_exists_in, ensure_node_keys; left; exact Hd. }
  rewrite Hd'; reflexivity.
Qed.

(** the edge (if any) that the pair of positions [p] produces *)
Definition genE (full : matrix) (nodes : list tnode) (p : nat * nat) : list tedge :=
  match entry full (fst p) (snd p), entry full (snd p) (fst p),
        nth_error nodes (fst p), nth_error nodes (snd p) with
  | Some x, Some y, Some ni, Some nj =>
      if x && negb y then [mk_edge ni nj Dir []]
      else if negb x && y then [mk_edge nj ni Dir []]
      else if x && y then [mk_edge ni nj Und []]
      else []
  | _, _, _, _ => []
  end.

Section EdgeLoop.
  Variable full : matrix.
  Variable nodes : list tnode.
  Variable N : nat.
  Hypothesis HD : dim N full.
  Hypothesis HL : length nodes = N.
  Hypothesis HK : NoDup (map nkey nodes).
  (** the cells of the pair of positions [p] never point back in time *)
  Definition timeok (p : nat * nat) : Prop :=
    forall na nb, nth_error nodes (fst p) = Some na -> nth_error nodes (snd p) = Some nb ->
      (cell full (fst p) (snd p) = true -> tl na <= tl nb)
      /\ (cell full (snd p) (fst p) = true -> tl nb <= tl na).
  (** the pair [p] asks for a DIRECTED edge from a later to an earlier node *)
  Definition backward (p : nat * nat) : Prop :=
    exists na nb, nth_error nodes (fst p) = Some na /\ nth_error nodes (snd p) = Some nb
      /\ ((cell full (fst p) (snd p) = true /\ cell full (snd p) (fst p) = false /\ tl nb < tl na)
          \/ (cell full (fst p) (snd p) = false /\ cell full (snd p) (fst p) = true /\ tl na < tl nb)).

  Lemma node_pos_inj a b na nb :
    nth_error nodes a = Some na -> nth_error nodes b = Some nb -> nkey na = nkey nb -> a = b.
  Proof.
    intros Ha Hb E. apply (nth_error_nodup_inj (map nkey nodes) a b (nkey na) HK).
    - apply map_nth_error; exact Ha.
    - rewrite E; apply map_nth_error; exact Hb.
  Qed.

  Lemma genE_inv p e : In e (genE full nodes p) ->
    exists x y ni nj, entry full (fst p) (snd p) = Some x /\ entry full (snd p) (fst p) = Some y
      /\ nth_error nodes (fst p) = Some ni /\ nth_error nodes (snd p) = Some nj
      /\ ((x = true /\ y = false /\ e = mk_edge ni nj Dir [])
          \/ (x = false /\ y = true /\ e = mk_edge nj ni Dir [])
          \/ (x = true /\ y = true /\ e = mk_edge ni nj Und [])).
  Proof.
    unfold genE.
    destruct (entry full (fst p) (snd p)) as [x|]; [|intros []].
    destruct (entry full (snd p) (fst p)) as [y|]; [|intros []].
    destruct (nth_error nodes (fst p)) as [ni|]; [|intros []].
    destruct (nth_error nodes (snd p)) as [nj|]; [|intros []].
    intros H; exists x, y, ni, nj. repeat (split; [reflexivity|]).
    destruct x, y; simpl in H; try contradiction; destruct H as [<-|[]]; auto 6.
  Qed.

  Lemma fresh_keys done a b ni nj :
    (forall p, In p done -> (fst p < snd p)%nat) -> ~ In (a, b) done -> (a < b)%nat ->
    nth_error nodes a = Some ni -> nth_error nodes b = Some nj ->
    ~ In (nkey ni, nkey nj) (map ekey (flat_map (genE full nodes) done))
    /\ ~ In (nkey nj, nkey ni) (map ekey (flat_map (genE full nodes) done)).
  Proof.
    intros Hlt Hnin Hab Ha Hb.
    assert (K : forall e, In e (flat_map (genE full nodes) done) ->
                ekey e <> (nkey ni, nkey nj) /\ ekey e <> (nkey nj, nkey ni)).
    { intros e He; apply in_flat_map in He; destruct He as ([a' b'] & Hp & He).
      pose proof (Hlt _ Hp) as Lt; simpl in Lt.
      apply genE_inv in He; simpl in He.
      destruct He as (x & y & na & nb & _ & _ & Na & Nb & Hc).
      assert (P : forall s d, ekey e = (nkey s, nkey d) ->
                  (s = na /\ d = nb) \/ (s = nb /\ d = na) ->
                  forall u w, nth_error nodes u = Some s -> nth_error nodes w = Some d ->
                  (u = a' /\ w = b') \/ (u = b' /\ w = a')).
      { intros s d _ [[-> ->]|[-> ->]] u w Hu Hw.
        - left; split; [exact (node_pos_inj u a' _ _ Hu Na eq_refl)|exact (node_pos_inj w b' _ _ Hw Nb eq_refl)].
        - right; split; [exact (node_pos_inj u b' _ _ Hu Nb eq_refl)|exact (node_pos_inj w a' _ _ Hw Na eq_refl)]. }
      assert (Q : exists s d, ekey e = (nkey s, nkey d) /\ ((s = na /\ d = nb) \/ (s = nb /\ d = na))).
      { destruct Hc as [(_ & _ & ->)|[(_ & _ & ->)|(_ & _ & ->)]]; rewrite ekey_mk_edge; eauto 6. }
      destruct Q as (s & d & Ek & Hsd). rewrite Ek. split; intros E; pose proof (f_equal fst E) as E1; pose proof (f_equal snd E) as E2;
        cbn [fst snd] in E1, E2.
      - (* (s, d) = (ni, nj) as keys *)
        assert (exists u w, nth_error nodes u = Some s /\ nth_error nodes w = Some d) as (u & w & Hu & Hw).
        { destruct Hsd as [[-> ->]|[-> ->]]; eauto. }
        pose proof (node_pos_inj u a _ _ Hu Ha E1); pose proof (node_pos_inj w b _ _ Hw Hb E2); subst u w.
        destruct (P s d Ek Hsd a b Hu Hw) as [[-> ->]|[-> ->]]; [contradiction|lia].
      - assert (exists u w, nth_error nodes u = Some s /\ nth_error nodes w = Some d) as (u & w & Hu & Hw).
        { destruct Hsd as [[-> ->]|[-> ->]]; eauto. }
        pose proof (node_pos_inj u b _ _ Hu Hb E1); pose proof (node_pos_inj w a _ _ Hw Ha E2); subst u w.
        destruct (P s d Ek Hsd b a Hu Hw) as [[-> ->]|[-> ->]]; [lia|contradiction]. }
    split; intros H; apply in_map_iff in H; destruct H as (e & E & He); destruct (K e He); contradiction.
  Qed.

  Record einv (done : list (nat * nat)) (g : tsg) : Prop := {
    ei_wf : wf g;
    ei_nodes : tnodes g = nodes;
    ei_meta : tgmeta g = [];
    ei_edges : tedges g = flat_map (genE full nodes) done
  }.

  Lemma edge_loop_ok l : forall done g,
    (forall p, In p (done ++ l) -> (fst p < snd p < N)%nat) -> NoDup (done ++ l) ->
    (forall p, In p l -> timeok p) ->
    einv done g ->
    exists g', rfold (edge_step full nodes) l g = Ok g' /\ einv (done ++ l) g'.
  Proof.
    induction l as [|[a b] l IH]; intros done g Hlt ND HT HI; simpl.
    - exists g; rewrite app_nil_r; auto.
    - assert (Hab : (a < b < N)%nat) by (apply (Hlt (a, b)); apply in_or_app; right; left; reflexivity).
      destruct (entry_dim N full a b HD) as (x & Ex); [lia|lia|].
      destruct (entry_dim N full b a HD) as (y & Ey); [lia|lia|].
      destruct (nth_error nodes a) as [ni|] eqn:Na; [|apply nth_error_None in Na; lia].
      destruct (nth_error nodes b) as [nj|] eqn:Nb; [|apply nth_error_None in Nb; lia].
      assert (Hnin : ~ In (a, b) done).
      { destruct (NoDup_app_inv _ _ ND) as (_ & _ & Dj); intros H; exact (Dj _ H (or_introl eq_refl)). }
      assert (Hlt' : forall p, In p done -> (fst p < snd p)%nat).
      { intros p Hp; apply Hlt; apply in_or_app; left; exact Hp. }
      destruct (fresh_keys done a b ni nj Hlt' Hnin (proj1 Hab) Na Nb) as [F1 F2].
      destruct HI as [Wg Eg Mg Dg].
      assert (Hne : nkey ni <> nkey nj).
      { intros E; pose proof (node_pos_inj a b ni nj Na Nb E); lia. }
      assert (Ini : In (nkey ni) (map nkey (tnodes g))).
      { rewrite Eg; apply in_map; eapply nth_error_In; exact Na. }
      assert (Inj : In (nkey nj) (map nkey (tnodes g))).
      { rewrite Eg; apply in_map; eapply nth_error_In; exact Nb. }
      rewrite <- Dg in F1, F2.
      assert (Step : exists g1, edge_step full nodes g (a, b) = Ok g1 /\ einv (done ++ [(a, b)]) g1).
      { unfold edge_step; simpl fst; simpl snd; rewrite Ex, Ey, Na, Nb.
        assert (GE : genE full nodes (a, b) =
                     if x && negb y then [mk_edge ni nj Dir []]
                     else if negb x && y then [mk_edge nj ni Dir []]
                     else if x && y then [mk_edge ni nj Und []] else []).
        { unfold genE; simpl fst; simpl snd; rewrite Ex, Ey, Na, Nb; reflexivity. }
        destruct (HT (a, b) (or_introl eq_refl) ni nj Na Nb) as [HT1 HT2]; simpl in HT1, HT2.
        assert (Hx : x = true -> tl ni <= tl nj).
        { intros ->; apply HT1. apply entry_cell; exact Ex. }
        assert (Hy : y = true -> tl nj <= tl ni).
        { intros ->; apply HT2. apply entry_cell; exact Ey. }
        destruct x, y; simpl in GE |- *.
        - (* undirected *)
          destruct (add_edge_existing g ni nj Und [] Ini Inj (Hx eq_refl) Hne F1 F2) as [E1 E2].
          rewrite E1; eexists; split; [reflexivity|]. constructor.
          + apply added_wf; auto.
          + rewrite E2; exact Eg.
          + exact Mg.
          + simpl; rewrite flat_map_app, Dg; simpl; rewrite GE; reflexivity.
        - destruct (add_edge_existing g ni nj Dir [] Ini Inj (Hx eq_refl) Hne F1 F2) as [E1 E2].
          rewrite E1; eexists; split; [reflexivity|]. constructor.
          + apply added_wf; auto.
          + rewrite E2; exact Eg.
          + exact Mg.
          + simpl; rewrite flat_map_app, Dg; simpl; rewrite GE; reflexivity.
        - destruct (add_edge_existing g nj ni Dir [] Inj Ini (Hy eq_refl) (not_eq_sym Hne) F2 F1) as [E1 E2].
          rewrite E1; eexists; split; [reflexivity|]. constructor.
          + apply added_wf; auto.
          + rewrite E2; exact Eg.
          + exact Mg.
          + simpl; rewrite flat_map_app, Dg; simpl; rewrite GE; reflexivity.
        - exists g; split; [reflexivity|]. constructor; auto.
          rewrite flat_map_app, Dg; simpl; rewrite GE, app_nil_r; reflexivity. }
      destruct Step as (g1 & E1 & I1). rewrite E1.
      destruct (IH (done ++ [(a, b)]) g1) as (g' & E' & I').
      + rewrite <- app_assoc; exact Hlt.
      + rewrite <- app_assoc; exact ND.
      + intros p Hp; apply HT; right; exact Hp.
      + exact I1.
      + exists g'; split; [exact E'|]. rewrite <- app_assoc in I'; exact I'.
  Qed.

  (** a pair that asks for a directed edge back in time stops the loop with ValueError *)
  Lemma edge_step_backward done g a b :
    (forall p, In p done -> (fst p < snd p)%nat) -> ~ In (a, b) done -> (a < b < N)%nat ->
    einv done g -> backward (a, b) ->
    edge_step full nodes g (a, b) = Err EValue.
  Proof.
    intros Hlt Hnin Hab [Wg Eg Mg Dg] (ni & nj & Na & Nb & Hc); simpl in Na, Nb, Hc.
    destruct (entry_dim N full a b HD) as (x & Ex); [lia|lia|].
    destruct (entry_dim N full b a HD) as (y & Ey); [lia|lia|].
    destruct (fresh_keys done a b ni nj Hlt Hnin (proj1 Hab) Na Nb) as [F1 F2].
    rewrite <- Dg in F1, F2.
    assert (Hne : nkey ni <> nkey nj).
    { intros E; pose proof (node_pos_inj a b ni nj Na Nb E); lia. }
    assert (Bx : x = cell full a b).
    { destruct x; [symmetry; apply entry_cell; exact Ex|].
      destruct (cell full a b) eqn:Cx; [|reflexivity]. apply entry_cell in Cx; congruence. }
    assert (By : y = cell full b a).
    { destruct y; [symmetry; apply entry_cell; exact Ey|].
      destruct (cell full b a) eqn:Cy; [|reflexivity]. apply entry_cell in Cy; congruence. }
    unfold edge_step; simpl fst; simpl snd; rewrite Ex, Ey, Na, Nb.
    assert (AB : forall sn dn, nkey sn <> nkey dn -> ~ In (nkey sn, nkey dn) (map ekey (tedges g)) ->
                 tl dn < tl sn -> add_edge g sn dn Dir [] = Err EValue).
    { intros sn dn Hk Hf Hlt'. unfold add_edge.
      destruct (key_eqb_spec (nkey sn) (nkey dn)) as [|_]; [contradiction|].
      apply edge_exists_false in Hf; rewrite Hf. simpl.
      assert (L : (tl dn <? tl sn) = true) by (apply Z.ltb_lt; exact Hlt').
      rewrite L; reflexivity. }
    destruct Hc as [(C1 & C2 & L)|(C1 & C2 & L)]; rewrite Bx, By, C1, C2; simpl.
    - apply AB; auto.
    - apply AB; auto.
  Qed.

  Lemma einv_start : einv [] (Build_tsg nodes [] []).
  Proof.
    constructor; simpl; auto. constructor; simpl; try constructor; try (intros; contradiction).
    exact HK.
  Qed.

  (** the loop stops with ValueError as soon as some pair asks for a directed edge back in time
      (every pair being either harmless or of that kind) *)
  Lemma edge_loop_backward :
    (forall p, In p (pairs N) -> timeok p \/ backward p) ->
    (exists p, In p (pairs N) /\ backward p) ->
    rfold (edge_step full nodes) (pairs N) (Build_tsg nodes [] []) = Err EValue.
  Proof.
    intros Hall Hex.
    assert (Split : forall l, (forall p, In p l -> timeok p \/ backward p) ->
              (exists p, In p l /\ backward p) ->
              exists l1 p l2, l = l1 ++ p :: l2 /\ (forall q, In q l1 -> timeok q) /\ backward p).
    { induction l as [|q l IH]; intros Ha (p & Hp & Bp); [destruct Hp|].
      destruct (Ha q (or_introl eq_refl)) as [Tq|Bq].
      - destruct Hp as [<-|Hp]; [exists [], q, l; split; [reflexivity|split; [intros ? []|exact Bp]]|].
        destruct (IH (fun p0 Hp0 => Ha p0 (or_intror Hp0)) (ex_intro _ p (conj Hp Bp)))
          as (l1 & p' & l2 & -> & T1 & B').
        exists (q :: l1), p', l2. split; [reflexivity|]. split; [|exact B'].
        intros q' [<-|Hq']; auto.
      - exists [], q, l; split; [reflexivity|split; [intros ? []|exact Bq]]. }
    destruct (Split (pairs N) Hall Hex) as (l1 & [a b] & l2 & El & T1 & Bp).
    assert (Hb : forall p, In p (pairs N) -> (fst p < snd p < N)%nat).
    { intros [a' b'] Hp; apply pairs_spec in Hp; exact Hp. }
    pose proof (pairs_nodup N) as ND. rewrite El in Hb, ND. rewrite El.
    destruct (edge_loop_ok l1 [] (Build_tsg nodes [] [])) as (g1 & E1 & I1).
    - intros p Hp; apply Hb; apply in_or_app; left; exact Hp.
    - destruct (NoDup_app_inv _ _ ND) as (N1 & _ & _); exact N1.
    - exact T1.
    - exact einv_start.
    - rewrite rfold_app, E1. simpl.
      rewrite (edge_step_backward l1 g1 a b).
      + reflexivity.
      + intros p Hp; apply Hb; apply in_or_app; left; exact Hp.
      + destruct (NoDup_app_inv _ _ ND) as (_ & _ & Dj); intros H; exact (Dj _ H (or_introl eq_refl)).
      + apply (Hb (a, b)); apply in_or_app; right; left; reflexivity.
      + exact I1.
      + exact Bp.
  Qed.

  (** the whole loop, from the graph that has the nodes and no edge, when no set cell points
      back in time *)
  Lemma edge_loop_all :
    (forall a b na nb, cell full a b = true ->
       nth_error nodes a = Some na -> nth_error nodes b = Some nb -> tl na <= tl nb) ->
    exists g1, rfold (edge_step full nodes) (pairs N) (Build_tsg nodes [] []) = Ok g1
      /\ wf g1 /\ tnodes g1 = nodes /\ tgmeta g1 = []
      /\ forall e, In e (tedges g1) <-> exists a b, (a < b < N)%nat /\ In e (genE full nodes (a, b)).
  Proof.
    intros HT.
    destruct (edge_loop_ok (pairs N) [] (Build_tsg nodes [] [])) as (g1 & E & [W Nn Mm Ed]).
    - intros [a b] Hp; simpl in Hp; apply pairs_spec in Hp; exact Hp.
    - apply pairs_nodup.
    - intros [a b] _ na nb Na Nb; simpl in *. split; intros Hc; eapply HT; eauto.
    - exact einv_start.
    - exists g1; split; [exact E|]. repeat (split; [assumption|]).
      intros e; simpl in Ed; rewrite Ed, in_flat_map. split.
      + intros ([a b] & Hp & He); apply pairs_spec in Hp; eauto.
      + intros (a & b & Hab & He); exists (a, b); split; [apply pairs_spec; exact Hab|exact He].
  Qed.
End EdgeLoop.

(** * Dicts *)

Lemma dict_set_fresh k mx d : ~ In k (map fst d) -> dict_set k mx d = d ++ [(k, mx)].
Proof.
  induction d as [|[k' mx'] d IH]; simpl; intros H; [reflexivity|].
  destruct (Z.eqb_spec k k') as [->|Hn]; [exfalso; apply H; left; reflexivity|].
  rewrite IH; [reflexivity|intros H'; apply H; right; exact H'].
Qed.

Lemma dict_of_nodup d : NoDup (map fst d) -> dict_of d = d.
Proof.
  unfold dict_of.
  assert (G : forall l acc, NoDup (map fst (acc ++ l)) ->
              fold_left (fun d p => dict_set (fst p) (snd p) d) l acc = acc ++ l).
  { induction l as [|[k mx] l IH]; intros acc ND; simpl; [rewrite app_nil_r; reflexivity|].
    rewrite map_app in ND; simpl in ND.
    destruct (NoDup_app_inv _ _ ND) as (_ & _ & Dj).
    rewrite dict_set_fresh by (intros H; exact (Dj k H (or_introl eq_refl))).
    rewrite IH; [rewrite <- app_assoc; reflexivity|].
    rewrite <- app_assoc, map_app; simpl; exact ND. }
  intros ND; exact (G d [] ND).
Qed.

Lemma has_key_in k d : has_key k d = true <-> In k (map fst d).
Proof.
  unfold has_key; rewrite existsb_exists, in_map_iff; split.
  - intros (p & Hp & E); apply Z.eqb_eq in E; eauto.
  - intros (p & E & Hp); exists p; split; [exact Hp|apply Z.eqb_eq; exact E].
Qed.

Lemma shape_dim r mx : dim r mx -> shape mx = Some (r, r).
Proof.
  intros [L F]; destruct mx as [|row rs]; simpl in *; [subst; reflexivity|].
  inversion F as [|? ? Hrow Frs]; subst.
  assert (X : forallb (fun r' => Nat.eqb (length r') (length row)) rs = true).
  { apply forallb_forall; intros r' Hr'; rewrite Forall_forall in Frs.
    apply Nat.eqb_eq; rewrite (Frs r' Hr'); symmetry; exact Hrow. }
  rewrite X, Hrow; reflexivity.
Qed.

Lemma shapes_dim r d :
  (forall kv, In kv d -> dim r (snd kv)) -> shapes d = Some (map (fun _ => (r, r)) d).
Proof.
  induction d as [|[k mx] d IH]; simpl; intros H; [reflexivity|].
  rewrite (shape_dim r mx (H (k, mx) (or_introl eq_refl))), IH; [reflexivity|].
  intros kv Hkv; apply H; right; exact Hkv.
Qed.

(** * What from_adjacency_matrices builds from a well-shaped dict *)

Definition edge_in (g : tsg) (s d : key) (ty : etype) : Prop :=
  exists e, In e (tedges g) /\ esrc e = s /\ edst e = d /\ ety e = ty.

(** [lag_cell d vars s t]: the matrix of lag [snd s] has a non-zero entry in the row of variable
    [fst s] and the column of variable [fst t], and [t] is a lag-0 node *)
Definition lag_cell (d : lagdict) (vars : list name) (s t : key) : Prop :=
  snd t = 0 /\ exists mx i j, In (snd s, mx) d /\ nth_error vars i = Some (fst s)
                              /\ nth_error vars j = Some (fst t) /\ cell mx i j = true.

(** position of a variable in the variable list *)
Definition var_before (vars : list name) (v w : name) : Prop :=
  exists i j, nth_error vars i = Some v /\ nth_error vars j = Some w /\ (i < j)%nat.

(** the keys of the dict the function works with: key 0 is appended when absent *)
Definition keys0 (d : lagdict) : list Z :=
  map fst d ++ (if has_key 0 d then [] else [0]).

(** the dict the function works with *)
Definition with_zero (r : nat) (d : lagdict) : lagdict :=
  if has_key 0 d then d else d ++ [(0, zeros r)].

Section FromSpec.
  Variable d : lagdict.
  Variable vars : list name.
  Variable r : nat.
  Hypothesis Hne : d <> [].
  Hypothesis Hnd : NoDup (map fst d).
  Hypothesis Hdim : forall kv, In kv d -> dim r (snd kv).
  Hypothesis Hlen : length vars = r.
  Hypothesis Hvnd : NoDup vars.
  Hypothesis Hgood : forall v, In v vars -> good v = true.
  Hypothesis Hle : forall k, In k (map fst d) -> k <= 0.

  Let d1 : lagdict := with_zero r d.
  Let ks1 : list Z := map fst d1.
  Let T : nat := length d1.
  Let P : list key := var_lag_pairs vars ks1.
  Let nodes : list tnode := map mk_node P.

  Lemma ks1_keys0 : ks1 = keys0 d.
  Proof.
    unfold ks1, d1, with_zero, keys0; destruct (has_key 0 d); [rewrite app_nil_r; reflexivity|].
    rewrite map_app; reflexivity.
  Qed.

  Lemma d1_incl kv : In kv d -> In kv d1.
  Proof. unfold d1, with_zero; destruct (has_key 0 d); [auto|intros H; apply in_or_app; auto]. Qed.

  Lemma d1_inv kv : In kv d1 -> In kv d \/ kv = (0, zeros r).
  Proof.
    unfold d1, with_zero; destruct (has_key 0 d); [auto|].
    rewrite in_app_iff; simpl; intros [H|[H|[]]]; auto.
  Qed.

  Lemma d1_nodup : NoDup ks1.
  Proof.
    unfold ks1, d1, with_zero; destruct (has_key 0 d) eqn:E; [exact Hnd|].
    rewrite map_app; simpl; apply NoDup_snoc; [exact Hnd|].
    intros H; apply has_key_in in H; congruence.
  Qed.

  Lemma d1_zero : In 0 ks1.
  Proof.
    unfold ks1, d1, with_zero; destruct (has_key 0 d) eqn:E; [apply has_key_in; exact E|].
    rewrite map_app; apply in_or_app; right; left; reflexivity.
  Qed.

  Lemma d1_dim kv : In kv d1 -> dim r (snd kv).
  Proof. intros H; destruct (d1_inv kv H) as [H'| ->]; [auto|apply dim_zeros]. Qed.

  Lemma d1_cell k mx i j : In (k, mx) d1 -> cell mx i j = true -> In (k, mx) d.
  Proof.
    intros H C; destruct (d1_inv _ H) as [H'|E]; [exact H'|].
    inversion E; subst; rewrite cell_zeros in C; discriminate.
  Qed.

  Lemma d1_le k : In k ks1 -> k <= 0.
  Proof.
    intros H; apply in_map_iff in H; destruct H as (kv & <- & Hkv).
    destruct (d1_inv kv Hkv) as [H'| ->]; [apply Hle, in_map, H'|simpl; lia].
  Qed.

  Lemma T_len : length ks1 = T.
  Proof. unfold ks1, T; apply map_length. Qed.

  Lemma P_nodup : NoDup P.
  Proof. apply var_lag_pairs_nodup; [exact Hvnd|exact d1_nodup]. Qed.

  Lemma P_len : length P = (r * T)%nat.
  Proof. unfold P; rewrite var_lag_pairs_length, Hlen, T_len; reflexivity. Qed.

  Lemma P_pos i v t k :
    nth_error vars i = Some v -> nth_error ks1 t = Some k -> nth_error P (t + T * i) = Some (v, k).
  Proof. intros Hv Hk; unfold P; rewrite <- T_len; apply nth_var_lag_pairs; assumption. Qed.

  (** ** The full matrix, read through node positions *)
  Section WithFull.
    Variable i0 : nat.
    Variable full : matrix.
    Hypothesis Hi0 : zindex 0 ks1 = Some i0.
    Hypothesis Hfd : dim (r * T) full.
    Hypothesis Hfull : forall a b, cell full a b = true <->
        exists k mx t i j, In (k, mx) d1 /\ zindex k ks1 = Some t /\ cell mx i j = true
          /\ a = (t + T * i)%nat /\ b = (i0 + T * j)%nat.

    Lemma full_pos a b :
      cell full a b = true <->
      exists s t, nth_error P a = Some s /\ nth_error P b = Some t /\ lag_cell d vars s t.
    Proof.
      rewrite Hfull; split.
      - intros (k & mx & t & i & j & Hin & Zt & Hc & -> & ->).
        pose proof (d1_dim _ Hin) as Dm; simpl in Dm.
        destruct (cell_true_lt r mx i j Dm Hc) as [Li Lj]. rewrite <- Hlen in Li, Lj.
        destruct (nth_error vars i) as [vi|] eqn:Vi; [|apply nth_error_None in Vi; lia].
        destruct (nth_error vars j) as [vj|] eqn:Vj; [|apply nth_error_None in Vj; lia].
        exists (vi, k), (vj, 0). split; [apply P_pos; [exact Vi|apply zindex_nth; exact Zt]|].
        split; [apply P_pos; [exact Vj|apply zindex_nth; exact Hi0]|].
        split; [reflexivity|]. exists mx, i, j; simpl.
        split; [exact (d1_cell k mx i j Hin Hc)|auto].
      - intros ([v k] & [w k'] & Pa & Pb & K0 & mx & i & j & Hin & Vi & Vj & Hc); simpl in *; subst k'.
        assert (Hk : In k ks1) by (apply in_map_iff; exists (k, mx); split; [reflexivity|apply d1_incl; exact Hin]).
        destruct (zindex_in k ks1 Hk) as (t & Zt).
        exists k, mx, t, i, j. split; [apply d1_incl; exact Hin|]. split; [exact Zt|]. split; [exact Hc|].
        split.
        + apply (nth_error_nodup_inj P _ _ (v, k) P_nodup Pa).
          apply P_pos; [exact Vi|apply zindex_nth; exact Zt].
        + apply (nth_error_nodup_inj P _ _ (w, 0) P_nodup Pb).
          apply P_pos; [exact Vj|apply zindex_nth; exact Hi0].
    Qed.

    Lemma lag_cell_pos s t : lag_cell d vars s t ->
      exists a b, nth_error P a = Some s /\ nth_error P b = Some t.
    Proof.
      destruct s as [v k], t as [w k']; intros (K0 & mx & i & j & Hin & Vi & Vj & Hc); simpl in *; subst k'.
      assert (Hk : In k ks1) by (apply in_map_iff; exists (k, mx); split; [reflexivity|apply d1_incl; exact Hin]).
      destruct (zindex_in k ks1 Hk) as (t & Zt).
      exists (t + T * i)%nat, (i0 + T * j)%nat.
      split; apply P_pos; auto; apply zindex_nth; assumption.
    Qed.

    Lemma nodes_pos a s : nth_error P a = Some s -> nth_error nodes a = Some (mk_node s).
    Proof. intros H; unfold nodes; apply map_nth_error; exact H. Qed.

    Lemma nodes_pos_inv a n : nth_error nodes a = Some n -> exists s, nth_error P a = Some s /\ n = mk_node s.
    Proof.
      unfold nodes; intros H. destruct (nth_error P a) as [s|] eqn:E.
      - rewrite (map_nth_error mk_node a P E) in H; inversion H; eauto.
      - apply nth_error_None in E. assert (nth_error (map mk_node P) a = None) as X
          by (apply nth_error_None; rewrite map_length; exact E). congruence.
    Qed.

    Lemma full_time a b na nb : cell full a b = true ->
      nth_error nodes a = Some na -> nth_error nodes b = Some nb -> tl na <= tl nb.
    Proof.
      intros Hc Ha Hb. apply full_pos in Hc; destruct Hc as (s & t & Pa & Pb & K0 & mx & i & j & Hin & _).
      rewrite (nodes_pos a s Pa) in Ha; rewrite (nodes_pos b t Pb) in Hb.
      inversion Ha; inversion Hb; subst; simpl. rewrite K0.
      apply Hle; apply in_map_iff; exists (snd s, mx); auto.
    Qed.

    (** lag-0 nodes are ordered like their variables *)
    Lemma pos_order a b v w :
      nth_error P a = Some (v, 0) -> nth_error P b = Some (w, 0) ->
      ((a < b)%nat <-> var_before vars v w).
    Proof.
      intros Pa Pb.
      assert (Hv : In v vars) by (apply nth_error_In in Pa; apply in_var_lag_pairs in Pa; tauto).
      assert (Hw : In w vars) by (apply nth_error_In in Pb; apply in_var_lag_pairs in Pb; tauto).
      destruct (In_nth_error _ _ Hv) as (i & Vi); destruct (In_nth_error _ _ Hw) as (j & Vj).
      pose proof (zindex_nth _ _ _ Hi0) as Z0. pose proof (zindex_lt _ _ _ Hi0) as L0.
      pose proof (nth_error_nodup_inj P _ _ _ P_nodup Pa (P_pos i v i0 0 Vi Z0)) as Ea.
      pose proof (nth_error_nodup_inj P _ _ _ P_nodup Pb (P_pos j w i0 0 Vj Z0)) as Eb.
      rewrite T_len in L0. split.
      - intros Lt; exists i, j; repeat split; auto. subst a b; nia.
      - intros (i' & j' & Vi' & Vj' & Lt).
        pose proof (nth_error_nodup_inj vars _ _ _ Hvnd Vi Vi'); subst i'.
        pose proof (nth_error_nodup_inj vars _ _ _ Hvnd Vj Vj'); subst j'.
        subst a b; nia.
    Qed.

    (** ** Edges produced by the pair loop *)
    Lemma edges_from_pairs g1 :
      (forall e, In e (tedges g1) <->
         exists a b, (a < b < r * T)%nat /\ In e (genE full nodes (a, b))) ->
      (forall s t ty, edge_in g1 s t ty <->
         (ty = Dir /\ lag_cell d vars s t /\ ~ lag_cell d vars t s)
         \/ (ty = Und /\ lag_cell d vars s t /\ lag_cell d vars t s /\ var_before vars (fst s) (fst t)))
      /\ (forall e, In e (tedges g1) -> em e = []).
    Proof.
      intros Hed.
      assert (Hbool : forall a b x, entry full a b = Some x -> (x = true <-> cell full a b = true)).
      { intros a b x Ex; rewrite <- entry_cell, Ex; split; [intros ->; reflexivity|intros [= ->]; reflexivity]. }
      assert (Hcell : forall a b s t, nth_error P a = Some s -> nth_error P b = Some t ->
                        (cell full a b = true <-> lag_cell d vars s t)).
      { intros a b s t Pa Pb; rewrite full_pos; split.
        - intros (s' & t' & Pa' & Pb' & L); congruence.
        - intros L; eauto. }
      split.
      - intros s t ty; split.
        + intros (e & He & Es & Et & Ety). apply Hed in He; destruct He as (a & b & Hab & He).
          apply genE_inv in He; simpl in He.
          destruct He as (x & y & ni & nj & Ex & Ey & Na & Nb & Hc).
          apply nodes_pos_inv in Na, Nb. destruct Na as (sa & Pa & ->), Nb as (sb & Pb & ->).
          pose proof (Hbool _ _ _ Ex) as Bx; pose proof (Hbool _ _ _ Ey) as By.
          rewrite (Hcell a b sa sb Pa Pb) in Bx; rewrite (Hcell b a sb sa Pb Pa) in By.
          destruct Hc as [(Hx & Hy & ->)|[(Hx & Hy & ->)|(Hx & Hy & ->)]];
            unfold esrc, edst in Es, Et; simpl in Es, Et, Ety; subst ty.
          * left. rewrite <- surjective_pairing in Es, Et; subst s t.
            split; [reflexivity|]. split; [apply Bx, Hx|]. intros L; apply By in L; congruence.
          * left. rewrite <- surjective_pairing in Es, Et; subst s t.
            split; [reflexivity|]. split; [apply By, Hy|]. intros L; apply Bx in L; congruence.
          * right. rewrite <- surjective_pairing in Es, Et; subst s t.
            split; [reflexivity|]. pose proof (proj1 Bx Hx) as L1; pose proof (proj1 By Hy) as L2.
            split; [exact L1|]. split; [exact L2|].
            destruct sa as [v k], sb as [w k']. destruct L1 as [K1 _], L2 as [K2 _]; simpl in K1, K2; subst k k'.
            simpl. apply (pos_order a b v w Pa Pb); lia.
        + intros [(-> & L1 & L2)|(-> & L1 & L2 & Ord)].
          * destruct (lag_cell_pos s t L1) as (a & b & Pa & Pb).
            assert (La : (a < r * T)%nat) by (rewrite <- P_len; apply nth_error_Some; congruence).
            assert (Lb : (b < r * T)%nat) by (rewrite <- P_len; apply nth_error_Some; congruence).
            destruct (entry_dim _ full a b Hfd La Lb) as (x & Ex).
            destruct (entry_dim _ full b a Hfd Lb La) as (y & Ey).
            pose proof (Hbool _ _ _ Ex) as Bx; pose proof (Hbool _ _ _ Ey) as By.
            rewrite (Hcell a b s t Pa Pb) in Bx; rewrite (Hcell b a t s Pb Pa) in By.
            assert (Hx : x = true) by (apply Bx; exact L1).
            assert (Hy : y = false) by (destruct y; [exfalso; apply L2, By; reflexivity|reflexivity]).
            subst x y.
            destruct (Nat.lt_trichotomy a b) as [Lt|[Eq|Gt]].
            -- exists (mk_edge (mk_node s) (mk_node t) Dir []). split.
               ++ apply Hed; exists a, b; split; [lia|]. unfold genE; simpl fst; simpl snd.
                  rewrite Ex, Ey, (nodes_pos a s Pa), (nodes_pos b t Pb); simpl; auto.
               ++ unfold esrc, edst; simpl; rewrite <- !surjective_pairing; auto.
            -- subst b. assert (s = t) by congruence; subst t. contradiction.
            -- exists (mk_edge (mk_node s) (mk_node t) Dir []). split.
               ++ apply Hed; exists b, a; split; [lia|]. unfold genE; simpl fst; simpl snd.
                  rewrite Ex, Ey, (nodes_pos a s Pa), (nodes_pos b t Pb); simpl; auto.
               ++ unfold esrc, edst; simpl; rewrite <- !surjective_pairing; auto.
          * destruct (lag_cell_pos s t L1) as (a & b & Pa & Pb).
            assert (La : (a < r * T)%nat) by (rewrite <- P_len; apply nth_error_Some; congruence).
            assert (Lb : (b < r * T)%nat) by (rewrite <- P_len; apply nth_error_Some; congruence).
            destruct (entry_dim _ full a b Hfd La Lb) as (x & Ex).
            destruct (entry_dim _ full b a Hfd Lb La) as (y & Ey).
            pose proof (Hbool _ _ _ Ex) as Bx; pose proof (Hbool _ _ _ Ey) as By.
            rewrite (Hcell a b s t Pa Pb) in Bx; rewrite (Hcell b a t s Pb Pa) in By.
            assert (Hx : x = true) by (apply Bx; exact L1).
            assert (Hy : y = true) by (apply By; exact L2). subst x y.
            assert (Lt : (a < b)%nat).
            { destruct s as [v k], t as [w k']. destruct L1 as [K1 _], L2 as [K2 _]; simpl in K1, K2; subst k k'.
              apply (pos_order a b v w Pa Pb); exact Ord. }
            exists (mk_edge (mk_node s) (mk_node t) Und []). split.
            -- apply Hed; exists a, b; split; [lia|]. unfold genE; simpl fst; simpl snd.
               rewrite Ex, Ey, (nodes_pos a s Pa), (nodes_pos b t Pb); simpl; auto.
            -- unfold esrc, edst; simpl; rewrite <- !surjective_pairing; auto.
      - intros e He; apply Hed in He; destruct He as (a & b & _ & He).
        apply genE_inv in He. destruct He as (x & y & ni & nj & _ & _ & _ & _ & Hc).
        destruct Hc as [(_ & _ & ->)|[(_ & _ & ->)|(_ & _ & ->)]]; reflexivity.
    Qed.
  End WithFull.
End FromSpec.

Lemma is_square_dim n mx : dim n mx -> is_square mx = true.
Proof.
  intros [L F]; unfold is_square; apply forallb_forall; intros row Hr.
  rewrite Forall_forall in F; apply Nat.eqb_eq; rewrite (F row Hr), L; reflexivity.
Qed.

(** ** The computation up to the pair loop: on a non-empty dict of [r x r] arrays and [r] distinct
       marker-free variable names nothing is refused before the loop, the nodes are created and
       the full matrix is filled as specified *)
Lemma fam_compute d vars r :
  d <> [] -> NoDup (map fst d) -> (forall kv, In kv d -> dim r (snd kv)) ->
  length vars = r -> NoDup vars -> (forall v, In v vars -> good v = true) ->
  exists i0 full,
    zindex 0 (map fst (with_zero r d)) = Some i0
    /\ dim (r * length (with_zero r d)) full
    /\ (forall a b, cell full a b = true <->
          exists k mx t i j, In (k, mx) (with_zero r d) /\ zindex k (map fst (with_zero r d)) = Some t
            /\ cell mx i j = true
            /\ a = (t + length (with_zero r d) * i)%nat /\ b = (i0 + length (with_zero r d) * j)%nat)
    /\ forall cm validate,
         from_adjacency_matrices d (Some vars) cm validate =
         match
           match rfold (edge_step full (map mk_node (var_lag_pairs vars (map fst (with_zero r d)))))
                       (pairs (r * length (with_zero r d)))
                       (Build_tsg (map mk_node (var_lag_pairs vars (map fst (with_zero r d)))) [] []) with
           | Ok g1 => if validate then if acyclicb key_eqb (dir_digraph g1) then Ok g1 else Err ECyclic
                      else Ok g1
           | Err e => Err e
           end
         with
         | Ok g => if cm then minimal g else Ok g
         | Err e => Err e
         end.
Proof.
  intros Hne Hnd Hdim Hlen Hvnd Hgood.
  pose (d1 := with_zero r d). pose (ks1 := map fst d1). pose (T := length d1).
  pose (P := var_lag_pairs vars ks1). pose (nodes := map mk_node P).
  pose proof (d1_nodup d r Hnd) as ND1. pose proof (d1_zero d r) as Z1.
  fold d1 in ND1, Z1. fold ks1 in ND1, Z1.
  destruct (zindex_in 0 ks1 Z1) as (i0 & Hi0).
  assert (Li0 : (i0 < T)%nat).
  { pose proof (zindex_lt _ _ _ Hi0) as L; unfold ks1 in L; rewrite map_length in L; exact L. }
  destruct (fill_ok ks1 T r i0 Li0 d1 (zeros (r * T))) as (full & Efull & Dfull & Cfull).
  { intros kv Hkv; split; [|exact (d1_dim d r Hdim kv Hkv)].
    destruct (zindex_in (fst kv) ks1 (in_map fst _ _ Hkv)) as (t & Zt).
    exists t; split; [exact Zt|]. pose proof (zindex_lt _ _ _ Zt) as L; unfold ks1 in L.
    rewrite map_length in L; exact L. }
  { apply dim_zeros. }
  assert (Cfull' : forall a b, cell full a b = true <->
            exists k mx t i j, In (k, mx) d1 /\ zindex k ks1 = Some t /\ cell mx i j = true
              /\ a = (t + T * i)%nat /\ b = (i0 + T * j)%nat).
  { intros a b; rewrite Cfull, cell_zeros. split; [intros [H|H]; [discriminate|exact H]|auto]. }
  assert (PL : length P = (r * T)%nat) by exact (P_len d vars r Hlen).
  exists i0, full. split; [exact Hi0|]. split; [exact Dfull|]. split; [exact Cfull'|].
  (* the computation *)
  intros cm validate. unfold from_adjacency_matrices. rewrite (dict_of_nodup d Hnd), (shapes_dim r d Hdim).
  assert (X : exists l, map (fun _ : Z * matrix => (r, r)) d = (r, r) :: l
                        /\ forallb (shape_eqb (r, r)) l = true).
  { destruct d as [|kv0 d']; [contradiction|]. eexists; split; [reflexivity|].
    apply forallb_forall; intros sh Hsh; apply in_map_iff in Hsh; destruct Hsh as (? & <- & _).
    unfold shape_eqb; simpl; rewrite Nat.eqb_refl; reflexivity. }
  destruct X as (shs & -> & X).
  rewrite X; cbn [negb fst].
  change (if has_key 0 d return lagdict then d else d ++ [(0, zeros r)]) with d1.
  rewrite Hlen, Nat.eqb_refl.
  fold ks1. fold T.
  rewrite (node_names_good vars ks1 Hgood). fold P.
  rewrite Hi0, Efull.
  unfold from_adjacency_matrix_ts.
  rewrite (is_square_dim _ _ Dfull); cbn [negb].
  assert (LN : length (map tid P) = length full).
  { destruct Dfull as [L _]. rewrite map_length, L. exact PL. }
  rewrite LN, Nat.eqb_refl; cbn [negb].
  pose proof (add_named_loop P [] (fun vk H => Hgood (fst vk) (proj1 (proj1 (in_var_lag_pairs vars ks1 (fst vk) (snd vk)) ltac:(rewrite <- surjective_pairing; exact H)))) (P_nodup d vars r Hnd Hvnd)) as AN.
  simpl in AN. change (empty_tsg []) with (Build_tsg [] [] []). rewrite AN.
  cbn [tnodes]. fold nodes.
  replace (length full) with (r * T)%nat by (destruct Dfull as [L _]; symmetry; exact L).
  reflexivity.
Qed.

(** ** [from_adjacency_matrices] on a non-empty dict of [r x r] arrays with keys [<= 0] and [r]
       distinct marker-free variable names: no exception before the optional cycle check, and
       the graph [g1] handed to [get_minimal_graph] has
       - the nodes (variable, key) for every variable and every key of the dict (plus key 0),
         variable-major, in dict order, with default attributes;
       - a directed edge s -> t exactly when cell (s, t) is set and cell (t, s) is not;
       - an undirected edge between two lag-0 nodes exactly when both cells are set, stored from
         the variable listed first to the variable listed later;
       and nothing else. *)
Theorem from_adjacency_matrices_spec d vars r :
  d <> [] -> NoDup (map fst d) -> (forall kv, In kv d -> dim r (snd kv)) ->
  length vars = r -> NoDup vars -> (forall v, In v vars -> good v = true) ->
  (forall k, In k (map fst d) -> k <= 0) ->
  exists g1,
    wf g1
    /\ tnodes g1 = map mk_node (var_lag_pairs vars (keys0 d))
    /\ tgmeta g1 = []
    /\ (forall s t ty, edge_in g1 s t ty <->
          (ty = Dir /\ lag_cell d vars s t /\ ~ lag_cell d vars t s)
          \/ (ty = Und /\ lag_cell d vars s t /\ lag_cell d vars t s
              /\ var_before vars (fst s) (fst t)))
    /\ (forall e, In e (tedges g1) -> em e = [])
    /\ forall cm validate,
         from_adjacency_matrices d (Some vars) cm validate =
           if validate && negb (acyclicb key_eqb (dir_digraph g1)) then Err ECyclic
           else if cm then minimal g1 else Ok g1.
Proof.
  intros Hne Hnd Hdim Hlen Hvnd Hgood Hle.
  destruct (fam_compute d vars r Hne Hnd Hdim Hlen Hvnd Hgood) as (i0 & full & Hi0 & Dfull & Cfull' & Ecomp).
  set (nodes := map mk_node (var_lag_pairs vars (map fst (with_zero r d)))) in *.
  set (T := length (with_zero r d)) in *.
  assert (PL : length (var_lag_pairs vars (map fst (with_zero r d))) = (r * T)%nat) by exact (P_len d vars r Hlen).
  destruct (edge_loop_all full nodes (r * T) Dfull) as (g1 & Eg1 & Wg1 & Ng1 & Mg1 & Edg1).
  { unfold nodes; rewrite map_length; exact PL. }
  { unfold nodes; rewrite map_nkey_mk_node; exact (P_nodup d vars r Hnd Hvnd). }
  { exact (full_time d vars r Hnd Hdim Hlen Hvnd Hle i0 full Hi0 Dfull Cfull'). }
  destruct (edges_from_pairs d vars r Hnd Hdim Hlen Hvnd i0 full Hi0 Dfull Cfull' g1 Edg1) as [Hedges Hmeta].
  exists g1. split; [exact Wg1|]. split.
  { rewrite Ng1; unfold nodes. rewrite <- (ks1_keys0 d r); reflexivity. }
  split; [exact Mg1|]. split; [exact Hedges|]. split; [exact Hmeta|].
  intros cm validate. rewrite Ecomp, Eg1.
  destruct validate; simpl.
  - destruct (acyclicb key_eqb (dir_digraph g1)); reflexivity.
  - reflexivity.
Qed.

(** ** A positive key (a matrix "from the future") with a non-zero entry: the directed edge
       (variable at a future lag) -> (variable at lag 0) does not respect time: ValueError,
       whatever the other matrices are. *)
Theorem from_adjacency_matrices_future d vars r :
  d <> [] -> NoDup (map fst d) -> (forall kv, In kv d -> dim r (snd kv)) ->
  length vars = r -> NoDup vars -> (forall v, In v vars -> good v = true) ->
  (exists k mx i j, In (k, mx) d /\ 0 < k /\ cell mx i j = true) ->
  forall cm validate, from_adjacency_matrices d (Some vars) cm validate = Err EValue.
Proof.
  intros Hne Hnd Hdim Hlen Hvnd Hgood (k & mx & i & j & Hin & Hk & Hc) cm validate.
  destruct (fam_compute d vars r Hne Hnd Hdim Hlen Hvnd Hgood) as (i0 & full & Hi0 & Dfull & Cfull' & Ecomp).
  rewrite Ecomp.
  set (P := var_lag_pairs vars (map fst (with_zero r d))) in *.
  set (nodes := map mk_node P) in *.
  set (T := length (with_zero r d)) in *.
  assert (PL : length P = (r * T)%nat) by exact (P_len d vars r Hlen).
  assert (PN : NoDup P) by exact (P_nodup d vars r Hnd Hvnd).
  pose proof (full_pos d vars r Hnd Hdim Hlen Hvnd i0 full Hi0 Cfull') as FP. fold P in FP.
  (* a set cell ends at a lag-0 node *)
  assert (Cz : forall a b sa sb, nth_error P a = Some sa -> nth_error P b = Some sb ->
               cell full a b = true -> snd sb = 0).
  { intros a b sa sb Pa Pb Cab. apply FP in Cab. destruct Cab as (s & t & Pa' & Pb' & K0 & _).
    assert (E : Some sb = Some t) by (rewrite <- Pb; exact Pb'). inversion E; subst t; exact K0. }
  rewrite (edge_loop_backward full nodes (r * T) Dfull); [reflexivity| | | |].
  - unfold nodes; rewrite map_length; exact PL.
  - unfold nodes; rewrite map_nkey_mk_node; exact PN.
  - intros [a b] Hp. apply pairs_spec in Hp.
    destruct (nth_error P a) as [sa|] eqn:Pa; [|apply nth_error_None in Pa; lia].
    destruct (nth_error P b) as [sb|] eqn:Pb; [|apply nth_error_None in Pb; lia].
    pose proof (nodes_pos d vars r a sa Pa) as Na; pose proof (nodes_pos d vars r b sb Pb) as Nb.
    fold P in Na, Nb. fold nodes in Na, Nb.
    destruct (cell full a b) eqn:Cab, (cell full b a) eqn:Cba.
    + left. intros na nb Na' Nb'; simpl in *. rewrite Na in Na'; rewrite Nb in Nb'.
      inversion Na'; inversion Nb'; subst; simpl.
      rewrite (Cz a b sa sb Pa Pb Cab), (Cz b a sb sa Pb Pa Cba). split; intros _; lia.
    + destruct (Z_le_gt_dec (snd sa) 0) as [Le|Gt].
      * left. intros na nb Na' Nb'; simpl in *. rewrite Na in Na'; rewrite Nb in Nb'.
        inversion Na'; inversion Nb'; subst; simpl. rewrite Cab, Cba.
        rewrite (Cz a b sa sb Pa Pb Cab). split; [intros _; exact Le|discriminate].
      * right. exists (mk_node sa), (mk_node sb); simpl. repeat split; auto.
        left; repeat split; auto. rewrite (Cz a b sa sb Pa Pb Cab); lia.
    + destruct (Z_le_gt_dec (snd sb) 0) as [Le|Gt].
      * left. intros na nb Na' Nb'; simpl in *. rewrite Na in Na'; rewrite Nb in Nb'.
        inversion Na'; inversion Nb'; subst; simpl. rewrite Cab, Cba.
        rewrite (Cz b a sb sa Pb Pa Cba). split; [discriminate|intros _; exact Le].
      * right. exists (mk_node sa), (mk_node sb); simpl. repeat split; auto.
        right; repeat split; auto. rewrite (Cz b a sb sa Pb Pa Cba); lia.
    + left. intros na nb _ _; simpl. rewrite Cab, Cba. split; discriminate.
  - pose proof (Hdim (k, mx) Hin) as Dm; simpl in Dm.
    destruct (cell_true_lt r mx i j Dm Hc) as [Li Lj]. rewrite <- Hlen in Li, Lj.
    destruct (nth_error vars i) as [vi|] eqn:Vi; [|apply nth_error_None in Vi; lia].
    destruct (nth_error vars j) as [vj|] eqn:Vj; [|apply nth_error_None in Vj; lia].
    assert (L : lag_cell d vars (vi, k) (vj, 0)).
    { split; [reflexivity|]. exists mx, i, j; simpl; auto. }
    destruct (lag_cell_pos d vars r i0 Hi0 _ _ L) as (a & b & Pa & Pb). fold P in Pa, Pb.
    assert (Cab : cell full a b = true) by (apply FP; eauto).
    assert (Cba : cell full b a = false).
    { destruct (cell full b a) eqn:X; [|reflexivity].
      pose proof (Cz b a _ _ Pb Pa X) as Z0; simpl in Z0; lia. }
    assert (La : (a < r * T)%nat) by (rewrite <- PL; exact (nth_error_lt _ _ _ Pa)).
    assert (Lb : (b < r * T)%nat) by (rewrite <- PL; exact (nth_error_lt _ _ _ Pb)).
    pose proof (nodes_pos d vars r a _ Pa) as Na; pose proof (nodes_pos d vars r b _ Pb) as Nb.
    fold P in Na, Nb. fold nodes in Na, Nb.
    destruct (Nat.lt_trichotomy a b) as [Lt|[Eq|Gt]].
    + exists (a, b); split; [apply pairs_spec; lia|].
      exists (mk_node (vi, k)), (mk_node (vj, 0)); simpl. repeat split; auto.
    + subst b. rewrite Pa in Pb; inversion Pb; lia.
    + exists (b, a); split; [apply pairs_spec; lia|].
      exists (mk_node (vj, 0)), (mk_node (vi, k)); simpl. repeat split; auto.
Qed.

(** ** Two equal variable names: NodeDuplicatedError (in particular the model's [EKey] answer,
       "two different node names with the same key", is never given for marker-free names) *)
Lemma first_dup (A : Type) (dec : forall x y : A, {x = y} + {x <> y}) (l : list A) :
  ~ NoDup l -> exists l1 x l2, l = l1 ++ x :: l2 /\ NoDup l1 /\ In x l1.
Proof.
  induction l as [|a l IH] using rev_ind; intros H; [exfalso; apply H; constructor|].
  destruct (in_dec dec a l) as [Hin|Hnin].
  - assert (D : {NoDup l} + {~ NoDup l}).
    { clear -dec. induction l as [|b l IHl]; [left; constructor|].
      destruct IHl as [Y|N]; [|right; intros X; inversion X; contradiction].
      destruct (in_dec dec b l); [right; intros X; inversion X; contradiction|left; constructor; auto]. }
    destruct D as [Y|N].
    + exists l, a, []; auto.
    + destruct (IH N) as (l1 & x & l2 & -> & N1 & I1).
      exists l1, x, (l2 ++ [a]). rewrite <- app_assoc; auto.
  - assert (N : ~ NoDup l) by (intros Y; apply H; apply NoDup_snoc; assumption).
    destruct (IH N) as (l1 & x & l2 & -> & N1 & I1).
    exists l1, x, (l2 ++ [a]). rewrite <- app_assoc; auto.
Qed.

Lemma var_lag_pairs_nodup_inv vars ks :
  ks <> [] -> NoDup (var_lag_pairs vars ks) -> NoDup vars.
Proof.
  intros Hk; induction vars as [|v vars IH]; simpl; intros ND; [constructor|].
  destruct (NoDup_app_inv _ _ ND) as (_ & N2 & Dj). constructor; [|apply IH; exact N2].
  intros Hin. destruct ks as [|k0 ks]; [contradiction|].
  apply (Dj (v, k0)); [left; reflexivity|apply in_var_lag_pairs; split; [exact Hin|left; reflexivity]].
Qed.

Lemma add_named_dup (l1 : list key) (x : key) (l2 : list key) :
  (forall vk, In vk (l1 ++ x :: l2) -> good (fst vk) = true) -> NoDup l1 -> In x l1 ->
  rfold add_named (map tid (l1 ++ x :: l2)) ([], empty_tsg []) = Err ENodeDup.
Proof.
  intros G N1 I1. rewrite map_app, rfold_app.
  pose proof (add_named_loop l1 [] (fun vk H => G vk (in_or_app _ _ _ (or_introl H))) N1) as AN.
  simpl in AN. change (empty_tsg []) with (Build_tsg [] [] []). rewrite AN. simpl.
  unfold add_named at 1. destruct x as [v k]. change (tid (v, k)) with (tident v k).
  assert (Gv : good v = true) by (apply (G (v, k)); apply in_or_app; right; left; reflexivity).
  rewrite (NamesProofs.parse_tident v k Gv). cbn [fst].
  assert (M : mem (tident v k) (map tid l1) = true).
  { apply mem_in. change (tident v k) with (tid (v, k)). apply in_map; exact I1. }
  rewrite M; reflexivity.
Qed.

Theorem from_adjacency_matrices_dup_names d vars r :
  d <> [] -> NoDup (map fst d) -> (forall kv, In kv d -> dim r (snd kv)) ->
  length vars = r -> (forall v, In v vars -> good v = true) -> ~ NoDup vars ->
  forall cm validate, from_adjacency_matrices d (Some vars) cm validate = Err ENodeDup.
Proof.
  intros Hne Hnd Hdim Hlen Hgood Hdup cm validate.
  pose (d1 := with_zero r d). pose (ks1 := map fst d1). pose (T := length d1).
  pose (P := var_lag_pairs vars ks1).
  pose proof (d1_zero d r) as Z1. fold d1 in Z1. fold ks1 in Z1.
  destruct (zindex_in 0 ks1 Z1) as (i0 & Hi0).
  assert (Li0 : (i0 < T)%nat).
  { pose proof (zindex_lt _ _ _ Hi0) as L; unfold ks1 in L; rewrite map_length in L; exact L. }
  destruct (fill_ok ks1 T r i0 Li0 d1 (zeros (r * T))) as (full & Efull & Dfull & _).
  { intros kv Hkv; split; [|exact (d1_dim d r Hdim kv Hkv)].
    destruct (zindex_in (fst kv) ks1 (in_map fst _ _ Hkv)) as (t & Zt).
    exists t; split; [exact Zt|]. pose proof (zindex_lt _ _ _ Zt) as L; unfold ks1 in L.
    rewrite map_length in L; exact L. }
  { apply dim_zeros. }
  assert (PL : length P = (r * T)%nat) by exact (P_len d vars r Hlen).
  assert (PD : ~ NoDup P).
  { intros ND; apply Hdup. apply (var_lag_pairs_nodup_inv vars ks1); [|exact ND].
    intros E; rewrite E in Z1; destruct Z1. }
  assert (KD : forall x y : key, {x = y} + {x <> y}).
  { intros x y; destruct (key_eqb_spec x y); [left|right]; assumption. }
  destruct (first_dup key KD P PD) as (l1 & x & l2 & EP & N1 & I1).
  unfold from_adjacency_matrices. rewrite (dict_of_nodup d Hnd), (shapes_dim r d Hdim).
  assert (X : exists l, map (fun _ : Z * matrix => (r, r)) d = (r, r) :: l
                        /\ forallb (shape_eqb (r, r)) l = true).
  { destruct d as [|kv0 d']; [contradiction|]. eexists; split; [reflexivity|].
    apply forallb_forall; intros sh Hsh; apply in_map_iff in Hsh; destruct Hsh as (? & <- & _).
    unfold shape_eqb; simpl; rewrite Nat.eqb_refl; reflexivity. }
  destruct X as (shs & -> & X).
  rewrite X; cbn [negb fst].
  change (if has_key 0 d return lagdict then d else d ++ [(0, zeros r)]) with d1.
  rewrite Hlen, Nat.eqb_refl.
  fold ks1. fold T.
  rewrite (node_names_good vars ks1 Hgood). fold P.
  rewrite Hi0, Efull.
  unfold from_adjacency_matrix_ts.
  rewrite (is_square_dim _ _ Dfull); cbn [negb].
  assert (LN : length (map tid P) = length full).
  { destruct Dfull as [L _]. rewrite map_length, L. exact PL. }
  rewrite LN, Nat.eqb_refl; cbn [negb].
  assert (AD : rfold add_named (map tid P) ([], empty_tsg []) = Err ENodeDup).
  { rewrite EP. apply add_named_dup; [|exact N1|exact I1].
    intros [v k] Hin; simpl. rewrite <- EP in Hin. apply in_var_lag_pairs in Hin. apply Hgood; tauto. }
  rewrite AD; reflexivity.
Qed.

(** * Graphs up to the orientation of undirected edges *)

(** an edge of type [ty] from [s] to [t], or an undirected edge from [t] to [s] *)
Definition uedge (g : tsg) (s t : key) (ty : etype) : Prop :=
  edge_in g s t ty \/ (ty = Und /\ edge_in g t s Und).

(** same node keys; same edges with source, destination and type, an undirected edge being
    the same edge whichever endpoint is stored first *)
Definition same_shape (a b : tsg) : Prop :=
  (forall k, In k (map nkey (tnodes a)) <-> In k (map nkey (tnodes b)))
  /\ (forall s t ty, uedge a s t ty <-> uedge b s t ty).

Lemma uedge_sym g s t : uedge g s t Und <-> uedge g t s Und.
Proof. unfold uedge; split; intros [H|[_ H]]; auto. Qed.

Lemma same_shape_sym a b : same_shape a b -> same_shape b a.
Proof. intros [H1 H2]; split; intros; symmetry; auto. Qed.

Lemma same_shape_trans a b c : same_shape a b -> same_shape b c -> same_shape a c.
Proof.
  intros [H1 H2] [H3 H4]; split; intros.
  - rewrite H1; apply H3.
  - rewrite H2; apply H4.
Qed.

Lemma edge_in_key g s t ty : edge_in g s t ty -> In (s, t) (map ekey (tedges g)).
Proof.
  intros (e & He & Es & Et & _); apply in_map_iff; exists e; split; [|exact He].
  unfold ekey; rewrite Es, Et; reflexivity.
Qed.

Lemma edge_in_unique g s t ty ty' : wf g -> edge_in g s t ty -> edge_in g s t ty' -> ty = ty'.
Proof.
  intros W (e & He & Es & Et & Ty) (e' & He' & Es' & Et' & Ty').
  assert (e = e'); [|congruence].
  apply (NoDup_map_inj ekey (tedges g)); auto; [apply (wf_edges g W)|].
  unfold ekey; congruence.
Qed.

Lemma edge_in_norev g s t ty ty' : wf g -> edge_in g s t ty -> edge_in g t s ty' -> False.
Proof.
  intros W (e & He & Es & Et & _) (e' & He' & Es' & Et' & _).
  apply (wf_norev g W e e' He He'); congruence.
Qed.

Lemma has_edge_b_spec g s t ty : has_edge_b g s t ty = true <-> edge_in g s t ty.
Proof.
  unfold has_edge_b, edge_in; rewrite existsb_exists; split.
  - intros (e & He & H); rewrite !andb_true_iff, !key_eqb_eq, etype_eqb_eq in H.
    exists e; tauto.
  - intros (e & He & H); exists e; split; [exact He|].
    rewrite !andb_true_iff, !key_eqb_eq, etype_eqb_eq; tauto.
Qed.

Lemma has_uedge_b_spec g s t ty : has_uedge_b g s t ty = true <-> uedge g s t ty.
Proof.
  unfold has_uedge_b, uedge.
  rewrite orb_true_iff, andb_true_iff, etype_eqb_eq, !has_edge_b_spec. split.
  - intros [H|[-> H]]; auto.
  - intros [H|[-> H]]; auto.
Qed.

Theorem same_shape_b_spec a b : same_shape_b a b = true <-> same_shape a b.
Proof.
  unfold same_shape_b, same_shape. rewrite !andb_true_iff, !forallb_forall.
  assert (UE : forall x y, (forall e, In e (tedges x) -> has_uedge_b y (esrc e) (edst e) (ety e) = true)
                           <-> (forall s t ty, uedge x s t ty -> uedge y s t ty)).
  { intros x y; split.
    - intros H s t ty [(e & He & <- & <- & <-)|[-> (e & He & <- & <- & Ty)]].
      + apply has_uedge_b_spec, H, He.
      + apply uedge_sym. rewrite <- Ty. apply has_uedge_b_spec, H, He.
    - intros H e He; apply has_uedge_b_spec, H; left; exists e; auto. }
  rewrite !UE. split.
  - intros [[[H1 H2] H3] H4]. split.
    + intros k; split; intros Hk; apply in_map_iff in Hk; destruct Hk as (n & <- & Hn);
        apply node_exists_in; auto.
    + intros s t ty; split; auto.
  - intros [H1 H2]. repeat split.
    + intros n Hn; apply node_exists_in, H1, in_map, Hn.
    + intros n Hn; apply node_exists_in, H1, in_map, Hn.
    + intros s t ty; apply H2.
    + intros s t ty; apply H2.
Qed.

(** Two well-formed graphs of the same shape are equal for [CausalGraph.__eq__]. *)
Theorem same_shape_eqb a b : wf a -> wf b -> same_shape a b -> ts_graph_eqb a b = true.
Proof.
  intros Wa Wb [Hn He].
  (* every edge of x has a counterpart in y, with the same type *)
  assert (Cp : forall x y, wf x -> wf y -> (forall s t ty, uedge x s t ty <-> uedge y s t ty) ->
               forall e, In e (tedges x) ->
               exists e', In e' (tedges y) /\ ety e' = ety e
                 /\ (ekey e' = ekey e \/ (ety e = Und /\ ekey e' = (edst e, esrc e)))).
  { intros x y Wx Wy Hxy e Hin.
    assert (U : uedge x (esrc e) (edst e) (ety e)) by (left; exists e; auto).
    apply Hxy in U; destruct U as [(e' & He' & Es & Et & Ty)|[Ty (e' & He' & Es & Et & Ty')]].
    - exists e'; split; [exact He'|]. split; [exact Ty|left; unfold ekey; congruence].
    - exists e'; split; [exact He'|]. split; [congruence|right; split; [exact Ty|unfold ekey; congruence]]. }
  (* hence no more edges in x than in y *)
  assert (Len : forall x y, wf x -> wf y -> (forall s t ty, uedge x s t ty <-> uedge y s t ty) ->
                (length (tedges x) <= length (tedges y))%nat).
  { intros x y Wx Wy Hxy.
    pose (f := fun e : tedge => if edge_exists y (esrc e) (edst e) then ekey e else (edst e, esrc e)).
    assert (Hf : forall e, In e (tedges x) -> In (f e) (map ekey (tedges y))).
    { intros e Hin; destruct (Cp x y Wx Wy Hxy e Hin) as (e' & He' & _ & [K|[_ K]]); unfold f.
      - assert (X : edge_exists y (esrc e) (edst e) = true).
        { apply edge_exists_in; apply in_map_iff; exists e'; split; [exact K|exact He']. }
        rewrite X; rewrite <- K; apply in_map; exact He'.
      - destruct (edge_exists y (esrc e) (edst e)) eqn:X.
        + apply edge_exists_in in X; exact X.
        + rewrite <- K; apply in_map; exact He'. }
    assert (Inj : NoDup (map f (tedges x))).
    { assert (G : forall l, NoDup (map ekey l) -> (forall e, In e l -> In e (tedges x)) -> NoDup (map f l)).
      { induction l as [|e l IH]; simpl; intros ND Hl; [constructor|].
        inversion ND as [|? ? Hx ND']; subst. constructor; [|apply IH; auto].
        intros Hin; apply in_map_iff in Hin; destruct Hin as (e2 & E & H2).
        assert (I1 : In e (tedges x)) by (apply Hl; left; reflexivity).
        assert (I2 : In e2 (tedges x)) by (apply Hl; right; exact H2).
        unfold f in E.
        destruct (edge_exists y (esrc e2) (edst e2)), (edge_exists y (esrc e) (edst e)).
        - apply Hx; rewrite <- E; apply in_map; exact H2.
        - apply ekey_inv in E; destruct E as [E1 E2]. exact (wf_norev x Wx e2 e I2 I1 E1 E2).
        - symmetry in E; apply ekey_inv in E; destruct E as [E1 E2].
          exact (wf_norev x Wx e e2 I1 I2 E1 E2).
        - pose proof (f_equal fst E) as E1; pose proof (f_equal snd E) as E2; cbn [fst snd] in E1, E2.
          apply Hx. replace (ekey e) with (ekey e2) by (unfold ekey; congruence).
          apply in_map; exact H2. }
      apply G; [apply (wf_edges x Wx)|auto]. }
    rewrite <- (map_length f (tedges x)), <- (map_length ekey (tedges y)).
    apply NoDup_incl_length; [exact Inj|].
    intros k Hk; apply in_map_iff in Hk; destruct Hk as (e & <- & Hin); apply Hf, Hin. }
  assert (He' : forall s t ty, uedge b s t ty <-> uedge a s t ty) by (intros; symmetry; apply He).
  unfold ts_graph_eqb.
  assert (Ln : length (tnodes a) = length (tnodes b)).
  { rewrite <- (map_length nkey (tnodes a)), <- (map_length nkey (tnodes b)).
    apply Permutation_length, NoDup_Permutation; [apply (wf_nodes a Wa)|apply (wf_nodes b Wb)|exact Hn]. }
  assert (Le : length (tedges a) = length (tedges b)).
  { apply Nat.le_antisymm; [apply (Len a b)|apply (Len b a)]; auto. }
  rewrite Ln, Le, !Nat.eqb_refl; simpl.
  assert (Up : forall x y, wf x -> wf y -> (forall s t ty, uedge x s t ty <-> uedge y s t ty) ->
               forall e, In e (tedges x) ->
               existsb (fun e' => upair_eqb (ekey e) (ekey e')) (tedges y) = true).
  { intros x y Wx Wy Hxy e Hin; destruct (Cp x y Wx Wy Hxy e Hin) as (e' & Hi' & _ & K).
    apply existsb_exists; exists e'; split; [exact Hi'|]. unfold upair_eqb.
    destruct K as [K|[_ K]]; rewrite K; simpl; rewrite !key_eqb_refl; simpl; auto using orb_true_r. }
  repeat (apply andb_true_iff; split); apply forallb_forall.
  - intros n H; apply node_exists_in, Hn, in_map, H.
  - intros n H; apply node_exists_in, Hn, in_map, H.
  - intros e H; apply (Up a b); auto.
  - intros e H; apply (Up b a); auto.
  - intros e H; unfold edge_match.
    destruct (Cp a b Wa Wb He e H) as (e' & Hi' & Ty & K).
    destruct (find_edge b (esrc e) (edst e)) as [e1|] eqn:F1.
    + apply find_edge_some in F1; destruct F1 as [I1 K1].
      destruct K as [K|[U K]].
      * assert (e1 = e') by (apply (NoDup_map_inj ekey (tedges b)); auto;
                              [apply (wf_edges b Wb)|rewrite K1, K; reflexivity]).
        subst e1; rewrite Ty; destruct (etype_eqb_spec (ety e) (ety e)); congruence.
      * exfalso. apply ekey_inv in K1, K. destruct K1 as [A1 A2], K as [B1 B2].
        apply (wf_norev b Wb e1 e' I1 Hi'); congruence.
    + apply find_edge_none in F1. destruct K as [K|[U K]].
      * exfalso; apply F1; apply in_map_iff; exists e'; split; [exact K|exact Hi'].
      * apply ekey_inv in K; destruct K as [B1 B2].
        assert (F2 : find_edge b (edst e) (esrc e) = Some e').
        { rewrite <- B1, <- B2; apply find_edge_unique; [apply (wf_edges b Wb)|exact Hi']. }
        rewrite F2, Ty, U; reflexivity.
Qed.

(** * The minimal graph of a graph whose edges all end at lag 0 *)

Lemma lag0_consistent x : wf x -> (forall e, In e (tedges x) -> edl e = 0) -> consistent x.
Proof.
  intros W Z; split; [exact W|]. split.
  - intros e1 e2 H1 H2 Es Ed Dl. pose proof (Z e1 H1) as Z1; pose proof (Z e2 H2) as Z2.
    assert (e1 = e2); [|congruence].
    apply (NoDup_map_inj ekey (tedges x)); auto; [apply (wf_edges x W)|].
    unfold delta in Dl. unfold ekey, esrc, edst. f_equal; f_equal; auto; lia.
  - intros e1 e2 H1 H2 Es Ed D1 D2. pose proof (Z e1 H1) as Z1; pose proof (Z e2 H2) as Z2.
    unfold delta in D1, D2.
    apply (wf_norev x W e1 e2 H1 H2); unfold esrc, edst; f_equal; auto; lia.
Qed.

(** the node keys a lag-0 graph keeps when minimised: the endpoints of its edges, and the lag-0
    node of every variable that no edge touches *)
Definition Nset (x : tsg) (k : key) : Prop :=
  (exists e, In e (tedges x) /\ (k = esrc e \/ k = edst e))
  \/ (exists n, In n (tnodes x) /\ touches x (tv n) = false /\ k = (tv n, 0)).

Lemma lag0_minimal x :
  wf x -> (forall e, In e (tedges x) -> edl e = 0) ->
  exists mx, minimal x = Ok mx /\ wf mx
    /\ (forall s t ty, edge_in mx s t ty <-> edge_in x s t ty)
    /\ (forall k, In k (map nkey (tnodes mx)) <-> Nset x k).
Proof.
  intros W Z. pose proof (lag0_consistent x W Z) as C.
  destruct (minimal_ok x C) as (mx & E). exists mx. split; [exact E|].
  destruct (minimal_c14 x mx C E) as [_ Wm]. split; [exact Wm|].
  destruct (minimal_edges x mx C E) as (K1 & _ & K3 & K4).
  destruct (minimal_nodes x mx C E) as (N1 & _).
  assert (PS : forall e, In e (tedges x) -> place_src e = esrc e /\ place_dst e = edst e).
  { intros e He; apply place_self, Z, He. }
  split.
  - intros s t ty; split.
    + intros (e' & He' & Es & Et & Ty). destruct (K4 e' He') as (e0 & H0 & K & Ty0 & _).
      destruct (PS e0 H0) as [P1 P2]; rewrite P1, P2 in K. apply ekey_inv in K; destruct K as [A1 A2].
      exists e0; repeat split; congruence.
    + intros (e0 & H0 & Es & Et & Ty). destruct (PS e0 H0) as [P1 P2].
      assert (Hk : In (place_src e0, place_dst e0) (map ekey (tedges mx))) by (apply K1; eauto).
      apply in_map_iff in Hk; destruct Hk as (e' & K & He').
      pose proof (K3 e' e0 He' H0 K) as Ty'. rewrite P1, P2 in K.
      apply ekey_inv in K; destruct K as [A1 A2]. exists e'; repeat split; congruence.
  - intros k; rewrite N1; unfold Nset; split.
    + intros [(e0 & H0 & Hk)|H]; [left|right; exact H].
      destruct (PS e0 H0) as [P1 P2]; rewrite P1, P2 in Hk; eauto.
    + intros [(e0 & H0 & Hk)|H]; [left|right; exact H].
      destruct (PS e0 H0) as [P1 P2]; exists e0; rewrite P1, P2; auto.
Qed.

Lemma Nset_incl a b :
  (forall s t ty, uedge a s t ty <-> uedge b s t ty) ->
  (forall v, In v (map tv (tnodes a)) -> In v (map tv (tnodes b))) ->
  forall k, Nset a k -> Nset b k.
Proof.
  intros Hu Hv k [(e & He & Hk)|(n & Hn & T & ->)].
  - left. assert (U : uedge a (esrc e) (edst e) (ety e)) by (left; exists e; auto).
    apply Hu in U; destruct U as [(e' & He' & Es & Et & _)|[_ (e' & He' & Es & Et & _)]];
      exists e'; (split; [exact He'|]); destruct Hk as [-> | ->]; auto.
  - right. assert (Hvn : In (tv n) (map tv (tnodes b))) by (apply Hv, in_map, Hn).
    apply in_map_iff in Hvn; destruct Hvn as (n' & Tv & Hn').
    exists n'; split; [exact Hn'|]. rewrite Tv. split; [|reflexivity].
    apply touches_false; intros e He.
    assert (U : uedge b (esrc e) (edst e) (ety e)) by (left; exists e; auto).
    pose proof (proj1 (touches_false a (tv n)) T) as NT.
    apply Hu in U; destruct U as [(e' & He' & Es & Et & _)|[_ (e' & He' & Es & Et & _)]];
      destruct (NT e' He') as [N1 N2];
      pose proof (f_equal fst Es) as F1; pose proof (f_equal fst Et) as F2;
      unfold esrc, edst in F1, F2; simpl in F1, F2; split; congruence.
Qed.

(** * The round trip *)

(** the graph of directed edges has the same arcs in two graphs of the same shape *)
Lemma dir_arcs_same a b s t :
  (forall s t ty, uedge a s t ty <-> uedge b s t ty) ->
  In (s, t) (arcs (dir_digraph a)) -> In (s, t) (arcs (dir_digraph b)).
Proof.
  intros Hu H; unfold dir_digraph in *; simpl in *.
  apply in_map_iff in H; destruct H as (e & K & He). apply filter_In in He; destruct He as [He Ty].
  apply etype_eqb_eq in Ty. apply ekey_inv in K; destruct K as [Es Et].
  assert (U : uedge a s t Dir) by (left; exists e; auto).
  apply Hu in U; destruct U as [(e' & He' & Es' & Et' & Ty')|[X _]]; [|discriminate].
  apply in_map_iff; exists e'; split; [unfold ekey; congruence|].
  apply filter_In; split; [exact He'|apply etype_eqb_eq; exact Ty'].
Qed.

Lemma dir_digraph_wf g : wf g -> Digraph.wf (dir_digraph g).
Proof.
  intros W; split; [exact (wf_nodes g W)|].
  intros a b H; unfold arc, dir_digraph in H; simpl in H.
  apply in_map_iff in H; destruct H as (e & K & He). apply filter_In in He; destruct He as [He _].
  apply ekey_inv in K; destruct K as [<- <-]. exact (wf_ends g W e He).
Qed.

Lemma acyclicb_same a b :
  wf a -> wf b -> (forall s t ty, uedge a s t ty <-> uedge b s t ty) ->
  acyclicb key_eqb (dir_digraph a) = acyclicb key_eqb (dir_digraph b).
Proof.
  intros Wa Wb Hu.
  assert (G : forall x y, wf x -> wf y -> (forall s t ty, uedge x s t ty <-> uedge y s t ty) ->
              acyclicb key_eqb (dir_digraph y) = true -> acyclicb key_eqb (dir_digraph x) = true).
  { intros x y Wx Wy Hxy H.
    apply (DigraphProofs.acyclicb_spec key_eqb key_eqb_spec (dir_digraph_wf y Wy)) in H.
    apply (DigraphProofs.acyclicb_spec key_eqb key_eqb_spec (dir_digraph_wf x Wx)).
    assert (Mono : forall u w, path (dir_digraph x) u w -> path (dir_digraph y) u w).
    { intros u w Hp. induction Hp as [u w Harc|u w z _ IH1 _ IH2].
      - apply Relation_Operators.t_step. unfold arc in *. eapply dir_arcs_same; eauto.
      - eapply Relation_Operators.t_trans; eauto. }
    intros v Hp; exact (H v (Mono v v Hp)). }
  destruct (acyclicb key_eqb (dir_digraph b)) eqn:Eb.
  - apply (G a b); auto.
  - destruct (acyclicb key_eqb (dir_digraph a)) eqn:Ea; [|reflexivity].
    rewrite (G b a Wb Wa) in Eb; [discriminate| |exact Ea]. intros; symmetry; apply Hu.
Qed.

(** ** Hypotheses of the round trip *)

(** variable names are non-empty and free of lag / future markers *)
Definition good_vars (g : tsg) : Prop := forall n, In n (tnodes g) -> good (tv n) = true.
(** only directed edges and contemporaneous undirected edges *)
Definition dir_or_und0 (g : tsg) : Prop :=
  forall e, In e (tedges g) -> ety e = Dir \/ (ety e = Und /\ delta e = 0).

Lemma good_vars_b_spec g : good_vars_b g = true <-> good_vars g.
Proof. unfold good_vars_b, good_vars; rewrite forallb_forall; reflexivity. Qed.

Lemma dir_or_und0_b_spec g : dir_or_und0_b g = true <-> dir_or_und0 g.
Proof.
  unfold dir_or_und0_b, dir_or_und0; rewrite forallb_forall.
  split; intros H e He; specialize (H e He).
  - apply orb_true_iff in H; rewrite andb_true_iff, !etype_eqb_eq, Z.eqb_eq in H; exact H.
  - apply orb_true_iff; rewrite andb_true_iff, !etype_eqb_eq, Z.eqb_eq; exact H.
Qed.

(** what the hypotheses say about the minimal graph *)
Lemma min_facts g m :
  consistent g -> good_vars g -> dir_or_und0 g -> minimal g = Ok m ->
  (forall e, In e (tedges m) -> edl e = 0 /\ esl e <= 0)
  /\ (forall e, In e (tedges m) -> ety e = Dir \/ (ety e = Und /\ esl e = 0))
  /\ (forall v, In v (variables m) -> good v = true)
  /\ (tedges g <> [] -> tedges m <> []).
Proof.
  intros C GV TY E. destruct (minimal_c14 g m C E) as [S W]. repeat split.
  - exact (c14_edl0 g m e S H).
  - pose proof (wf_time m W e H) as T; rewrite (c14_edl0 g m e S H) in T; exact T.
  - intros e He; destruct (c14_es g m S e He) as (e0 & H0 & Ks & _ & Ty & _).
    rewrite Ty. destruct (TY e0 H0) as [D|[U Z]]; [left; exact D|right; split; [exact U|]].
    pose proof (f_equal snd Ks) as L; unfold esrc, place_src in L; simpl in L. lia.
  - intros v Hv; apply variables_in in Hv; apply in_map_iff in Hv; destruct Hv as (n' & <- & Hn').
    destruct (c14_ns g m S n' Hn') as [(e0 & H0 & [(n0 & F0 & ->)|(n0 & F0 & ->)])|(_ & n0 & F0 & ->)];
      simpl; apply GV.
    + apply find_node_some in F0; tauto.
    + apply find_node_some in F0; tauto.
    + apply first_of_var_some in F0; tauto.
  - intros Hne Hm. destruct (tedges g) as [|e0 l] eqn:Eg; [contradiction|].
    assert (H0 : In e0 (tedges g)) by (rewrite Eg; left; reflexivity).
    pose proof (c14_ec g m S e0 H0) as K. rewrite Hm in K; destruct K.
Qed.

(** the relation the matrices encode: an edge from [s] to [t], or an undirected edge from [t] to [s] *)
Definition U (m : tsg) (s t : key) : Prop :=
  exists e, In e (tedges m) /\ ((esrc e = s /\ edst e = t) \/ (ety e = Und /\ esrc e = t /\ edst e = s)).

Lemma in_keys0 d : In 0 (keys0 d).
Proof.
  unfold keys0; destruct (has_key 0 d) eqn:E.
  - rewrite app_nil_r; apply has_key_in; exact E.
  - apply in_or_app; right; left; reflexivity.
Qed.

(** default attributes everywhere: what a graph built from matrices carries *)
Definition default_attrs (g : tsg) : Prop :=
  (forall n, In n (tnodes g) -> tvt n = VUnspec /\ tm n = [])
  /\ (forall e, In e (tedges g) -> em e = [])
  /\ tgmeta g = [].

Lemma minimal_default_attrs x mx :
  consistent x -> minimal x = Ok mx -> default_attrs x -> default_attrs mx.
Proof.
  intros C E (An & Ae & Am). destruct (minimal_c14 x mx C E) as [S _]. split; [|split].
  - intros n' Hn'.
    destruct (c14_ns x mx S n' Hn') as [(e0 & H0 & [(n0 & F0 & ->)|(n0 & F0 & ->)])|(_ & n0 & F0 & ->)];
      simpl; apply An.
    + apply find_node_some in F0; tauto.
    + apply find_node_some in F0; tauto.
    + apply first_of_var_some in F0; tauto.
  - intros e' He'; destruct (c14_es x mx S e' He') as (e0 & H0 & _ & _ & _ & Em).
    rewrite Em; apply Ae, H0.
  - rewrite (c14_meta x mx S); exact Am.
Qed.

Lemma roundtrip_core g m :
  consistent g -> good_vars g -> dir_or_und0 g -> tedges g <> [] -> minimal g = Ok m ->
  exists d g1,
    adj_matrices g = Ok d
    /\ wf g1 /\ (forall e, In e (tedges g1) -> edl e = 0)
    /\ (forall s t ty, uedge g1 s t ty <-> uedge m s t ty)
    /\ (forall v, In v (map tv (tnodes g1)) <-> In v (map tv (tnodes m)))
    /\ tnodes g1 = map mk_node (var_lag_pairs (variables m) (keys0 d))
    /\ default_attrs g1
    /\ forall cm validate,
         from_adjacency_matrices d (Some (variables m)) cm validate =
           if validate && negb (acyclicb key_eqb (dir_digraph g1)) then Err ECyclic
           else if cm then minimal g1 else Ok g1.
Proof.
  intros C GV TY NE E.
  destruct (min_facts g m C GV TY E) as (M1 & M2 & M3 & M4). specialize (M4 NE).
  destruct (minimal_c14 g m C E) as [S W].
  assert (Ty : forall e, In e (tedges m) -> ety e = Dir \/ ety e = Und).
  { intros e He; destruct (M2 e He) as [D|[Un _]]; auto. }
  destruct (adj_matrices_spec g m C E Ty) as (d & Ed & ND & Keys & Dim & _).
  pose proof (adj_matrices_entries g m d C E Ty Ed) as Ent.
  set (vars := variables m) in *.
  assert (Hne : d <> []).
  { destruct (tedges m) as [|e0 l] eqn:Em; [contradiction|].
    assert (K : In (esl e0) (map fst d)) by (apply Keys; exists e0; split; [left; reflexivity|reflexivity]).
    intros ->; destruct K. }
  assert (Hle : forall k, In k (map fst d) -> k <= 0).
  { intros k Hk; apply Keys in Hk; destruct Hk as (e & He & <-); apply M1, He. }
  assert (Hdim : forall kv, In kv d -> dim (length vars) (snd kv)).
  { intros [k mx] Hkv; exact (Dim k mx Hkv). }
  (* the cells are the relation U *)
  assert (LU : forall s t, lag_cell d vars s t <-> U m s t).
  { intros [v k] [w k']; split.
    - intros (K0 & mx & i & j & Hin & Vi & Vj & Hc); simpl in *; subst k'.
      apply (Ent k mx i j Hin) in Hc. destruct Hc as (vi & vj & Vi' & Vj' & e & He & Hcase).
      assert (vi = v) by congruence; assert (vj = w) by congruence; subst vi vj.
      exists e; split; [exact He|]. destruct Hcase as [[Es Et]|[Un [Es Et]]]; [left; auto|right].
      destruct (M2 e He) as [D|[_ Z0]]; [congruence|].
      split; [exact Un|]. pose proof (f_equal snd Es) as L; unfold esrc in L; simpl in L.
      assert (k = 0) by lia; subst k. split; congruence.
    - intros (e & He & Hcase).
      destruct (M1 e He) as [Z0 _].
      destruct (minimal_edge_vars g m e C E He) as [Vs Vd]. fold vars in Vs, Vd.
      destruct (In_nth_error _ _ Vs) as (is_ & Is); destruct (In_nth_error _ _ Vd) as (id_ & Id).
      assert (Hk : In (esl e) (map fst d)) by (apply Keys; eauto).
      apply in_map_iff in Hk; destruct Hk as ([k0 mx] & K0 & Hin); simpl in K0; subst k0.
      destruct Hcase as [[Es Et]|[Un [Es Et]]].
      + unfold esrc in Es; unfold edst in Et; inversion Es; inversion Et; subst.
        split; [exact Z0|]. exists mx, is_, id_; simpl. repeat split; auto.
        apply (Ent (esl e) mx is_ id_ Hin). exists (es e), (ed e). repeat split; auto.
        exists e; split; [exact He|left]. unfold esrc, edst; rewrite Z0; auto.
      + destruct (M2 e He) as [D|[_ L0]]; [congruence|].
        unfold esrc in Es; unfold edst in Et; inversion Es; inversion Et; subst.
        split; [simpl; exact L0|]. exists mx, id_, is_; simpl. rewrite Z0, <- L0. repeat split; auto.
        apply (Ent (esl e) mx id_ is_ Hin). exists (ed e), (es e). repeat split; auto.
        exists e; split; [exact He|right]. unfold esrc, edst; rewrite Z0; auto. }
  destruct (from_adjacency_matrices_spec d vars (length vars) Hne ND Hdim eq_refl
              (variables_nodup m) M3 Hle) as (g1 & W1 & N1 & Mg1 & Ed1 & Em1 & Efrom).
  exists d, g1. split; [exact Ed|]. split; [exact W1|].
  (* edges of g1 in terms of U *)
  assert (EdU : forall s t ty, edge_in g1 s t ty <->
            (ty = Dir /\ U m s t /\ ~ U m t s)
            \/ (ty = Und /\ U m s t /\ U m t s /\ var_before vars (fst s) (fst t))).
  { intros s t ty; rewrite Ed1, !LU; reflexivity. }
  assert (UDir : forall s t, U m s t /\ ~ U m t s <-> edge_in m s t Dir).
  { intros s t; split.
    - intros [(e & He & [[Es Et]|[Un [Es Et]]]) NU].
      + destruct (Ty e He) as [D|Un]; [exists e; auto|].
        exfalso; apply NU; exists e; split; [exact He|right; auto].
      + exfalso; apply NU; exists e; split; [exact He|left; auto].
    - intros (e & He & Es & Et & D). split; [exists e; split; [exact He|left; auto]|].
      intros (e' & He' & [[Es' Et']|[Un [Es' Et']]]).
      + apply (wf_norev m W e e' He He'); congruence.
      + assert (e' = e); [|congruence].
        apply (NoDup_map_inj ekey (tedges m)); auto; [apply (wf_edges m W)|unfold ekey; congruence]. }
  assert (UUnd : forall s t, U m s t /\ U m t s <-> uedge m s t Und).
  { intros s t; split.
    - intros [(e & He & [[Es Et]|[Un [Es Et]]]) (e' & He' & [[Es' Et']|[Un' [Es' Et']]])].
      + exfalso; apply (wf_norev m W e e' He He'); congruence.
      + left; exists e'; auto.
      + right; split; [reflexivity|]; exists e; auto.
      + right; split; [reflexivity|]; exists e; auto.
    - intros [(e & He & Es & Et & Un)|[_ (e & He & Es & Et & Un)]].
      + split; exists e; (split; [exact He|]); [left|right]; auto.
      + split; exists e; (split; [exact He|]); [right|left]; auto. }
  assert (Lag0 : forall s t, uedge m s t Und -> snd s = 0 /\ snd t = 0 /\ In (fst s) vars /\ In (fst t) vars /\ s <> t).
  { assert (G : forall s t, edge_in m s t Und -> snd s = 0 /\ snd t = 0 /\ In (fst s) vars /\ In (fst t) vars /\ s <> t).
    { intros s t (e & He & <- & <- & Un). destruct (M1 e He) as [Z0 _].
      destruct (M2 e He) as [D|[_ L0]]; [congruence|].
      destruct (minimal_edge_vars g m e C E He) as [Vs Vd].
      unfold esrc, edst; simpl. repeat split; auto. exact (wf_noself m e W He). }
    intros s t [H|[_ H]]; [apply G, H|]. destruct (G t s H) as (A & B & C' & D & F). repeat split; auto. }
  assert (Hu : forall s t ty, uedge g1 s t ty <-> uedge m s t ty).
  { intros s t ty; unfold uedge at 1. rewrite !EdU. split.
    - intros [[(-> & H)|(-> & H1 & H2 & _)]|[-> [(X & _)|(_ & H1 & H2 & _)]]]; try discriminate.
      + left; apply UDir; exact H.
      + apply UUnd; auto.
      + apply UUnd; auto.
    - intros H. destruct ty; try (exfalso; destruct H as [(e & He & _ & _ & T)|[X _]];
        [destruct (Ty e He); congruence|discriminate]).
      + destruct H as [H|[X _]]; [|discriminate]. left; left; split; [reflexivity|apply UDir; exact H].
      + destruct (Lag0 s t H) as (S0 & T0 & Vs & Vt & Ne).
        apply UUnd in H; destruct H as [H1 H2].
        destruct (In_nth_error _ _ Vs) as (i & Vi); destruct (In_nth_error _ _ Vt) as (j & Vj).
        destruct (Nat.lt_trichotomy i j) as [Lt|[Eq|Gt]].
        * left; right; split; [reflexivity|]. repeat split; auto. exists i, j; auto.
        * exfalso; apply Ne. subst j. destruct s, t; simpl in *; congruence.
        * right; split; [reflexivity|]. right; split; [reflexivity|]. repeat split; auto. exists j, i; auto. }
  split.
  { intros e He. assert (X : edge_in g1 (esrc e) (edst e) (ety e)) by (exists e; auto).
    apply EdU in X. destruct X as [(_ & (e' & He' & Hc) & _)|(_ & (e' & He' & Hc) & _)];
      destruct (M1 e' He') as [Z0 _]; destruct (M2 e' He') as [D|[Un L0]];
      destruct Hc as [[_ Et]|[Un' [Es _]]]; try congruence;
      try (pose proof (f_equal snd Et) as X; unfold edst in X; simpl in X; congruence);
      pose proof (f_equal snd Es) as X; unfold esrc, edst in X; simpl in X; congruence. }
  split; [exact Hu|]. split.
  { intros v. rewrite N1, map_map. rewrite <- (variables_in m v). fold vars. split.
    - intros H; apply in_map_iff in H; destruct H as ([v' k] & <- & H); simpl.
      apply in_var_lag_pairs in H; tauto.
    - intros H; apply in_map_iff; exists (v, 0); split; [reflexivity|].
      apply in_var_lag_pairs; split; [exact H|apply in_keys0]. }
  split; [exact N1|]. split; [|exact Efrom].
  split; [|split; [exact Em1|exact Mg1]].
  intros n Hn; rewrite N1 in Hn; apply in_map_iff in Hn; destruct Hn as (k & <- & _); auto.
Qed.

(** * Main theorems *)

(** ** to_numpy_by_lag: what is returned, entry by entry.  On a consistent graph whose minimal
    graph [m] has only directed and undirected edges the result is (matrices, sorted variable
    names of [m]) with one [n x n] matrix per source lag of [m]; entry (i, j) of the matrix of
    lag [k] is 1 iff [m] has an edge (var_i at lag k) -> or -- (var_j at lag 0), or an
    UNDIRECTED edge (var_j at lag k) -- (var_i at lag 0). *)
Theorem lag_matrices_entry_spec g m :
  consistent g -> minimal g = Ok m ->
  (forall e, In e (tedges m) -> ety e = Dir \/ ety e = Und) ->
  exists d, to_numpy_by_lag g = Ok (d, variables m)
    /\ NoDup (map fst d)
    /\ (forall k, In k (map fst d) <-> exists e, In e (tedges m) /\ esl e = k)
    /\ (forall k mx, In (k, mx) d -> dim (length (variables m)) mx)
    /\ (forall k mx i j, In (k, mx) d ->
          (cell mx i j = true <->
           exists vi vj, nth_error (variables m) i = Some vi /\ nth_error (variables m) j = Some vj
             /\ exists e, In e (tedges m)
                  /\ ((esrc e = (vi, k) /\ edst e = (vj, 0))
                      \/ (ety e = Und /\ esrc e = (vj, k) /\ edst e = (vi, 0))))).
Proof.
  intros C E Ty. destruct (adj_matrices_spec g m C E Ty) as (d & Ed & ND & Keys & Dim & _).
  exists d. split; [unfold to_numpy_by_lag; rewrite Ed, E; reflexivity|].
  split; [exact ND|]. split; [exact Keys|]. split; [exact Dim|].
  exact (adj_matrices_entries g m d C E Ty Ed).
Qed.

(** the key order of the dict: source lags of the minimal graph's edges, taken in
    [get_edges()] order, each at its first occurrence *)
Fixpoint first_seen (seen : list Z) (l : list Z) : list Z :=
  match l with
  | [] => seen
  | k :: l' => first_seen (if existsb (Z.eqb k) seen then seen else seen ++ [k]) l'
  end.

Lemma upd_lag_key_list k n f d :
  map fst (upd_lag k n f d) = if existsb (Z.eqb k) (map fst d) then map fst d else map fst d ++ [k].
Proof.
  induction d as [|[k' mx] d IH]; simpl; [reflexivity|].
  destruct (Z.eqb_spec k k') as [->|Hn]; simpl; [reflexivity|].
  rewrite IH; destruct (existsb (Z.eqb k) (map fst d)); reflexivity.
Qed.

Theorem lag_matrices_key_order g m d vars :
  minimal g = Ok m -> to_numpy_by_lag g = Ok (d, vars) ->
  map fst d = first_seen [] (map esl (sorted_edges m)) /\ vars = variables m.
Proof.
  intros E H; unfold to_numpy_by_lag, adj_matrices in H; rewrite E in H.
  destruct (rfold (adj_step (variables m)) (sorted_edges m) []) as [d'|] eqn:R; [|discriminate].
  inversion H; subst d' vars. split; [|reflexivity].
  assert (G : forall l acc d0, rfold (adj_step (variables m)) l acc = Ok d0 ->
              map fst d0 = first_seen (map fst acc) (map esl l)).
  { induction l as [|e l IH]; intros acc d0 Hr; simpl in *; [inversion Hr; reflexivity|].
    destruct (adj_step (variables m) acc e) as [acc'|] eqn:St; [|discriminate].
    rewrite (IH acc' d0 Hr). f_equal. unfold adj_step in St.
    destruct (index_of (es e) (variables m)); [|discriminate].
    destruct (index_of (ed e) (variables m)); [|discriminate].
    destruct (ety e); inversion St; apply upd_lag_key_list. }
  exact (G _ _ _ R).
Qed.

(** ** Any edge that is neither directed nor undirected: TypeError *)
Theorem lag_matrices_refuse_other_types g :
  consistent g -> (exists e, In e (tedges g) /\ ety e <> Dir /\ ety e <> Und) ->
  to_numpy_by_lag g = Err EType /\ forall validate, lag_roundtrip validate g = Err EType.
Proof.
  intros C (e0 & H0 & T1 & T2). destruct (minimal_ok g C) as (m & E).
  destruct (minimal_c14 g m C E) as [S _].
  assert (X : adj_matrices g = Err EType).
  { apply (adj_matrices_type_error g m C E).
    pose proof (c14_ec g m S e0 H0) as K; apply in_map_iff in K; destruct K as (e' & K & He').
    destruct (minimal_edges g m C E) as (_ & _ & K3 & _).
    exists e'; split; [exact He'|]. rewrite (K3 e' e0 He' H0 K); auto. }
  assert (Y : to_numpy_by_lag g = Err EType) by (unfold to_numpy_by_lag; rewrite X; reflexivity).
  split; [exact Y|]. intros v; unfold lag_roundtrip; rewrite Y; reflexivity.
Qed.

(** ** A graph without edges: to_numpy_by_lag returns ({}, variables) and
       from_adjacency_matrices({}) fails its shape assertion *)
Theorem from_adjacency_matrices_empty names cm validate :
  from_adjacency_matrices [] names cm validate = Err EAssert.
Proof. reflexivity. Qed.

Theorem lag_matrices_edgeless g :
  consistent g -> tedges g = [] ->
  exists m, minimal g = Ok m /\ to_numpy_by_lag g = Ok ([], variables m)
            /\ forall validate, lag_roundtrip validate g = Err EAssert.
Proof.
  intros C Hg. destruct (minimal_ok g C) as (m & E). exists m. split; [exact E|].
  destruct (minimal_c14 g m C E) as [S _].
  assert (Hm : tedges m = []).
  { destruct (tedges m) as [|e' l] eqn:Em; [reflexivity|].
    destruct (c14_es g m S e') as (e0 & H0 & _); [rewrite Em; left; reflexivity|].
    rewrite Hg in H0; destruct H0. }
  assert (Y : to_numpy_by_lag g = Ok ([], variables m)).
  { unfold to_numpy_by_lag, adj_matrices; rewrite E. unfold sorted_edges; rewrite Hm; reflexivity. }
  split; [exact Y|]. intros v; unfold lag_roundtrip; rewrite Y; reflexivity.
Qed.

(** ** The round trip (C08).  For a consistent time-series graph with at least one edge, made of
    directed edges and contemporaneous undirected edges, with marker-free variable names:
    [from_adjacency_matrices( *g.to_numpy_by_lag(), validate=v)] returns a graph with exactly
    the node keys of the minimal graph [m] of [g] and exactly its edges (source, destination,
    type; an undirected edge may be stored the other way round), equal to [m] for
    [CausalGraph.__eq__] in both directions — for [v = False] always, for [v = True] (the
    default) when the directed part of [m] is acyclic. *)
Theorem lag_matrices_roundtrip g m validate :
  consistent g -> good_vars g -> dir_or_und0 g -> tedges g <> [] -> minimal g = Ok m ->
  (validate = true -> acyclicb key_eqb (dir_digraph m) = true) ->
  exists d m',
    to_numpy_by_lag g = Ok (d, variables m)
    /\ from_adjacency_matrices d (Some (variables m)) true validate = Ok m'
    /\ lag_roundtrip validate g = Ok m'
    /\ wf m' /\ same_shape m' m /\ default_attrs m'
    /\ ts_graph_eqb m' m = true /\ ts_graph_eqb m m' = true.
Proof.
  intros C GV TY NE E Hv.
  destruct (roundtrip_core g m C GV TY NE E) as (d & g1 & Ed & W1 & Z1 & Hu & Hvars & Ng1 & Da1 & Efrom).
  destruct (minimal_c14 g m C E) as [S W].
  destruct (min_facts g m C GV TY E) as (M1 & _).
  assert (Enp : to_numpy_by_lag g = Ok (d, variables m)).
  { unfold to_numpy_by_lag; rewrite Ed, E; reflexivity. }
  destruct (lag0_minimal g1 W1 Z1) as (m' & E' & W' & Ed' & Nd').
  assert (Zm : forall e, In e (tedges m) -> edl e = 0) by (intros e He; apply M1, He).
  destruct (lag0_minimal m W Zm) as (m2 & E2 & W2 & Ed2 & Nd2).
  destruct (minimal_idem g m C E) as (m3 & E3 & SG & _).
  assert (m3 = m2) by congruence; subst m3.
  assert (Ef : from_adjacency_matrices d (Some (variables m)) true validate = Ok m').
  { rewrite Efrom. rewrite (acyclicb_same g1 m W1 W Hu).
    destruct validate; simpl; [rewrite (Hv eq_refl); simpl|]; exact E'. }
  exists d, m'. split; [exact Enp|]. split; [exact Ef|].
  split; [unfold lag_roundtrip; rewrite Enp; exact Ef|]. split; [exact W'|].
  assert (SS : same_shape m' m).
  { split.
    - intros k. rewrite Nd'.
      assert (Hk2 : In k (map nkey (tnodes m)) <-> In k (map nkey (tnodes m2))).
      { destruct SG as (Hn & _ & _). split; intros H; apply in_map_iff in H;
          destruct H as (n & <- & Hn'); apply in_map, Hn, Hn'. }
      rewrite Hk2, Nd2. split; apply Nset_incl; auto.
      + intros v Hvv; apply Hvars; exact Hvv.
      + intros; symmetry; apply Hu.
      + intros v Hvv; apply Hvars; exact Hvv.
    - intros s t ty. rewrite <- Hu. unfold uedge. rewrite !Ed'. reflexivity. }
  split; [exact SS|].
  split; [exact (minimal_default_attrs g1 m' (lag0_consistent g1 W1 Z1) E' Da1)|].
  split; [apply same_shape_eqb; auto|].
  apply same_shape_eqb; auto. apply same_shape_sym; exact SS.
Qed.

(** With the default [validate=True] the round trip raises CyclicConnectionError exactly in the
    remaining case: the directed edges of the minimal graph form a cycle. *)
Theorem lag_matrices_roundtrip_cyclic g m :
  consistent g -> good_vars g -> dir_or_und0 g -> tedges g <> [] -> minimal g = Ok m ->
  acyclicb key_eqb (dir_digraph m) = false ->
  lag_roundtrip true g = Err ECyclic.
Proof.
  intros C GV TY NE E Hc.
  destruct (roundtrip_core g m C GV TY NE E) as (d & g1 & Ed & W1 & Z1 & Hu & Hvars & Ng1 & Da1 & Efrom).
  destruct (minimal_c14 g m C E) as [S W].
  unfold lag_roundtrip, to_numpy_by_lag. rewrite Ed, E, Efrom.
  rewrite (acyclicb_same g1 m W1 W Hu), Hc; reflexivity.
Qed.

(** The same with every hypothesis decided by a boolean and the minimal graph quantified away. *)
Corollary lag_matrices_roundtrip_b g validate :
  consistent_b g = true -> good_vars_b g = true -> dir_or_und0_b g = true ->
  negb (match tedges g with [] => true | _ => false end) = true ->
  exists m m',
    minimal g = Ok m /\ lag_roundtrip validate g =
      (if validate && negb (acyclicb key_eqb (dir_digraph m)) then Err ECyclic else Ok m')
    /\ (validate && negb (acyclicb key_eqb (dir_digraph m)) = false ->
        same_shape_b m' m = true /\ ts_graph_eqb m' m = true /\ ts_graph_eqb m m' = true).
Proof.
  intros C GV TY NE. apply consistent_b_spec in C. apply good_vars_b_spec in GV.
  apply dir_or_und0_b_spec in TY.
  assert (NE' : tedges g <> []) by (destruct (tedges g); [discriminate|discriminate]).
  destruct (minimal_ok g C) as (m & E). exists m.
  destruct (acyclicb key_eqb (dir_digraph m)) eqn:A.
  - destruct (lag_matrices_roundtrip g m validate C GV TY NE' E (fun _ => A))
      as (d & m' & _ & _ & R & _ & SS & _ & Q1 & Q2).
    exists m'. split; [exact E|]. rewrite andb_false_r. split; [exact R|].
    intros _; split; [apply same_shape_b_spec; exact SS|auto].
  - destruct validate.
    + exists m. split; [exact E|]. simpl. split; [exact (lag_matrices_roundtrip_cyclic g m C GV TY NE' E A)|].
      discriminate.
    + destruct (lag_matrices_roundtrip g m false C GV TY NE' E ltac:(discriminate))
        as (d & m' & _ & _ & R & _ & SS & _ & Q1 & Q2).
      exists m'. split; [exact E|]. simpl. split; [exact R|].
      intros _; split; [apply same_shape_b_spec; exact SS|auto].
Qed.

(** ** [construct_minimal=False]: the graph before minimisation has the edges of the minimal
    graph and the node (variable, key) for EVERY variable and every key of the dict (plus 0),
    variable-major, in dict order *)
Theorem lag_matrices_roundtrip_full g m :
  consistent g -> good_vars g -> dir_or_und0 g -> tedges g <> [] -> minimal g = Ok m ->
  exists d g1,
    to_numpy_by_lag g = Ok (d, variables m)
    /\ from_adjacency_matrices d (Some (variables m)) false false = Ok g1
    /\ wf g1 /\ default_attrs g1
    /\ tnodes g1 = map mk_node (var_lag_pairs (variables m) (keys0 d))
    /\ (forall s t ty, uedge g1 s t ty <-> uedge m s t ty).
Proof.
  intros C GV TY NE E.
  destruct (roundtrip_core g m C GV TY NE E) as (d & g1 & Ed & W1 & Z1 & Hu & Hvars & Ng1 & Da1 & Efrom).
  exists d, g1. split; [unfold to_numpy_by_lag; rewrite Ed, E; reflexivity|].
  split; [rewrite Efrom; reflexivity|]. auto.
Qed.

(** a minimal graph that [is_dag()] has an acyclic directed part *)
Lemma ts_is_dag_dir_acyclic m : ts_is_dag m = true -> acyclicb key_eqb (dir_digraph m) = true.
Proof.
  unfold ts_is_dag; intros H; apply andb_true_iff in H; destruct H as [A B].
  assert (F : filter (fun e => etype_eqb (ety e) Dir) (tedges m) = tedges m).
  { clear B; induction (tedges m) as [|e l IH]; simpl in *; [reflexivity|].
    apply andb_true_iff in A; destruct A as [A1 A2]; rewrite A1, IH; auto. }
  unfold dir_digraph; rewrite F; exact B.
Qed.

(** ** Malformed input: AssertionError *)
Theorem from_adjacency_matrices_bad_names d names r cm validate :
  d <> [] -> NoDup (map fst d) -> (forall kv, In kv d -> dim r (snd kv)) ->
  length names <> r ->
  from_adjacency_matrices d (Some names) cm validate = Err EAssert.
Proof.
  intros Hne Hnd Hdim Hl. unfold from_adjacency_matrices.
  rewrite (dict_of_nodup d Hnd), (shapes_dim r d Hdim).
  destruct d as [|kv0 d']; [contradiction|]. cbn [map].
  assert (X : forallb (shape_eqb (r, r)) (map (fun _ : Z * matrix => (r, r)) d') = true).
  { apply forallb_forall; intros sh Hsh; apply in_map_iff in Hsh; destruct Hsh as (? & <- & _).
    unfold shape_eqb; simpl; rewrite Nat.eqb_refl; reflexivity. }
  rewrite X; cbn [negb fst].
  destruct (Nat.eqb_spec (length names) r); [contradiction|reflexivity].
Qed.

Theorem from_adjacency_matrices_bad_shapes d names r1 r2 k1 k2 mx1 mx2 cm validate :
  NoDup (map fst d) -> (forall kv, In kv d -> exists r, dim r (snd kv)) ->
  In (k1, mx1) d -> In (k2, mx2) d -> dim r1 mx1 -> dim r2 mx2 -> r1 <> r2 ->
  from_adjacency_matrices d names cm validate = Err EAssert.
Proof.
  intros Hnd Hdim H1 H2 D1 D2 Hr. unfold from_adjacency_matrices. rewrite (dict_of_nodup d Hnd).
  assert (S : exists l, shapes d = Some l /\ In (r1, r1) l /\ In (r2, r2) l).
  { clear Hnd. induction d as [|[k mx] d IH]; [destruct H1|]. simpl.
    destruct (Hdim (k, mx) (or_introl eq_refl)) as (r & Dm); simpl in Dm. rewrite (shape_dim r mx Dm).
    assert (Hd' : forall kv, In kv d -> exists r, dim r (snd kv)) by (intros; apply Hdim; right; auto).
    assert (Tot : exists l, shapes d = Some l).
    { clear -Hd'. induction d as [|[k mx] d IH]; [eexists; reflexivity|]. simpl.
      destruct (Hd' (k, mx) (or_introl eq_refl)) as (r & Dm); simpl in Dm. rewrite (shape_dim r mx Dm).
      destruct IH as (l & ->); [intros; apply Hd'; right; auto|eexists; reflexivity]. }
    destruct Tot as (l & El); rewrite El. exists ((r, r) :: l). split; [reflexivity|].
    assert (G : forall k0 mx0 r0, In (k0, mx0) ((k, mx) :: d) -> dim r0 mx0 -> In (r0, r0) ((r, r) :: l)).
    { intros k0 mx0 r0 [H|H] D0.
      - inversion H; subst. left. destruct Dm as [L1 _], D0 as [L2 _]. congruence.
      - right. clear -H D0 El Hd'. revert l El. induction d as [|[k' mx'] d IH]; intros l El; [destruct H|].
        simpl in El. destruct (Hd' (k', mx') (or_introl eq_refl)) as (r' & Dm'); simpl in Dm'.
        rewrite (shape_dim r' mx' Dm') in El.
        destruct (shapes d) as [l'|] eqn:El'; [|discriminate]. inversion El; subst l.
        destruct H as [H|H].
        + inversion H; subst. left. destruct Dm' as [L1 _], D0 as [L2 _]. congruence.
        + right. apply IH; auto. intros; apply Hd'; right; auto. }
    split; [exact (G k1 mx1 r1 H1 D1)|exact (G k2 mx2 r2 H2 D2)]. }
  destruct S as (l & -> & I1 & I2).
  destruct l as [|sh shs]; [destruct I1|].
  destruct (forallb (shape_eqb sh) shs) eqn:F; [|reflexivity]. exfalso.
  rewrite forallb_forall in F.
  assert (G : forall q, In q (sh :: shs) -> q = sh).
  { intros q [<-|Hq]; [reflexivity|]. specialize (F q Hq). unfold shape_eqb in F.
    apply andb_true_iff in F; rewrite !Nat.eqb_eq in F. destruct q, sh; simpl in F; f_equal; lia. }
  pose proof (G _ I1) as E1; pose proof (G _ I2) as E2. rewrite <- E2 in E1. inversion E1; contradiction.
Qed.

(** * Examples (every expected value below was produced by the Python library) and witnesses
      showing that each hypothesis of [lag_matrices_roundtrip] is needed *)

(** ** Non-vacuity: [ex_g] (TSGraphProofs.v) and a graph with future lags, an undirected edge
    stored from the later-named variable ('Y future(n=1)' -- 'X future(n=1)'), a floating
    variable 'F lag(n=3)' and four source lags first seen in the order -3, -1, 0, -2.
    Python: add_node('F lag(n=3)'); add_edge('Y future(n=1)','X future(n=1)','--');
    add_edge('Z','X future(n=2)'); add_edge('X lag(n=1)','X'); add_edge('Y','Z');
    add_edge('W lag(n=4)','Y lag(n=1)'). *)
Definition ex_rich : tsg :=
  Gr [(Nd [70]%N (-3)%Z VUnspec []); (Nd [89]%N (1)%Z VUnspec []); (Nd [88]%N (1)%Z VUnspec []); (Nd [90]%N (0)%Z VUnspec []); (Nd [88]%N (2)%Z VUnspec []); (Nd [88]%N (-1)%Z VUnspec []); (Nd [88]%N (0)%Z VUnspec []); (Nd [89]%N (0)%Z VUnspec []); (Nd [87]%N (-4)%Z VUnspec []); (Nd [89]%N (-1)%Z VUnspec [])] [(Ed [87]%N (-4)%Z [89]%N (-1)%Z Dir []); (Ed [88]%N (-1)%Z [88]%N (0)%Z Dir []); (Ed [89]%N (0)%Z [90]%N (0)%Z Dir []); (Ed [89]%N (1)%Z [88]%N (1)%Z Und []); (Ed [90]%N (0)%Z [88]%N (2)%Z Dir [])] [].

Example ex_rich_hyps :
  consistent ex_rich /\ good_vars ex_rich /\ dir_or_und0 ex_rich /\ tedges ex_rich <> []
  /\ exists m, minimal ex_rich = Ok m /\ acyclicb key_eqb (dir_digraph m) = true
               /\ exists e, In e (tedges m) /\ ety e = Und.
Proof.
  split; [apply consistent_b_spec; vm_compute; reflexivity|].
  split; [apply good_vars_b_spec; vm_compute; reflexivity|].
  split; [apply dir_or_und0_b_spec; vm_compute; reflexivity|].
  split; [discriminate|].
  destruct (minimal ex_rich) as [m|er] eqn:E; [|vm_compute in E; discriminate].
  exists m; split; [reflexivity|].
  assert (Q : match minimal ex_rich with
              | Ok m => acyclicb key_eqb (dir_digraph m)
                        && existsb (fun e => etype_eqb (ety e) Und) (tedges m)
              | Err _ => false end = true) by (vm_compute; reflexivity).
  rewrite E in Q; apply andb_true_iff in Q; destruct Q as [A B]. split; [exact A|].
  apply existsb_exists in B; destruct B as (e & He & T); apply etype_eqb_eq in T; eauto.
Qed.

(** Python: ex_rich.to_numpy_by_lag() (variables F, W, X, Y, Z; key order -3, -1, 0, -2) *)
Example ex_rich_numpy :
  to_numpy_by_lag ex_rich = Ok ([((-3)%Z, [[false; false; false; false; false]; [false; false; false; true; false]; [false; false; false; false; false]; [false; false; false; false; false]; [false; false; false; false; false]]); ((-1)%Z, [[false; false; false; false; false]; [false; false; false; false; false]; [false; false; true; false; false]; [false; false; false; false; false]; [false; false; false; false; false]]); ((0)%Z, [[false; false; false; false; false]; [false; false; false; false; false]; [false; false; false; true; false]; [false; false; true; false; true]; [false; false; false; false; false]]); ((-2)%Z, [[false; false; false; false; false]; [false; false; false; false; false]; [false; false; false; false; false]; [false; false; false; false; false]; [false; false; true; false; false]])], [[70]%N; [87]%N; [88]%N; [89]%N; [90]%N]).
Proof. vm_compute; reflexivity. Qed.

(** Python: from_adjacency_matrices( *ex_rich.to_numpy_by_lag()): the undirected edge comes back
    stored X -- Y (the minimal graph stores Y -- X); [==] with the minimal graph is True. *)
Example ex_rich_roundtrip :
  res_exact (lag_roundtrip true ex_rich) (Ok (Gr [(Nd [87]%N (-3)%Z VUnspec []); (Nd [89]%N (0)%Z VUnspec []); (Nd [88]%N (0)%Z VUnspec []); (Nd [88]%N (-1)%Z VUnspec []); (Nd [90]%N (0)%Z VUnspec []); (Nd [90]%N (-2)%Z VUnspec []); (Nd [70]%N (0)%Z VUnspec [])] [(Ed [87]%N (-3)%Z [89]%N (0)%Z Dir []); (Ed [88]%N (0)%Z [89]%N (0)%Z Und []); (Ed [88]%N (-1)%Z [88]%N (0)%Z Dir []); (Ed [89]%N (0)%Z [90]%N (0)%Z Dir []); (Ed [90]%N (-2)%Z [88]%N (0)%Z Dir [])] [])) = true
  /\ res_exact (minimal ex_rich) (Ok (Gr [(Nd [87]%N (-3)%Z VUnspec []); (Nd [89]%N (0)%Z VUnspec []); (Nd [88]%N (-1)%Z VUnspec []); (Nd [88]%N (0)%Z VUnspec []); (Nd [90]%N (0)%Z VUnspec []); (Nd [90]%N (-2)%Z VUnspec []); (Nd [70]%N (0)%Z VUnspec [])] [(Ed [87]%N (-3)%Z [89]%N (0)%Z Dir []); (Ed [88]%N (-1)%Z [88]%N (0)%Z Dir []); (Ed [89]%N (0)%Z [88]%N (0)%Z Und []); (Ed [89]%N (0)%Z [90]%N (0)%Z Dir []); (Ed [90]%N (-2)%Z [88]%N (0)%Z Dir [])] [])) = true.
Proof. split; vm_compute; reflexivity. Qed.

(** the theorem applied to [ex_rich] *)
Example ex_rich_inst :
  exists m m', minimal ex_rich = Ok m /\ lag_roundtrip true ex_rich = Ok m'
               /\ same_shape m' m /\ ts_graph_eqb m' m = true.
Proof.
  destruct ex_rich_hyps as (C & GV & TY & NE & m & E & A & _).
  destruct (lag_matrices_roundtrip ex_rich m true C GV TY NE E (fun _ => A))
    as (d & m' & _ & _ & R & _ & SS & _ & Q & _).
  exists m, m'; auto.
Qed.

Example ex_g_roundtrip_hyps :
  consistent ex_g /\ good_vars ex_g /\ dir_or_und0 ex_g /\ tedges ex_g <> [].
Proof.
  split; [exact ex_g_consistent|].
  split; [apply good_vars_b_spec; vm_compute; reflexivity|].
  split; [apply dir_or_und0_b_spec; vm_compute; reflexivity|discriminate].
Qed.

(** ** A LAGGED undirected edge has no matrix form: 'X lag(n=1)' -- 'Y' is written as the
    symmetric pair of cells of the lag -1 matrix and read back as the two directed edges
    X lag1 -> Y and Y lag1 -> X.  (Python: round trip [==] minimal graph is False.) *)
Definition ex_lagund : tsg :=
  Gr [(Nd [88]%N (-1)%Z VUnspec []); (Nd [89]%N (0)%Z VUnspec [])] [(Ed [88]%N (-1)%Z [89]%N (0)%Z Und [])] [].

Example ex_lagund_numpy :
  to_numpy_by_lag ex_lagund = Ok ([((-1)%Z, [[false; true]; [true; false]])], [[88]%N; [89]%N]).
Proof. vm_compute; reflexivity. Qed.

Example ex_lagund_roundtrip :
  res_exact (lag_roundtrip true ex_lagund) (Ok (Gr [(Nd [88]%N (-1)%Z VUnspec []); (Nd [89]%N (0)%Z VUnspec []); (Nd [89]%N (-1)%Z VUnspec []); (Nd [88]%N (0)%Z VUnspec [])] [(Ed [88]%N (-1)%Z [89]%N (0)%Z Dir []); (Ed [89]%N (-1)%Z [88]%N (0)%Z Dir [])] [])) = true.
Proof. vm_compute; reflexivity. Qed.

(** the statement without "undirected edges are contemporaneous" *)
Definition roundtrip_any_und_statement : Prop :=
  forall g m, consistent g -> good_vars g ->
    (forall e, In e (tedges g) -> ety e = Dir \/ ety e = Und) -> tedges g <> [] ->
    minimal g = Ok m ->
    exists m', lag_roundtrip false g = Ok m' /\ ts_graph_eqb m' m = true.

Theorem roundtrip_any_und_refuted : ~ roundtrip_any_und_statement.
Proof.
  intros H.
  assert (C : consistent ex_lagund) by (apply consistent_b_spec; vm_compute; reflexivity).
  assert (GV : good_vars ex_lagund) by (apply good_vars_b_spec; vm_compute; reflexivity).
  destruct (minimal ex_lagund) as [m|er] eqn:E; [|vm_compute in E; discriminate].
  destruct (H ex_lagund m C GV) as (m' & R & Q); [| discriminate | exact E |].
  - intros e [<-|[]]; right; reflexivity.
  - assert (X : match lag_roundtrip false ex_lagund, minimal ex_lagund with
                | Ok a, Ok b => ts_graph_eqb a b | _, _ => true end = false)
      by (vm_compute; reflexivity).
    rewrite R, E in X; congruence.
Qed.

(** ** The default [validate=True]: a DAG whose minimal graph has a contemporaneous directed
    cycle.  Python: add_edge('X lag(n=2)','Y lag(n=2)'); add_edge('Y lag(n=1)','Z lag(n=1)');
    add_edge('Z','X'): is_dag() is True; the minimal graph is X -> Y -> Z -> X;
    from_adjacency_matrices( *to_numpy_by_lag()) raises CyclicConnectionError; with
    validate=False the result [==] the minimal graph. *)
Definition ex_cyc : tsg :=
  Gr [(Nd [88]%N (-2)%Z VUnspec []); (Nd [89]%N (-2)%Z VUnspec []); (Nd [89]%N (-1)%Z VUnspec []); (Nd [90]%N (-1)%Z VUnspec []); (Nd [90]%N (0)%Z VUnspec []); (Nd [88]%N (0)%Z VUnspec [])] [(Ed [88]%N (-2)%Z [89]%N (-2)%Z Dir []); (Ed [89]%N (-1)%Z [90]%N (-1)%Z Dir []); (Ed [90]%N (0)%Z [88]%N (0)%Z Dir [])] [].

Example ex_cyc_facts :
  ts_is_dag ex_cyc = true
  /\ to_numpy_by_lag ex_cyc = Ok ([((0)%Z, [[false; true; false]; [false; false; true]; [true; false; false]])], [[88]%N; [89]%N; [90]%N])
  /\ lag_roundtrip true ex_cyc = Err ECyclic
  /\ res_exact (lag_roundtrip false ex_cyc) (Ok (Gr [(Nd [88]%N (0)%Z VUnspec []); (Nd [89]%N (0)%Z VUnspec []); (Nd [90]%N (0)%Z VUnspec [])] [(Ed [88]%N (0)%Z [89]%N (0)%Z Dir []); (Ed [89]%N (0)%Z [90]%N (0)%Z Dir []); (Ed [90]%N (0)%Z [88]%N (0)%Z Dir [])] [])) = true.
Proof. repeat split; vm_compute; reflexivity. Qed.

(** the C08 clause as stated, with the default [validate=True] and without an acyclicity
    premise on the minimal graph, even for inputs that are DAGs *)
Definition c08_roundtrip_statement : Prop :=
  forall g m, consistent g -> good_vars g -> dir_or_und0 g -> tedges g <> [] ->
    ts_is_dag g = true -> minimal g = Ok m ->
    exists m', lag_roundtrip true g = Ok m' /\ ts_graph_eqb m' m = true.

Theorem c08_roundtrip_refuted : ~ c08_roundtrip_statement.
Proof.
  intros H.
  assert (C : consistent ex_cyc) by (apply consistent_b_spec; vm_compute; reflexivity).
  assert (GV : good_vars ex_cyc) by (apply good_vars_b_spec; vm_compute; reflexivity).
  assert (TY : dir_or_und0 ex_cyc) by (apply dir_or_und0_b_spec; vm_compute; reflexivity).
  destruct (minimal ex_cyc) as [m|er] eqn:E; [|vm_compute in E; discriminate].
  destruct (H ex_cyc m C GV TY) as (m' & R & _); [discriminate|vm_compute; reflexivity|exact E|].
  assert (X : lag_roundtrip true ex_cyc = Err ECyclic) by (vm_compute; reflexivity).
  congruence.
Qed.

(** what does hold (the strongest part): see [lag_matrices_roundtrip] (validate=False, or the
    directed part of the minimal graph acyclic) and [lag_matrices_roundtrip_cyclic]. *)
Corollary c08_roundtrip_partial g m :
  consistent g -> good_vars g -> dir_or_und0 g -> tedges g <> [] -> minimal g = Ok m ->
  (exists m', lag_roundtrip false g = Ok m' /\ same_shape m' m /\ ts_graph_eqb m' m = true)
  /\ (acyclicb key_eqb (dir_digraph m) = true ->
      exists m', lag_roundtrip true g = Ok m' /\ same_shape m' m /\ ts_graph_eqb m' m = true)
  /\ (acyclicb key_eqb (dir_digraph m) = false -> lag_roundtrip true g = Err ECyclic).
Proof.
  intros C GV TY NE E. split; [|split].
  - destruct (lag_matrices_roundtrip g m false C GV TY NE E ltac:(discriminate))
      as (d & m' & _ & _ & R & _ & SS & _ & Q & _); eauto.
  - intros A. destruct (lag_matrices_roundtrip g m true C GV TY NE E (fun _ => A))
      as (d & m' & _ & _ & R & _ & SS & _ & Q & _); eauto.
  - apply lag_matrices_roundtrip_cyclic; assumption.
Qed.

(** ** Variable names must be marker free: the variable called 'lag(n=1)' (a legal lag-0 node
    name) gets the node name 'lag(n=1) lag(n=1)' for the lag -1 matrix, which is rejected.
    Python: add_edge('lag(n=1)','Y'); add_edge('Y lag(n=1)','Y'): ValueError. *)
Definition ex_badname : tsg :=
  Gr [(Nd [108; 97; 103; 40; 110; 61; 49; 41]%N (0)%Z VUnspec []); (Nd [89]%N (0)%Z VUnspec []); (Nd [89]%N (-1)%Z VUnspec [])] [(Ed [89]%N (-1)%Z [89]%N (0)%Z Dir []); (Ed [108; 97; 103; 40; 110; 61; 49; 41]%N (0)%Z [89]%N (0)%Z Dir [])] [].

Definition roundtrip_any_name_statement : Prop :=
  forall g m, consistent g -> dir_or_und0 g -> tedges g <> [] -> minimal g = Ok m ->
    exists m', lag_roundtrip false g = Ok m'.

Theorem roundtrip_any_name_refuted : ~ roundtrip_any_name_statement.
Proof.
  intros H.
  assert (C : consistent ex_badname) by (apply consistent_b_spec; vm_compute; reflexivity).
  assert (TY : dir_or_und0 ex_badname) by (apply dir_or_und0_b_spec; vm_compute; reflexivity).
  destruct (minimal ex_badname) as [m|er] eqn:E; [|vm_compute in E; discriminate].
  destruct (H ex_badname m C TY) as (m' & R); [discriminate|exact E|].
  assert (X : lag_roundtrip false ex_badname = Err EValue) by (vm_compute; reflexivity).
  congruence.
Qed.

Example ex_badname_numpy :
  to_numpy_by_lag ex_badname = Ok ([((-1)%Z, [[true; false]; [false; false]]); ((0)%Z, [[false; false]; [true; false]])], [[89]%N; [108; 97; 103; 40; 110; 61; 49; 41]%N])
  /\ parse (tident [108; 97; 103; 40; 110; 61; 49; 41]%N (-1)) = None.
Proof. split; vm_compute; reflexivity. Qed.

(** ** At least one edge: Python: g.add_node('A'); g.to_numpy_by_lag() == ({}, ['A']) and
    from_adjacency_matrices({}, ['A']) raises AssertionError. *)
Definition ex_edgeless : tsg := Gr [(Nd [65]%N (0)%Z VUnspec [])] [] [].
Example ex_edgeless_facts :
  to_numpy_by_lag ex_edgeless = Ok ([], [[65]%N])
  /\ lag_roundtrip true ex_edgeless = Err EAssert /\ lag_roundtrip false ex_edgeless = Err EAssert.
Proof. repeat split; vm_compute; reflexivity. Qed.

Definition roundtrip_edgeless_statement : Prop :=
  forall g m, consistent g -> good_vars g -> dir_or_und0 g -> minimal g = Ok m ->
    exists m', lag_roundtrip false g = Ok m'.
Theorem roundtrip_edgeless_refuted : ~ roundtrip_edgeless_statement.
Proof.
  intros H.
  assert (C : consistent ex_edgeless) by (apply consistent_b_spec; vm_compute; reflexivity).
  destruct (lag_matrices_edgeless ex_edgeless C eq_refl) as (m & E & _ & R).
  destruct (H ex_edgeless m C) as (m' & R'); [| |exact E|].
  - intros n [<-|[]]; reflexivity.
  - intros e [].
  - rewrite (R false) in R'; discriminate.
Qed.

(** ** Other edge types: Python: add_edge('X','Y'); add_edge('Y lag(n=1)','X','<>'): TypeError *)
Example ex_bidir_refused :
  to_numpy_by_lag (Gr [Nd [88]%N 0 VUnspec []; Nd [89]%N 0 VUnspec []; Nd [89]%N (-1) VUnspec []]
                      [Ed [88]%N 0 [89]%N 0 Dir []; Ed [89]%N (-1) [88]%N 0 Bi []] []) = Err EType.
Proof. vm_compute; reflexivity. Qed.

(** [default_var_names] is the ['node_i'] list of Matrix.v *)
Example default_var_names_matrix : default_var_names 12 = CG.Matrix.default_names 12.
Proof. vm_compute; reflexivity. Qed.

(** ** Non-vacuity of [from_adjacency_matrices_spec] and [from_adjacency_matrices_future] *)

(** the docstring example of from_adjacency_matrices: keys -2, -1, 0, variables X, Y, Z *)
Definition ex_doc : lagdict :=
  [((-2)%Z, [[false; false; false]; [true; false; false]; [false; false; true]]);
   ((-1)%Z, [[false; true; false]; [true; false; false]; [false; false; false]]);
   ((0)%Z, [[false; true; true]; [false; false; true]; [false; false; false]])].
Definition ex_doc_vars : list name := [[88]%N; [89]%N; [90]%N].

Example ex_doc_hyps :
  ex_doc <> [] /\ NoDup (map fst ex_doc) /\ (forall kv, In kv ex_doc -> dim 3 (snd kv))
  /\ length ex_doc_vars = 3%nat /\ NoDup ex_doc_vars
  /\ (forall v, In v ex_doc_vars -> good v = true)
  /\ (forall k, In k (map fst ex_doc) -> k <= 0).
Proof.
  split; [discriminate|]. split.
  { apply (nodup_by_spec Z.eqb Z.eqb_spec); vm_compute; reflexivity. }
  split.
  { intros kv [<-|[<-|[<-|[]]]]; (split; [reflexivity|repeat constructor]). }
  split; [reflexivity|]. split.
  { apply (nodup_by_spec name_eqb name_eqb_spec); vm_compute; reflexivity. }
  split.
  { intros v [<-|[<-|[<-|[]]]]; reflexivity. }
  intros k [<-|[<-|[<-|[]]]]; simpl; lia.
Qed.

(** Python: the edges listed in the docstring *)
Example ex_doc_result :
  res_exact (from_adjacency_matrices ex_doc (Some ex_doc_vars) true true)
    (Ok (Gr [(Nd [88]%N (0)%Z VUnspec []); (Nd [89]%N (0)%Z VUnspec []); (Nd [90]%N (0)%Z VUnspec []); (Nd [88]%N (-1)%Z VUnspec []); (Nd [89]%N (-1)%Z VUnspec []); (Nd [89]%N (-2)%Z VUnspec []); (Nd [90]%N (-2)%Z VUnspec [])] [(Ed [88]%N (0)%Z [89]%N (0)%Z Dir []); (Ed [88]%N (0)%Z [90]%N (0)%Z Dir []); (Ed [88]%N (-1)%Z [89]%N (0)%Z Dir []); (Ed [89]%N (0)%Z [90]%N (0)%Z Dir []); (Ed [89]%N (-1)%Z [88]%N (0)%Z Dir []); (Ed [89]%N (-2)%Z [88]%N (0)%Z Dir []); (Ed [90]%N (-2)%Z [90]%N (0)%Z Dir [])] [])) = true.
Proof. vm_compute; reflexivity. Qed.

Example ex_doc_inst :
  exists g1, wf g1 /\ edge_in g1 ([89]%N, -2) ([88]%N, 0) Dir
             /\ from_adjacency_matrices ex_doc (Some ex_doc_vars) false false = Ok g1.
Proof.
  destruct ex_doc_hyps as (H1 & H2 & H3 & H4 & H5 & H6 & H7).
  destruct (from_adjacency_matrices_spec ex_doc ex_doc_vars 3 H1 H2 H3 H4 H5 H6 H7)
    as (g1 & W & _ & _ & Ed & _ & Eq).
  exists g1. split; [exact W|]. split; [|rewrite Eq; reflexivity].
  apply Ed. left. split; [reflexivity|]. split.
  - split; [reflexivity|]. eexists _, 1%nat, 0%nat. split; [left; reflexivity|].
    simpl. repeat split; reflexivity.
  - intros (K0 & _); simpl in K0; discriminate.
Qed.

(** Python: from_adjacency_matrices({1: [[0,1],[0,0]]}, ['X','Y']): ValueError
    ("Cannot add a directed edge between X future(n=1) and Y because this does not respect time") *)
Example ex_future :
  forall cm validate,
    from_adjacency_matrices [(1, [[false; true]; [false; false]])] (Some [[88]%N; [89]%N]) cm validate
    = Err EValue.
Proof.
  apply (from_adjacency_matrices_future _ _ 2).
  - discriminate.
  - repeat constructor; intros [].
  - intros kv [<-|[]]; (split; [reflexivity|repeat constructor]).
  - reflexivity.
  - apply (nodup_by_spec name_eqb name_eqb_spec); vm_compute; reflexivity.
  - intros v [<-|[<-|[]]]; reflexivity.
  - exists 1, [[false; true]; [false; false]], 0%nat, 1%nat. split; [left; reflexivity|]. split; [lia|reflexivity].
Qed.

(** ** Instances of the remaining theorems *)

Example ex_cyc_inst : lag_roundtrip true ex_cyc = Err ECyclic.
Proof.
  assert (C : consistent ex_cyc) by (apply consistent_b_spec; vm_compute; reflexivity).
  assert (GV : good_vars ex_cyc) by (apply good_vars_b_spec; vm_compute; reflexivity).
  assert (TY : dir_or_und0 ex_cyc) by (apply dir_or_und0_b_spec; vm_compute; reflexivity).
  destruct (minimal ex_cyc) as [m|er] eqn:E; [|vm_compute in E; discriminate].
  apply (lag_matrices_roundtrip_cyclic ex_cyc m C GV TY); [discriminate|exact E|].
  assert (Q : match minimal ex_cyc with Ok m => acyclicb key_eqb (dir_digraph m) | Err _ => true end = false)
    by (vm_compute; reflexivity).
  rewrite E in Q; exact Q.
Qed.

Example ex_g_entry_inst :
  exists m d, minimal ex_g = Ok m /\ to_numpy_by_lag ex_g = Ok (d, variables m) /\ NoDup (map fst d).
Proof.
  destruct ex_g_adj_hyps as (C & m & E & Ty).
  destruct (lag_matrices_entry_spec ex_g m C E Ty) as (d & R & ND & _). eauto.
Qed.

Definition ex_bidir : tsg :=
  Gr [Nd [88]%N 0 VUnspec []; Nd [89]%N 0 VUnspec []; Nd [89]%N (-1) VUnspec []]
     [Ed [88]%N 0 [89]%N 0 Dir []; Ed [89]%N (-1) [88]%N 0 Bi []] [].
Example ex_bidir_inst : forall v, lag_roundtrip v ex_bidir = Err EType.
Proof.
  apply lag_matrices_refuse_other_types.
  - apply consistent_b_spec; vm_compute; reflexivity.
  - exists (Ed [89]%N (-1) [88]%N 0 Bi []). split; [right; left; reflexivity|split; discriminate].
Qed.

(** Python: from_adjacency_matrices({-1: [[0,1],[0,0]]}, ['X']): AssertionError;
    from_adjacency_matrices({-1: [[0,1],[0,0]], 0: [[0]]}, ['X','Y']): AssertionError *)
Example ex_bad_names cm v :
  from_adjacency_matrices [(-1, [[false; true]; [false; false]])] (Some [[88]%N]) cm v = Err EAssert.
Proof.
  apply (from_adjacency_matrices_bad_names _ _ 2).
  - discriminate.
  - repeat constructor; intros [].
  - intros kv [<-|[]]; (split; [reflexivity|repeat constructor]).
  - discriminate.
Qed.
Example ex_bad_shapes cm v :
  from_adjacency_matrices [(-1, [[false; true]; [false; false]]); (0, [[false]])]
                          (Some [[88]%N; [89]%N]) cm v = Err EAssert.
Proof.
  apply (from_adjacency_matrices_bad_shapes _ _ 2 1 (-1) 0 [[false; true]; [false; false]] [[false]]).
  - apply (nodup_by_spec Z.eqb Z.eqb_spec); vm_compute; reflexivity.
  - intros kv [<-|[<-|[]]]; [exists 2%nat|exists 1%nat]; (split; [reflexivity|repeat constructor]).
  - left; reflexivity.
  - right; left; reflexivity.
  - split; [reflexivity|repeat constructor].
  - split; [reflexivity|repeat constructor].
  - discriminate.
Qed.

(** Python: from_adjacency_matrices({0: [[0,1],[0,0]]}, ['X','X']): NodeDuplicatedError *)
Example ex_dup_names cm v :
  from_adjacency_matrices [(0, [[false; true]; [false; false]])] (Some [[88]%N; [88]%N]) cm v
  = Err ENodeDup.
Proof.
  apply (from_adjacency_matrices_dup_names _ _ 2).
  - discriminate.
  - repeat constructor; intros [].
  - intros kv [<-|[]]; (split; [reflexivity|repeat constructor]).
  - reflexivity.
  - intros x [<-|[<-|[]]]; reflexivity.
  - intros ND; inversion ND as [|? ? Hn _]; apply Hn; left; reflexivity.
Qed.
