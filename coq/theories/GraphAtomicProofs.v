(** GraphAtomicProofs.v — property C03, failure atomicity of the single-element mutators:
    a rejected mutation leaves a state [equiv] to the input ([failed_step_equiv]), equivalent
    states have the same observation ([observe_equiv]), hence a rejected mutation is
    observably a no-op ([failed_step_noop]). *)
From CG Require Import Base Digraph Graph GraphObs GraphInv GraphAtomicLemmas.

(** * States obtained by appending nodes (implicitly created endpoints) *)

Definition ext (g : graph) (ns : list node) (ls : list (Z * name)) (vs : list (name * name))
  : graph :=
  {| gnodes := gnodes g ++ ns; gsrc := gsrc g; gdst := gdst g; gmeta := gmeta g;
     glag := glag g ++ ls; gvar := gvar g ++ vs |}.

(** the index entries a node contributes (none in the plain class) *)
Definition idx_of (k : kind) (n : node) (ls : list (Z * name)) (vs : list (name * name)) : Prop :=
  match k with
  | Plain => ls = [] /\ vs = []
  | TS => exists l v, meta_lag (nmeta n) = Some l /\ meta_var (nmeta n) = Some v
                      /\ ls = [(l, nid n)] /\ vs = [(v, nid n)]
  end.

(** the part of the invariant the clean-up of [add_edge] relies on *)
Definition WInv (k : kind) (g : graph) : Prop :=
  (forall e, In e (gsrc g) -> In (esrc e) (node_ids g) /\ In (edst e) (node_ids g))
  /\ (k = TS -> map snd (glag g) = node_ids g /\ map snd (gvar g) = node_ids g).

Lemma at_ext_nil g : ext g [] [] [] = g.
Proof. destruct g; unfold ext; simpl. rewrite !app_nil_r. reflexivity. Qed.

Lemma at_ext_ext g ns ls vs ns' ls' vs' :
  ext (ext g ns ls vs) ns' ls' vs' = ext g (ns ++ ns') (ls ++ ls') (vs ++ vs').
Proof. unfold ext; simpl. rewrite !app_assoc. reflexivity. Qed.

Lemma at_find_node_app id l1 l2 :
  find_node id (l1 ++ l2)
  = match find_node id l1 with Some n => Some n | None => find_node id l2 end.
Proof.
  induction l1 as [|a l1 IH]; simpl; [reflexivity|].
  destruct (name_eqb id (nid a)); [reflexivity|exact IH].
Qed.

Lemma at_get_node_ext_new g n post ls vs :
  node_exists g (nid n) = false -> get_node (ext g (n :: post) ls vs) (nid n) = Some n.
Proof.
  intros H. unfold get_node, ext; simpl. rewrite at_find_node_app.
  unfold node_exists, get_node in H. destruct (find_node (nid n) (gnodes g)); [discriminate|].
  simpl. rewrite name_eqb_refl. reflexivity.
Qed.

Lemma at_node_exists_ext g ns ls vs id :
  node_exists (ext g ns ls vs) id
  = node_exists g id || match find_node id ns with Some _ => true | None => false end.
Proof.
  unfold node_exists, get_node, ext; simpl. rewrite at_find_node_app.
  destruct (find_node id (gnodes g)); reflexivity.
Qed.

Section Atomic.
  Variable parse : name -> option (name * Z).
  Variable fmt : name -> Z -> option name.

  Lemma at_inv_winv k g : Inv parse k g -> WInv k g.
  Proof.
    intros I; split; [apply (inv_endpoints I)|].
    intros Hk. pose proof (inv_ts I Hk) as T. split.
    - unfold node_ids. eapply at_map_Forall2; [apply (ts_lagidx T)|]. intros p n [H _]; exact H.
    - unfold node_ids. eapply at_map_Forall2; [apply (ts_varidx T)|]. intros p n [H _]; exact H.
  Qed.

  (** ** Node creation *)

  Lemma at_mk_node k id vt m n :
    mk_node parse k id vt m = Ok n -> nid n = id /\ nvt n = vt /\ ninb n = [] /\ noutb n = [].
  Proof.
    unfold mk_node. destruct k.
    - intros [= <-]; simpl; auto.
    - destruct (parse id) as [[v l]|]; [|discriminate]. intros [= <-]; simpl; auto.
  Qed.

  Lemma at_idx_add_push k g n g1 :
    idx_add k (push_node g n) n = Ok g1 -> exists ls vs, idx_of k n ls vs /\ g1 = ext g [n] ls vs.
  Proof.
    unfold idx_add. destruct k.
    - intros [= <-]. exists [], []. split; [split; reflexivity|].
      unfold ext, push_node; simpl. rewrite !app_nil_r. reflexivity.
    - destruct (meta_lag (nmeta n)) as [l|] eqn:El; [|discriminate].
      destruct (meta_var (nmeta n)) as [v|] eqn:Ev; [|discriminate].
      intros [= <-]. exists [(l, nid n)], [(v, nid n)]. split; [|reflexivity].
      exists l, v. auto.
  Qed.

  Definition added (k : kind) (g : graph) (id : name) (g1 : graph) : Prop :=
    node_exists g id = false
    /\ exists n ls vs, nid n = id /\ ninb n = [] /\ noutb n = [] /\ idx_of k n ls vs
                       /\ g1 = ext g [n] ls vs.

  Lemma at_add_node_id_ok k g id vt m g1 :
    add_node_id parse k g id vt m = Ok g1 -> added k g id g1.
  Proof.
    unfold add_node_id. destruct k.
    - destruct (node_exists g id) eqn:Ex; [discriminate|].
      destruct (mk_node parse Plain id vt _) as [n|] eqn:Mk; cbn [bind]; [|discriminate].
      intros [= <-]. split; [exact Ex|].
      apply at_mk_node in Mk. destruct Mk as (H1 & _ & H3 & H4).
      exists n, [], []. repeat split; try assumption.
      unfold ext, push_node; simpl. rewrite !app_nil_r. reflexivity.
    - destruct (mk_node parse TS id vt _) as [n|] eqn:Mk; cbn [bind]; [|discriminate].
      destruct (node_exists g id) eqn:Ex; [discriminate|].
      destruct (mk_node parse TS id vt (nmeta n)) as [n2|] eqn:Mk2; cbn [bind]; [|discriminate].
      intros H. apply at_idx_add_push in H. destruct H as (ls & vs & Hi & ->).
      split; [exact Ex|].
      apply at_mk_node in Mk2. destruct Mk2 as (H1 & _ & H3 & H4).
      exists n2, ls, vs. auto.
  Qed.

  Lemma at_add_node_obj_ok k g id vt m g1 :
    add_node_obj parse k g id vt m = Ok g1 -> added k g id g1.
  Proof.
    unfold add_node_obj.
    destruct (node_exists g id) eqn:Ex; [discriminate|].
    destruct (mk_node parse k id vt m) as [n|] eqn:Mk; cbn [bind]; [|discriminate].
    intros H. apply at_idx_add_push in H. destruct H as (ls & vs & Hi & ->).
    split; [exact Ex|].
    apply at_mk_node in Mk. destruct Mk as (H1 & _ & H3 & H4).
    exists n, ls, vs. auto.
  Qed.

  Lemma at_add_endpoint_ok k g id o g1 :
    add_endpoint parse k g (id, o) = Ok g1 ->
    (node_exists g id = true /\ g1 = g) \/ added k g id g1.
  Proof.
    unfold add_endpoint. cbn [fst snd]. destruct (node_exists g id) eqn:Ex.
    - intros [= <-]; left; auto.
    - destruct o as [[vt m]|]; intros H; right.
      + eapply at_add_node_obj_ok; exact H.
      + eapply at_add_node_id_ok; exact H.
  Qed.

  (** ** Deleting a node without incident edges *)

  Lemma at_rfp_app {K} (keq : K -> K -> bool) key id A B :
    keq key key = true -> (forall p, In p A -> snd p <> id) ->
    remove_first_pair keq key id (A ++ (key, id) :: B) = Some (A ++ B).
  Proof.
    intros Hk. induction A as [|[k' id'] A IH]; intros HA; simpl.
    - rewrite Hk, name_eqb_refl. reflexivity.
    - destruct (name_eqb_spec id id') as [E|E].
      + exfalso. apply (HA (k', id')); [left; reflexivity|simpl; congruence].
      + rewrite andb_false_r. rewrite IH; [reflexivity|].
        intros p Hp; apply HA; right; exact Hp.
  Qed.

  Lemma at_delete_node_isolated k g id n g1 :
    get_node g id = Some n -> idx_remove k g n = Ok g1 ->
    (forall e, In e (gsrc g1) -> esrc e <> id /\ edst e <> id) ->
    delete_node k g id
    = Ok {| gnodes := filter (fun n' => negb (name_eqb id (nid n'))) (gnodes g1);
            gsrc := gsrc g1; gdst := gdst g1; gmeta := gmeta g1;
            glag := glag g1; gvar := gvar g1 |}.
  Proof.
    intros Hn Hr Hiso. unfold delete_node. rewrite Hn, Hr. cbn [bind].
    assert (Hinc : filter (fun e => name_eqb id (esrc e) || name_eqb id (edst e))
                     (sorted_edges g1) = []).
    { apply at_filter_all_false. intros e He. unfold sorted_edges in He.
      apply isort_in in He. destruct (Hiso e He) as [H1 H2].
      destruct (name_eqb_spec id (esrc e)); [congruence|].
      destruct (name_eqb_spec id (edst e)); [congruence|]. reflexivity. }
    rewrite Hinc. cbn [fold_left bind]. reflexivity.
  Qed.

  Lemma at_delete_added k g n post ls vs lpost vpost :
    WInv k g -> node_exists g (nid n) = false -> idx_of k n ls vs ->
    (forall n2, In n2 post -> nid n2 <> nid n) ->
    delete_node k (ext g (n :: post) (ls ++ lpost) (vs ++ vpost)) (nid n)
    = Ok (ext g post lpost vpost).
  Proof.
    intros [Wend Widx] Hex Hidx Hpost.
    assert (Hnotin : ~ In (nid n) (node_ids g)) by (apply at_node_exists_false; exact Hex).
    assert (Hfilter : filter (fun n' => negb (name_eqb (nid n) (nid n'))) (gnodes g ++ n :: post)
                      = gnodes g ++ post).
    { rewrite filter_app. simpl. rewrite name_eqb_refl. simpl. f_equal.
      - apply at_filter_all_true. intros x Hx.
        destruct (name_eqb_spec (nid n) (nid x)) as [E|E]; [|reflexivity].
        exfalso; apply Hnotin. rewrite E. unfold node_ids. apply in_map; exact Hx.
      - apply at_filter_all_true. intros x Hx.
        destruct (name_eqb_spec (nid n) (nid x)) as [E|E]; [|reflexivity].
        exfalso. apply (Hpost x Hx). congruence. }
    assert (Hiso : forall e, In e (gsrc g) -> esrc e <> nid n /\ edst e <> nid n).
    { intros e He. destruct (Wend e He) as [H1 H2]. split; congruence. }
    destruct k.
    - destruct Hidx as [-> ->].
      erewrite at_delete_node_isolated;
        [|apply at_get_node_ext_new; exact Hex|reflexivity|exact Hiso].
      simpl. rewrite Hfilter. reflexivity.
    - destruct Hidx as (l & v & Hl & Hv & -> & ->).
      destruct (Widx eq_refl) as [Wl Wv].
      erewrite at_delete_node_isolated; [|apply at_get_node_ext_new; exact Hex| |].
      2:{ unfold idx_remove. rewrite Hl, Hv. simpl.
          rewrite at_rfp_app; [|apply Z.eqb_refl|].
          2:{ intros p Hp E. apply Hnotin. rewrite <- Wl, <- E. apply in_map; exact Hp. }
          rewrite at_rfp_app; [|apply name_eqb_refl|].
          2:{ intros p Hp E. apply Hnotin. rewrite <- Wv, <- E. apply in_map; exact Hp. }
          reflexivity. }
      + simpl. rewrite Hfilter. reflexivity.
      + simpl. exact Hiso.
  Qed.

  (** ** The clean-up of [add_edge] *)

  Definition cleanup (k : kind) (implicit : list name) (gl : graph) : graph :=
    fold_left (fun acc id =>
                 if node_exists acc id then
                   match delete_node k acc id with Ok a => a | Err _ => acc end
                 else acc) implicit gl.

  Lemma at_add_edge_unfold k g sp dp ty m v :
    add_edge parse k g sp dp ty m v
    = match add_edge_try parse k g sp dp ty m v with
      | (Ok g', _) => (Ok g', g')
      | (Err e, gl) =>
          (Err e, cleanup k (filter (fun id => negb (node_exists g id)) [fst sp; fst dp]) gl)
      end.
  Proof. reflexivity. Qed.

  Lemma at_cleanup_absent k imp g :
    (forall id, In id imp -> node_exists g id = false) -> cleanup k imp g = g.
  Proof.
    unfold cleanup. induction imp as [|id imp IH]; intros H; simpl; [reflexivity|].
    rewrite (H id (or_introl eq_refl)). apply IH. intros x Hx; apply H; right; exact Hx.
  Qed.

  Lemma at_cleanup_cons k id imp g :
    cleanup k (id :: imp) g
    = cleanup k imp (if node_exists g id then
                       match delete_node k g id with Ok a => a | Err _ => g end
                     else g).
  Proof. reflexivity. Qed.

  Lemma at_try_fail k g s os d od ty m v e gl :
    add_edge_try parse k g (s, os) (d, od) ty m v = (Err e, gl) ->
    gl = g \/
    (s <> d /\ exists g1, add_endpoint parse k g (s, os) = Ok g1 /\
       (gl = g1 \/ exists g2, add_endpoint parse k g1 (d, od) = Ok g2 /\ gl = g2)).
  Proof.
    unfold add_edge_try. cbn [fst].
    destruct (name_eqb_spec s d) as [E|E]; [intros [= _ <-]; left; reflexivity|].
    destruct (add_endpoint parse k g (s, os)) as [g1|x] eqn:A1; [|intros [= _ <-]; left; reflexivity].
    intros H. right. split; [exact E|]. exists g1. split; [reflexivity|].
    destruct (add_endpoint parse k g1 (d, od)) as [g2|x] eqn:A2;
      [|injection H as _ <-; left; reflexivity].
    right. exists g2. split; [reflexivity|].
    destruct (match edge_at g s d with Some _ => true | None => false end);
      [injection H as _ <-; reflexivity|].
    destruct (orient k g2 s d ty) as [[s' d']|x]; [|injection H as _ <-; reflexivity].
    destruct (set_edge g2 s' d' ty _ v) as [g3|x]; [discriminate|].
    injection H as _ <-; reflexivity.
  Qed.

  Lemma at_implicit_absent g l id :
    In id (filter (fun id => negb (node_exists g id)) l) -> node_exists g id = false.
  Proof. intros H. apply filter_In in H. destruct H as [_ H]. apply negb_true_iff in H; exact H. Qed.

  (** A failing [add_edge] leaves the input state exactly. *)
  Lemma at_add_edge_fail k g sp dp ty m v e g' :
    WInv k g -> add_edge parse k g sp dp ty m v = (Err e, g') -> g' = g.
  Proof.
    intros W. rewrite at_add_edge_unfold. destruct sp as [s os], dp as [d od]. cbn [fst].
    destruct (add_edge_try parse k g (s, os) (d, od) ty m v) as [[g3|e'] gl] eqn:T; [discriminate|].
    intros [= _ <-]. apply at_try_fail in T.
    set (imp := filter (fun id => negb (node_exists g id)) [s; d]).
    assert (Habs : cleanup k imp g = g) by (apply at_cleanup_absent; apply at_implicit_absent).
    destruct T as [->|(Hne & g1 & A1 & T)]; [exact Habs|].
    apply at_add_endpoint_ok in A1.
    destruct A1 as [[Hs ->]|(Hs & ns & ls & vs & Hns & _ & _ & His & ->)].
    - (* the source existed *)
      destruct T as [->|(g2 & A2 & ->)]; [exact Habs|].
      apply at_add_endpoint_ok in A2.
      destruct A2 as [[Hd ->]|(Hd & nd & ld & vd & Hnd & _ & _ & Hid & ->)]; [exact Habs|].
      subst d imp. cbn [filter]. rewrite Hs, Hd. cbn [negb].
      rewrite at_cleanup_cons. rewrite at_node_exists_ext. simpl find_node.
      rewrite name_eqb_refl, orb_true_r.
      rewrite <- (app_nil_r ld), <- (app_nil_r vd).
      rewrite at_delete_added; try assumption.
      + rewrite at_ext_nil. reflexivity.
      + intros n2 [].
    - (* the source was created *)
      subst s.
      assert (Hdel_s : forall post lpost vpost,
                 (forall n2, In n2 post -> nid n2 <> nid ns) ->
                 (if node_exists (ext g (ns :: post) (ls ++ lpost) (vs ++ vpost)) (nid ns)
                  then match delete_node k (ext g (ns :: post) (ls ++ lpost) (vs ++ vpost)) (nid ns)
                       with Ok a => a | Err _ => ext g (ns :: post) (ls ++ lpost) (vs ++ vpost) end
                  else ext g (ns :: post) (ls ++ lpost) (vs ++ vpost))
                 = ext g post lpost vpost).
      { intros post lpost vpost Hpost.
        rewrite at_node_exists_ext. simpl find_node.
        rewrite name_eqb_refl, orb_true_r.
        rewrite at_delete_added; try assumption; reflexivity. }
      assert (Hgl1 : cleanup k imp (ext g [ns] ls vs) = g).
      { subst imp. cbn [filter]. rewrite Hs. cbn [negb].
        rewrite at_cleanup_cons.
        rewrite <- (app_nil_r ls), <- (app_nil_r vs).
        rewrite Hdel_s; [|intros n2 []]. rewrite at_ext_nil.
        apply at_cleanup_absent. intros id Hid.
        destruct (node_exists g d) eqn:Hd0; simpl in Hid; [contradiction|].
        destruct Hid as [<-|[]]; exact Hd0. }
      destruct T as [->|(g2 & A2 & ->)]; [exact Hgl1|].
      apply at_add_endpoint_ok in A2.
      destruct A2 as [[Hd ->]|(Hd & nd & ld & vd & Hnd & _ & _ & Hid & ->)]; [exact Hgl1|].
      rewrite at_ext_ext. subst d.
      assert (Hd' : node_exists g (nid nd) = false).
      { rewrite at_node_exists_ext in Hd. apply orb_false_iff in Hd. apply Hd. }
      subst imp. cbn [filter]. rewrite Hs, Hd'. cbn [negb].
      rewrite at_cleanup_cons. simpl app.
      rewrite Hdel_s.
      2:{ intros n2 [<-|[]]. congruence. }
      rewrite at_cleanup_cons. rewrite at_node_exists_ext. simpl find_node.
      rewrite name_eqb_refl, orb_true_r.
      rewrite <- (app_nil_r ld), <- (app_nil_r vd).
      rewrite at_delete_added; try assumption.
      + rewrite at_ext_nil. reflexivity.
      + intros n2 [].
  Qed.

  (** ** Nodes that differ only in their per-node directed lists *)

  Definition node_same (a b : node) : Prop := nid a = nid b /\ nvt a = nvt b /\ nmeta a = nmeta b.

  Lemma at_update_node_same f id ns :
    (forall n, node_same (f n) n) -> Forall2 node_same (update_node f id ns) ns.
  Proof.
    intros Hf. unfold update_node. apply at_Forall2_map_l. intros n _.
    destruct (name_eqb id (nid n)); [apply Hf|]. repeat split.
  Qed.

  Lemma at_same_trans l1 l2 l3 :
    Forall2 node_same l1 l2 -> Forall2 node_same l2 l3 -> Forall2 node_same l1 l3.
  Proof.
    apply at_Forall2_trans. unfold node_same. intros x y z (A1 & A2 & A3) (B1 & B2 & B3).
    repeat split; congruence.
  Qed.

  Lemma at_same_ids l1 l2 : Forall2 node_same l1 l2 -> map nid l1 = map nid l2.
  Proof. intros F. eapply at_map_Forall2; [exact F|]. intros a b H; apply H. Qed.

  Lemma at_same_get g1 g id :
    Forall2 node_same (gnodes g1) (gnodes g) ->
    match get_node g1 id, get_node g id with
    | Some a, Some b => node_same a b
    | None, None => True
    | _, _ => False
    end.
  Proof. intros F. unfold get_node. apply at_find_node_rel; [|exact F]. intros a b H; apply H. Qed.

  Lemma at_same_exists g1 g id :
    Forall2 node_same (gnodes g1) (gnodes g) -> node_exists g1 id = node_exists g id.
  Proof.
    intros F. pose proof (at_same_get g1 g id F) as H. unfold node_exists.
    destruct (get_node g1 id), (get_node g id); try reflexivity; contradiction.
  Qed.

  Lemma at_same_lag g1 g id :
    Forall2 node_same (gnodes g1) (gnodes g) -> node_lag g1 id = node_lag g id.
  Proof.
    intros F. pose proof (at_same_get g1 g id F) as H. unfold node_lag.
    destruct (get_node g1 id), (get_node g id); try reflexivity; try contradiction.
    destruct H as (_ & _ & ->). reflexivity.
  Qed.

  (** ** delete_edge *)

  Definition del_inb (s : name) (n : node) : node :=
    {| nid := nid n; nvt := nvt n; nmeta := nmeta n;
       ninb := remove_first s (ninb n); noutb := noutb n |}.
  Definition del_outb (d : name) (n : node) : node :=
    {| nid := nid n; nvt := nvt n; nmeta := nmeta n;
       ninb := ninb n; noutb := remove_first d (noutb n) |}.
  Definition ins_inb (s : name) (n : node) : node :=
    {| nid := nid n; nvt := nvt n; nmeta := nmeta n;
       ninb := ninb n ++ [s]; noutb := noutb n |}.
  Definition ins_outb (d : name) (n : node) : node :=
    {| nid := nid n; nvt := nvt n; nmeta := nmeta n;
       ninb := ninb n; noutb := noutb n ++ [d] |}.

  Definition del_state (g : graph) (s d : name) (e : edge) : graph :=
    {| gnodes := if etype_eqb (ety e) Dir
                 then update_node (del_outb d) s (update_node (del_inb s) d (gnodes g))
                 else gnodes g;
       gsrc := drop_edge s d (gsrc g); gdst := drop_edge s d (gdst g);
       gmeta := gmeta g; glag := glag g; gvar := gvar g |}.

  Lemma at_insert_edge_eq g e :
    insert_edge g e
    = {| gnodes := if etype_eqb (ety e) Dir
                   then update_node (ins_outb (edst e)) (esrc e)
                          (update_node (ins_inb (esrc e)) (edst e) (gnodes g))
                   else gnodes g;
         gsrc := gsrc g ++ [e]; gdst := gdst g ++ [e]; gmeta := gmeta g;
         glag := glag g; gvar := gvar g |}.
  Proof. reflexivity. Qed.

  Lemma at_delete_edge_ok g s d oty g1 :
    delete_edge g s d oty = Ok g1 ->
    exists e, edge_at g s d = Some e /\ node_exists g s = true /\ node_exists g d = true
              /\ g1 = del_state g s d e.
  Proof.
    unfold delete_edge.
    destruct (node_exists g s); [|discriminate]. destruct (node_exists g d); [|discriminate].
    cbn [negb]. destruct (edge_at g s d) as [e|]; [|discriminate].
    destruct (match oty with Some t => negb (etype_eqb t (ety e)) | None => false end);
      [discriminate|].
    intros [= <-]. exists e. repeat split.
  Qed.

  Lemma at_del_same g s d e : Forall2 node_same (gnodes (del_state g s d e)) (gnodes g).
  Proof.
    unfold del_state; simpl. destruct (etype_eqb (ety e) Dir).
    - eapply at_same_trans; apply at_update_node_same; intros n; repeat split.
    - apply at_Forall2_refl. intros n; repeat split.
  Qed.

  Lemma at_ins_same g e : Forall2 node_same (gnodes (insert_edge g e)) (gnodes g).
  Proof.
    rewrite at_insert_edge_eq; simpl. destruct (etype_eqb (ety e) Dir).
    - eapply at_same_trans; apply at_update_node_same; intros n; repeat split.
    - apply at_Forall2_refl. intros n; repeat split.
  Qed.

  Lemma at_winv_del k g s d e : WInv k g -> WInv k (del_state g s d e).
  Proof.
    intros [We Wi]. unfold WInv, node_ids.
    rewrite (at_same_ids _ _ (at_del_same g s d e)). split.
    - intros e' He'. simpl in He'. unfold drop_edge in He'. apply filter_In in He'.
      apply We, He'.
    - exact Wi.
  Qed.

  Lemma at_find_edge_drop s d l : find_edge s d (drop_edge s d l) = None.
  Proof.
    apply at_find_edge_none. intros e He [Hs Hd]. unfold drop_edge in He.
    apply filter_In in He. destruct He as [_ He]. subst s d.
    rewrite !name_eqb_refl in He. discriminate.
  Qed.

  Lemma at_find_edge_drop_none a b s d l :
    find_edge a b l = None -> find_edge a b (drop_edge s d l) = None.
  Proof.
    rewrite !at_find_edge_none. intros H e He. apply H. unfold drop_edge in He.
    apply filter_In in He. apply He.
  Qed.

  Lemma at_drop_perm l e :
    NoDup (map edge_key l) -> In e l -> Permutation (drop_edge (esrc e) (edst e) l ++ [e]) l.
  Proof.
    induction l as [|a l IH]; simpl; intros ND Hin; [contradiction|].
    inversion ND as [|? ? Hn ND']; subst.
    destruct Hin as [->|Hin].
    - rewrite !name_eqb_refl. simpl.
      assert (E : drop_edge (esrc e) (edst e) l = l).
      { apply at_filter_all_true. intros x Hx.
        destruct (name_eqb_spec (esrc e) (esrc x)) as [E1|E1]; [|reflexivity].
        destruct (name_eqb_spec (edst e) (edst x)) as [E2|E2]; [|reflexivity].
        exfalso; apply Hn. unfold edge_key at 1. rewrite E1, E2. apply (in_map edge_key _ _ Hx). }
      rewrite E. symmetry. apply Permutation_cons_append.
    - assert (Hk : negb (name_eqb (esrc e) (esrc a) && name_eqb (edst e) (edst a)) = true).
      { destruct (name_eqb_spec (esrc e) (esrc a)) as [E1|E1]; [|reflexivity].
        destruct (name_eqb_spec (edst e) (edst a)) as [E2|E2]; [|reflexivity].
        exfalso; apply Hn. unfold edge_key at 1. rewrite <- E1, <- E2.
        apply (in_map edge_key _ _ Hin). }
      rewrite Hk. simpl. constructor. apply IH; assumption.
  Qed.

  Lemma at_remove_first_perm x l : In x l -> Permutation (remove_first x l ++ [x]) l.
  Proof.
    induction l as [|y l IH]; simpl; intros Hin; [contradiction|].
    destruct (name_eqb_spec x y) as [->|E].
    - symmetry. apply Permutation_cons_append.
    - simpl. constructor. apply IH. destruct Hin as [H|H]; [congruence|exact H].
  Qed.

  (** ** add_edge between existing nodes *)

  Lemma at_try_existing k g s d ty m v :
    s <> d -> node_exists g s = true -> node_exists g d = true ->
    add_edge_try parse k g (str_ep s) (str_ep d) ty m v
    = match edge_at g s d with
      | Some _ => (Err EEdgeDup, g)
      | None =>
          match orient k g s d ty with
          | Err e => (Err e, g)
          | Ok (s', d') =>
              match set_edge g s' d' ty (match m with Some x => x | None => [] end) v with
              | Err e => (Err e, g)
              | Ok g3 => (Ok g3, g3)
              end
          end
      end.
  Proof.
    intros Hne Hs Hd. unfold add_edge_try, str_ep, add_endpoint. cbn [fst snd].
    destruct (name_eqb_spec s d) as [E|_]; [contradiction|].
    rewrite Hs, Hd. destruct (edge_at g s d); reflexivity.
  Qed.

  (** re-inserting the edge that [delete_edge] removed gives an equivalent state *)
  Lemma at_reinsert_equiv k g s d e0 :
    Inv parse k g -> edge_at g s d = Some e0 ->
    equiv (insert_edge (del_state g s d e0) e0) g.
  Proof.
    intros I He. unfold edge_at in He. apply at_find_edge_some in He.
    destruct He as (Hin & Hs & Hd). subst s d.
    assert (Hne : esrc e0 <> edst e0) by apply (inv_noloop I e0 Hin).
    rewrite at_insert_edge_eq. unfold del_state, equiv; simpl. repeat split.
    - destruct (etype_eqb_spec (ety e0) Dir) as [Ety|Ety].
      2:{ apply at_Forall2_refl, node_equiv_refl. }
      unfold update_node. rewrite !map_map. apply at_Forall2_map_l. intros n Hn.
      destruct (name_eqb_spec (edst e0) (nid n)) as [Ed|Ed];
        destruct (name_eqb_spec (esrc e0) (nid n)) as [Es|Es]; simpl.
      + congruence.
      + destruct (name_eqb_spec (esrc e0) (nid n)); [contradiction|]. simpl.
        destruct (name_eqb_spec (edst e0) (nid n)); [|contradiction]. simpl.
        destruct (name_eqb_spec (esrc e0) (nid n)); [contradiction|].
        unfold node_equiv; simpl. repeat split; [|reflexivity].
        apply at_remove_first_perm.
        apply (Permutation_in _ (Permutation_sym (inv_inb I n Hn))).
        unfold dir_into. apply in_map. apply filter_In. split; [exact Hin|].
        rewrite Ety, Ed, name_eqb_refl. reflexivity.
      + destruct (name_eqb_spec (esrc e0) (nid n)); [|contradiction]. simpl.
        destruct (name_eqb_spec (edst e0) (nid n)); [contradiction|]. simpl.
        destruct (name_eqb_spec (esrc e0) (nid n)); [|contradiction].
        unfold node_equiv; simpl. repeat split; [reflexivity|].
        apply at_remove_first_perm.
        apply (Permutation_in _ (Permutation_sym (inv_outb I n Hn))).
        unfold dir_from. apply in_map. apply filter_In. split; [exact Hin|].
        rewrite Ety, Es, name_eqb_refl. reflexivity.
      + destruct (name_eqb_spec (esrc e0) (nid n)); [contradiction|]. simpl.
        destruct (name_eqb_spec (edst e0) (nid n)); [contradiction|]. simpl.
        destruct (name_eqb_spec (esrc e0) (nid n)); [contradiction|].
        apply node_equiv_refl.
    - apply at_drop_perm; [apply (inv_nodup_keys I)|exact Hin].
    - apply at_drop_perm.
      + eapply at_nodup_keys_perm; [symmetry; apply (inv_mirror I)|apply (inv_nodup_keys I)].
      + eapply Permutation_in; [symmetry; apply (inv_mirror I)|exact Hin].
  Qed.

  Lemma at_edge_eta e : {| esrc := esrc e; edst := edst e; ety := ety e; emeta := emeta e |} = e.
  Proof. destruct e; reflexivity. Qed.

  (** the restore step of change_edge_type / replace_edge succeeds and yields an equivalent
      state *)
  Lemma at_restore k g s d oty e0 g1 :
    Inv parse k g -> edge_at g s d = Some e0 -> delete_edge g s d oty = Ok g1 ->
    exists g3,
      add_edge parse k g1 (str_ep s) (str_ep d) (ety e0) (Some (emeta e0)) false = (Ok g3, g3)
      /\ equiv g3 g.
  Proof.
    intros I He Hdel. apply at_delete_edge_ok in Hdel.
    destruct Hdel as (e & He' & Hs & Hd & ->). rewrite He in He'. injection He' as <-.
    pose proof He as He2. unfold edge_at in He2. apply at_find_edge_some in He2.
    destruct He2 as (Hin & Es & Ed).
    assert (Hne : s <> d) by (subst s d; apply (inv_noloop I e0 Hin)).
    pose proof (at_del_same g s d e0) as Hsame.
    exists (insert_edge (del_state g s d e0) e0). split; [|apply (at_reinsert_equiv k g s d e0 I He)].
    rewrite at_add_edge_unfold. rewrite at_try_existing; try assumption.
    2:{ rewrite (at_same_exists _ _ _ Hsame); exact Hs. }
    2:{ rewrite (at_same_exists _ _ _ Hsame); exact Hd. }
    assert (Hor : orient k (del_state g s d e0) s d (ety e0) = Ok (s, d)).
    { unfold orient. destruct k; [reflexivity|].
      rewrite !(at_same_lag _ _ _ Hsame).
      destruct (ts_time (inv_ts I eq_refl) e0 Hin) as (ls & ld & Hls & Hld & Hle).
      rewrite Es in Hls. rewrite Ed in Hld. rewrite Hls, Hld.
      destruct (Z.ltb_spec ld ls); [lia|reflexivity]. }
    rewrite Hor. unfold set_edge.
    assert (H1 : edge_at (del_state g s d e0) s d = None).
    { unfold edge_at, del_state; simpl. apply at_find_edge_drop. }
    assert (H2 : edge_at (del_state g s d e0) d s = None).
    { unfold edge_at, del_state; simpl. apply at_find_edge_drop_none.
      apply at_find_edge_none. intros e1 Hin1 [E1 E2].
      apply (inv_noreverse I e0 Hin). unfold edge_keys.
      rewrite Es, Ed, <- E1, <- E2. apply (in_map edge_key _ _ Hin1). }
    rewrite H1 at 1.
    assert (Eeq : {| esrc := s; edst := d; ety := ety e0; emeta := emeta e0 |} = e0)
      by (rewrite <- Es, <- Ed; apply at_edge_eta).
    rewrite H1, H2, Eeq. reflexivity.
  Qed.

  (** ** change_edge_type / replace_edge *)

  Lemma at_winv_after_delete k g s d oty g1 :
    Inv parse k g -> delete_edge g s d oty = Ok g1 -> WInv k g1.
  Proof.
    intros I H. apply at_delete_edge_ok in H. destruct H as (e & _ & _ & _ & ->).
    apply at_winv_del, at_inv_winv, I.
  Qed.

  Lemma at_change_edge_type_fail k g s d ty e g' :
    Inv parse k g -> change_edge_type parse k g s d ty = (Err e, g') -> equiv g' g.
  Proof.
    intros I. unfold change_edge_type.
    destruct (edge_at g s d) as [e0|] eqn:He; [|intros [= _ <-]; apply equiv_refl].
    destruct (etype_eqb (ety e0) ty); [discriminate|].
    destruct (delete_edge g s d (Some (ety e0))) as [g1|x] eqn:Hdel;
      [|intros [= _ <-]; apply equiv_refl].
    destruct (add_edge parse k g1 (str_ep s) (str_ep d) ty (Some (emeta e0)) true)
      as [[g2|x] g2'] eqn:Hadd; [discriminate|].
    assert (E : g2' = g1).
    { eapply at_add_edge_fail; [|exact Hadd]. eapply at_winv_after_delete; eassumption. }
    subst g2'.
    destruct (at_restore k g s d (Some (ety e0)) e0 g1 I He Hdel) as (g3 & Hr & Heq).
    rewrite Hr. intros [= _ <-]. exact Heq.
  Qed.

  Lemma at_replace_edge_fail k g s d s' d' oty om e g' :
    Inv parse k g -> replace_edge parse k g s d s' d' oty om = (Err e, g') -> equiv g' g.
  Proof.
    intros I. unfold replace_edge.
    destruct (edge_at g s d) as [e0|] eqn:He; [|intros [= _ <-]; apply equiv_refl].
    destruct (edge_at g s' d') as [e1|] eqn:He1; [intros [= _ <-]; apply equiv_refl|].
    destruct (delete_edge g s d None) as [g1|x] eqn:Hdel;
      [|intros [= _ <-]; apply equiv_refl].
    destruct (add_edge parse k g1 (str_ep s') (str_ep d') _ _ true)
      as [[g2|x] g2'] eqn:Hadd; [discriminate|].
    assert (E : g2' = g1).
    { eapply at_add_edge_fail; [|exact Hadd]. eapply at_winv_after_delete; eassumption. }
    subst g2'.
    destruct (at_restore k g s d None e0 g1 I He Hdel) as (g3 & Hr & Heq).
    rewrite Hr. intros [= _ <-]. exact Heq.
  Qed.

  Lemma at_add_time_edge_fail k g sv st dv dt m v e g' :
    Inv parse k g -> add_time_edge parse fmt k g sv st dv dt m v = (Err e, g') -> g' = g.
  Proof.
    intros I. unfold add_time_edge. destruct k; [intros [= _ <-]; reflexivity|].
    destruct (fmt sv st) as [s|]; [|intros [= _ <-]; reflexivity].
    destruct (fmt dv dt) as [d|]; [|intros [= _ <-]; reflexivity].
    apply at_add_edge_fail, at_inv_winv, I.
  Qed.

  (** ** All single-element mutators except replace_node *)

  Definition not_replace_node (o : op) : bool :=
    match o with OReplaceNode _ _ _ _ _ _ => false | _ => true end.

  Lemma at_lift_fail g r e :
    match fst (lift g r) with Ok _ => None | Err x => Some x end = Some e ->
    snd (lift g r) = g.
  Proof. destruct r; simpl; [discriminate|reflexivity]. Qed.

  Lemma at_outcome_err (r : res graph * graph) e :
    match fst r with Ok _ => None | Err x => Some x end = Some e -> r = (Err e, snd r).
  Proof. destruct r as [[g1|x] g2]; simpl; [discriminate|]. intros [= ->]; reflexivity. Qed.

  Theorem failed_step_equiv_partial :
    forall k g o e, Inv parse k g -> single_element o = true -> not_replace_node o = true ->
      outcome parse fmt k g o = Some e -> equiv (step parse fmt k g o) g.
  Proof.
    intros k g o e I Hs Hn. unfold outcome, step.
    destruct o; simpl in Hs, Hn; try discriminate; cbn [run_op]; intros H.
    - rewrite (at_lift_fail _ _ _ H). apply equiv_refl.
    - rewrite (at_lift_fail _ _ _ H). apply equiv_refl.
    - rewrite (at_lift_fail _ _ _ H). apply equiv_refl.
    - rewrite (at_lift_fail _ _ _ H). apply equiv_refl.
    - apply at_outcome_err in H. apply at_add_edge_fail in H; [|apply at_inv_winv, I].
      rewrite H. apply equiv_refl.
    - apply at_outcome_err in H. apply at_add_time_edge_fail in H; [|exact I].
      rewrite H. apply equiv_refl.
    - rewrite (at_lift_fail _ _ _ H). apply equiv_refl.
    - apply at_outcome_err in H. eapply at_change_edge_type_fail; eassumption.
    - apply at_outcome_err in H. eapply at_replace_edge_fail; eassumption.
  Qed.
End Atomic.
