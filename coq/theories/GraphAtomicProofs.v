(** GraphAtomicProofs.v — property C03, failure atomicity of the single-element mutators:
    a rejected mutation leaves a state [equiv] to the input ([failed_step_equiv]), equivalent
    states have the same observation ([observe_equiv]), hence a rejected mutation is
    observably a no-op ([failed_step_noop]). *)
From CG Require Import Base Digraph Graph GraphObs GraphInv GraphAtomicLemmas.

(** * States obtained by appending nodes (implicitly created endpoints) *)

Definition ext (g : graph) (ns : list node) (ls : list (Z * name)) (vs : list (name * name))
  : graph :=
  {| gnodes := gnodes g ++ ns; gsrc := gsrc g; gdst := gdst g; gmeta := gmeta g;
     glag := glag g ++ ls; gvar := gvar g ++ vs |}.

(** the index entries a node contributes (none in the plain class) *)
Definition idx_of (k : kind) (n : node) (ls : list (Z * name)) (vs : list (name * name)) : Prop :=
  match k with
  | Plain => ls = [] /\ vs = []
  | TS => exists l v, meta_lag (nmeta n) = Some l /\ meta_var (nmeta n) = Some v
                      /\ ls = [(l, nid n)] /\ vs = [(v, nid n)]
  end.

(** the part of the invariant the clean-up of [add_edge] relies on *)
Definition WInv (k : kind) (g : graph) : Prop :=
  (forall e, In e (gsrc g) -> In (esrc e) (node_ids g) /\ In (edst e) (node_ids g))
  /\ (k = TS -> map snd (glag g) = node_ids g /\ map snd (gvar g) = node_ids g).

Lemma at_ext_nil g : ext g [] [] [] = g.
Proof. destruct g; unfold ext; simpl. rewrite !app_nil_r. reflexivity. Qed.

Lemma at_ext_ext g ns ls vs ns' ls' vs' :
  ext (ext g ns ls vs) ns' ls' vs' = ext g (ns ++ ns') (ls ++ ls') (vs ++ vs').
Proof. unfold ext; simpl. rewrite !app_assoc. reflexivity. Qed.

Lemma at_find_node_app id l1 l2 :
  find_node id (l1 ++ l2)
  = match find_node id l1 with Some n => Some n | None => find_node id l2 end.
Proof.
  induction l1 as [|a l1 IH]; simpl; [reflexivity|].
  destruct (name_eqb id (nid a)); [reflexivity|exact IH].
Qed.

Lemma at_get_node_ext_new g n post ls vs :
  node_exists g (nid n) = false -> get_node (ext g (n :: post) ls vs) (nid n) = Some n.
Proof.
  intros H. unfold get_node, ext; simpl. rewrite at_find_node_app.
  unfold node_exists, get_node in H. destruct (find_node (nid n) (gnodes g)); [discriminate|].
  simpl. rewrite name_eqb_refl. reflexivity.
Qed.

Lemma at_node_exists_ext g ns ls vs id :
  node_exists (ext g ns ls vs) id
  = node_exists g id || match find_node id ns with Some _ => true | None => false end.
Proof.
  unfold node_exists, get_node, ext; simpl. rewrite at_find_node_app.
  destruct (find_node id (gnodes g)); reflexivity.
Qed.

Section Atomic.
  Variable parse : name -> option (name * Z).
  Variable fmt : name -> Z -> option name.

  Lemma at_inv_winv k g : Inv parse k g -> WInv k g.
  Proof.
    intros I; split; [apply (inv_endpoints I)|].
    intros Hk. pose proof (inv_ts I Hk) as T. split.
    - unfold node_ids. eapply at_map_Forall2; [apply (ts_lagidx T)|]. intros p n [H _]; exact H.
    - unfold node_ids. eapply at_map_Forall2; [apply (ts_varidx T)|]. intros p n [H _]; exact H.
  Qed.

  (** ** Node creation *)

  Lemma at_lookup_meta_set_eq key v (m : meta) : lookup key (meta_set key v m) = Some v.
  Proof.
    induction m as [|[k' v'] m IH]; simpl; [rewrite name_eqb_refl; reflexivity|].
    destruct (name_eqb_spec key k') as [->|Hn]; simpl; [rewrite name_eqb_refl; reflexivity|].
    destruct (name_ltb key k'); simpl.
    - rewrite name_eqb_refl; reflexivity.
    - destruct (name_eqb_spec key k'); [contradiction|exact IH].
  Qed.

  Lemma at_lookup_meta_set_neq key k2 v (m : meta) :
    k2 <> key -> lookup k2 (meta_set key v m) = lookup k2 m.
  Proof.
    intros Hn. induction m as [|[k' v'] m IH]; simpl.
    - destruct (name_eqb_spec k2 key); [contradiction|reflexivity].
    - destruct (name_eqb_spec key k') as [->|Hn']; simpl.
      + destruct (name_eqb_spec k2 k'); [contradiction|reflexivity].
      + destruct (name_ltb key k'); simpl.
        * destruct (name_eqb_spec k2 key); [contradiction|reflexivity].
        * destruct (name_eqb k2 k'); [reflexivity|exact IH].
  Qed.

  Lemma at_set_tags_var v l m : meta_var (set_tags v l m) = Some v.
  Proof. unfold meta_var, meta_get, set_tags. rewrite at_lookup_meta_set_eq. reflexivity. Qed.

  Lemma at_set_tags_lag v l m : meta_lag (set_tags v l m) = Some l.
  Proof.
    unfold meta_lag, meta_get, set_tags.
    rewrite at_lookup_meta_set_neq; [|unfold k_time_lag, k_variable_name; congruence].
    rewrite at_lookup_meta_set_eq. reflexivity.
  Qed.

  (** NodeOK of GraphInv.TSInv for one node *)
  Definition node_ok (k : kind) (n : node) : Prop :=
    k = TS -> exists v l, parse (nid n) = Some (v, l)
                          /\ meta_var (nmeta n) = Some v /\ meta_lag (nmeta n) = Some l.

  Lemma at_mk_node k id vt m n :
    mk_node parse k id vt m = Ok n ->
    nid n = id /\ nvt n = vt /\ ninb n = [] /\ noutb n = [] /\ node_ok k n.
  Proof.
    unfold mk_node, node_ok. destruct k.
    - intros [= <-]; simpl; repeat split; discriminate.
    - destruct (parse id) as [[v l]|] eqn:Ep; [|discriminate]. intros [= <-]; simpl.
      repeat split. intros _. exists v, l. rewrite at_set_tags_var, at_set_tags_lag. auto.
  Qed.

  Lemma at_idx_add_push k g n g1 :
    idx_add k (push_node g n) n = Ok g1 -> exists ls vs, idx_of k n ls vs /\ g1 = ext g [n] ls vs.
  Proof.
    unfold idx_add. destruct k.
    - intros [= <-]. exists [], []. split; [split; reflexivity|].
      unfold ext, push_node; simpl. rewrite !app_nil_r. reflexivity.
    - destruct (meta_lag (nmeta n)) as [l|] eqn:El; [|discriminate].
      destruct (meta_var (nmeta n)) as [v|] eqn:Ev; [|discriminate].
      intros [= <-]. exists [(l, nid n)], [(v, nid n)]. split; [|reflexivity].
      exists l, v. auto.
  Qed.

  Definition added (k : kind) (g : graph) (id : name) (g1 : graph) : Prop :=
    node_exists g id = false
    /\ exists n ls vs, nid n = id /\ ninb n = [] /\ noutb n = [] /\ idx_of k n ls vs
                       /\ g1 = ext g [n] ls vs /\ node_ok k n.

  Lemma at_add_node_id_ok k g id vt m g1 :
    add_node_id parse k g id vt m = Ok g1 -> added k g id g1.
  Proof.
    unfold add_node_id. destruct k.
    - destruct (node_exists g id) eqn:Ex; [discriminate|].
      destruct (mk_node parse Plain id vt _) as [n|] eqn:Mk; cbn [bind]; [|discriminate].
      intros [= <-]. split; [exact Ex|].
      apply at_mk_node in Mk. destruct Mk as (H1 & _ & H3 & H4 & H5).
      exists n, [], []. repeat split; try assumption.
      unfold ext, push_node; simpl. rewrite !app_nil_r. reflexivity.
    - destruct (mk_node parse TS id vt _) as [n|] eqn:Mk; cbn [bind]; [|discriminate].
      destruct (node_exists g id) eqn:Ex; [discriminate|].
      destruct (mk_node parse TS id vt (nmeta n)) as [n2|] eqn:Mk2; cbn [bind]; [|discriminate].
      intros H. apply at_idx_add_push in H. destruct H as (ls & vs & Hi & ->).
      split; [exact Ex|].
      apply at_mk_node in Mk2. destruct Mk2 as (H1 & _ & H3 & H4 & H5).
      exists n2, ls, vs. auto 10.
  Qed.

  Lemma at_add_node_obj_ok k g id vt m g1 :
    add_node_obj parse k g id vt m = Ok g1 -> added k g id g1.
  Proof.
    unfold add_node_obj.
    destruct (node_exists g id) eqn:Ex; [discriminate|].
    destruct (mk_node parse k id vt m) as [n|] eqn:Mk; cbn [bind]; [|discriminate].
    intros H. apply at_idx_add_push in H. destruct H as (ls & vs & Hi & ->).
    split; [exact Ex|].
    apply at_mk_node in Mk. destruct Mk as (H1 & _ & H3 & H4 & H5).
    exists n, ls, vs. auto 10.
  Qed.

  Lemma at_add_endpoint_ok k g id o g1 :
    add_endpoint parse k g (id, o) = Ok g1 ->
    (node_exists g id = true /\ g1 = g) \/ added k g id g1.
  Proof.
    unfold add_endpoint. cbn [fst snd]. destruct (node_exists g id) eqn:Ex.
    - intros [= <-]; left; auto.
    - destruct o as [[vt m]|]; intros H; right.
      + eapply at_add_node_obj_ok; exact H.
      + eapply at_add_node_id_ok; exact H.
  Qed.

  (** ** Deleting a node without incident edges *)

  Lemma at_rfp_app {K} (keq : K -> K -> bool) key id A B :
    keq key key = true -> (forall p, In p A -> snd p <> id) ->
    remove_first_pair keq key id (A ++ (key, id) :: B) = Some (A ++ B).
  Proof.
    intros Hk. induction A as [|[k' id'] A IH]; intros HA; simpl.
    - rewrite Hk, name_eqb_refl. reflexivity.
    - destruct (name_eqb_spec id id') as [E|E].
      + exfalso. apply (HA (k', id')); [left; reflexivity|simpl; congruence].
      + rewrite andb_false_r. rewrite IH; [reflexivity|].
        intros p Hp; apply HA; right; exact Hp.
  Qed.

  Lemma at_delete_node_isolated k g id n g1 :
    get_node g id = Some n -> idx_remove k g n = Ok g1 ->
    (forall e, In e (gsrc g1) -> esrc e <> id /\ edst e <> id) ->
    delete_node k g id
    = Ok {| gnodes := filter (fun n' => negb (name_eqb id (nid n'))) (gnodes g1);
            gsrc := gsrc g1; gdst := gdst g1; gmeta := gmeta g1;
            glag := glag g1; gvar := gvar g1 |}.
  Proof.
    intros Hn Hr Hiso. unfold delete_node. rewrite Hn, Hr. cbn [bind].
    assert (Hinc : filter (fun e => name_eqb id (esrc e) || name_eqb id (edst e))
                     (sorted_edges g1) = []).
    { apply at_filter_all_false. intros e He. unfold sorted_edges in He.
      apply isort_in in He. destruct (Hiso e He) as [H1 H2].
      destruct (name_eqb_spec id (esrc e)); [congruence|].
      destruct (name_eqb_spec id (edst e)); [congruence|]. reflexivity. }
    rewrite Hinc. cbn [fold_left bind]. reflexivity.
  Qed.

  Lemma at_delete_added k g n post ls vs lpost vpost :
    WInv k g -> node_exists g (nid n) = false -> idx_of k n ls vs ->
    (forall n2, In n2 post -> nid n2 <> nid n) ->
    delete_node k (ext g (n :: post) (ls ++ lpost) (vs ++ vpost)) (nid n)
    = Ok (ext g post lpost vpost).
  Proof.
    intros [Wend Widx] Hex Hidx Hpost.
    assert (Hnotin : ~ In (nid n) (node_ids g)) by (apply at_node_exists_false; exact Hex).
    assert (Hfilter : filter (fun n' => negb (name_eqb (nid n) (nid n'))) (gnodes g ++ n :: post)
                      = gnodes g ++ post).
    { rewrite filter_app. simpl. rewrite name_eqb_refl. simpl. f_equal.
      - apply at_filter_all_true. intros x Hx.
        destruct (name_eqb_spec (nid n) (nid x)) as [E|E]; [|reflexivity].
        exfalso; apply Hnotin. rewrite E. unfold node_ids. apply in_map; exact Hx.
      - apply at_filter_all_true. intros x Hx.
        destruct (name_eqb_spec (nid n) (nid x)) as [E|E]; [|reflexivity].
        exfalso. apply (Hpost x Hx). congruence. }
    assert (Hiso : forall e, In e (gsrc g) -> esrc e <> nid n /\ edst e <> nid n).
    { intros e He. destruct (Wend e He) as [H1 H2]. split; congruence. }
    destruct k.
    - destruct Hidx as [-> ->].
      erewrite at_delete_node_isolated;
        [|apply at_get_node_ext_new; exact Hex|reflexivity|exact Hiso].
      simpl. rewrite Hfilter. reflexivity.
    - destruct Hidx as (l & v & Hl & Hv & -> & ->).
      destruct (Widx eq_refl) as [Wl Wv].
      erewrite at_delete_node_isolated; [|apply at_get_node_ext_new; exact Hex| |].
      2:{ unfold idx_remove. rewrite Hl, Hv. simpl.
          rewrite at_rfp_app; [|apply Z.eqb_refl|].
          2:{ intros p Hp E. apply Hnotin. rewrite <- Wl, <- E. apply in_map; exact Hp. }
          rewrite at_rfp_app; [|apply name_eqb_refl|].
          2:{ intros p Hp E. apply Hnotin. rewrite <- Wv, <- E. apply in_map; exact Hp. }
          reflexivity. }
      + simpl. rewrite Hfilter. reflexivity.
      + simpl. exact Hiso.
  Qed.

  (** ** The clean-up of [add_edge] *)

  Definition cleanup (k : kind) (implicit : list name) (gl : graph) : graph :=
    fold_left (fun acc id =>
                 if node_exists acc id then
                   match delete_node k acc id with Ok a => a | Err _ => acc end
                 else acc) implicit gl.

  Lemma at_add_edge_unfold k g sp dp ty m v :
    add_edge parse k g sp dp ty m v
    = match add_edge_try parse k g sp dp ty m v with
      | (Ok g', _) => (Ok g', g')
      | (Err e, gl) =>
          (Err e, cleanup k (filter (fun id => negb (node_exists g id)) [fst sp; fst dp]) gl)
      end.
  Proof. reflexivity. Qed.

  Lemma at_cleanup_absent k imp g :
    (forall id, In id imp -> node_exists g id = false) -> cleanup k imp g = g.
  Proof.
    unfold cleanup. induction imp as [|id imp IH]; intros H; simpl; [reflexivity|].
    rewrite (H id (or_introl eq_refl)). apply IH. intros x Hx; apply H; right; exact Hx.
  Qed.

  Lemma at_cleanup_cons k id imp g :
    cleanup k (id :: imp) g
    = cleanup k imp (if node_exists g id then
                       match delete_node k g id with Ok a => a | Err _ => g end
                     else g).
  Proof. reflexivity. Qed.

  Lemma at_try_fail k g s os d od ty m v e gl :
    add_edge_try parse k g (s, os) (d, od) ty m v = (Err e, gl) ->
    gl = g \/
    (s <> d /\ exists g1, add_endpoint parse k g (s, os) = Ok g1 /\
       (gl = g1 \/ exists g2, add_endpoint parse k g1 (d, od) = Ok g2 /\ gl = g2)).
  Proof.
    unfold add_edge_try. cbn [fst].
    destruct (name_eqb_spec s d) as [E|E]; [intros [= _ <-]; left; reflexivity|].
    destruct (add_endpoint parse k g (s, os)) as [g1|x] eqn:A1; [|intros [= _ <-]; left; reflexivity].
    intros H. right. split; [exact E|]. exists g1. split; [reflexivity|].
    destruct (add_endpoint parse k g1 (d, od)) as [g2|x] eqn:A2;
      [|injection H as _ <-; left; reflexivity].
    right. exists g2. split; [reflexivity|].
    destruct (match edge_at g s d with Some _ => true | None => false end);
      [injection H as _ <-; reflexivity|].
    destruct (orient k g2 s d ty) as [[s' d']|x]; [|injection H as _ <-; reflexivity].
    destruct (set_edge g2 s' d' ty _ v) as [g3|x]; [discriminate|].
    injection H as _ <-; reflexivity.
  Qed.

  Lemma at_implicit_absent g l id :
    In id (filter (fun id => negb (node_exists g id)) l) -> node_exists g id = false.
  Proof. intros H. apply filter_In in H. destruct H as [_ H]. apply negb_true_iff in H; exact H. Qed.

  (** A failing [add_edge] leaves the input state exactly. *)
  Lemma at_add_edge_fail k g sp dp ty m v e g' :
    WInv k g -> add_edge parse k g sp dp ty m v = (Err e, g') -> g' = g.
  Proof.
    intros W. rewrite at_add_edge_unfold. destruct sp as [s os], dp as [d od]. cbn [fst].
    destruct (add_edge_try parse k g (s, os) (d, od) ty m v) as [[g3|e'] gl] eqn:T; [discriminate|].
    intros [= _ <-]. apply at_try_fail in T.
    set (imp := filter (fun id => negb (node_exists g id)) [s; d]).
    assert (Habs : cleanup k imp g = g) by (apply at_cleanup_absent; apply at_implicit_absent).
    destruct T as [->|(Hne & g1 & A1 & T)]; [exact Habs|].
    apply at_add_endpoint_ok in A1.
    destruct A1 as [[Hs ->]|(Hs & ns & ls & vs & Hns & _ & _ & His & -> & _)].
    - (* the source existed *)
      destruct T as [->|(g2 & A2 & ->)]; [exact Habs|].
      apply at_add_endpoint_ok in A2.
      destruct A2 as [[Hd ->]|(Hd & nd & ld & vd & Hnd & _ & _ & Hid & -> & _)]; [exact Habs|].
      subst d imp. cbn [filter]. rewrite Hs, Hd. cbn [negb].
      rewrite at_cleanup_cons. rewrite at_node_exists_ext. simpl find_node.
      rewrite name_eqb_refl, orb_true_r.
      rewrite <- (app_nil_r ld), <- (app_nil_r vd).
      rewrite at_delete_added; try assumption.
      + rewrite at_ext_nil. reflexivity.
      + intros n2 [].
    - (* the source was created *)
      subst s.
      assert (Hdel_s : forall post lpost vpost,
                 (forall n2, In n2 post -> nid n2 <> nid ns) ->
                 (if node_exists (ext g (ns :: post) (ls ++ lpost) (vs ++ vpost)) (nid ns)
                  then match delete_node k (ext g (ns :: post) (ls ++ lpost) (vs ++ vpost)) (nid ns)
                       with Ok a => a | Err _ => ext g (ns :: post) (ls ++ lpost) (vs ++ vpost) end
                  else ext g (ns :: post) (ls ++ lpost) (vs ++ vpost))
                 = ext g post lpost vpost).
      { intros post lpost vpost Hpost.
        rewrite at_node_exists_ext. simpl find_node.
        rewrite name_eqb_refl, orb_true_r.
        rewrite at_delete_added; try assumption; reflexivity. }
      assert (Hgl1 : cleanup k imp (ext g [ns] ls vs) = g).
      { subst imp. cbn [filter]. rewrite Hs. cbn [negb].
        rewrite at_cleanup_cons.
        rewrite <- (app_nil_r ls), <- (app_nil_r vs).
        rewrite Hdel_s; [|intros n2 []]. rewrite at_ext_nil.
        apply at_cleanup_absent. intros id Hid.
        destruct (node_exists g d) eqn:Hd0; simpl in Hid; [contradiction|].
        destruct Hid as [<-|[]]; exact Hd0. }
      destruct T as [->|(g2 & A2 & ->)]; [exact Hgl1|].
      apply at_add_endpoint_ok in A2.
      destruct A2 as [[Hd ->]|(Hd & nd & ld & vd & Hnd & _ & _ & Hid & -> & _)]; [exact Hgl1|].
      rewrite at_ext_ext. subst d.
      assert (Hd' : node_exists g (nid nd) = false).
      { rewrite at_node_exists_ext in Hd. apply orb_false_iff in Hd. apply Hd. }
      subst imp. cbn [filter]. rewrite Hs, Hd'. cbn [negb].
      rewrite at_cleanup_cons. simpl app.
      rewrite Hdel_s.
      2:{ intros n2 [<-|[]]. congruence. }
      rewrite at_cleanup_cons. rewrite at_node_exists_ext. simpl find_node.
      rewrite name_eqb_refl, orb_true_r.
      rewrite <- (app_nil_r ld), <- (app_nil_r vd).
      rewrite at_delete_added; try assumption.
      + rewrite at_ext_nil. reflexivity.
      + intros n2 [].
  Qed.

  (** ** Nodes that differ only in their per-node directed lists *)

  Definition node_same (a b : node) : Prop := nid a = nid b /\ nvt a = nvt b /\ nmeta a = nmeta b.

  Lemma at_update_node_same f id ns :
    (forall n, node_same (f n) n) -> Forall2 node_same (update_node f id ns) ns.
  Proof.
    intros Hf. unfold update_node. apply at_Forall2_map_l. intros n _.
    destruct (name_eqb id (nid n)); [apply Hf|]. repeat split.
  Qed.

  Lemma at_same_trans l1 l2 l3 :
    Forall2 node_same l1 l2 -> Forall2 node_same l2 l3 -> Forall2 node_same l1 l3.
  Proof.
    apply at_Forall2_trans. unfold node_same. intros x y z (A1 & A2 & A3) (B1 & B2 & B3).
    repeat split; congruence.
  Qed.

  Lemma at_same_ids l1 l2 : Forall2 node_same l1 l2 -> map nid l1 = map nid l2.
  Proof. intros F. eapply at_map_Forall2; [exact F|]. intros a b H; apply H. Qed.

  Lemma at_same_get g1 g id :
    Forall2 node_same (gnodes g1) (gnodes g) ->
    match get_node g1 id, get_node g id with
    | Some a, Some b => node_same a b
    | None, None => True
    | _, _ => False
    end.
  Proof. intros F. unfold get_node. apply at_find_node_rel; [|exact F]. intros a b H; apply H. Qed.

  Lemma at_same_exists g1 g id :
    Forall2 node_same (gnodes g1) (gnodes g) -> node_exists g1 id = node_exists g id.
  Proof.
    intros F. pose proof (at_same_get g1 g id F) as H. unfold node_exists.
    destruct (get_node g1 id), (get_node g id); try reflexivity; contradiction.
  Qed.

  Lemma at_same_lag g1 g id :
    Forall2 node_same (gnodes g1) (gnodes g) -> node_lag g1 id = node_lag g id.
  Proof.
    intros F. pose proof (at_same_get g1 g id F) as H. unfold node_lag.
    destruct (get_node g1 id), (get_node g id); try reflexivity; try contradiction.
    destruct H as (_ & _ & ->). reflexivity.
  Qed.

  (** ** delete_edge *)

  Definition del_inb (s : name) (n : node) : node :=
    {| nid := nid n; nvt := nvt n; nmeta := nmeta n;
       ninb := remove_first s (ninb n); noutb := noutb n |}.
  Definition del_outb (d : name) (n : node) : node :=
    {| nid := nid n; nvt := nvt n; nmeta := nmeta n;
       ninb := ninb n; noutb := remove_first d (noutb n) |}.
  Definition ins_inb (s : name) (n : node) : node :=
    {| nid := nid n; nvt := nvt n; nmeta := nmeta n;
       ninb := ninb n ++ [s]; noutb := noutb n |}.
  Definition ins_outb (d : name) (n : node) : node :=
    {| nid := nid n; nvt := nvt n; nmeta := nmeta n;
       ninb := ninb n; noutb := noutb n ++ [d] |}.

  Definition del_state (g : graph) (s d : name) (e : edge) : graph :=
    {| gnodes := if etype_eqb (ety e) Dir
                 then update_node (del_outb d) s (update_node (del_inb s) d (gnodes g))
                 else gnodes g;
       gsrc := drop_edge s d (gsrc g); gdst := drop_edge s d (gdst g);
       gmeta := gmeta g; glag := glag g; gvar := gvar g |}.

  Lemma at_insert_edge_eq g e :
    insert_edge g e
    = {| gnodes := if etype_eqb (ety e) Dir
                   then update_node (ins_outb (edst e)) (esrc e)
                          (update_node (ins_inb (esrc e)) (edst e) (gnodes g))
                   else gnodes g;
         gsrc := gsrc g ++ [e]; gdst := gdst g ++ [e]; gmeta := gmeta g;
         glag := glag g; gvar := gvar g |}.
  Proof. reflexivity. Qed.

  Lemma at_delete_edge_ok g s d oty g1 :
    delete_edge g s d oty = Ok g1 ->
    exists e, edge_at g s d = Some e /\ node_exists g s = true /\ node_exists g d = true
              /\ g1 = del_state g s d e.
  Proof.
    unfold delete_edge.
    destruct (node_exists g s); [|discriminate]. destruct (node_exists g d); [|discriminate].
    cbn [negb]. destruct (edge_at g s d) as [e|]; [|discriminate].
    destruct (match oty with Some t => negb (etype_eqb t (ety e)) | None => false end);
      [discriminate|].
    intros [= <-]. exists e. repeat split.
  Qed.

  Lemma at_del_same g s d e : Forall2 node_same (gnodes (del_state g s d e)) (gnodes g).
  Proof.
    unfold del_state; simpl. destruct (etype_eqb (ety e) Dir).
    - eapply at_same_trans; apply at_update_node_same; intros n; repeat split.
    - apply at_Forall2_refl. intros n; repeat split.
  Qed.

  Lemma at_ins_same g e : Forall2 node_same (gnodes (insert_edge g e)) (gnodes g).
  Proof.
    rewrite at_insert_edge_eq; simpl. destruct (etype_eqb (ety e) Dir).
    - eapply at_same_trans; apply at_update_node_same; intros n; repeat split.
    - apply at_Forall2_refl. intros n; repeat split.
  Qed.

  Lemma at_winv_del k g s d e : WInv k g -> WInv k (del_state g s d e).
  Proof.
    intros [We Wi]. unfold WInv, node_ids.
    rewrite (at_same_ids _ _ (at_del_same g s d e)). split.
    - intros e' He'. simpl in He'. unfold drop_edge in He'. apply filter_In in He'.
      apply We, He'.
    - exact Wi.
  Qed.

  Lemma at_find_edge_drop s d l : find_edge s d (drop_edge s d l) = None.
  Proof.
    apply at_find_edge_none. intros e He [Hs Hd]. unfold drop_edge in He.
    apply filter_In in He. destruct He as [_ He]. subst s d.
    rewrite !name_eqb_refl in He. discriminate.
  Qed.

  Lemma at_find_edge_drop_none a b s d l :
    find_edge a b l = None -> find_edge a b (drop_edge s d l) = None.
  Proof.
    rewrite !at_find_edge_none. intros H e He. apply H. unfold drop_edge in He.
    apply filter_In in He. apply He.
  Qed.

  Lemma at_drop_perm l e :
    NoDup (map edge_key l) -> In e l -> Permutation (drop_edge (esrc e) (edst e) l ++ [e]) l.
  Proof.
    induction l as [|a l IH]; simpl; intros ND Hin; [contradiction|].
    inversion ND as [|? ? Hn ND']; subst.
    destruct Hin as [->|Hin].
    - rewrite !name_eqb_refl. simpl.
      assert (E : drop_edge (esrc e) (edst e) l = l).
      { apply at_filter_all_true. intros x Hx.
        destruct (name_eqb_spec (esrc e) (esrc x)) as [E1|E1]; [|reflexivity].
        destruct (name_eqb_spec (edst e) (edst x)) as [E2|E2]; [|reflexivity].
        exfalso; apply Hn. unfold edge_key at 1. rewrite E1, E2. apply (in_map edge_key _ _ Hx). }
      rewrite E. symmetry. apply Permutation_cons_append.
    - assert (Hk : negb (name_eqb (esrc e) (esrc a) && name_eqb (edst e) (edst a)) = true).
      { destruct (name_eqb_spec (esrc e) (esrc a)) as [E1|E1]; [|reflexivity].
        destruct (name_eqb_spec (edst e) (edst a)) as [E2|E2]; [|reflexivity].
        exfalso; apply Hn. unfold edge_key at 1. rewrite <- E1, <- E2.
        apply (in_map edge_key _ _ Hin). }
      rewrite Hk. simpl. constructor. apply IH; assumption.
  Qed.

  Lemma at_remove_first_perm x l : In x l -> Permutation (remove_first x l ++ [x]) l.
  Proof.
    induction l as [|y l IH]; simpl; intros Hin; [contradiction|].
    destruct (name_eqb_spec x y) as [->|E].
    - symmetry. apply Permutation_cons_append.
    - simpl. constructor. apply IH. destruct Hin as [H|H]; [congruence|exact H].
  Qed.

  (** ** add_edge between existing nodes *)

  Lemma at_try_existing k g s d ty m v :
    s <> d -> node_exists g s = true -> node_exists g d = true ->
    add_edge_try parse k g (str_ep s) (str_ep d) ty m v
    = match edge_at g s d with
      | Some _ => (Err EEdgeDup, g)
      | None =>
          match orient k g s d ty with
          | Err e => (Err e, g)
          | Ok (s', d') =>
              match set_edge g s' d' ty (match m with Some x => x | None => [] end) v with
              | Err e => (Err e, g)
              | Ok g3 => (Ok g3, g3)
              end
          end
      end.
  Proof.
    intros Hne Hs Hd. unfold add_edge_try, str_ep, add_endpoint. cbn [fst snd].
    destruct (name_eqb_spec s d) as [E|_]; [contradiction|].
    rewrite Hs, Hd. destruct (edge_at g s d); reflexivity.
  Qed.

  (** re-inserting the edge that [delete_edge] removed gives an equivalent state *)
  Lemma at_reinsert_equiv k g s d e0 :
    Inv parse k g -> edge_at g s d = Some e0 ->
    equiv (insert_edge (del_state g s d e0) e0) g.
  Proof.
    intros I He. unfold edge_at in He. apply at_find_edge_some in He.
    destruct He as (Hin & Hs & Hd). subst s d.
    assert (Hne : esrc e0 <> edst e0) by apply (inv_noloop I e0 Hin).
    rewrite at_insert_edge_eq. unfold del_state, equiv; simpl. repeat split.
    - destruct (etype_eqb_spec (ety e0) Dir) as [Ety|Ety].
      2:{ apply at_Forall2_refl, node_equiv_refl. }
      unfold update_node. rewrite !map_map. apply at_Forall2_map_l. intros n Hn.
      destruct (name_eqb_spec (edst e0) (nid n)) as [Ed|Ed];
        destruct (name_eqb_spec (esrc e0) (nid n)) as [Es|Es]; simpl.
      + congruence.
      + destruct (name_eqb_spec (esrc e0) (nid n)); [contradiction|]. simpl.
        destruct (name_eqb_spec (edst e0) (nid n)); [|contradiction]. simpl.
        destruct (name_eqb_spec (esrc e0) (nid n)); [contradiction|].
        unfold node_equiv; simpl. repeat split; [|reflexivity].
        apply at_remove_first_perm.
        apply (Permutation_in _ (Permutation_sym (inv_inb I n Hn))).
        unfold dir_into. apply in_map. apply filter_In. split; [exact Hin|].
        rewrite Ety, Ed, name_eqb_refl. reflexivity.
      + destruct (name_eqb_spec (esrc e0) (nid n)); [|contradiction]. simpl.
        destruct (name_eqb_spec (edst e0) (nid n)); [contradiction|]. simpl.
        destruct (name_eqb_spec (esrc e0) (nid n)); [|contradiction].
        unfold node_equiv; simpl. repeat split; [reflexivity|].
        apply at_remove_first_perm.
        apply (Permutation_in _ (Permutation_sym (inv_outb I n Hn))).
        unfold dir_from. apply in_map. apply filter_In. split; [exact Hin|].
        rewrite Ety, Es, name_eqb_refl. reflexivity.
      + destruct (name_eqb_spec (esrc e0) (nid n)); [contradiction|]. simpl.
        destruct (name_eqb_spec (edst e0) (nid n)); [contradiction|]. simpl.
        destruct (name_eqb_spec (esrc e0) (nid n)); [contradiction|].
        apply node_equiv_refl.
    - apply at_drop_perm; [apply (inv_nodup_keys I)|exact Hin].
    - apply at_drop_perm.
      + eapply at_nodup_keys_perm; [symmetry; apply (inv_mirror I)|apply (inv_nodup_keys I)].
      + eapply Permutation_in; [symmetry; apply (inv_mirror I)|exact Hin].
  Qed.

  Lemma at_edge_eta e : {| esrc := esrc e; edst := edst e; ety := ety e; emeta := emeta e |} = e.
  Proof. destruct e; reflexivity. Qed.

  (** the restore step of change_edge_type / replace_edge succeeds and yields an equivalent
      state *)
  Lemma at_restore k g s d oty e0 g1 :
    Inv parse k g -> edge_at g s d = Some e0 -> delete_edge g s d oty = Ok g1 ->
    exists g3,
      add_edge parse k g1 (str_ep s) (str_ep d) (ety e0) (Some (emeta e0)) false = (Ok g3, g3)
      /\ equiv g3 g.
  Proof.
    intros I He Hdel. apply at_delete_edge_ok in Hdel.
    destruct Hdel as (e & He' & Hs & Hd & ->). rewrite He in He'. injection He' as <-.
    pose proof He as He2. unfold edge_at in He2. apply at_find_edge_some in He2.
    destruct He2 as (Hin & Es & Ed).
    assert (Hne : s <> d) by (subst s d; apply (inv_noloop I e0 Hin)).
    pose proof (at_del_same g s d e0) as Hsame.
    exists (insert_edge (del_state g s d e0) e0). split; [|apply (at_reinsert_equiv k g s d e0 I He)].
    rewrite at_add_edge_unfold. rewrite at_try_existing; try assumption.
    2:{ rewrite (at_same_exists _ _ _ Hsame); exact Hs. }
    2:{ rewrite (at_same_exists _ _ _ Hsame); exact Hd. }
    assert (Hor : orient k (del_state g s d e0) s d (ety e0) = Ok (s, d)).
    { unfold orient. destruct k; [reflexivity|].
      rewrite !(at_same_lag _ _ _ Hsame).
      destruct (ts_time (inv_ts I eq_refl) e0 Hin) as (ls & ld & Hls & Hld & Hle).
      rewrite Es in Hls. rewrite Ed in Hld. rewrite Hls, Hld.
      destruct (Z.ltb_spec ld ls); [lia|reflexivity]. }
    rewrite Hor. unfold set_edge.
    assert (H1 : edge_at (del_state g s d e0) s d = None).
    { unfold edge_at, del_state; simpl. apply at_find_edge_drop. }
    assert (H2 : edge_at (del_state g s d e0) d s = None).
    { unfold edge_at, del_state; simpl. apply at_find_edge_drop_none.
      apply at_find_edge_none. intros e1 Hin1 [E1 E2].
      apply (inv_noreverse I e0 Hin). unfold edge_keys.
      rewrite Es, Ed, <- E1, <- E2. apply (in_map edge_key _ _ Hin1). }
    rewrite H1 at 1.
    assert (Eeq : {| esrc := s; edst := d; ety := ety e0; emeta := emeta e0 |} = e0)
      by (rewrite <- Es, <- Ed; apply at_edge_eta).
    rewrite H1, H2, Eeq. reflexivity.
  Qed.

  (** ** change_edge_type / replace_edge *)

  Lemma at_winv_after_delete k g s d oty g1 :
    Inv parse k g -> delete_edge g s d oty = Ok g1 -> WInv k g1.
  Proof.
    intros I H. apply at_delete_edge_ok in H. destruct H as (e & _ & _ & _ & ->).
    apply at_winv_del, at_inv_winv, I.
  Qed.

  Lemma at_change_edge_type_fail k g s d ty e g' :
    Inv parse k g -> change_edge_type parse k g s d ty = (Err e, g') -> equiv g' g.
  Proof.
    intros I. unfold change_edge_type.
    destruct (edge_at g s d) as [e0|] eqn:He; [|intros [= _ <-]; apply equiv_refl].
    destruct (etype_eqb (ety e0) ty); [discriminate|].
    destruct (delete_edge g s d (Some (ety e0))) as [g1|x] eqn:Hdel;
      [|intros [= _ <-]; apply equiv_refl].
    destruct (add_edge parse k g1 (str_ep s) (str_ep d) ty (Some (emeta e0)) true)
      as [[g2|x] g2'] eqn:Hadd; [discriminate|].
    assert (E : g2' = g1).
    { eapply at_add_edge_fail; [|exact Hadd]. eapply at_winv_after_delete; eassumption. }
    subst g2'.
    destruct (at_restore k g s d (Some (ety e0)) e0 g1 I He Hdel) as (g3 & Hr & Heq).
    rewrite Hr. intros [= _ <-]. exact Heq.
  Qed.

  Lemma at_replace_edge_fail k g s d s' d' oty om e g' :
    Inv parse k g -> replace_edge parse k g s d s' d' oty om = (Err e, g') -> equiv g' g.
  Proof.
    intros I. unfold replace_edge.
    destruct (edge_at g s d) as [e0|] eqn:He; [|intros [= _ <-]; apply equiv_refl].
    destruct (edge_at g s' d') as [e1|] eqn:He1; [intros [= _ <-]; apply equiv_refl|].
    destruct (delete_edge g s d None) as [g1|x] eqn:Hdel;
      [|intros [= _ <-]; apply equiv_refl].
    destruct (add_edge parse k g1 (str_ep s') (str_ep d') _ _ true)
      as [[g2|x] g2'] eqn:Hadd; [discriminate|].
    assert (E : g2' = g1).
    { eapply at_add_edge_fail; [|exact Hadd]. eapply at_winv_after_delete; eassumption. }
    subst g2'.
    destruct (at_restore k g s d None e0 g1 I He Hdel) as (g3 & Hr & Heq).
    rewrite Hr. intros [= _ <-]. exact Heq.
  Qed.

  Lemma at_add_time_edge_fail k g sv st dv dt m v e g' :
    Inv parse k g -> add_time_edge parse fmt k g sv st dv dt m v = (Err e, g') -> g' = g.
  Proof.
    intros I. unfold add_time_edge. destruct k; [intros [= _ <-]; reflexivity|].
    destruct (fmt sv st) as [s|]; [|intros [= _ <-]; reflexivity].
    destruct (fmt dv dt) as [d|]; [|intros [= _ <-]; reflexivity].
    apply at_add_edge_fail, at_inv_winv, I.
  Qed.

  (** ** All single-element mutators except replace_node *)

  Definition not_replace_node (o : op) : bool :=
    match o with OReplaceNode _ _ _ _ _ _ => false | _ => true end.

  Lemma at_lift_fail g r e :
    match fst (lift g r) with Ok _ => None | Err x => Some x end = Some e ->
    snd (lift g r) = g.
  Proof. destruct r; simpl; [discriminate|reflexivity]. Qed.

  Lemma at_outcome_err (r : res graph * graph) e :
    match fst r with Ok _ => None | Err x => Some x end = Some e -> r = (Err e, snd r).
  Proof. destruct r as [[g1|x] g2]; simpl; [discriminate|]. intros [= ->]; reflexivity. Qed.

  Theorem failed_step_equiv_partial :
    forall k g o e, Inv parse k g -> single_element o = true -> not_replace_node o = true ->
      outcome parse fmt k g o = Some e -> equiv (step parse fmt k g o) g.
  Proof.
    intros k g o e I Hs Hn. unfold outcome, step.
    destruct o; simpl in Hs, Hn; try discriminate; cbn [run_op]; intros H.
    - rewrite (at_lift_fail _ _ _ H). apply equiv_refl.
    - rewrite (at_lift_fail _ _ _ H). apply equiv_refl.
    - rewrite (at_lift_fail _ _ _ H). apply equiv_refl.
    - rewrite (at_lift_fail _ _ _ H). apply equiv_refl.
    - apply at_outcome_err in H. apply at_add_edge_fail in H; [|apply at_inv_winv, I].
      rewrite H. apply equiv_refl.
    - apply at_outcome_err in H. apply at_add_time_edge_fail in H; [|exact I].
      rewrite H. apply equiv_refl.
    - rewrite (at_lift_fail _ _ _ H). apply equiv_refl.
    - apply at_outcome_err in H. eapply at_change_edge_type_fail; eassumption.
    - apply at_outcome_err in H. eapply at_replace_edge_fail; eassumption.
  Qed.

  (** ** replace_node: the projection that forgets everything about one node id *)

  Definition not_id (x : name) (n : node) : bool := negb (name_eqb x (nid n)).
  Definition not_inc (x : name) (e : edge) : bool :=
    negb (name_eqb x (esrc e) || name_eqb x (edst e)).
  Definition keep (x y : name) : bool := negb (name_eqb x y).
  Definition strip (x : name) (n : node) : node :=
    {| nid := nid n; nvt := nvt n; nmeta := nmeta n;
       ninb := filter (keep x) (ninb n); noutb := filter (keep x) (noutb n) |}.
  Definition proj (x : name) (g : graph) : graph :=
    {| gnodes := map (strip x) (filter (not_id x) (gnodes g));
       gsrc := filter (not_inc x) (gsrc g); gdst := filter (not_inc x) (gdst g);
       gmeta := gmeta g;
       glag := filter (fun p => keep x (snd p)) (glag g);
       gvar := filter (fun p => keep x (snd p)) (gvar g) |}.

  Lemma at_filter_filter_sub {A} (f f2 : A -> bool) l :
    (forall a, f2 a = false -> f a = false) -> filter f (filter f2 l) = filter f l.
  Proof.
    intros H. induction l as [|a l IH]; simpl; [reflexivity|].
    destruct (f2 a) eqn:E2; simpl.
    - rewrite IH; reflexivity.
    - rewrite (H a E2). exact IH.
  Qed.

  Lemma at_keep_remove_first x l : filter (keep x) (remove_first x l) = filter (keep x) l.
  Proof.
    induction l as [|y l IH]; simpl; [reflexivity|]. unfold keep at 2.
    destruct (name_eqb x y) eqn:E; simpl; [reflexivity|].
    unfold keep at 1. rewrite E. simpl. rewrite IH. reflexivity.
  Qed.

  Lemma at_keep_snoc x l : filter (keep x) (l ++ [x]) = filter (keep x) l.
  Proof.
    rewrite filter_app. simpl. unfold keep at 2. rewrite name_eqb_refl. simpl.
    apply app_nil_r.
  Qed.

  Lemma at_proj_update x f id ns :
    (forall n, nid (f n) = nid n) -> (id = x \/ forall n, strip x (f n) = strip x n) ->
    map (strip x) (filter (not_id x) (update_node f id ns))
    = map (strip x) (filter (not_id x) ns).
  Proof.
    intros Hid Hf. unfold update_node. induction ns as [|n ns IH]; simpl; [reflexivity|].
    destruct (name_eqb_spec id (nid n)) as [E|E].
    - assert (Hn1 : not_id x (f n) = not_id x n) by (unfold not_id; rewrite Hid; reflexivity).
      rewrite Hn1. destruct (not_id x n) eqn:Ex; simpl; [|exact IH].
      destruct Hf as [Hf|Hf].
      + exfalso. unfold not_id in Ex. rewrite <- E, Hf, name_eqb_refl in Ex. discriminate.
      + rewrite Hf, IH. reflexivity.
    - destruct (not_id x n); simpl; rewrite IH; reflexivity.
  Qed.

  Lemma at_proj_insert x g e :
    esrc e = x \/ edst e = x -> proj x (insert_edge g e) = proj x g.
  Proof.
    intros Hinc. rewrite at_insert_edge_eq. unfold proj; simpl.
    assert (Hni : not_inc x e = false).
    { unfold not_inc. destruct Hinc as [<-|<-]; rewrite name_eqb_refl; [reflexivity|].
      rewrite orb_true_r; reflexivity. }
    rewrite !filter_app. simpl. rewrite Hni, !app_nil_r. f_equal.
    destruct (etype_eqb (ety e) Dir); [|reflexivity].
    rewrite at_proj_update; [rewrite at_proj_update|..]; try reflexivity.
    - destruct Hinc as [H|H]; [right|left; exact H]. intros n. unfold strip, ins_inb; simpl.
      rewrite H, at_keep_snoc. reflexivity.
    - destruct Hinc as [H|H]; [left; exact H|right]. intros n. unfold strip, ins_outb; simpl.
      rewrite H, at_keep_snoc. reflexivity.
  Qed.

  Lemma at_proj_del x g s d e : s = x \/ d = x -> proj x (del_state g s d e) = proj x g.
  Proof.
    intros Hinc. unfold proj, del_state; simpl.
    assert (Hsub : forall a : edge,
               negb (name_eqb s (esrc a) && name_eqb d (edst a)) = false -> not_inc x a = false).
    { intros a Ha. apply negb_false_iff, andb_true_iff in Ha. destruct Ha as [H1 H2].
      apply name_eqb_eq in H1, H2. unfold not_inc. subst s d.
      destruct Hinc as [<-|<-]; rewrite name_eqb_refl; [reflexivity|].
      rewrite orb_true_r; reflexivity. }
    unfold drop_edge. rewrite !(at_filter_filter_sub _ _ _ Hsub). f_equal.
    destruct (etype_eqb (ety e) Dir); [|reflexivity].
    rewrite at_proj_update; [rewrite at_proj_update|..]; try reflexivity.
    - destruct Hinc as [H|H]; [right|left; exact H]. intros n. unfold strip, del_inb; simpl.
      rewrite H, at_keep_remove_first. reflexivity.
    - destruct Hinc as [H|H]; [left; exact H|right]. intros n. unfold strip, del_outb; simpl.
      rewrite H, at_keep_remove_first. reflexivity.
  Qed.

  Lemma at_idx_of_snd k n ls vs :
    idx_of k n ls vs -> (forall p, In p ls -> snd p = nid n) /\ (forall p, In p vs -> snd p = nid n).
  Proof.
    destruct k; simpl.
    - intros [-> ->]. split; intros p [].
    - intros (l & v & _ & _ & -> & ->). split; intros p [<-|[]]; reflexivity.
  Qed.

  Lemma at_proj_ext x g n ls vs :
    nid n = x -> (forall p, In p ls -> snd p = x) -> (forall p, In p vs -> snd p = x) ->
    proj x (ext g [n] ls vs) = proj x g.
  Proof.
    intros Hn Hl Hv. unfold proj, ext; simpl. rewrite !filter_app. simpl.
    unfold not_id at 2. rewrite Hn, name_eqb_refl. simpl. rewrite app_nil_r.
    rewrite (at_filter_all_false _ ls), (at_filter_all_false _ vs), !app_nil_r; [reflexivity|..].
    - intros p Hp. rewrite (Hv p Hp). unfold keep. rewrite name_eqb_refl. reflexivity.
    - intros p Hp. rewrite (Hl p Hp). unfold keep. rewrite name_eqb_refl. reflexivity.
  Qed.

  Lemma at_keep_true x y : x <> y -> keep x y = true.
  Proof. intros H. unfold keep. destruct (name_eqb_spec x y); [contradiction|reflexivity]. Qed.

  Lemma at_proj_fresh k x g : Inv parse k g -> ~ In x (node_ids g) -> proj x g = g.
  Proof.
    intros I Hx.
    assert (Hend : forall e, In e (gsrc g) -> esrc e <> x /\ edst e <> x).
    { intros e He. destruct (inv_endpoints I e He) as [H1 H2]. split; congruence. }
    assert (Hnodes : map (strip x) (filter (not_id x) (gnodes g)) = gnodes g).
    { rewrite at_filter_all_true.
      2:{ intros n Hn. unfold not_id. destruct (name_eqb_spec x (nid n)) as [E|E]; [|reflexivity].
          exfalso; apply Hx. rewrite E. apply in_map, Hn. }
      rewrite <- (map_id (gnodes g)) at 2. apply map_ext_in. intros n Hn.
      destruct n as [i t m inb outb]. unfold strip; simpl. f_equal.
      - apply at_filter_all_true. intros y Hy. apply at_keep_true. intros <-.
        apply (Permutation_in _ (inv_inb I _ Hn)) in Hy. simpl in Hy. unfold dir_into in Hy.
        apply in_map_iff in Hy. destruct Hy as (e & He1 & He2). apply filter_In in He2.
        destruct (Hend e (proj1 He2)) as [H _]. congruence.
      - apply at_filter_all_true. intros y Hy. apply at_keep_true. intros <-.
        apply (Permutation_in _ (inv_outb I _ Hn)) in Hy. simpl in Hy. unfold dir_from in Hy.
        apply in_map_iff in Hy. destruct Hy as (e & He1 & He2). apply filter_In in He2.
        destruct (Hend e (proj1 He2)) as [_ H]. congruence. }
    assert (Hinc : forall e, In e (gsrc g) -> not_inc x e = true).
    { intros e He. destruct (Hend e He) as [H1 H2]. unfold not_inc.
      destruct (name_eqb_spec x (esrc e)); [congruence|].
      destruct (name_eqb_spec x (edst e)); [congruence|]. reflexivity. }
    assert (Hsrc : filter (not_inc x) (gsrc g) = gsrc g) by (apply at_filter_all_true, Hinc).
    assert (Hdst : filter (not_inc x) (gdst g) = gdst g).
    { apply at_filter_all_true. intros e He. apply Hinc.
      apply (Permutation_in _ (inv_mirror I) He). }
    assert (Hidx : filter (fun p => keep x (snd p)) (glag g) = glag g
                   /\ filter (fun p => keep x (snd p)) (gvar g) = gvar g).
    { destruct k.
      - destruct (inv_plain_idx I eq_refl) as [-> ->]. split; reflexivity.
      - destruct (at_inv_winv _ _ I) as [_ W]. destruct (W eq_refl) as [Wl Wv].
        split; apply at_filter_all_true; intros p Hp; apply at_keep_true; intros E; apply Hx.
        + rewrite <- Wl, E. apply in_map, Hp.
        + rewrite <- Wv, E. apply in_map, Hp. }
    destruct Hidx as [Hl Hv].
    unfold proj. rewrite Hnodes, Hsrc, Hdst, Hl, Hv. destruct g; reflexivity.
  Qed.

  Lemma at_proj_rfp {K} (keq : K -> K -> bool) key x (L L' : list (K * name)) :
    remove_first_pair keq key x L = Some L' ->
    filter (fun p => keep x (snd p)) L' = filter (fun p => keep x (snd p)) L.
  Proof.
    revert L'. induction L as [|[k' id'] L IH]; intros L'; simpl; [discriminate|].
    destruct (keq key k' && name_eqb x id') eqn:T.
    - intros [= <-]. apply andb_true_iff in T. destruct T as [_ T].
      unfold keep at 2. rewrite T. reflexivity.
    - destruct (remove_first_pair keq key x L) as [r|]; [|discriminate].
      intros [= <-]. simpl. rewrite (IH r eq_refl). reflexivity.
  Qed.

  Lemma at_proj_idx_remove k x g n ga :
    idx_remove k g n = Ok ga -> nid n = x -> proj x ga = proj x g.
  Proof.
    unfold idx_remove. destruct k; [intros [= <-]; reflexivity|].
    destruct (meta_lag (nmeta n)) as [l|]; [|discriminate].
    destruct (meta_var (nmeta n)) as [v|]; [|discriminate].
    destruct (remove_first_pair Z.eqb l (nid n) (glag g)) as [gl|] eqn:El; [|discriminate].
    destruct (remove_first_pair name_eqb v (nid n) (gvar g)) as [gv|] eqn:Ev; [|discriminate].
    intros [= <-] Hn. rewrite Hn in El, Ev. unfold proj; simpl.
    rewrite (at_proj_rfp _ _ _ _ _ El), (at_proj_rfp _ _ _ _ _ Ev). reflexivity.
  Qed.

  Definition del_step (acc : res graph) (e : edge) : res graph :=
    bind acc (fun g' => delete_edge g' (esrc e) (edst e) None).

  Lemma at_del_fold_err l x : fold_left del_step l (Err x) = Err x.
  Proof. induction l; simpl; auto. Qed.

  Lemma at_proj_del_fold x l : forall ga gb,
    fold_left del_step l (Ok ga) = Ok gb ->
    (forall e, In e l -> esrc e = x \/ edst e = x) -> proj x gb = proj x ga.
  Proof.
    induction l as [|e l IH]; simpl; intros ga gb H Hl; [injection H as <-; reflexivity|].
    destruct (delete_edge ga (esrc e) (edst e) None) as [g1|y] eqn:D.
    - rewrite (IH g1 gb H); [|intros e' He'; apply Hl; right; exact He'].
      apply at_delete_edge_ok in D. destruct D as (e0 & _ & _ & _ & ->).
      apply at_proj_del. apply Hl; left; reflexivity.
    - rewrite at_del_fold_err in H. discriminate.
  Qed.

  Lemma at_delete_node_unfold k g id :
    delete_node k g id
    = match get_node g id with
      | None => Err EKey
      | Some n =>
          bind (idx_remove k g n) (fun g1 =>
            bind (fold_left del_step
                    (filter (fun e => name_eqb id (esrc e) || name_eqb id (edst e)) (sorted_edges g1))
                    (Ok g1))
              (fun g2 =>
                 Ok {| gnodes := filter (not_id id) (gnodes g2);
                       gsrc := gsrc g2; gdst := gdst g2; gmeta := gmeta g2;
                       glag := glag g2; gvar := gvar g2 |}))
      end.
  Proof. reflexivity. Qed.

  Lemma at_incident_in id l e :
    In e (filter (fun e => name_eqb id (esrc e) || name_eqb id (edst e)) l) ->
    In e l /\ (esrc e = id \/ edst e = id).
  Proof.
    intros H. apply filter_In in H. destruct H as [H1 H2]. split; [exact H1|].
    apply orb_true_iff in H2. destruct H2 as [H2|H2]; apply name_eqb_eq in H2; auto.
  Qed.

  Lemma at_proj_delete_node k g x g3 :
    delete_node k g x = Ok g3 -> proj x g3 = proj x g /\ ~ In x (node_ids g3).
  Proof.
    rewrite at_delete_node_unfold.
    destruct (get_node g x) as [n|] eqn:Hn; [|discriminate].
    destruct (idx_remove k g n) as [ga|] eqn:Hr; cbn [bind]; [|discriminate].
    destruct (fold_left del_step _ (Ok ga)) as [gb|] eqn:Hf; cbn [bind]; [|discriminate].
    intros [= <-]. split.
    - unfold get_node in Hn. apply at_find_node_some in Hn. destruct Hn as [_ Hn].
      rewrite <- (at_proj_idx_remove _ _ _ _ _ Hr Hn).
      rewrite <- (at_proj_del_fold x _ _ _ Hf).
      2:{ intros e He. apply at_incident_in in He. apply He. }
      unfold proj; simpl. rewrite at_filter_filter_sub; [reflexivity|]. intros a Ha; exact Ha.
    - unfold node_ids; simpl. intros Hin. apply in_map_iff in Hin.
      destruct Hin as (n' & E & Hin). apply filter_In in Hin. destruct Hin as [_ Hin].
      unfold not_id in Hin. rewrite <- E, name_eqb_refl in Hin. discriminate.
  Qed.

  (** ** The invariant-preservation facts used for replace_node (proved in GraphInvProofs.v;
      kept as an explicit premise here so that this development does not depend on it) *)

  Definition InvFacts : Prop :=
    (forall k g s d oty g', Inv parse k g -> delete_edge g s d oty = Ok g' -> Inv parse k g')
    /\ (forall k g s d ty m v g', Inv parse k g -> s <> d -> In s (node_ids g) -> In d (node_ids g) ->
          (k = TS -> exists ls ld, node_lag g s = Some ls /\ node_lag g d = Some ld /\ (ls <= ld)%Z) ->
          set_edge g s d ty m v = Ok g' -> Inv parse k g')
    /\ (forall k g id vt m g', Inv parse k g -> add_node_id parse k g id vt m = Ok g' -> Inv parse k g').

  (** ** delete_node succeeds on every existing node *)

  Definition with_idx (g : graph) (L : list (Z * name)) (V : list (name * name)) : graph :=
    {| gnodes := gnodes g; gsrc := gsrc g; gdst := gdst g; gmeta := gmeta g;
       glag := L; gvar := V |}.

  Lemma at_delete_edge_with_idx g L V s d oty :
    delete_edge (with_idx g L V) s d oty
    = match delete_edge g s d oty with Ok g' => Ok (with_idx g' L V) | Err x => Err x end.
  Proof.
    unfold delete_edge, node_exists, get_node, edge_at, with_idx; simpl.
    destruct (find_node s (gnodes g)); simpl; [|reflexivity].
    destruct (find_node d (gnodes g)); simpl; [|reflexivity].
    destruct (find_edge s d (gsrc g)) as [e|]; [|reflexivity].
    destruct (match oty with Some t => negb (etype_eqb t (ety e)) | None => false end);
      reflexivity.
  Qed.

  Lemma at_del_fold_with_idx L V l : forall g,
    fold_left del_step l (Ok (with_idx g L V))
    = match fold_left del_step l (Ok g) with Ok gb => Ok (with_idx gb L V) | Err x => Err x end.
  Proof.
    induction l as [|e l IH]; intros g; simpl; [reflexivity|].
    rewrite at_delete_edge_with_idx.
    destruct (delete_edge g (esrc e) (edst e) None) as [g1|x].
    - apply IH.
    - rewrite !at_del_fold_err. reflexivity.
  Qed.

  Lemma at_delete_edge_succeeds g s d e :
    node_exists g s = true -> node_exists g d = true -> edge_at g s d = Some e ->
    delete_edge g s d None = Ok (del_state g s d e).
  Proof. intros Hs Hd He. unfold delete_edge. rewrite Hs, Hd, He. reflexivity. Qed.

  Lemma at_del_fold_ok k (HF : InvFacts) l : forall g,
    Inv parse k g -> NoDup (map edge_key l) -> (forall e, In e l -> In e (gsrc g)) ->
    exists gb, fold_left del_step l (Ok g) = Ok gb /\ Inv parse k gb
               /\ (forall e, In e (gsrc gb) -> In e (gsrc g) /\ ~ In (edge_key e) (map edge_key l)).
  Proof.
    induction l as [|e l IH]; intros g I ND Hl; simpl.
    { exists g. split; [reflexivity|split; [exact I|]]. intros e He; split; [exact He|intros []]. }
    inversion ND as [|? ? Hn ND']; subst.
    assert (He : In e (gsrc g)) by (apply Hl; left; reflexivity).
    destruct (inv_endpoints I e He) as [Hs Hd].
    assert (Hdel : delete_edge g (esrc e) (edst e) None = Ok (del_state g (esrc e) (edst e) e)).
    { apply at_delete_edge_succeeds.
      - apply at_node_exists_in, Hs.
      - apply at_node_exists_in, Hd.
      - apply at_find_edge_in; [apply (inv_nodup_keys I)|exact He]. }
    rewrite Hdel.
    destruct (IH (del_state g (esrc e) (edst e) e)) as (gb & Hf & Ib & Hsub).
    - destruct HF as (HF1 & _). eapply HF1; [exact I|exact Hdel].
    - exact ND'.
    - intros e' He'. simpl. unfold drop_edge. apply filter_In. split; [apply Hl; right; exact He'|].
      destruct (name_eqb_spec (esrc e) (esrc e')) as [E1|E1]; [|reflexivity].
      destruct (name_eqb_spec (edst e) (edst e')) as [E2|E2]; [|reflexivity].
      exfalso; apply Hn. unfold edge_key at 1. rewrite E1, E2. apply (in_map edge_key _ _ He').
    - exists gb. split; [exact Hf|split; [exact Ib|]].
      intros e' He'. destruct (Hsub e' He') as [H1 H2]. simpl in H1. unfold drop_edge in H1.
      apply filter_In in H1. destruct H1 as [H1 H3]. split; [exact H1|].
      intros [E|E]; [|exact (H2 E)].
      unfold edge_key in E. injection E as E1 E2. rewrite E1, E2, !name_eqb_refl in H3.
      discriminate.
  Qed.

  Lemma at_rfp_found {K} (keq : K -> K -> bool) (F : node -> option K) (L : list (K * name)) NS n l :
    (forall a, keq a a = true) ->
    Forall2 (fun p n => snd p = nid n /\ F n = Some (fst p)) L NS -> In n NS -> F n = Some l ->
    exists L', remove_first_pair keq l (nid n) L = Some L'.
  Proof.
    intros Hk F2. induction F2 as [|[k' id'] n0 L NS [H1 H2] F2 IH]; intros Hin HF; [contradiction|].
    simpl in *. destruct (keq l k' && name_eqb (nid n) id') eqn:T; [eexists; reflexivity|].
    destruct Hin as [->|Hin].
    - exfalso. rewrite HF in H2. injection H2 as ->. rewrite H1, Hk, name_eqb_refl in T.
      discriminate.
    - destruct (IH Hin HF) as (L' & ->). eexists; reflexivity.
  Qed.

  Lemma at_rfp_in {K} (keq : K -> K -> bool) key x (L L' : list (K * name)) :
    remove_first_pair keq key x L = Some L' -> In x (map snd L).
  Proof.
    revert L'. induction L as [|[k' id'] L IH]; intros L'; simpl; [discriminate|].
    destruct (keq key k' && name_eqb x id') eqn:T.
    - intros _. apply andb_true_iff in T. destruct T as [_ T]. apply name_eqb_eq in T. auto.
    - destruct (remove_first_pair keq key x L) as [r|]; [|discriminate].
      intros _. right. eapply IH; reflexivity.
  Qed.

  Lemma at_rfp_clean {K} (keq : K -> K -> bool) key x (L L' : list (K * name)) :
    NoDup (map snd L) -> remove_first_pair keq key x L = Some L' -> ~ In x (map snd L').
  Proof.
    revert L'. induction L as [|[k' id'] L IH]; intros L' ND; simpl; [discriminate|].
    simpl in ND. inversion ND as [|? ? Hn ND']; subst.
    destruct (keq key k' && name_eqb x id') eqn:T.
    - intros [= <-]. apply andb_true_iff in T. destruct T as [_ T]. apply name_eqb_eq in T.
      subst id'. exact Hn.
    - destruct (remove_first_pair keq key x L) as [r|] eqn:R; [|discriminate].
      intros [= <-]. simpl. intros [E|E].
      + apply Hn. rewrite E. eapply at_rfp_in; exact R.
      + exact (IH r ND' eq_refl E).
  Qed.

  Lemma at_idx_remove_ok k g n :
    Inv parse k g -> In n (gnodes g) ->
    exists L V, idx_remove k g n = Ok (with_idx g L V)
                /\ ~ In (nid n) (map snd L) /\ ~ In (nid n) (map snd V).
  Proof.
    intros I Hn. unfold idx_remove. destruct k.
    - exists (glag g), (gvar g). split; [destruct g; reflexivity|].
      destruct (inv_plain_idx I eq_refl) as [-> ->]. split; intros [].
    - pose proof (inv_ts I eq_refl) as T.
      destruct (at_inv_winv _ _ I) as [_ W]. destruct (W eq_refl) as [Wl Wv].
      destruct (ts_nodeok T n Hn) as (v & l & _ & Hv & Hl). rewrite Hl, Hv.
      destruct (at_rfp_found Z.eqb (fun n => meta_lag (nmeta n)) (glag g) (gnodes g) n l
                  Z.eqb_refl (ts_lagidx T) Hn Hl) as (L & EL).
      destruct (at_rfp_found name_eqb (fun n => meta_var (nmeta n)) (gvar g) (gnodes g) n v
                  name_eqb_refl (ts_varidx T) Hn Hv) as (V & EV).
      rewrite EL, EV. exists L, V. split; [reflexivity|]. split.
      + eapply at_rfp_clean; [|exact EL]. rewrite Wl. apply (inv_nodup_nodes I).
      + eapply at_rfp_clean; [|exact EV]. rewrite Wv. apply (inv_nodup_nodes I).
  Qed.

  (** [delete_node] succeeds on an existing node and leaves no trace of its id *)
  Lemma at_delete_node_spec k (HF : InvFacts) g x :
    Inv parse k g -> node_exists g x = true ->
    exists g3, delete_node k g x = Ok g3 /\ proj x g3 = g3.
  Proof.
    intros I Hx. rewrite at_delete_node_unfold. unfold node_exists in Hx.
    destruct (get_node g x) as [n|] eqn:Hn; [|discriminate].
    unfold get_node in Hn. apply at_find_node_some in Hn. destruct Hn as [Hn Hnx].
    destruct (at_idx_remove_ok k g n I Hn) as (L & V & -> & HL & HV). cbn [bind].
    rewrite Hnx in HL, HV.
    change (sorted_edges (with_idx g L V)) with (sorted_edges g).
    rewrite at_del_fold_with_idx.
    set (inc := filter (fun e => name_eqb x (esrc e) || name_eqb x (edst e)) (sorted_edges g)).
    destruct (at_del_fold_ok k HF inc g I) as (gb & -> & Ib & Hsub).
    { apply at_nodup_keys_filter. unfold sorted_edges.
      eapply at_nodup_keys_perm; [apply isort_perm|apply (inv_nodup_keys I)]. }
    { intros e He. apply filter_In in He. destruct He as [He _]. unfold sorted_edges in He.
      apply isort_in in He. exact He. }
    cbn [bind]. eexists. split; [reflexivity|].
    (* no edge incident to x is left *)
    assert (Hclean : forall e, In e (gsrc gb) -> esrc e <> x /\ edst e <> x).
    { intros e He. destruct (Hsub e He) as [H1 H2].
      assert (Hni : ~ In e inc) by (intros H; apply H2; apply in_map; exact H).
      split; intros E; apply Hni; subst inc; apply filter_In;
        (split; [unfold sorted_edges; apply isort_in; exact H1|]);
        rewrite E, name_eqb_refl; [reflexivity|apply orb_true_r]. }
    unfold proj, with_idx; simpl. f_equal.
    - rewrite at_filter_filter_sub; [|intros a Ha; exact Ha].
      rewrite <- (map_id (filter (not_id x) (gnodes gb))) at 2. apply map_ext_in.
      intros a Ha. apply filter_In in Ha. destruct Ha as [Ha _].
      destruct a as [i t m inb outb]. unfold strip; simpl. f_equal.
      + apply at_filter_all_true. intros y Hy. apply at_keep_true. intros <-.
        apply (Permutation_in _ (inv_inb Ib _ Ha)) in Hy. simpl in Hy. unfold dir_into in Hy.
        apply in_map_iff in Hy. destruct Hy as (e & He1 & He2). apply filter_In in He2.
        destruct (Hclean e (proj1 He2)) as [H _]. congruence.
      + apply at_filter_all_true. intros y Hy. apply at_keep_true. intros <-.
        apply (Permutation_in _ (inv_outb Ib _ Ha)) in Hy. simpl in Hy. unfold dir_from in Hy.
        apply in_map_iff in Hy. destruct Hy as (e & He1 & He2). apply filter_In in He2.
        destruct (Hclean e (proj1 He2)) as [_ H]. congruence.
    - apply at_filter_all_true. intros e He. destruct (Hclean e He) as [H1 H2]. unfold not_inc.
      destruct (name_eqb_spec x (esrc e)); [congruence|].
      destruct (name_eqb_spec x (edst e)); [congruence|]. reflexivity.
    - apply at_filter_all_true. intros e He.
      apply (Permutation_in _ (inv_mirror Ib)) in He.
      destruct (Hclean e He) as [H1 H2]. unfold not_inc.
      destruct (name_eqb_spec x (esrc e)); [congruence|].
      destruct (name_eqb_spec x (edst e)); [congruence|]. reflexivity.
    - apply at_filter_all_true. intros p Hp. apply at_keep_true. intros E. apply HL.
      rewrite E. apply in_map, Hp.
    - apply at_filter_all_true. intros p Hp. apply at_keep_true. intros E. apply HV.
      rewrite E. apply in_map, Hp.
  Qed.

  Lemma at_delete_node_succeeds k (HF : InvFacts) g x :
    Inv parse k g -> node_exists g x = true -> exists g3, delete_node k g x = Ok g3.
  Proof.
    intros I Hx. destruct (at_delete_node_spec k HF g x I Hx) as (g3 & H & _).
    exists g3; exact H.
  Qed.

  (** ** The copies made by replace_node *)

  Definition seq_step (k : kind) (acc : res graph * graph) (c : endpoint * endpoint * etype * meta)
    : res graph * graph :=
    match acc with
    | (Ok g', _) => let '(sp, dp, ty, m) := c in add_edge parse k g' sp dp ty (Some m) true
    | (Err x, gl) => (Err x, gl)
    end.

  Lemma at_seq_edges_eq k g calls :
    seq_edges parse k g calls = fold_left (seq_step k) calls (Ok g, g).
  Proof. reflexivity. Qed.

  Lemma at_seq_err k calls x gl : fold_left (seq_step k) calls (Err x, gl) = (Err x, gl).
  Proof. induction calls; simpl; auto. Qed.

  Lemma at_orient_ok k g s d ty s' d' :
    orient k g s d ty = Ok (s', d') ->
    ((s' = s /\ d' = d) \/ (s' = d /\ d' = s))
    /\ (k = TS -> exists ls ld, node_lag g s' = Some ls /\ node_lag g d' = Some ld /\ (ls <= ld)%Z).
  Proof.
    unfold orient. destruct k.
    - intros [= <- <-]. split; [left; auto|discriminate].
    - destruct (node_lag g s) as [ls|] eqn:Ls; [|discriminate].
      destruct (node_lag g d) as [ld|] eqn:Ld; [|discriminate].
      destruct (Z.ltb_spec ld ls) as [Hlt|Hge].
      + destruct (etype_eqb ty Dir); [discriminate|]. intros [= <- <-].
        split; [right; auto|]. intros _. exists ld, ls. repeat split; try assumption. lia.
      + intros [= <- <-]. split; [left; auto|]. intros _. exists ls, ld. auto.
  Qed.

  Lemma at_set_edge_ok g s d ty m v g3 :
    set_edge g s d ty m v = Ok g3 ->
    g3 = insert_edge g {| esrc := s; edst := d; ety := ty; emeta := m |}
    /\ edge_at g s d = None /\ edge_at g d s = None.
  Proof.
    unfold set_edge.
    destruct (edge_at g s d); [discriminate|]. destruct (edge_at g d s); [discriminate|].
    destruct v.
    - destruct (depends_on_itself _ d) as [[|]|]; [|intros [= <-]; auto|discriminate].
      destruct (delete_edge _ s d None); simpl; discriminate.
    - intros [= <-]; auto.
  Qed.

  Lemma at_add_edge_existing_ok k (HF : InvFacts) g s d ty m v g3 gl x :
    Inv parse k g -> node_exists g s = true -> node_exists g d = true -> (s = x \/ d = x) ->
    add_edge parse k g (str_ep s) (str_ep d) ty m v = (Ok g3, gl) ->
    gl = g3 /\ Inv parse k g3 /\ Forall2 node_same (gnodes g3) (gnodes g) /\ proj x g3 = proj x g.
  Proof.
    intros I Hs Hd Hx. rewrite at_add_edge_unfold.
    destruct (name_eqb_spec s d) as [E|Hne].
    { unfold add_edge_try, str_ep. cbn [fst]. subst d. rewrite name_eqb_refl. discriminate. }
    rewrite at_try_existing; try assumption.
    destruct (edge_at g s d); [discriminate|].
    destruct (orient k g s d ty) as [[s' d']|] eqn:Or; [|discriminate].
    destruct (set_edge g s' d' ty _ v) as [g4|] eqn:Se; [|discriminate].
    intros [= <- <-]. split; [reflexivity|].
    apply at_orient_ok in Or. destruct Or as [Hsd Hlag].
    destruct (at_set_edge_ok _ _ _ _ _ _ _ Se) as (Eg & _ & _).
    destruct HF as (_ & HF2 & _).
    assert (Hs' : In s' (node_ids g) /\ In d' (node_ids g) /\ s' <> d' /\ (s' = x \/ d' = x)).
    { apply at_node_exists_in in Hs, Hd.
      destruct Hsd as [[-> ->]|[-> ->]]; repeat split; auto. tauto. }
    destruct Hs' as (Hs' & Hd' & Hne' & Hx').
    split; [|split].
    - eapply HF2; [exact I|exact Hne'|exact Hs'|exact Hd'|exact Hlag|exact Se].
    - rewrite Eg. apply at_ins_same.
    - rewrite Eg. apply at_proj_insert. simpl. exact Hx'.
  Qed.

  Lemma at_seq_fold k (HF : InvFacts) x g0 calls : forall g',
    Inv parse k g' -> Forall2 node_same (gnodes g') (gnodes g0) ->
    (forall c, In c calls -> exists s d ty m,
        c = (str_ep s, str_ep d, ty, m) /\ node_exists g0 s = true /\ node_exists g0 d = true
        /\ (s = x \/ d = x)) ->
    forall r g2, fold_left (seq_step k) calls (Ok g', g') = (r, g2) ->
    Inv parse k g2 /\ Forall2 node_same (gnodes g2) (gnodes g0) /\ proj x g2 = proj x g'
    /\ (forall ga, r = Ok ga -> ga = g2).
  Proof.
    induction calls as [|c calls IH]; intros g' I Hsame Hc r g2; simpl.
    - intros [= <- <-]. split; [exact I|split; [exact Hsame|split; [reflexivity|]]].
      intros ga [= <-]; reflexivity.
    - destruct (Hc c (or_introl eq_refl)) as (s & d & ty & m & -> & Hs & Hd & Hx).
      cbn [seq_step].
      destruct (add_edge parse k g' (str_ep s) (str_ep d) ty (Some m) true) as [[g3|e] gl] eqn:A.
      + apply (at_add_edge_existing_ok k HF g' s d ty (Some m) true g3 gl x) in A; try assumption.
        2:{ rewrite (at_same_exists _ _ _ Hsame); exact Hs. }
        2:{ rewrite (at_same_exists _ _ _ Hsame); exact Hd. }
        destruct A as (-> & I3 & S3 & P3). intros Hfold.
        destruct (IH g3 I3 (at_same_trans _ _ _ S3 Hsame)
                    (fun c' Hc' => Hc c' (or_intror Hc')) r g2 Hfold) as (A1 & A2 & A3 & A4).
        split; [exact A1|split; [exact A2|split; [rewrite A3; exact P3|exact A4]]].
      + apply at_add_edge_fail in A; [|apply at_inv_winv, I]. subst gl.
        rewrite at_seq_err. intros [= <- <-].
        split; [exact I|split; [exact Hsame|split; [reflexivity|discriminate]]].
  Qed.

  (** ** replace_node *)

  Lemma at_replace_node_base_fail k (HF : InvFacts) g id new_id vt m e g' :
    Inv parse k g -> replace_node_base parse k g id new_id vt m = (Err e, g') -> g' = g.
  Proof.
    intros I. unfold replace_node_base.
    destruct (get_node g id) as [n|] eqn:Hn; [|intros [= _ <-]; reflexivity].
    destruct new_id as [id'|]; [|discriminate].
    destruct (node_exists g id') eqn:Hex; [intros [= _ <-]; reflexivity|].
    destruct (add_node_id parse k g id' _ _) as [g1|x] eqn:A; [|intros [= _ <-]; reflexivity].
    assert (I1 : Inv parse k g1).
    { destruct HF as (_ & _ & HF3). eapply HF3; eassumption. }
    apply at_add_node_id_ok in A.
    destruct A as (_ & n' & ls & vs & Hid' & _ & _ & Hidx & Eg1 & _).
    assert (Hid_ex : node_exists g1 id = true).
    { rewrite Eg1, at_node_exists_ext. unfold node_exists. rewrite Hn. reflexivity. }
    assert (Hid'_ex : node_exists g1 id' = true).
    { rewrite Eg1, at_node_exists_ext. simpl. rewrite Hid', name_eqb_refl. apply orb_true_r. }
    assert (Hproj1 : proj id' g1 = g).
    { rewrite Eg1. destruct (at_idx_of_snd _ _ _ _ Hidx) as [Hl Hv].
      rewrite at_proj_ext; [|exact Hid'|intros p Hp; rewrite (Hl p Hp); exact Hid'
                            |intros p Hp; rewrite (Hv p Hp); exact Hid'].
      apply (at_proj_fresh k); [exact I|]. apply at_node_exists_false, Hex. }
    match goal with |- context [seq_edges parse k g1 ?c] => set (calls := c) end.
    destruct (seq_edges parse k g1 calls) as [r g2] eqn:S. rewrite at_seq_edges_eq in S.
    apply (at_seq_fold k HF id' g1) in S; [|exact I1| |].
    2:{ apply at_Forall2_refl. intros a; repeat split. }
    2:{ intros c Hc. subst calls. apply in_app_iff in Hc.
        destruct Hc as [Hc|Hc]; apply in_map_iff in Hc; destruct Hc as (e0 & <- & He0).
        - exists (esrc e0), id', (ety e0), (emeta e0). repeat split; auto.
          unfold edges_into in He0. apply isort_in in He0. apply filter_In in He0.
          destruct He0 as [He0 _]. apply (Permutation_in _ (inv_mirror I1)) in He0.
          apply at_node_exists_in. apply (inv_endpoints I1 e0 He0).
        - exists id', (edst e0), (ety e0), (emeta e0). repeat split; auto.
          unfold edges_from in He0. apply isort_in in He0. apply filter_In in He0.
          destruct He0 as [He0 _].
          apply at_node_exists_in. apply (inv_endpoints I1 e0 He0). }
    destruct S as (I2 & S2 & P2 & Hr).
    destruct r as [ga|x].
    - rewrite (Hr ga eq_refl).
      destruct (at_delete_node_succeeds k HF g2 id I2) as (g3 & ->); [|discriminate].
      rewrite (at_same_exists _ _ _ S2). exact Hid_ex.
    - destruct (at_delete_node_spec k HF g2 id' I2) as (g3 & D & Hclean).
      { rewrite (at_same_exists _ _ _ S2). exact Hid'_ex. }
      rewrite D. intros [= _ <-].
      destruct (at_proj_delete_node _ _ _ _ D) as [P3 _].
      rewrite <- Hclean. rewrite P3, P2. exact Hproj1.
  Qed.

  Lemma at_replace_node_fail k (HF : InvFacts) g id new_id lag var vt m e g' :
    Inv parse k g -> replace_node parse fmt k g id new_id lag var vt m = (Err e, g') -> g' = g.
  Proof.
    intros I. unfold replace_node. cbv zeta. destruct k.
    - destruct lag, var; try (intros [= _ <-]; reflexivity).
      apply at_replace_node_base_fail; assumption.
    - match goal with |- match ?r with _ => _ end = _ -> _ => destruct r as [nid'|x] end;
        [|intros [= _ <-]; reflexivity].
      match goal with |- match ?r with _ => _ end = _ -> _ => destruct r as [m'|x] end;
        [|intros [= _ <-]; reflexivity].
      apply at_replace_node_base_fail; assumption.
  Qed.

  (** ** The full statement, relative to the invariant-preservation facts *)

  Lemma at_failed_step_equiv_rel :
    InvFacts -> failed_step_equiv_statement parse fmt.
  Proof.
    intros HF k g o e I Hs H.
    destruct (not_replace_node o) eqn:Hn.
    - eapply failed_step_equiv_partial; eassumption.
    - destruct o; try discriminate. unfold outcome, step in *. cbn [run_op] in *.
      apply at_outcome_err in H. apply (at_replace_node_fail k HF) in H; [|exact I].
      rewrite H. apply equiv_refl.
  Qed.

  (** ** Local proofs of the invariant-preservation facts *)

  Lemma at_Forall2_in_l {A B} (R : A -> B -> Prop) l1 l2 a :
    Forall2 R l1 l2 -> In a l1 -> exists b, In b l2 /\ R a b.
  Proof.
    induction 1 as [|x y l1 l2 Hxy F IH]; intros Hin; [contradiction|].
    destruct Hin as [->|Hin]; [exists y; split; [left; reflexivity|exact Hxy]|].
    destruct (IH Hin) as (b & Hb & Hr). exists b; split; [right; exact Hb|exact Hr].
  Qed.

  Lemma at_Forall2_comp {A B} (Q : A -> B -> Prop) (R : B -> B -> Prop) L l1 l2 :
    (forall p b a, Q p b -> R a b -> Q p a) ->
    Forall2 Q L l2 -> Forall2 R l1 l2 -> Forall2 Q L l1.
  Proof.
    intros H F. revert l1. induction F as [|p b L l2 Hpb F IH]; intros l1 F2;
      inversion F2; subst; constructor; eauto.
  Qed.

  Lemma at_in_keys_filter (f : edge -> bool) key l :
    In key (map edge_key (filter f l)) -> In key (map edge_key l).
  Proof.
    intros H. apply in_map_iff in H. destruct H as (e & <- & He). apply filter_In in He.
    apply in_map, He.
  Qed.

  Lemma at_remove_first_perm_cons x l X :
    Permutation l (x :: X) -> Permutation (remove_first x l) X.
  Proof.
    intros P. apply (Permutation_cons_inv (a := x)).
    assert (Hin : In x l) by (apply (Permutation_in _ (Permutation_sym P)); left; reflexivity).
    rewrite <- P. rewrite <- (at_remove_first_perm x l Hin) at 2.
    apply Permutation_cons_append.
  Qed.

  Lemma at_key_in_none s d l : find_edge s d l = None -> ~ In (s, d) (map edge_key l).
  Proof.
    intros H Hin. apply in_map_iff in Hin. destruct Hin as (e & E & He).
    unfold edge_key in E. injection E as E1 E2.
    rewrite at_find_edge_none in H. apply (H e He); auto.
  Qed.

  Lemma at_tsinv_frame g g' :
    TSInv parse g -> Forall2 node_same (gnodes g') (gnodes g) ->
    glag g' = glag g -> gvar g' = gvar g ->
    (forall e, In e (gsrc g') ->
       In e (gsrc g) \/ exists ls ld, node_lag g (esrc e) = Some ls /\ node_lag g (edst e) = Some ld
                                     /\ (ls <= ld)%Z) ->
    TSInv parse g'.
  Proof.
    intros [T1 T2 T3 T4] Hsame El Ev He. constructor.
    - intros n' Hn'. destruct (at_Forall2_in_l _ _ _ _ Hsame Hn') as (n & Hn & Ei & _ & Em).
      rewrite Ei, Em. apply T1, Hn.
    - rewrite El. eapply at_Forall2_comp; [|exact T2|exact Hsame].
      intros p b a [Q1 Q2] (Ei & _ & Em). rewrite Ei, Em. auto.
    - rewrite Ev. eapply at_Forall2_comp; [|exact T3|exact Hsame].
      intros p b a [Q1 Q2] (Ei & _ & Em). rewrite Ei, Em. auto.
    - intros e Hin. rewrite !(at_same_lag _ _ _ Hsame).
      destruct (He e Hin) as [Hg|Hg]; [apply T4, Hg|exact Hg].
  Qed.

  Lemma at_del_nodes_in g s d e n' :
    In n' (gnodes (del_state g s d e)) ->
    exists n, In n (gnodes g) /\ nid n' = nid n
      /\ ninb n' = (if etype_eqb (ety e) Dir && name_eqb d (nid n)
                    then remove_first s (ninb n) else ninb n)
      /\ noutb n' = (if etype_eqb (ety e) Dir && name_eqb s (nid n)
                     then remove_first d (noutb n) else noutb n).
  Proof.
    unfold del_state; simpl. destruct (etype_eqb (ety e) Dir); simpl.
    - unfold update_node. rewrite map_map. intros H. apply in_map_iff in H.
      destruct H as (n & <- & Hn). exists n. split; [exact Hn|].
      destruct (name_eqb d (nid n)); simpl; destruct (name_eqb s (nid n)); simpl; auto.
    - intros H. exists n'. auto.
  Qed.

  Lemma at_ins_nodes_in g e n' :
    In n' (gnodes (insert_edge g e)) ->
    exists n, In n (gnodes g) /\ nid n' = nid n
      /\ ninb n' = (if etype_eqb (ety e) Dir && name_eqb (edst e) (nid n)
                    then ninb n ++ [esrc e] else ninb n)
      /\ noutb n' = (if etype_eqb (ety e) Dir && name_eqb (esrc e) (nid n)
                     then noutb n ++ [edst e] else noutb n).
  Proof.
    rewrite at_insert_edge_eq; simpl. destruct (etype_eqb (ety e) Dir); simpl.
    - unfold update_node. rewrite map_map. intros H. apply in_map_iff in H.
      destruct H as (n & <- & Hn). exists n. split; [exact Hn|].
      destruct (name_eqb (edst e) (nid n)); simpl; destruct (name_eqb (esrc e) (nid n)); simpl; auto.
    - intros H. exists n'. auto.
  Qed.

  Lemma at_inv_del_state k g s d e :
    Inv parse k g -> edge_at g s d = Some e -> Inv parse k (del_state g s d e).
  Proof.
    intros I He. unfold edge_at in He. apply at_find_edge_some in He.
    destruct He as (Hin & <- & <-).
    pose proof (at_del_same g (esrc e) (edst e) e) as Hsame.
    assert (Hids : node_ids (del_state g (esrc e) (edst e) e) = node_ids g)
      by (apply at_same_ids, Hsame).
    assert (Hsub : forall e', In e' (gsrc (del_state g (esrc e) (edst e) e)) -> In e' (gsrc g)).
    { intros e' H. simpl in H. unfold drop_edge in H. apply filter_In in H. apply H. }
    assert (Hperm : Permutation (gsrc g) (e :: gsrc (del_state g (esrc e) (edst e) e))).
    { simpl. rewrite <- (at_drop_perm (gsrc g) e (inv_nodup_keys I) Hin) at 1.
      symmetry. apply Permutation_cons_append. }
    assert (Hinto : forall y, Permutation (dir_into g y)
               (if etype_eqb (ety e) Dir && name_eqb y (edst e)
                then esrc e :: dir_into (del_state g (esrc e) (edst e) e) y
                else dir_into (del_state g (esrc e) (edst e) e) y)).
    { intros y. unfold dir_into.
      eapply Permutation_trans; [apply Permutation_map, at_filter_perm, Hperm|].
      simpl. destruct (etype_eqb (ety e) Dir && name_eqb y (edst e)); reflexivity. }
    assert (Hfrom : forall y, Permutation (dir_from g y)
               (if etype_eqb (ety e) Dir && name_eqb y (esrc e)
                then edst e :: dir_from (del_state g (esrc e) (edst e) e) y
                else dir_from (del_state g (esrc e) (edst e) e) y)).
    { intros y. unfold dir_from.
      eapply Permutation_trans; [apply Permutation_map, at_filter_perm, Hperm|].
      simpl. destruct (etype_eqb (ety e) Dir && name_eqb y (esrc e)); reflexivity. }
    constructor.
    - rewrite Hids. apply (inv_nodup_nodes I).
    - simpl. unfold drop_edge. apply at_filter_perm, (inv_mirror I).
    - unfold edge_keys; simpl. apply at_nodup_keys_filter, (inv_nodup_keys I).
    - intros e' He'. rewrite Hids. apply (inv_endpoints I), Hsub, He'.
    - intros e' He'. apply (inv_noloop I), Hsub, He'.
    - intros e' He' Hk. apply (inv_noreverse I e' (Hsub e' He')).
      unfold edge_keys in *. simpl in Hk. eapply at_in_keys_filter; exact Hk.
    - intros n' Hn'. destruct (at_del_nodes_in _ _ _ _ _ Hn') as (n & Hn & Ei & Eb & _).
      rewrite Ei, Eb. specialize (Hinto (nid n)). rewrite (name_eqb_sym (nid n)) in Hinto.
      destruct (etype_eqb (ety e) Dir && name_eqb (edst e) (nid n)).
      + apply at_remove_first_perm_cons. rewrite <- Hinto. apply (inv_inb I n Hn).
      + rewrite <- Hinto. apply (inv_inb I n Hn).
    - intros n' Hn'. destruct (at_del_nodes_in _ _ _ _ _ Hn') as (n & Hn & Ei & _ & Eo).
      rewrite Ei, Eo. specialize (Hfrom (nid n)). rewrite (name_eqb_sym (nid n)) in Hfrom.
      destruct (etype_eqb (ety e) Dir && name_eqb (esrc e) (nid n)).
      + apply at_remove_first_perm_cons. rewrite <- Hfrom. apply (inv_outb I n Hn).
      + rewrite <- Hfrom. apply (inv_outb I n Hn).
    - intros Ek. apply (inv_plain_idx I Ek).
    - intros Ek. apply (at_tsinv_frame g); try reflexivity; [apply (inv_ts I Ek)|exact Hsame|].
      intros e' He'. left. apply Hsub, He'.
  Qed.

  Lemma at_inv_insert k g e :
    Inv parse k g -> esrc e <> edst e -> In (esrc e) (node_ids g) -> In (edst e) (node_ids g) ->
    edge_at g (esrc e) (edst e) = None -> edge_at g (edst e) (esrc e) = None ->
    (k = TS -> exists ls ld, node_lag g (esrc e) = Some ls /\ node_lag g (edst e) = Some ld
                             /\ (ls <= ld)%Z) ->
    Inv parse k (insert_edge g e).
  Proof.
    intros I Hne Hs Hd Hk Hr Ht.
    pose proof (at_ins_same g e) as Hsame.
    assert (Hids : node_ids (insert_edge g e) = node_ids g) by (apply at_same_ids, Hsame).
    apply at_key_in_none in Hk, Hr.
    assert (Hinto : forall y, dir_into (insert_edge g e) y
               = dir_into g y ++ (if etype_eqb (ety e) Dir && name_eqb y (edst e)
                                  then [esrc e] else [])).
    { intros y. unfold dir_into. simpl. rewrite filter_app, map_app. simpl.
      destruct (etype_eqb (ety e) Dir && name_eqb y (edst e)); reflexivity. }
    assert (Hfrom : forall y, dir_from (insert_edge g e) y
               = dir_from g y ++ (if etype_eqb (ety e) Dir && name_eqb y (esrc e)
                                  then [edst e] else [])).
    { intros y. unfold dir_from. simpl. rewrite filter_app, map_app. simpl.
      destruct (etype_eqb (ety e) Dir && name_eqb y (esrc e)); reflexivity. }
    constructor.
    - rewrite Hids. apply (inv_nodup_nodes I).
    - simpl. apply Permutation_app_tail, (inv_mirror I).
    - unfold edge_keys; simpl. rewrite map_app. simpl.
      apply (Permutation_NoDup (Permutation_cons_append _ _)).
      constructor; [exact Hk|apply (inv_nodup_keys I)].
    - intros e' He'. rewrite Hids. simpl in He'. apply in_app_iff in He'.
      destruct He' as [He'|[<-|[]]]; [apply (inv_endpoints I), He'|auto].
    - intros e' He'. simpl in He'. apply in_app_iff in He'.
      destruct He' as [He'|[<-|[]]]; [apply (inv_noloop I), He'|exact Hne].
    - intros e' He' Hin. unfold edge_keys in Hin. simpl in He', Hin. rewrite map_app in Hin.
      apply in_app_iff in He'. apply in_app_iff in Hin.
      destruct He' as [He'|[<-|[]]].
      + destruct Hin as [Hin|[Hin|[]]]; [exact (inv_noreverse I e' He' Hin)|].
        unfold edge_key in Hin. injection Hin as E1 E2. apply Hr.
        rewrite E1, E2. apply (in_map edge_key _ _ He').
      + destruct Hin as [Hin|[Hin|[]]]; [exact (Hr Hin)|].
        unfold edge_key in Hin. injection Hin as E1 E2. congruence.
    - intros n' Hn'. destruct (at_ins_nodes_in _ _ _ Hn') as (n & Hn & Ei & Eb & _).
      rewrite Ei, Eb, Hinto. rewrite (name_eqb_sym (nid n)).
      destruct (etype_eqb (ety e) Dir && name_eqb (edst e) (nid n)).
      + apply Permutation_app_tail, (inv_inb I n Hn).
      + rewrite app_nil_r. apply (inv_inb I n Hn).
    - intros n' Hn'. destruct (at_ins_nodes_in _ _ _ Hn') as (n & Hn & Ei & _ & Eo).
      rewrite Ei, Eo, Hfrom. rewrite (name_eqb_sym (nid n)).
      destruct (etype_eqb (ety e) Dir && name_eqb (esrc e) (nid n)).
      + apply Permutation_app_tail, (inv_outb I n Hn).
      + rewrite app_nil_r. apply (inv_outb I n Hn).
    - intros Ek. apply (inv_plain_idx I Ek).
    - intros Ek. apply (at_tsinv_frame g); try reflexivity; [apply (inv_ts I Ek)|exact Hsame|].
      intros e' He'. simpl in He'. apply in_app_iff in He'.
      destruct He' as [He'|[<-|[]]]; [left; exact He'|right; apply Ht, Ek].
  Qed.

  Lemma at_inv_ext k g n ls vs :
    Inv parse k g -> node_exists g (nid n) = false -> ninb n = [] -> noutb n = [] ->
    idx_of k n ls vs -> node_ok k n -> Inv parse k (ext g [n] ls vs).
  Proof.
    intros I Hex Hi Ho Hidx Hok.
    assert (Hfresh : ~ In (nid n) (node_ids g)) by (apply at_node_exists_false, Hex).
    assert (Hids : node_ids (ext g [n] ls vs) = node_ids g ++ [nid n]).
    { unfold node_ids, ext; simpl. rewrite map_app. reflexivity. }
    assert (Hnone : forall f : edge -> name,
               (forall e, In e (gsrc g) -> In (f e) (node_ids g)) ->
               forall (P : edge -> bool), (forall e, P e = true -> f e = nid n) ->
               filter P (gsrc g) = []).
    { intros f Hf P HP. apply at_filter_all_false. intros e He.
      destruct (P e) eqn:E; [|reflexivity]. exfalso. apply Hfresh. rewrite <- (HP e E).
      apply Hf, He. }
    constructor.
    - rewrite Hids. apply (Permutation_NoDup (Permutation_cons_append _ _)).
      constructor; [exact Hfresh|apply (inv_nodup_nodes I)].
    - apply (inv_mirror I).
    - apply (inv_nodup_keys I).
    - intros e He. rewrite Hids. destruct (inv_endpoints I e He) as [H1 H2].
      split; apply in_or_app; left; assumption.
    - apply (inv_noloop I).
    - apply (inv_noreverse I).
    - intros n' Hn'. simpl in Hn'. apply in_app_iff in Hn'.
      destruct Hn' as [Hn'|[<-|[]]]; [apply (inv_inb I n' Hn')|].
      rewrite Hi. unfold dir_into. simpl.
      rewrite (Hnone edst); [constructor|intros e He; apply (inv_endpoints I e He)|].
      intros e He. apply andb_true_iff in He. destruct He as [_ He].
      apply name_eqb_eq in He. auto.
    - intros n' Hn'. simpl in Hn'. apply in_app_iff in Hn'.
      destruct Hn' as [Hn'|[<-|[]]]; [apply (inv_outb I n' Hn')|].
      rewrite Ho. unfold dir_from. simpl.
      rewrite (Hnone esrc); [constructor|intros e He; apply (inv_endpoints I e He)|].
      intros e He. apply andb_true_iff in He. destruct He as [_ He].
      apply name_eqb_eq in He. auto.
    - intros Ek. subst k. destruct Hidx as [-> ->]. simpl. rewrite !app_nil_r.
      apply (inv_plain_idx I eq_refl).
    - intros Ek. subst k. destruct Hidx as (l & v & Hl & Hv & -> & ->).
      destruct (inv_ts I eq_refl) as [T1 T2 T3 T4]. constructor.
      + intros n' Hn'. simpl in Hn'. apply in_app_iff in Hn'.
        destruct Hn' as [Hn'|[<-|[]]]; [apply T1, Hn'|apply Hok; reflexivity].
      + simpl. apply Forall2_app; [exact T2|]. constructor; [|constructor]. simpl; auto.
      + simpl. apply Forall2_app; [exact T3|]. constructor; [|constructor]. simpl; auto.
      + intros e He. simpl in He.
        assert (Hlag : forall y, In y (node_ids g) ->
                   node_lag (ext g [n] [(l, nid n)] [(v, nid n)]) y = node_lag g y).
        { intros y Hy. unfold node_lag, get_node, ext; simpl. rewrite at_find_node_app.
          destruct (find_node y (gnodes g)) eqn:F; [reflexivity|].
          apply at_find_node_none in F. contradiction. }
        destruct (inv_endpoints I e He) as [H1 H2].
        rewrite (Hlag _ H1), (Hlag _ H2). apply T4, He.
  Qed.

  Lemma at_inv_facts : InvFacts.
  Proof.
    split; [|split].
    - intros k g s d oty g' I H. apply at_delete_edge_ok in H.
      destruct H as (e & He & _ & _ & ->). apply at_inv_del_state; assumption.
    - intros k g s d ty m v g' I Hne Hs Hd Ht H. apply at_set_edge_ok in H.
      destruct H as (-> & H1 & H2). apply at_inv_insert; simpl; assumption.
    - intros k g id vt m g' I H. apply at_add_node_id_ok in H.
      destruct H as (Hex & n & ls & vs & Hid & Hi & Ho & Hidx & -> & Hok).
      apply at_inv_ext; try assumption. rewrite Hid; exact Hex.
  Qed.


  (** ** Invariant of states built by [add_edge] only (used by the non-vacuity examples) *)

  Lemma at_inv_empty k m : Inv parse k (empty_graph m).
  Proof.
    constructor; simpl.
    - constructor.
    - constructor.
    - constructor.
    - intros e0 [].
    - intros e0 [].
    - intros e0 [].
    - intros n0 [].
    - intros n0 [].
    - auto.
    - intros _. constructor; simpl.
      + intros n0 [].
      + constructor.
      + constructor.
      + intros e0 [].
  Qed.

  Lemma at_add_endpoint_inv k g id o g1 :
    Inv parse k g -> add_endpoint parse k g (id, o) = Ok g1 ->
    Inv parse k g1 /\ node_exists g1 id = true
    /\ (forall y, node_exists g y = true -> node_exists g1 y = true).
  Proof.
    intros I A. apply at_add_endpoint_ok in A.
    destruct A as [[Hex ->]|(Hex & n & ls & vs & Hid & Hi & Ho & Hidx & -> & Hok)]; [auto|].
    split; [|split].
    - apply at_inv_ext; try assumption. rewrite Hid; exact Hex.
    - rewrite at_node_exists_ext. simpl. rewrite Hid, name_eqb_refl. apply orb_true_r.
    - intros y Hy. rewrite at_node_exists_ext, Hy. reflexivity.
  Qed.

  Lemma at_inv_add_edge k g sp dp ty m v g' gl :
    Inv parse k g -> add_edge parse k g sp dp ty m v = (Ok g', gl) -> Inv parse k g'.
  Proof.
    intros I. rewrite at_add_edge_unfold. destruct sp as [s os], dp as [d od].
    destruct (add_edge_try parse k g (s, os) (d, od) ty m v) as [[g3|e] gl'] eqn:T; [|discriminate].
    intros [= <- _]. unfold add_edge_try in T. cbn [fst] in T.
    destruct (name_eqb_spec s d) as [|Hne]; [discriminate|].
    destruct (add_endpoint parse k g (s, os)) as [g1|] eqn:A1; [|discriminate].
    destruct (add_endpoint parse k g1 (d, od)) as [g2|] eqn:A2; [|discriminate].
    destruct (match edge_at g s d with Some _ => true | None => false end); [discriminate|].
    destruct (orient k g2 s d ty) as [[s' d']|] eqn:Or; [|discriminate].
    destruct (set_edge g2 s' d' ty _ v) as [g4|] eqn:Se; [|discriminate].
    injection T as <- _.
    destruct (at_add_endpoint_inv _ _ _ _ _ I A1) as (I1 & E1 & M1).
    destruct (at_add_endpoint_inv _ _ _ _ _ I1 A2) as (I2 & E2 & M2).
    apply M2 in E1. apply at_node_exists_in in E1, E2.
    apply at_orient_ok in Or. destruct Or as [Hsd Hlag].
    destruct at_inv_facts as (_ & HF2 & _).
    destruct Hsd as [[-> ->]|[-> ->]]; eapply HF2; try exact Se; auto.
  Qed.

  Definition is_add_edge (o : op) : bool :=
    match o with OAddEdge _ _ _ _ _ => true | _ => false end.

  Lemma at_inv_run_add_edges k ops : forall g,
    forallb is_add_edge ops = true -> Inv parse k g -> Inv parse k (run parse fmt k ops g).
  Proof.
    induction ops as [|o ops IH]; intros g Hops I; simpl; [exact I|].
    simpl in Hops. apply andb_true_iff in Hops. destruct Hops as [Ho Hops].
    apply IH; [exact Hops|]. destruct o; try discriminate. unfold step. cbn [run_op].
    destruct (add_edge parse k g sp dp ty m validate) as [[g'|e] gl] eqn:A.
    - pose proof A as A'. rewrite at_add_edge_unfold in A'.
      destruct (add_edge_try parse k g sp dp ty m validate) as [[g3|e] gl']; [|discriminate].
      injection A' as <- <-. simpl. eapply at_inv_add_edge; eassumption.
    - simpl. apply at_add_edge_fail in A; [|apply at_inv_winv, I]. subst gl. exact I.
  Qed.

  (** * The main theorems *)

  Theorem failed_step_equiv : failed_step_equiv_statement parse fmt.
  Proof. apply at_failed_step_equiv_rel, at_inv_facts. Qed.

  Theorem observe_equiv : observe_equiv_statement parse.
  Proof. intros k g h pool lags vars I E. apply oe_observe; assumption. Qed.

  Theorem failed_step_noop : failed_step_noop_statement parse fmt.
  Proof.
    intros k g o e pool lags vars I Hs H.
    symmetry. apply observe_equiv; [exact I|]. apply equiv_sym.
    eapply failed_step_equiv; eassumption.
  Qed.
  (** ** Sharper facts: where the state is literally unchanged, and why the model may return
      the pre-call state for the failures it [lift]s *)

  Definition not_retyping (o : op) : bool :=
    match o with OChangeEdgeType _ _ _ | OReplaceEdge _ _ _ _ _ _ => false | _ => true end.

  (** Every rejected single-element mutator other than change_edge_type / replace_edge leaves
      the state literally unchanged (same insertion orders too). *)
  Theorem failed_step_exact :
    forall k g o e, Inv parse k g -> single_element o = true -> not_retyping o = true ->
      outcome parse fmt k g o = Some e -> step parse fmt k g o = g.
  Proof.
    intros k g o e I Hs Hn. unfold outcome, step.
    destruct o; simpl in Hs, Hn; try discriminate; cbn [run_op]; intros H.
    - apply (at_lift_fail _ _ _ H).
    - apply (at_lift_fail _ _ _ H).
    - apply (at_lift_fail _ _ _ H).
    - apply (at_lift_fail _ _ _ H).
    - apply at_outcome_err in H. apply (at_replace_node_fail k at_inv_facts) in H; assumption.
    - apply at_outcome_err in H. apply at_add_edge_fail in H; [exact H|apply at_inv_winv, I].
    - apply at_outcome_err in H. apply at_add_time_edge_fail in H; assumption.
    - apply (at_lift_fail _ _ _ H).
  Qed.

  (** [delete_node] can only fail before touching anything: under the invariant the index
      upkeep and every incident [delete_edge] succeed, so the one failure is the KeyError
      for an unknown identifier. *)
  Lemma at_delete_node_err k g id e :
    Inv parse k g -> delete_node k g id = Err e -> e = EKey /\ node_exists g id = false.
  Proof.
    intros I H. destruct (node_exists g id) eqn:Ex.
    - destruct (at_delete_node_succeeds k at_inv_facts g id I Ex) as (g3 & E). congruence.
    - split; [|reflexivity]. unfold delete_node in H. unfold node_exists in Ex.
      destruct (get_node g id); [discriminate|]. congruence.
  Qed.

  (** [add_node] fails only at the name / duplicate checks, never in the index upkeep that
      follows the insertion of the node. *)
  Lemma at_idx_add_ok k g n : node_ok k n -> exists g1, idx_add k (push_node g n) n = Ok g1.
  Proof.
    unfold idx_add, node_ok. destruct k; [eexists; reflexivity|].
    intros H. destruct (H eq_refl) as (v & l & _ & -> & ->). eexists; reflexivity.
  Qed.

  Lemma at_add_node_id_err k g id vt m e :
    add_node_id parse k g id vt m = Err e ->
    (e = ENodeDup /\ node_exists g id = true) \/ (e = EValue /\ k = TS /\ parse id = None).
  Proof.
    unfold add_node_id. destruct k.
    - destruct (node_exists g id); [intros [= <-]; auto|]. simpl. discriminate.
    - destruct (mk_node parse TS id vt _) as [n|x] eqn:Mk; cbn [bind].
      + destruct (node_exists g id); [intros [= <-]; auto|].
        destruct (mk_node parse TS id vt (nmeta n)) as [n2|x] eqn:Mk2; cbn [bind].
        * apply at_mk_node in Mk2. destruct Mk2 as (_ & _ & _ & _ & Hok).
          destruct (at_idx_add_ok TS g n2 Hok) as (g1 & ->). discriminate.
        * unfold mk_node in Mk, Mk2. destruct (parse id) as [[v l]|]; discriminate.
      + unfold mk_node in Mk. destruct (parse id) as [[v l]|]; [discriminate|].
        injection Mk as <-. intros [= <-]. auto.
  Qed.

  (** The cycle branch of [_set_edge] inserts the edge, finds the cycle and deletes the edge
      again; the model leaves the pre-insertion state there.  That is exact: deleting the edge
      just inserted gives back the very same state. *)
  Lemma at_find_edge_app s d l1 l2 :
    find_edge s d (l1 ++ l2)
    = match find_edge s d l1 with Some e => Some e | None => find_edge s d l2 end.
  Proof.
    induction l1 as [|a l1 IH]; simpl; [reflexivity|].
    destruct (name_eqb s (esrc a) && name_eqb d (edst a)); [reflexivity|exact IH].
  Qed.

  Lemma at_drop_snoc l e :
    find_edge (esrc e) (edst e) l = None -> drop_edge (esrc e) (edst e) (l ++ [e]) = l.
  Proof.
    intros H. unfold drop_edge. rewrite filter_app. simpl. rewrite !name_eqb_refl. simpl.
    rewrite app_nil_r. apply at_filter_all_true. intros x Hx.
    rewrite at_find_edge_none in H.
    destruct (name_eqb_spec (esrc e) (esrc x)) as [E1|E1]; [|reflexivity].
    destruct (name_eqb_spec (edst e) (edst x)) as [E2|E2]; [|reflexivity].
    exfalso. apply (H x Hx). auto.
  Qed.

  Lemma at_remove_first_snoc x l : ~ In x l -> remove_first x (l ++ [x]) = l.
  Proof.
    induction l as [|y l IH]; simpl; intros H.
    - rewrite name_eqb_refl. reflexivity.
    - destruct (name_eqb_spec x y) as [E|E]; [exfalso; apply H; left; congruence|].
      rewrite IH; [reflexivity|]. intros Hin; apply H; right; exact Hin.
  Qed.

  Lemma at_insert_then_delete k g e :
    Inv parse k g -> In (esrc e) (node_ids g) -> In (edst e) (node_ids g) ->
    edge_at g (esrc e) (edst e) = None ->
    delete_edge (insert_edge g e) (esrc e) (edst e) None = Ok g.
  Proof.
    intros I Hs Hd Hk.
    pose proof (at_ins_same g e) as Hsame.
    rewrite (at_delete_edge_succeeds _ _ _ e).
    2:{ rewrite (at_same_exists _ _ _ Hsame). apply at_node_exists_in, Hs. }
    2:{ rewrite (at_same_exists _ _ _ Hsame). apply at_node_exists_in, Hd. }
    2:{ unfold edge_at in *. simpl. rewrite at_find_edge_app, Hk. simpl.
        rewrite !name_eqb_refl. reflexivity. }
    f_equal. rewrite at_insert_edge_eq. unfold del_state. cbn [gnodes gsrc gdst gmeta glag gvar].
    unfold edge_at in Hk.
    assert (Hk' : find_edge (esrc e) (edst e) (gdst g) = None).
    { rewrite (at_find_edge_perm (esrc e) (edst e) (gdst g) (gsrc g)); [exact Hk| |apply (inv_mirror I)].
      eapply at_nodup_keys_perm; [symmetry; apply (inv_mirror I)|apply (inv_nodup_keys I)]. }
    rewrite (at_drop_snoc _ _ Hk), (at_drop_snoc _ _ Hk').
    assert (Hnodes : etype_eqb (ety e) Dir = true ->
                     update_node (del_outb (edst e)) (esrc e)
                       (update_node (del_inb (esrc e)) (edst e)
                          (update_node (ins_outb (edst e)) (esrc e)
                             (update_node (ins_inb (esrc e)) (edst e) (gnodes g)))) = gnodes g).
    { intros Ety.
      unfold update_node. rewrite !map_map. rewrite <- (map_id (gnodes g)) at 2.
      apply map_ext_in. intros n Hn.
      assert (Hni : name_eqb (edst e) (nid n) = true -> ~ In (esrc e) (ninb n)).
      { intros E Hin. apply name_eqb_eq in E.
        apply (Permutation_in _ (inv_inb I n Hn)) in Hin. unfold dir_into in Hin.
        apply in_map_iff in Hin. destruct Hin as (x & Ex & Hx). apply filter_In in Hx.
        destruct Hx as [Hx Hx']. apply andb_true_iff in Hx'. destruct Hx' as [_ Hx'].
        apply name_eqb_eq in Hx'. rewrite at_find_edge_none in Hk. apply (Hk x Hx).
        split; congruence. }
      assert (Hno : name_eqb (esrc e) (nid n) = true -> ~ In (edst e) (noutb n)).
      { intros E Hin. apply name_eqb_eq in E.
        apply (Permutation_in _ (inv_outb I n Hn)) in Hin. unfold dir_from in Hin.
        apply in_map_iff in Hin. destruct Hin as (x & Ex & Hx). apply filter_In in Hx.
        destruct Hx as [Hx Hx']. apply andb_true_iff in Hx'. destruct Hx' as [_ Hx'].
        apply name_eqb_eq in Hx'. rewrite at_find_edge_none in Hk. apply (Hk x Hx).
        split; congruence. }
      destruct n as [i t m inb outb]. simpl in *.
      destruct (name_eqb (edst e) i) eqn:Ed; destruct (name_eqb (esrc e) i) eqn:Es; simpl;
        rewrite ?Ed, ?Es; simpl; rewrite ?Ed, ?Es; simpl; rewrite ?Ed, ?Es; simpl;
        unfold del_outb, del_inb, ins_outb, ins_inb; simpl;
        rewrite ?(at_remove_first_snoc _ _ (Hni eq_refl)), ?(at_remove_first_snoc _ _ (Hno eq_refl));
        reflexivity. }
    destruct (etype_eqb (ety e) Dir); [rewrite (Hnodes eq_refl)|]; destruct g; reflexivity.
  Qed.
End Atomic.

(** * Non-vacuity and pinned behaviour (codec instantiated with Names.parse / Names.fmt).
    Each scenario below was also run on the real implementation
    (PYTHONPATH=/repo /venv/bin/python): same exception class, same state afterwards. *)
From CG Require Names.
From Coq Require String Ascii.

Module AtomicExamples.
  Import String.
  Definition nm (s : string) : name := map Ascii.N_of_ascii (list_ascii_of_string s).
  Definition P := Names.parse.
  Definition F := Names.fmt.
  Definition e_add (s d : string) (ty : etype) : op :=
    OAddEdge (str_ep (nm s)) (str_ep (nm d)) ty None true.

  (** (i) Plain: c -- a, a -> b, b -> c; change_edge_type(c, a, ->) closes a cycle. *)
  Definition ops_i : list op := [e_add "c" "a" Und; e_add "a" "b" Dir; e_add "b" "c" Dir].
  Definition g_i : graph := run P F Plain ops_i (empty_graph []).
  Definition o_i : op := OChangeEdgeType (nm "c") (nm "a") Dir.
  Definition pool_i : list name := [nm "a"; nm "b"; nm "c"; nm "zz"].

  Example ex_i_inv : Inv P Plain g_i.
  Proof. apply at_inv_run_add_edges; [reflexivity|apply at_inv_empty]. Qed.
  Example ex_i_single : single_element o_i = true.
  Proof. reflexivity. Qed.
  Example ex_i_outcome : outcome P F Plain g_i o_i = Some ECyclic.
  Proof. vm_compute. reflexivity. Qed.
  (** the restored edge has moved to the end of the by-source index: the state is not
      literally the input, only [equiv] to it *)
  Example ex_i_order :
    map edge_key (gsrc g_i) = [(nm "c", nm "a"); (nm "a", nm "b"); (nm "b", nm "c")]
    /\ map edge_key (gsrc (step P F Plain g_i o_i))
       = [(nm "a", nm "b"); (nm "b", nm "c"); (nm "c", nm "a")]
    /\ map ety (gsrc (step P F Plain g_i o_i)) = [Dir; Dir; Und].
  Proof. vm_compute. repeat split. Qed.
  Example ex_i_equiv : equiv (step P F Plain g_i o_i) g_i.
  Proof. exact (failed_step_equiv P F Plain g_i o_i ECyclic ex_i_inv ex_i_single ex_i_outcome). Qed.
  Example ex_i_noop :
    observe P Plain (step P F Plain g_i o_i) pool_i [] [] = observe P Plain g_i pool_i [] [].
  Proof.
    exact (failed_step_noop P F Plain g_i o_i ECyclic pool_i [] [] ex_i_inv ex_i_single ex_i_outcome).
  Qed.
  (** the same equality, computed *)
  Example ex_i_noop_computed :
    observe P Plain (step P F Plain g_i o_i) pool_i [] [] = observe P Plain g_i pool_i [] [].
  Proof. vm_compute. reflexivity. Qed.
  (** [observe_equiv] applied to two different, equivalent states *)
  Example ex_i_observe_equiv_nontrivial :
    step P F Plain g_i o_i <> g_i
    /\ Inv P Plain g_i /\ equiv g_i (step P F Plain g_i o_i).
  Proof.
    split; [|split; [exact ex_i_inv|apply equiv_sym, ex_i_equiv]].
    intros E. apply (f_equal (fun g => map edge_key (gsrc g))) in E. vm_compute in E. discriminate E.
  Qed.

  (** (ii) TS: "z" -> "w future(n=1)"; add_edge("x", "y lag(n=1)") is directed against time:
      ValueError, and neither implicitly created endpoint is left behind. *)
  Definition g_ii : graph := run P F TS [e_add "z" "w future(n=1)" Dir] (empty_graph []).
  Definition o_ii : op := e_add "x" "y lag(n=1)" Dir.
  Example ex_ii_inv : Inv P TS g_ii.
  Proof. apply at_inv_run_add_edges; [reflexivity|apply at_inv_empty]. Qed.
  Example ex_ii_outcome : outcome P F TS g_ii o_ii = Some EValue.
  Proof. vm_compute. reflexivity. Qed.
  Example ex_ii_state :
    step P F TS g_ii o_ii = g_ii /\ map nid (gnodes g_ii) = [nm "z"; nm "w future(n=1)"].
  Proof. vm_compute. split; reflexivity. Qed.
  Example ex_ii_noop :
    observe P TS (step P F TS g_ii o_ii) [nm "x"; nm "y lag(n=1)"; nm "z"] [0; -1; 1]%Z [nm "y"; nm "z"]
    = observe P TS g_ii [nm "x"; nm "y lag(n=1)"; nm "z"] [0; -1; 1]%Z [nm "y"; nm "z"].
  Proof. eapply failed_step_noop; [exact ex_ii_inv|reflexivity|exact ex_ii_outcome]. Qed.
  (** the first endpoint alone is unparsable: nothing is created either *)
  Example ex_ii_bad_name :
    outcome P F TS g_ii (e_add "u lag(n=1) lag(n=2)" "z" Dir) = Some EValue
    /\ step P F TS g_ii (e_add "u lag(n=1) lag(n=2)" "z" Dir) = g_ii
    /\ outcome P F TS g_ii (e_add "q" "u lag(n=1) lag(n=2)" Und) = Some EValue
    /\ step P F TS g_ii (e_add "q" "u lag(n=1) lag(n=2)" Und) = g_ii.
  Proof. vm_compute. repeat split. Qed.

  (** (iii) Plain: a -> b -> c, d -> a; replace_edge(d, a, new c, a) closes a cycle. *)
  Definition ops_iii : list op := [e_add "d" "a" Dir; e_add "a" "b" Dir; e_add "b" "c" Dir].
  Definition g_iii : graph := run P F Plain ops_iii (empty_graph []).
  Definition o_iii : op := OReplaceEdge (nm "d") (nm "a") (nm "c") (nm "a") None None.
  Example ex_iii_inv : Inv P Plain g_iii.
  Proof. apply at_inv_run_add_edges; [reflexivity|apply at_inv_empty]. Qed.
  Example ex_iii_outcome : outcome P F Plain g_iii o_iii = Some ECyclic.
  Proof. vm_compute. reflexivity. Qed.
  Example ex_iii_state :
    map edge_key (gsrc (step P F Plain g_iii o_iii))
    = [(nm "a", nm "b"); (nm "b", nm "c"); (nm "d", nm "a")]
    /\ map edge_key (isort pair_leb_e (gsrc (step P F Plain g_iii o_iii)))
       = map edge_key (isort pair_leb_e (gsrc g_iii)).
  Proof. vm_compute. split; reflexivity. Qed.
  Example ex_iii_equiv : equiv (step P F Plain g_iii o_iii) g_iii.
  Proof. eapply failed_step_equiv; [exact ex_iii_inv|reflexivity|exact ex_iii_outcome]. Qed.
  (** a rejected replace_edge towards fresh nodes leaves none of them behind *)
  Example ex_iii_fresh :
    outcome P F Plain g_iii (OReplaceEdge (nm "d") (nm "a") (nm "n1") (nm "n1") None None)
      = Some ECyclic
    /\ map nid (gnodes (step P F Plain g_iii
                          (OReplaceEdge (nm "d") (nm "a") (nm "n1") (nm "n1") None None)))
       = map nid (gnodes g_iii).
  Proof. vm_compute. split; reflexivity. Qed.

  (** (iv) TS: "y" -> "z future(n=1)", "w lag(n=1)" -> "y"; replace_node("y", time_lag=2)
      copies the inbound edge onto "y future(n=2)", then the outbound copy is against time:
      ValueError; the new node and the copy made so far are removed again. *)
  Definition ops_iv : list op := [e_add "y" "z future(n=1)" Dir; e_add "w lag(n=1)" "y" Dir].
  Definition g_iv : graph := run P F TS ops_iv (empty_graph []).
  Definition o_iv : op := OReplaceNode (nm "y") None (Some 2%Z) None (Some VUnspec) None.
  Example ex_iv_inv : Inv P TS g_iv.
  Proof. apply at_inv_run_add_edges; [reflexivity|apply at_inv_empty]. Qed.
  Example ex_iv_outcome : outcome P F TS g_iv o_iv = Some EValue.
  Proof. vm_compute. reflexivity. Qed.
  Example ex_iv_state : step P F TS g_iv o_iv = g_iv.
  Proof. vm_compute. reflexivity. Qed.
  Example ex_iv_equiv : equiv (step P F TS g_iv o_iv) g_iv.
  Proof. eapply failed_step_equiv; [exact ex_iv_inv|reflexivity|exact ex_iv_outcome]. Qed.
  (** the copy really was made before the failure: the same re-lagging without the outbound
      edge succeeds *)
  Example ex_iv_copy_made :
    outcome P F TS (run P F TS [e_add "w lag(n=1)" "y" Dir] (empty_graph [])) o_iv = None.
  Proof. vm_compute. reflexivity. Qed.
End AtomicExamples.

Print Assumptions failed_step_equiv.
Print Assumptions observe_equiv.
Print Assumptions failed_step_noop.
Print Assumptions failed_step_equiv_partial.
Print Assumptions AtomicExamples.ex_i_noop.
