(** JsonTextProofs.v — proofs about the JSON text model of JsonText.v (property C05, "after the
    dictionary has been through JSON text").

    Main results (all closed under the global context):
      - [json_parse_print_canon]: for EVERY tree whose code points are at most U+10FFFF,
        [json_parse (json_print t) = Some (json_canon t)] — the closed form of
        [json.loads(json.dumps(t))]: escaped (high, low) surrogate pairs are joined and
        objects go through [dict] (first position, last value);
      - [json_parse_print]: [json_wf t -> json_parse (json_print t) = Some t];
      - [json_roundtrip_iff]: under [json_cp_ok], the round trip is the identity IF AND ONLY
        IF [json_wf t] (the hypothesis is minimal);
      - [json_print_inj] (injectivity on well-formed trees), [json_print_inj_canon];
      - [json_canon_wfb], [json_canon_idempotent], [json_roundtrip_idempotent]: the round trip
        lands in the well-formed trees, so a second round trip changes nothing;
      - refutations without the hypotheses: [json_parse_print_surrogate_pair_refuted],
        [json_parse_print_dupkey_refuted], [json_roundtrip_merges_distinct_keys],
        [json_print_not_injective];
      - [lay_parse_all] / [json_parse_layout]: [json_parse] is correct for every
        whitespace layout of the same token sequence (indentation, compact separators, ...).
      - [json_parse_print_indent]: [json.dumps(t, indent=...)] ([json_print_indent]) is such a
        layout, so it parses back to the same tree;
      - [to_dict_raw_wf], [to_dict_text_roundtrip], [skeleton_to_dict_text_roundtrip],
        [from_dict_through_text] (last section): the dictionary [Serial.to_dict] writes for a
        state with distinct node identifiers / edge keys and well-formed strings and metadata
        is a well-formed tree, hence [json.loads(json.dumps(g.to_dict())) = g.to_dict()].
      - [roundtrip_novalidate_through_text], [roundtrip_through_text],
        [skeleton_roundtrip_through_text] (very last section, the only one that needs
        SerialProofs.v): the C05 round-trip theorems with the dictionary written as JSON text
        and read back between [to_dict] and [from_dict].
    The fuel of [json_parse] ([S (length s)]) is proved sufficient: [jsize_le_length]
    (printed texts), [lay_sizes] (all layouts) and, for EVERY text, [parse_value_fuel_enough] /
    [json_parse_fuel_complete]: if any amount of fuel parses a text, [json_parse] parses it. *)
From Coq Require DecimalN.
From CG Require Import Base JsonText.

Local Open Scope N_scope.
(* [lia] on [N] division and modulo by constants, in this file only *)
Local Ltac Zify.zify_post_hook ::= Z.to_euclidean_division_equations.

(** * Boolean comparison helpers *)

Lemma leb_true a b : a <= b -> (a <=? b) = true.
Proof. intros H; apply N.leb_le; exact H. Qed.
Lemma leb_false a b : b < a -> (a <=? b) = false.
Proof. intros H; apply N.leb_gt; exact H. Qed.
Lemma ltb_true a b : a < b -> (a <? b) = true.
Proof. intros H; apply N.ltb_lt; exact H. Qed.
Lemma ltb_false a b : b <= a -> (a <? b) = false.
Proof. intros H; apply N.ltb_ge; exact H. Qed.
Lemma eqb_false a b : a <> b -> (a =? b) = false.
Proof. intros H; apply N.eqb_neq; exact H. Qed.

(** * Hexadecimal *)

Lemma hexval_hex_digit d : d < 16 -> hexval (hex_digit d) = Some d.
Proof.
  intros Hd. unfold hex_digit, hexval.
  destruct (N.ltb_spec d 10) as [H|H].
  - rewrite (leb_true 48 (48 + d)) by lia. rewrite (leb_true (48 + d) 57) by lia.
    cbn [andb]. f_equal; lia.
  - rewrite (leb_false (87 + d) 57) by lia. rewrite andb_false_r.
    rewrite (leb_true 97 (87 + d)) by lia. rewrite (leb_true (87 + d) 102) by lia.
    cbn [andb]. f_equal; lia.
Qed.

Lemma hex4val_hex4 n : n < 65536 ->
  hex4val (hex_digit ((n / 4096) mod 16)) (hex_digit ((n / 256) mod 16))
          (hex_digit ((n / 16) mod 16)) (hex_digit (n mod 16)) = Some n.
Proof.
  intros Hn. unfold hex4val.
  rewrite !hexval_hex_digit by (apply N.mod_lt; discriminate).
  f_equal. lia.
Qed.

(** * String bodies: printing then tokenising *)

Definition tok_char (c : N) : list stok :=
  match short_escape c with
  | Some _ => [TRaw c]
  | None =>
      if is_plain c then [TRaw c]
      else if c <? 65536 then [TEsc c]
      else let v := c - 65536 in [TEsc (55296 + (v / 1024) mod 1024); TEsc (56320 + v mod 1024)]
  end.

Lemma scan_units_esc_u n s ts rest :
  n < 65536 -> scan_units s = Some (ts, rest) ->
  scan_units (esc_u n ++ s) = Some (TEsc n :: ts, rest).
Proof.
  intros Hn Hs. unfold esc_u, hex4. cbn [app scan_units].
  change (92 =? 34) with false. change (92 =? 92) with true. change (117 =? 117) with true.
  cbn iota. rewrite (hex4val_hex4 _ Hn), Hs. reflexivity.
Qed.

Lemma short_escape_cases c e :
  short_escape c = Some e ->
  (e =? 117) = false /\ unescape e = Some c /\ c < 127 /\ (c =? 34) = false \/ c = 34 /\ e = 34.
Proof.
  unfold short_escape.
  destruct (N.eqb_spec c 34) as [->|H1]; [intros [= <-]; right; split; reflexivity|].
  destruct (N.eqb_spec c 92) as [->|H2]; [intros [= <-]; left; repeat split; reflexivity|].
  destruct (N.eqb_spec c 10) as [->|H3]; [intros [= <-]; left; repeat split; reflexivity|].
  destruct (N.eqb_spec c 13) as [->|H4]; [intros [= <-]; left; repeat split; reflexivity|].
  destruct (N.eqb_spec c 9) as [->|H5]; [intros [= <-]; left; repeat split; reflexivity|].
  destruct (N.eqb_spec c 8) as [->|H6]; [intros [= <-]; left; repeat split; reflexivity|].
  destruct (N.eqb_spec c 12) as [->|H7]; [intros [= <-]; left; repeat split; reflexivity|].
  discriminate.
Qed.

Lemma short_escape_none c :
  short_escape c = None -> (c =? 34) = false /\ (c =? 92) = false.
Proof.
  unfold short_escape.
  destruct (N.eqb_spec c 34); [discriminate|]. destruct (N.eqb_spec c 92); [discriminate|].
  intros _; split; reflexivity.
Qed.

Lemma scan_units_print_char c s ts rest :
  scan_units s = Some (ts, rest) ->
  scan_units (print_char c ++ s) = Some (tok_char c ++ ts, rest).
Proof.
  intros Hs. unfold print_char, tok_char.
  destruct (short_escape c) as [e|] eqn:Ese.
  - destruct (short_escape_cases _ _ Ese) as [(He & Hu & _ & _)|[-> ->]].
    + cbn [app scan_units]. change (92 =? 34) with false. change (92 =? 92) with true.
      cbn iota. rewrite He, Hu, Hs. reflexivity.
    + cbn [app scan_units]. change (92 =? 34) with false. change (92 =? 92) with true.
      cbn iota. change (34 =? 117) with false. cbn iota. change (unescape 34) with (Some 34).
      rewrite Hs. reflexivity.
  - destruct (short_escape_none _ Ese) as [Hq Hb].
    destruct (is_plain c) eqn:Epl.
    + cbn [app scan_units]. rewrite Hq, Hb.
      unfold is_plain in Epl. apply andb_true_iff in Epl. destruct Epl as [Hlo _].
      apply N.leb_le in Hlo. rewrite (ltb_false c 32) by exact Hlo. rewrite Hs. reflexivity.
    + destruct (N.ltb_spec c 65536) as [Hlt|Hge].
      * apply scan_units_esc_u; assumption.
      * cbv zeta. rewrite <- app_assoc. cbn [app].
        apply scan_units_esc_u; [pose proof (N.mod_lt ((c - 65536) / 1024) 1024); lia|].
        apply scan_units_esc_u; [pose proof (N.mod_lt (c - 65536) 1024); lia|]. exact Hs.
Qed.

Lemma scan_units_print s rest :
  scan_units (flat_map print_char s ++ 34 :: rest) = Some (flat_map tok_char s, rest).
Proof.
  induction s as [|c s IH]; [reflexivity|].
  cbn [flat_map]. rewrite <- app_assoc. apply scan_units_print_char. exact IH.
Qed.
(** * Joining the units *)

Lemma short_escape_small c e : short_escape c = Some e -> c < 127.
Proof.
  intros H. destruct (short_escape_cases _ _ H) as [(_ & _ & Hc & _)|[-> _]]; [exact Hc|reflexivity].
Qed.

Lemma is_plain_small c : is_plain c = true -> c < 127.
Proof.
  unfold is_plain. intros H. apply andb_true_iff in H. destruct H as [_ H].
  apply N.leb_le in H. lia.
Qed.

Lemma is_high_range c : is_high c = true <-> 55296 <= c <= 56319.
Proof. unfold is_high. rewrite andb_true_iff, !N.leb_le. tauto. Qed.
Lemma is_low_range c : is_low c = true <-> 56320 <= c <= 57343.
Proof. unfold is_low. rewrite andb_true_iff, !N.leb_le. tauto. Qed.
Lemma is_high_false c : is_high c = false <-> c < 55296 \/ 56319 < c.
Proof. unfold is_high. rewrite andb_false_iff, !N.leb_gt. tauto. Qed.
Lemma is_low_false c : is_low c = false <-> c < 56320 \/ 57343 < c.
Proof. unfold is_low. rewrite andb_false_iff, !N.leb_gt. tauto. Qed.

(** the shape of [tok_char c] *)
Inductive tok_shape (c : N) : list stok -> Prop :=
| ts_raw : c < 127 -> tok_shape c [TRaw c]
| ts_esc : 127 <= c < 65536 \/ c < 32 -> tok_shape c [TEsc c]
| ts_pair : 65536 <= c ->
    tok_shape c [TEsc (55296 + ((c - 65536) / 1024) mod 1024); TEsc (56320 + (c - 65536) mod 1024)].

Lemma tok_char_shape c : tok_shape c (tok_char c).
Proof.
  unfold tok_char. destruct (short_escape c) as [e|] eqn:Ese.
  - apply ts_raw. eapply short_escape_small; exact Ese.
  - destruct (is_plain c) eqn:Epl.
    + apply ts_raw. apply is_plain_small; exact Epl.
    + destruct (N.ltb_spec c 65536) as [Hlt|Hge].
      * apply ts_esc. unfold is_plain in Epl. apply andb_false_iff in Epl.
        rewrite !N.leb_gt in Epl. lia.
      * apply ts_pair. exact Hge.
Qed.

Lemma join_sur_split c : 65536 <= c -> c <= max_cp ->
  join_sur (55296 + ((c - 65536) / 1024) mod 1024) (56320 + (c - 65536) mod 1024) = c.
Proof. unfold join_sur, max_cp. intros H1 H2. lia. Qed.

Lemma join_units_esc_nonhigh h ts :
  is_high h = false -> join_units (TEsc h :: ts) = h :: join_units ts.
Proof.
  intros Hh. cbn [join_units]. destruct ts as [|[c|l] ts]; try reflexivity.
  rewrite Hh. reflexivity.
Qed.

Lemma join_units_esc_nonlow h l ts :
  is_low l = false -> join_units (TEsc h :: TEsc l :: ts) = h :: join_units (TEsc l :: ts).
Proof. intros Hl. cbn [join_units]. rewrite Hl, andb_false_r. reflexivity. Qed.

(** a character that is not a high surrogate stands for itself whatever follows *)
Lemma join_tok_char_nonhigh c ts :
  c <= max_cp -> is_high c = false -> join_units (tok_char c ++ ts) = c :: join_units ts.
Proof.
  intros Hc Hh. destruct (tok_char_shape c) as [Hs|Hs|Hs]; cbn [app].
  - reflexivity.
  - apply join_units_esc_nonhigh; exact Hh.
  - cbn [join_units].
    replace (is_high (55296 + ((c - 65536) / 1024) mod 1024)) with true
      by (symmetry; apply is_high_range; lia).
    replace (is_low (56320 + (c - 65536) mod 1024)) with true
      by (symmetry; apply is_low_range; lia).
    cbn [andb]. rewrite join_sur_split by assumption. reflexivity.
Qed.

Lemma tok_char_sur c : is_surrogate c = true -> tok_char c = [TEsc c].
Proof.
  unfold is_surrogate. rewrite andb_true_iff, !N.leb_le. intros [H1 H2].
  destruct (tok_char_shape c) as [Hs|Hs|Hs]; try reflexivity; lia.
Qed.

(** an escaped unit is never joined with the first unit of a character that is not a low
    surrogate *)
Lemma join_esc_tok_char_nonlow h d ts :
  is_low d = false ->
  join_units (TEsc h :: tok_char d ++ ts) = h :: join_units (tok_char d ++ ts).
Proof.
  intros Hd. destruct (tok_char_shape d) as [Hs|Hs|Hs]; cbn [app].
  - reflexivity.
  - apply join_units_esc_nonlow; exact Hd.
  - apply join_units_esc_nonlow. apply is_low_false. left. lia.
Qed.

Lemma str_cp_ok_cons c s : str_cp_ok (c :: s) = true <-> c <= max_cp /\ str_cp_ok s = true.
Proof. unfold str_cp_ok. cbn [forallb]. rewrite andb_true_iff, N.leb_le. tauto. Qed.

Lemma join_units_tok_len n : forall s, (length s <= n)%nat -> str_cp_ok s = true ->
  join_units (flat_map tok_char s) = str_canon s.
Proof.
  induction n as [|n IH]; intros s Hlen Hok.
  - destruct s; [reflexivity|simpl in Hlen; lia].
  - destruct s as [|c s]; [reflexivity|].
    apply str_cp_ok_cons in Hok. destruct Hok as [Hc Hok].
    simpl in Hlen. cbn [flat_map].
    destruct (is_high c) eqn:Ehc.
    + (* a high surrogate character *)
      assert (Esur : is_surrogate c = true).
      { apply is_high_range in Ehc. unfold is_surrogate. apply andb_true_iff.
        rewrite !N.leb_le. lia. }
      rewrite (tok_char_sur _ Esur). cbn [app].
      destruct s as [|d s].
      * reflexivity.
      * cbn [flat_map str_canon]. rewrite Ehc. cbn [andb].
        apply str_cp_ok_cons in Hok. destruct Hok as [Hd Hok].
        destruct (is_low d) eqn:Eld.
        -- assert (Esd : is_surrogate d = true).
           { apply is_low_range in Eld. unfold is_surrogate. apply andb_true_iff.
             rewrite !N.leb_le. lia. }
           rewrite (tok_char_sur _ Esd). cbn [app join_units]. rewrite Ehc, Eld. cbn [andb].
           f_equal. apply IH; [simpl in Hlen; lia|exact Hok].
        -- rewrite join_esc_tok_char_nonlow by exact Eld. f_equal.
           change (tok_char d ++ flat_map tok_char s) with (flat_map tok_char (d :: s)).
           apply IH; [simpl in Hlen |- *; lia|]. apply str_cp_ok_cons; split; assumption.
    + rewrite join_tok_char_nonhigh by assumption.
      rewrite IH by (assumption || lia).
      destruct s as [|d s]; [reflexivity|]. cbn [str_canon]. rewrite Ehc. reflexivity.
Qed.

Lemma join_units_tok s : str_cp_ok s = true -> join_units (flat_map tok_char s) = str_canon s.
Proof. apply (join_units_tok_len (length s)). apply le_n. Qed.

(** [scan_string] undoes [print_string] up to joining of surrogate pairs *)
Lemma scan_string_print s rest :
  str_cp_ok s = true ->
  scan_string (flat_map print_char s ++ 34 :: rest) = Some (str_canon s, rest).
Proof.
  intros Hok. unfold scan_string. rewrite scan_units_print, join_units_tok by exact Hok.
  reflexivity.
Qed.

Lemma str_canon_wf s : str_no_pair s = true -> str_canon s = s.
Proof.
  induction s as [|c s IH]; [reflexivity|].
  cbn [str_no_pair]. rewrite andb_true_iff, negb_true_iff. intros [Hp Hs].
  cbn [str_canon]. destruct s as [|d s]; [reflexivity|].
  rewrite Hp. f_equal. apply IH; exact Hs.
Qed.
(** * Numbers *)

Definition is_digit (c : N) : bool := (48 <=? c) && (c <=? 57).

(** what may follow a number: not a digit and not ['.'], ['e'], ['E'] *)
Definition delim_ok (rest : list N) : bool :=
  match rest with
  | [] => true
  | c :: _ => negb (is_digit c) && negb ((c =? 46) || (c =? 101) || (c =? 69))
  end.

Lemma digit_cons_nondigit c : is_digit c = false -> digit_cons c = None.
Proof.
  unfold is_digit. rewrite andb_false_iff, !N.leb_gt. intros H. unfold digit_cons.
  rewrite !eqb_false by lia. reflexivity.
Qed.

Lemma scan_digits_chars u rest :
  match rest with [] => true | c :: _ => negb (is_digit c) end = true ->
  scan_digits (chars_of_uint u ++ rest) = (u, rest).
Proof.
  intros Hr. induction u as [|u IH|u IH|u IH|u IH|u IH|u IH|u IH|u IH|u IH|u IH];
    cbn [chars_of_uint app];
    try (cbn [scan_digits]; change (digit_cons _) with (Some Decimal.D0) ||
         change (digit_cons _) with (Some Decimal.D1) || change (digit_cons _) with (Some Decimal.D2) ||
         change (digit_cons _) with (Some Decimal.D3) || change (digit_cons _) with (Some Decimal.D4) ||
         change (digit_cons _) with (Some Decimal.D5) || change (digit_cons _) with (Some Decimal.D6) ||
         change (digit_cons _) with (Some Decimal.D7) || change (digit_cons _) with (Some Decimal.D8) ||
         change (digit_cons _) with (Some Decimal.D9); rewrite IH; reflexivity).
  destruct rest as [|c r]; [reflexivity|].
  cbn [scan_digits]. apply negb_true_iff in Hr. rewrite (digit_cons_nondigit _ Hr). reflexivity.
Qed.

Lemma nzhead_head u : match Decimal.nzhead u with Decimal.D0 _ => False | _ => True end.
Proof. induction u; cbn [Decimal.nzhead]; try exact I. exact IHu. Qed.

Lemma unorm_shape u :
  uint_is_nil (Decimal.unorm u) = false /\ lead_zero (Decimal.unorm u) = false.
Proof.
  unfold Decimal.unorm. pose proof (nzhead_head u) as H.
  destruct (Decimal.nzhead u); try contradiction; split; reflexivity.
Qed.

Lemma to_uint_norm n : Decimal.unorm (N.to_uint n) = N.to_uint n.
Proof.
  rewrite <- (DecimalN.Unsigned.to_of (N.to_uint n)), DecimalN.Unsigned.of_to. reflexivity.
Qed.

Lemma to_uint_shape n :
  uint_is_nil (N.to_uint n) = false /\ lead_zero (N.to_uint n) = false.
Proof. rewrite <- to_uint_norm. apply unorm_shape. Qed.

Lemma delim_ok_split rest :
  delim_ok rest = true ->
  match rest with [] => true | c :: _ => negb (is_digit c) end = true /\ float_mark rest = false.
Proof.
  destruct rest as [|c r]; [intros _; split; reflexivity|].
  cbn [delim_ok float_mark]. rewrite andb_true_iff. intros [H1 H2].
  split; [exact H1|]. apply negb_true_iff; exact H2.
Qed.

Lemma scan_nat_print n rest :
  delim_ok rest = true -> scan_nat (print_N n ++ rest) = Some (n, rest).
Proof.
  intros Hr. destruct (delim_ok_split _ Hr) as [Hd Hf].
  unfold scan_nat, print_N. rewrite scan_digits_chars by exact Hd.
  destruct (to_uint_shape n) as [H1 H2]. rewrite H1, H2, Hf. cbn [orb].
  rewrite DecimalN.Unsigned.of_to. reflexivity.
Qed.

(** the first character of a printed natural number is a digit *)
Lemma print_N_head n : exists c r, print_N n = c :: r /\ is_digit c = true.
Proof.
  unfold print_N. destruct (to_uint_shape n) as [H1 _].
  destruct (N.to_uint n); try discriminate; cbn [chars_of_uint]; eexists; eexists; split;
    reflexivity.
Qed.

Lemma scan_number_print z rest :
  delim_ok rest = true -> scan_number (print_Z z ++ rest) = Some (z, rest).
Proof.
  intros Hr. destruct z as [|p|p]; unfold print_Z.
  - destruct (print_N_head (Z.abs_N 0)) as (c & r & E & Hc).
    pose proof (scan_nat_print (Z.abs_N 0) rest Hr) as Hs. rewrite E in Hs |- *.
    cbn [app] in Hs |- *. unfold scan_number.
    replace (c =? 45) with false.
    + rewrite Hs. reflexivity.
    + symmetry; apply N.eqb_neq. unfold is_digit in Hc. apply andb_true_iff in Hc.
      rewrite !N.leb_le in Hc. lia.
  - destruct (print_N_head (Z.abs_N (Zpos p))) as (c & r & E & Hc).
    pose proof (scan_nat_print (Z.abs_N (Zpos p)) rest Hr) as Hs. rewrite E in Hs |- *.
    cbn [app] in Hs |- *. unfold scan_number.
    replace (c =? 45) with false.
    + rewrite Hs. reflexivity.
    + symmetry; apply N.eqb_neq. unfold is_digit in Hc. apply andb_true_iff in Hc.
      rewrite !N.leb_le in Hc. lia.
  - cbn [app scan_number]. change (45 =? 45) with true. cbn iota.
    rewrite scan_nat_print by exact Hr. reflexivity.
Qed.

Lemma print_Z_head z :
  exists c r, print_Z z = c :: r /\ (is_digit c = true \/ c = 45).
Proof.
  destruct z as [|p|p]; unfold print_Z.
  - destruct (print_N_head (Z.abs_N 0)) as (c & r & E & Hc). exists c, r. auto.
  - destruct (print_N_head (Z.abs_N (Zpos p))) as (c & r & E & Hc). exists c, r. auto.
  - eexists; eexists; split; [reflexivity|right; reflexivity].
Qed.
(** * Induction principle and sizes *)

Section JsonInd.
  Variable P : json -> Prop.
  Hypothesis Hnull : P JNull.
  Hypothesis Hbool : forall b, P (JBool b).
  Hypothesis Hint : forall z, P (JInt z).
  Hypothesis Hstr : forall s, P (JStr s).
  Hypothesis Hlist : forall l, Forall P l -> P (JList l).
  Hypothesis Hobj : forall l, Forall (fun kv : name * json => P (snd kv)) l -> P (JObj l).
  Fixpoint jt_json_ind (j : json) : P j :=
    match j with
    | JNull => Hnull
    | JBool b => Hbool b
    | JInt z => Hint z
    | JStr s => Hstr s
    | JList l =>
        Hlist l ((fix go (l : list json) : Forall P l :=
                  match l with
                  | [] => Forall_nil _
                  | x :: l' => Forall_cons x (jt_json_ind x) (go l')
                  end) l)
    | JObj l =>
        Hobj l ((fix go (l : list (name * json)) : Forall (fun kv => P (snd kv)) l :=
                 match l with
                 | [] => Forall_nil _
                 | kv :: l' => Forall_cons kv (jt_json_ind (snd kv)) (go l')
                 end) l)
    end.
End JsonInd.

(** fuel needed by [parse_value] on the printed form *)
Fixpoint jsize (t : json) : nat :=
  match t with
  | JList l => S ((fix go (l : list json) : nat :=
                     match l with [] => O | x :: l' => (S (jsize x) + go l')%nat end) l)
  | JObj l => S ((fix go (l : list (name * json)) : nat :=
                    match l with [] => O | (_, v) :: l' => (S (jsize v) + go l')%nat end) l)
  | _ => 1%nat
  end.

Fixpoint list_size (l : list json) : nat :=
  match l with [] => O | x :: l' => (S (jsize x) + list_size l')%nat end.
Fixpoint obj_size (l : list (name * json)) : nat :=
  match l with [] => O | (_, v) :: l' => (S (jsize v) + obj_size l')%nat end.

Lemma jsize_list l : jsize (JList l) = S (list_size l).
Proof. reflexivity. Qed.
Lemma jsize_obj l : jsize (JObj l) = S (obj_size l).
Proof. reflexivity. Qed.

Lemma cp_ok_list l : json_cp_ok (JList l) = true <-> Forall (fun x => json_cp_ok x = true) l.
Proof.
  cbn [json_cp_ok]. induction l as [|x l IH].
  - split; [constructor|reflexivity].
  - rewrite andb_true_iff, IH. split.
    + intros [H1 H2]; constructor; assumption.
    + intros H; inversion H; subst; split; assumption.
Qed.

Lemma cp_ok_obj l :
  json_cp_ok (JObj l) = true <->
  Forall (fun kv => str_cp_ok (fst kv) = true /\ json_cp_ok (snd kv) = true) l.
Proof.
  cbn [json_cp_ok]. induction l as [|[k v] l IH].
  - split; [constructor|reflexivity].
  - rewrite !andb_true_iff, IH. split.
    + intros [[H1 H2] H3]; constructor; [split|]; assumption.
    + intros H; inversion H as [|? ? [H1 H2] H3]; subst; repeat split; assumption.
Qed.

(** * First characters *)

Definition is_start (c : N) : bool :=
  (c =? 34) || (c =? 45) || is_digit c || (c =? 91) || (c =? 123) || (c =? 110) || (c =? 116)
  || (c =? 102).

Lemma is_ws_cases c : is_ws c = true -> c = 32 \/ c = 9 \/ c = 10 \/ c = 13.
Proof. unfold is_ws. rewrite !orb_true_iff, !N.eqb_eq. tauto. Qed.

Lemma is_start_not_ws c : is_start c = true -> is_ws c = false.
Proof.
  intros Hs. destruct (is_ws c) eqn:E; [|reflexivity].
  destruct (is_ws_cases _ E) as [-> | [-> | [-> | ->]]]; discriminate Hs.
Qed.

Lemma is_start_neq c k : is_start k = false -> is_start c = true -> (c =? k) = false.
Proof. intros Hk Hc. apply N.eqb_neq. intros ->. congruence. Qed.

Lemma skip_ws_start c r : is_start c = true -> skip_ws (c :: r) = c :: r.
Proof. intros H. cbn [skip_ws]. rewrite (is_start_not_ws _ H). reflexivity. Qed.

Lemma print_head t : exists c r, json_print t = c :: r /\ is_start c = true.
Proof.
  destruct t as [|[|]|z|s|l|l]; cbn [json_print];
    try (eexists; eexists; split; reflexivity).
  destruct (print_Z_head z) as (c & r & E & Hc); exists c, r; (split; [exact E|]).
  destruct Hc as [Hc|Hc].
  - unfold is_start. rewrite Hc. rewrite !orb_true_r. reflexivity.
  - subst c. reflexivity.
Qed.

Lemma skip_ws_print t rest : skip_ws (json_print t ++ rest) = json_print t ++ rest.
Proof.
  destruct (print_head t) as (c & r & E & Hc). rewrite E. cbn [app].
  apply skip_ws_start; exact Hc.
Qed.

(** * One step of each parser *)

Lemma parse_value_number f c r :
  is_digit c = true \/ c = 45 ->
  parse_value (S f) (c :: r) =
  match scan_number (c :: r) with Some (z, rest) => Some (JInt z, rest) | None => None end.
Proof.
  intros Hc.
  assert (Hr : c = 45 \/ 48 <= c <= 57).
  { destruct Hc as [Hc| ->]; [right|left; reflexivity].
    unfold is_digit in Hc. apply andb_true_iff in Hc. rewrite !N.leb_le in Hc. exact Hc. }
  cbn [parse_value].
  rewrite (eqb_false c 34), (eqb_false c 91), (eqb_false c 123), (eqb_false c 110),
    (eqb_false c 116), (eqb_false c 102) by lia.
  reflexivity.
Qed.

Lemma parse_value_string f r :
  parse_value (S f) (34 :: r) =
  match scan_string r with Some (str, rest) => Some (JStr str, rest) | None => None end.
Proof. reflexivity. Qed.

Lemma parse_value_list f s d r1 :
  skip_ws s = d :: r1 -> (d =? 93) = false ->
  parse_value (S f) (91 :: s) =
  match parse_elems f (d :: r1) with Some (l, rest) => Some (JList l, rest) | None => None end.
Proof.
  intros Hs Hd. cbn [parse_value]. change (91 =? 34) with false. change (91 =? 91) with true.
  cbn iota. rewrite Hs, Hd. reflexivity.
Qed.

Lemma parse_value_obj f s d r1 :
  skip_ws s = d :: r1 -> (d =? 125) = false ->
  parse_value (S f) (123 :: s) =
  match parse_members f (d :: r1) with
  | Some (ps, rest) => Some (JObj (dict_of_pairs ps), rest)
  | None => None
  end.
Proof.
  intros Hs Hd. cbn [parse_value]. change (123 =? 34) with false. change (123 =? 91) with false.
  change (123 =? 123) with true. cbn iota. rewrite Hs, Hd. reflexivity.
Qed.

Lemma parse_elems_last f s v rest :
  parse_value f s = Some (v, 93 :: rest) -> parse_elems (S f) s = Some ([v], rest).
Proof. intros H. cbn [parse_elems]. rewrite H. reflexivity. Qed.

Lemma parse_elems_more f s v r1 l rest :
  parse_value f s = Some (v, 44 :: r1) -> parse_elems f (skip_ws r1) = Some (l, rest) ->
  parse_elems (S f) s = Some (v :: l, rest).
Proof.
  intros H1 H2. cbn [parse_elems]. rewrite H1. cbn [skip_ws]. change (is_ws 44) with false.
  cbn iota. change (44 =? 93) with false. change (44 =? 44) with true. cbn iota.
  rewrite H2. reflexivity.
Qed.

Lemma parse_members_last f r0 k r1 v rest :
  scan_string r0 = Some (k, 58 :: r1) -> parse_value f (skip_ws r1) = Some (v, 125 :: rest) ->
  parse_members (S f) (34 :: r0) = Some ([(k, v)], rest).
Proof.
  intros H1 H2. cbn [parse_members]. change (34 =? 34) with true. cbn iota. rewrite H1.
  cbn [skip_ws]. change (is_ws 58) with false. cbn iota. change (58 =? 58) with true. cbn iota.
  rewrite H2. reflexivity.
Qed.

Lemma parse_members_more f r0 k r1 v r3 ps rest :
  scan_string r0 = Some (k, 58 :: r1) -> parse_value f (skip_ws r1) = Some (v, 44 :: r3) ->
  parse_members f (skip_ws r3) = Some (ps, rest) ->
  parse_members (S f) (34 :: r0) = Some ((k, v) :: ps, rest).
Proof.
  intros H1 H2 H3. cbn [parse_members]. change (34 =? 34) with true. cbn iota. rewrite H1.
  cbn [skip_ws]. change (is_ws 58) with false. cbn iota. change (58 =? 58) with true. cbn iota.
  rewrite H2. cbn [skip_ws]. change (is_ws 44) with false. cbn iota.
  change (44 =? 125) with false. change (44 =? 44) with true. cbn iota. rewrite H3. reflexivity.
Qed.
(** * The round trip at the level of [parse_value] *)

Lemma sep_join_one p : sep_join [p] = p.
Proof. cbn [sep_join flat_map]. apply app_nil_r. Qed.

Lemma sep_join_cons2 p q r : sep_join (p :: q :: r) = p ++ 44 :: 32 :: sep_join (q :: r).
Proof. reflexivity. Qed.

Definition elems_text (l : list json) : list N := sep_join (map json_print l).
Definition member_text (kv : name * json) : list N :=
  let '(k, v) := kv in print_string k ++ 58 :: 32 :: json_print v.
Definition members_text (l : list (name * json)) : list N := sep_join (map member_text l).

(** the statement proved by induction on the tree *)
Definition rt_value (t : json) : Prop :=
  json_cp_ok t = true ->
  forall f rest, (jsize t <= f)%nat -> delim_ok rest = true ->
  parse_value f (json_print t ++ rest) = Some (json_canon t, rest).

Lemma rt_elems l :
  Forall rt_value l -> Forall (fun x => json_cp_ok x = true) l -> l <> [] ->
  forall f rest, (list_size l <= f)%nat ->
  parse_elems f (elems_text l ++ 93 :: rest) = Some (map json_canon l, rest).
Proof.
  induction l as [|x l IH]; intros Hrt Hok Hne f rest Hf; [congruence|].
  inversion Hrt as [|? ? Hx Hrt']; subst. inversion Hok as [|? ? Hokx Hok']; subst.
  cbn [list_size] in Hf. destruct f as [|f]; [lia|].
  destruct l as [|y l].
  - unfold elems_text. cbn [map]. rewrite sep_join_one.
    apply parse_elems_last. apply Hx; [exact Hokx|lia|reflexivity].
  - unfold elems_text. cbn [map]. rewrite sep_join_cons2, <- app_assoc. cbn [app].
    eapply parse_elems_more.
    + apply Hx; [exact Hokx|lia|reflexivity].
    + cbn [skip_ws]. change (is_ws 32) with true. cbn iota.
      change (sep_join (json_print y :: map json_print l)) with (elems_text (y :: l)).
      assert (Hsk : skip_ws (elems_text (y :: l) ++ 93 :: rest) = elems_text (y :: l) ++ 93 :: rest).
      { unfold elems_text. cbn [map sep_join]. rewrite <- !app_assoc. apply skip_ws_print. }
      rewrite Hsk. apply IH; [exact Hrt'|exact Hok'|discriminate|lia].
Qed.

Lemma scan_string_print_string k rest :
  str_cp_ok k = true ->
  exists body, print_string k ++ rest = 34 :: body /\ scan_string body = Some (str_canon k, rest).
Proof.
  intros Hk. exists (flat_map print_char k ++ 34 :: rest). split.
  - unfold print_string. cbn [app]. rewrite <- app_assoc. reflexivity.
  - apply scan_string_print; exact Hk.
Qed.

Definition canon_member (kv : name * json) : name * json :=
  let '(k, v) := kv in (str_canon k, json_canon v).

Lemma rt_members l :
  Forall (fun kv => rt_value (snd kv)) l ->
  Forall (fun kv => str_cp_ok (fst kv) = true /\ json_cp_ok (snd kv) = true) l -> l <> [] ->
  forall f rest, (obj_size l <= f)%nat ->
  parse_members f (members_text l ++ 125 :: rest) = Some (map canon_member l, rest).
Proof.
  induction l as [|[k v] l IH]; intros Hrt Hok Hne f rest Hf; [congruence|].
  inversion Hrt as [|? ? Hx Hrt']; subst. inversion Hok as [|? ? [Hokk Hokv] Hok']; subst.
  cbn [fst snd] in Hx, Hokk, Hokv.
  cbn [obj_size] in Hf. destruct f as [|f]; [lia|].
  destruct l as [|y l].
  - unfold members_text. cbn [map]. rewrite sep_join_one. unfold member_text.
    rewrite <- app_assoc.
    destruct (scan_string_print_string k ((58 :: 32 :: json_print v) ++ 125 :: rest) Hokk)
      as (body & Eb & Hb).
    rewrite Eb. cbn [app] in Hb. cbn [map canon_member].
    eapply parse_members_last; [exact Hb|].
    cbn [skip_ws]. change (is_ws 32) with true. cbn iota. rewrite skip_ws_print.
    apply Hx; [exact Hokv|lia|reflexivity].
  - unfold members_text. cbn [map]. rewrite sep_join_cons2. unfold member_text at 1.
    rewrite <- !app_assoc.
    destruct (scan_string_print_string k
                ((58 :: 32 :: json_print v) ++ (44 :: 32 :: sep_join (member_text y :: map member_text l)) ++ 125 :: rest) Hokk)
      as (body & Eb & Hb).
    rewrite Eb. cbn [app] in Hb. cbn [map canon_member].
    eapply parse_members_more; [exact Hb| |].
    + cbn [skip_ws]. change (is_ws 32) with true. cbn iota. rewrite skip_ws_print.
      apply Hx; [exact Hokv|lia|reflexivity].
    + cbn [skip_ws]. change (is_ws 32) with true. cbn iota.
      change (sep_join (member_text y :: map member_text l)) with (members_text (y :: l)).
      assert (Hsk : skip_ws (members_text (y :: l) ++ 125 :: rest) = members_text (y :: l) ++ 125 :: rest).
      { unfold members_text. cbn [map sep_join]. destruct y as [ky vy]. unfold member_text at 1.
        unfold print_string. cbn [app]. reflexivity. }
      rewrite Hsk. apply IH; [exact Hrt'|exact Hok'|discriminate|lia].
Qed.

Lemma json_print_obj l : json_print (JObj l) = 123 :: members_text l ++ [125].
Proof.
  cbn [json_print]. unfold members_text. do 3 f_equal.
Qed.

Lemma json_canon_obj l : json_canon (JObj l) = JObj (dict_of_pairs (map canon_member l)).
Proof. reflexivity. Qed.

Lemma rt_value_all t : rt_value t.
Proof.
  induction t as [|b|z|s|l IH|l IH] using jt_json_ind; intros Hok f rest Hf Hr;
    (destruct f as [|f]; [cbn [jsize] in Hf; lia|]).
  - reflexivity.
  - destruct b; reflexivity.
  - cbn [json_print json_canon].
    destruct (print_Z_head z) as (c & r & E & Hc).
    pose proof (scan_number_print z rest Hr) as Hs. rewrite E in Hs |- *. cbn [app] in Hs |- *.
    rewrite (parse_value_number f c (r ++ rest) Hc), Hs. reflexivity.
  - cbn [json_print json_canon json_cp_ok] in Hok |- *. unfold print_string. cbn [app].
    rewrite <- app_assoc. cbn [app]. rewrite parse_value_string, scan_string_print by exact Hok.
    reflexivity.
  - rewrite jsize_list in Hf. apply cp_ok_list in Hok.
    cbn [json_print json_canon]. cbn [app]. rewrite <- app_assoc. cbn [app].
    destruct l as [|x l].
    + reflexivity.
    + change (sep_join (map json_print (x :: l))) with (elems_text (x :: l)).
      assert (Hsk : exists d r1, elems_text (x :: l) ++ 93 :: rest = d :: r1 /\ is_start d = true).
      { destruct (print_head x) as (d & r1 & E & Hd). unfold elems_text. cbn [map sep_join].
        rewrite E. cbn [app]. eexists; eexists; split; [reflexivity|exact Hd]. }
      destruct Hsk as (d & r1 & E & Hd).
      rewrite (parse_value_list f (elems_text (x :: l) ++ 93 :: rest) d r1).
      * rewrite <- E. rewrite rt_elems; [reflexivity|exact IH|exact Hok|discriminate|lia].
      * rewrite E. apply skip_ws_start; exact Hd.
      * apply is_start_neq; [reflexivity|exact Hd].
  - rewrite jsize_obj in Hf. apply cp_ok_obj in Hok.
    rewrite json_print_obj, json_canon_obj. cbn [app]. rewrite <- app_assoc. cbn [app].
    destruct l as [|[k v] l].
    + reflexivity.
    + assert (Hsk : exists r1, members_text ((k, v) :: l) ++ 125 :: rest = 34 :: r1).
      { unfold members_text. cbn [map sep_join]. unfold member_text at 1. unfold print_string.
        cbn [app]. eexists; reflexivity. }
      destruct Hsk as (r1 & E).
      rewrite (parse_value_obj f (members_text ((k, v) :: l) ++ 125 :: rest) 34 r1).
      * rewrite <- E. rewrite rt_members; [reflexivity|exact IH|exact Hok|discriminate|lia].
      * rewrite E. reflexivity.
      * reflexivity.
Qed.
(** * Fuel: the length of the text is enough *)

Lemma print_length_pos t : (1 <= length (json_print t))%nat.
Proof.
  destruct (print_head t) as (c & r & E & _). rewrite E. cbn [length]. lia.
Qed.

Lemma sep_join_length_cons p ps :
  length (sep_join (p :: ps)) = (length p + fold_right (fun q n => 2 + length q + n) 0 ps)%nat.
Proof.
  cbn [sep_join]. rewrite app_length. f_equal.
  induction ps as [|q ps IH]; [reflexivity|].
  cbn [flat_map fold_right]. cbn [app length]. rewrite app_length, IH. lia.
Qed.

Lemma list_size_le l :
  Forall (fun x => (jsize x <= length (json_print x))%nat) l ->
  (list_size l <= S (length (elems_text l)))%nat.
Proof.
  intros H. destruct l as [|x l]; [cbn; lia|].
  inversion H as [|? ? Hx Hl]; subst. unfold elems_text. cbn [map].
  rewrite sep_join_length_cons. cbn [list_size].
  assert (Hs : (list_size l <= fold_right (fun q n => 2 + length q + n) 0 (map json_print l))%nat).
  { clear Hx H. induction Hl as [|y l Hy Hl IH]; [cbn; lia|].
    cbn [list_size map fold_right]. lia. }
  lia.
Qed.

Lemma obj_size_le l :
  Forall (fun kv : name * json => (jsize (snd kv) <= length (json_print (snd kv)))%nat) l ->
  (obj_size l <= S (length (members_text l)))%nat.
Proof.
  assert (Hm : forall kv : name * json,
             (jsize (snd kv) <= length (json_print (snd kv)) ->
              S (jsize (snd kv)) <= length (member_text kv))%nat).
  { intros [k v]. cbn [snd]. unfold member_text, print_string. cbn [app length].
    rewrite !app_length. cbn [length]. lia. }
  intros H. destruct l as [|x l]; [cbn; lia|].
  inversion H as [|? ? Hx Hl]; subst. unfold members_text. cbn [map].
  rewrite sep_join_length_cons. destruct x as [k v]. cbn [obj_size].
  assert (Hs : (obj_size l <= fold_right (fun q n => 2 + length q + n) 0 (map member_text l))%nat).
  { clear Hx H. induction Hl as [|y l Hy Hl IH]; [cbn; lia|].
    destruct y as [ky vy]. cbn [obj_size map fold_right].
    pose proof (Hm (ky, vy) Hy) as Hy'. cbn [snd] in Hy'. lia. }
  pose proof (Hm (k, v) Hx) as Hx'. cbn [snd] in Hx'. lia.
Qed.

Lemma jsize_le_length t : (jsize t <= length (json_print t))%nat.
Proof.
  induction t as [|b|z|s|l IH|l IH] using jt_json_ind;
    try (cbn [jsize]; apply print_length_pos).
  - rewrite jsize_list. pose proof (list_size_le l IH) as H.
    cbn [json_print]. cbn [length]. rewrite app_length. cbn [length].
    unfold elems_text in H. lia.
  - rewrite jsize_obj, json_print_obj. pose proof (obj_size_le l IH) as H.
    cbn [length]. rewrite app_length. cbn [length]. lia.
Qed.

(** * Main theorems *)

(** What [json.loads(json.dumps(t))] is, for EVERY tree whose code points Python can
    represent: surrogate pairs are joined and objects go through [dict]. *)
Theorem json_parse_print_canon t :
  json_cp_ok t = true -> json_parse (json_print t) = Some (json_canon t).
Proof.
  intros Hok. unfold json_parse.
  pose proof (skip_ws_print t []) as Hs. rewrite app_nil_r in Hs. rewrite Hs.
  pose proof (rt_value_all t Hok (S (length (json_print t))) []) as H.
  rewrite app_nil_r in H. rewrite H; [reflexivity| |reflexivity].
  pose proof (jsize_le_length t). lia.
Qed.
(** * Well-formed trees are fixed points of the text round trip *)

Lemma upsert_notin (k : name) (v : json) l :
  ~ In k (map fst l) -> upsert k v l = l ++ [(k, v)].
Proof.
  induction l as [|[k' v'] l IH]; intros Hn; [reflexivity|].
  cbn [upsert]. destruct (name_eqb_spec k k') as [->|Hne].
  - exfalso; apply Hn; left; reflexivity.
  - cbn [app]. f_equal. apply IH. intros Hin; apply Hn; right; exact Hin.
Qed.

Lemma fold_upsert_nodup ps : forall acc,
  NoDup (map fst acc ++ map fst ps) ->
  fold_left (fun d (kv : name * json) => upsert (fst kv) (snd kv) d) ps acc = acc ++ ps.
Proof.
  induction ps as [|[k v] ps IH]; intros acc Hnd; [symmetry; apply app_nil_r|].
  cbn [fold_left fst snd]. cbn [map fst] in Hnd.
  rewrite upsert_notin.
  - rewrite IH.
    + rewrite <- app_assoc. reflexivity.
    + rewrite map_app, <- app_assoc. exact Hnd.
  - apply NoDup_remove_2 in Hnd. intros Hin; apply Hnd. apply in_or_app; left; exact Hin.
Qed.

Lemma dict_of_pairs_nodup ps : NoDup (map fst ps) -> dict_of_pairs ps = ps.
Proof. intros H. unfold dict_of_pairs. rewrite fold_upsert_nodup; [reflexivity|exact H]. Qed.

Lemma keys_nodupb_spec l : keys_nodupb l = true <-> NoDup l.
Proof.
  induction l as [|k l IH]; cbn [keys_nodupb].
  - split; [constructor|reflexivity].
  - rewrite andb_true_iff, negb_true_iff, mem_false, IH. split.
    + intros [H1 H2]; constructor; assumption.
    + intros H; inversion H; subst; split; assumption.
Qed.

Lemma wfb_list l : json_wfb (JList l) = true <-> Forall (fun x => json_wfb x = true) l.
Proof.
  cbn [json_wfb]. induction l as [|x l IH].
  - split; [constructor|reflexivity].
  - rewrite andb_true_iff, IH. split.
    + intros [H1 H2]; constructor; assumption.
    + intros H; inversion H; subst; split; assumption.
Qed.

Lemma wfb_obj l :
  json_wfb (JObj l) = true <->
  NoDup (map fst l) /\
  Forall (fun kv => str_wfb (fst kv) = true /\ json_wfb (snd kv) = true) l.
Proof.
  cbn [json_wfb]. rewrite andb_true_iff, keys_nodupb_spec.
  apply and_iff_compat_l. induction l as [|[k v] l IH].
  - split; [constructor|reflexivity].
  - rewrite !andb_true_iff, IH. split.
    + intros [[H1 H2] H3]; constructor; [split|]; assumption.
    + intros H; inversion H as [|? ? [H1 H2] H3]; subst; repeat split; assumption.
Qed.

Lemma str_wfb_split s : str_wfb s = true <-> str_cp_ok s = true /\ str_no_pair s = true.
Proof. unfold str_wfb. apply andb_true_iff. Qed.

Lemma json_wfb_cp_ok t : json_wfb t = true -> json_cp_ok t = true.
Proof.
  induction t as [|b|z|s|l IH|l IH] using jt_json_ind; intros Hwf; try reflexivity.
  - cbn [json_wfb json_cp_ok] in *. apply str_wfb_split in Hwf. tauto.
  - apply wfb_list in Hwf. apply cp_ok_list.
    induction IH as [|x l Hx _ IHl]; [constructor|].
    inversion Hwf; subst. constructor; auto.
  - apply wfb_obj in Hwf. destruct Hwf as [_ Hwf]. apply cp_ok_obj.
    induction IH as [|x l Hx _ IHl]; [constructor|].
    inversion Hwf as [|? ? [H1 H2] H3]; subst. constructor; [|auto].
    split; [apply str_wfb_split in H1; tauto|auto].
Qed.

Lemma json_canon_wf t : json_wfb t = true -> json_canon t = t.
Proof.
  induction t as [|b|z|s|l IH|l IH] using jt_json_ind; intros Hwf; try reflexivity.
  - cbn [json_wfb json_canon] in *. apply str_wfb_split in Hwf.
    rewrite str_canon_wf by tauto. reflexivity.
  - apply wfb_list in Hwf. cbn [json_canon]. f_equal.
    induction IH as [|x l Hx _ IHl]; [reflexivity|].
    inversion Hwf; subst. cbn [map]. f_equal; auto.
  - apply wfb_obj in Hwf. destruct Hwf as [Hnd Hwf]. rewrite json_canon_obj. f_equal.
    assert (Hm : map canon_member l = l).
    { clear Hnd. induction IH as [|[k v] l Hx _ IHl]; [reflexivity|].
      inversion Hwf as [|? ? [H1 H2] H3]; subst. cbn [fst snd] in *. cbn [map canon_member].
      apply str_wfb_split in H1. rewrite str_canon_wf by tauto. rewrite Hx by exact H2.
      f_equal. auto. }
    rewrite Hm. apply dict_of_pairs_nodup; exact Hnd.
Qed.

(** THE ROUND TRIP.  Hypothesis [json_wf t]: every code point is at most U+10FFFF (true of
    every Python [str]); no string or key contains a high surrogate immediately followed by a
    low surrogate (true of every [str] that is a sequence of Unicode scalar values; a LONE
    surrogate is allowed and survives); the keys of every object are pairwise distinct (true of
    every Python [dict]). *)
Theorem json_parse_print t : json_wf t -> json_parse (json_print t) = Some t.
Proof.
  intros Hwf. unfold json_wf in Hwf.
  rewrite json_parse_print_canon by (apply json_wfb_cp_ok; exact Hwf).
  rewrite json_canon_wf by exact Hwf. reflexivity.
Qed.

(** [json_print] is injective on well-formed trees *)
Corollary json_print_inj t1 t2 :
  json_wf t1 -> json_wf t2 -> json_print t1 = json_print t2 -> t1 = t2.
Proof.
  intros H1 H2 E. pose proof (json_parse_print t1 H1) as P1.
  rewrite E, (json_parse_print t2 H2) in P1. congruence.
Qed.

(** and, on all representable trees, two trees with the same text have the same canonical
    form *)
Corollary json_print_inj_canon t1 t2 :
  json_cp_ok t1 = true -> json_cp_ok t2 = true -> json_print t1 = json_print t2 ->
  json_canon t1 = json_canon t2.
Proof.
  intros H1 H2 E. pose proof (json_parse_print_canon t1 H1) as P1.
  rewrite E, (json_parse_print_canon t2 H2) in P1. congruence.
Qed.

(** strings of Unicode scalar values are well formed *)
Lemma str_scalar_wfb s : str_scalar s = true -> str_wfb s = true.
Proof.
  intros H. apply str_wfb_split. induction s as [|c s IH]; [split; reflexivity|].
  unfold str_scalar in H. cbn [forallb] in H. apply andb_true_iff in H. destruct H as [Hc Hs].
  apply andb_true_iff in Hc. destruct Hc as [Hc1 Hc2]. apply negb_true_iff in Hc2.
  destruct (IH Hs) as [I1 I2]. split.
  - apply str_cp_ok_cons. split; [apply N.leb_le; exact Hc1|exact I1].
  - cbn [str_no_pair]. rewrite I2, andb_true_r. apply negb_true_iff.
    replace (is_high c) with false; [reflexivity|].
    symmetry. unfold is_surrogate in Hc2. apply andb_false_iff in Hc2. apply is_high_false.
    rewrite !N.leb_gt in Hc2. lia.
Qed.
(** * The hypothesis is necessary: exact characterisation *)

Lemma join_sur_big h l : 65536 <= join_sur h l.
Proof. unfold join_sur. lia. Qed.

Lemma str_canon_fixed s : str_canon s = s -> str_no_pair s = true.
Proof.
  induction s as [|h s IH]; [reflexivity|].
  destruct s as [|l r]; [intros _; cbn [str_no_pair]; rewrite andb_false_r; reflexivity|].
  cbn [str_canon]. cbn [str_no_pair] in *.
  destruct (is_high h && is_low l) eqn:E.
  - intros Heq. exfalso. injection Heq as Hh _.
    apply andb_true_iff in E. destruct E as [E _]. apply is_high_range in E.
    pose proof (join_sur_big h l). lia.
  - intros Heq. injection Heq as Heq. cbn [negb andb]. apply IH. exact Heq.
Qed.

Definition upsert_step (d : list (name * json)) (kv : name * json) : list (name * json) :=
  upsert (fst kv) (snd kv) d.

Lemma dict_of_pairs_fold ps : dict_of_pairs ps = fold_left upsert_step ps [].
Proof. reflexivity. Qed.

Lemma upsert_in_length (k : name) (v : json) l :
  In k (map fst l) -> length (upsert k v l) = length l /\ map fst (upsert k v l) = map fst l.
Proof.
  induction l as [|[k' v'] l IH]; intros Hin; [contradiction|].
  cbn [upsert]. destruct (name_eqb_spec k k') as [->|Hne]; [split; reflexivity|].
  destruct Hin as [E|Hin]; [cbn [fst] in E; congruence|].
  destruct (IH Hin) as [H1 H2]. cbn [length map fst]. rewrite H1, H2. split; reflexivity.
Qed.

Lemma fold_upsert_length ps : forall acc,
  (length (fold_left upsert_step ps acc) <= length acc + length ps)%nat.
Proof.
  induction ps as [|[k v] ps IH]; intros acc; cbn [fold_left length]; [lia|].
  specialize (IH (upsert k v acc)). change (upsert_step acc (k, v)) with (upsert k v acc).
  destruct (in_dec name_eq_dec k (map fst acc)) as [Hin|Hni].
  - destruct (upsert_in_length k v acc Hin) as [H1 _]. rewrite H1 in IH. lia.
  - pose proof (f_equal (@length _) (upsert_notin k v acc Hni)) as Hl.
    rewrite app_length in Hl. cbn [length] in Hl. lia.
Qed.

Lemma fold_upsert_full ps : forall acc,
  length (fold_left upsert_step ps acc) = (length acc + length ps)%nat ->
  fold_left upsert_step ps acc = acc ++ ps.
Proof.
  induction ps as [|[k v] ps IH]; intros acc Hlen; cbn [fold_left]; [symmetry; apply app_nil_r|].
  cbn [fold_left length] in Hlen.
  change (upsert_step acc (k, v)) with (upsert k v acc) in *.
  pose proof (fold_upsert_length ps (upsert k v acc)) as Hle.
  destruct (in_dec name_eq_dec k (map fst acc)) as [Hin|Hni].
  - destruct (upsert_in_length k v acc Hin) as [H1 _]. lia.
  - rewrite (upsert_notin k v acc Hni) in *. rewrite IH.
    + rewrite <- app_assoc. reflexivity.
    + rewrite app_length in *. cbn [length] in *. lia.
Qed.

Lemma fold_upsert_keys_nodup ps : forall acc,
  NoDup (map fst acc) -> NoDup (map fst (fold_left upsert_step ps acc)).
Proof.
  induction ps as [|[k v] ps IH]; intros acc Hnd; cbn [fold_left]; [exact Hnd|].
  apply IH. change (upsert_step acc (k, v)) with (upsert k v acc).
  destruct (in_dec name_eq_dec k (map fst acc)) as [Hin|Hni].
  - destruct (upsert_in_length k v acc Hin) as [_ H2]. rewrite H2. exact Hnd.
  - rewrite (upsert_notin k v acc Hni), map_app. cbn [map fst].
    apply (Permutation_NoDup (Permutation_cons_append (map fst acc) k)).
    constructor; assumption.
Qed.

Lemma dict_of_pairs_keys_nodup ps : NoDup (map fst (dict_of_pairs ps)).
Proof. rewrite dict_of_pairs_fold. apply fold_upsert_keys_nodup. constructor. Qed.

Lemma dict_of_pairs_fixed ps : length (dict_of_pairs ps) = length ps -> dict_of_pairs ps = ps.
Proof. rewrite dict_of_pairs_fold. intros H. apply (fold_upsert_full ps []). exact H. Qed.

Lemma map_fixed {A} (f : A -> A) l : map f l = l -> Forall (fun x => f x = x) l.
Proof.
  induction l as [|x l IH]; intros H; [constructor|].
  cbn [map] in H. injection H as H1 H2. constructor; auto.
Qed.

Lemma json_canon_fixed_wf t : json_cp_ok t = true -> json_canon t = t -> json_wfb t = true.
Proof.
  induction t as [|b|z|s|l IH|l IH] using jt_json_ind; intros Hok Hfix; try reflexivity.
  - cbn [json_canon json_cp_ok json_wfb] in *. injection Hfix as Hfix.
    apply str_wfb_split. split; [exact Hok|apply str_canon_fixed; exact Hfix].
  - cbn [json_canon] in Hfix. injection Hfix as Hfix. apply map_fixed in Hfix.
    apply cp_ok_list in Hok. apply wfb_list.
    induction IH as [|x l Hx _ IHl]; [constructor|].
    inversion Hok; subst. inversion Hfix; subst. constructor; auto.
  - rewrite json_canon_obj in Hfix. injection Hfix as Hfix.
    assert (Hm : map canon_member l = l).
    { rewrite <- Hfix at 2. symmetry. apply dict_of_pairs_fixed.
      rewrite Hfix. rewrite map_length. reflexivity. }
    apply wfb_obj. split.
    + rewrite <- Hfix. apply dict_of_pairs_keys_nodup.
    + apply map_fixed in Hm. apply cp_ok_obj in Hok. clear Hfix.
      induction IH as [|[k v] l Hx _ IHl]; [constructor|].
      inversion Hok as [|? ? [H1 H2] H3]; subst. inversion Hm as [|? ? H4 H5]; subst.
      cbn [fst snd canon_member] in *. injection H4 as H4 H6.
      constructor; [|auto]. cbn [fst snd]. split.
      * apply str_wfb_split. split; [exact H1|apply str_canon_fixed; exact H4].
      * apply Hx; assumption.
Qed.

(** For every tree Python can represent, the text round trip is the identity EXACTLY on the
    well-formed trees: the hypothesis of [json_parse_print] cannot be weakened. *)
Theorem json_roundtrip_iff t :
  json_cp_ok t = true -> (json_parse (json_print t) = Some t <-> json_wf t).
Proof.
  intros Hok. split.
  - rewrite json_parse_print_canon by exact Hok. intros [= H].
    apply json_canon_fixed_wf; assumption.
  - apply json_parse_print.
Qed.
(** * The round trip lands in the well-formed trees, so it is idempotent *)

Lemma join_sur_le h l : is_high h = true -> is_low l = true -> join_sur h l <= max_cp.
Proof.
  intros Hh Hl. apply is_high_range in Hh. apply is_low_range in Hl.
  unfold join_sur, max_cp. lia.
Qed.

(** the head of [str_canon (c :: s)] is [c] or an astral code point *)
Lemma str_canon_head c s :
  exists d r, str_canon (c :: s) = d :: r /\ (d = c \/ 65536 <= d).
Proof.
  cbn [str_canon]. destruct s as [|l r]; [eexists; eexists; split; [reflexivity|left; reflexivity]|].
  destruct (is_high c && is_low l).
  - eexists; eexists; split; [reflexivity|right; apply join_sur_big].
  - eexists; eexists; split; [reflexivity|left; reflexivity].
Qed.

Lemma str_canon_cons2 h l r :
  str_canon (h :: l :: r) =
  if is_high h && is_low l then join_sur h l :: str_canon r else h :: str_canon (l :: r).
Proof. reflexivity. Qed.

Lemma str_canon_wfb_len n : forall s, (length s <= n)%nat -> str_cp_ok s = true ->
  str_cp_ok (str_canon s) = true /\ str_no_pair (str_canon s) = true.
Proof.
  induction n as [|n IH]; intros s Hlen Hok.
  - destruct s; [split; reflexivity|simpl in Hlen; lia].
  - destruct s as [|h s]; [split; reflexivity|].
    apply str_cp_ok_cons in Hok. destruct Hok as [Hh Hok]. simpl in Hlen.
    destruct s as [|l r].
    + cbn [str_canon]. split; [apply str_cp_ok_cons; split; [exact Hh|reflexivity]|].
      cbn [str_no_pair]. rewrite andb_false_r. reflexivity.
    + pose proof Hok as Hok'. apply str_cp_ok_cons in Hok'. destruct Hok' as [Hl Hokr].
      rewrite str_canon_cons2. destruct (is_high h && is_low l) eqn:E.
      * apply andb_true_iff in E. destruct E as [E1 E2].
        destruct (IH r) as [I1 I2]; [simpl in Hlen; lia|exact Hokr|].
        split; [apply str_cp_ok_cons; split; [apply join_sur_le; assumption|exact I1]|].
        cbn [str_no_pair]. rewrite I2, andb_true_r. apply negb_true_iff.
        replace (is_high (join_sur h l)) with false; [reflexivity|].
        symmetry. apply is_high_false. right. pose proof (join_sur_big h l). lia.
      * destruct (IH (l :: r)) as [I1 I2]; [simpl in Hlen |- *; lia|exact Hok|].
        split; [apply str_cp_ok_cons; split; assumption|].
        destruct (str_canon_head l r) as (d & r' & Ed & Hd). rewrite Ed in *.
        change (str_no_pair (h :: d :: r'))
          with (negb (is_high h && is_low d) && str_no_pair (d :: r')).
        rewrite I2, andb_true_r. apply negb_true_iff.
        destruct Hd as [->|Hd]; [exact E|].
        replace (is_low d) with false; [apply andb_false_r|].
        symmetry. apply is_low_false. right. lia.
Qed.

Lemma str_canon_wfb s : str_cp_ok s = true -> str_wfb (str_canon s) = true.
Proof.
  intros H. apply str_wfb_split. apply (str_canon_wfb_len (length s)); [apply le_n|exact H].
Qed.

Lemma fold_upsert_in ps : forall acc kv,
  In kv (fold_left upsert_step ps acc) -> In kv acc \/ In kv ps.
Proof.
  induction ps as [|[k v] ps IH]; intros acc kv Hin; cbn [fold_left] in Hin; [left; exact Hin|].
  destruct (IH _ _ Hin) as [H|H]; [|right; right; exact H].
  change (upsert_step acc (k, v)) with (upsert k v acc) in H.
  clear - H. induction acc as [|[k' v'] acc IHa].
  - cbn [upsert] in H. destruct H as [<-|[]]. right; left; reflexivity.
  - cbn [upsert] in H. destruct (name_eqb k k').
    + destruct H as [<-|H]; [right; left; reflexivity|left; right; exact H].
    + destruct H as [<-|H]; [left; left; reflexivity|].
      destruct (IHa H) as [H'|H']; [left; right; exact H'|right; exact H'].
Qed.

Lemma dict_of_pairs_in ps kv : In kv (dict_of_pairs ps) -> In kv ps.
Proof.
  rewrite dict_of_pairs_fold. intros H. destruct (fold_upsert_in _ _ _ H) as [[]|H']; exact H'.
Qed.

Lemma json_canon_wfb t : json_cp_ok t = true -> json_wfb (json_canon t) = true.
Proof.
  induction t as [|b|z|s|l IH|l IH] using jt_json_ind; intros Hok; try reflexivity.
  - cbn [json_canon json_wfb json_cp_ok] in *. apply str_canon_wfb; exact Hok.
  - cbn [json_canon]. apply cp_ok_list in Hok. apply wfb_list.
    induction IH as [|x l Hx _ IHl]; [constructor|].
    inversion Hok; subst. cbn [map]. constructor; auto.
  - rewrite json_canon_obj. apply cp_ok_obj in Hok. apply wfb_obj.
    split; [apply dict_of_pairs_keys_nodup|].
    apply Forall_forall. intros kv Hin. apply dict_of_pairs_in in Hin.
    apply in_map_iff in Hin. destruct Hin as ([k v] & <- & Hin).
    rewrite Forall_forall in IH, Hok. specialize (IH _ Hin). destruct (Hok _ Hin) as [H1 H2].
    cbn [fst snd canon_member] in *. split; [apply str_canon_wfb; exact H1|apply IH; exact H2].
Qed.

(** doing the text round trip twice is the same as doing it once *)
Theorem json_canon_idempotent t :
  json_cp_ok t = true -> json_canon (json_canon t) = json_canon t.
Proof. intros Hok. apply json_canon_wf. apply json_canon_wfb. exact Hok. Qed.

Theorem json_roundtrip_idempotent t t' :
  json_cp_ok t = true -> json_parse (json_print t) = Some t' ->
  json_parse (json_print t') = Some t'.
Proof.
  intros Hok H. rewrite json_parse_print_canon in H by exact Hok. injection H as <-.
  apply json_parse_print. apply json_canon_wfb. exact Hok.
Qed.
(** * Non-vacuity, refutations without the hypotheses, examples pinned to CPython 3.12.1 *)

(** a non-trivial well-formed tree: nested objects and lists, escapes, an astral character, a
    LONE surrogate (allowed), a large and a negative integer, empty containers, keys with a
    quote, a backslash and a newline *)
Definition ex_tree : json :=
  JObj [([110; 111; 100; 101; 115],
         JObj [([97], JObj [([105; 100], JStr [97]); ([109; 101; 116; 97], JObj [])])]);
        ([97; 34; 98], JList [JInt 1; JInt (-2); JBool true; JBool false; JNull; JList []]);
        ([99; 92; 100], JStr [120; 34; 92; 10; 13; 9; 8; 12; 0; 31; 127; 233; 8364; 128512]);
        ([101; 10; 102], JStr [55296; 65]);
        ([], JInt 1234567890123456789012345678901234567890)].

Example ex_tree_wf : json_wf ex_tree.
Proof. vm_compute. reflexivity. Qed.

Example ex_tree_roundtrip : json_parse (json_print ex_tree) = Some ex_tree.
Proof. apply json_parse_print. exact ex_tree_wf. Qed.

Example ex_tree_roundtrip_computed : json_parse (json_print ex_tree) = Some ex_tree.
Proof. vm_compute. reflexivity. Qed.

(** the statement without the surrogate-pair / distinct-key hypotheses *)
Definition json_parse_print_unconditional_statement : Prop :=
  forall t, json_cp_ok t = true -> json_parse (json_print t) = Some t.

(** json.loads(json.dumps('\ud800\udc00')) == '\U00010000' *)
Theorem json_parse_print_surrogate_pair_refuted :
  exists t, json_cp_ok t = true /\ json_parse (json_print t) <> Some t.
Proof. exists (JStr [55296; 56320]). split; [reflexivity|]. vm_compute. discriminate. Qed.

Corollary json_parse_print_unconditional_refuted : ~ json_parse_print_unconditional_statement.
Proof.
  intros H. destruct json_parse_print_surrogate_pair_refuted as (t & Hok & Hne).
  apply Hne, H, Hok.
Qed.

(** an object tree with a repeated key (not a Python dict, but a value of the tree type) *)
Theorem json_parse_print_dupkey_refuted :
  exists t, json_cp_ok t = true /\ json_parse (json_print t) <> Some t.
Proof.
  exists (JObj [([97], JInt 1); ([97], JInt 2)]). split; [reflexivity|]. vm_compute. discriminate.
Qed.

(** a genuine Python dict with two DISTINCT keys that the text round trip merges:
    json.loads(json.dumps({'\ud800\udc00': 1, '\U00010000': 2})) == {'\U00010000': 2} *)
Theorem json_roundtrip_merges_distinct_keys :
  exists t t', json_cp_ok t = true /\
    (match t with JObj l => keys_nodupb (map fst l) = true | _ => False end) /\
    json_parse (json_print t) = Some t' /\ t' = JObj [([65536], JInt 2)].
Proof.
  exists (JObj [([55296; 56320], JInt 1); ([65536], JInt 2)]). eexists.
  split; [reflexivity|]. split; [reflexivity|]. split; [vm_compute; reflexivity|reflexivity].
Qed.

(** without well-formedness [json_print] is not injective:
    json.dumps('\ud800\udc00') == json.dumps('\U00010000') *)
Theorem json_print_not_injective :
  exists t1 t2, json_cp_ok t1 = true /\ json_cp_ok t2 = true /\ t1 <> t2 /\
                json_print t1 = json_print t2.
Proof.
  exists (JStr [55296; 56320]), (JStr [65536]).
  split; [reflexivity|]. split; [reflexivity|]. split; [discriminate|reflexivity].
Qed.

(** beyond U+10FFFF (not a Python [str]) the printed escapes wrap around *)
Example ex_out_of_range : json_parse (json_print (JStr [1114112])) = Some (JStr [65536]).
Proof. vm_compute. reflexivity. Qed.

(** the integer conversion limit is NOT part of the model: a 4301-digit integer still round
    trips here, whereas json.dumps(10**4300) raises ValueError in CPython >= 3.11 *)
Example ex_int_limit :
  int_in_py_domain (10 ^ 4299) = true /\ int_in_py_domain (10 ^ 4300) = false.
Proof. vm_compute. split; reflexivity. Qed.

(* json.dumps({'nodes': {'a': {'identifier': 'a', 'meta': {}}}, 'edges': {}, 'l': [1, -2, True, False, None, []]}) = '{''nodes'': {''a'': {''identifier'': ''a'', ''meta'': {}}}, ''edges'': {}, ''l'': [1, -2, true, false, null, []]}' *)
Example ex_print_nested :
  json_print (JObj [([110; 111; 100; 101; 115], JObj [([97], JObj [([105; 100; 101; 110; 116; 105; 102; 105; 101; 114], JStr [97]); ([109; 101; 116; 97], JObj [])])]); ([101; 100; 103; 101; 115], JObj []); ([108], JList [JInt (1)%Z; JInt (-2)%Z; JBool true; JBool false; JNull; JList []])])
  = [123; 34; 110; 111; 100; 101; 115; 34; 58; 32; 123; 34; 97; 34; 58; 32; 123; 34; 105; 100; 101; 110; 116; 105; 102; 105; 101; 114; 34; 58; 32; 34; 97; 34; 44; 32; 34; 109; 101; 116; 97; 34; 58; 32; 123; 125; 125; 125; 44; 32; 34; 101; 100; 103; 101; 115; 34; 58; 32; 123; 125; 44; 32; 34; 108; 34; 58; 32; 91; 49; 44; 32; 45; 50; 44; 32; 116; 114; 117; 101; 44; 32; 102; 97; 108; 115; 101; 44; 32; 110; 117; 108; 108; 44; 32; 91; 93; 93; 125].
Proof. vm_compute. reflexivity. Qed.
Example ex_parse_nested :
  json_parse [123; 34; 110; 111; 100; 101; 115; 34; 58; 32; 123; 34; 97; 34; 58; 32; 123; 34; 105; 100; 101; 110; 116; 105; 102; 105; 101; 114; 34; 58; 32; 34; 97; 34; 44; 32; 34; 109; 101; 116; 97; 34; 58; 32; 123; 125; 125; 125; 44; 32; 34; 101; 100; 103; 101; 115; 34; 58; 32; 123; 125; 44; 32; 34; 108; 34; 58; 32; 91; 49; 44; 32; 45; 50; 44; 32; 116; 114; 117; 101; 44; 32; 102; 97; 108; 115; 101; 44; 32; 110; 117; 108; 108; 44; 32; 91; 93; 93; 125]
  = Some (JObj [([110; 111; 100; 101; 115], JObj [([97], JObj [([105; 100; 101; 110; 116; 105; 102; 105; 101; 114], JStr [97]); ([109; 101; 116; 97], JObj [])])]); ([101; 100; 103; 101; 115], JObj []); ([108], JList [JInt (1)%Z; JInt (-2)%Z; JBool true; JBool false; JNull; JList []])]).
Proof. vm_compute. reflexivity. Qed.
(* json.dumps('x''\\\n\r\t\x08\x0c\x00\x1f\x7f/') = '''x\\''\\\\\\n\\r\\t\\b\\f\\u0000\\u001f\\u007f/''' *)
Example ex_print_escapes :
  json_print (JStr [120; 34; 92; 10; 13; 9; 8; 12; 0; 31; 127; 47])
  = [34; 120; 92; 34; 92; 92; 92; 110; 92; 114; 92; 116; 92; 98; 92; 102; 92; 117; 48; 48; 48; 48; 92; 117; 48; 48; 49; 102; 92; 117; 48; 48; 55; 102; 47; 34].
Proof. vm_compute. reflexivity. Qed.
Example ex_parse_escapes :
  json_parse [34; 120; 92; 34; 92; 92; 92; 110; 92; 114; 92; 116; 92; 98; 92; 102; 92; 117; 48; 48; 48; 48; 92; 117; 48; 48; 49; 102; 92; 117; 48; 48; 55; 102; 47; 34]
  = Some (JStr [120; 34; 92; 10; 13; 9; 8; 12; 0; 31; 127; 47]).
Proof. vm_compute. reflexivity. Qed.
(* json.dumps(['\xe9', '\u20ac', '\uffff', '\U00010000', '\U0001f600', '\U0010ffff']) = '[''\\u00e9'', ''\\u20ac'', ''\\uffff'', ''\\ud800\\udc00'', ''\\ud83d\\ude00'', ''\\udbff\\udfff'']' *)
Example ex_print_unicode :
  json_print (JList [JStr [233]; JStr [8364]; JStr [65535]; JStr [65536]; JStr [128512]; JStr [1114111]])
  = [91; 34; 92; 117; 48; 48; 101; 57; 34; 44; 32; 34; 92; 117; 50; 48; 97; 99; 34; 44; 32; 34; 92; 117; 102; 102; 102; 102; 34; 44; 32; 34; 92; 117; 100; 56; 48; 48; 92; 117; 100; 99; 48; 48; 34; 44; 32; 34; 92; 117; 100; 56; 51; 100; 92; 117; 100; 101; 48; 48; 34; 44; 32; 34; 92; 117; 100; 98; 102; 102; 92; 117; 100; 102; 102; 102; 34; 93].
Proof. vm_compute. reflexivity. Qed.
Example ex_parse_unicode :
  json_parse [91; 34; 92; 117; 48; 48; 101; 57; 34; 44; 32; 34; 92; 117; 50; 48; 97; 99; 34; 44; 32; 34; 92; 117; 102; 102; 102; 102; 34; 44; 32; 34; 92; 117; 100; 56; 48; 48; 92; 117; 100; 99; 48; 48; 34; 44; 32; 34; 92; 117; 100; 56; 51; 100; 92; 117; 100; 101; 48; 48; 34; 44; 32; 34; 92; 117; 100; 98; 102; 102; 92; 117; 100; 102; 102; 102; 34; 93]
  = Some (JList [JStr [233]; JStr [8364]; JStr [65535]; JStr [65536]; JStr [128512]; JStr [1114111]]).
Proof. vm_compute. reflexivity. Qed.
(* json.dumps(['\ud800', '\udfff', '\udc00\ud800', '\ud800A']) = '[''\\ud800'', ''\\udfff'', ''\\udc00\\ud800'', ''\\ud800A'']' *)
Example ex_print_lone_surrogates :
  json_print (JList [JStr [55296]; JStr [57343]; JStr [56320; 55296]; JStr [55296; 65]])
  = [91; 34; 92; 117; 100; 56; 48; 48; 34; 44; 32; 34; 92; 117; 100; 102; 102; 102; 34; 44; 32; 34; 92; 117; 100; 99; 48; 48; 92; 117; 100; 56; 48; 48; 34; 44; 32; 34; 92; 117; 100; 56; 48; 48; 65; 34; 93].
Proof. vm_compute. reflexivity. Qed.
Example ex_parse_lone_surrogates :
  json_parse [91; 34; 92; 117; 100; 56; 48; 48; 34; 44; 32; 34; 92; 117; 100; 102; 102; 102; 34; 44; 32; 34; 92; 117; 100; 99; 48; 48; 92; 117; 100; 56; 48; 48; 34; 44; 32; 34; 92; 117; 100; 56; 48; 48; 65; 34; 93]
  = Some (JList [JStr [55296]; JStr [57343]; JStr [56320; 55296]; JStr [55296; 65]]).
Proof. vm_compute. reflexivity. Qed.
(* json.dumps([0, -1, 10, -10, 1234567890123456789012345678901234567890, -9223372036854775808, 18446744073709551616]) = '[0, -1, 10, -10, 1234567890123456789012345678901234567890, -9223372036854775808, 18446744073709551616]' *)
Example ex_print_ints :
  json_print (JList [JInt (0)%Z; JInt (-1)%Z; JInt (10)%Z; JInt (-10)%Z; JInt (1234567890123456789012345678901234567890)%Z; JInt (-9223372036854775808)%Z; JInt (18446744073709551616)%Z])
  = [91; 48; 44; 32; 45; 49; 44; 32; 49; 48; 44; 32; 45; 49; 48; 44; 32; 49; 50; 51; 52; 53; 54; 55; 56; 57; 48; 49; 50; 51; 52; 53; 54; 55; 56; 57; 48; 49; 50; 51; 52; 53; 54; 55; 56; 57; 48; 49; 50; 51; 52; 53; 54; 55; 56; 57; 48; 44; 32; 45; 57; 50; 50; 51; 51; 55; 50; 48; 51; 54; 56; 53; 52; 55; 55; 53; 56; 48; 56; 44; 32; 49; 56; 52; 52; 54; 55; 52; 52; 48; 55; 51; 55; 48; 57; 53; 53; 49; 54; 49; 54; 93].
Proof. vm_compute. reflexivity. Qed.
Example ex_parse_ints :
  json_parse [91; 48; 44; 32; 45; 49; 44; 32; 49; 48; 44; 32; 45; 49; 48; 44; 32; 49; 50; 51; 52; 53; 54; 55; 56; 57; 48; 49; 50; 51; 52; 53; 54; 55; 56; 57; 48; 49; 50; 51; 52; 53; 54; 55; 56; 57; 48; 49; 50; 51; 52; 53; 54; 55; 56; 57; 48; 44; 32; 45; 57; 50; 50; 51; 51; 55; 50; 48; 51; 54; 56; 53; 52; 55; 55; 53; 56; 48; 56; 44; 32; 49; 56; 52; 52; 54; 55; 52; 52; 48; 55; 51; 55; 48; 57; 53; 53; 49; 54; 49; 54; 93]
  = Some (JList [JInt (0)%Z; JInt (-1)%Z; JInt (10)%Z; JInt (-10)%Z; JInt (1234567890123456789012345678901234567890)%Z; JInt (-9223372036854775808)%Z; JInt (18446744073709551616)%Z]).
Proof. vm_compute. reflexivity. Qed.
(* json.dumps([{}, [], '', [[]], {'': {}}]) = '[{}, [], '''', [[]], {'''': {}}]' *)
Example ex_print_empty :
  json_print (JList [JObj []; JList []; JStr []; JList [JList []]; JObj [([], JObj [])]])
  = [91; 123; 125; 44; 32; 91; 93; 44; 32; 34; 34; 44; 32; 91; 91; 93; 93; 44; 32; 123; 34; 34; 58; 32; 123; 125; 125; 93].
Proof. vm_compute. reflexivity. Qed.
Example ex_parse_empty :
  json_parse [91; 123; 125; 44; 32; 91; 93; 44; 32; 34; 34; 44; 32; 91; 91; 93; 93; 44; 32; 123; 34; 34; 58; 32; 123; 125; 125; 93]
  = Some (JList [JObj []; JList []; JStr []; JList [JList []]; JObj [([], JObj [])]]).
Proof. vm_compute. reflexivity. Qed.
(* json.dumps({'a''b': 1, 'c\\d': 2, 'e\nf': 3, '\U0001f600': 4, ' ': 5}) = '{''a\\''b'': 1, ''c\\\\d'': 2, ''e\\nf'': 3, ''\\ud83d\\ude00'': 4, '' '': 5}' *)
Example ex_print_keys :
  json_print (JObj [([97; 34; 98], JInt (1)%Z); ([99; 92; 100], JInt (2)%Z); ([101; 10; 102], JInt (3)%Z); ([128512], JInt (4)%Z); ([32], JInt (5)%Z)])
  = [123; 34; 97; 92; 34; 98; 34; 58; 32; 49; 44; 32; 34; 99; 92; 92; 100; 34; 58; 32; 50; 44; 32; 34; 101; 92; 110; 102; 34; 58; 32; 51; 44; 32; 34; 92; 117; 100; 56; 51; 100; 92; 117; 100; 101; 48; 48; 34; 58; 32; 52; 44; 32; 34; 32; 34; 58; 32; 53; 125].
Proof. vm_compute. reflexivity. Qed.
Example ex_parse_keys :
  json_parse [123; 34; 97; 92; 34; 98; 34; 58; 32; 49; 44; 32; 34; 99; 92; 92; 100; 34; 58; 32; 50; 44; 32; 34; 101; 92; 110; 102; 34; 58; 32; 51; 44; 32; 34; 92; 117; 100; 56; 51; 100; 92; 117; 100; 101; 48; 48; 34; 58; 32; 52; 44; 32; 34; 32; 34; 58; 32; 53; 125]
  = Some (JObj [([97; 34; 98], JInt (1)%Z); ([99; 92; 100], JInt (2)%Z); ([101; 10; 102], JInt (3)%Z); ([128512], JInt (4)%Z); ([32], JInt (5)%Z)]).
Proof. vm_compute. reflexivity. Qed.
(* json.dumps(None) = 'null' *)
Example ex_print_atoms_null :
  json_print (JNull)
  = [110; 117; 108; 108].
Proof. vm_compute. reflexivity. Qed.
Example ex_parse_atoms_null :
  json_parse [110; 117; 108; 108]
  = Some (JNull).
Proof. vm_compute. reflexivity. Qed.
(* json.dumps(True) = 'true' *)
Example ex_print_atoms_true :
  json_print (JBool true)
  = [116; 114; 117; 101].
Proof. vm_compute. reflexivity. Qed.
Example ex_parse_atoms_true :
  json_parse [116; 114; 117; 101]
  = Some (JBool true).
Proof. vm_compute. reflexivity. Qed.
(* json.dumps(False) = 'false' *)
Example ex_print_atoms_false :
  json_print (JBool false)
  = [102; 97; 108; 115; 101].
Proof. vm_compute. reflexivity. Qed.
Example ex_parse_atoms_false :
  json_parse [102; 97; 108; 115; 101]
  = Some (JBool false).
Proof. vm_compute. reflexivity. Qed.
(* json.dumps(0) = '0' *)
Example ex_print_atom_int :
  json_print (JInt (0)%Z)
  = [48].
Proof. vm_compute. reflexivity. Qed.
Example ex_parse_atom_int :
  json_parse [48]
  = Some (JInt (0)%Z).
Proof. vm_compute. reflexivity. Qed.
(* json.dumps('') = '''''' *)
Example ex_print_atom_str :
  json_print (JStr [])
  = [34; 34].
Proof. vm_compute. reflexivity. Qed.
Example ex_parse_atom_str :
  json_parse [34; 34]
  = Some (JStr []).
Proof. vm_compute. reflexivity. Qed.
(* json.loads(' {\n ''a'' : [ 1 ,\t2 ] ,\r\n ''b'' : { } }\n'): {'a': [1, 2], 'b': {}} *)
Example ex_loads_ws :
  json_parse [32; 123; 10; 32; 34; 97; 34; 32; 58; 32; 91; 32; 49; 32; 44; 9; 50; 32; 93; 32; 44; 13; 10; 32; 34; 98; 34; 32; 58; 32; 123; 32; 125; 32; 125; 10]
  = Some (JObj [([97], JList [JInt (1)%Z; JInt (2)%Z]); ([98], JObj [])]).
Proof. vm_compute. reflexivity. Qed.
(* json.loads('{''a'': 1, ''b'': 2, ''a'': 3}'): {'a': 3, 'b': 2} *)
Example ex_loads_dupkeys :
  json_parse [123; 34; 97; 34; 58; 32; 49; 44; 32; 34; 98; 34; 58; 32; 50; 44; 32; 34; 97; 34; 58; 32; 51; 125]
  = Some (JObj [([97], JInt (3)%Z); ([98], JInt (2)%Z)]).
Proof. vm_compute. reflexivity. Qed.
(* json.loads('''\\uD83D\\uDE00\\u00E9\\/'''): '\U0001f600\xe9/' *)
Example ex_loads_upper_hex :
  json_parse [34; 92; 117; 68; 56; 51; 68; 92; 117; 68; 69; 48; 48; 92; 117; 48; 48; 69; 57; 92; 47; 34]
  = Some (JStr [128512; 233; 47]).
Proof. vm_compute. reflexivity. Qed.
(* json.loads('''\xe9\U0001f600\x7f'''): '\xe9\U0001f600\x7f' *)
Example ex_loads_raw_unicode :
  json_parse [34; 233; 128512; 127; 34]
  = Some (JStr [233; 128512; 127]).
Proof. vm_compute. reflexivity. Qed.
(* json.loads('[-0]'): [0] *)
Example ex_loads_minus_zero :
  json_parse [91; 45; 48; 93]
  = Some (JList [JInt (0)%Z]).
Proof. vm_compute. reflexivity. Qed.
(* json.loads('''\\ud800\\udc00'''): '\U00010000' *)
Example ex_loads_pair_joined :
  json_parse [34; 92; 117; 100; 56; 48; 48; 92; 117; 100; 99; 48; 48; 34]
  = Some (JStr [65536]).
Proof. vm_compute. reflexivity. Qed.
(* json.loads('''\ud800\\udc00'''): '\ud800\udc00' *)
Example ex_loads_raw_high_esc_low :
  json_parse [34; 55296; 92; 117; 100; 99; 48; 48; 34]
  = Some (JStr [55296; 56320]).
Proof. vm_compute. reflexivity. Qed.
(* json.loads('''\x1f'''): raises JSONDecodeError *)
Example ex_loads_bad_ctrl :
  json_parse [34; 31; 34]
  = None.
Proof. vm_compute. reflexivity. Qed.
(* json.loads('01'): raises JSONDecodeError *)
Example ex_loads_bad_lead0 :
  json_parse [48; 49]
  = None.
Proof. vm_compute. reflexivity. Qed.
(* json.loads('1.5'): 1.5 *)
Example ex_loads_bad_float :
  json_parse [49; 46; 53]
  = None.
Proof. vm_compute. reflexivity. Qed.
(* json.loads('1e5'): 100000.0 *)
Example ex_loads_bad_exp :
  json_parse [49; 101; 53]
  = None.
Proof. vm_compute. reflexivity. Qed.
(* json.loads('NaN'): nan *)
Example ex_loads_bad_nan :
  json_parse [78; 97; 78]
  = None.
Proof. vm_compute. reflexivity. Qed.
(* json.loads('[1,]'): raises JSONDecodeError *)
Example ex_loads_bad_trailing_comma :
  json_parse [91; 49; 44; 93]
  = None.
Proof. vm_compute. reflexivity. Qed.
(* json.loads('{''a'':1,}'): raises JSONDecodeError *)
Example ex_loads_bad_trailing_comma_obj :
  json_parse [123; 34; 97; 34; 58; 49; 44; 125]
  = None.
Proof. vm_compute. reflexivity. Qed.
(* json.loads('\ufeff1'): raises JSONDecodeError *)
Example ex_loads_bad_bom :
  json_parse [65279; 49]
  = None.
Proof. vm_compute. reflexivity. Qed.
(* json.loads('\x0c1'): raises JSONDecodeError *)
Example ex_loads_bad_ff :
  json_parse [12; 49]
  = None.
Proof. vm_compute. reflexivity. Qed.
(* json.loads('true false'): raises JSONDecodeError *)
Example ex_loads_bad_extra :
  json_parse [116; 114; 117; 101; 32; 102; 97; 108; 115; 101]
  = None.
Proof. vm_compute. reflexivity. Qed.
(* json.loads(''): raises JSONDecodeError *)
Example ex_loads_bad_empty :
  json_parse []
  = None.
Proof. vm_compute. reflexivity. Qed.
(* json.loads('''\\a'''): raises JSONDecodeError *)
Example ex_loads_bad_escape :
  json_parse [34; 92; 97; 34]
  = None.
Proof. vm_compute. reflexivity. Qed.
(* json.loads('''\\u12g4'''): raises JSONDecodeError *)
Example ex_loads_bad_hex :
  json_parse [34; 92; 117; 49; 50; 103; 52; 34]
  = None.
Proof. vm_compute. reflexivity. Qed.
(* json.loads('''abc'): raises JSONDecodeError *)
Example ex_loads_bad_unterminated :
  json_parse [34; 97; 98; 99]
  = None.
Proof. vm_compute. reflexivity. Qed.
(* json.loads('{1: 1}'): raises JSONDecodeError *)
Example ex_loads_bad_key :
  json_parse [123; 49; 58; 32; 49; 125]
  = None.
Proof. vm_compute. reflexivity. Qed.
(* json.loads('-'): raises JSONDecodeError *)
Example ex_loads_bad_minus :
  json_parse [45]
  = None.
Proof. vm_compute. reflexivity. Qed.
(* json.loads('+1'): raises JSONDecodeError *)
Example ex_loads_bad_plus :
  json_parse [43; 49]
  = None.
Proof. vm_compute. reflexivity. Qed.
(* json.loads('-Infinity'): -inf *)
Example ex_loads_bad_neg_inf :
  json_parse [45; 73; 110; 102; 105; 110; 105; 116; 121]
  = None.
Proof. vm_compute. reflexivity. Qed.
(** * Every whitespace layout of the same tokens parses to the same tree

    [lay t s]: [s] is the token sequence of [json_print t] with an arbitrary run of JSON
    whitespace (space, tab, LF, CR) after ['['], ['{'], [','], [':'] and before [']'], ['}'],
    [','], [':'] — what [json.dumps] writes with [indent=...] and/or separators that differ
    from the default ones by whitespace only. *)

Definition wsb (w : list N) : bool := forallb is_ws w.

Inductive lay : json -> list N -> Prop :=
| lay_null : lay JNull s_null
| lay_bool b : lay (JBool b) (if b then s_true else s_false)
| lay_int z : lay (JInt z) (print_Z z)
| lay_str s : lay (JStr s) (print_string s)
| lay_list_nil w : wsb w = true -> lay (JList []) (91 :: w ++ [93])
| lay_list_cons x l w body :
    wsb w = true -> lay_elems (x :: l) body -> lay (JList (x :: l)) (91 :: w ++ body)
| lay_obj_nil w : wsb w = true -> lay (JObj []) (123 :: w ++ [125])
| lay_obj_cons kv l w body :
    wsb w = true -> lay_members (kv :: l) body -> lay (JObj (kv :: l)) (123 :: w ++ body)
with lay_elems : list json -> list N -> Prop :=
| le_last x sx w : lay x sx -> wsb w = true -> lay_elems [x] (sx ++ w ++ [93])
| le_more x sx w1 w2 y l body :
    lay x sx -> wsb w1 = true -> wsb w2 = true -> lay_elems (y :: l) body ->
    lay_elems (x :: y :: l) (sx ++ w1 ++ 44 :: w2 ++ body)
with lay_members : list (name * json) -> list N -> Prop :=
| lm_last k v sv w1 w2 w3 :
    lay v sv -> wsb w1 = true -> wsb w2 = true -> wsb w3 = true ->
    lay_members [(k, v)] (print_string k ++ w1 ++ 58 :: w2 ++ sv ++ w3 ++ [125])
| lm_more k v sv w1 w2 w3 w4 y l body :
    lay v sv -> wsb w1 = true -> wsb w2 = true -> wsb w3 = true -> wsb w4 = true ->
    lay_members (y :: l) body ->
    lay_members ((k, v) :: y :: l)
      (print_string k ++ w1 ++ 58 :: w2 ++ sv ++ w3 ++ 44 :: w4 ++ body).

Scheme lay_mind := Minimality for lay Sort Prop
  with lay_elems_mind := Minimality for lay_elems Sort Prop
  with lay_members_mind := Minimality for lay_members Sort Prop.
Combined Scheme lay_mutind from lay_mind, lay_elems_mind, lay_members_mind.

Lemma skip_ws_wsb w s : wsb w = true -> skip_ws (w ++ s) = skip_ws s.
Proof.
  induction w as [|c w IH]; intros H; [reflexivity|].
  cbn [wsb forallb] in H. apply andb_true_iff in H. destruct H as [Hc Hw].
  cbn [app skip_ws]. rewrite Hc. apply IH. exact Hw.
Qed.

Lemma skip_ws_nonws c r : is_ws c = false -> skip_ws (c :: r) = c :: r.
Proof. intros H. cbn [skip_ws]. rewrite H. reflexivity. Qed.

Lemma wsb_delim_ok w rest : wsb w = true -> delim_ok rest = true -> delim_ok (w ++ rest) = true.
Proof.
  destruct w as [|c w]; intros Hw Hr; [exact Hr|].
  cbn [wsb forallb] in Hw. apply andb_true_iff in Hw. destruct Hw as [Hc _].
  cbn [app delim_ok]. destruct (is_ws_cases _ Hc) as [-> | [-> | [-> | ->]]]; reflexivity.
Qed.

Lemma parse_elems_last_ws f s v r rest :
  parse_value f s = Some (v, r) -> skip_ws r = 93 :: rest ->
  parse_elems (S f) s = Some ([v], rest).
Proof. intros H1 H2. cbn [parse_elems]. rewrite H1, H2. reflexivity. Qed.

Lemma parse_elems_more_ws f s v r r1 l rest :
  parse_value f s = Some (v, r) -> skip_ws r = 44 :: r1 ->
  parse_elems f (skip_ws r1) = Some (l, rest) ->
  parse_elems (S f) s = Some (v :: l, rest).
Proof.
  intros H1 H2 H3. cbn [parse_elems]. rewrite H1, H2.
  change (44 =? 93) with false. change (44 =? 44) with true. cbn iota. rewrite H3. reflexivity.
Qed.

Lemma parse_members_last_ws f r0 k r r1 v r2 rest :
  scan_string r0 = Some (k, r) -> skip_ws r = 58 :: r1 ->
  parse_value f (skip_ws r1) = Some (v, r2) -> skip_ws r2 = 125 :: rest ->
  parse_members (S f) (34 :: r0) = Some ([(k, v)], rest).
Proof.
  intros H1 H2 H3 H4. cbn [parse_members]. change (34 =? 34) with true. cbn iota.
  rewrite H1, H2. change (58 =? 58) with true. cbn iota. rewrite H3, H4. reflexivity.
Qed.

Lemma parse_members_more_ws f r0 k r r1 v r2 r3 ps rest :
  scan_string r0 = Some (k, r) -> skip_ws r = 58 :: r1 ->
  parse_value f (skip_ws r1) = Some (v, r2) -> skip_ws r2 = 44 :: r3 ->
  parse_members f (skip_ws r3) = Some (ps, rest) ->
  parse_members (S f) (34 :: r0) = Some ((k, v) :: ps, rest).
Proof.
  intros H1 H2 H3 H4 H5. cbn [parse_members]. change (34 =? 34) with true. cbn iota.
  rewrite H1, H2. change (58 =? 58) with true. cbn iota. rewrite H3, H4.
  change (44 =? 125) with false. change (44 =? 44) with true. cbn iota. rewrite H5. reflexivity.
Qed.

(** heads *)
Lemma lay_heads :
  (forall t s, lay t s -> exists c r, s = c :: r /\ is_start c = true) /\
  (forall l s, lay_elems l s -> exists c r, s = c :: r /\ is_start c = true) /\
  (forall l s, lay_members l s -> exists r, s = 34 :: r).
Proof.
  apply lay_mutind.
  - eexists; eexists; split; reflexivity.
  - intros [|]; eexists; eexists; split; reflexivity.
  - intros z. destruct (print_head (JInt z)) as (c & r & E & H). exists c, r. auto.
  - intros s. eexists; eexists; split; reflexivity.
  - intros; eexists; eexists; split; reflexivity.
  - intros; eexists; eexists; split; reflexivity.
  - intros; eexists; eexists; split; reflexivity.
  - intros; eexists; eexists; split; reflexivity.
  - intros x sx w _ (c & r & -> & Hc) _. eexists; eexists; split; [reflexivity|exact Hc].
  - intros x sx w1 w2 y l body _ (c & r & -> & Hc) _ _ _ _.
    eexists; eexists; split; [reflexivity|exact Hc].
  - intros. eexists. reflexivity.
  - intros. eexists. reflexivity.
Qed.

Definition lay_value_ok (t : json) (s : list N) : Prop :=
  json_cp_ok t = true ->
  forall f rest, (jsize t <= f)%nat -> delim_ok rest = true ->
  parse_value f (s ++ rest) = Some (json_canon t, rest).
Definition lay_elems_ok (l : list json) (s : list N) : Prop :=
  Forall (fun x => json_cp_ok x = true) l ->
  forall f rest, (list_size l <= f)%nat ->
  parse_elems f (s ++ rest) = Some (map json_canon l, rest).
Definition lay_members_ok (l : list (name * json)) (s : list N) : Prop :=
  Forall (fun kv => str_cp_ok (fst kv) = true /\ json_cp_ok (snd kv) = true) l ->
  forall f rest, (obj_size l <= f)%nat ->
  parse_members f (s ++ rest) = Some (map canon_member l, rest).

Lemma skip_ws_lay_elems w l body rest :
  wsb w = true -> lay_elems l body -> skip_ws (w ++ body ++ rest) = body ++ rest.
Proof.
  intros Hw Hl. rewrite skip_ws_wsb by exact Hw.
  destruct (proj1 (proj2 lay_heads) _ _ Hl) as (c & r & -> & Hc). cbn [app].
  apply skip_ws_start; exact Hc.
Qed.

Lemma skip_ws_lay w t s rest :
  wsb w = true -> lay t s -> skip_ws (w ++ s ++ rest) = s ++ rest.
Proof.
  intros Hw Hl. rewrite skip_ws_wsb by exact Hw.
  destruct (proj1 lay_heads _ _ Hl) as (c & r & -> & Hc). cbn [app].
  apply skip_ws_start; exact Hc.
Qed.

Lemma skip_ws_lay_members w l body rest :
  wsb w = true -> lay_members l body -> skip_ws (w ++ body ++ rest) = body ++ rest.
Proof.
  intros Hw Hl. rewrite skip_ws_wsb by exact Hw.
  destruct (proj2 (proj2 lay_heads) _ _ Hl) as (r & ->). reflexivity.
Qed.

Lemma skip_ws_punct w c s :
  wsb w = true -> is_ws c = false -> skip_ws (w ++ c :: s) = c :: s.
Proof. intros Hw Hc. rewrite skip_ws_wsb by exact Hw. apply skip_ws_nonws; exact Hc. Qed.

Lemma lay_parse_all :
  (forall t s, lay t s -> lay_value_ok t s) /\
  (forall l s, lay_elems l s -> lay_elems_ok l s) /\
  (forall l s, lay_members l s -> lay_members_ok l s).
Proof.
  apply lay_mutind.
  - (* null *) intros _ f rest Hf _. destruct f as [|f]; [cbn in Hf; lia|]. reflexivity.
  - intros b _ f rest Hf _. destruct f as [|f]; [cbn in Hf; lia|]. destruct b; reflexivity.
  - intros z. exact (rt_value_all (JInt z)).
  - intros s. exact (rt_value_all (JStr s)).
  - (* [] *)
    intros w Hw _ f rest Hf _. destruct f as [|f]; [cbn in Hf; lia|].
    cbn [app]. rewrite <- app_assoc. cbn [app parse_value].
    change (91 =? 34) with false. change (91 =? 91) with true. cbn iota.
    rewrite (skip_ws_punct w 93 rest Hw eq_refl). reflexivity.
  - (* non-empty list *)
    intros x l w body Hw Hle IH Hok f rest Hf _.
    rewrite jsize_list in Hf. destruct f as [|f]; [lia|]. apply cp_ok_list in Hok.
    cbn [app]. rewrite <- app_assoc.
    destruct (proj1 (proj2 lay_heads) _ _ Hle) as (c & r & E & Hc).
    rewrite (parse_value_list f (w ++ body ++ rest) c (r ++ rest)).
    + change (c :: r ++ rest) with ((c :: r) ++ rest). rewrite <- E.
      rewrite (IH Hok f rest) by lia. reflexivity.
    + rewrite (skip_ws_lay_elems w _ body rest Hw Hle). rewrite E. reflexivity.
    + apply is_start_neq; [reflexivity|exact Hc].
  - (* {} *)
    intros w Hw _ f rest Hf _. destruct f as [|f]; [cbn in Hf; lia|].
    cbn [app]. rewrite <- app_assoc. cbn [app parse_value].
    change (123 =? 34) with false. change (123 =? 91) with false. change (123 =? 123) with true.
    cbn iota. rewrite (skip_ws_punct w 125 rest Hw eq_refl). reflexivity.
  - (* non-empty object *)
    intros kv l w body Hw Hlm IH Hok f rest Hf _.
    rewrite jsize_obj in Hf. destruct f as [|f]; [lia|]. apply cp_ok_obj in Hok.
    cbn [app]. rewrite <- app_assoc.
    destruct (proj2 (proj2 lay_heads) _ _ Hlm) as (r & E).
    rewrite (parse_value_obj f (w ++ body ++ rest) 34 (r ++ rest)).
    + change (34 :: r ++ rest) with ((34 :: r) ++ rest). rewrite <- E.
      rewrite (IH Hok f rest) by lia. rewrite json_canon_obj. reflexivity.
    + rewrite (skip_ws_lay_members w _ body rest Hw Hlm). rewrite E. reflexivity.
    + reflexivity.
  - (* last element *)
    intros x sx w Hx IHx Hw Hok f rest Hf.
    inversion Hok as [|? ? Hokx _]; subst. cbn [list_size] in Hf. destruct f as [|f]; [lia|].
    rewrite <- !app_assoc. cbn [map].
    eapply parse_elems_last_ws.
    + apply IHx; [exact Hokx|lia|]. apply wsb_delim_ok; [exact Hw|reflexivity].
    + cbn [app]. apply skip_ws_punct; [exact Hw|reflexivity].
  - (* more elements *)
    intros x sx w1 w2 y l body Hx IHx Hw1 Hw2 Hl IHl Hok f rest Hf.
    inversion Hok as [|? ? Hokx Hok']; subst.
    change (list_size (x :: y :: l)) with (S (jsize x) + list_size (y :: l))%nat in Hf.
    destruct f as [|f]; [lia|].
    rewrite <- !app_assoc. cbn [map].
    eapply parse_elems_more_ws.
    + apply IHx; [exact Hokx|lia|]. apply wsb_delim_ok; [exact Hw1|reflexivity].
    + cbn [app]. apply skip_ws_punct; [exact Hw1|reflexivity].
    + rewrite <- app_assoc. rewrite (skip_ws_lay_elems w2 _ body rest Hw2 Hl).
      apply IHl; [exact Hok'|lia].
  - (* last member *)
    intros k v sv w1 w2 w3 Hv IHv Hw1 Hw2 Hw3 Hok f rest Hf.
    inversion Hok as [|? ? [Hokk Hokv] _]; subst. cbn [fst snd] in Hokk, Hokv.
    cbn [obj_size] in Hf. destruct f as [|f]; [lia|].
    rewrite <- !app_assoc. cbn [map canon_member].
    destruct (scan_string_print_string k (w1 ++ (58 :: w2 ++ sv ++ w3 ++ [125]) ++ rest) Hokk)
      as (b & Eb & Hb).
    rewrite Eb.
    eapply parse_members_last_ws.
    + exact Hb.
    + cbn [app]. apply skip_ws_punct; [exact Hw1|reflexivity].
    + rewrite <- !app_assoc. rewrite (skip_ws_lay w2 _ sv _ Hw2 Hv).
      apply IHv; [exact Hokv|lia|]. apply wsb_delim_ok; [exact Hw3|reflexivity].
    + cbn [app]. apply skip_ws_punct; [exact Hw3|reflexivity].
  - (* more members *)
    intros k v sv w1 w2 w3 w4 y l body Hv IHv Hw1 Hw2 Hw3 Hw4 Hl IHl Hok f rest Hf.
    inversion Hok as [|? ? [Hokk Hokv] Hok']; subst. cbn [fst snd] in Hokk, Hokv.
    change (obj_size ((k, v) :: y :: l)) with (S (jsize v) + obj_size (y :: l))%nat in Hf.
    destruct f as [|f]; [lia|].
    rewrite <- !app_assoc. cbn [map canon_member].
    destruct (scan_string_print_string k
                (w1 ++ (58 :: w2 ++ sv ++ w3 ++ 44 :: w4 ++ body) ++ rest) Hokk)
      as (b & Eb & Hb).
    rewrite Eb.
    eapply parse_members_more_ws.
    + exact Hb.
    + cbn [app]. apply skip_ws_punct; [exact Hw1|reflexivity].
    + rewrite <- !app_assoc. rewrite (skip_ws_lay w2 _ sv _ Hw2 Hv).
      apply IHv; [exact Hokv|lia|]. apply wsb_delim_ok; [exact Hw3|reflexivity].
    + cbn [app]. apply skip_ws_punct; [exact Hw3|reflexivity].
    + rewrite <- !app_assoc. rewrite (skip_ws_lay_members w4 _ body rest Hw4 Hl).
      apply IHl; [exact Hok'|lia].
Qed.
Lemma lay_sizes :
  (forall t s, lay t s -> (jsize t <= length s)%nat) /\
  (forall l s, lay_elems l s -> (list_size l <= length s)%nat) /\
  (forall l s, lay_members l s -> (obj_size l <= length s)%nat).
Proof.
  apply lay_mutind.
  - cbn. lia.
  - intros [|]; cbn; lia.
  - intros z. apply (print_length_pos (JInt z)).
  - intros s. apply (print_length_pos (JStr s)).
  - intros w _. cbn [jsize length]. lia.
  - intros x l w body _ _ IH. rewrite jsize_list. cbn [length]. rewrite app_length. lia.
  - intros w _. cbn [jsize length]. lia.
  - intros kv l w body _ _ IH. rewrite jsize_obj. cbn [length]. rewrite app_length. lia.
  - intros x sx w _ IH _. cbn [list_size]. rewrite !app_length. cbn [length]. lia.
  - intros x sx w1 w2 y l body _ IHx _ _ _ IHl.
    change (list_size (x :: y :: l)) with (S (jsize x) + list_size (y :: l))%nat.
    rewrite !app_length. cbn [length]. rewrite app_length. lia.
  - intros k v sv w1 w2 w3 _ IH _ _ _. cbn [obj_size]. unfold print_string.
    cbn [app length]. rewrite !app_length. cbn [length]. rewrite !app_length. cbn [length]. lia.
  - intros k v sv w1 w2 w3 w4 y l body _ IHv _ _ _ _ _ IHl.
    change (obj_size ((k, v) :: y :: l)) with (S (jsize v) + obj_size (y :: l))%nat.
    unfold print_string. cbn [app length]. rewrite !app_length. cbn [length].
    rewrite !app_length. cbn [length]. rewrite !app_length. lia.
Qed.

Lemma skip_ws_all w : wsb w = true -> skip_ws w = [].
Proof.
  intros H. rewrite <- (app_nil_r w). rewrite skip_ws_wsb by exact H. reflexivity.
Qed.

(** [json_parse] on ANY layout of the tokens of [json_print t], with leading and trailing
    whitespace *)
Theorem json_parse_layout t s w0 w1 :
  lay t s -> wsb w0 = true -> wsb w1 = true -> json_cp_ok t = true ->
  json_parse (w0 ++ s ++ w1) = Some (json_canon t).
Proof.
  intros Hl H0 H1 Hok. unfold json_parse.
  rewrite (skip_ws_lay w0 t s w1 H0 Hl).
  rewrite (proj1 lay_parse_all t s Hl Hok (S (length (s ++ w1))) w1).
  - rewrite (skip_ws_all w1 H1). reflexivity.
  - pose proof (proj1 lay_sizes t s Hl). rewrite app_length. lia.
  - rewrite <- (app_nil_r w1). apply wsb_delim_ok; [exact H1|reflexivity].
Qed.

Corollary json_parse_layout_wf t s w0 w1 :
  lay t s -> wsb w0 = true -> wsb w1 = true -> json_wf t ->
  json_parse (w0 ++ s ++ w1) = Some t.
Proof.
  intros Hl H0 H1 Hwf. unfold json_wf in Hwf.
  rewrite (json_parse_layout t s w0 w1 Hl H0 H1) by (apply json_wfb_cp_ok; exact Hwf).
  rewrite json_canon_wf by exact Hwf. reflexivity.
Qed.

(** the default output of [json.dumps] is one of the layouts *)
Lemma lay_elems_print x l :
  Forall (fun y => lay y (json_print y)) (x :: l) ->
  lay_elems (x :: l) (elems_text (x :: l) ++ [93]).
Proof.
  revert x. induction l as [|y l IH]; intros x H; inversion H as [|? ? Hx Hl]; subst.
  - unfold elems_text. cbn [map]. rewrite sep_join_one.
    apply (le_last x (json_print x) [] Hx eq_refl).
  - unfold elems_text. cbn [map]. rewrite sep_join_cons2, <- app_assoc. cbn [app].
    apply (le_more x (json_print x) [] [32] y l _ Hx eq_refl eq_refl).
    apply IH. exact Hl.
Qed.

Lemma lay_members_print kv l :
  Forall (fun y : name * json => lay (snd y) (json_print (snd y))) (kv :: l) ->
  lay_members (kv :: l) (members_text (kv :: l) ++ [125]).
Proof.
  revert kv. induction l as [|y l IH]; intros [k v] H; inversion H as [|? ? Hx Hl]; subst;
    cbn [snd] in Hx.
  - unfold members_text. cbn [map]. rewrite sep_join_one. unfold member_text.
    rewrite <- app_assoc. cbn [app].
    apply (lm_last k v (json_print v) [] [32] [] Hx eq_refl eq_refl eq_refl).
  - unfold members_text. cbn [map]. rewrite sep_join_cons2. unfold member_text at 1.
    rewrite <- !app_assoc. cbn [app].
    apply (lm_more k v (json_print v) [] [32] [] [32] y l _ Hx eq_refl eq_refl eq_refl eq_refl).
    apply IH. exact Hl.
Qed.

Lemma lay_print t : lay t (json_print t).
Proof.
  induction t as [|b|z|s|l IH|l IH] using jt_json_ind.
  - constructor.
  - destruct b; [apply (lay_bool true)|apply (lay_bool false)].
  - constructor.
  - constructor.
  - destruct l as [|x l]; [apply (lay_list_nil [] eq_refl)|].
    cbn [json_print]. apply (lay_list_cons x l [] _ eq_refl). apply lay_elems_print. exact IH.
  - destruct l as [|kv l]; [apply (lay_obj_nil [] eq_refl)|].
    rewrite json_print_obj. apply (lay_obj_cons kv l [] _ eq_refl).
    apply lay_members_print. exact IH.
Qed.
(** * [json.dumps(t, indent=...)] is a layout *)

Lemma wsb_app a b : wsb a = true -> wsb b = true -> wsb (a ++ b) = true.
Proof. unfold wsb. rewrite forallb_app. intros -> ->. reflexivity. Qed.

Lemma wsb_repeat_app ind n : wsb ind = true -> wsb (repeat_app ind n) = true.
Proof.
  intros H. induction n as [|n IH]; [reflexivity|]. cbn [repeat_app]. apply wsb_app; assumption.
Qed.

Lemma wsb_newline_indent ind n : wsb ind = true -> wsb (newline_indent ind n) = true.
Proof.
  intros H. unfold newline_indent. change (10 :: repeat_app ind n) with ([10] ++ repeat_app ind n).
  apply wsb_app; [reflexivity|apply wsb_repeat_app; exact H].
Qed.

Lemma join_with_one sep p : join_with sep [p] = p.
Proof. cbn [join_with flat_map]. apply app_nil_r. Qed.

Lemma join_with_cons2 sep p q r :
  join_with sep (p :: q :: r) = p ++ sep ++ join_with sep (q :: r).
Proof. cbn [join_with flat_map]. rewrite <- app_assoc. reflexivity. Qed.

Lemma lay_elems_join (f : json -> list N) nl wc x l :
  wsb nl = true -> wsb wc = true -> Forall (fun y => lay y (f y)) (x :: l) ->
  lay_elems (x :: l) (join_with (44 :: nl) (map f (x :: l)) ++ wc ++ [93]).
Proof.
  intros Hnl Hwc. revert x. induction l as [|y l IH]; intros x H;
    inversion H as [|? ? Hx Hl]; subst.
  - cbn [map]. rewrite join_with_one. apply (le_last x (f x) wc Hx Hwc).
  - cbn [map]. rewrite join_with_cons2, <- !app_assoc. cbn [app].
    apply (le_more x (f x) [] nl y l _ Hx eq_refl Hnl). apply IH. exact Hl.
Qed.

Lemma lay_members_join (f : json -> list N) nl wc kv l :
  wsb nl = true -> wsb wc = true ->
  Forall (fun y : name * json => lay (snd y) (f (snd y))) (kv :: l) ->
  lay_members (kv :: l)
    (join_with (44 :: nl)
       (map (fun kv => let '(k, v) := kv in print_string k ++ 58 :: 32 :: f v) (kv :: l))
     ++ wc ++ [125]).
Proof.
  intros Hnl Hwc. revert kv. induction l as [|y l IH]; intros [k v] H;
    inversion H as [|? ? Hx Hl]; subst; cbn [snd] in Hx.
  - cbn [map]. rewrite join_with_one, <- app_assoc. cbn [app].
    apply (lm_last k v (f v) [] [32] wc Hx eq_refl eq_refl Hwc).
  - cbn [map]. rewrite join_with_cons2, <- !app_assoc. cbn [app].
    apply (lm_more k v (f v) [] [32] [] nl y l _ Hx eq_refl eq_refl eq_refl Hnl).
    apply IH. exact Hl.
Qed.

Lemma lay_print_indent ind : wsb ind = true -> forall t lvl, lay t (json_print_indent ind lvl t).
Proof.
  intros Hind t.
  induction t as [|b|z|s|l IH|l IH] using jt_json_ind; intros lvl.
  - constructor.
  - destruct b; [apply (lay_bool true)|apply (lay_bool false)].
  - constructor.
  - constructor.
  - destruct l as [|x l]; [apply (lay_list_nil [] eq_refl)|].
    cbn [json_print_indent].
    apply (lay_list_cons x l (newline_indent ind (S lvl)) _ (wsb_newline_indent ind (S lvl) Hind)).
    apply (lay_elems_join (json_print_indent ind (S lvl))); try apply wsb_newline_indent;
      try exact Hind.
    revert IH. apply Forall_impl. intros y Hy. apply Hy.
  - destruct l as [|kv l]; [apply (lay_obj_nil [] eq_refl)|].
    cbn [json_print_indent].
    apply (lay_obj_cons kv l (newline_indent ind (S lvl)) _ (wsb_newline_indent ind (S lvl) Hind)).
    apply (lay_members_join (json_print_indent ind (S lvl))); try apply wsb_newline_indent;
      try exact Hind.
    revert IH. apply Forall_impl. intros y Hy. apply Hy.
Qed.

(** [json.loads(json.dumps(t, indent=...))]: the same tree as without indentation *)
Theorem json_parse_print_indent ind t :
  wsb ind = true -> json_cp_ok t = true ->
  json_parse (json_print_indent ind 0 t) = Some (json_canon t).
Proof.
  intros Hind Hok.
  pose proof (json_parse_layout t (json_print_indent ind 0 t) [] []
                (lay_print_indent ind Hind t 0%nat) eq_refl eq_refl Hok) as H.
  cbn [app] in H. rewrite app_nil_r in H. exact H.
Qed.

Corollary json_parse_print_indent_wf ind t :
  wsb ind = true -> json_wf t -> json_parse (json_print_indent ind 0 t) = Some t.
Proof.
  intros Hind Hwf. unfold json_wf in Hwf.
  rewrite json_parse_print_indent by (exact Hind || apply json_wfb_cp_ok; exact Hwf).
  rewrite json_canon_wf by exact Hwf. reflexivity.
Qed.

(** non-vacuity of the layout theorems: the indented output of a well-formed tree *)
Example ex_tree_indent_roundtrip :
  json_parse (json_print_indent [32] 0 ex_tree) = Some ex_tree.
Proof. apply json_parse_print_indent_wf; [reflexivity|exact ex_tree_wf]. Qed.

Example ex_tree_layout : lay ex_tree (json_print_indent [9] 0 ex_tree).
Proof. apply lay_print_indent. reflexivity. Qed.

(* json.dumps({'a': [1, {'b': [], 'c': 'x\ny'}], 'd': {}, 'e': [[-5]]}, indent=2) = '{\n  ''a'': [\n    1,\n    {\n      ''b'': [],\n      ''c'': ''x\\ny''\n    }\n  ],\n  ''d'': {},\n  ''e'': [\n    [\n      -5\n    ]\n  ]\n}' *)
Example ex_indent2 :
  json_print_indent [32; 32] 0
    (JObj [([97], JList [JInt (1)%Z; JObj [([98], JList []); ([99], JStr [120; 10; 121])]]); ([100], JObj []); ([101], JList [JList [JInt (-5)%Z]])])
  = [123; 10; 32; 32; 34; 97; 34; 58; 32; 91; 10; 32; 32; 32; 32; 49; 44; 10; 32; 32; 32; 32; 123; 10; 32; 32; 32; 32; 32; 32; 34; 98; 34; 58; 32; 91; 93; 44; 10; 32; 32; 32; 32; 32; 32; 34; 99; 34; 58; 32; 34; 120; 92; 110; 121; 34; 10; 32; 32; 32; 32; 125; 10; 32; 32; 93; 44; 10; 32; 32; 34; 100; 34; 58; 32; 123; 125; 44; 10; 32; 32; 34; 101; 34; 58; 32; 91; 10; 32; 32; 32; 32; 91; 10; 32; 32; 32; 32; 32; 32; 45; 53; 10; 32; 32; 32; 32; 93; 10; 32; 32; 93; 10; 125].
Proof. vm_compute. reflexivity. Qed.
(* json.dumps({'a': [1, {'b': [], 'c': 'x\ny'}], 'd': {}, 'e': [[-5]]}, indent='\t') = '{\n\t''a'': [\n\t\t1,\n\t\t{\n\t\t\t''b'': [],\n\t\t\t''c'': ''x\\ny''\n\t\t}\n\t],\n\t''d'': {},\n\t''e'': [\n\t\t[\n\t\t\t-5\n\t\t]\n\t]\n}' *)
Example ex_indent_tab :
  json_print_indent [9] 0
    (JObj [([97], JList [JInt (1)%Z; JObj [([98], JList []); ([99], JStr [120; 10; 121])]]); ([100], JObj []); ([101], JList [JList [JInt (-5)%Z]])])
  = [123; 10; 9; 34; 97; 34; 58; 32; 91; 10; 9; 9; 49; 44; 10; 9; 9; 123; 10; 9; 9; 9; 34; 98; 34; 58; 32; 91; 93; 44; 10; 9; 9; 9; 34; 99; 34; 58; 32; 34; 120; 92; 110; 121; 34; 10; 9; 9; 125; 10; 9; 93; 44; 10; 9; 34; 100; 34; 58; 32; 123; 125; 44; 10; 9; 34; 101; 34; 58; 32; 91; 10; 9; 9; 91; 10; 9; 9; 9; 45; 53; 10; 9; 9; 93; 10; 9; 93; 10; 125].
Proof. vm_compute. reflexivity. Qed.
(* json.dumps({'a': [1, {'b': [], 'c': 'x\ny'}], 'd': {}, 'e': [[-5]]}, indent=0) = '{\n''a'': [\n1,\n{\n''b'': [],\n''c'': ''x\\ny''\n}\n],\n''d'': {},\n''e'': [\n[\n-5\n]\n]\n}' *)
Example ex_indent0 :
  json_print_indent [] 0
    (JObj [([97], JList [JInt (1)%Z; JObj [([98], JList []); ([99], JStr [120; 10; 121])]]); ([100], JObj []); ([101], JList [JList [JInt (-5)%Z]])])
  = [123; 10; 34; 97; 34; 58; 32; 91; 10; 49; 44; 10; 123; 10; 34; 98; 34; 58; 32; 91; 93; 44; 10; 34; 99; 34; 58; 32; 34; 120; 92; 110; 121; 34; 10; 125; 10; 93; 44; 10; 34; 100; 34; 58; 32; 123; 125; 44; 10; 34; 101; 34; 58; 32; 91; 10; 91; 10; 45; 53; 10; 93; 10; 93; 10; 125].
Proof. vm_compute. reflexivity. Qed.
(* json.loads('{''a'':[1,{''b'':[],''c'':''x\\ny''}],''d'':{},''e'':[[-5]]}') (compact separators) *)
Example ex_loads_compact :
  json_parse [123; 34; 97; 34; 58; 91; 49; 44; 123; 34; 98; 34; 58; 91; 93; 44; 34; 99; 34; 58; 34; 120; 92; 110; 121; 34; 125; 93; 44; 34; 100; 34; 58; 123; 125; 44; 34; 101; 34; 58; 91; 91; 45; 53; 93; 93; 125]
  = Some (JObj [([97], JList [JInt (1)%Z; JObj [([98], JList []); ([99], JStr [120; 10; 121])]]); ([100], JObj []); ([101], JList [JList [JInt (-5)%Z]])]).
Proof. vm_compute. reflexivity. Qed.

(** * The fuel of [json_parse] is enough for EVERY text

    [json_parse] gives [parse_value] the fuel [S (length s)].  If [parse_value] succeeds with
    some fuel, it succeeds with that fuel and the same result: [json_parse] never answers
    [None] for lack of fuel. *)

Lemma skip_ws_length s : (length (skip_ws s) <= length s)%nat.
Proof.
  induction s as [|c s IH]; [apply le_n|]. cbn [skip_ws]. destruct (is_ws c); cbn [length]; lia.
Qed.

Lemma scan_units_length_n n : forall s, (length s <= n)%nat -> forall ts rest,
  scan_units s = Some (ts, rest) -> (length rest < length s)%nat.
Proof.
  induction n as [|n IH]; intros s Hn ts rest H.
  - destruct s; [discriminate H|cbn [length] in Hn; lia].
  - destruct s as [|c r]; [discriminate H|]. cbn [length] in Hn. cbn [scan_units] in H.
    destruct (c =? 34); [injection H as _ <-; cbn [length]; lia|].
    destruct (c =? 92).
    + destruct r as [|e r1]; [discriminate H|].
      destruct (e =? 117).
      * destruct r1 as [|a [|b [|c2 [|d r2]]]]; try discriminate H.
        destruct (hex4val a b c2 d); [|discriminate H].
        destruct (scan_units r2) as [[ts' rest']|] eqn:E; [|discriminate H].
        injection H as _ <-. cbn [length] in *.
        pose proof (IH r2 ltac:(lia) _ _ E). lia.
      * destruct (unescape e); [|discriminate H].
        destruct (scan_units r1) as [[ts' rest']|] eqn:E; [|discriminate H].
        injection H as _ <-. cbn [length] in *.
        pose proof (IH r1 ltac:(lia) _ _ E). lia.
    + destruct (c <? 32); [discriminate H|].
      destruct (scan_units r) as [[ts' rest']|] eqn:E; [|discriminate H].
      injection H as _ <-. cbn [length] in *.
      pose proof (IH r ltac:(lia) _ _ E). lia.
Qed.

Lemma scan_string_length s k rest :
  scan_string s = Some (k, rest) -> (length rest < length s)%nat.
Proof.
  unfold scan_string. destruct (scan_units s) as [[ts r]|] eqn:E; [|discriminate].
  intros [= _ <-]. apply (scan_units_length_n (length s) s (le_n _) _ _ E).
Qed.

Lemma scan_digits_length s : forall u rest,
  scan_digits s = (u, rest) ->
  (length rest <= length s)%nat /\ (uint_is_nil u = false -> (length rest < length s)%nat).
Proof.
  induction s as [|c s IH]; intros u rest H.
  - injection H as <- <-. split; [apply le_n|discriminate].
  - cbn [scan_digits] in H. destruct (digit_cons c) as [D|] eqn:ED.
    + destruct (scan_digits s) as [u' rest'] eqn:E. injection H as <- <-.
      destruct (IH _ _ eq_refl) as [H1 _]. cbn [length]. split; [lia|intros _; lia].
    + injection H as <- <-. split; [apply le_n|discriminate].
Qed.

Lemma scan_nat_length s n rest : scan_nat s = Some (n, rest) -> (length rest < length s)%nat.
Proof.
  unfold scan_nat. destruct (scan_digits s) as [u r] eqn:E.
  destruct (uint_is_nil u) eqn:En; [discriminate|]. cbn [orb].
  destruct (lead_zero u || float_mark r); [discriminate|]. intros [= _ <-].
  apply (proj2 (scan_digits_length s u r E) En).
Qed.

Lemma scan_number_length s z rest :
  scan_number s = Some (z, rest) -> (length rest < length s)%nat.
Proof.
  unfold scan_number. destruct s as [|c r]; [discriminate|].
  destruct (c =? 45).
  - destruct (scan_nat r) as [[n rest']|] eqn:E; [|discriminate]. intros [= _ <-].
    apply scan_nat_length in E. cbn [length]. lia.
  - destruct (scan_nat (c :: r)) as [[n rest']|] eqn:E; [|discriminate]. intros [= _ <-].
    apply scan_nat_length in E. exact E.
Qed.

Lemma expect_length w : forall s rest, expect w s = Some rest -> (length rest <= length s)%nat.
Proof.
  induction w as [|c w IH]; intros s rest H; [injection H as <-; apply le_n|].
  cbn [expect] in H. destruct s as [|d s]; [discriminate|].
  destruct (c =? d); [|discriminate]. apply IH in H. cbn [length]. lia.
Qed.

Definition fuel_ok_value (f : nat) : Prop :=
  forall s t rest, parse_value f s = Some (t, rest) ->
    (length rest < length s)%nat /\
    forall f', (length s - length rest <= f')%nat -> parse_value f' s = Some (t, rest).
Definition fuel_ok_elems (f : nat) : Prop :=
  forall s l rest, parse_elems f s = Some (l, rest) ->
    (length rest < length s)%nat /\
    forall f', (length s - length rest <= f')%nat -> parse_elems f' s = Some (l, rest).
Definition fuel_ok_members (f : nat) : Prop :=
  forall s l rest, parse_members f s = Some (l, rest) ->
    (length rest < length s)%nat /\
    forall f', (length s - length rest <= f')%nat -> parse_members f' s = Some (l, rest).

Lemma fuel_ok_all f : fuel_ok_value f /\ fuel_ok_elems f /\ fuel_ok_members f.
Proof.
  induction f as [|f (IHv & IHe & IHm)].
  - split; [|split]; intros s t rest H; discriminate H.
  - split; [|split].
    + (* parse_value *)
      intros s t rest H. cbn [parse_value] in H. destruct s as [|c r]; [discriminate H|].
      destruct (c =? 34) eqn:E34.
      { destruct (scan_string r) as [[str rest']|] eqn:Es; [|discriminate H].
        injection H as <- <-. pose proof (scan_string_length _ _ _ Es) as Hl.
        split; [cbn [length]; lia|]. intros f' Hf'. cbn [length] in Hf'.
        destruct f' as [|f']; [lia|]. cbn [parse_value]. rewrite E34, Es. reflexivity. }
      destruct (c =? 91) eqn:E91.
      { destruct (skip_ws r) as [|d r1] eqn:Esk; [discriminate H|].
        pose proof (skip_ws_length r) as Hsk. rewrite Esk in Hsk. cbn [length] in Hsk.
        destruct (d =? 93) eqn:E93.
        - injection H as <- <-. split; [cbn [length]; lia|]. intros f' Hf'. cbn [length] in Hf'.
          destruct f' as [|f']; [lia|]. cbn [parse_value]. rewrite E34, E91, Esk, E93. reflexivity.
        - destruct (parse_elems f (d :: r1)) as [[l rest']|] eqn:Ee; [|discriminate H].
          injection H as <- <-. destruct (IHe _ _ _ Ee) as [Hl Hf]. cbn [length] in Hl, Hf.
          split; [cbn [length]; lia|]. intros f' Hf'. cbn [length] in Hf'.
          destruct f' as [|f']; [lia|]. cbn [parse_value]. rewrite E34, E91, Esk, E93.
          rewrite (Hf f') by lia. reflexivity. }
      destruct (c =? 123) eqn:E123.
      { destruct (skip_ws r) as [|d r1] eqn:Esk; [discriminate H|].
        pose proof (skip_ws_length r) as Hsk. rewrite Esk in Hsk. cbn [length] in Hsk.
        destruct (d =? 125) eqn:E125.
        - injection H as <- <-. split; [cbn [length]; lia|]. intros f' Hf'. cbn [length] in Hf'.
          destruct f' as [|f']; [lia|]. cbn [parse_value]. rewrite E34, E91, E123, Esk, E125.
          reflexivity.
        - destruct (parse_members f (d :: r1)) as [[l rest']|] eqn:Ee; [|discriminate H].
          injection H as <- <-. destruct (IHm _ _ _ Ee) as [Hl Hf]. cbn [length] in Hl, Hf.
          split; [cbn [length]; lia|]. intros f' Hf'. cbn [length] in Hf'.
          destruct f' as [|f']; [lia|]. cbn [parse_value]. rewrite E34, E91, E123, Esk, E125.
          rewrite (Hf f') by lia. reflexivity. }
      destruct (c =? 110) eqn:E110.
      { destruct (expect [117; 108; 108] r) as [rest'|] eqn:Ex; [|discriminate H].
        injection H as <- <-. pose proof (expect_length _ _ _ Ex) as Hl.
        split; [cbn [length]; lia|]. intros f' Hf'. cbn [length] in Hf'.
        destruct f' as [|f']; [lia|]. cbn [parse_value]. rewrite E34, E91, E123, E110, Ex.
        reflexivity. }
      destruct (c =? 116) eqn:E116.
      { destruct (expect [114; 117; 101] r) as [rest'|] eqn:Ex; [|discriminate H].
        injection H as <- <-. pose proof (expect_length _ _ _ Ex) as Hl.
        split; [cbn [length]; lia|]. intros f' Hf'. cbn [length] in Hf'.
        destruct f' as [|f']; [lia|]. cbn [parse_value]. rewrite E34, E91, E123, E110, E116, Ex.
        reflexivity. }
      destruct (c =? 102) eqn:E102.
      { destruct (expect [97; 108; 115; 101] r) as [rest'|] eqn:Ex; [|discriminate H].
        injection H as <- <-. pose proof (expect_length _ _ _ Ex) as Hl.
        split; [cbn [length]; lia|]. intros f' Hf'. cbn [length] in Hf'.
        destruct f' as [|f']; [lia|]. cbn [parse_value].
        rewrite E34, E91, E123, E110, E116, E102, Ex. reflexivity. }
      destruct (scan_number (c :: r)) as [[z rest']|] eqn:En; [|discriminate H].
      injection H as <- <-. pose proof (scan_number_length _ _ _ En) as Hl.
      split; [exact Hl|]. intros f' Hf'.
      destruct f' as [|f']; [lia|]. cbn [parse_value].
      rewrite E34, E91, E123, E110, E116, E102, En. reflexivity.
    + (* parse_elems *)
      intros s l rest H. cbn [parse_elems] in H.
      destruct (parse_value f s) as [[v r]|] eqn:Ev; [|discriminate H].
      destruct (IHv _ _ _ Ev) as [Hlv Hfv].
      destruct (skip_ws r) as [|c r1] eqn:Esk; [discriminate H|].
      pose proof (skip_ws_length r) as Hsk. rewrite Esk in Hsk. cbn [length] in Hsk.
      destruct (c =? 93) eqn:E93.
      { injection H as <- <-. split; [lia|]. intros f' Hf'.
        destruct f' as [|f']; [lia|]. cbn [parse_elems]. rewrite (Hfv f') by lia.
        rewrite Esk, E93. reflexivity. }
      destruct (c =? 44) eqn:E44; [|discriminate H].
      destruct (parse_elems f (skip_ws r1)) as [[l' rest']|] eqn:Ee; [|discriminate H].
      injection H as <- <-. destruct (IHe _ _ _ Ee) as [Hle Hfe].
      pose proof (skip_ws_length r1) as Hsk1.
      split; [lia|]. intros f' Hf'.
      destruct f' as [|f']; [lia|]. cbn [parse_elems]. rewrite (Hfv f') by lia.
      rewrite Esk, E93, E44. rewrite (Hfe f') by lia. reflexivity.
    + (* parse_members *)
      intros s l rest H. cbn [parse_members] in H. destruct s as [|q r0]; [discriminate H|].
      destruct (q =? 34) eqn:E34; [|discriminate H].
      destruct (scan_string r0) as [[k r]|] eqn:Es; [|discriminate H].
      pose proof (scan_string_length _ _ _ Es) as Hls.
      destruct (skip_ws r) as [|c r1] eqn:Esk; [discriminate H|].
      pose proof (skip_ws_length r) as Hsk. rewrite Esk in Hsk. cbn [length] in Hsk.
      destruct (c =? 58) eqn:E58; [|discriminate H].
      destruct (parse_value f (skip_ws r1)) as [[v r2]|] eqn:Ev; [|discriminate H].
      destruct (IHv _ _ _ Ev) as [Hlv Hfv]. pose proof (skip_ws_length r1) as Hsk1.
      destruct (skip_ws r2) as [|e r3] eqn:Esk2; [discriminate H|].
      pose proof (skip_ws_length r2) as Hsk2. rewrite Esk2 in Hsk2. cbn [length] in Hsk2.
      destruct (e =? 125) eqn:E125.
      { injection H as <- <-. split; [cbn [length]; lia|]. intros f' Hf'. cbn [length] in Hf'.
        destruct f' as [|f']; [lia|]. cbn [parse_members]. rewrite E34, Es, Esk, E58.
        rewrite (Hfv f') by lia. rewrite Esk2, E125. reflexivity. }
      destruct (e =? 44) eqn:E44; [|discriminate H].
      destruct (parse_members f (skip_ws r3)) as [[ps rest']|] eqn:Em; [|discriminate H].
      injection H as <- <-. destruct (IHm _ _ _ Em) as [Hlm Hfm].
      pose proof (skip_ws_length r3) as Hsk3.
      split; [cbn [length]; lia|]. intros f' Hf'. cbn [length] in Hf'.
      destruct f' as [|f']; [lia|]. cbn [parse_members]. rewrite E34, Es, Esk, E58.
      rewrite (Hfv f') by lia. rewrite Esk2, E125, E44. rewrite (Hfm f') by lia. reflexivity.
Qed.

(** whatever fuel makes [parse_value] succeed, the fuel [json_parse] uses gives the same
    result, and more fuel never changes a result *)
Theorem parse_value_fuel_enough f s t rest :
  parse_value f s = Some (t, rest) -> parse_value (S (length s)) s = Some (t, rest).
Proof.
  intros H. destruct (proj1 (fuel_ok_all f) s t rest H) as [_ Hf]. apply Hf. lia.
Qed.

(** if ANY amount of fuel parses the whole text, so does [json_parse] *)
Theorem json_parse_fuel_complete s f t rest :
  parse_value f (skip_ws s) = Some (t, rest) -> skip_ws rest = [] -> json_parse s = Some t.
Proof.
  intros H Hr. unfold json_parse. rewrite (parse_value_fuel_enough f _ t rest H), Hr. reflexivity.
Qed.

From CG Require Import Graph GraphObs GraphInv Serial CorrJsonText.

(** * The serialised graph through JSON text (C05)

    [to_dict_raw_wf]: the dictionary [to_dict] writes for a state with distinct node
    identifiers, distinct edge keys and well-formed strings / metadata ([graph_text_okb]) is a
    well-formed tree, so ([to_dict_text_roundtrip]) [json.loads(json.dumps(g.to_dict()))] is
    [g.to_dict()] and every statement of SerialProofs.v about [from_dict (to_dict g)] holds
    verbatim "after the dictionary has been through JSON text" ([from_dict_through_text]). *)

Lemma wfb_obj_intro l :
  NoDup (map fst l) ->
  Forall (fun kv : name * json => str_wfb (fst kv) = true /\ json_wfb (snd kv) = true) l ->
  json_wfb (JObj l) = true.
Proof. intros H1 H2. apply wfb_obj. split; assumption. Qed.

Lemma nodup_by_compute (l : list name) : keys_nodupb l = true -> NoDup l.
Proof. apply keys_nodupb_spec. Qed.

Lemma meta_get_wf key (m : meta) j :
  meta_text_ok m = true -> meta_get key m = Some j -> json_wfb j = true.
Proof.
  unfold meta_text_ok, meta_get. intros Hm Hl. apply wfb_obj in Hm. destruct Hm as [_ Hm].
  apply lookup_in in Hl. rewrite Forall_forall in Hm. apply (Hm _ Hl).
Qed.

Lemma opt_tag_json_wf key (m : meta) :
  meta_text_ok m = true -> json_wfb (opt_json (tag_json key m)) = true.
Proof.
  intros Hm. unfold tag_json. destruct (meta_get key m) as [j|] eqn:E; [|reflexivity].
  pose proof (meta_get_wf key m j Hm E) as Hj. destruct j; try exact Hj; reflexivity.
Qed.

Lemma vtype_str_wf t : str_wfb (vtype_str t) = true.
Proof. destruct t; reflexivity. Qed.
Lemma etype_str_wf t : str_wfb (etype_str t) = true.
Proof. destruct t; reflexivity. Qed.
Lemma class_str_wf k : str_wfb (class_str k) = true.
Proof. destruct k; reflexivity. Qed.

Lemma node_json_wf k im n :
  str_wfb (nid n) = true -> meta_text_ok (nmeta n) = true ->
  json_wfb (node_json k im n) = true.
Proof.
  intros Hid Hm. pose proof (vtype_str_wf (nvt n)) as Hv.
  pose proof (opt_tag_json_wf k_time_lag (nmeta n) Hm) as H1.
  pose proof (opt_tag_json_wf k_variable_name (nmeta n) Hm) as H2.
  unfold node_json. destruct k, im; cbn [app]; apply wfb_obj_intro;
    try (apply nodup_by_compute; reflexivity);
    repeat (apply Forall_cons; [split; [reflexivity|cbn [snd json_wfb]; assumption || reflexivity]|]);
    apply Forall_nil.
Qed.

Definition node_text_ok (n : node) : Prop :=
  str_wfb (nid n) = true /\ meta_text_ok (nmeta n) = true.
Definition edge_text_ok (e : edge) : Prop :=
  str_wfb (esrc e) = true /\ str_wfb (edst e) = true /\ meta_text_ok (emeta e) = true.

Lemma graph_text_ok_split g :
  graph_text_okb g = true ->
  Forall node_text_ok (gnodes g) /\ Forall edge_text_ok (gsrc g) /\ meta_text_ok (gmeta g) = true.
Proof.
  unfold graph_text_okb. rewrite !andb_true_iff, !forallb_forall. intros [[H1 H2] H3].
  repeat split; [| |exact H3]; apply Forall_forall; intros x Hx.
  - specialize (H1 x Hx). apply andb_true_iff in H1. exact H1.
  - specialize (H2 x Hx). rewrite !andb_true_iff in H2. destruct H2 as [[A B] C]. repeat split; assumption.
Qed.

Lemma find_node_in id ns n : find_node id ns = Some n -> In n ns.
Proof.
  induction ns as [|m ns IH]; [discriminate|]. cbn [find_node].
  destruct (name_eqb id (nid m)); [intros [= ->]; left; reflexivity|right; auto].
Qed.

Lemma endpoint_json_wf k g id :
  Forall node_text_ok (gnodes g) -> json_wfb (endpoint_json k g id) = true.
Proof.
  intros Hn. unfold endpoint_json, get_node. destruct (find_node id (gnodes g)) as [n|] eqn:E;
    [|reflexivity].
  apply find_node_in in E. rewrite Forall_forall in Hn. destruct (Hn _ E) as [H1 H2].
  apply node_json_wf; assumption.
Qed.

Lemma edge_json_wf k g im ovr e :
  Forall node_text_ok (gnodes g) -> meta_text_ok (emeta e) = true ->
  json_wfb (edge_json k g im ovr e) = true.
Proof.
  intros Hn Hm. pose proof (endpoint_json_wf k g (esrc e) Hn) as H1.
  pose proof (endpoint_json_wf k g (edst e) Hn) as H2.
  pose proof (etype_str_wf (match ovr with Some t => t | None => ety e end)) as H3.
  unfold edge_json. destruct im; cbn [app]; apply wfb_obj_intro;
    try (apply nodup_by_compute; reflexivity);
    repeat (apply Forall_cons; [split; [reflexivity|cbn [snd json_wfb]; assumption || reflexivity]|]);
    apply Forall_nil.
Qed.

Lemma nodes_json_wf k g im :
  NoDup (node_ids g) -> Forall node_text_ok (gnodes g) -> json_wfb (nodes_json k g im) = true.
Proof.
  intros Hnd Hn. unfold nodes_json. apply wfb_obj_intro.
  - rewrite map_map. cbn [fst].
    eapply Permutation_NoDup; [apply Permutation_map; apply isort_perm|exact Hnd].
  - apply Forall_forall. intros kv Hin. apply in_map_iff in Hin. destruct Hin as (n & <- & Hin).
    apply isort_in in Hin. rewrite Forall_forall in Hn. destruct (Hn _ Hin) as [H1 H2].
    cbn [fst snd]. split; [exact H1|apply node_json_wf; assumption].
Qed.
(** ** The 'edges' dictionary: grouping by source *)

Lemma group_edges_head e es s grp rest :
  group_edges (e :: es) = (s, grp) :: rest -> s = esrc e.
Proof.
  cbn [group_edges]. destruct (group_edges es) as [|[s' grp'] rest'].
  - intros [= <- _ _]. reflexivity.
  - destruct (name_eqb_spec (esrc e) s') as [E|_]; intros [= <- _ _]; [symmetry; exact E|reflexivity].
Qed.

Lemma group_edges_members es s grp :
  In (s, grp) (group_edges es) ->
  grp <> [] /\ forall e, In e grp -> esrc e = s /\ In e es.
Proof.
  revert s grp. induction es as [|e es IH]; intros s grp Hin; [contradiction|].
  cbn [group_edges] in Hin. destruct (group_edges es) as [|[s' grp'] rest].
  - destruct Hin as [[= <- <-]|[]]. split; [discriminate|].
    intros e' [<-|[]]. split; [reflexivity|left; reflexivity].
  - destruct (name_eqb_spec (esrc e) s') as [E|_].
    + destruct Hin as [[= <- <-]|Hin].
      * split; [discriminate|]. intros e' [<-|He']; [split; [exact E|left; reflexivity]|].
        destruct (IH s' grp' (or_introl eq_refl)) as [_ H]. destruct (H e' He') as [H1 H2].
        split; [exact H1|right; exact H2].
      * destruct (IH s grp (or_intror Hin)) as [H0 H]. split; [exact H0|].
        intros e' He'. destruct (H e' He') as [H1 H2]. split; [exact H1|right; exact H2].
    + destruct Hin as [[= <- <-]|Hin].
      * split; [discriminate|]. intros e' [<-|[]]. split; [reflexivity|left; reflexivity].
      * destruct (IH s grp Hin) as [H0 H]. split; [exact H0|].
        intros e' He'. destruct (H e' He') as [H1 H2]. split; [exact H1|right; exact H2].
Qed.

Lemma group_edges_flat' es : flat_map snd (group_edges es) = es.
Proof.
  induction es as [|e es IH]; [reflexivity|]. cbn [group_edges].
  destruct (group_edges es) as [|[s grp] rest].
  - cbn in IH |- *. rewrite <- IH. reflexivity.
  - destruct (name_eqb (esrc e) s); cbn [flat_map snd app] in IH |- *; rewrite <- IH; reflexivity.
Qed.

Lemma pair_leb_fst p q : pair_leb p q = true -> name_leb (fst p) (fst q) = true.
Proof.
  unfold pair_leb, pair_ltb, name_leb. rewrite !negb_true_iff, orb_false_iff. tauto.
Qed.

Lemma group_edges_keys_nodup es :
  StronglySorted (le pair_leb_e) es -> NoDup (map fst (group_edges es)).
Proof.
  induction 1 as [|e es Hs IH Hall]; [constructor|].
  cbn [group_edges]. destruct (group_edges es) as [|[s grp] rest] eqn:E.
  - repeat constructor. intros [].
  - destruct (name_eqb_spec (esrc e) s) as [Heq|Hne]; [exact IH|].
    cbn [map fst] in IH |- *. constructor; [|exact IH].
    intros Hin. apply Hne.
    (* the head of [es] has source [s] *)
    destruct es as [|e0 es0]; [discriminate E|].
    pose proof (group_edges_head e0 es0 s grp rest E) as Hs0.
    (* some edge of [es] has source [esrc e] *)
    change (s :: map fst rest) with (map fst ((s, grp) :: rest)) in Hin. rewrite <- E in Hin.
    apply in_map_iff in Hin. destruct Hin as ([s1 grp1] & Hs1 & Hin1). cbn [fst] in Hs1. subst s1.
    destruct (group_edges_members _ _ _ Hin1) as [Hne1 Hmem].
    destruct grp1 as [|e1 grp1]; [congruence|].
    destruct (Hmem e1 (or_introl eq_refl)) as [Hsrc1 Hin_e1].
    rewrite Forall_forall in Hall.
    assert (L1 : name_leb (esrc e) s = true).
    { rewrite Hs0. apply (pair_leb_fst (edge_key e) (edge_key e0)).
      apply Hall. left; reflexivity. }
    assert (L2 : name_leb s (esrc e) = true).
    { rewrite Hs0, <- Hsrc1. destruct Hin_e1 as [<-|Hin_e1]; [apply name_leb_refl|].
      inversion Hs as [|? ? _ Hall0]; subst. rewrite Forall_forall in Hall0.
      apply (pair_leb_fst (edge_key e0) (edge_key e1)). apply Hall0. exact Hin_e1. }
    apply name_leb_antisym; assumption.
Qed.

Lemma nodup_app_inv {A} (l l' : list A) : NoDup (l ++ l') -> NoDup l /\ NoDup l'.
Proof.
  induction l as [|x l IH]; cbn [app]; intros H; [split; [constructor|exact H]|].
  inversion H as [|? ? Hni Hnd]; subst. destruct (IH Hnd) as [H1 H2].
  split; [|exact H2]. constructor; [|exact H1].
  intros Hin. apply Hni. apply in_or_app. left. exact Hin.
Qed.

Lemma nodup_flat_map_in {A B} (f : A -> B) (G : list (name * list A)) s grp :
  NoDup (map f (flat_map snd G)) -> In (s, grp) G -> NoDup (map f grp).
Proof.
  induction G as [|[s0 g0] G IH]; intros Hnd Hin; [contradiction|].
  cbn [flat_map snd] in Hnd. rewrite map_app in Hnd.
  destruct Hin as [[= <- <-]|Hin].
  - apply nodup_app_inv in Hnd. tauto.
  - apply nodup_app_inv in Hnd. apply IH; tauto.
Qed.

Lemma group_edges_dst_nodup es s grp :
  NoDup (map edge_key es) -> In (s, grp) (group_edges es) -> NoDup (map edst grp).
Proof.
  intros Hnd Hin. rewrite <- (group_edges_flat' es) in Hnd.
  pose proof (nodup_flat_map_in edge_key _ s grp Hnd Hin) as H.
  destruct (group_edges_members _ _ _ Hin) as [_ Hmem].
  assert (E : map edge_key grp = map (fun d => (s, d)) (map edst grp)).
  { rewrite map_map. apply map_ext_in. intros e He. unfold edge_key.
    destruct (Hmem e He) as [-> _]. reflexivity. }
  rewrite E in H. apply NoDup_map_inv in H. exact H.
Qed.

Lemma pair_leb_e_total' x y : pair_leb_e x y = true \/ pair_leb_e y x = true.
Proof. apply pair_leb_total. Qed.
Lemma pair_leb_e_trans' x y z :
  pair_leb_e x y = true -> pair_leb_e y z = true -> pair_leb_e x z = true.
Proof. apply pair_leb_trans. Qed.

Lemma edges_json_wf k g im ovr :
  NoDup (edge_keys g) -> Forall node_text_ok (gnodes g) -> Forall edge_text_ok (gsrc g) ->
  json_wfb (edges_json k g im ovr) = true.
Proof.
  intros Hnd Hn He. unfold edges_json.
  assert (Hsub : forall e, In e (sorted_edges g) -> In e (gsrc g)).
  { intros e H. unfold sorted_edges in H. apply isort_in in H. exact H. }
  assert (Hndk : NoDup (map edge_key (sorted_edges g))).
  { eapply Permutation_NoDup; [apply Permutation_map; apply isort_perm|exact Hnd]. }
  rewrite Forall_forall in He.
  apply wfb_obj_intro.
  - rewrite map_map. cbn [fst]. apply group_edges_keys_nodup.
    apply isort_sorted; [apply pair_leb_e_total'|apply pair_leb_e_trans'].
  - apply Forall_forall. intros kv Hin. apply in_map_iff in Hin.
    destruct Hin as ([s grp] & <- & Hin). cbn [fst snd].
    destruct (group_edges_members _ _ _ Hin) as [Hne Hmem]. split.
    + destruct grp as [|e grp]; [congruence|].
      destruct (Hmem e (or_introl eq_refl)) as [<- Hine].
      destruct (He e (Hsub e Hine)) as (H1 & _ & _). exact H1.
    + apply wfb_obj_intro.
      * rewrite map_map. cbn [fst]. apply (group_edges_dst_nodup _ s grp Hndk Hin).
      * apply Forall_forall. intros kv' Hin'. apply in_map_iff in Hin'.
        destruct Hin' as (e & <- & Hine). cbn [fst snd].
        destruct (Hmem e Hine) as [_ Hine'].
        destruct (He e (Hsub e Hine')) as (_ & H2 & H3).
        split; [exact H2|apply edge_json_wf; assumption].
Qed.

(** the dictionary of a state is a well-formed tree *)
Theorem to_dict_raw_wf k g im :
  NoDup (node_ids g) -> NoDup (edge_keys g) -> graph_text_okb g = true ->
  json_wf (to_dict_raw k g im).
Proof.
  intros Hn He Hok. destruct (graph_text_ok_split g Hok) as (H1 & H2 & H3).
  pose proof (nodes_json_wf k g im Hn H1) as N.
  pose proof (edges_json_wf k g im None He H1 H2) as E.
  unfold json_wf, to_dict_raw. destruct im; cbn [app]; apply wfb_obj_intro;
    try (apply nodup_by_compute; reflexivity);
    repeat (apply Forall_cons; [split; [reflexivity|cbn [snd]; assumption || reflexivity]|]);
    apply Forall_nil.
Qed.

(** json.loads(json.dumps(g.to_dict(include_meta))) == g.to_dict(include_meta) *)
Theorem to_dict_text_roundtrip k g im d :
  NoDup (node_ids g) -> NoDup (edge_keys g) -> graph_text_okb g = true ->
  to_dict k g im = Ok d -> json_parse (json_print d) = Some d.
Proof.
  intros Hn He Hok Hd. unfold to_dict in Hd. destruct (to_dict_defined k g); [|discriminate].
  injection Hd as <-. apply json_parse_print. apply to_dict_raw_wf; assumption.
Qed.

(** the same for [g.skeleton.to_dict(include_meta)] *)
Theorem skeleton_to_dict_text_roundtrip k g im d :
  NoDup (node_ids g) -> NoDup (edge_keys g) -> graph_text_okb g = true ->
  skeleton_to_dict k g im = Ok d -> json_parse (json_print d) = Some d.
Proof.
  intros Hn He Hok Hd. unfold skeleton_to_dict in Hd.
  destruct (to_dict_defined k g); [|discriminate]. injection Hd as <-.
  destruct (graph_text_ok_split g Hok) as (H1 & H2 & H3).
  pose proof (nodes_json_wf k g im Hn H1) as N.
  pose proof (edges_json_wf k g im (Some Und) He H1 H2) as E.
  apply json_parse_print. unfold json_wf. apply wfb_obj_intro;
    try (apply nodup_by_compute; reflexivity);
    repeat (apply Forall_cons; [split; [reflexivity|cbn [snd]; assumption || reflexivity]|]);
    apply Forall_nil.
Qed.

(** C05 "after the dictionary has been through JSON text": whatever [from_dict] does with the
    dictionary, it does with the dictionary read back from its JSON text. *)
Corollary from_dict_through_text parse fmt k g im d validate :
  NoDup (node_ids g) -> NoDup (edge_keys g) -> graph_text_okb g = true ->
  to_dict k g im = Ok d ->
  match json_parse (json_print d) with
  | Some d' => from_dict parse fmt k d' validate = from_dict parse fmt k d validate
  | None => False
  end.
Proof.
  intros Hn He Hok Hd. rewrite (to_dict_text_roundtrip k g im d Hn He Hok Hd). reflexivity.
Qed.

Corollary to_dict_text_roundtrip_inv parse k g im d :
  Inv parse k g -> graph_text_okb g = true ->
  to_dict k g im = Ok d -> json_parse (json_print d) = Some d.
Proof.
  intros HI. apply to_dict_text_roundtrip; [exact (inv_nodup_nodes HI)|exact (inv_nodup_keys HI)].
Qed.
(** ** An example pinned to the real library *)
From CG Require Names.

(* real library: TimeSeriesCausalGraph with nodes y (binary, nested metadata with a quote, a newline and an astral key),
   x lag(n=1) -> x (metadata with a non-ASCII value), y -- x lag(n=1); json.dumps(g.to_dict()) with the version substituted *)
Definition ex_lib_dict : json :=
  JObj [([110; 111; 100; 101; 115], JObj [([120], JObj [([105; 100; 101; 110; 116; 105; 102; 105; 101; 114], JStr [120]); ([118; 97; 114; 105; 97; 98; 108; 101; 95; 116; 121; 112; 101], JStr [117; 110; 115; 112; 101; 99; 105; 102; 105; 101; 100]); ([110; 111; 100; 101; 95; 99; 108; 97; 115; 115], JStr [84; 105; 109; 101; 83; 101; 114; 105; 101; 115; 78; 111; 100; 101]); ([109; 101; 116; 97], JObj [([116; 105; 109; 101; 95; 108; 97; 103], JInt (0)%Z); ([118; 97; 114; 105; 97; 98; 108; 101; 95; 110; 97; 109; 101], JStr [120])]); ([116; 105; 109; 101; 95; 108; 97; 103], JInt (0)%Z); ([118; 97; 114; 105; 97; 98; 108; 101; 95; 110; 97; 109; 101], JStr [120])]); ([120; 32; 108; 97; 103; 40; 110; 61; 49; 41], JObj [([105; 100; 101; 110; 116; 105; 102; 105; 101; 114], JStr [120; 32; 108; 97; 103; 40; 110; 61; 49; 41]); ([118; 97; 114; 105; 97; 98; 108; 101; 95; 116; 121; 112; 101], JStr [117; 110; 115; 112; 101; 99; 105; 102; 105; 101; 100]); ([110; 111; 100; 101; 95; 99; 108; 97; 115; 115], JStr [84; 105; 109; 101; 83; 101; 114; 105; 101; 115; 78; 111; 100; 101]); ([109; 101; 116; 97], JObj [([116; 105; 109; 101; 95; 108; 97; 103], JInt (-1)%Z); ([118; 97; 114; 105; 97; 98; 108; 101; 95; 110; 97; 109; 101], JStr [120])]); ([116; 105; 109; 101; 95; 108; 97; 103], JInt (-1)%Z); ([118; 97; 114; 105; 97; 98; 108; 101; 95; 110; 97; 109; 101], JStr [120])]); ([121], JObj [([105; 100; 101; 110; 116; 105; 102; 105; 101; 114], JStr [121]); ([118; 97; 114; 105; 97; 98; 108; 101; 95; 116; 121; 112; 101], JStr [98; 105; 110; 97; 114; 121]); ([110; 111; 100; 101; 95; 99; 108; 97; 115; 115], JStr [84; 105; 109; 101; 83; 101; 114; 105; 101; 115; 78; 111; 100; 101]); ([109; 101; 116; 97], JObj [([97; 10; 34], JList [JInt (1)%Z; JNull; JObj [([128512], JInt (-3)%Z)]]); ([116; 105; 109; 101; 95; 108; 97; 103], JInt (0)%Z); ([118; 97; 114; 105; 97; 98; 108; 101; 95; 110; 97; 109; 101], JStr [121])]); ([116; 105; 109; 101; 95; 108; 97; 103], JInt (0)%Z); ([118; 97; 114; 105; 97; 98; 108; 101; 95; 110; 97; 109; 101], JStr [121])])]); ([101; 100; 103; 101; 115], JObj [([120; 32; 108; 97; 103; 40; 110; 61; 49; 41], JObj [([120], JObj [([115; 111; 117; 114; 99; 101], JObj [([105; 100; 101; 110; 116; 105; 102; 105; 101; 114], JStr [120; 32; 108; 97; 103; 40; 110; 61; 49; 41]); ([118; 97; 114; 105; 97; 98; 108; 101; 95; 116; 121; 112; 101], JStr [117; 110; 115; 112; 101; 99; 105; 102; 105; 101; 100]); ([110; 111; 100; 101; 95; 99; 108; 97; 115; 115], JStr [84; 105; 109; 101; 83; 101; 114; 105; 101; 115; 78; 111; 100; 101]); ([109; 101; 116; 97], JObj [([116; 105; 109; 101; 95; 108; 97; 103], JInt (-1)%Z); ([118; 97; 114; 105; 97; 98; 108; 101; 95; 110; 97; 109; 101], JStr [120])]); ([116; 105; 109; 101; 95; 108; 97; 103], JInt (-1)%Z); ([118; 97; 114; 105; 97; 98; 108; 101; 95; 110; 97; 109; 101], JStr [120])]); ([100; 101; 115; 116; 105; 110; 97; 116; 105; 111; 110], JObj [([105; 100; 101; 110; 116; 105; 102; 105; 101; 114], JStr [120]); ([118; 97; 114; 105; 97; 98; 108; 101; 95; 116; 121; 112; 101], JStr [117; 110; 115; 112; 101; 99; 105; 102; 105; 101; 100]); ([110; 111; 100; 101; 95; 99; 108; 97; 115; 115], JStr [84; 105; 109; 101; 83; 101; 114; 105; 101; 115; 78; 111; 100; 101]); ([109; 101; 116; 97], JObj [([116; 105; 109; 101; 95; 108; 97; 103], JInt (0)%Z); ([118; 97; 114; 105; 97; 98; 108; 101; 95; 110; 97; 109; 101], JStr [120])]); ([116; 105; 109; 101; 95; 108; 97; 103], JInt (0)%Z); ([118; 97; 114; 105; 97; 98; 108; 101; 95; 110; 97; 109; 101], JStr [120])]); ([101; 100; 103; 101; 95; 116; 121; 112; 101], JStr [45; 62]); ([109; 101; 116; 97], JObj [([119], JStr [99; 97; 102; 233])])]); ([121], JObj [([115; 111; 117; 114; 99; 101], JObj [([105; 100; 101; 110; 116; 105; 102; 105; 101; 114], JStr [120; 32; 108; 97; 103; 40; 110; 61; 49; 41]); ([118; 97; 114; 105; 97; 98; 108; 101; 95; 116; 121; 112; 101], JStr [117; 110; 115; 112; 101; 99; 105; 102; 105; 101; 100]); ([110; 111; 100; 101; 95; 99; 108; 97; 115; 115], JStr [84; 105; 109; 101; 83; 101; 114; 105; 101; 115; 78; 111; 100; 101]); ([109; 101; 116; 97], JObj [([116; 105; 109; 101; 95; 108; 97; 103], JInt (-1)%Z); ([118; 97; 114; 105; 97; 98; 108; 101; 95; 110; 97; 109; 101], JStr [120])]); ([116; 105; 109; 101; 95; 108; 97; 103], JInt (-1)%Z); ([118; 97; 114; 105; 97; 98; 108; 101; 95; 110; 97; 109; 101], JStr [120])]); ([100; 101; 115; 116; 105; 110; 97; 116; 105; 111; 110], JObj [([105; 100; 101; 110; 116; 105; 102; 105; 101; 114], JStr [121]); ([118; 97; 114; 105; 97; 98; 108; 101; 95; 116; 121; 112; 101], JStr [98; 105; 110; 97; 114; 121]); ([110; 111; 100; 101; 95; 99; 108; 97; 115; 115], JStr [84; 105; 109; 101; 83; 101; 114; 105; 101; 115; 78; 111; 100; 101]); ([109; 101; 116; 97], JObj [([97; 10; 34], JList [JInt (1)%Z; JNull; JObj [([128512], JInt (-3)%Z)]]); ([116; 105; 109; 101; 95; 108; 97; 103], JInt (0)%Z); ([118; 97; 114; 105; 97; 98; 108; 101; 95; 110; 97; 109; 101], JStr [121])]); ([116; 105; 109; 101; 95; 108; 97; 103], JInt (0)%Z); ([118; 97; 114; 105; 97; 98; 108; 101; 95; 110; 97; 109; 101], JStr [121])]); ([101; 100; 103; 101; 95; 116; 121; 112; 101], JStr [45; 45]); ([109; 101; 116; 97], JObj [])])])]); ([118; 101; 114; 115; 105; 111; 110], JStr [36; 86; 69; 82; 83; 73; 79; 78]); ([109; 101; 116; 97], JObj [])].
Definition ex_lib_text : list N :=
  [123; 34; 110; 111; 100; 101; 115; 34; 58; 32; 123; 34; 120; 34; 58; 32; 123; 34; 105; 100; 101; 110; 116; 105; 102; 105; 101; 114; 34; 58; 32; 34; 120; 34; 44; 32; 34; 118; 97; 114; 105; 97; 98; 108; 101; 95; 116; 121; 112; 101; 34; 58; 32; 34; 117; 110; 115; 112; 101; 99; 105; 102; 105; 101; 100; 34; 44; 32; 34; 110; 111; 100; 101; 95; 99; 108; 97; 115; 115; 34; 58; 32; 34; 84; 105; 109; 101; 83; 101; 114; 105; 101; 115; 78; 111; 100; 101; 34; 44; 32; 34; 109; 101; 116; 97; 34; 58; 32; 123; 34; 116; 105; 109; 101; 95; 108; 97; 103; 34; 58; 32; 48; 44; 32; 34; 118; 97; 114; 105; 97; 98; 108; 101; 95; 110; 97; 109; 101; 34; 58; 32; 34; 120; 34; 125; 44; 32; 34; 116; 105; 109; 101; 95; 108; 97; 103; 34; 58; 32; 48; 44; 32; 34; 118; 97; 114; 105; 97; 98; 108; 101; 95; 110; 97; 109; 101; 34; 58; 32; 34; 120; 34; 125; 44; 32; 34; 120; 32; 108; 97; 103; 40; 110; 61; 49; 41; 34; 58; 32; 123; 34; 105; 100; 101; 110; 116; 105; 102; 105; 101; 114; 34; 58; 32; 34; 120; 32; 108; 97; 103; 40; 110; 61; 49; 41; 34; 44; 32; 34; 118; 97; 114; 105; 97; 98; 108; 101; 95; 116; 121; 112; 101; 34; 58; 32; 34; 117; 110; 115; 112; 101; 99; 105; 102; 105; 101; 100; 34; 44; 32; 34; 110; 111; 100; 101; 95; 99; 108; 97; 115; 115; 34; 58; 32; 34; 84; 105; 109; 101; 83; 101; 114; 105; 101; 115; 78; 111; 100; 101; 34; 44; 32; 34; 109; 101; 116; 97; 34; 58; 32; 123; 34; 116; 105; 109; 101; 95; 108; 97; 103; 34; 58; 32; 45; 49; 44; 32; 34; 118; 97; 114; 105; 97; 98; 108; 101; 95; 110; 97; 109; 101; 34; 58; 32; 34; 120; 34; 125; 44; 32; 34; 116; 105; 109; 101; 95; 108; 97; 103; 34; 58; 32; 45; 49; 44; 32; 34; 118; 97; 114; 105; 97; 98; 108; 101; 95; 110; 97; 109; 101; 34; 58; 32; 34; 120; 34; 125; 44; 32; 34; 121; 34; 58; 32; 123; 34; 105; 100; 101; 110; 116; 105; 102; 105; 101; 114; 34; 58; 32; 34; 121; 34; 44; 32; 34; 118; 97; 114; 105; 97; 98; 108; 101; 95; 116; 121; 112; 101; 34; 58; 32; 34; 98; 105; 110; 97; 114; 121; 34; 44; 32; 34; 110; 111; 100; 101; 95; 99; 108; 97; 115; 115; 34; 58; 32; 34; 84; 105; 109; 101; 83; 101; 114; 105; 101; 115; 78; 111; 100; 101; 34; 44; 32; 34; 109; 101; 116; 97; 34; 58; 32; 123; 34; 97; 92; 110; 92; 34; 34; 58; 32; 91; 49; 44; 32; 110; 117; 108; 108; 44; 32; 123; 34; 92; 117; 100; 56; 51; 100; 92; 117; 100; 101; 48; 48; 34; 58; 32; 45; 51; 125; 93; 44; 32; 34; 116; 105; 109; 101; 95; 108; 97; 103; 34; 58; 32; 48; 44; 32; 34; 118; 97; 114; 105; 97; 98; 108; 101; 95; 110; 97; 109; 101; 34; 58; 32; 34; 121; 34; 125; 44; 32; 34; 116; 105; 109; 101; 95; 108; 97; 103; 34; 58; 32; 48; 44; 32; 34; 118; 97; 114; 105; 97; 98; 108; 101; 95; 110; 97; 109; 101; 34; 58; 32; 34; 121; 34; 125; 125; 44; 32; 34; 101; 100; 103; 101; 115; 34; 58; 32; 123; 34; 120; 32; 108; 97; 103; 40; 110; 61; 49; 41; 34; 58; 32; 123; 34; 120; 34; 58; 32; 123; 34; 115; 111; 117; 114; 99; 101; 34; 58; 32; 123; 34; 105; 100; 101; 110; 116; 105; 102; 105; 101; 114; 34; 58; 32; 34; 120; 32; 108; 97; 103; 40; 110; 61; 49; 41; 34; 44; 32; 34; 118; 97; 114; 105; 97; 98; 108; 101; 95; 116; 121; 112; 101; 34; 58; 32; 34; 117; 110; 115; 112; 101; 99; 105; 102; 105; 101; 100; 34; 44; 32; 34; 110; 111; 100; 101; 95; 99; 108; 97; 115; 115; 34; 58; 32; 34; 84; 105; 109; 101; 83; 101; 114; 105; 101; 115; 78; 111; 100; 101; 34; 44; 32; 34; 109; 101; 116; 97; 34; 58; 32; 123; 34; 116; 105; 109; 101; 95; 108; 97; 103; 34; 58; 32; 45; 49; 44; 32; 34; 118; 97; 114; 105; 97; 98; 108; 101; 95; 110; 97; 109; 101; 34; 58; 32; 34; 120; 34; 125; 44; 32; 34; 116; 105; 109; 101; 95; 108; 97; 103; 34; 58; 32; 45; 49; 44; 32; 34; 118; 97; 114; 105; 97; 98; 108; 101; 95; 110; 97; 109; 101; 34; 58; 32; 34; 120; 34; 125; 44; 32; 34; 100; 101; 115; 116; 105; 110; 97; 116; 105; 111; 110; 34; 58; 32; 123; 34; 105; 100; 101; 110; 116; 105; 102; 105; 101; 114; 34; 58; 32; 34; 120; 34; 44; 32; 34; 118; 97; 114; 105; 97; 98; 108; 101; 95; 116; 121; 112; 101; 34; 58; 32; 34; 117; 110; 115; 112; 101; 99; 105; 102; 105; 101; 100; 34; 44; 32; 34; 110; 111; 100; 101; 95; 99; 108; 97; 115; 115; 34; 58; 32; 34; 84; 105; 109; 101; 83; 101; 114; 105; 101; 115; 78; 111; 100; 101; 34; 44; 32; 34; 109; 101; 116; 97; 34; 58; 32; 123; 34; 116; 105; 109; 101; 95; 108; 97; 103; 34; 58; 32; 48; 44; 32; 34; 118; 97; 114; 105; 97; 98; 108; 101; 95; 110; 97; 109; 101; 34; 58; 32; 34; 120; 34; 125; 44; 32; 34; 116; 105; 109; 101; 95; 108; 97; 103; 34; 58; 32; 48; 44; 32; 34; 118; 97; 114; 105; 97; 98; 108; 101; 95; 110; 97; 109; 101; 34; 58; 32; 34; 120; 34; 125; 44; 32; 34; 101; 100; 103; 101; 95; 116; 121; 112; 101; 34; 58; 32; 34; 45; 62; 34; 44; 32; 34; 109; 101; 116; 97; 34; 58; 32; 123; 34; 119; 34; 58; 32; 34; 99; 97; 102; 92; 117; 48; 48; 101; 57; 34; 125; 125; 44; 32; 34; 121; 34; 58; 32; 123; 34; 115; 111; 117; 114; 99; 101; 34; 58; 32; 123; 34; 105; 100; 101; 110; 116; 105; 102; 105; 101; 114; 34; 58; 32; 34; 120; 32; 108; 97; 103; 40; 110; 61; 49; 41; 34; 44; 32; 34; 118; 97; 114; 105; 97; 98; 108; 101; 95; 116; 121; 112; 101; 34; 58; 32; 34; 117; 110; 115; 112; 101; 99; 105; 102; 105; 101; 100; 34; 44; 32; 34; 110; 111; 100; 101; 95; 99; 108; 97; 115; 115; 34; 58; 32; 34; 84; 105; 109; 101; 83; 101; 114; 105; 101; 115; 78; 111; 100; 101; 34; 44; 32; 34; 109; 101; 116; 97; 34; 58; 32; 123; 34; 116; 105; 109; 101; 95; 108; 97; 103; 34; 58; 32; 45; 49; 44; 32; 34; 118; 97; 114; 105; 97; 98; 108; 101; 95; 110; 97; 109; 101; 34; 58; 32; 34; 120; 34; 125; 44; 32; 34; 116; 105; 109; 101; 95; 108; 97; 103; 34; 58; 32; 45; 49; 44; 32; 34; 118; 97; 114; 105; 97; 98; 108; 101; 95; 110; 97; 109; 101; 34; 58; 32; 34; 120; 34; 125; 44; 32; 34; 100; 101; 115; 116; 105; 110; 97; 116; 105; 111; 110; 34; 58; 32; 123; 34; 105; 100; 101; 110; 116; 105; 102; 105; 101; 114; 34; 58; 32; 34; 121; 34; 44; 32; 34; 118; 97; 114; 105; 97; 98; 108; 101; 95; 116; 121; 112; 101; 34; 58; 32; 34; 98; 105; 110; 97; 114; 121; 34; 44; 32; 34; 110; 111; 100; 101; 95; 99; 108; 97; 115; 115; 34; 58; 32; 34; 84; 105; 109; 101; 83; 101; 114; 105; 101; 115; 78; 111; 100; 101; 34; 44; 32; 34; 109; 101; 116; 97; 34; 58; 32; 123; 34; 97; 92; 110; 92; 34; 34; 58; 32; 91; 49; 44; 32; 110; 117; 108; 108; 44; 32; 123; 34; 92; 117; 100; 56; 51; 100; 92; 117; 100; 101; 48; 48; 34; 58; 32; 45; 51; 125; 93; 44; 32; 34; 116; 105; 109; 101; 95; 108; 97; 103; 34; 58; 32; 48; 44; 32; 34; 118; 97; 114; 105; 97; 98; 108; 101; 95; 110; 97; 109; 101; 34; 58; 32; 34; 121; 34; 125; 44; 32; 34; 116; 105; 109; 101; 95; 108; 97; 103; 34; 58; 32; 48; 44; 32; 34; 118; 97; 114; 105; 97; 98; 108; 101; 95; 110; 97; 109; 101; 34; 58; 32; 34; 121; 34; 125; 44; 32; 34; 101; 100; 103; 101; 95; 116; 121; 112; 101; 34; 58; 32; 34; 45; 45; 34; 44; 32; 34; 109; 101; 116; 97; 34; 58; 32; 123; 125; 125; 125; 125; 44; 32; 34; 118; 101; 114; 115; 105; 111; 110; 34; 58; 32; 34; 36; 86; 69; 82; 83; 73; 79; 78; 34; 44; 32; 34; 109; 101; 116; 97; 34; 58; 32; 123; 125; 125].

(** the same state built by the model *)
Definition ex_lib_ops : list op :=
  [OAddNode [121] VBin (Some [([97; 10; 34], JList [JInt 1; JNull; JObj [([128512], JInt (-3))]])]);
   OAddEdge ([120; 32; 108; 97; 103; 40; 110; 61; 49; 41], None) ([120], None) Dir
     (Some [([119], JStr [99; 97; 102; 233])]) true;
   OAddEdge ([121], None) ([120; 32; 108; 97; 103; 40; 110; 61; 49; 41], None) Und None true].
Definition ex_lib_graph : graph := run Names.parse Names.fmt TS ex_lib_ops (empty_graph []).

(** model dictionary = library dictionary; model text = the text json.dumps wrote *)
Example ex_lib_to_dict : to_dict TS ex_lib_graph true = Ok ex_lib_dict.
Proof. vm_compute. reflexivity. Qed.
Example ex_lib_print : json_print ex_lib_dict = ex_lib_text.
Proof. vm_compute. reflexivity. Qed.
Example ex_lib_text_hash :
  corr_to_dict_text TS ex_lib_graph true = Some ex_lib_text.
Proof. vm_compute. reflexivity. Qed.

(** non-vacuity of [to_dict_text_roundtrip] *)
Example ex_lib_hyps :
  NoDup (node_ids ex_lib_graph) /\ NoDup (edge_keys ex_lib_graph)
  /\ graph_text_okb ex_lib_graph = true.
Proof.
  split; [|split].
  - apply nodup_by_compute. vm_compute. reflexivity.
  - vm_compute. repeat constructor; simpl; intuition discriminate.
  - vm_compute. reflexivity.
Qed.

Example ex_lib_roundtrip : json_parse ex_lib_text = Some ex_lib_dict.
Proof.
  rewrite <- ex_lib_print. destruct ex_lib_hyps as (H1 & H2 & H3).
  exact (to_dict_text_roundtrip TS ex_lib_graph true ex_lib_dict H1 H2 H3 ex_lib_to_dict).
Qed.

(** the boundary of the clause, observed on the real library: a node identifier made of a high
    and a low surrogate code point ('\ud800\udc00', a [str] that no UTF-8 decoder produces) is
    read back as '\U00010000', so
    [CausalGraph.from_dict(json.loads(json.dumps(g.to_dict()))) == g] is False for
    [g = CausalGraph(); g.add_edge('\ud800\udc00', 'b')]; a LONE surrogate identifier
    ('\ud800') survives ([==] is True). *)
Definition ex_pair_graph : graph :=
  run Names.parse Names.fmt Plain [OAddEdge ([55296; 56320], None) ([98], None) Dir None true]
    (empty_graph []).
Example ex_pair_graph_unstable :
  graph_text_okb ex_pair_graph = false
  /\ corr_to_dict_text_stable Plain ex_pair_graph true = false.
Proof. vm_compute. split; reflexivity. Qed.

Definition ex_lone_graph : graph :=
  run Names.parse Names.fmt Plain [OAddEdge ([55296], None) ([98], None) Dir None true]
    (empty_graph []).
Example ex_lone_graph_stable :
  graph_text_okb ex_lone_graph = true
  /\ corr_to_dict_text_stable Plain ex_lone_graph true = true.
Proof. vm_compute. split; reflexivity. Qed.

(** * C05 with the clause "after the dictionary has been through JSON text"

    The round-trip theorems of SerialProofs.v, restated with the dictionary WRITTEN AS JSON
    TEXT by [json_print] and READ BACK by [json_parse] between [to_dict] and [from_dict]. *)
From CG Require SerialProofs.

Theorem roundtrip_novalidate_through_text parse fmt k g :
  Inv parse k g -> (k = TS -> SerialProofs.TagsStable g) -> graph_text_okb g = true ->
  exists text j g',
    corr_to_dict_text k g true = Some text /\ json_parse text = Some j
    /\ from_dict parse fmt k j false = Ok g' /\ deep_eq_state g g'.
Proof.
  intros HI HT Hok.
  destruct (@SerialProofs.roundtrip_novalidate parse fmt k g HI HT) as (j & g' & Ej & Ef & Hd).
  exists (json_print j), j, g'. unfold corr_to_dict_text. rewrite Ej.
  split; [reflexivity|]. split; [|split; assumption].
  exact (to_dict_text_roundtrip_inv parse k g true j HI Hok Ej).
Qed.

Theorem roundtrip_through_text parse fmt :
  (forall k g o, Inv parse k g -> Inv parse k (snd (run_op parse fmt k g o))) ->
  cycle_check_statement parse ->
  forall k g,
  Inv parse k g -> (k = TS -> SerialProofs.TagsStable g) -> Acyclic g ->
  graph_text_okb g = true ->
  exists text j g',
    corr_to_dict_text k g true = Some text /\ json_parse text = Some j
    /\ from_dict parse fmt k j true = Ok g' /\ deep_eq_state g g'.
Proof.
  intros Hstep Hcyc k g HI HT Hac Hok.
  destruct (@SerialProofs.roundtrip parse fmt Hstep Hcyc k g HI HT Hac) as (j & g' & Ej & Ef & Hd).
  exists (json_print j), j, g'. unfold corr_to_dict_text. rewrite Ej.
  split; [reflexivity|]. split; [|split; assumption].
  exact (to_dict_text_roundtrip_inv parse k g true j HI Hok Ej).
Qed.

Theorem skeleton_roundtrip_through_text parse fmt k g :
  Inv parse k g -> (k = TS -> SerialProofs.TagsStable g) -> graph_text_okb g = true ->
  exists j g',
    skeleton_to_dict k g true = Ok j /\ json_parse (json_print j) = Some j
    /\ skeleton_from_dict parse fmt k j = Ok g'
    /\ v_nodes g' = v_nodes g
    /\ v_edges g' = map (SerialProofs.retype (Some Und)) (v_edges g)
    /\ skeleton_to_dict k g' true = Ok j.
Proof.
  intros HI HT Hok.
  destruct (@SerialProofs.skeleton_roundtrip parse fmt k g HI HT) as (j & g' & Ej & Ef & H1 & H2 & H3).
  exists j, g'. split; [exact Ej|]. split; [|repeat split; assumption].
  exact (skeleton_to_dict_text_roundtrip k g true j (inv_nodup_nodes HI) (inv_nodup_keys HI) Hok Ej).
Qed.

(** non-vacuity on the state pinned to the real library *)
Example ex_lib_through_text :
  match corr_to_dict_text TS ex_lib_graph true with
  | Some text =>
      match json_parse text with
      | Some j =>
          match from_dict Names.parse Names.fmt TS j false with
          | Ok g' => deep_eqb ex_lib_graph g' = true
          | Err _ => False
          end
      | None => False
      end
  | None => False
  end.
Proof. vm_compute. reflexivity. Qed.
