(** TopoSort.v — executable models of the two networkx 3.2.1 routines behind the DEFAULT
    (single) answer of [get_topological_order()]:

    - [CausalGraph.get_topological_order()]            (cai_causal_graph/causal_graph.py)
        [assert self.is_dag(); list(networkx.topological_sort(self.to_networkx()))]
    - [TimeSeriesCausalGraph.get_topological_order()]  (time_series_causal_graph.py), default
      [respect_time_ordering=True]:
        [assert self.is_dag();
         list(networkx.lexicographical_topological_sort(self.to_networkx(),
                                                        key=lambda x: self.get_node(x).time_lag))]

    DEFINITIONS ONLY; the proofs are in TopoSortProofs.v, the entry points of the correspondence
    harness (with examples pinned on the real library) in CorrTopoSort.v.

    What [to_networkx()] builds (read from the source, checked on the library):
    [networkx.empty_graph(n=self.get_node_names(), create_using=networkx.DiGraph)] followed by
    [for source, destinations in self._edges_by_source.items():
         for target in destinations.keys(): add_edge(source, target)].
    [get_node_names()] is [sorted(self._nodes_by_identifier)], so the NODE ORDER of the networkx
    graph is the identifiers SORTED as Python strings (code-point order), whatever the order in
    which nodes and edges were added to the causal graph.  The adjacency [G._adj[u]] of a node
    lists the destinations in the key order of [self._edges_by_source[u]], i.e. the order in
    which the edges leaving [u] were inserted.  The order in which different SOURCES appear in
    [_edges_by_source] only permutes [G._pred[v]], which neither routine looks at except through
    its length ([in_degree]).

    Conventions.  [verts g] is the networkx node order (= iteration order of [G], of
    [G.in_degree()] and of [enumerate(G)]).  [arcs g] lists the arcs in any order whose
    restriction to each source is the adjacency order of that source: [children g u] is then
    [list(G._adj[u])] once repetitions are dropped (a [DiGraph] has no parallel edges, adding an
    existing edge again does not move it: [adj] keeps FIRST occurrences).

    The two routines are generators; [list(...)] of a generator that raises at the end raises, so
    a run is modelled by its complete answer:
      [TOk l]      the list [l] was produced,
      [TCycle]     [networkx.NetworkXUnfeasible] ("Graph contains a cycle or graph changed ..."),
      [TKeyError]  [RuntimeError("Graph changed during iteration")] raised from the [KeyError] of
                   [indegree_map[child] -= 1] (proved unreachable in TopoSortProofs.v),
      [TNotDag]    the [AssertionError] of the two library methods when [is_dag()] is false,
      [TFuel]      out of fuel: a model artefact (proved unreachable with the fuel used here). *)
From CG Require Import Base Digraph Queries Graph GraphInv Bridge.
Set Implicit Arguments.

Inductive tres (X : Type) : Type :=
| TOk (x : X) | TCycle | TKeyError | TNotDag | TFuel.
Arguments TOk {X} x.
Arguments TCycle {X}.
Arguments TKeyError {X}.
Arguments TNotDag {X}.
Arguments TFuel {X}.

Definition tres_map (X Y : Type) (f : X -> Y) (r : tres X) : tres Y :=
  match r with
  | TOk x => TOk (f x) | TCycle => TCycle | TKeyError => TKeyError
  | TNotDag => TNotDag | TFuel => TFuel
  end.

Section TopoSort.
  Variable A : Type.
  Variable eqb : A -> A -> bool.

  Notation digraph := (digraph A).
  Notation memb := (memb eqb).

  (** Keys of a Python [dict] filled by successive insertions: first occurrences, in order. *)
  Fixpoint dedupf (l : list A) : list A :=
    match l with
    | [] => []
    | x :: l' => x :: removeb eqb x (dedupf l')
    end.

  (** [list(G._adj[x])] = [G.neighbors(x)] = the destinations of [G.edges(x)] *)
  Definition adj (g : digraph) (x : A) : list A := dedupf (children eqb g x).
  (** [list(G._pred[v])] up to order; [G.in_degree(v) = len(G._pred[v])] *)
  Definition preds (g : digraph) (v : A) : list A := dedupf (parents eqb g v).
  Definition indeg (g : digraph) (v : A) : nat := length (preds g v).

  (** * The dictionary [indegree_map]: an association list without repeated keys *)
  Definition cmap := list (A * nat).

  Fixpoint cnt_get (v : A) (m : cmap) : option nat :=
    match m with
    | [] => None
    | (k, d) :: m' => if eqb v k then Some d else cnt_get v m'
    end.

  (** [m[v] = d] for a key that is present (the position of the key is kept) *)
  Fixpoint cnt_set (v : A) (d : nat) (m : cmap) : cmap :=
    match m with
    | [] => []
    | (k, d0) :: m' => if eqb v k then (k, d) :: m' else (k, d0) :: cnt_set v d m'
    end.

  (** [del m[v]] *)
  Definition cnt_del (v : A) (m : cmap) : cmap := filter (fun p => negb (eqb (fst p) v)) m.

  (** [indegree_map = {v: d for v, d in G.in_degree() if d > 0}] *)
  Definition indegree_map (g : digraph) : cmap :=
    filter (fun p => negb (Nat.eqb (snd p) 0)) (map (fun v => (v, indeg g v)) (verts g)).
  (** [zero_indegree = [v for v, d in G.in_degree() if d == 0]] *)
  Definition zero_indegree (g : digraph) : list A :=
    filter (fun v => Nat.eqb (indeg g v) 0) (verts g).

  (** The body shared by both routines, for the children [cs] of the node being output:
      {[
        for child in cs:
            try: indegree_map[child] -= 1
            except KeyError as err: raise RuntimeError("Graph changed during iteration") from err
            if indegree_map[child] == 0:
                ready.append(child)         # resp. heapq.heappush(ready, create_tuple(child))
                del indegree_map[child]
      ]}
      [None] is the [RuntimeError].  The stored counts are never [0] (the initial dictionary
      keeps [d > 0] only and an entry that reaches [0] is deleted at once), so the truncated
      subtraction of [nat] is never exercised: [d - 1] below is Python's [d - 1]. *)
  Fixpoint relax (cs : list A) (m : cmap) (ready : list A) : option (list A * cmap) :=
    match cs with
    | [] => Some (ready, m)
    | c :: cs' =>
        match cnt_get c m with
        | None => None
        | Some d =>
            if Nat.eqb (d - 1) 0 then relax cs' (cnt_del c m) (ready ++ [c])
            else relax cs' (cnt_set c (d - 1) m) ready
        end
    end.

  (** * [networkx.topological_generations] / [networkx.topological_sort]
      {[
        while zero_indegree:
            this_generation = zero_indegree
            zero_indegree = []
            for node in this_generation:
                for child in G.neighbors(node): ...          # [relax]
            yield this_generation
        if indegree_map: raise nx.NetworkXUnfeasible(...)
      ]} *)
  Fixpoint gen_step (g : digraph) (gen : list A) (m : cmap) (next : list A)
    : option (list A * cmap) :=
    match gen with
    | [] => Some (next, m)
    | x :: gen' =>
        match relax (adj g x) m next with
        | None => None
        | Some (next', m') => gen_step g gen' m' next'
        end
    end.

  (** One unit of fuel per non-empty generation. *)
  Fixpoint gens_loop (fuel : nat) (g : digraph) (gen : list A) (m : cmap) : tres (list (list A)) :=
    match gen with
    | [] => match m with [] => TOk [] | _ :: _ => TCycle end
    | _ :: _ =>
        match fuel with
        | O => TFuel
        | S f =>
            match gen_step g gen m [] with
            | None => TKeyError
            | Some (next, m') =>
                match gens_loop f g next m' with
                | TOk gs => TOk (gen :: gs)
                | e => e
                end
            end
        end
    end.

  Definition topological_generations (g : digraph) : tres (list (list A)) :=
    gens_loop (length (verts g)) g (zero_indegree g) (indegree_map g).

  (** [for generation in nx.topological_generations(G): yield from generation] *)
  Definition topological_sort (g : digraph) : tres (list A) :=
    tres_map (@concat A) (topological_generations g).

  (** * [networkx.lexicographical_topological_sort(G, key)]
      {[
        nodeid_map = {n: i for i, n in enumerate(G)}
        def create_tuple(node): return key(node), nodeid_map[node], node
        zero_indegree = [create_tuple(v) for v, d in G.in_degree() if d == 0]
        heapq.heapify(zero_indegree)
        while zero_indegree:
            _, _, node = heapq.heappop(zero_indegree)
            for _, child in G.edges(node): ...               # [relax], with heappush
            yield node
        if indegree_map: raise nx.NetworkXUnfeasible(msg)
      ]}
      The heap holds triples [(key(node), nodeid_map[node], node)] compared as Python tuples;
      the second components of two different nodes differ, so the comparison never reaches the
      node itself and [heappop] returns THE entry with the least [(key, index)].  A binary heap
      is therefore observationally a bag with "extract the minimum": it is modelled by a list of
      nodes ([heappush] = append) from which [pop_min] extracts the least element for
      [prio_leb]; the [key] is a pure function of the node ([time_lag] of the node), so
      computing it when comparing instead of when pushing changes nothing. *)
  Fixpoint pos_in (x : A) (l : list A) : nat :=
    match l with
    | [] => 0
    | y :: l' => if eqb x y then 0 else S (pos_in x l')
    end.

  (** [(key x, nodeid_map[x]) <= (key y, nodeid_map[y])] *)
  Definition prio_leb (key : A -> Z) (order : list A) (x y : A) : bool :=
    Z.ltb (key x) (key y) || (Z.eqb (key x) (key y) && Nat.leb (pos_in x order) (pos_in y order)).

  (** the least element (the first one among equals) and the other elements *)
  Fixpoint pop_min (leb : A -> A -> bool) (l : list A) : option (A * list A) :=
    match l with
    | [] => None
    | x :: l' =>
        match pop_min leb l' with
        | None => Some (x, [])
        | Some (m, r) => if leb x m then Some (x, l') else Some (m, x :: r)
        end
    end.

  (** One unit of fuel per node popped. *)
  Fixpoint lex_loop (fuel : nat) (g : digraph) (leb : A -> A -> bool) (heap : list A) (m : cmap)
    : tres (list A) :=
    match pop_min leb heap with
    | None => match m with [] => TOk [] | _ :: _ => TCycle end
    | Some (x, heap') =>
        match fuel with
        | O => TFuel
        | S f =>
            match relax (adj g x) m heap' with
            | None => TKeyError
            | Some (heap'', m') =>
                match lex_loop f g leb heap'' m' with
                | TOk l => TOk (x :: l)
                | e => e
                end
            end
        end
    end.

  Definition lexicographical_topological_sort (g : digraph) (key : A -> Z) : tres (list A) :=
    lex_loop (length (verts g)) g (prio_leb key (verts g)) (zero_indegree g) (indegree_map g).

  (** * The two library methods (default arguments).  [is_dag()] of a fully directed graph is
      [networkx.is_directed_acyclic_graph(self.to_networkx())]. *)
  Definition get_topological_order (g : digraph) : tres (list A) :=
    if acyclicb eqb g then topological_sort g else TNotDag.

  Definition get_time_topological_order (g : digraph) (lag : A -> Z) : tres (list A) :=
    if acyclicb eqb g then lexicographical_topological_sort g lag else TNotDag.

  (** * A reference for [lexicographical_topological_sort] that mentions the arcs only through
      the SET of parents of a node: repeatedly output the available node (not output yet, all
      parents output) with the least [(key, index)].  TopoSortProofs.v proves that the heap
      algorithm computes exactly this. *)
  Definition available (g : digraph) (done : list A) : list A :=
    filter (fun v => negb (memb v done) && forallb (fun p => memb p done) (parents eqb g v)) (verts g).

  Fixpoint lex_ref_loop (fuel : nat) (g : digraph) (leb : A -> A -> bool) (done : list A)
    : tres (list A) :=
    match pop_min leb (available g done) with
    | None => if forallb (fun v => memb v done) (verts g) then TOk [] else TCycle
    | Some (x, _) =>
        match fuel with
        | O => TFuel
        | S f =>
            match lex_ref_loop f g leb (done ++ [x]) with
            | TOk l => TOk (x :: l)
            | e => e
            end
        end
    end.

  Definition lex_ref (g : digraph) (key : A -> Z) : tres (list A) :=
    lex_ref_loop (length (verts g)) g (prio_leb key (verts g)) [].
End TopoSort.

(** * The two methods on the concrete graph state of Graph.v

    [to_networkx()] of a state all of whose edges are directed: the node order is
    [get_node_names()] = the identifiers sorted, the adjacency of a source lists its edges in
    the order of [_edges_by_source[source]], which is the order of [gsrc] restricted to that
    source.  When some edge is not directed [is_dag()] is [False] without looking further and
    both methods raise their AssertionError.  The sort key of the time-series method is
    [self.get_node(x).time_lag], the tag read by [Bridge.lag_fn]. *)
Definition nx_digraph (g : graph) : digraph name :=
  {| verts := sort_names (node_ids g); arcs := arcs (dgraph g) |}.

Definition fully_directed (g : graph) : bool :=
  forallb (fun e => etype_eqb (ety e) Dir) (gsrc g).

(** [CausalGraph.get_topological_order()] *)
Definition v_topological_order (g : graph) : tres (list name) :=
  if fully_directed g then get_topological_order name_eqb (nx_digraph g) else TNotDag.

(** [TimeSeriesCausalGraph.get_topological_order()] *)
Definition v_time_topological_order (g : graph) : tres (list name) :=
  if fully_directed g then get_time_topological_order name_eqb (nx_digraph g) (lag_fn g)
  else TNotDag.
