(** CorrDag.v — entry points evaluated by the DAG-sweep correspondence checks of C10 C11 C18 C19
    C20 (DEFINITIONS ONLY).  A case is a DAG over the vertices 0..n-1 together with a few answers
    of the implementation that need a CHECKER rather than a comparison; the model answers are
    serialised to tokens and hashed per property, the property predicates (d-separation
    criteria) are evaluated on the implementation's outputs and returned as bits. *)
From CG Require Import Base Digraph Tok Queries DSep Identify Markov.
From Coq Require Import Uint63.
Set Implicit Arguments.

Definition E := Nat.eqb.
Definition mk (n : nat) (arcs : list (nat * nat)) : digraph nat := {| verts := seq 0 n; arcs := arcs |}.

(** insertion sort of nat lists / lists of nat lists (lexicographic) *)
Definition sortn : list nat -> list nat := isort Nat.leb.
Fixpoint lex_leb (a b : list nat) : bool :=
  match a, b with
  | [], _ => true
  | _ :: _, [] => false
  | x :: a', y :: b' => if Nat.ltb x y then true else if Nat.eqb x y then lex_leb a' b' else false
  end.
Definition sortll : list (list nat) -> list (list nat) := isort lex_leb.

Definition tk_nats (l : list nat) : list N := tk_list tk_nat l.
Definition tk_set (l : list nat) : list N := tk_nats (sortn l).
Definition tk_ll (l : list (list nat)) : list N := tk_list tk_nats (sortll l).
Definition tk_oset (o : option (list nat)) : list N :=
  match o with None => [99%N] | Some l => 0%N :: tk_set l end.
Definition tk_obool (o : option bool) : list N :=
  match o with None => [99%N] | Some b => tk_bool b end.

Definition opairs (n : nat) : list (nat * nat) :=
  flat_map (fun x => flat_map (fun y => if Nat.eqb x y then [] else [(x, y)]) (seq 0 n)) (seq 0 n).
Definition upairs (n : nat) : list (nat * nat) :=
  flat_map (fun x => flat_map (fun y => if Nat.ltb x y then [(x, y)] else []) (seq 0 n)) (seq 0 n).
Definition others (n x y : nat) : list nat :=
  filter (fun v => negb (Nat.eqb v x) && negb (Nat.eqb v y)) (seq 0 n).

(** subsets of [l] in binary counting order: subset number [i] contains [nth j l] iff bit [j] of
    [i] is set *)
Fixpoint subsets (l : list nat) : list (list nat) :=
  match l with
  | [] => [[]]
  | x :: l' => flat_map (fun s => [s; x :: s]) (subsets l')
  end.
(* NB: with this definition the FIRST element of [l] is the LEAST significant bit. *)

(** * C10: structural queries *)

(** [_get_subgraph(nodes)] as written: the edges with both endpoints among [nodes]; all of
    [nodes] only when no edge is kept, otherwise just the endpoints of the kept edges *)
Definition get_subgraph (g : digraph nat) (nodes : list nat) : list nat * list (nat * nat) :=
  let kept := filter (fun e => memb E (fst e) nodes && memb E (snd e) nodes) (arcs g) in
  match kept with
  | [] => (nodes, [])
  | _ => (union E (map fst kept) (union E (map snd kept) []), kept)
  end.
Definition tk_graph (p : list nat * list (nat * nat)) : list N :=
  tk_set (fst p) ++ tk_ll (map (fun e => [fst e; snd e]) (snd p)).

Definition star_in (g : digraph nat) (x : nat) : list nat * list (nat * nat) :=
  (x :: parents E g x, map (fun p => (p, x)) (parents E g x)).
Definition star_out (g : digraph nat) (x : nat) : list nat * list (nat * nat) :=
  (x :: children E g x, map (fun c => (x, c)) (children E g x)).

Definition obs_c10 (n : nat) (g : digraph nat) : list N :=
  flat_map (fun x =>
      tk_set (anc E g x) ++ tk_set (desc E g x)
      ++ tk_graph (get_subgraph g (anc E g x ++ [x]))
      ++ tk_graph (get_subgraph g (desc E g x ++ [x]))
      ++ tk_graph (star_in g x) ++ tk_graph (star_out g x)) (seq 0 n)
  ++ flat_map (fun p =>
      let '(x, y) := p in
      tk_bool (is_ancestor E g x [y]) ++ tk_bool (is_descendant E g x [y])
      ++ tk_set (common_anc E g x y) ++ tk_set (common_desc E g x y)
      ++ tk_ll (all_paths E g x y)
      ++ tk_oset (nodes_between E (n + 1) g x y)
      ++ tk_obool (directed_path_exists E (n + 1) g x y)) (opairs n)
  ++ flat_map (fun x => tk_ll (all_paths E g x x) ++ tk_oset (nodes_between E (n + 1) g x x)) (seq 0 n)
  ++ tk_ll (all_topo E g).

(** * C11: d-separation tables *)
Definition obs_c11 (n : nat) (g : digraph nat) : list N :=
  flat_map (fun p =>
      let '(x, y) := p in
      [mask_of (map (fun Z => dsepb E g [x] [y] Z) (subsets (others n x y)));
       mask_of (map (fun Z => min_sepb E g x y Z) (subsets (others n x y)))]) (upairs n).

(** * C18 / C19 / C20 *)
Definition obs_c18 (n : nat) (g : digraph nat) : list N :=
  flat_map (fun p => tk_oset (confounders E g (fst p) (snd p))) (opairs n).
Definition obs_c19 (n : nat) (g : digraph nat) : list N :=
  flat_map (fun p => tk_oset (instruments E g (fst p) (snd p)) ++ tk_oset (mediators E g (fst p) (snd p)))
    (opairs n).
Definition obs_c20 (n : nat) (g : digraph nat) : list N :=
  flat_map (fun x => tk_set (markov_boundary E g x)) (seq 0 n).

(** * Property predicates evaluated on the IMPLEMENTATION's outputs *)

(** back-door sufficiency of a reported confounder set [Z] for (x, y) *)
Definition sufficient (g : digraph nat) (x y : nat) (Z : list nat) : bool :=
  dsepb E (del_arcs_from E g [x]) [x] [y] Z.
(** instrument criterion: ancestor of the source, d-separated from the destination once the
    edges leaving the source are removed *)
Definition instrument_ok (g : digraph nat) (s d i : nat) : bool :=
  memb E i (anc E g s) && dsepb E (del_arcs_from E g [s]) [i] [d] [].
(** Markov boundary: shields and is minimal *)
Definition mb_ok (n : nat) (g : digraph nat) (a : nat) (MB : list nat) : bool :=
  forallb (fun w => Nat.eqb w a || memb E w MB || dsepb E g [a] [w] MB) (seq 0 n)
  && forallb (fun m => negb (dsepb E g [a] [m] (filter (fun z => negb (Nat.eqb z m)) MB))) MB.

Record dcase := {
  dc_n : nat;
  dc_arcs : list (nat * nat);
  dc_which : list bool;                  (* which of C10 C11 C18 C19 C20 to evaluate *)
  dc_hashes : list int;                  (* implementation: C10 C11 C18 C19 C20 *)
  dc_topo : list nat;                    (* implementation's default topological order *)
  dc_dsets : list (option (list nat));   (* get_d_separation_set per unordered pair (None = refused) *)
  dc_conf : list (list nat);             (* identify_confounders per ordered pair *)
  dc_inst : list (list nat);             (* identify_instruments per ordered pair *)
  dc_mb : list (list nat)                (* identify_markov_boundary per node *)
}.

Fixpoint zip {A B} (a : list A) (b : list B) : list (A * B) :=
  match a, b with x :: a', y :: b' => (x, y) :: zip a' b' | _, _ => [] end.

(** Per case: five comparison bits (model == implementation), then the predicate bits:
    topo order valid; every d-separation set reported for a non-adjacent pair is a minimal
    separator; confounder sufficiency per admissible ordered pair;
    instrument criterion per ordered pair; Markov boundary criterion per node. *)
Definition check_dcase (c : dcase) : list N :=
  let n := dc_n c in
  let g := mk n (dc_arcs c) in
  let w := dc_which c in
  let on (i : nat) := nth i w false in
  let sec (i : nat) (t : unit -> list N) : N :=
    if on i then (if Uint63.eqb (hash_tokens (t tt)) (nth i (dc_hashes c) 0%uint63) then 1 else 0)%N
    else 2%N in
  let cmp := [sec 0 (fun _ => obs_c10 n g); sec 1 (fun _ => obs_c11 n g); sec 2 (fun _ => obs_c18 n g);
              sec 3 (fun _ => obs_c19 n g); sec 4 (fun _ => obs_c20 n g)] in
  let topo_ok := if on 0 then is_topo E g (dc_topo c) else true in
  let dsets_ok :=
    if on 1 then
    forallb (fun pz =>
      let '((x, y), oz) := pz in
      (* the property quantifies over NON-adjacent pairs only *)
      if adjacentb E g x y then true
      else match oz with
           | None => false
           | Some Z => min_sepb E g x y Z
           end) (zip (upairs n) (dc_dsets c)) else true in
  let suff :=
    if on 2 then
    map (fun pz =>
      let '((x, y), Z) := pz in
      (* admissible: y is not an ancestor of x *)
      if memb E y (anc E g x) then true else sufficient g x y Z) (zip (opairs n) (dc_conf c)) else [] in
  let conf_anc :=
    if on 2 then
    forallb (fun pz =>
      let '((x, y), Z) := pz in
      forallb (fun z => memb E z (anc E g x) && memb E z (anc E g y)) Z) (zip (opairs n) (dc_conf c)) else true in
  let inst :=
    if on 3 then
    forallb (fun pz =>
      let '((s, d), Is) := pz in forallb (instrument_ok g s d) Is) (zip (opairs n) (dc_inst c)) else true in
  let mb := if on 4 then forallb (fun am => mb_ok n g (fst am) (snd am)) (zip (seq 0 n) (dc_mb c)) else true in
  cmp ++ [if topo_ok then 1 else 0; if dsets_ok then 1 else 0; mask_of (map negb suff);
          if conf_anc then 1 else 0; if inst then 1 else 0; if mb then 1 else 0]%N.

Definition check_dcases (cs : list dcase) : list (list N) := map check_dcase cs.

(** full tokens of one section (diagnosis) *)
Definition dag_tokens (which : nat) (n : nat) (arcs : list (nat * nat)) : list N :=
  let g := mk n arcs in
  match which with
  | 0 => obs_c10 n g | 1 => obs_c11 n g | 2 => obs_c18 n g | 3 => obs_c19 n g | _ => obs_c20 n g
  end.

(** * Mixed graphs (colliders) *)
Definition obs_colliders (n : nat) (mg : list (nat * nat * etype)) : list N :=
  tk_set (identify_colliders E mg (seq 0 n) false) ++ tk_set (identify_colliders E mg (seq 0 n) true).
(** directed_path_exists on a mixed graph follows the directed edges only *)
Definition dir_part (n : nat) (mg : list (nat * nat * etype)) : digraph nat :=
  mk n (map fst (filter (fun e => etype_eqb (snd e) Dir) mg)).
Definition obs_dpe (n : nat) (mg : list (nat * nat * etype)) : list N :=
  flat_map (fun p => tk_obool (directed_path_exists E (n + 1) (dir_part n mg) (fst p) (snd p))) (opairs n).

Definition check_mixed (sel : nat) (cs : list (nat * list (nat * nat * etype) * int)) : list nat :=
  (fix go (i : nat) (cs : list (nat * list (nat * nat * etype) * int)) : list nat :=
     match cs with
     | [] => []
     | (n, mg, h) :: cs' =>
         let t := match sel with O => obs_colliders n mg | _ => obs_dpe n mg end in
         if Uint63.eqb (hash_tokens t) h then go (S i) cs' else i :: go (S i) cs'
     end) 0 cs.
