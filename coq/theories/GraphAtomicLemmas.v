(** GraphAtomicLemmas.v — helper lemmas for the failure-atomicity proofs (C03):
    generic list facts, look-ups on the concrete state, and the insensitivity of every read
    view of GraphObs.v to the insertion order of the edge indexes / per-node lists
    ([observe_equiv]). *)
From CG Require Import Base Digraph Graph GraphObs GraphInv.

(** * Generic list facts *)

Lemma at_filter_all_true {A} (f : A -> bool) l :
  (forall x, In x l -> f x = true) -> filter f l = l.
Proof.
  induction l as [|a l IH]; intros H; simpl; [reflexivity|].
  rewrite (H a (or_introl eq_refl)). f_equal. apply IH. intros x Hx; apply H; right; exact Hx.
Qed.

Lemma at_filter_all_false {A} (f : A -> bool) l :
  (forall x, In x l -> f x = false) -> filter f l = [].
Proof.
  induction l as [|a l IH]; intros H; simpl; [reflexivity|].
  rewrite (H a (or_introl eq_refl)). apply IH. intros x Hx; apply H; right; exact Hx.
Qed.

Lemma at_filter_perm {A} (f : A -> bool) l1 l2 :
  Permutation l1 l2 -> Permutation (filter f l1) (filter f l2).
Proof.
  induction 1 as [|x l1 l2 P IH|x y l|l1 l2 l3 P1 IH1 P2 IH2]; simpl.
  - constructor.
  - destruct (f x); [constructor|]; exact IH.
  - destruct (f x), (f y); try reflexivity. apply perm_swap.
  - etransitivity; eassumption.
Qed.

Lemma at_map_Forall2 {A B C} (R : A -> B -> Prop) (f : A -> C) (f' : B -> C) l1 l2 :
  Forall2 R l1 l2 -> (forall a b, R a b -> f a = f' b) -> map f l1 = map f' l2.
Proof.
  intros F H; induction F as [|a b l1 l2 Hab F IH]; simpl; [reflexivity|].
  rewrite (H a b Hab), IH; reflexivity.
Qed.

Lemma at_flat_map_Forall2 {A B C} (R : A -> B -> Prop) (f : A -> list C) (f' : B -> list C) l1 l2 :
  Forall2 R l1 l2 -> (forall a b, R a b -> f a = f' b) -> flat_map f l1 = flat_map f' l2.
Proof.
  intros F H; induction F as [|a b l1 l2 Hab F IH]; simpl; [reflexivity|].
  rewrite (H a b Hab), IH; reflexivity.
Qed.

Lemma at_Forall2_map_l {A} (R : A -> A -> Prop) (f : A -> A) l :
  (forall x, In x l -> R (f x) x) -> Forall2 R (map f l) l.
Proof.
  induction l as [|a l IH]; intros H; simpl; constructor.
  - apply H; left; reflexivity.
  - apply IH; intros x Hx; apply H; right; exact Hx.
Qed.

Lemma at_Forall2_refl {A} (R : A -> A -> Prop) l : (forall x, R x x) -> Forall2 R l l.
Proof. intros H; induction l; constructor; auto. Qed.

Lemma at_Forall2_sym {A} (R : A -> A -> Prop) l1 l2 :
  (forall x y, R x y -> R y x) -> Forall2 R l1 l2 -> Forall2 R l2 l1.
Proof. intros H F; induction F; constructor; auto. Qed.

Lemma at_Forall2_trans {A} (R : A -> A -> Prop) l1 l2 l3 :
  (forall x y z, R x y -> R y z -> R x z) -> Forall2 R l1 l2 -> Forall2 R l2 l3 -> Forall2 R l1 l3.
Proof.
  intros H F; revert l3; induction F as [|a b l1 l2 Hab F IH]; intros l3 F2;
    inversion F2; subst; constructor; eauto.
Qed.

(** sorting two pointwise-related lists with an order that respects the relation *)
Section SortRel.
  Variables (A : Type) (leb : A -> A -> bool) (R : A -> A -> Prop).
  Hypothesis leb_R : forall a a' b b', R a a' -> R b b' -> leb a b = leb a' b'.

  Lemma at_insert_Forall2 x y l1 l2 :
    R x y -> Forall2 R l1 l2 -> Forall2 R (insert leb x l1) (insert leb y l2).
  Proof.
    intros Hxy F; induction F as [|a b l1 l2 Hab F IH]; simpl.
    - constructor; [exact Hxy|constructor].
    - rewrite (leb_R _ _ _ _ Hxy Hab). destruct (leb y b).
      + constructor; [exact Hxy|]. constructor; assumption.
      + constructor; assumption.
  Qed.

  Lemma at_isort_Forall2 l1 l2 : Forall2 R l1 l2 -> Forall2 R (isort leb l1) (isort leb l2).
  Proof.
    induction 1 as [|a b l1 l2 Hab F IH]; simpl; [constructor|].
    apply at_insert_Forall2; assumption.
  Qed.
End SortRel.

(** * Edge lists with unique keys *)

Lemma at_key_inj (l : list edge) x y :
  NoDup (map edge_key l) -> In x l -> In y l -> edge_key x = edge_key y -> x = y.
Proof.
  induction l as [|a l IH]; simpl; intros ND Hx Hy E; [contradiction|].
  inversion ND as [|? ? Hn ND']; subst.
  destruct Hx as [->|Hx], Hy as [->|Hy].
  - reflexivity.
  - exfalso; apply Hn. rewrite E. apply in_map; exact Hy.
  - exfalso; apply Hn. rewrite <- E. apply in_map; exact Hx.
  - apply IH; assumption.
Qed.

Lemma at_nodup_keys_filter (f : edge -> bool) l :
  NoDup (map edge_key l) -> NoDup (map edge_key (filter f l)).
Proof.
  induction l as [|a l IH]; simpl; intros ND; [constructor|].
  inversion ND as [|? ? Hn ND']; subst.
  destruct (f a); simpl; [constructor|]; auto.
  intros Hin; apply Hn. apply in_map_iff in Hin. destruct Hin as (x & Ex & Hx).
  apply filter_In in Hx. rewrite <- Ex. apply in_map; tauto.
Qed.

Lemma at_nodup_keys_perm l1 l2 :
  Permutation l1 l2 -> NoDup (map edge_key l1) -> NoDup (map edge_key l2).
Proof. intros P; apply Permutation_NoDup, Permutation_map, P. Qed.

Lemma pair_leb_e_total x y : pair_leb_e x y = true \/ pair_leb_e y x = true.
Proof. apply pair_leb_total. Qed.
Lemma pair_leb_e_trans x y z :
  pair_leb_e x y = true -> pair_leb_e y z = true -> pair_leb_e x z = true.
Proof. apply pair_leb_trans. Qed.

Lemma at_sorted_perm_eq_keyed l1 l2 :
  NoDup (map edge_key l1) ->
  StronglySorted (Base.le pair_leb_e) l1 -> StronglySorted (Base.le pair_leb_e) l2 ->
  Permutation l1 l2 -> l1 = l2.
Proof.
  revert l2; induction l1 as [|x l1 IH]; intros l2 ND S1 S2 P.
  - apply Permutation_nil in P; subst; reflexivity.
  - destruct l2 as [|y l2]; [apply Permutation_sym, Permutation_nil in P; discriminate|].
    inversion S1 as [|? ? S1' H1]; inversion S2 as [|? ? S2' H2]; subst.
    rewrite Forall_forall in H1, H2.
    assert (Hx : In x (y :: l2)) by (eapply Permutation_in; [exact P|left; reflexivity]).
    assert (Hy : In y (x :: l1)) by
      (eapply Permutation_in; [symmetry; exact P|left; reflexivity]).
    assert (E : x = y).
    { destruct Hx as [Hx|Hx]; [symmetry; exact Hx|].
      destruct Hy as [Hy|Hy]; [exact Hy|].
      apply (at_key_inj (x :: l1)); [exact ND|left; reflexivity|right; exact Hy|].
      apply pair_leb_antisym; [apply (H1 y Hy)|apply (H2 x Hx)]. }
    subst y; f_equal; apply IH; try assumption.
    + simpl in ND; inversion ND; assumption.
    + eapply Permutation_cons_inv; exact P.
Qed.

Lemma at_isort_edges_perm_eq l1 l2 :
  NoDup (map edge_key l1) -> Permutation l1 l2 -> isort pair_leb_e l1 = isort pair_leb_e l2.
Proof.
  intros ND P. apply at_sorted_perm_eq_keyed.
  - eapply at_nodup_keys_perm; [apply isort_perm|exact ND].
  - apply isort_sorted; [apply pair_leb_e_total|apply pair_leb_e_trans].
  - apply isort_sorted; [apply pair_leb_e_total|apply pair_leb_e_trans].
  - rewrite <- (isort_perm pair_leb_e l1), <- (isort_perm pair_leb_e l2); exact P.
Qed.

(** * find_edge / find_node *)

Lemma at_find_edge_some s d l e :
  find_edge s d l = Some e -> In e l /\ esrc e = s /\ edst e = d.
Proof.
  induction l as [|a l IH]; simpl; [discriminate|].
  destruct (name_eqb_spec s (esrc a)) as [Es|Es]; simpl.
  - destruct (name_eqb_spec d (edst a)) as [Ed|Ed].
    + intros [= <-]; auto.
    + intros H; destruct (IH H) as (Hin & Hs & Hd); auto.
  - intros H; destruct (IH H) as (Hin & Hs & Hd); auto.
Qed.

Lemma at_find_edge_none s d l :
  find_edge s d l = None <-> (forall e, In e l -> ~ (esrc e = s /\ edst e = d)).
Proof.
  induction l as [|a l IH]; simpl.
  - split; [intros _ e []|reflexivity].
  - destruct (name_eqb_spec s (esrc a)) as [Es|Es]; simpl.
    + destruct (name_eqb_spec d (edst a)) as [Ed|Ed].
      * split; [discriminate|]. intros H; exfalso; apply (H a); auto.
      * rewrite IH; split.
        -- intros H e [<-|He]; [intros [_ E]; congruence|apply H, He].
        -- intros H e He; apply H; right; exact He.
    + rewrite IH; split.
      * intros H e [<-|He]; [intros [E _]; congruence|apply H, He].
      * intros H e He; apply H; right; exact He.
Qed.

Lemma at_find_edge_in l e :
  NoDup (map edge_key l) -> In e l -> find_edge (esrc e) (edst e) l = Some e.
Proof.
  intros ND Hin. destruct (find_edge (esrc e) (edst e) l) as [e'|] eqn:E.
  - apply at_find_edge_some in E. destruct E as (Hin' & Hs & Hd).
    f_equal. apply (at_key_inj l); try assumption. unfold edge_key; congruence.
  - exfalso. rewrite at_find_edge_none in E. apply (E e Hin); auto.
Qed.

Lemma at_find_edge_perm s d l1 l2 :
  NoDup (map edge_key l1) -> Permutation l1 l2 -> find_edge s d l1 = find_edge s d l2.
Proof.
  intros ND P.
  destruct (find_edge s d l1) as [e|] eqn:E1.
  - apply at_find_edge_some in E1. destruct E1 as (Hin & <- & <-).
    symmetry; apply at_find_edge_in.
    + eapply at_nodup_keys_perm; eassumption.
    + eapply Permutation_in; eassumption.
  - destruct (find_edge s d l2) as [e|] eqn:E2; [|reflexivity].
    apply at_find_edge_some in E2. destruct E2 as (Hin & Hs & Hd).
    rewrite at_find_edge_none in E1. exfalso; apply (E1 e); [|auto].
    eapply Permutation_in; [symmetry; exact P|exact Hin].
Qed.

Lemma at_find_node_some id l n : find_node id l = Some n -> In n l /\ nid n = id.
Proof.
  induction l as [|a l IH]; simpl; [discriminate|].
  destruct (name_eqb_spec id (nid a)) as [E|E].
  - intros [= <-]; auto.
  - intros H; destruct (IH H); auto.
Qed.

Lemma at_find_node_none id l : find_node id l = None <-> ~ In id (map nid l).
Proof.
  induction l as [|a l IH]; simpl; [tauto|].
  destruct (name_eqb_spec id (nid a)) as [E|E].
  - split; [discriminate|]. intros H; exfalso; apply H; left; congruence.
  - rewrite IH. split; [intros H [H'|H']; [congruence|contradiction]|tauto].
Qed.

Lemma at_find_node_in l n : NoDup (map nid l) -> In n l -> find_node (nid n) l = Some n.
Proof.
  induction l as [|a l IH]; simpl; intros ND Hin; [contradiction|].
  inversion ND as [|? ? Hn ND']; subst.
  destruct (name_eqb_spec (nid n) (nid a)) as [E|E].
  - destruct Hin as [->|Hin]; [reflexivity|].
    exfalso; apply Hn. rewrite <- E. apply in_map; exact Hin.
  - destruct Hin as [->|Hin]; [congruence|]. apply IH; assumption.
Qed.

Lemma at_node_exists_in g id : node_exists g id = true <-> In id (node_ids g).
Proof.
  unfold node_exists, get_node, node_ids.
  destruct (find_node id (gnodes g)) as [n|] eqn:E.
  - apply at_find_node_some in E. destruct E as [Hin <-]. split; [intros _|reflexivity].
    apply in_map; exact Hin.
  - apply at_find_node_none in E. split; [discriminate|contradiction].
Qed.

Lemma at_node_exists_false g id : node_exists g id = false <-> ~ In id (node_ids g).
Proof. rewrite <- at_node_exists_in. destruct (node_exists g id); split; congruence. Qed.

(** * equiv is an equivalence *)

Lemma node_equiv_refl n : node_equiv n n.
Proof. unfold node_equiv; repeat split; reflexivity. Qed.

Lemma node_equiv_sym a b : node_equiv a b -> node_equiv b a.
Proof.
  unfold node_equiv; intros (H1 & H2 & H3 & H4 & H5); repeat split; try congruence;
    symmetry; assumption.
Qed.

Lemma node_equiv_trans a b c : node_equiv a b -> node_equiv b c -> node_equiv a c.
Proof.
  unfold node_equiv; intros (H1 & H2 & H3 & H4 & H5) (K1 & K2 & K3 & K4 & K5);
    repeat split; try congruence; etransitivity; eassumption.
Qed.

Lemma equiv_refl g : equiv g g.
Proof.
  unfold equiv; repeat split; try reflexivity. apply at_Forall2_refl, node_equiv_refl.
Qed.

Lemma equiv_sym g h : equiv g h -> equiv h g.
Proof.
  unfold equiv; intros (H1 & H2 & H3 & H4 & H5 & H6); repeat split; try congruence;
    try (symmetry; assumption).
  apply at_Forall2_sym; [apply node_equiv_sym|exact H1].
Qed.

Lemma equiv_trans g h i : equiv g h -> equiv h i -> equiv g i.
Proof.
  unfold equiv; intros (H1 & H2 & H3 & H4 & H5 & H6) (K1 & K2 & K3 & K4 & K5 & K6);
    repeat split; try congruence; try (etransitivity; eassumption).
  eapply at_Forall2_trans; [apply node_equiv_trans|exact H1|exact K1].
Qed.

(** * Views of equivalent states *)

Lemma at_dedup_perm l1 l2 : Permutation l1 l2 -> Permutation (dedup l1) (dedup l2).
Proof.
  intros P. apply NoDup_Permutation; try apply dedup_nodup.
  intros x; rewrite !dedup_in. split; apply Permutation_in; [exact P|symmetry; exact P].
Qed.

Lemma at_sort_dedup_perm l1 l2 :
  Permutation l1 l2 -> sort_names (dedup l1) = sort_names (dedup l2).
Proof. intros P; apply sort_names_perm_eq, at_dedup_perm, P. Qed.

Lemma at_find_node_rel (R : node -> node -> Prop) id l1 l2 :
  (forall a b, R a b -> nid a = nid b) ->
  Forall2 R l1 l2 ->
  match find_node id l1, find_node id l2 with
  | Some a, Some b => R a b
  | None, None => True
  | _, _ => False
  end.
Proof.
  intros HR. induction 1 as [|a b l1 l2 Hab F IH]; simpl; [exact I|].
  rewrite (HR a b Hab).
  destruct (name_eqb id (nid b)); [exact Hab|exact IH].
Qed.

Lemma at_find_node_equiv id l1 l2 :
  Forall2 node_equiv l1 l2 ->
  match find_node id l1, find_node id l2 with
  | Some a, Some b => node_equiv a b
  | None, None => True
  | _, _ => False
  end.
Proof. apply at_find_node_rel. intros a b H; apply H. Qed.

Section ObsEquiv.
  Variable parse : name -> option (name * Z).
  Variable k : kind.
  Variables g h : graph.
  Hypothesis Hinv : Inv parse k g.
  Hypothesis Heq : equiv g h.

  Let Hnodes : Forall2 node_equiv (gnodes g) (gnodes h) := proj1 Heq.
  Let Hsrc : Permutation (gsrc g) (gsrc h) := proj1 (proj2 Heq).
  Let Hdst : Permutation (gdst g) (gdst h) := proj1 (proj2 (proj2 Heq)).

  Lemma at_nd_src : NoDup (map edge_key (gsrc g)).
  Proof. apply (inv_nodup_keys Hinv). Qed.
  Lemma at_nd_dst : NoDup (map edge_key (gdst g)).
  Proof.
    eapply at_nodup_keys_perm; [symmetry; apply (inv_mirror Hinv)|apply at_nd_src].
  Qed.

  Lemma oe_nodes_sorted : Forall2 node_equiv (nodes_sorted g) (nodes_sorted h).
  Proof.
    unfold nodes_sorted. apply at_isort_Forall2; [|exact Hnodes].
    intros a a' b b' (Ha & _) (Hb & _). unfold node_leb. rewrite Ha, Hb; reflexivity.
  Qed.

  Lemma oe_v_nodes : v_nodes g = v_nodes h.
  Proof.
    unfold v_nodes. eapply at_map_Forall2; [apply oe_nodes_sorted|].
    intros a b (H1 & H2 & H3 & _). congruence.
  Qed.

  Lemma oe_v_node_names : v_node_names g = v_node_names h.
  Proof.
    unfold v_node_names. eapply at_map_Forall2; [apply oe_nodes_sorted|].
    intros a b (H1 & _). exact H1.
  Qed.

  Lemma oe_sorted_edges : sorted_edges g = sorted_edges h.
  Proof. unfold sorted_edges. apply at_isort_edges_perm_eq; [apply at_nd_src|exact Hsrc]. Qed.

  Lemma oe_sorted_dst : isort pair_leb_e (gdst g) = isort pair_leb_e (gdst h).
  Proof. apply at_isort_edges_perm_eq; [apply at_nd_dst|exact Hdst]. Qed.

  Lemma oe_edges_from n : edges_from g n = edges_from h n.
  Proof.
    unfold edges_from. apply at_isort_edges_perm_eq.
    - apply at_nodup_keys_filter, at_nd_src.
    - apply at_filter_perm, Hsrc.
  Qed.

  Lemma oe_edges_into n : edges_into g n = edges_into h n.
  Proof.
    unfold edges_into. apply at_isort_edges_perm_eq.
    - apply at_nodup_keys_filter, at_nd_dst.
    - apply at_filter_perm, Hdst.
  Qed.

  Lemma oe_edge_at s d : edge_at g s d = edge_at h s d.
  Proof. unfold edge_at. apply at_find_edge_perm; [apply at_nd_src|exact Hsrc]. Qed.

  Lemma oe_get_node n :
    match get_node g n, get_node h n with
    | Some a, Some b => node_equiv a b
    | None, None => True
    | _, _ => False
    end.
  Proof. unfold get_node. apply at_find_node_equiv, Hnodes. Qed.

  Lemma oe_node_exists n : node_exists g n = node_exists h n.
  Proof.
    unfold node_exists. pose proof (oe_get_node n) as H.
    destruct (get_node g n), (get_node h n); try reflexivity; contradiction.
  Qed.

  Lemma oe_v_get_edge s d oty : v_get_edge g s d oty = v_get_edge h s d oty.
  Proof. unfold v_get_edge. rewrite oe_edge_at; reflexivity. Qed.

  Lemma oe_v_edge_exists s d oty : v_edge_exists g s d oty = v_edge_exists h s d oty.
  Proof. unfold v_edge_exists. rewrite oe_edge_at; reflexivity. Qed.

  Lemma oe_v_parents n : v_parents g n = v_parents h n.
  Proof.
    unfold v_parents. pose proof (oe_get_node n) as H.
    destruct (get_node g n) as [a|], (get_node h n) as [b|]; try reflexivity; try contradiction.
    destruct H as (_ & _ & _ & Hi & _). f_equal. apply at_sort_dedup_perm, Hi.
  Qed.

  Lemma oe_v_children n : v_children g n = v_children h n.
  Proof.
    unfold v_children. pose proof (oe_get_node n) as H.
    destruct (get_node g n) as [a|], (get_node h n) as [b|]; try reflexivity; try contradiction.
    destruct H as (_ & _ & _ & _ & Ho). f_equal. apply at_sort_dedup_perm, Ho.
  Qed.

  Lemma oe_v_neighbors n : v_neighbors g n = v_neighbors h n.
  Proof.
    unfold v_neighbors, v_edges_from, v_edges_into.
    rewrite oe_node_exists, oe_edges_from, oe_edges_into; reflexivity.
  Qed.

  Lemma oe_v_inputs : v_inputs g = v_inputs h.
  Proof.
    unfold v_inputs. rewrite oe_v_node_names. apply filter_ext.
    intros n. unfold v_edges_into. rewrite oe_edges_into; reflexivity.
  Qed.

  Lemma oe_v_outputs : v_outputs g = v_outputs h.
  Proof.
    unfold v_outputs. rewrite oe_v_node_names. apply filter_ext.
    intros n. unfold v_edges_from. rewrite oe_edges_from; reflexivity.
  Qed.

  Lemma oe_v_edges : v_edges g = v_edges h.
  Proof. apply oe_sorted_edges. Qed.

  Lemma oe_v_contemporaneous n : v_contemporaneous g n = v_contemporaneous h n.
  Proof.
    unfold v_contemporaneous, v_nodes_at_lag. pose proof (oe_get_node n) as H.
    destruct (get_node g n) as [a|], (get_node h n) as [b|]; try reflexivity; try contradiction.
    destruct H as (_ & _ & Hm & _). rewrite Hm.
    pose proof Heq as (_ & _ & _ & _ & Hl & _). rewrite Hl. reflexivity.
  Qed.

  Lemma oe_map_meta {C} (f : meta -> C) :
    map (fun n => f (nmeta n)) (nodes_sorted g) = map (fun n => f (nmeta n)) (nodes_sorted h).
  Proof.
    eapply at_map_Forall2; [apply oe_nodes_sorted|].
    intros a b (_ & _ & Hm & _). rewrite Hm; reflexivity.
  Qed.

  Lemma oe_v_variables : v_variables g = v_variables h.
  Proof. unfold v_variables. rewrite (oe_map_meta meta_var). reflexivity. Qed.

  Lemma oe_node_lags : node_lags g = node_lags h.
  Proof. unfold node_lags. rewrite (oe_map_meta meta_lag). reflexivity. Qed.

  Lemma oe_v_all_variable_names : v_all_variable_names parse g = v_all_variable_names parse h.
  Proof. unfold v_all_variable_names. rewrite oe_v_node_names. reflexivity. Qed.

  Lemma oe_obs_core pool : obs_core g pool = obs_core h pool.
  Proof.
    unfold obs_core, v_edges_of_type, v_nondirected.
    rewrite oe_v_nodes, oe_v_edges, oe_v_inputs, oe_v_outputs.
    f_equal. f_equal. f_equal; [|f_equal].
    - apply flat_map_ext. intros n. unfold v_edges_from, v_edges_into.
      rewrite oe_node_exists, oe_edges_from, oe_edges_into, oe_v_parents, oe_v_children,
        oe_v_neighbors. reflexivity.
    - f_equal. f_equal. f_equal.
      apply flat_map_ext. intros s. apply flat_map_ext. intros d.
      rewrite !oe_v_edge_exists, oe_v_get_edge.
      f_equal. f_equal. f_equal. f_equal.
      apply map_ext. intros t. apply oe_v_edge_exists.
  Qed.

  Lemma oe_obs_private : obs_private g = obs_private h.
  Proof.
    unfold obs_private. rewrite oe_sorted_dst. f_equal.
    eapply at_flat_map_Forall2; [apply oe_nodes_sorted|].
    intros a b (_ & _ & _ & Hi & Ho).
    rewrite (sort_names_perm_eq Hi), (sort_names_perm_eq Ho). reflexivity.
  Qed.

  Lemma oe_obs_ts pool lags vars : obs_ts parse g pool lags vars = obs_ts parse h pool lags vars.
  Proof.
    unfold obs_ts, v_max_backward, v_max_forward, v_nodes_at_lag, v_nodes_for_var.
    rewrite oe_v_variables, oe_v_all_variable_names, oe_node_lags.
    pose proof Heq as (_ & _ & _ & _ & Hl & Hv). rewrite Hl, Hv.
    f_equal; [|f_equal; f_equal; f_equal].
    - eapply at_flat_map_Forall2; [apply oe_nodes_sorted|].
      intros a b (_ & _ & Hm & _). rewrite Hm; reflexivity.
    - apply flat_map_ext. intros n. rewrite oe_v_contemporaneous. reflexivity.
  Qed.

  Lemma oe_observe pool lags vars :
    observe parse k g pool lags vars = observe parse k h pool lags vars.
  Proof.
    unfold observe. rewrite oe_obs_core, oe_obs_private. f_equal. f_equal.
    generalize k. intros [|]; [reflexivity|]. apply oe_obs_ts.
  Qed.
End ObsEquiv.
