(** Facts.v — the side conditions of the cache meta-theorem (Cache.v), decided BY COMPUTATION on
    the tables that tools/extract_facts.py extracted from the Python source (Extracted.v).

    Nothing in this file is typed in by hand about the Python code except the EXPECTED values that
    are compared with the tables; if the Python source changes in a relevant way, regenerating
    Extracted.v makes this file fail to compile (fail closed).

    Method resolution.  [CG] = CausalGraph, [TS] = TimeSeriesCausalGraph (single base: CausalGraph).
    A reference [m] made from a method body running on an object of dynamic class [d] resolves along the
    MRO of [d] (TS first, then CG) — also when the body itself is defined in CG (dynamic dispatch).
    A reference ["super().m"] made from a body OWNED by class [o] resolves in the classes after [o]. *)
From CG Require Import Base Cache Extracted.
From Coq Require Import String.
Local Open Scope string_scope.

(** * Table access *)

Definition entry : Type := string * bool * bool * bool * list string.
Definition e_name (e : entry) : string := let '(n, _, _, _, _) := e in n.
Definition e_public (e : entry) : bool := let '(_, p, _, _, _) := e in p.
Definition e_decorated (e : entry) : bool := let '(_, _, d, _, _) := e in d.
Definition e_writes (e : entry) : bool := let '(_, _, _, w, _) := e in w.
Definition e_refs (e : entry) : list string := let '(_, _, _, _, r) := e in r.

Definition mem_str (s : string) (l : list string) : bool := existsb (String.eqb s) l.
Definition subset_str (a b : list string) : bool := forallb (fun x => mem_str x b) a.
Definition seteq_str (a b : list string) : bool := subset_str a b && subset_str b a.

Lemma mem_str_In : forall s l, mem_str s l = true <-> In s l.
Proof.
  intros s l. unfold mem_str. rewrite existsb_exists. split.
  - intros [x [Hin Heq]]. apply String.eqb_eq in Heq. subst x. exact Hin.
  - intros Hin. exists s. split; [exact Hin|apply String.eqb_refl].
Qed.

Fixpoint find_entry (n : string) (t : list entry) : option entry :=
  match t with
  | [] => None
  | e :: t' => if String.eqb n (e_name e) then Some e else find_entry n t'
  end.

Inductive cls := CG | TS.

Definition table (c : cls) : list entry :=
  match c with CG => methods_CausalGraph | TS => methods_TimeSeriesCausalGraph end.
Definition mro (d : cls) : list cls := match d with CG => [CG] | TS => [TS; CG] end.
Definition after (o : cls) : list cls := match o with CG => [] | TS => [CG] end.

Fixpoint resolve_in (n : string) (cs : list cls) : option (cls * entry) :=
  match cs with
  | [] => None
  | c :: cs' => match find_entry n (table c) with
                | Some e => Some (c, e)
                | None => resolve_in n cs'
                end
  end.

Definition super_prefix : string := "super().".

(** [resolve d o r]: the method denoted by reference [r] in a body owned by [o] running on a [d] object. *)
Definition resolve (d o : cls) (r : string) : option (cls * entry) :=
  if String.prefix super_prefix r
  then resolve_in (String.substring 8 (String.length r - 8) r) (after o)
  else resolve_in r (mro d).

(** References that do not denote a method of the two classes.  They are pinned here; a new one makes
    [refs_known_*] fail, so that a human has to look at it.
    [_NodeCls]/[_EdgeCls]/[_SummaryGraphCls]/[__class__] are constructor calls of OTHER objects;
    ["super().__init__"] from CausalGraph is [HasMetadata.__init__] (sets [self.meta] only; the
    extractor checks that interfaces.py never mentions a core or cache attribute). *)
Definition external_refs : list string :=
  ["_EdgeCls"; "_NodeCls"; "_SummaryGraphCls"; "__class__"; "super().__init__"].

(** * Does a method write core state, directly or through PRIVATE callees?

    Public callees are not followed: each of them is itself subject to [writers_decorated].  Fuel
    exhaustion is [None] (never a normal-looking answer); the theorems show the fuel suffices. *)
Definition or_opt (a b : option bool) : option bool :=
  match a, b with
  | Some x, Some y => Some (x || y)
  | _, _ => None
  end.

Fixpoint writes_trans (fuel : nat) (d o : cls) (e : entry) : option bool :=
  match fuel with
  | 0 => None
  | S fuel' =>
      fold_left
        (fun acc r =>
           or_opt acc
             match resolve d o r with
             | None => Some false
             | Some (o', e') => if e_public e' then Some false else writes_trans fuel' d o' e'
             end)
        (e_refs e) (Some (e_writes e))
  end.

Definition all_entries (d : cls) : list (cls * entry) :=
  flat_map (fun c => map (fun e => (c, e)) (table c)) (mro d).

Definition fuel_for (d : cls) : nat := S (List.length (all_entries d)).

(** Every public method body that can run on a [d] object (own, inherited, or reachable through
    [super()]) and writes core state carries the decorator. *)
Definition writer_ok (d : cls) (oe : cls * entry) : bool :=
  let (o, e) := oe in
  if e_public e
  then match writes_trans (fuel_for d) d o e with
       | Some true => e_decorated e
       | Some false => true
       | None => false
       end
  else match writes_trans (fuel_for d) d o e with Some _ => true | None => false end.

Definition writers_decorated (d : cls) : bool := forallb (writer_ok d) (all_entries d).

(** Every reference of every body resolves to a table entry or is a pinned external reference. *)
Definition refs_known (d : cls) : bool :=
  forallb (fun oe : cls * entry =>
             let (o, e) := oe in
             forallb (fun r => match resolve d o r with
                               | Some _ => true
                               | None => mem_str r external_refs
                               end) (e_refs e))
          (all_entries d).

(** The public mutators: names (as resolved on a [d] object) of public methods that write core state. *)
Definition public_names (d : cls) : list string :=
  nodup string_dec (map (fun oe => e_name (snd oe)) (all_entries d)).

Definition is_public_writer (d : cls) (n : string) : bool :=
  match resolve_in n (mro d) with
  | Some (o, e) => e_public e && match writes_trans (fuel_for d) d o e with Some true => true | _ => false end
  | None => false
  end.

Definition public_writers (d : cls) : list string := filter (is_public_writer d) (public_names d).

(** Recorded for information: public methods that reach core writes only through OTHER public
    (decorated) methods, i.e. do not write themselves. *)
Definition calls_decorated (d : cls) (oe : cls * entry) : bool :=
  let (o, e) := oe in
  existsb (fun r => match resolve d o r with
                    | Some (_, e') => e_public e' && e_decorated e'
                    | None => false
                    end) (e_refs e).

Definition indirect_mutators (d : cls) : list string :=
  map (fun oe => e_name (snd oe))
      (filter (fun oe => e_public (snd oe) && calls_decorated d oe
                         && negb (is_public_writer d (e_name (snd oe)))) (all_entries d)).

Definition undecorated_indirect_mutators (d : cls) : list string :=
  map (fun oe => e_name (snd oe))
      (filter (fun oe => e_public (snd oe) && calls_decorated d oe && negb (e_decorated (snd oe)))
              (all_entries d)).

(** * (1) writers are decorated *)

Theorem writers_decorated_CausalGraph : writers_decorated CG = true.
Proof. vm_compute. reflexivity. Qed.

Theorem writers_decorated_TimeSeriesCausalGraph : writers_decorated TS = true.
Proof. vm_compute. reflexivity. Qed.

Theorem refs_known_CausalGraph : refs_known CG = true.
Proof. vm_compute. reflexivity. Qed.

Theorem refs_known_TimeSeriesCausalGraph : refs_known TS = true.
Proof. vm_compute. reflexivity. Qed.

(** Non-vacuity and pinning: these are the writers that were found. *)
Example public_writers_CausalGraph :
  public_writers CG = ["add_edge"; "add_node"; "delete_edge"; "delete_node"; "replace_node"].
Proof. vm_compute. reflexivity. Qed.

(** On a time-series object [add_node]/[delete_node] are the overriding versions (they update the
    lag/variable indices through private helpers); the overriding [delete_edge]/[replace_node] only
    delegate to the (public, decorated) base versions and therefore show up as indirect mutators,
    while the base versions stay reachable through [super()] and are covered by [all_entries TS]. *)
Example public_writers_TimeSeriesCausalGraph :
  public_writers TS = ["add_edge"; "add_node"; "delete_node"].
Proof. vm_compute. reflexivity. Qed.

Example indirect_mutators_CausalGraph :
  indirect_mutators CG =
  ["add_edge_by_pair"; "add_edges_from"; "add_edges_from_paths"; "add_fully_connected_nodes";
   "add_nodes_from"; "change_edge_type"; "remove_edge"; "remove_edge_by_pair"; "remove_node";
   "replace_edge"].
Proof. vm_compute. reflexivity. Qed.

Example undecorated_indirect_mutators_CausalGraph : undecorated_indirect_mutators CG = [].
Proof. vm_compute. reflexivity. Qed.

Example undecorated_indirect_mutators_TimeSeriesCausalGraph : undecorated_indirect_mutators TS = [].
Proof. vm_compute. reflexivity. Qed.

(** Private bodies that write core state (each is reached only from decorated public methods or from
    [__init__], by [writers_decorated]). *)
Definition private_writers (d : cls) : list (cls * string) :=
  map (fun oe => (fst oe, e_name (snd oe)))
      (filter (fun oe => negb (e_public (snd oe)) && e_writes (snd oe)) (all_entries d)).

Example private_writers_TimeSeriesCausalGraph :
  private_writers TS =
  [(TS, "__init__"); (TS, "_add_node_to_cache"); (TS, "_remove_node_from_cache");
   (CG, "__init__"); (CG, "_clean_empty_edge_dictionaries"); (CG, "_set_edge")].
Proof. vm_compute. reflexivity. Qed.

(** * (2), (3) memo fields are reset *)

Definition effective_reset (d : cls) : list string :=
  match d with
  | CG => reset_fields_CausalGraph
  | TS => reset_fields_TimeSeriesCausalGraph
          ++ (if reset_calls_super_TimeSeriesCausalGraph then reset_fields_CausalGraph else [])
  end.

Definition all_memo (d : cls) : list string :=
  match d with
  | CG => memo_fields_CausalGraph
  | TS => memo_fields_CausalGraph ++ memo_fields_TimeSeriesCausalGraph
  end.

Definition all_init_none (d : cls) : list string :=
  match d with
  | CG => init_none_fields_CausalGraph
  | TS => init_none_fields_CausalGraph ++ init_none_fields_TimeSeriesCausalGraph
  end.

Theorem memo_subset_reset_CausalGraph : subset_str (all_memo CG) (effective_reset CG) = true.
Proof. vm_compute. reflexivity. Qed.

Theorem memo_subset_reset_TimeSeriesCausalGraph : subset_str (all_memo TS) (effective_reset TS) = true.
Proof. vm_compute. reflexivity. Qed.

Theorem reset_calls_super_TS : reset_calls_super_TimeSeriesCausalGraph = true.
Proof. vm_compute. reflexivity. Qed.

(** The base class has nothing above it that would need a reset (its bases are the interface mixins). *)
Theorem reset_calls_super_CG : reset_calls_super_CausalGraph = false.
Proof. vm_compute. reflexivity. Qed.

Theorem bases_pinned :
  bases_CausalGraph = ["HasIdentifier"; "HasMetadata"; "CanDictSerialize"; "CanDictDeserialize"]
  /\ bases_TimeSeriesCausalGraph = ["CausalGraph"].
Proof. vm_compute. split; reflexivity. Qed.

(** A freshly constructed object has every cache attribute empty ([coherent (init c)] of Cache.v). *)
Theorem memo_subset_init_none_CausalGraph : subset_str (all_memo CG) (all_init_none CG) = true.
Proof. vm_compute. reflexivity. Qed.

Theorem memo_subset_init_none_TimeSeriesCausalGraph : subset_str (all_memo TS) (all_init_none TS) = true.
Proof. vm_compute. reflexivity. Qed.

(** Non-vacuity and pinning of the memo fields. *)
Example memo_fields_pinned :
  all_memo TS =
  ["_adjacency"; "_is_dag"; "_is_fully_directed_cached"; "_is_fully_undirected_cached"; "_networkx";
   "_is_minimal_graph"; "_is_stationary_graph"; "_variables"].
Proof. vm_compute. reflexivity. Qed.

(** The skeleton views memoise nothing and write nothing (they recompute from the graph each time). *)
Theorem skeleton_has_no_cache : memo_fields_Skeleton = [] /\ skeleton_writers = [].
Proof. vm_compute. split; reflexivity. Qed.

(** The cache attributes whose values are mutable Python objects are never handed out raw (the caller
    could otherwise change the cached value behind the cache's back: the model's [cache] changes only
    through [Read]/[Mutate]).  Booleans are immutable and may be returned as they are. *)
Definition mutable_fields : list string := ["_adjacency"; "_networkx"; "_variables"].

Definition memo_returns_all : list (string * string * string) :=
  memo_returns_CausalGraph ++ memo_returns_TimeSeriesCausalGraph.

Theorem mutable_caches_returned_by_copy :
  forallb (fun r : string * string * string =>
             let '(_, f, k) := r in negb (mem_str f mutable_fields) || negb (String.eqb k "raw"))
          memo_returns_all = true.
Proof. vm_compute. reflexivity. Qed.

Theorem every_memo_field_has_a_reader :
  seteq_str (map (fun r : string * string * string => let '(_, f, _) := r in f) memo_returns_all)
            (all_memo TS) = true.
Proof. vm_compute. reflexivity. Qed.

(** Data attributes of [self] that are neither core state nor caches, and the places where the bare
    object escapes: pinned, so that a new one is looked at by a human. *)
Theorem other_attrs_pinned :
  other_self_attrs_CausalGraph = ["_EdgeCls"; "_NodeCls"; "__class__"; "_sepsets"; "_skeleton"; "meta"]
  /\ other_self_attrs_TimeSeriesCausalGraph = ["_EdgeCls"; "_NodeCls"; "_SummaryGraphCls"; "__class__"; "meta"]
  /\ self_escapes_CausalGraph = [("__init__", "Skeleton"); ("__init__", "super")]
  /\ self_escapes_TimeSeriesCausalGraph = [].
Proof. vm_compute. repeat split; reflexivity. Qed.

(** * (4) edge types *)

Theorem dont_care_direction_set :
  seteq_str dont_care_direction ["UNDIRECTED_EDGE"; "BIDIRECTED_EDGE"; "UNKNOWN_EDGE"] = true.
Proof. vm_compute. reflexivity. Qed.

Definition pair_eqb_str (a b : string * string) : bool :=
  String.eqb (fst a) (fst b) && String.eqb (snd a) (snd b).
Definition subset_pairs (a b : list (string * string)) : bool :=
  forallb (fun x => existsb (pair_eqb_str x) b) a.

Definition expected_edge_types : list (string * string) :=
  [("UNDIRECTED_EDGE", "--"); ("DIRECTED_EDGE", "->"); ("BIDIRECTED_EDGE", "<>");
   ("UNKNOWN_EDGE", "oo"); ("UNKNOWN_DIRECTED_EDGE", "o>"); ("UNKNOWN_UNDIRECTED_EDGE", "o-")].

Theorem edge_type_values_exact :
  subset_pairs edge_type_values expected_edge_types
  && subset_pairs expected_edge_types edge_type_values
  && Nat.eqb (List.length edge_type_values) 6 = true.
Proof. vm_compute. reflexivity. Qed.

(** * (5) hypothesis H1 of the meta-theorem, for the real classes *)

Definition resets_tbl (d : cls) (m f : string) : bool :=
  match resolve_in m (mro d) with
  | Some (_, e) => e_decorated e && mem_str f (effective_reset d)
  | None => false
  end.

Definition H1_check (d : cls) : bool :=
  forallb (fun m => forallb (fun f => resets_tbl d m f) (all_memo d)) (public_writers d).

Lemma H1_check_CG : H1_check CG = true.
Proof. vm_compute. reflexivity. Qed.

Lemma H1_check_TS : H1_check TS = true.
Proof. vm_compute. reflexivity. Qed.

Theorem H1_table :
  forall d m f, In m (public_writers d) -> In f (all_memo d) -> resets_tbl d m f = true.
Proof.
  intros d m f Hm Hf.
  assert (Hc : H1_check d = true) by (destruct d; [exact H1_check_CG|exact H1_check_TS]).
  unfold H1_check in Hc. rewrite forallb_forall in Hc. specialize (Hc m Hm).
  rewrite forallb_forall in Hc. exact (Hc f Hf).
Qed.

(** * (6) Every public method that can REACH a core write, through any chain of self-calls

    [public_writers] (above) follows private callees only, as a public callee is checked on its own.
    For the instantiation below we want the set of ALL public methods whose call may change the core
    state, also through public callees ([remove_edge] calls [delete_edge], ...): the least fixpoint of
    "writes directly, or references a method in the set", over the call graph with dynamic dispatch.
    [lfp] stops when an iteration adds nothing and answers [None] when the fuel runs out. *)

Definition key : Type := cls * string.
Definition cls_eqb (a b : cls) : bool :=
  match a, b with CG, CG | TS, TS => true | _, _ => false end.
Definition key_eqb (a b : key) : bool := cls_eqb (fst a) (fst b) && String.eqb (snd a) (snd b).
Definition mem_key (k : key) (l : list key) : bool := existsb (key_eqb k) l.
Definition key_of (oe : cls * entry) : key := (fst oe, e_name (snd oe)).

Definition callees (d : cls) (oe : cls * entry) : list key :=
  flat_map (fun r => match resolve d (fst oe) r with
                     | Some oe' => [key_of oe']
                     | None => []
                     end) (e_refs (snd oe)).

Definition call_graph (d : cls) : list (key * list key) :=
  map (fun oe => (key_of oe, callees d oe)) (all_entries d).

Definition grow (g : list (key * list key)) (W : list key) : list key :=
  W ++ map fst (filter (fun kc : key * list key =>
                          negb (mem_key (fst kc) W) && existsb (fun k => mem_key k W) (snd kc)) g).

Fixpoint lfp (fuel : nat) (g : list (key * list key)) (W : list key) : option (list key) :=
  match fuel with
  | 0 => None
  | S fuel' =>
      let W' := grow g W in
      if Nat.eqb (List.length W') (List.length W) then Some W else lfp fuel' g W'
  end.

Definition reach (d : cls) (seed : cls * entry -> bool) : option (list key) :=
  lfp (fuel_for d) (call_graph d) (map key_of (filter seed (all_entries d))).

(** Bodies that may change the core state. *)
Definition mutating_bodies (d : cls) : option (list key) := reach d (fun oe => e_writes (snd oe)).

(** Bodies that may touch a cache attribute: the memo readers and everything that can call them. *)
Definition memo_reader_keys : list key :=
  map (fun r : string * string * string => let '(m, _, _) := r in (CG, m)) memo_returns_CausalGraph
  ++ map (fun r : string * string * string => let '(m, _, _) := r in (TS, m)) memo_returns_TimeSeriesCausalGraph.

Definition cache_reading_bodies (d : cls) : option (list key) :=
  reach d (fun oe => mem_key (key_of oe) memo_reader_keys).

Definition public_mutators (d : cls) : list string :=
  match mutating_bodies d with
  | Some W =>
      filter (fun n => match resolve_in n (mro d) with
                       | Some oe => e_public (snd oe) && mem_key (key_of oe) W
                       | None => false
                       end) (public_names d)
  | None => []
  end.

(** The fuel suffices (the answer is [Some]) and the result is a fixpoint. *)
Theorem mutating_bodies_fixpoint :
  forall d, exists W, mutating_bodies d = Some W /\ grow (call_graph d) W = W.
Proof.
  intros [|].
  - destruct (mutating_bodies CG) as [W|] eqn:HW; [|vm_compute in HW; discriminate HW].
    exists W. split; [reflexivity|]. vm_compute in HW. injection HW as HW. subst W. vm_compute. reflexivity.
  - destruct (mutating_bodies TS) as [W|] eqn:HW; [|vm_compute in HW; discriminate HW].
    exists W. split; [reflexivity|]. vm_compute in HW. injection HW as HW. subst W. vm_compute. reflexivity.
Qed.

Example public_mutators_CausalGraph :
  public_mutators CG =
  ["add_edge"; "add_edge_by_pair"; "add_edges_from"; "add_edges_from_paths"; "add_fully_connected_nodes";
   "add_node"; "add_nodes_from"; "change_edge_type"; "delete_edge"; "delete_node"; "remove_edge";
   "remove_edge_by_pair"; "remove_node"; "replace_edge"; "replace_node"].
Proof. vm_compute. reflexivity. Qed.

Example public_mutators_TimeSeriesCausalGraph :
  public_mutators TS =
  ["add_time_edge";
   "add_edge"; "add_edge_by_pair"; "add_edges_from"; "add_edges_from_paths"; "add_fully_connected_nodes";
   "add_node"; "add_nodes_from"; "change_edge_type"; "delete_edge"; "delete_node"; "remove_edge";
   "remove_edge_by_pair"; "remove_node"; "replace_edge"; "replace_node"].
Proof. vm_compute. reflexivity. Qed.

(** Every public method that may change the core state is decorated, and the decorator clears every
    memo field: hypothesis (H1) of the meta-theorem in its strongest, coarse form. *)
Definition H1_mutators_check (d : cls) : bool :=
  forallb (fun m => forallb (fun f => resets_tbl d m f) (all_memo d)) (public_mutators d).

Lemma H1_mutators_check_CG : H1_mutators_check CG = true.
Proof. vm_compute. reflexivity. Qed.

Lemma H1_mutators_check_TS : H1_mutators_check TS = true.
Proof. vm_compute. reflexivity. Qed.

Theorem H1_table_mutators :
  forall d m f, In m (public_mutators d) -> In f (all_memo d) -> resets_tbl d m f = true.
Proof.
  intros d m f Hm Hf.
  assert (Hc : H1_mutators_check d = true) by (destruct d; [exact H1_mutators_check_CG|exact H1_mutators_check_TS]).
  unfold H1_mutators_check in Hc. rewrite forallb_forall in Hc. specialize (Hc m Hm).
  rewrite forallb_forall in Hc. exact (Hc f Hf).
Qed.

Theorem public_writers_are_mutators :
  forall d, subset_str (public_writers d) (public_mutators d) = true.
Proof. intros [|]; vm_compute; reflexivity. Qed.

(** No body that may change the core state can reach a memo reader: during a mutator call the cache
    attributes are touched by [_reset_cached_attributes] only.  (Otherwise a value computed on an
    intermediate core state could survive a call that raises; the model's [mutate] step, in which the
    cache is either kept or cleared, would not describe such a call.) *)
Definition disjoint_keys (a b : option (list key)) : bool :=
  match a, b with
  | Some x, Some y => forallb (fun k => negb (mem_key k y)) x
  | _, _ => false
  end.

Theorem mutators_do_not_read_caches_CausalGraph :
  disjoint_keys (mutating_bodies CG) (cache_reading_bodies CG) = true.
Proof. vm_compute. reflexivity. Qed.

Theorem mutators_do_not_read_caches_TimeSeriesCausalGraph :
  disjoint_keys (mutating_bodies TS) (cache_reading_bodies TS) = true.
Proof. vm_compute. reflexivity. Qed.

(** * The meta-theorem instantiated with the tables

    What the tables cannot give is the SEMANTICS of the Python methods; it enters as two explicit
    hypotheses about an arbitrary semantics [apply] of public method calls (method name, arguments)
    and arbitrary uncached answers [compute]:
    - [non_mutators_preserve]: a call of a public method outside [public_mutators d] does not change
      any derived answer (the extractor found no core write reachable from it through self-calls);
    - [failure_atomic]: a call that raises leaves every derived answer unchanged (property C03).
    Under these, any interleaving of reads and public method calls is coherent, and every read returns
    what a freshly reconstructed, never queried object would return. *)
Section RealClass.
  Variable d : cls.
  Variable core value args : Type.
  Variable compute : string -> core -> value.
  Variable stores : string -> value -> bool.
  Variable apply : string * args -> core -> core * bool.

  Definition tfield : Type := { f : string | mem_str f (all_memo d) = true }.

  Definition tfield_eq_dec : forall a b : tfield, {a = b} + {a <> b}.
  Proof.
    intros [a Ha] [b Hb]. destruct (string_dec a b) as [Heq|Hne].
    - left. subst b. f_equal. apply (Eqdep_dec.UIP_dec bool_dec).
    - right. intros Heq. apply Hne. injection Heq as Heq. exact Heq.
  Defined.

  Definition t_compute (f : tfield) (c : core) : value := compute (proj1_sig f) c.
  Definition t_stores (f : tfield) (v : value) : bool := stores (proj1_sig f) v.
  Definition t_resets (m : string * args) (f : tfield) : bool := resets_tbl d (fst m) (proj1_sig f).
  Definition t_fail_clears (_ : string * args) (_ : tfield) : bool := false.

  Hypothesis non_mutators_preserve :
    forall m a c c' ok, mem_str m (public_mutators d) = false -> apply (m, a) c = (c', ok) ->
                        forall f, In f (all_memo d) -> compute f c' = compute f c.
  Hypothesis failure_atomic :
    forall m a c c', apply (m, a) c = (c', false) ->
                     forall f, In f (all_memo d) -> compute f c' = compute f c.

  Lemma real_H1 :
    forall m c c' f, apply m c = (c', true) -> t_resets m f = false -> t_compute f c' = t_compute f c.
  Proof.
    intros [m a] c c' [f Hf] Hap Hr. unfold t_resets in Hr. unfold t_compute. simpl in *.
    assert (Hin : In f (all_memo d)) by (apply mem_str_In; exact Hf).
    destruct (mem_str m (public_mutators d)) eqn:Hw.
    - apply mem_str_In in Hw. rewrite (H1_table_mutators d m f Hw Hin) in Hr. discriminate Hr.
    - exact (non_mutators_preserve m a c c' true Hw Hap f Hin).
  Qed.

  Lemma real_H2 :
    forall m c c', apply m c = (c', false) ->
                   forall f, t_fail_clears m f = false -> t_compute f c' = t_compute f c.
  Proof.
    intros [m a] c c' Hap [f Hf] _. unfold t_compute. simpl.
    apply (failure_atomic m a c c' Hap). apply mem_str_In. exact Hf.
  Qed.

  Theorem real_class_history_coherent :
    forall c h,
      coherent t_compute (run tfield_eq_dec t_compute t_stores apply t_resets t_fail_clears (init c) h).
  Proof. intros c h. apply history_coherent; [exact real_H1|exact real_H2]. Qed.

  Theorem real_class_read_correct :
    forall c h f,
      snd (read tfield_eq_dec t_compute t_stores f
                (run tfield_eq_dec t_compute t_stores apply t_resets t_fail_clears (init c) h))
      = t_compute f (st (run tfield_eq_dec t_compute t_stores apply t_resets t_fail_clears (init c) h)).
  Proof. intros c h f. apply read_correct; [exact real_H1|exact real_H2]. Qed.

  Theorem real_class_read_equals_fresh :
    forall c h f,
      snd (read tfield_eq_dec t_compute t_stores f
                (run tfield_eq_dec t_compute t_stores apply t_resets t_fail_clears (init c) h))
      = snd (read tfield_eq_dec t_compute t_stores f
                  (init (fold_left (core_step (field := tfield) apply) h c))).
  Proof. intros c h f. apply read_equals_fresh; [exact real_H1|exact real_H2]. Qed.
End RealClass.
