(** SFCodec.v — one regenerated-source fact (see SourceFacts.v); a closed computation on Extracted.v.
    The regular expressions used anywhere in utils.py and the values returned by get_name_with_lag are exactly the ones
    Names.v was written from (Appendix B of DESIGN.md describes how Names.parse follows these three patterns and Names.fmt
    these three templates).  Control flow, local names and messages are not pinned. *)
From Coq Require Import String List Bool.
From CG Require Import Extracted SourceFacts.
Import ListNotations.
Local Open Scope string_scope.

Definition modelled_name_codec_constants : list (string * string) :=
[
  ("regex", "^(?s:(.+?\n*))(?: lag\(n=(\d+)\))?(?: future\(n=(\d+)\))?$");
  ("regex", "lag\(n=(\d+)\)");
  ("regex", "future\(n=(\d+)\)");
  ("return", "v0");
  ("return", "f'{v0} future(n={lag})'");
  ("return", "f'{v0} lag(n={-lag})'")
].
Lemma name_codec_source_is_the_modelled_one : name_codec_constants = modelled_name_codec_constants.
Proof. reflexivity. Qed.
