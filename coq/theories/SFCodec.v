(** SFCodec.v — one regenerated-source fact (see SourceFacts.v); a closed computation on Extracted.v. *)
From Coq Require Import String List Bool.
From CG Require Import Extracted SourceFacts.
Import ListNotations.
Local Open Scope string_scope.

Lemma name_codec_source_is_the_modelled_one : name_codec_source = modelled_name_codec_source.
Proof. reflexivity. Qed.
