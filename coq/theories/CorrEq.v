(** CorrEq.v — entry points of the C07 correspondence check (DEFINITIONS ONLY). *)
From CG Require Import Base Graph GraphObs Tok Names GraphTS Equality.
From Coq Require Import Uint63.

Definition tk_rb (r : res bool) : list N :=
  match r with Ok b => tk_bool b | Err e => [(10 + err_code e)%N] end.

Definition eq_obs (k : kind) (g h : graph) : list N :=
  tk_rb (graph_eqb k false g h) ++ tk_rb (graph_eqb k false h g) ++ tk_rb (graph_neb k g h)
  ++ tk_rb (graph_eqb k true g h) ++ tk_rb (graph_eqb k true h g)
  ++ tk_rb (skeleton_eqb k false g h) ++ tk_rb (skeleton_eqb k false h g) ++ tk_rb (skeleton_neb k g h)
  ++ tk_rb (skeleton_eqb k true g h)
  ++ tk_rb (graph_eqb k false g g) ++ tk_rb (graph_eqb k true h h).

Record ecase := { ec_kind : kind; ec_g : list op; ec_h : list op; ec_expected : list N }.

Fixpoint list_N_eqb (a b : list N) : bool :=
  match a, b with
  | [], [] => true
  | x :: a', y :: b' => N.eqb x y && list_N_eqb a' b'
  | _, _ => false
  end.

Definition ecase_ok (c : ecase) : bool :=
  let g := g_run (ec_kind c) (ec_g c) (empty_graph []) in
  let h := g_run (ec_kind c) (ec_h c) (empty_graph []) in
  list_N_eqb (eq_obs (ec_kind c) g h) (ec_expected c).

Fixpoint emismatches_from (i : nat) (cs : list ecase) : list nat :=
  match cs with
  | [] => []
  | c :: cs' => if ecase_ok c then emismatches_from (S i) cs' else i :: emismatches_from (S i) cs'
  end.
Definition emismatches (cs : list ecase) : list nat := emismatches_from 0 cs.
Definition eq_tokens (c : ecase) : list N :=
  eq_obs (ec_kind c) (g_run (ec_kind c) (ec_g c) (empty_graph [])) (g_run (ec_kind c) (ec_h c) (empty_graph [])).
