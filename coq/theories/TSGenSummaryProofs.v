(** TSGenSummaryProofs.v — the function GENERATED from [TimeSeriesCausalGraph.get_summary_graph]
    (TSGenSummary.v, tools/translate_ts_summary.py) equals the hand-written model [TSGraph.summary] for ALL
    inputs, without any well-formedness premise, and the theorems of SummaryProofs.v transfer to it.
    This file depends on TSGenSummary.v only (not on TSGenStationary.v).

    The proofs never quote the generated loop bodies: they are picked out of the goal ([set (body := ..)]), so
    renaming a local, reordering independent assignments or changing a message in the Python source does not
    break them; a change of the control flow does. *)
From CG Require Import Base Dec Digraph TSGraph TSGraphProofs SummaryProofs PyRtTSa TSGenSummary.
Set Implicit Arguments.
Local Open Scope Z_scope.

(** * Loops that stop at the first exception *)
Definition step_ctl {S R : Type} (r : res S) : pyctl S R :=
  match r with Ok s => Cont s | Err e => Done (Exc e) end.

Lemma py_for_rfold (X S R : Type) (f : S -> X -> res S) (body : X -> S -> pyctl S R) (k : S -> pyout R) :
  (forall x s, body x s = step_ctl (f s x)) ->
  forall xs s, py_for py_top xs s body k = match rfold f xs s with Ok s' => k s' | Err e => Exc e end.
Proof.
  intros Hb; induction xs as [|x xs IH]; intros s; cbn [py_for rfold]; [reflexivity|].
  rewrite Hb; destruct (f s x) as [s'|e]; cbn [step_ctl]; [apply IH|reflexivity].
Qed.

(** * Rows of the table against the model's terms *)
Lemma find_node_key g k n : find_node g k = Some n -> tv n = fst k /\ tl n = snd k.
Proof.
  unfold find_node; intros H; apply find_some in H; destruct H as [_ H].
  apply key_eqb_eq in H; unfold nkey in H; subst k; split; reflexivity.
Qed.

Lemma plain_node_of_summary_node g k n :
  find_node g k = Some n ->
  py_plain_node_of (py_TimeSeriesNode (fst k) (tm n) (tvt n)) = summary_node n.
Proof.
  intros H; destruct (find_node_key g k H) as [E _].
  unfold py_plain_node_of, py_TimeSeriesNode, summary_node, tident, lag_suffix; cbn.
  rewrite app_nil_r, E; reflexivity.
Qed.

Lemma mem_node_names sg v : mem v (py_cg_get_node_names sg) = p_node_exists sg v.
Proof.
  unfold py_cg_get_node_names.
  destruct (mem v (sort_names (map pn (pnodes sg)))) eqn:E1, (p_node_exists sg v) eqn:E2; try reflexivity.
  - apply mem_in, sort_names_in, p_node_exists_in in E1; congruence.
  - apply p_node_exists_in, sort_names_in, mem_in in E2; congruence.
Qed.

Lemma variables_nodup g : NoDup (variables g).
Proof.
  unfold variables, sort_names.
  eapply Permutation_NoDup; [apply isort_perm|apply dedup_nodup].
Qed.

Lemma p_node_exists_snoc sg n v :
  p_node_exists {| pnodes := pnodes sg ++ [n]; pedges := pedges sg; pgmeta := pgmeta sg |} v
  = p_node_exists sg v || name_eqb (pn n) v.
Proof. unfold p_node_exists; cbn; rewrite existsb_app; cbn; rewrite orb_false_r; reflexivity. Qed.

(** the second loop: [summary_var_names] is computed ONCE, before the loop; this is the same as testing the
    current graph because the variable names are pairwise distinct *)
Lemma float_loop (R : Type) (names : list name) (body : name -> pgraph -> pyctl pgraph R) (k : pgraph -> pyout R) :
  (forall v sg, body v sg = if negb (mem v names)
                            then py_bind py_in (py_cg_add_node sg v) (fun sg' => Cont sg')
                            else Cont sg) ->
  forall vars sg, NoDup vars ->
    (forall v, In v vars -> mem v names = p_node_exists sg v) ->
    py_for py_top vars sg body k = k (fold_left summary_float vars sg).
Proof.
  intros Hb; induction vars as [|v vars IH]; intros sg Hnd Hm; cbn [py_for fold_left]; [reflexivity|].
  inversion Hnd as [|? ? Hnot Hnd']; subst.
  rewrite Hb, (Hm v (or_introl eq_refl)).
  unfold summary_float at 2, p_ensure_node, py_cg_add_node; cbn [pn bare_node].
  destruct (p_node_exists sg v) eqn:E; cbn [negb py_bind].
  - apply IH; [exact Hnd'|]. intros w Hw; apply Hm; right; exact Hw.
  - apply IH; [exact Hnd'|]. intros w Hw. rewrite (Hm w (or_intror Hw)), p_node_exists_snoc.
    cbn [pn bare_node]. destruct (name_eqb_spec v w) as [->|]; [contradiction|]. rewrite orb_false_r; reflexivity.
Qed.

(** * The main theorem *)
Theorem gen_summary_equiv g : gen_get_summary_graph g = res_out (summary g).
Proof.
  unfold gen_get_summary_graph, summary, summary_body, py_ts_is_dag.
  destruct (ts_is_dag g); [|reflexivity].
  cbv zeta.
  match goal with |- py_for py_top ?xs ?s ?b ?k = _ => set (body := b); set (kk := k) end.
  rewrite (@py_for_rfold tedge pgraph pgraph (summary_step g) body kk).
  - unfold py_ts_get_edges, py_cg_new, py_deepcopy, py_ts_meta.
    destruct (rfold (summary_step g) (sorted_edges g) _) as [sg|e]; [|reflexivity].
    subst kk; cbv beta.
    match goal with |- py_for py_top ?xs ?s ?b ?k = _ => set (body2 := b) end.
    rewrite (@float_loop pgraph (py_cg_get_node_names sg) body2).
    + reflexivity.
    + intros v sg'; reflexivity.
    + apply variables_nodup.
    + intros v _; apply mem_node_names.
  - intros e sg; subst body; cbv beta.
    unfold py_isinstance_TimeSeriesNode, py_str_is_not_None, py_noderef_variable_name, py_tsedge_source,
      py_tsedge_destination, py_cg_is_edge_by_pair, py_pedge_get_edge_type, py_pedge_meta, py_tsedge_edge_type,
      py_tsedge_meta, summary_step.
    cbn [esrc edst fst snd].
    destruct (name_eqb (es e) (ed e)); [reflexivity|].
    destruct (p_edge_exists sg (ed e) (es e)) eqn:Erev.
    + unfold py_cg_get_edge. destruct (p_find_edge sg (ed e) (es e)) as [r|]; cbn [py_bind]; [|reflexivity].
      destruct (pty r); cbn [etype_eqb]; try reflexivity.
      unfold py_cg_remove_edge; rewrite Erev; cbn [py_bind].
      unfold py_cg_add_edge_ids.
      destruct (p_add_edge _ _ _ _ _); reflexivity.
    + destruct (p_edge_exists sg (es e) (ed e)); cbn [negb]; [reflexivity|].
      unfold py_noderef_meta, py_noderef_variable_type.
      destruct (find_node g (esrc e)) as [ns|] eqn:Es; cbn [py_bind]; [|reflexivity].
      destruct (find_node g (edst e)) as [nd|] eqn:Ed; cbn [py_bind]; [|reflexivity].
      unfold py_TimeSeriesEdge at 1. cbn [tl py_TimeSeriesNode]. rewrite Z.ltb_irrefl, andb_false_r. cbn [py_bind].
      unfold py_cg_add_edge_obj; cbn [eo_src eo_dst eo_ty eo_meta].
      change (es e) with (fst (esrc e)) at 1; change (ed e) with (fst (edst e)) at 1.
      rewrite (plain_node_of_summary_node g _ Es), (plain_node_of_summary_node g _ Ed).
      destruct (p_add_edge _ _ _ _ _); reflexivity.
Qed.

Corollary gen_summary_equiv_res g : out_res (gen_get_summary_graph g) = summary g.
Proof. rewrite gen_summary_equiv; destruct (summary g); reflexivity. Qed.

(** * The theorems of SummaryProofs.v, for the generated function *)
Theorem gen_summary_ok g :
  endpoints_ok g -> ts_is_dag g = true -> exists sg, gen_get_summary_graph g = Ret sg /\ c17_spec g sg.
Proof.
  intros Hw Hd; destruct (summary_ok g Hw Hd) as (sg & E & S); exists sg; split; [|exact S].
  rewrite gen_summary_equiv, E; reflexivity.
Qed.

Theorem gen_summary_not_dag g : ts_is_dag g = false -> gen_get_summary_graph g = Exc EAssert.
Proof. intros H; rewrite gen_summary_equiv, (summary_not_dag g H); reflexivity. Qed.

Theorem gen_summary_only_assert g e : endpoints_ok g -> gen_get_summary_graph g = Exc e -> e = EAssert /\ ts_is_dag g = false.
Proof.
  intros Hw E; destruct (ts_is_dag g) eqn:D.
  - destruct (gen_summary_ok Hw D) as (sg & E' & _); congruence.
  - rewrite (gen_summary_not_dag g D) in E; inversion E; auto.
Qed.

Theorem gen_summary_spec g sg : endpoints_ok g -> gen_get_summary_graph g = Ret sg -> c17_spec g sg.
Proof.
  intros Hw E; apply summary_spec; [exact Hw|].
  rewrite <- gen_summary_equiv_res, E; reflexivity.
Qed.

(** the generated function's result passes the C17 oracle (decided characterisation, [c17_check_spec]) *)
Theorem gen_summary_check g sg : endpoints_ok g -> gen_get_summary_graph g = Ret sg -> c17_check g sg = true.
Proof. intros Hw E; apply c17_check_spec, gen_summary_spec; assumption. Qed.

Theorem gen_summary_nodes g sg :
  endpoints_ok g -> gen_get_summary_graph g = Ret sg ->
  NoDup (map pn (pnodes sg)) /\ forall v, In v (map pn (pnodes sg)) <-> In v (map tv (tnodes g)).
Proof. intros Hw E; destruct (gen_summary_spec Hw E); auto. Qed.

(** * Non-vacuity and pinned behaviour ([ex_g]: TSGraphProofs.v; the expected value is the one of
    SummaryProofs.ex_g_summary, obtained from the real library) *)
Example gen_ex_g_hyps : endpoints_ok ex_g /\ ts_is_dag ex_g = true.
Proof. exact ex_g_wf. Qed.

Example gen_ex_g_summary :
  match gen_get_summary_graph ex_g with
  | Ret a => c17_check ex_g a && Nat.eqb (length (pnodes a)) 4 && Nat.eqb (length (pedges a)) 2
  | Exc _ => false
  end = true.
Proof. vm_compute; reflexivity. Qed.
