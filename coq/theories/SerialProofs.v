(** SerialProofs.v — proofs about the serialisation model of Serial.v (property C05).

    Main results (all for every state satisfying [Inv parse k g] of GraphInv.v):
      1. [to_dict_same_content], [to_dict_order_independent], [to_dict_equiv]: the ORDERED
         dictionary depends only on the node set, the edge set and the graph metadata;
      2. [roundtrip_novalidate] / [copy_deep_eq] (validate = False) and [roundtrip]
         (validate = True, acyclic state; relies on two section hypotheses discharged in
         GraphInvProofs.v / GraphAcyclicProofs.v): [from_dict (to_dict g)] succeeds and is
         deeply equal to [g];
      3. [deep_eq_to_dict], [to_dict_idempotent]: serialising the result again gives the same
         dictionary;
      4. [from_dict_inv] / [roundtrip_class]; [cg_to_ts], [cg_to_ts_preserves],
         [cg_to_ts_rejects_directed_against_time], [cg_to_ts_rejects_unparsable],
         [ts_to_cg_deep_eq], [ts_to_cg_to_ts]; [skeleton_roundtrip].
    For the time-series class the round trip needs, on top of [Inv], that re-deriving the two
    reserved tags leaves the node metadata unchanged ([TagsStable]); this holds when the
    metadata lists are key-sorted ([tags_stable_sorted], the representation invariant of
    [meta]) or were produced by [set_tags] ([tags_stable_set_tags]); [ex_unsorted_not_stable]
    shows that [Inv] alone is not enough in the model. *)
From CG Require Import Base Digraph Graph GraphObs GraphInv Serial.
Set Implicit Arguments.

(** * General list / sorting lemmas *)

Lemma NoDup_map_inj_in (A B : Type) (f : A -> B) (l : list A) x y :
  NoDup (map f l) -> In x l -> In y l -> f x = f y -> x = y.
Proof.
  induction l as [|a l IH]; simpl; intros Hnd Hx Hy E; [contradiction|].
  inversion Hnd as [|? ? Hni Hnd']; subst.
  destruct Hx as [->|Hx], Hy as [->|Hy]; try reflexivity.
  - exfalso; apply Hni; rewrite E; apply in_map; exact Hy.
  - exfalso; apply Hni; rewrite <- E; apply in_map; exact Hx.
  - apply IH; assumption.
Qed.

Lemma forallb_perm (A : Type) (f : A -> bool) l l' :
  Permutation l l' -> forallb f l = forallb f l'.
Proof.
  induction 1 as [|x l l' _ IH|x y l|l l' l'' _ IH1 _ IH2]; simpl.
  - reflexivity.
  - rewrite IH; reflexivity.
  - destruct (f x), (f y); reflexivity.
  - congruence.
Qed.

Lemma forallb_map (A B : Type) (f : A -> B) (p : B -> bool) l :
  forallb p (map f l) = forallb (fun x => p (f x)) l.
Proof. induction l as [|x l IH]; simpl; [reflexivity|rewrite IH; reflexivity]. Qed.

Lemma forallb_ext_in (A : Type) (f g : A -> bool) l :
  (forall x, In x l -> f x = g x) -> forallb f l = forallb g l.
Proof.
  induction l as [|x l IH]; simpl; intros H; [reflexivity|].
  rewrite (H x (or_introl eq_refl)), IH; [reflexivity|]. intros y Hy; apply H; right; exact Hy.
Qed.

Section SortMore.
  Variable A : Type.
  Variable leb : A -> A -> bool.

  (** a sorted list is a fixed point of insertion sort (no antisymmetry needed) *)
  Lemma isort_sorted_id l : StronglySorted (le leb) l -> isort leb l = l.
  Proof.
    induction 1 as [|x l Hs IH Hall]; simpl; [reflexivity|].
    rewrite IH. destruct l as [|y l']; simpl; [reflexivity|].
    inversion Hall as [|? ? Hxy _]; subst. unfold le in Hxy; rewrite Hxy; reflexivity.
  Qed.

  (** two sorted permutations of one another are equal when the order is antisymmetric ON
      THE ELEMENTS OF THE LIST *)
  Lemma sorted_perm_eq_local l1 l2 :
    (forall x y, In x l1 -> In y l1 -> leb x y = true -> leb y x = true -> x = y) ->
    StronglySorted (le leb) l1 -> StronglySorted (le leb) l2 -> Permutation l1 l2 -> l1 = l2.
  Proof.
    revert l2; induction l1 as [|x l1 IH]; intros l2 Has S1 S2 P.
    - apply Permutation_nil in P; subst; reflexivity.
    - destruct l2 as [|y l2]; [apply Permutation_sym, Permutation_nil in P; discriminate|].
      inversion S1 as [|? ? S1' H1]; inversion S2 as [|? ? S2' H2]; subst.
      rewrite Forall_forall in H1, H2.
      assert (Exy : x = y).
      { assert (Hx : In x (y :: l2)) by (eapply Permutation_in; [exact P|left; reflexivity]).
        assert (Hy : In y (x :: l1)) by
          (eapply Permutation_in; [symmetry; exact P|left; reflexivity]).
        destruct Hx as [->|Hx]; [reflexivity|]. destruct Hy as [<-|Hy]; [reflexivity|].
        apply Has; [left; reflexivity|right; exact Hy|apply H1, Hy|apply H2, Hx]. }
      subst y; f_equal; apply IH; try assumption.
      + intros a b Ha Hb; apply Has; right; assumption.
      + eapply Permutation_cons_inv; exact P.
  Qed.

  Hypothesis leb_total : forall x y, leb x y = true \/ leb y x = true.
  Hypothesis leb_trans : forall x y z, leb x y = true -> leb y z = true -> leb x z = true.

  Lemma isort_perm_eq_local l1 l2 :
    (forall x y, In x l1 -> In y l1 -> leb x y = true -> leb y x = true -> x = y) ->
    Permutation l1 l2 -> isort leb l1 = isort leb l2.
  Proof.
    intros Has P; apply sorted_perm_eq_local; try (apply isort_sorted; assumption).
    - intros x y Hx Hy; apply Has; [apply (isort_in leb x l1), Hx|apply (isort_in leb y l1), Hy].
    - rewrite <- (isort_perm leb l1), <- (isort_perm leb l2); exact P.
  Qed.
End SortMore.

(** sorting by a key commutes with mapping to something that still carries the key *)
Lemma map_insert (A B : Type) (f : A -> B) (leb : B -> B -> bool) x l :
  map f (insert (fun a b => leb (f a) (f b)) x l) = insert leb (f x) (map f l).
Proof.
  induction l as [|y l IH]; simpl; [reflexivity|].
  destruct (leb (f x) (f y)); simpl; [reflexivity|rewrite IH; reflexivity].
Qed.

Lemma map_isort (A B : Type) (f : A -> B) (leb : B -> B -> bool) l :
  map f (isort (fun a b => leb (f a) (f b)) l) = isort leb (map f l).
Proof.
  induction l as [|x l IH]; simpl; [reflexivity|]. rewrite map_insert, IH; reflexivity.
Qed.

Lemma StronglySorted_map (A B : Type) (f : A -> B) (R : B -> B -> Prop) l :
  StronglySorted (fun a b => R (f a) (f b)) l -> StronglySorted R (map f l).
Proof.
  induction 1 as [|x l Hs IH Hall]; simpl; constructor; [exact IH|].
  rewrite Forall_forall in *; intros y Hy; apply in_map_iff in Hy.
  destruct Hy as (z & <- & Hz); apply Hall, Hz.
Qed.

(** * Node and edge lookups *)

Definition node3 (n : node) : name * vtype * meta := (nid n, nvt n, nmeta n).
Definition id3 (t : name * vtype * meta) : name := fst (fst t).
Definition leb3 (a b : name * vtype * meta) : bool := name_leb (id3 a) (id3 b).

Fixpoint find3 (id : name) (l : list (name * vtype * meta)) : option (name * vtype * meta) :=
  match l with
  | [] => None
  | t :: l' => if name_eqb id (id3 t) then Some t else find3 id l'
  end.

Lemma find_node_find3 id l : option_map node3 (find_node id l) = find3 id (map node3 l).
Proof.
  induction l as [|n l IH]; simpl; [reflexivity|].
  unfold id3 at 1; simpl. destruct (name_eqb id (nid n)); [reflexivity|exact IH].
Qed.

Lemma find3_some id l t : find3 id l = Some t -> In t l /\ id3 t = id.
Proof.
  induction l as [|a l IH]; simpl; [discriminate|].
  destruct (name_eqb_spec id (id3 a)) as [->|Hn].
  - intros [= ->]; split; [left|]; reflexivity.
  - intros H; destruct (IH H); split; [right|]; assumption.
Qed.

Lemma find3_none id l : find3 id l = None <-> ~ In id (map id3 l).
Proof.
  induction l as [|a l IH]; simpl; [tauto|].
  destruct (name_eqb_spec id (id3 a)) as [->|Hn].
  - split; [discriminate|intros H; exfalso; apply H; left; reflexivity].
  - rewrite IH; split; [intros H [E|E]; [congruence|contradiction]|tauto].
Qed.

Lemma find3_in id l t : NoDup (map id3 l) -> In t l -> id3 t = id -> find3 id l = Some t.
Proof.
  intros Hnd Hin E. destruct (find3 id l) as [t'|] eqn:F.
  - destruct (find3_some _ _ F) as [Hin' E'].
    f_equal; apply (NoDup_map_inj_in id3 l); try assumption; congruence.
  - apply find3_none in F; exfalso; apply F; rewrite <- E; apply in_map; exact Hin.
Qed.

Lemma find3_perm id l l' :
  NoDup (map id3 l) -> Permutation l l' -> find3 id l = find3 id l'.
Proof.
  intros Hnd P.
  assert (Hnd' : NoDup (map id3 l')) by
    (eapply Permutation_NoDup; [apply Permutation_map; exact P|exact Hnd]).
  destruct (find3 id l) as [t|] eqn:F.
  - destruct (find3_some _ _ F) as [Hin E]. symmetry; apply find3_in; try assumption.
    eapply Permutation_in; eassumption.
  - symmetry; apply find3_none. apply find3_none in F. intros H; apply F.
    eapply Permutation_in; [apply Permutation_map, Permutation_sym; exact P|exact H].
Qed.

Lemma map_id3_node3 l : map id3 (map node3 l) = map nid l.
Proof. rewrite map_map; reflexivity. Qed.

Lemma find_edge_none s d es : find_edge s d es = None <-> ~ In (s, d) (map edge_key es).
Proof.
  induction es as [|e es IH]; simpl; [tauto|].
  destruct (name_eqb_spec s (esrc e)) as [->|Hn]; simpl.
  - destruct (name_eqb_spec d (edst e)) as [->|Hn]; simpl.
    + split; [discriminate|intros H; exfalso; apply H; left; reflexivity].
    + rewrite IH; unfold edge_key; split; [intros H [E|E]; [congruence|contradiction]|tauto].
  - rewrite IH; unfold edge_key; split; [intros H [E|E]; [congruence|contradiction]|tauto].
Qed.

(** * The sorted views depend only on the node / edge sets *)

Lemma leb3_total a b : leb3 a b = true \/ leb3 b a = true.
Proof. apply name_leb_total. Qed.
Lemma leb3_trans a b c : leb3 a b = true -> leb3 b c = true -> leb3 a c = true.
Proof. apply name_leb_trans. Qed.

Lemma pair_leb_e_total a b : pair_leb_e a b = true \/ pair_leb_e b a = true.
Proof. apply pair_leb_total. Qed.
Lemma pair_leb_e_trans a b c :
  pair_leb_e a b = true -> pair_leb_e b c = true -> pair_leb_e a c = true.
Proof. apply pair_leb_trans. Qed.

Lemma v_nodes_isort g : v_nodes g = isort leb3 (map node3 (gnodes g)).
Proof. exact (map_isort node3 leb3 (gnodes g)). Qed.

Lemma v_nodes_perm_gnodes g : Permutation (map node3 (gnodes g)) (v_nodes g).
Proof. rewrite v_nodes_isort; apply isort_perm. Qed.

Lemma v_nodes_perm g h :
  NoDup (node_ids g) ->
  Permutation (map node3 (gnodes g)) (map node3 (gnodes h)) -> v_nodes g = v_nodes h.
Proof.
  intros Hnd P; rewrite !v_nodes_isort.
  apply isort_perm_eq_local; [apply leb3_total|apply leb3_trans| |exact P].
  intros x y Hx Hy L1 L2.
  apply (NoDup_map_inj_in id3 (map node3 (gnodes g))); try assumption.
  - rewrite map_id3_node3; exact Hnd.
  - apply name_leb_antisym; assumption.
Qed.

Lemma sorted_edges_perm g h :
  NoDup (edge_keys g) -> Permutation (gsrc g) (gsrc h) -> sorted_edges g = sorted_edges h.
Proof.
  intros Hnd P; unfold sorted_edges.
  apply isort_perm_eq_local; [apply pair_leb_e_total|apply pair_leb_e_trans| |exact P].
  intros x y Hx Hy L1 L2.
  apply (NoDup_map_inj_in edge_key (gsrc g)); try assumption.
  apply pair_leb_antisym; assumption.
Qed.

Lemma sorted_edges_sorted g : StronglySorted (le pair_leb_e) (sorted_edges g).
Proof. apply isort_sorted; [apply pair_leb_e_total|apply pair_leb_e_trans]. Qed.

Lemma sorted_edges_perm_gsrc g : Permutation (gsrc g) (sorted_edges g).
Proof. apply isort_perm. Qed.

(** * to_dict through node triples *)

Definition mk3 (t : name * vtype * meta) : node :=
  {| nid := fst (fst t); nvt := snd (fst t); nmeta := snd t; ninb := []; noutb := [] |}.

Lemma node_json_mk3 k im n : node_json k im n = node_json k im (mk3 (node3 n)).
Proof. reflexivity. Qed.

Lemma node_ok_mk3 k n : node_ok k n = node_ok k (mk3 (node3 n)).
Proof. reflexivity. Qed.

Lemma nodes_json_v_nodes k g im :
  nodes_json k g im = JObj (map (fun t => (id3 t, node_json k im (mk3 t))) (v_nodes g)).
Proof.
  unfold nodes_json, v_nodes. rewrite map_map. reflexivity.
Qed.

Lemma endpoint_json_find3 k g id :
  endpoint_json k g id =
  match find3 id (map node3 (gnodes g)) with
  | Some t => node_json k true (mk3 t)
  | None => JNull
  end.
Proof.
  unfold endpoint_json, get_node. rewrite <- find_node_find3.
  destruct (find_node id (gnodes g)); reflexivity.
Qed.

Lemma node_exists_find3 g id :
  node_exists g id = match find3 id (map node3 (gnodes g)) with Some _ => true | None => false end.
Proof.
  unfold node_exists, get_node. rewrite <- find_node_find3.
  destruct (find_node id (gnodes g)); reflexivity.
Qed.

(** what [to_dict] can see of a state *)
Definition same_content (g h : graph) : Prop :=
  Permutation (map node3 (gnodes g)) (map node3 (gnodes h))
  /\ Permutation (gsrc g) (gsrc h) /\ gmeta g = gmeta h.

Lemma same_content_find3 g h id :
  NoDup (node_ids g) -> same_content g h ->
  find3 id (map node3 (gnodes g)) = find3 id (map node3 (gnodes h)).
Proof.
  intros Hnd (P & _ & _). apply find3_perm; [|exact P].
  rewrite map_id3_node3; exact Hnd.
Qed.

Lemma to_dict_defined_same k g h :
  NoDup (node_ids g) -> same_content g h -> to_dict_defined k g = to_dict_defined k h.
Proof.
  intros Hnd SC. pose proof SC as (Pn & Pe & _). unfold to_dict_defined. f_equal.
  - transitivity (forallb (fun t => node_ok k (mk3 t)) (map node3 (gnodes g))).
    { rewrite forallb_map; reflexivity. }
    rewrite (forallb_perm _ Pn), forallb_map; reflexivity.
  - rewrite (forallb_perm _ Pe). apply forallb_ext_in; intros e _.
    rewrite !node_exists_find3, !(@same_content_find3 g h _ Hnd SC); reflexivity.
Qed.

Lemma nodes_json_same k g h im :
  NoDup (node_ids g) -> same_content g h -> nodes_json k g im = nodes_json k h im.
Proof.
  intros Hnd (Pn & _ & _).
  rewrite !nodes_json_v_nodes, (@v_nodes_perm g h Hnd Pn); reflexivity.
Qed.

Lemma edges_json_same k g h im ovr :
  NoDup (node_ids g) -> NoDup (edge_keys g) -> same_content g h ->
  edges_json k g im ovr = edges_json k h im ovr.
Proof.
  intros Hnd Hke SC. pose proof SC as (Pn & Pe & Em).
  assert (Eep : forall id, endpoint_json k g id = endpoint_json k h id).
  { intros id; rewrite !endpoint_json_find3, (@same_content_find3 g h _ Hnd SC); reflexivity. }
  unfold edges_json. rewrite (@sorted_edges_perm g h Hke Pe).
  f_equal. apply map_ext; intros [s grp]; simpl. do 2 f_equal.
  apply map_ext; intros e. unfold edge_json. rewrite !Eep; reflexivity.
Qed.

Lemma to_dict_raw_same k g h im :
  NoDup (node_ids g) -> NoDup (edge_keys g) -> same_content g h ->
  to_dict_raw k g im = to_dict_raw k h im.
Proof.
  intros Hnd Hke SC. unfold to_dict_raw.
  rewrite (@nodes_json_same k g h im Hnd SC), (@edges_json_same k g h im None Hnd Hke SC).
  destruct SC as (_ & _ & ->); reflexivity.
Qed.

(** ** Theorem 1: [to_dict] does not depend on the order in which the graph was built *)
Theorem to_dict_same_content k g h im :
  NoDup (node_ids g) -> NoDup (edge_keys g) -> same_content g h ->
  to_dict k g im = to_dict k h im.
Proof.
  intros Hnd Hke SC. unfold to_dict.
  rewrite (@to_dict_defined_same k g h Hnd SC), (@to_dict_raw_same k g h im Hnd Hke SC); reflexivity.
Qed.

Lemma skeleton_to_dict_same_content k g h im :
  NoDup (node_ids g) -> NoDup (edge_keys g) -> same_content g h ->
  skeleton_to_dict k g im = skeleton_to_dict k h im.
Proof.
  intros Hnd Hke SC. unfold skeleton_to_dict.
  rewrite (@to_dict_defined_same k g h Hnd SC), (@nodes_json_same k g h im Hnd SC),
    (@edges_json_same k g h im (Some Und) Hnd Hke SC); reflexivity.
Qed.

(** * Reserved tags *)

Lemma lookup_meta_set_eq k x (m : meta) : lookup k (meta_set k x m) = Some x.
Proof.
  induction m as [|[k' v'] m IH]; simpl; [rewrite name_eqb_refl; reflexivity|].
  destruct (name_eqb_spec k k') as [->|Hn]; simpl.
  - rewrite name_eqb_refl; reflexivity.
  - destruct (name_ltb k k'); simpl.
    + rewrite name_eqb_refl; reflexivity.
    + destruct (name_eqb_spec k k'); [contradiction|exact IH].
Qed.

Lemma lookup_meta_set_neq k k2 x (m : meta) :
  k2 <> k -> lookup k2 (meta_set k x m) = lookup k2 m.
Proof.
  intros Hn; induction m as [|[k' v'] m IH]; simpl.
  - destruct (name_eqb_spec k2 k); [contradiction|reflexivity].
  - destruct (name_eqb_spec k k') as [->|Hn']; simpl.
    + destruct (name_eqb_spec k2 k'); [contradiction|reflexivity].
    + destruct (name_ltb k k'); simpl.
      * destruct (name_eqb_spec k2 k); [contradiction|reflexivity].
      * destruct (name_eqb k2 k'); [reflexivity|exact IH].
Qed.

Lemma meta_set_idem k x (m : meta) : meta_set k x (meta_set k x m) = meta_set k x m.
Proof.
  induction m as [|[k' v'] m IH]; simpl; [rewrite name_eqb_refl; reflexivity|].
  destruct (name_eqb k k') eqn:E; simpl.
  - rewrite name_eqb_refl; reflexivity.
  - destruct (name_ltb k k') eqn:L; simpl.
    + rewrite name_eqb_refl; reflexivity.
    + rewrite E, L, IH; reflexivity.
Qed.

(** re-setting the smaller key after the larger one was set changes nothing *)
Lemma meta_set_absorb k1 k2 x y (m : meta) :
  name_ltb k1 k2 = true ->
  meta_set k1 x (meta_set k2 y (meta_set k1 x m)) = meta_set k2 y (meta_set k1 x m).
Proof.
  intros L12.
  assert (N21 : name_eqb k2 k1 = false).
  { apply name_eqb_neq; intros ->; rewrite name_ltb_irrefl in L12; discriminate. }
  assert (L21 : name_ltb k2 k1 = false) by (apply name_ltb_asym; exact L12).
  induction m as [|[k' v'] m IH]; simpl.
  - rewrite N21, L21; simpl. rewrite name_eqb_refl; reflexivity.
  - destruct (name_eqb_spec k1 k') as [<-|Hn]; simpl.
    + rewrite N21, L21; simpl. rewrite name_eqb_refl; reflexivity.
    + destruct (name_ltb k1 k') eqn:L1; simpl.
      * rewrite N21, L21; simpl. rewrite name_eqb_refl; reflexivity.
      * assert (Lk : name_ltb k' k1 = true).
        { destruct (name_ltb k' k1) eqn:Lk; [reflexivity|].
          exfalso; apply Hn; apply name_ltb_total; assumption. }
        assert (Lk2 : name_ltb k' k2 = true) by (eapply name_ltb_trans; eassumption).
        assert (N2 : name_eqb k2 k' = false).
        { apply name_eqb_neq; intros ->; rewrite name_ltb_irrefl in Lk2; discriminate. }
        rewrite N2, (name_ltb_asym _ _ Lk2); simpl.
        destruct (name_eqb_spec k1 k'); [contradiction|]. rewrite L1, IH; reflexivity.
Qed.

Lemma tag_keys_lt : name_ltb k_time_lag k_variable_name = true.
Proof. reflexivity. Qed.

Lemma tag_keys_neq : k_time_lag <> k_variable_name.
Proof. discriminate. Qed.

Lemma set_tags_idem v l m : set_tags v l (set_tags v l m) = set_tags v l m.
Proof.
  unfold set_tags. rewrite (@meta_set_absorb _ _ _ _ _ tag_keys_lt), meta_set_idem; reflexivity.
Qed.

Lemma meta_lag_set_tags v l m : meta_lag (set_tags v l m) = Some l.
Proof.
  unfold meta_lag, meta_get, set_tags.
  rewrite lookup_meta_set_neq by exact tag_keys_neq. rewrite lookup_meta_set_eq; reflexivity.
Qed.

Lemma meta_var_set_tags v l m : meta_var (set_tags v l m) = Some v.
Proof. unfold meta_var, meta_get, set_tags. rewrite lookup_meta_set_eq; reflexivity. Qed.

(** strictly key-sorted metadata: the representation invariant of [meta] (Base.v) *)
Definition meta_sorted (m : meta) : Prop :=
  StronglySorted (fun a b : name * json => name_ltb (fst a) (fst b) = true) m.

Lemma meta_set_present k x (m : meta) : meta_sorted m -> lookup k m = Some x -> meta_set k x m = m.
Proof.
  induction 1 as [|[k' v'] m Hs IH Hall]; simpl; [discriminate|].
  destruct (name_eqb_spec k k') as [->|Hn]; [intros [= ->]; reflexivity|].
  intros Hl. rewrite Forall_forall in Hall.
  assert (Lk : name_ltb k' k = true) by (apply (Hall (k, x)), lookup_in, Hl).
  rewrite (name_ltb_asym _ _ Lk), (IH Hl); reflexivity.
Qed.

Lemma meta_lag_inv m l : meta_lag m = Some l -> lookup k_time_lag m = Some (JInt l).
Proof.
  unfold meta_lag, meta_get. destruct (lookup k_time_lag m) as [[]|]; try discriminate.
  intros [= ->]; reflexivity.
Qed.

Lemma meta_var_inv m v : meta_var m = Some v -> lookup k_variable_name m = Some (JStr v).
Proof.
  unfold meta_var, meta_get. destruct (lookup k_variable_name m) as [[]|]; try discriminate.
  intros [= ->]; reflexivity.
Qed.

Lemma set_tags_present v l m :
  meta_sorted m -> meta_var m = Some v -> meta_lag m = Some l -> set_tags v l m = m.
Proof.
  intros Hs Hv Hl. unfold set_tags.
  rewrite (@meta_set_present _ _ _ Hs (@meta_lag_inv _ _ Hl)), (@meta_set_present _ _ _ Hs (@meta_var_inv _ _ Hv)).
  reflexivity.
Qed.

(** The hypothesis the time-series round trip needs on top of [Inv]: re-deriving the tags of a
    node from its identifier (which [TimeSeriesNode.__init__] does on every construction)
    leaves its metadata as it is.  It holds when the metadata lists are key-sorted (their
    representation invariant) and when the metadata was produced by [set_tags] (which is how
    every mutator of the model produces it). *)
Definition TagsStable (g : graph) : Prop :=
  forall n v l, In n (gnodes g) -> meta_var (nmeta n) = Some v -> meta_lag (nmeta n) = Some l ->
    set_tags v l (nmeta n) = nmeta n.

Lemma tags_stable_sorted g :
  (forall n, In n (gnodes g) -> meta_sorted (nmeta n)) -> TagsStable g.
Proof. intros H n v l Hn Hv Hl; apply set_tags_present; auto. Qed.

Lemma tags_stable_set_tags g :
  (forall n, In n (gnodes g) -> exists v l m0, nmeta n = set_tags v l m0) -> TagsStable g.
Proof.
  intros H n v l Hn Hv Hl. destruct (H n Hn) as (v' & l' & m0 & E).
  rewrite E in Hv, Hl. rewrite meta_var_set_tags in Hv. rewrite meta_lag_set_tags in Hl.
  injection Hv as <-. injection Hl as <-. rewrite E; apply set_tags_idem.
Qed.

(** * The boolean deep equality is sound *)

Lemma json_eqb_sound : forall a b, json_eqb a b = true -> a = b.
Proof.
  fix IH 1.
  intros [|x|x|x|x|x] [|y|y|y|y|y]; simpl; try discriminate; intros H.
  - reflexivity.
  - f_equal. apply Bool.eqb_prop; exact H.
  - f_equal. apply Z.eqb_eq; exact H.
  - f_equal. apply name_eqb_eq; exact H.
  - f_equal. revert y H. induction x as [|a x IHx]; intros [|b y]; try discriminate;
      [reflexivity|].
    intros H. apply andb_prop in H. destruct H as [H1 H2].
    f_equal; [apply IH, H1|apply IHx, H2].
  - f_equal. revert y H. induction x as [|[ka a] x IHx]; intros [|[kb b] y]; try discriminate;
      [reflexivity|].
    intros H. apply andb_prop in H. destruct H as [H12 H3].
    apply andb_prop in H12. destruct H12 as [H1 H2].
    apply name_eqb_eq in H1. subst kb.
    f_equal; [f_equal; apply IH, H2|apply IHx, H3].
Qed.

Lemma meta_eqb_sound (x y : meta) : meta_eqb x y = true -> x = y.
Proof.
  revert y; induction x as [|[ka a] x IH]; intros [|[kb b] y]; simpl; try discriminate;
    [reflexivity|].
  intros H. apply andb_prop in H. destruct H as [H12 H3].
  apply andb_prop in H12. destruct H12 as [H1 H2].
  apply name_eqb_eq in H1. subst kb. apply json_eqb_sound in H2. subst b.
  f_equal. apply IH, H3.
Qed.

Lemma list_eqb_sound (A : Type) (eqb : A -> A -> bool) :
  (forall a b, eqb a b = true -> a = b) -> forall x y, list_eqb eqb x y = true -> x = y.
Proof.
  intros Hs; induction x as [|a x IH]; intros [|b y]; simpl; try discriminate; [reflexivity|].
  intros H. apply andb_prop in H. destruct H as [H1 H2]. f_equal; [apply Hs, H1|apply IH, H2].
Qed.

Lemma node3_eqb_sound a b : node3_eqb a b = true -> a = b.
Proof.
  destruct a as [[i t] m], b as [[i' t'] m']; simpl. intros H.
  apply andb_prop in H. destruct H as [H12 H3]. apply andb_prop in H12. destruct H12 as [H1 H2].
  apply name_eqb_eq in H1. apply meta_eqb_sound in H3.
  destruct (vtype_eqb_spec t t'); [|discriminate]. congruence.
Qed.

Lemma edge4_eqb_sound a b : edge4_eqb a b = true -> a = b.
Proof.
  destruct a as [[[s d] t] m], b as [[[s' d'] t'] m']; simpl. intros H.
  apply andb_prop in H. destruct H as [H123 H4]. apply andb_prop in H123. destruct H123 as [H12 H3].
  apply andb_prop in H12. destruct H12 as [H1 H2].
  apply name_eqb_eq in H1. apply name_eqb_eq in H2. apply meta_eqb_sound in H4.
  destruct (etype_eqb_spec t t'); [|discriminate]. congruence.
Qed.

Theorem deep_eqb_sound g h : deep_eqb g h = true -> deep_eq_state g h.
Proof.
  unfold deep_eqb, deep_eq_state. intros H.
  apply andb_prop in H. destruct H as [H12 H3]. apply andb_prop in H12. destruct H12 as [H1 H2].
  split; [|split].
  - apply (list_eqb_sound _ node3_eqb_sound), H1.
  - apply (list_eqb_sound _ edge4_eqb_sound), H2.
  - apply meta_eqb_sound, H3.
Qed.

(** * Decoding what [to_dict] wrote *)

Lemma vtype_of_str_str t : vtype_of_str (vtype_str t) = Some t.
Proof. destruct t; reflexivity. Qed.

Lemma etype_of_str_str t : etype_of_str (etype_str t) = Some t.
Proof. destruct t; reflexivity. Qed.

Section Proofs.
  Variable parse : name -> option (name * Z).
  Variable fmt : name -> Z -> option name.

  Lemma decode_node_json cls k im n :
    decode_node parse cls (node_json k im n) =
    match cls with
    | Plain => Ok (nid n, nvt n, if im then nmeta n else [])
    | TS =>
        match parse (nid n) with
        | None => Err EValue
        | Some (v, l) => Ok (nid n, nvt n, set_tags v l (if im then nmeta n else []))
        end
    end.
  Proof.
    unfold decode_node, node_json.
    destruct k, im, cls; cbn -[set_tags]; rewrite ?vtype_of_str_str; cbn -[set_tags];
      try reflexivity; destruct (parse (nid n)) as [[v l]|]; reflexivity.
  Qed.

  Lemma node_class_of_json k im n : node_class_of (node_json k im n) = Ok k.
  Proof. destruct k, im; reflexivity. Qed.

  (** * Building the nodes *)

  Lemma node_exists_false g id : node_exists g id = false <-> ~ In id (node_ids g).
  Proof.
    rewrite node_exists_find3. unfold node_ids. rewrite <- map_id3_node3, <- find3_none.
    destruct (find3 id (map node3 (gnodes g))); split; congruence.
  Qed.

  Lemma node_exists_true g id : node_exists g id = true <-> In id (node_ids g).
  Proof.
    destruct (node_exists g id) eqn:E; split; try congruence; intros H.
    - destruct (in_dec name_eq_dec id (node_ids g)) as [Hi|Hni]; [exact Hi|].
      apply node_exists_false in Hni; congruence.
    - apply node_exists_false in E; contradiction.
  Qed.

  (** the tags [TimeSeriesNode.__init__] derives from the identifier *)
  Definition retag (k : kind) (id : name) (m : meta) : meta :=
    match k with
    | Plain => m
    | TS => match parse id with Some (v, l) => set_tags v l m | None => m end
    end.

  Lemma retag_idem k id m : retag k id (retag k id m) = retag k id m.
  Proof.
    unfold retag; destruct k; [reflexivity|].
    destruct (parse id) as [[v l]|]; [apply set_tags_idem|reflexivity].
  Qed.

  Definition built_node (k : kind) (t : name * vtype * meta) : node :=
    mk3 (id3 t, snd (fst t), retag k (id3 t) (snd t)).

  Lemma add_node_step_ok k g j t :
    decode_node parse k j = Ok t ->
    ~ In (id3 t) (node_ids g) ->
    (k = TS -> parse (id3 t) <> None) ->
    exists g', add_node_step parse fmt k (Ok g) j = Ok g'
      /\ gnodes g' = gnodes g ++ [built_node k t]
      /\ gsrc g' = gsrc g /\ gdst g' = gdst g /\ gmeta g' = gmeta g.
  Proof.
    intros Hdec Hni Hp. destruct t as [[id vt] m]. unfold id3 in *; simpl in *.
    apply node_exists_false in Hni.
    unfold add_node_step; simpl. rewrite Hdec; simpl.
    unfold add_node_obj. rewrite Hni. unfold built_node, retag, id3; simpl.
    destruct k; simpl.
    - eexists; split; [reflexivity|]. simpl; auto.
    - destruct (parse id) as [[v l]|] eqn:P; [|exfalso; apply Hp; reflexivity]. simpl.
      rewrite meta_lag_set_tags, meta_var_set_tags. simpl.
      eexists; split; [reflexivity|]. simpl; auto.
  Qed.

  Lemma fold_err (A B : Type) (f : res A -> B -> res A) l e :
    (forall b e', f (Err e') b = Err e') -> fold_left f l (Err e) = Err e.
  Proof. intros H; induction l as [|b l IH]; simpl; [reflexivity|rewrite H; exact IH]. Qed.

  Lemma add_nodes_fold k : forall (items : list (json * (name * vtype * meta))) g0,
    (forall it, In it items -> decode_node parse k (fst it) = Ok (snd it)) ->
    NoDup (map (fun it => id3 (snd it)) items) ->
    (forall it, In it items -> ~ In (id3 (snd it)) (node_ids g0)) ->
    (k = TS -> forall it, In it items -> parse (id3 (snd it)) <> None) ->
    exists g', fold_left (add_node_step parse fmt k) (map fst items) (Ok g0) = Ok g'
      /\ gnodes g' = gnodes g0 ++ map (fun it => built_node k (snd it)) items
      /\ gsrc g' = gsrc g0 /\ gdst g' = gdst g0 /\ gmeta g' = gmeta g0.
  Proof.
    induction items as [|it items IH]; intros g0 Hdec Hnd Hni Hp; cbn [fold_left map].
    - exists g0; rewrite app_nil_r; auto.
    - inversion Hnd as [|? ? Hnotin Hnd']; subst.
      destruct (@add_node_step_ok k g0 (fst it) (snd it)) as (g1 & E1 & N1 & S1 & D1 & M1).
      { apply Hdec; left; reflexivity. }
      { apply Hni; left; reflexivity. }
      { intros Ek; apply (Hp Ek); left; reflexivity. }
      rewrite E1.
      destruct (IH g1) as (g' & E' & N' & S' & D' & M').
      { intros it' Hin; apply Hdec; right; exact Hin. }
      { exact Hnd'. }
      { intros it' Hin. unfold node_ids. rewrite N1, map_app, in_app_iff; simpl.
        intros [H|[H|[]]].
        - apply (Hni it'); [right; exact Hin|exact H].
        - apply Hnotin. unfold built_node in H; simpl in H. rewrite H.
          apply (in_map (fun it => id3 (snd it))), Hin. }
      { intros Ek it' Hin; apply (Hp Ek); right; exact Hin. }
      exists g'; split; [exact E'|].
      rewrite N', N1, <- app_assoc, S', S1, D', D1, M', M1; auto.
  Qed.

  (** * Adding the edges *)

  (** the cycle check of a validated add passes (or is not run) *)
  Definition val_ok (v : bool) (h : graph) (e : edge) : Prop :=
    v = false \/ depends_on_itself (insert_edge h e) (edst e) = Some false.

  Lemma add_edge_step_ok k v h j e a b :
    decode_edge parse k j = Ok ((esrc e, Some a), (edst e, Some b), ety e, emeta e) ->
    esrc e <> edst e ->
    node_exists h (esrc e) = true -> node_exists h (edst e) = true ->
    edge_at h (esrc e) (edst e) = None -> edge_at h (edst e) (esrc e) = None ->
    (k = TS -> exists ls ld, node_lag h (esrc e) = Some ls /\ node_lag h (edst e) = Some ld
                             /\ (ls <= ld)%Z) ->
    val_ok v h e ->
    add_edge_step parse fmt k v (Ok h) j = Ok (insert_edge h e).
  Proof.
    intros Hdec Hne Hs Hd Hsd Hds Hlag Hval.
    unfold add_edge_step; simpl. rewrite Hdec; simpl.
    unfold add_edge, add_edge_try; simpl.
    apply name_eqb_neq in Hne. rewrite Hne, Hsd.
    unfold add_endpoint; simpl. rewrite Hs, Hd.
    assert (Hor : orient k h (esrc e) (edst e) (ety e) = Ok (esrc e, edst e)).
    { unfold orient; destruct k; [reflexivity|].
      destruct (Hlag eq_refl) as (ls & ld & -> & -> & Hle).
      destruct (Z.ltb_spec ld ls); [lia|reflexivity]. }
    rewrite Hor. unfold set_edge. rewrite Hsd, Hds.
    assert (Ee : {| esrc := esrc e; edst := edst e; ety := ety e; emeta := emeta e |} = e)
      by (destruct e; reflexivity).
    rewrite Ee.
    destruct Hval as [->|Hval]; [reflexivity|].
    destruct v; [|reflexivity]. rewrite Hval; reflexivity.
  Qed.

  Lemma map_node3_update f id l :
    (forall n, node3 (f n) = node3 n) -> map node3 (update_node f id l) = map node3 l.
  Proof.
    intros Hf; unfold update_node; rewrite map_map; apply map_ext; intros n.
    destruct (name_eqb id (nid n)); [apply Hf|reflexivity].
  Qed.

  Lemma insert_edge_node3 h e : map node3 (gnodes (insert_edge h e)) = map node3 (gnodes h).
  Proof.
    unfold insert_edge; simpl. destruct (etype_eqb (ety e) Dir); [|reflexivity].
    rewrite !map_node3_update; reflexivity.
  Qed.

  Definition lag3 (L : list (name * vtype * meta)) (id : name) : option Z :=
    match find3 id L with Some t => meta_lag (snd t) | None => None end.

  Lemma node_lag_find3 g id : node_lag g id = lag3 (map node3 (gnodes g)) id.
  Proof.
    unfold node_lag, lag3, get_node. rewrite <- find_node_find3.
    destruct (find_node id (gnodes g)); reflexivity.
  Qed.

  (** the state reached after adding the edges [done] to a graph whose nodes carry [L] *)
  Definition EdgesBuilt (L : list (name * vtype * meta)) (m : meta) (done : list edge)
    (h : graph) : Prop :=
    map node3 (gnodes h) = L /\ gsrc h = done /\ gdst h = done /\ gmeta h = m.

  Lemma edges_built_insert L m done h e :
    EdgesBuilt L m done h -> EdgesBuilt L m (done ++ [e]) (insert_edge h e).
  Proof.
    intros (HL & Hs & Hd & Hm); unfold EdgesBuilt.
    rewrite insert_edge_node3; simpl. rewrite Hs, Hd; auto.
  Qed.

  Lemma add_edges_fold k v L m (J : list edge -> graph -> Prop) :
    forall (items : list (json * edge)) done h,
      EdgesBuilt L m done h -> J done h ->
      (forall it, In it items -> exists a b,
         decode_edge parse k (fst it)
         = Ok ((esrc (snd it), Some a), (edst (snd it), Some b), ety (snd it), emeta (snd it))) ->
      NoDup (map edge_key (done ++ map snd items)) ->
      (forall e e', In e (done ++ map snd items) -> In e' (done ++ map snd items) ->
                    edge_key e' <> (edst e, esrc e)) ->
      (forall it, In it items ->
         In (esrc (snd it)) (map id3 L) /\ In (edst (snd it)) (map id3 L)) ->
      (k = TS -> forall it, In it items -> exists ls ld,
         lag3 L (esrc (snd it)) = Some ls /\ lag3 L (edst (snd it)) = Some ld /\ (ls <= ld)%Z) ->
      (forall done' h' it, J done' h' -> EdgesBuilt L m done' h' -> In it items ->
         add_edge_step parse fmt k false (Ok h') (fst it) = Ok (insert_edge h' (snd it)) ->
         val_ok v h' (snd it) /\ J (done' ++ [snd it]) (insert_edge h' (snd it))) ->
      exists h', fold_left (add_edge_step parse fmt k v) (map fst items) (Ok h) = Ok h'
        /\ EdgesBuilt L m (done ++ map snd items) h' /\ J (done ++ map snd items) h'.
  Proof.
    induction items as [|[j e] items IH]; intros done h HB HJ Hdec Hnd Hnr Hep Hlag Hstep;
      cbn [fold_left map fst snd].
    - exists h; rewrite app_nil_r; auto.
    - pose proof HB as (HL & Hs & Hd & Hm).
      destruct (Hdec (j, e) (or_introl eq_refl)) as (a & b & Hde); cbn [fst snd] in Hde.
      cbn [map snd] in Hnd, Hnr.
      assert (Hine : In e (done ++ e :: map snd items)) by (apply in_or_app; right; left; reflexivity).
      assert (Hkey : ~ In (edge_key e) (map edge_key done)).
      { rewrite map_app in Hnd; simpl in Hnd. apply NoDup_remove_2 in Hnd.
        intros H; apply Hnd; apply in_or_app; left; exact H. }
      assert (Hrev : ~ In (edst e, esrc e) (map edge_key done)).
      { intros H; apply in_map_iff in H; destruct H as (e' & Ek & Hin').
        apply (Hnr e e' Hine); [apply in_or_app; left; exact Hin'|exact Ek]. }
      assert (Hloop : esrc e <> edst e).
      { intros E; apply (Hnr e e Hine Hine). unfold edge_key; rewrite E; reflexivity. }
      assert (Hxs : node_exists h (esrc e) = true).
      { apply node_exists_true. unfold node_ids; rewrite <- map_id3_node3, HL.
        apply (Hep (j, e) (or_introl eq_refl)). }
      assert (Hxd : node_exists h (edst e) = true).
      { apply node_exists_true. unfold node_ids; rewrite <- map_id3_node3, HL.
        apply (Hep (j, e) (or_introl eq_refl)). }
      assert (Hsd : edge_at h (esrc e) (edst e) = None).
      { unfold edge_at; rewrite Hs; apply find_edge_none; exact Hkey. }
      assert (Hds : edge_at h (edst e) (esrc e) = None).
      { unfold edge_at; rewrite Hs; apply find_edge_none; exact Hrev. }
      assert (Hlg : k = TS -> exists ls ld, node_lag h (esrc e) = Some ls
                                      /\ node_lag h (edst e) = Some ld /\ (ls <= ld)%Z).
      { intros Ek. rewrite !node_lag_find3, HL. apply (Hlag Ek (j, e) (or_introl eq_refl)). }
      pose proof (@add_edge_step_ok k false h j e a b Hde Hloop Hxs Hxd Hsd Hds Hlg
                    (or_introl eq_refl)) as Hunval.
      destruct (Hstep done h (j, e) HJ HB (or_introl eq_refl) Hunval) as [Hval HJ'].
      cbn [fst snd] in Hval, HJ'.
      rewrite (@add_edge_step_ok k v h j e a b Hde Hloop Hxs Hxd Hsd Hds Hlg Hval).
      destruct (IH (done ++ [e]) (insert_edge h e)) as (h' & E' & HB' & HJ'').
      + apply edges_built_insert; exact HB.
      + exact HJ'.
      + intros it Hin; apply Hdec; right; exact Hin.
      + rewrite <- app_assoc; exact Hnd.
      + rewrite <- app_assoc; exact Hnr.
      + intros it Hin; apply Hep; right; exact Hin.
      + intros Ek it Hin; apply (Hlag Ek); right; exact Hin.
      + intros done' h' it HJd HBd Hin; apply Hstep; try assumption. right; exact Hin.
      + exists h'; rewrite <- app_assoc in HB', HJ''; auto.
  Qed.

  (** * Unfolding [from_dict] on a dictionary of the shape [to_dict] writes *)

  Lemma group_edges_flat es : flat_map snd (group_edges es) = es.
  Proof.
    induction es as [|e es IH]; simpl; [reflexivity|].
    destruct (group_edges es) as [|[s grp] rest]; simpl in *.
    - rewrite <- IH; reflexivity.
    - destruct (name_eqb (esrc e) s); simpl; rewrite <- IH; reflexivity.
  Qed.

  Lemma add_edge_step_err k v e j : add_edge_step parse fmt k v (Err e) j = Err e.
  Proof. reflexivity. Qed.

  Lemma fold_groups k v (f : edge -> json) : forall (groups : list (name * list edge)) acc,
    fold_left (add_group_step parse fmt k v)
      (map (fun sg : name * list edge => JObj (map (fun e => (edst e, f e)) (snd sg))) groups) acc
    = fold_left (add_edge_step parse fmt k v) (map f (flat_map snd groups)) acc.
  Proof.
    induction groups as [|[s grp] groups IH]; intros acc; cbn [map flat_map snd fold_left].
    - reflexivity.
    - rewrite map_app, fold_left_app, IH. f_equal.
      destruct acc as [g|e]; simpl.
      + rewrite map_map; reflexivity.
      + symmetry; apply fold_err; intros; reflexivity.
  Qed.

  Definition dict_json (k : kind) (g : graph) (im : bool) (ovr : option etype) (withmeta : bool)
    : json :=
    JObj ([(s_nodes, nodes_json k g im); (s_edges, edges_json k g im ovr);
           (s_version, JStr s_version_value)]
          ++ (if withmeta then [(s_meta, JObj (gmeta g))] else [])).

  Lemma from_dict_dict_json k' k g im ovr withmeta v :
    from_dict parse fmt k' (dict_json k g im ovr withmeta) v =
    bind (fold_left (add_node_step parse fmt k') (map (node_json k im) (nodes_sorted g))
            (Ok (empty_graph (if withmeta then gmeta g else []))))
      (fun g1 => fold_left (add_edge_step parse fmt k' v)
                   (map (edge_json k g im ovr) (sorted_edges g)) (Ok g1)).
  Proof.
    unfold from_dict, dict_json, nodes_json, edges_json.
    destruct withmeta; cbn -[add_node_step add_group_step add_edge_step node_json edge_json];
      rewrite !map_map; cbn [snd];
      match goal with |- bind ?X _ = bind ?Y _ => change X with Y; destruct Y as [g1|e] end;
      cbn [bind]; try reflexivity;
      rewrite (fold_groups k' v (edge_json k g im ovr)), group_edges_flat; reflexivity.
  Qed.

  Lemma find_node_some id l n : find_node id l = Some n -> In n l /\ nid n = id.
  Proof.
    induction l as [|a l IH]; simpl; [discriminate|].
    destruct (name_eqb_spec id (nid a)) as [->|Hn].
    - intros [= ->]; split; [left|]; reflexivity.
    - intros H; destruct (IH H); split; [right|]; assumption.
  Qed.

  Lemma get_node_in g id :
    In id (node_ids g) -> exists n, get_node g id = Some n /\ In n (gnodes g) /\ nid n = id.
  Proof.
    intros Hin. unfold get_node. destruct (find_node id (gnodes g)) as [n|] eqn:F.
    - exists n; split; [reflexivity|apply find_node_some; exact F].
    - exfalso. apply node_exists_true in Hin. unfold node_exists, get_node in Hin.
      rewrite F in Hin; discriminate.
  Qed.

  Definition ty_of (ovr : option etype) (e : edge) : etype :=
    match ovr with Some t => t | None => ety e end.

  Lemma decode_edge_json k k0 g ovr e ns nd :
    get_node g (esrc e) = Some ns -> get_node g (edst e) = Some nd ->
    decode_edge parse k (edge_json k0 g true ovr e) =
    bind (decode_node parse k0 (node_json k0 true ns)) (fun s =>
    bind (decode_node parse k0 (node_json k0 true nd)) (fun d =>
      match k with
      | Plain => Ok (ep s, ep d, ty_of ovr e, emeta e)
      | TS =>
          bind (ts_endpoint parse k0 s) (fun s' =>
          bind (ts_endpoint parse k0 d) (fun d' =>
            let '(s3, ls) := s' in
            let '(d3, ld) := d' in
            if (ld <? ls)%Z then
              if etype_eqb (ty_of ovr e) Dir then Err EValue
              else Ok (ep d3, ep s3, ty_of ovr e, emeta e)
            else Ok (ep s3, ep d3, ty_of ovr e, emeta e)))
      end)).
  Proof.
    intros Hs Hd. unfold decode_edge, edge_json, endpoint_json. rewrite Hs, Hd.
    cbn -[decode_node node_json node_class_of ts_endpoint etype_of_str etype_str].
    rewrite !node_class_of_json. cbn [bind].
    destruct (decode_node parse k0 (node_json k0 true ns)) as [s|]; [|reflexivity]. cbn [bind].
    destruct (decode_node parse k0 (node_json k0 true nd)) as [d|]; [|reflexivity]. cbn [bind].
    fold (ty_of ovr e). rewrite etype_of_str_str. cbn [bind].
    destruct k; [reflexivity|].
    destruct (ts_endpoint parse k0 s) as [[s3 ls]|]; [|reflexivity]. cbn [bind].
    destruct (ts_endpoint parse k0 d) as [[d3 ld]|]; [|reflexivity]. cbn [bind].
    destruct (ld <? ls)%Z; [destruct (etype_eqb (ty_of ovr e) Dir)|]; reflexivity.
  Qed.

  (** * The two stages of [from_dict] on the dictionary of a graph *)

  Lemma nodes_sorted_perm g : Permutation (gnodes g) (nodes_sorted g).
  Proof. apply isort_perm. Qed.

  Lemma nodes_sorted_in g n : In n (nodes_sorted g) <-> In n (gnodes g).
  Proof. apply isort_in. Qed.

  Lemma nodes_sorted_nodup g : NoDup (node_ids g) -> NoDup (map nid (nodes_sorted g)).
  Proof.
    intros H. eapply Permutation_NoDup; [apply Permutation_map, nodes_sorted_perm|exact H].
  Qed.

  Lemma v_nodes_ids g id : In id (map id3 (v_nodes g)) <-> In id (node_ids g).
  Proof.
    unfold v_nodes, node_ids. rewrite map_map. cbn [id3 fst].
    split; intros H; apply in_map_iff in H; destruct H as (n & <- & Hn);
      apply in_map; apply nodes_sorted_in; exact Hn.
  Qed.

  Lemma find3_v_nodes g id :
    NoDup (node_ids g) -> find3 id (v_nodes g) = find3 id (map node3 (gnodes g)).
  Proof.
    intros Hnd. symmetry. apply find3_perm; [rewrite map_id3_node3; exact Hnd|].
    apply v_nodes_perm_gnodes.
  Qed.

  Definition retag3 (k : kind) (t : name * vtype * meta) : name * vtype * meta :=
    (id3 t, snd (fst t), retag k (id3 t) (snd t)).

  Lemma nodes_stage k k0 g mm :
    NoDup (node_ids g) ->
    (k = TS -> forall n, In n (gnodes g) -> parse (nid n) <> None) ->
    exists g1,
      fold_left (add_node_step parse fmt k) (map (node_json k0 true) (nodes_sorted g))
        (Ok (empty_graph mm)) = Ok g1
      /\ map node3 (gnodes g1) = map (retag3 k) (v_nodes g)
      /\ gsrc g1 = [] /\ gdst g1 = [] /\ gmeta g1 = mm.
  Proof.
    intros Hnd Hp.
    set (items := map (fun n => (node_json k0 true n, retag3 k (node3 n))) (nodes_sorted g)).
    destruct (@add_nodes_fold k items (empty_graph mm)) as (g1 & E & N & S & D & M).
    - intros it Hin. apply in_map_iff in Hin. destruct Hin as (n & <- & Hn). cbn [fst snd].
      rewrite decode_node_json. unfold retag3, retag, node3, id3; cbn [fst snd].
      destruct k; [reflexivity|].
      destruct (parse (nid n)) as [[v l]|] eqn:P; [reflexivity|].
      exfalso; apply (Hp eq_refl n); [apply nodes_sorted_in; exact Hn|exact P].
    - unfold items. rewrite map_map. cbn [snd]. unfold retag3, id3; cbn [fst snd node3].
      apply nodes_sorted_nodup; exact Hnd.
    - intros it _ [].
    - intros Ek it Hin. apply in_map_iff in Hin. destruct Hin as (n & <- & Hn).
      cbn [snd]. unfold retag3, id3, node3; cbn [fst]. apply (Hp Ek). apply nodes_sorted_in; exact Hn.
    - exists g1. unfold items in E. rewrite map_map in E. cbn [fst] in E.
      split; [exact E|]. split; [|auto].
      rewrite N. cbn [gnodes empty_graph app]. unfold items. rewrite !map_map.
      unfold v_nodes. rewrite map_map. apply map_ext; intros n.
      unfold built_node, retag3, node3, mk3, id3; cbn [fst snd nid nvt nmeta].
      rewrite retag_idem; reflexivity.
  Qed.

  Lemma retag_stable k g n :
    Inv parse k g -> (k = TS -> TagsStable g) -> In n (gnodes g) ->
    retag k (nid n) (nmeta n) = nmeta n.
  Proof.
    intros HI HT Hn. unfold retag. destruct k; [reflexivity|].
    destruct (ts_nodeok (inv_ts HI eq_refl) n Hn) as (v & l & P & Hv & Hl).
    rewrite P. apply (HT eq_refl); assumption.
  Qed.

  Lemma retag3_v_nodes k g :
    Inv parse k g -> (k = TS -> TagsStable g) -> map (retag3 k) (v_nodes g) = v_nodes g.
  Proof.
    intros HI HT. unfold v_nodes. rewrite map_map. apply map_ext_in; intros n Hn.
    apply nodes_sorted_in in Hn. unfold retag3, id3; cbn [fst snd].
    rewrite (@retag_stable k g n HI HT Hn); reflexivity.
  Qed.

  Definition retype (ovr : option etype) (e : edge) : edge :=
    {| esrc := esrc e; edst := edst e; ety := ty_of ovr e; emeta := emeta e |}.

  Lemma retype_none e : retype None e = e.
  Proof. destruct e; reflexivity. Qed.

  Lemma map_key_retype ovr es : map edge_key (map (retype ovr) es) = map edge_key es.
  Proof. rewrite map_map; reflexivity. Qed.

  Lemma sorted_edges_in g e : In e (sorted_edges g) <-> In e (gsrc g).
  Proof. apply isort_in. Qed.

  Lemma decode_edge_roundtrip k g ovr e :
    Inv parse k g -> In e (gsrc g) ->
    exists a b, decode_edge parse k (edge_json k g true ovr e)
                = Ok ((esrc e, Some a), (edst e, Some b), ty_of ovr e, emeta e).
  Proof.
    intros HI Hin. destruct (inv_endpoints HI e Hin) as [Hs Hd].
    destruct (@get_node_in g _ Hs) as (ns & Gs & Ins & Es).
    destruct (@get_node_in g _ Hd) as (nd & Gd & Ind & Ed).
    rewrite (@decode_edge_json k k g ovr e ns nd Gs Gd), !decode_node_json.
    destruct k.
    - cbn. rewrite Es, Ed. eexists; eexists; reflexivity.
    - pose proof (inv_ts HI eq_refl) as HT.
      destruct (ts_nodeok HT ns Ins) as (vs & ls & Ps & Vs & Ls).
      destruct (ts_nodeok HT nd Ind) as (vd & ld & Pd & Vd & Ld).
      rewrite Ps, Pd. cbn [bind]. unfold ts_endpoint. rewrite Ps, Pd. cbn [bind].
      destruct (ts_time HT e Hin) as (ls' & ld' & Ns & Nd & Hle).
      unfold node_lag in Ns, Nd. rewrite Gs in Ns. rewrite Gd in Nd.
      assert (ls' = ls) by congruence. assert (ld' = ld) by congruence. subst ls' ld'.
      destruct (Z.ltb_spec ld ls); [lia|]. cbn. rewrite Es, Ed.
      eexists; eexists; reflexivity.
  Qed.

  Lemma lag3_v_nodes g id : NoDup (node_ids g) -> lag3 (v_nodes g) id = node_lag g id.
  Proof. intros Hnd. rewrite node_lag_find3. unfold lag3. rewrite find3_v_nodes; auto. Qed.

  (** ** The core of the round trip, generic in the validation argument [J], in the edge-type
      override of the Skeleton view and in the presence of the graph metadata *)
  Lemma core_gen k' k g v ovr (withmeta : bool) (J : list edge -> graph -> Prop) :
    let mm : meta := if withmeta then gmeta g else [] in
    Inv parse k g ->
    (k' = TS -> forall n, In n (gnodes g) -> parse (nid n) <> None) ->
    map (retag3 k') (v_nodes g) = v_nodes g ->
    (forall e, In e (gsrc g) -> exists a b,
       decode_edge parse k' (edge_json k g true ovr e)
       = Ok ((esrc e, Some a), (edst e, Some b), ty_of ovr e, emeta e)) ->
    (k' = TS -> forall e, In e (gsrc g) -> exists ls ld,
       node_lag g (esrc e) = Some ls /\ node_lag g (edst e) = Some ld /\ (ls <= ld)%Z) ->
    (forall g1,
       fold_left (add_node_step parse fmt k') (map (node_json k true) (nodes_sorted g))
         (Ok (empty_graph mm)) = Ok g1 -> J [] g1) ->
    (forall done h e, J done h -> EdgesBuilt (v_nodes g) mm done h -> In e (gsrc g) ->
       add_edge_step parse fmt k' false (Ok h) (edge_json k g true ovr e)
       = Ok (insert_edge h (retype ovr e)) ->
       val_ok v h (retype ovr e) /\ J (done ++ [retype ovr e]) (insert_edge h (retype ovr e))) ->
    exists g', from_dict parse fmt k' (dict_json k g true ovr withmeta) v = Ok g'
      /\ EdgesBuilt (v_nodes g) mm (map (retype ovr) (sorted_edges g)) g'
      /\ J (map (retype ovr) (sorted_edges g)) g'.
  Proof.
    intros mm HI Hparse Hretag Hdecode Hlags HJ0 HJstep.
    pose proof (inv_nodup_nodes HI) as Hnd.
    rewrite from_dict_dict_json. fold mm.
    destruct (@nodes_stage k' k g mm Hnd Hparse) as (g1 & E1 & N1 & S1 & D1 & M1).
    rewrite E1. cbn [bind]. rewrite Hretag in N1.
    set (items := map (fun e => (edge_json k g true ovr e, retype ovr e)) (sorted_edges g)).
    assert (Hfst : map fst items = map (edge_json k g true ovr) (sorted_edges g)).
    { unfold items; rewrite map_map; reflexivity. }
    assert (Hsnd : map snd items = map (retype ovr) (sorted_edges g)).
    { unfold items; rewrite map_map; reflexivity. }
    assert (Hkeys : NoDup (map edge_key (sorted_edges g))).
    { eapply Permutation_NoDup; [apply Permutation_map, sorted_edges_perm_gsrc|].
      exact (inv_nodup_keys HI). }
    destruct (@add_edges_fold k' v (v_nodes g) mm J items [] g1) as (g' & E' & B' & J').
    - unfold EdgesBuilt; auto.
    - apply HJ0; exact E1.
    - intros it Hin. apply in_map_iff in Hin. destruct Hin as (e & <- & He). cbn [fst snd].
      apply sorted_edges_in in He. apply (Hdecode e He).
    - cbn [app]. rewrite Hsnd, map_key_retype. exact Hkeys.
    - cbn [app]. rewrite Hsnd. intros e e' He He'.
      apply in_map_iff in He. destruct He as (e0 & <- & He0).
      apply in_map_iff in He'. destruct He' as (e0' & <- & He0').
      apply sorted_edges_in in He0. apply sorted_edges_in in He0'.
      cbn [retype edge_key esrc edst]. intros Ek.
      apply (inv_noreverse HI e0 He0). rewrite <- Ek.
      apply (in_map edge_key (gsrc g) e0' He0').
    - intros it Hin. apply in_map_iff in Hin. destruct Hin as (e & <- & He). cbn [snd retype esrc edst].
      apply sorted_edges_in in He. rewrite !v_nodes_ids. apply (inv_endpoints HI e He).
    - intros Ek it Hin. apply in_map_iff in Hin. destruct Hin as (e & <- & He).
      cbn [snd retype esrc edst]. apply sorted_edges_in in He.
      rewrite !(fun i => @lag3_v_nodes g i Hnd). apply (Hlags Ek e He).
    - intros done' h' it HJd HBd Hin Hun. apply in_map_iff in Hin. destruct Hin as (e & <- & He).
      cbn [fst snd] in *. apply sorted_edges_in in He. apply HJstep; assumption.
    - exists g'. rewrite Hfst in E'. cbn [app] in B', J'. rewrite Hsnd in B', J'. auto.
  Qed.

  Lemma roundtrip_core k g v ovr (withmeta : bool) (J : list edge -> graph -> Prop) :
    let mm : meta := if withmeta then gmeta g else [] in
    Inv parse k g -> (k = TS -> TagsStable g) ->
    (forall g1,
       fold_left (add_node_step parse fmt k) (map (node_json k true) (nodes_sorted g))
         (Ok (empty_graph mm)) = Ok g1 -> J [] g1) ->
    (forall done h e, J done h -> EdgesBuilt (v_nodes g) mm done h -> In e (gsrc g) ->
       add_edge_step parse fmt k false (Ok h) (edge_json k g true ovr e)
       = Ok (insert_edge h (retype ovr e)) ->
       val_ok v h (retype ovr e) /\ J (done ++ [retype ovr e]) (insert_edge h (retype ovr e))) ->
    exists g', from_dict parse fmt k (dict_json k g true ovr withmeta) v = Ok g'
      /\ EdgesBuilt (v_nodes g) mm (map (retype ovr) (sorted_edges g)) g'
      /\ J (map (retype ovr) (sorted_edges g)) g'.
  Proof.
    intros mm HI HT HJ0 HJstep. apply core_gen; try assumption.
    - intros Ek n Hn. subst k.
      destruct (ts_nodeok (inv_ts HI eq_refl) n Hn) as (vv & l & P & _). congruence.
    - apply (@retag3_v_nodes k g HI HT).
    - intros e He. apply (@decode_edge_roundtrip k g ovr e HI He).
    - intros Ek e He. subst k. apply (ts_time (inv_ts HI eq_refl) e He).
  Qed.

  (** * [to_dict] is defined on every state satisfying the invariant *)

  Lemma to_dict_defined_inv k g : Inv parse k g -> to_dict_defined k g = true.
  Proof.
    intros HI. unfold to_dict_defined. apply andb_true_intro; split; apply forallb_forall.
    - intros n Hn. unfold node_ok. destruct k; [reflexivity|].
      destruct (ts_nodeok (inv_ts HI eq_refl) n Hn) as (v & l & _ & Hv & Hl).
      unfold tag_json, meta_get. rewrite (meta_lag_inv _ Hl), (meta_var_inv _ Hv); reflexivity.
    - intros e He. destruct (inv_endpoints HI e He) as [Hs Hd].
      apply node_exists_true in Hs. apply node_exists_true in Hd. rewrite Hs, Hd; reflexivity.
  Qed.

  Lemma to_dict_inv k g im : Inv parse k g -> to_dict k g im = Ok (dict_json k g im None im).
  Proof. intros HI. unfold to_dict. rewrite (@to_dict_defined_inv k g HI). reflexivity. Qed.

  Lemma skeleton_to_dict_inv k g im :
    Inv parse k g -> skeleton_to_dict k g im = Ok (dict_json k g im (Some Und) false).
  Proof. intros HI. unfold skeleton_to_dict. rewrite (@to_dict_defined_inv k g HI). reflexivity. Qed.

  (** * From the built state to deep equality *)

  Lemma v_nodes_sorted g : StronglySorted (le leb3) (v_nodes g).
  Proof. rewrite v_nodes_isort. apply isort_sorted; [apply leb3_total|apply leb3_trans]. Qed.

  Lemma retype_sorted ovr es :
    StronglySorted (le pair_leb_e) es -> StronglySorted (le pair_leb_e) (map (retype ovr) es).
  Proof.
    induction 1 as [|x l Hs IH Hall]; simpl; constructor; [exact IH|].
    rewrite Forall_forall in *. intros y Hy. apply in_map_iff in Hy.
    destruct Hy as (z & <- & Hz). exact (Hall z Hz).
  Qed.

  Lemma built_views g g' ovr mm :
    EdgesBuilt (v_nodes g) mm (map (retype ovr) (sorted_edges g)) g' ->
    v_nodes g' = v_nodes g /\ v_edges g' = map (retype ovr) (v_edges g) /\ gmeta g' = mm.
  Proof.
    intros (HL & Hs & _ & Hm). split; [|split; [|exact Hm]].
    - rewrite (v_nodes_isort g'), HL. apply isort_sorted_id, v_nodes_sorted.
    - unfold v_edges at 1. unfold sorted_edges at 1. rewrite Hs.
      apply isort_sorted_id, retype_sorted, sorted_edges_sorted.
  Qed.

  Lemma map_retype_none es : map (retype None) es = es.
  Proof. rewrite (map_ext _ (fun e => e)) by apply retype_none. apply map_id. Qed.

  (** ** Theorem 2 (validate = False): [from_dict(to_dict(g), validate=False)] succeeds and is
      deeply equal to [g] *)
  Theorem roundtrip_novalidate k g :
    Inv parse k g -> (k = TS -> TagsStable g) ->
    exists j g', to_dict k g true = Ok j
      /\ from_dict parse fmt k j false = Ok g' /\ deep_eq_state g g'.
  Proof.
    intros HI HT.
    destruct (@roundtrip_core k g false None true (fun _ _ => True) HI HT) as (g' & E & B & _).
    - intros; exact I.
    - intros done h e _ _ _ _; split; [left; reflexivity|exact I].
    - exists (dict_json k g true None true), g'. split; [apply to_dict_inv; exact HI|].
      split; [exact E|].
      destruct (@built_views g g' None (gmeta g) B) as (Vn & Ve & Vm). rewrite map_retype_none in Ve.
      unfold deep_eq_state. rewrite Vn, Ve, Vm. auto.
  Qed.

  (** [g.copy()] = [from_dict(to_dict(g), validate=False)] *)
  Corollary copy_deep_eq k g :
    Inv parse k g -> (k = TS -> TagsStable g) ->
    exists g', copy parse fmt k g true = Ok g' /\ deep_eq_state g g'.
  Proof.
    intros HI HT. destruct (@roundtrip_novalidate k g HI HT) as (j & g' & Ej & E & D).
    exists g'. unfold copy. rewrite Ej. cbn [bind]. auto.
  Qed.

  (** * Deeply equal states serialise identically *)

  Lemma map_edge4_inj es es' : map edge4 es = map edge4 es' -> es = es'.
  Proof.
    revert es'; induction es as [|e es IH]; intros [|e' es']; simpl; try discriminate;
      [reflexivity|].
    intros H. assert (H1 : edge4 e = edge4 e') by congruence.
    assert (H2 : map edge4 es = map edge4 es') by congruence.
    f_equal; [|apply IH; exact H2].
    destruct e, e'; unfold edge4 in H1; simpl in H1; congruence.
  Qed.

  Lemma deep_eq_same_content g h : deep_eq_state g h -> same_content g h.
  Proof.
    intros (Vn & Ve & Vm). apply map_edge4_inj in Ve. split; [|split; [|exact Vm]].
    - rewrite (v_nodes_perm_gnodes g), Vn. symmetry; apply v_nodes_perm_gnodes.
    - rewrite (sorted_edges_perm_gsrc g). fold (v_edges g). rewrite Ve. symmetry.
      apply sorted_edges_perm_gsrc.
  Qed.

  Lemma deep_eq_refl g : deep_eq_state g g.
  Proof. unfold deep_eq_state; auto. Qed.

  Lemma deep_eq_sym g h : deep_eq_state g h -> deep_eq_state h g.
  Proof. intros (A & B & C); unfold deep_eq_state; auto. Qed.

  Theorem deep_eq_to_dict k g h im :
    NoDup (node_ids g) -> NoDup (edge_keys g) -> deep_eq_state g h ->
    to_dict k g im = to_dict k h im.
  Proof. intros Hn He D. apply to_dict_same_content; auto using deep_eq_same_content. Qed.

  (** ** Theorem 1, in the vocabulary of GraphInv.v: states that differ only in the insertion
      order of their edge indexes and per-node lists ([equiv]), or more generally in the
      insertion order of anything ([same_content]), have the same ordered dictionary *)
  Lemma equiv_same_content g h : equiv g h -> same_content g h.
  Proof.
    intros (F & Ps & _ & Em & _). split; [|split; assumption].
    assert (E : map node3 (gnodes g) = map node3 (gnodes h)).
    { induction F as [|a b l l' (E1 & E2 & E3 & _) _ IH]; simpl; [reflexivity|].
      rewrite IH. unfold node3. rewrite E1, E2, E3; reflexivity. }
    rewrite E; reflexivity.
  Qed.

  Theorem to_dict_order_independent k g h im :
    Inv parse k g -> Inv parse k h -> same_content g h -> to_dict k g im = to_dict k h im.
  Proof.
    intros HI _ SC. apply to_dict_same_content; [exact (inv_nodup_nodes HI)| |exact SC].
    exact (inv_nodup_keys HI).
  Qed.

  Corollary to_dict_equiv k g h im :
    Inv parse k g -> equiv g h -> to_dict k g im = to_dict k h im.
  Proof.
    intros HI Eq. apply to_dict_same_content; [exact (inv_nodup_nodes HI)| |].
    - exact (inv_nodup_keys HI).
    - apply equiv_same_content; exact Eq.
  Qed.

  (** ** Theorem 3: serialising the round-tripped graph again gives the same dictionary *)
  Theorem to_dict_idempotent k g :
    Inv parse k g -> (k = TS -> TagsStable g) ->
    exists j g', to_dict k g true = Ok j /\ from_dict parse fmt k j false = Ok g'
      /\ to_dict k g' true = Ok j /\ to_dict k g' false = to_dict k g false.
  Proof.
    intros HI HT. destruct (@roundtrip_novalidate k g HI HT) as (j & g' & Ej & E & D).
    exists j, g'. split; [exact Ej|]. split; [exact E|].
    rewrite <- Ej. split; symmetry; apply deep_eq_to_dict; try exact D.
    - exact (inv_nodup_nodes HI).
    - exact (inv_nodup_keys HI).
    - exact (inv_nodup_nodes HI).
    - exact (inv_nodup_keys HI).
  Qed.

  (** * CausalGraph -> TimeSeriesCausalGraph *)

  (** the lag [TimeSeriesNode] derives from an identifier *)
  Definition lagp (id : name) : Z := match parse id with Some (_, l) => l | None => 0%Z end.

  Definition flip (e : edge) : edge :=
    {| esrc := edst e; edst := esrc e; ety := ety e; emeta := emeta e |}.

  (** what [TimeSeriesEdge.__init__] makes of an edge given later -> earlier *)
  Definition ts_orient (e : edge) : edge :=
    if (lagp (edst e) <? lagp (esrc e))%Z then flip e else e.

  Lemma ts_orient_key e :
    edge_key (ts_orient e) = edge_key e \/ edge_key (ts_orient e) = (edst e, esrc e).
  Proof. unfold ts_orient. destruct (_ <? _)%Z; [right|left]; reflexivity. Qed.

  Lemma ts_orient_lags e : (lagp (esrc (ts_orient e)) <= lagp (edst (ts_orient e)))%Z.
  Proof.
    unfold ts_orient. destruct (Z.ltb_spec (lagp (edst e)) (lagp (esrc e))); simpl; lia.
  Qed.

  Lemma find3_map_retag3 k id L :
    find3 id (map (retag3 k) L) = option_map (retag3 k) (find3 id L).
  Proof.
    induction L as [|t L IH]; simpl; [reflexivity|].
    unfold retag3 at 1, id3 at 1; simpl. fold (id3 t).
    destruct (name_eqb id (id3 t)); [reflexivity|exact IH].
  Qed.

  Lemma map_id3_retag3 k L : map id3 (map (retag3 k) L) = map id3 L.
  Proof. rewrite map_map; reflexivity. Qed.

  Lemma lag3_retag3 g id :
    In id (node_ids g) -> NoDup (node_ids g) -> parse id <> None ->
    lag3 (map (retag3 TS) (v_nodes g)) id = Some (lagp id).
  Proof.
    intros Hin Hnd Hp. unfold lag3. rewrite find3_map_retag3.
    destruct (find3 id (v_nodes g)) as [t|] eqn:F.
    - destruct (find3_some _ _ F) as [_ Et]. cbn [option_map]. unfold retag3; cbn [snd].
      rewrite Et. unfold retag, lagp. destruct (parse id) as [[v l]|]; [|congruence].
      apply meta_lag_set_tags.
    - exfalso. apply find3_none in F. apply F, v_nodes_ids, Hin.
  Qed.

  Lemma NoDup_map_inj_on (A B : Type) (f : A -> B) (l : list A) :
    NoDup l -> (forall x y, In x l -> In y l -> f x = f y -> x = y) -> NoDup (map f l).
  Proof.
    induction 1 as [|a l Hni Hnd IH]; intros Hinj; simpl; constructor.
    - intros H. apply in_map_iff in H. destruct H as (y & E & Hy).
      assert (y = a) by (apply Hinj; [right; exact Hy|left; reflexivity|exact E]).
      subst y; contradiction.
    - apply IH. intros x y Hx Hy; apply Hinj; right; assumption.
  Qed.

  Lemma NoDup_of_map (A B : Type) (f : A -> B) (l : list A) : NoDup (map f l) -> NoDup l.
  Proof.
    induction l as [|a l IH]; simpl; intros H; constructor; inversion H; subst.
    - intros Hin; apply H2; apply in_map; exact Hin.
    - apply IH; assumption.
  Qed.

  (** at most one edge per unordered pair: re-orienting edges keeps the keys distinct and
      reverse-free *)
  Lemma orient_keys_ok (es : list edge) :
    NoDup (map edge_key es) ->
    (forall e, In e es -> forall e', In e' es -> edge_key e' <> (edst e, esrc e)) ->
    NoDup (map edge_key (map ts_orient es))
    /\ (forall e e', In e (map ts_orient es) -> In e' (map ts_orient es) ->
                     edge_key e' <> (edst e, esrc e)).
  Proof.
    intros Hnd Hnr.
    assert (Hinj : forall x y, In x es -> In y es -> edge_key x = edge_key y -> x = y).
    { intros x y Hx Hy; apply (NoDup_map_inj_in edge_key es); assumption. }
    split.
    - rewrite map_map. apply NoDup_map_inj_on; [apply (NoDup_of_map edge_key), Hnd|].
      intros x y Hx Hy E.
      unfold ts_orient in E.
      destruct (lagp (edst x) <? lagp (esrc x))%Z, (lagp (edst y) <? lagp (esrc y))%Z;
        unfold flip, edge_key in E; simpl in E.
      + apply Hinj; try assumption. unfold edge_key; congruence.
      + exfalso. apply (Hnr x Hx y Hy). unfold edge_key; congruence.
      + exfalso. apply (Hnr y Hy x Hx). unfold edge_key; congruence.
      + apply Hinj; assumption.
    - intros e e' He He'.
      apply in_map_iff in He. destruct He as (x & <- & Hx).
      apply in_map_iff in He'. destruct He' as (y & <- & Hy).
      unfold ts_orient.
      destruct (lagp (edst x) <? lagp (esrc x))%Z eqn:Bx, (lagp (edst y) <? lagp (esrc y))%Z eqn:By;
        unfold flip, edge_key; simpl; intros E.
      + apply (Hnr x Hx y Hy). unfold edge_key; congruence.
      + assert (y = x) by (apply Hinj; try assumption; unfold edge_key; congruence).
        subst y; congruence.
      + assert (y = x) by (apply Hinj; try assumption; unfold edge_key; congruence).
        subst y; congruence.
      + apply (Hnr x Hx y Hy). exact E.
  Qed.

  Lemma ts_orient_ety e : ety (ts_orient e) = ety e.
  Proof. unfold ts_orient; destruct (_ <? _)%Z; reflexivity. Qed.
  Lemma ts_orient_emeta e : emeta (ts_orient e) = emeta e.
  Proof. unfold ts_orient; destruct (_ <? _)%Z; reflexivity. Qed.

  (** what [TimeSeriesEdge.from_dict] makes of the dictionary of a plain edge *)
  Lemma decode_edge_plain_as_ts g e :
    Inv parse Plain g -> In e (gsrc g) ->
    parse (esrc e) <> None -> parse (edst e) <> None ->
    decode_edge parse TS (edge_json Plain g true None e) =
    if (lagp (edst e) <? lagp (esrc e))%Z && etype_eqb (ety e) Dir then Err EValue
    else
      match get_node g (esrc (ts_orient e)), get_node g (edst (ts_orient e)) with
      | Some ns, Some nd =>
          Ok ((esrc (ts_orient e), Some (nvt ns, retag TS (nid ns) (nmeta ns))),
              (edst (ts_orient e), Some (nvt nd, retag TS (nid nd) (nmeta nd))),
              ety e, emeta e)
      | _, _ => Err EKey
      end.
  Proof.
    intros HI Hin Hps Hpd. destruct (inv_endpoints HI e Hin) as [Hs Hd].
    destruct (@get_node_in g _ Hs) as (ns & Gs & Ins & Es).
    destruct (@get_node_in g _ Hd) as (nd & Gd & Ind & Ed).
    rewrite (@decode_edge_json TS Plain g None e ns nd Gs Gd), !decode_node_json.
    cbn [bind]. unfold ts_endpoint, ts_orient, lagp, retag. rewrite Es, Ed.
    destruct (parse (esrc e)) as [[vs ls]|] eqn:Ps; [|congruence].
    destruct (parse (edst e)) as [[vd ld]|] eqn:Pd; [|congruence].
    cbn [bind ty_of]. destruct (ld <? ls)%Z; cbn [andb].
    - destruct (etype_eqb (ety e) Dir); [reflexivity|].
      cbn [flip esrc edst]. rewrite Gs, Gd, Es, Ed, Ps, Pd. reflexivity.
    - rewrite Gs, Gd, Es, Ed, Ps, Pd. reflexivity.
  Qed.

  Definition all_parse (g : graph) : Prop := forall n, In n (gnodes g) -> parse (nid n) <> None.

  Lemma all_parse_id g id : all_parse g -> In id (node_ids g) -> parse id <> None.
  Proof.
    intros HP Hin. apply in_map_iff in Hin. destruct Hin as (n & <- & Hn). apply HP, Hn.
  Qed.

  Lemma ts_orient_endpoints (P : name -> Prop) e :
    P (esrc e) -> P (edst e) -> P (esrc (ts_orient e)) /\ P (edst (ts_orient e)).
  Proof. intros Hs Hd. unfold ts_orient. destruct (_ <? _)%Z; simpl; auto. Qed.

  (** the edge stage of [TimeSeriesCausalGraph.from_dict] on the dictionary of a plain graph,
      for a list of edges none of which is directed against time *)
  Lemma cg_edges_stage g g1 mm (es : list edge) :
    Inv parse Plain g -> all_parse g ->
    EdgesBuilt (map (retag3 TS) (v_nodes g)) mm [] g1 ->
    incl es (gsrc g) -> NoDup (map edge_key es) ->
    (forall e, In e es -> ety e = Dir -> (lagp (esrc e) <= lagp (edst e))%Z) ->
    exists h,
      fold_left (add_edge_step parse fmt TS false) (map (edge_json Plain g true None) es) (Ok g1)
      = Ok h
      /\ EdgesBuilt (map (retag3 TS) (v_nodes g)) mm (map ts_orient es) h.
  Proof.
    intros HI HP HB Hincl Hnd Htime.
    pose proof (inv_nodup_nodes HI) as Hndn.
    set (items := map (fun e => (edge_json Plain g true None e, ts_orient e)) es).
    assert (Hfst : map fst items = map (edge_json Plain g true None) es).
    { unfold items; rewrite map_map; reflexivity. }
    assert (Hsnd : map snd items = map ts_orient es).
    { unfold items; rewrite map_map; reflexivity. }
    destruct (@orient_keys_ok es Hnd) as [Hk1 Hk2].
    { intros e He e' He'. intros E. apply (inv_noreverse HI e (Hincl e He)).
      rewrite <- E. apply (in_map edge_key), Hincl, He'. }
    destruct (@add_edges_fold TS false (map (retag3 TS) (v_nodes g)) mm (fun _ _ => True)
                items [] g1 HB I) as (h & E & B & _).
    - intros it Hin. apply in_map_iff in Hin. destruct Hin as (e & <- & He). cbn [fst snd].
      pose proof (Hincl e He) as Heg. destruct (inv_endpoints HI e Heg) as [Hs Hd].
      rewrite (@decode_edge_plain_as_ts g e HI Heg (all_parse_id HP Hs) (all_parse_id HP Hd)).
      destruct ((lagp (edst e) <? lagp (esrc e))%Z && etype_eqb (ety e) Dir) eqn:Bad.
      { exfalso. apply andb_prop in Bad. destruct Bad as [B1 B2].
        destruct (etype_eqb_spec (ety e) Dir) as [Ed|]; [|discriminate].
        apply Z.ltb_lt in B1. specialize (Htime e He Ed). lia. }
      destruct (@ts_orient_endpoints (fun i => In i (node_ids g)) e Hs Hd) as [Hs' Hd'].
      destruct (@get_node_in g _ Hs') as (ns & -> & _).
      destruct (@get_node_in g _ Hd') as (nd & -> & _).
      rewrite ts_orient_ety, ts_orient_emeta. eexists; eexists; reflexivity.
    - cbn [app]. rewrite Hsnd. exact Hk1.
    - cbn [app]. rewrite Hsnd. exact Hk2.
    - intros it Hin. apply in_map_iff in Hin. destruct Hin as (e & <- & He). cbn [snd].
      rewrite map_id3_retag3. destruct (inv_endpoints HI e (Hincl e He)) as [Hs Hd].
      apply (@ts_orient_endpoints (fun i => In i (map id3 (v_nodes g))) e);
        apply v_nodes_ids; assumption.
    - intros _ it Hin. apply in_map_iff in Hin. destruct Hin as (e & <- & He). cbn [snd].
      destruct (inv_endpoints HI e (Hincl e He)) as [Hs Hd].
      destruct (@ts_orient_endpoints (fun i => In i (node_ids g)) e Hs Hd) as [Hs' Hd'].
      exists (lagp (esrc (ts_orient e))), (lagp (edst (ts_orient e))).
      split; [|split; [|apply ts_orient_lags]].
      + apply lag3_retag3; [exact Hs'|exact Hndn|exact (all_parse_id HP Hs')].
      + apply lag3_retag3; [exact Hd'|exact Hndn|exact (all_parse_id HP Hd')].
    - intros; split; [left; reflexivity|exact I].
    - exists h. rewrite Hfst in E. cbn [app] in B. rewrite Hsnd in B. auto.
  Qed.

  Lemma retag3_sorted k L :
    StronglySorted (le leb3) L -> StronglySorted (le leb3) (map (retag3 k) L).
  Proof.
    induction 1 as [|x l Hs IH Hall]; simpl; constructor; [exact IH|].
    rewrite Forall_forall in *. intros y Hy. apply in_map_iff in Hy.
    destruct Hy as (z & <- & Hz). exact (Hall z Hz).
  Qed.

  Lemma sorted_edges_keys_nodup k g : Inv parse k g -> NoDup (map edge_key (sorted_edges g)).
  Proof.
    intros HI. eapply Permutation_NoDup; [apply Permutation_map, sorted_edges_perm_gsrc|].
    exact (inv_nodup_keys HI).
  Qed.

  (** ** Theorem 4a: a plain graph all of whose identifiers parse and none of whose DIRECTED
      edges points backwards in time converts to a time-series graph with the same
      identifiers and variable types, metadata extended by the two derived tags, the same
      graph metadata, and every edge kept with its type and metadata — stored as it was,
      except that a non-directed edge given later -> earlier is stored earlier -> later. *)
  Theorem cg_to_ts g :
    Inv parse Plain g -> all_parse g ->
    (forall e, In e (gsrc g) -> ety e = Dir -> (lagp (esrc e) <= lagp (edst e))%Z) ->
    exists g', from_causal_graph parse fmt g = Ok g'
      /\ v_nodes g' = map (retag3 TS) (v_nodes g)
      /\ gsrc g' = map ts_orient (sorted_edges g)
      /\ gdst g' = map ts_orient (sorted_edges g)
      /\ gmeta g' = gmeta g.
  Proof.
    intros HI HP Htime. unfold from_causal_graph.
    rewrite (@to_dict_inv Plain g true HI). cbn [bind]. rewrite from_dict_dict_json.
    destruct (@nodes_stage TS Plain g (gmeta g) (inv_nodup_nodes HI)) as (g1 & E1 & N1 & S1 & D1 & M1).
    { intros _ n Hn; apply HP, Hn. }
    rewrite E1. cbn [bind].
    destruct (@cg_edges_stage g g1 (gmeta g) (sorted_edges g) HI HP) as (g' & E' & HL & Hs & Hd & Hm).
    - unfold EdgesBuilt; auto.
    - intros e He; apply sorted_edges_in, He.
    - apply (sorted_edges_keys_nodup HI).
    - intros e He; apply Htime, sorted_edges_in, He.
    - exists g'. split; [exact E'|]. split; [|auto].
      rewrite (v_nodes_isort g'), HL. apply isort_sorted_id, retag3_sorted, v_nodes_sorted.
  Qed.

  (** the derived tags never touch a user key *)
  Lemma set_tags_user_key v l m key :
    key <> k_time_lag -> key <> k_variable_name -> lookup key (set_tags v l m) = lookup key m.
  Proof.
    intros H1 H2. unfold set_tags. rewrite !lookup_meta_set_neq by assumption. reflexivity.
  Qed.

  Lemma ts_orient_spec e :
    ((lagp (esrc e) <= lagp (edst e))%Z -> ts_orient e = e)
    /\ ((lagp (edst e) < lagp (esrc e))%Z -> ts_orient e = flip e).
  Proof.
    unfold ts_orient. destruct (Z.ltb_spec (lagp (edst e)) (lagp (esrc e))); split; intros;
      try reflexivity; lia.
  Qed.

  Corollary cg_to_ts_preserves g :
    Inv parse Plain g -> all_parse g ->
    (forall e, In e (gsrc g) -> ety e = Dir -> (lagp (esrc e) <= lagp (edst e))%Z) ->
    exists g', from_causal_graph parse fmt g = Ok g'
      /\ v_node_names g' = v_node_names g
      /\ map (fun t : name * vtype * meta => snd (fst t)) (v_nodes g')
         = map (fun t : name * vtype * meta => snd (fst t)) (v_nodes g)
      /\ (forall id vt m, In (id, vt, m) (v_nodes g) ->
           exists v l, parse id = Some (v, l) /\ In (id, vt, set_tags v l m) (v_nodes g'))
      /\ (forall e, In e (gsrc g) -> In (ts_orient e) (gsrc g')
                                     /\ ety (ts_orient e) = ety e /\ emeta (ts_orient e) = emeta e)
      /\ length (gsrc g') = length (gsrc g)
      /\ gmeta g' = gmeta g.
  Proof.
    intros HI HP Htime. destruct (cg_to_ts HI HP Htime) as (g' & E & Vn & Es & _ & Em).
    exists g'. split; [exact E|].
    assert (Hnames : forall h, v_node_names h = map id3 (v_nodes h)).
    { intros h. unfold v_node_names, v_nodes. rewrite map_map. reflexivity. }
    repeat split.
    - rewrite !Hnames, Vn. apply map_id3_retag3.
    - rewrite Vn, map_map. reflexivity.
    - intros id vt m Hin.
      assert (Hid : In id (node_ids g)).
      { apply v_nodes_ids. apply (in_map id3) in Hin. exact Hin. }
      destruct (parse id) as [[v l]|] eqn:P; [|exfalso; exact (all_parse_id HP Hid P)].
      exists v, l. split; [reflexivity|]. rewrite Vn.
      apply (in_map (retag3 TS)) in Hin. unfold retag3, retag, id3 in Hin; cbn [fst snd] in Hin.
      rewrite P in Hin. exact Hin.
    - rewrite Es. apply in_map, sorted_edges_in. assumption.
    - apply ts_orient_ety.
    - apply ts_orient_emeta.
    - rewrite Es, map_length. unfold sorted_edges. apply isort_length.
    - exact Em.
  Qed.

  Lemma NoDup_app_l (A : Type) (l l' : list A) : NoDup (l ++ l') -> NoDup l.
  Proof.
    induction l as [|a l IH]; simpl; intros H; constructor; inversion H; subst.
    - intros Hin; apply H2, in_or_app; left; exact Hin.
    - apply IH; assumption.
  Qed.

  (** ** Theorem 4b: one directed edge against time and the conversion is refused *)
  Lemma split_first (A : Type) (P : A -> bool) (l : list A) :
    (exists x, In x l /\ P x = true) ->
    exists pre x post, l = pre ++ x :: post /\ P x = true /\ forall y, In y pre -> P y = false.
  Proof.
    induction l as [|a l IH]; intros (x & Hin & Px); [contradiction|].
    destruct (P a) eqn:Pa.
    - exists [], a, l. repeat split; [exact Pa|intros y []].
    - destruct IH as (pre & y & post & -> & Py & Hpre).
      { destruct Hin as [->|Hin]; [congruence|]. exists x; auto. }
      exists (a :: pre), y, post. repeat split; [exact Py|].
      intros z [<-|Hz]; [exact Pa|apply Hpre, Hz].
  Qed.

  Theorem cg_to_ts_rejects_directed_against_time g :
    Inv parse Plain g -> all_parse g ->
    (exists e, In e (gsrc g) /\ ety e = Dir /\ (lagp (edst e) < lagp (esrc e))%Z) ->
    from_causal_graph parse fmt g = Err EValue.
  Proof.
    intros HI HP (e0 & He0 & Ty0 & Lt0). unfold from_causal_graph.
    rewrite (@to_dict_inv Plain g true HI). cbn [bind]. rewrite from_dict_dict_json.
    destruct (@nodes_stage TS Plain g (gmeta g) (inv_nodup_nodes HI)) as (g1 & E1 & N1 & S1 & D1 & M1).
    { intros _ n Hn; apply HP, Hn. }
    rewrite E1. cbn [bind].
    set (bad := fun e => (lagp (edst e) <? lagp (esrc e))%Z && etype_eqb (ety e) Dir).
    destruct (@split_first edge bad (sorted_edges g)) as (pre & x & post & Esp & Bx & Hpre).
    { exists e0. split; [apply sorted_edges_in, He0|]. unfold bad.
      apply andb_true_intro; split; [apply Z.ltb_lt, Lt0|rewrite Ty0; reflexivity]. }
    assert (Hincl : incl (pre ++ x :: post) (gsrc g)).
    { rewrite <- Esp. intros e He; apply sorted_edges_in, He. }
    pose proof (sorted_edges_keys_nodup HI) as Hnd. rewrite Esp in Hnd.
    rewrite Esp, map_app, fold_left_app.
    destruct (@cg_edges_stage g g1 (gmeta g) pre HI HP) as (h & Eh & _).
    - unfold EdgesBuilt; auto.
    - intros e He; apply Hincl, in_or_app; left; exact He.
    - rewrite map_app in Hnd. apply NoDup_app_l in Hnd. exact Hnd.
    - intros e He Ty. specialize (Hpre e He). unfold bad in Hpre. rewrite Ty in Hpre.
      cbn [etype_eqb] in Hpre. rewrite andb_true_r in Hpre. apply Z.ltb_ge in Hpre. exact Hpre.
    - rewrite Eh. cbn [map fold_left].
      assert (Hx : In x (gsrc g)) by (apply Hincl, in_or_app; right; left; reflexivity).
      destruct (inv_endpoints HI x Hx) as [Hs Hd].
      unfold add_edge_step at 2. cbn [bind].
      rewrite (@decode_edge_plain_as_ts g x HI Hx (all_parse_id HP Hs) (all_parse_id HP Hd)).
      fold (bad x). rewrite Bx. cbn [bind].
      apply fold_err. intros; reflexivity.
  Qed.

  (** ** Theorem 4c: an identifier that does not parse as a time-series name and the
      conversion is refused *)
  Theorem cg_to_ts_rejects_unparsable g :
    Inv parse Plain g -> (exists n, In n (gnodes g) /\ parse (nid n) = None) ->
    from_causal_graph parse fmt g = Err EValue.
  Proof.
    intros HI (n0 & Hn0 & P0). unfold from_causal_graph.
    rewrite (@to_dict_inv Plain g true HI). cbn [bind]. rewrite from_dict_dict_json.
    set (bad := fun n : node => match parse (nid n) with None => true | Some _ => false end).
    destruct (@split_first node bad (nodes_sorted g)) as (pre & x & post & Esp & Bx & Hpre).
    { exists n0. split; [apply nodes_sorted_in, Hn0|]. unfold bad. rewrite P0. reflexivity. }
    pose proof (@nodes_sorted_nodup g (inv_nodup_nodes HI)) as Hnd. rewrite Esp in Hnd.
    rewrite Esp, map_app, fold_left_app.
    set (items := map (fun n => (node_json Plain true n, retag3 TS (node3 n))) pre).
    destruct (@add_nodes_fold TS items (empty_graph (gmeta g))) as (g1 & E1 & _).
    - intros it Hin. apply in_map_iff in Hin. destruct Hin as (n & <- & Hn). cbn [fst snd].
      rewrite decode_node_json. unfold retag3, retag, node3, id3; cbn [fst snd].
      specialize (Hpre n Hn). unfold bad in Hpre.
      destruct (parse (nid n)) as [[v l]|]; [reflexivity|discriminate].
    - unfold items. rewrite map_map. cbn [snd]. unfold retag3, id3; cbn [fst snd node3].
      rewrite map_app in Hnd. apply NoDup_app_l in Hnd. exact Hnd.
    - intros it _ [].
    - intros _ it Hin. apply in_map_iff in Hin. destruct Hin as (n & <- & Hn).
      cbn [snd]. unfold retag3, id3, node3; cbn [fst].
      specialize (Hpre n Hn). unfold bad in Hpre.
      destruct (parse (nid n)); [discriminate|discriminate].
    - unfold items in E1. rewrite map_map in E1. cbn [fst] in E1.
      change (fun x : node => node_json Plain true x) with (node_json Plain true) in E1.
      rewrite E1. cbn [map fold_left]. unfold add_node_step at 2. cbn [bind].
      rewrite decode_node_json. unfold bad in Bx.
      destruct (parse (nid x)) as [[v l]|]; [discriminate|]. cbn [bind].
      rewrite fold_err; [reflexivity|]. intros; reflexivity.
  Qed.

  (** * The Skeleton view

      [Skeleton.from_dict(d, graph_class)] runs the validating [from_dict]; on a skeleton
      dictionary every edge is undirected, no node ever gets an inbound directed edge, and the
      cycle check passes after one turn of its loop. *)
  Lemma add_nodes_ninb k : forall js g0 g1,
    (forall n, In n (gnodes g0) -> ninb n = []) ->
    fold_left (add_node_step parse fmt k) js (Ok g0) = Ok g1 ->
    forall n, In n (gnodes g1) -> ninb n = [].
  Proof.
    induction js as [|j js IH]; intros g0 g1 H0; cbn [fold_left].
    - intros [= <-]; exact H0.
    - destruct (add_node_step parse fmt k (Ok g0) j) as [g0'|e] eqn:E.
      + apply IH. unfold add_node_step in E; cbn [bind] in E.
        destruct (decode_node parse k j) as [[[id vt] m]|]; cbn [bind] in E; [|discriminate].
        cbn [run_op] in E. unfold lift, add_node_obj in E.
        destruct (node_exists g0 id); [discriminate|].
        destruct (mk_node parse k id vt m) as [nn|] eqn:Mk; cbn [bind] in E; [|discriminate].
        assert (Hnn : ninb nn = []).
        { unfold mk_node in Mk. destruct k; [injection Mk as <-; reflexivity|].
          destruct (parse id) as [[vv l]|]; [injection Mk as <-; reflexivity|discriminate]. }
        assert (Hg : gnodes g0' = gnodes g0 ++ [nn]).
        { unfold idx_add in E. destruct k.
          - cbn in E. injection E as <-. reflexivity.
          - destruct (meta_lag (nmeta nn)), (meta_var (nmeta nn)); cbn in E; try discriminate.
            injection E as <-. reflexivity. }
        intros n Hn. rewrite Hg in Hn. apply in_app_or in Hn.
        destruct Hn as [Hn|[<-|[]]]; [apply H0, Hn|exact Hnn].
      + rewrite fold_err; [discriminate|]. intros; reflexivity.
  Qed.

  Lemma depends_no_inbound h d :
    (forall n, In n (gnodes h) -> ninb n = []) -> In d (node_ids h) ->
    depends_on_itself h d = Some false.
  Proof.
    intros Hno Hd. unfold depends_on_itself. rewrite Nat.add_comm. cbn [Nat.add dep_loop].
    rewrite name_eqb_refl. cbn [negb andb mem existsb].
    destruct (@get_node_in h d Hd) as (n & Gn & Hn & _).
    unfold inb_of. rewrite Gn, (Hno n Hn). reflexivity.
  Qed.

  Lemma group_edges_retype ovr es :
    group_edges (map (retype ovr) es)
    = map (fun sg : name * list edge => (fst sg, map (retype ovr) (snd sg))) (group_edges es).
  Proof.
    induction es as [|e es IH]; [reflexivity|].
    cbn [map group_edges]. rewrite IH.
    destruct (group_edges es) as [|[s grp] rest]; [reflexivity|].
    cbn [map fst snd retype esrc]. destruct (name_eqb (esrc e) s); reflexivity.
  Qed.

  Lemma isort_retype ovr es :
    isort pair_leb_e (map (retype ovr) es) = map (retype ovr) (isort pair_leb_e es).
  Proof. symmetry. exact (map_isort (retype ovr) pair_leb_e es). Qed.

  (** the state [g] with every edge retyped *)
  Definition retype_graph (ovr : option etype) (mm : meta) (g : graph) : graph :=
    {| gnodes := gnodes g; gsrc := map (retype ovr) (gsrc g); gdst := map (retype ovr) (gdst g);
       gmeta := mm; glag := glag g; gvar := gvar g |}.

  Lemma skeleton_to_dict_retype k g t mm im :
    skeleton_to_dict k (retype_graph (Some t) mm g) im = skeleton_to_dict k g im.
  Proof.
    unfold skeleton_to_dict.
    assert (Hdef : to_dict_defined k (retype_graph (Some t) mm g) = to_dict_defined k g).
    { unfold to_dict_defined. cbn [retype_graph gnodes gsrc]. rewrite forallb_map. reflexivity. }
    rewrite Hdef. destruct (to_dict_defined k g); [|reflexivity].
    do 3 f_equal. f_equal. f_equal. unfold edges_json, sorted_edges. cbn [retype_graph gsrc].
    rewrite isort_retype, group_edges_retype, map_map. f_equal.
    apply map_ext. intros [s grp]. cbn [fst snd]. rewrite map_map. reflexivity.
  Qed.

  Theorem skeleton_roundtrip k g :
    Inv parse k g -> (k = TS -> TagsStable g) ->
    exists j g', skeleton_to_dict k g true = Ok j
      /\ skeleton_from_dict parse fmt k j = Ok g'
      /\ v_nodes g' = v_nodes g
      /\ v_edges g' = map (retype (Some Und)) (v_edges g)
      /\ skeleton_to_dict k g' true = Ok j.
  Proof.
    intros HI HT.
    set (J := fun (_ : list edge) (h : graph) => forall n, In n (gnodes h) -> ninb n = []).
    destruct (@roundtrip_core k g true (Some Und) false J HI HT) as (g' & E & B & _).
    - intros g1 E1. unfold J. eapply add_nodes_ninb; [|exact E1]. intros n [].
    - intros done h e HJ HB He _. unfold J in *.
      assert (Hn : gnodes (insert_edge h (retype (Some Und) e)) = gnodes h) by reflexivity.
      split; [|rewrite Hn; exact HJ].
      right. apply depends_no_inbound; [rewrite Hn; exact HJ|].
      destruct HB as (HL & _). unfold node_ids. rewrite Hn, <- map_id3_node3, HL.
      apply v_nodes_ids. apply (inv_endpoints HI e He).
    - exists (dict_json k g true (Some Und) false), g'.
      split; [apply skeleton_to_dict_inv; exact HI|]. split; [exact E|].
      destruct (@built_views g g' (Some Und) [] B) as (Vn & Ve & Vm).
      split; [exact Vn|]. split; [exact Ve|].
      rewrite <- (skeleton_to_dict_inv true HI).
      rewrite <- (skeleton_to_dict_retype k g Und [] true).
      destruct B as (HL & Hs & Hd & Hm).
      assert (Pn : Permutation (map node3 (gnodes g')) (map node3 (gnodes g))).
      { rewrite HL. symmetry. apply v_nodes_perm_gnodes. }
      apply skeleton_to_dict_same_content.
      + unfold node_ids. rewrite <- map_id3_node3.
        eapply Permutation_NoDup; [apply Permutation_map, Permutation_sym, Pn|].
        rewrite map_id3_node3. exact (inv_nodup_nodes HI).
      + unfold edge_keys. rewrite Hs, map_key_retype. apply (sorted_edges_keys_nodup HI).
      + split; [exact Pn|]. split; [|exact Hm].
        cbn [retype_graph gsrc]. rewrite Hs. apply Permutation_map. symmetry.
        apply sorted_edges_perm_gsrc.
  Qed.

  (** * The validated round trip (validate = True, the default of [from_dict])

      Two facts proved elsewhere are taken as section hypotheses, in the exact shape of
      GraphInv.v: every operation preserves the invariant ([inv_step_statement]) and the
      stack loop of the cycle check decides "d lies on a directed cycle"
      ([cycle_check_statement]). *)
  Lemma inv_empty k m : Inv parse k (empty_graph m).
  Proof.
    constructor; simpl.
    - constructor.
    - constructor.
    - constructor.
    - intros e [].
    - intros e [].
    - intros e [].
    - intros n [].
    - intros n [].
    - intros; split; reflexivity.
    - intros Ek. constructor; simpl.
      + intros n [].
      + constructor.
      + constructor.
      + intros e [].
  Qed.

  Lemma add_edge_fst_snd k g sp dp ty m v g' :
    fst (add_edge parse k g sp dp ty m v) = Ok g' ->
    snd (add_edge parse k g sp dp ty m v) = g'.
  Proof.
    unfold add_edge. destruct (add_edge_try parse k g sp dp ty m v) as [[g2|e] gl]; simpl.
    - intros [= ->]; reflexivity.
    - discriminate.
  Qed.

  Lemma path_mono (g h : digraph name) a b :
    (forall x y, arc g x y -> arc h x y) -> path g a b -> path h a b.
  Proof.
    intros Hsub. unfold path. induction 1 as [x y Hxy|x y z _ IH1 _ IH2].
    - apply Relation_Operators.t_step, Hsub, Hxy.
    - eapply Relation_Operators.t_trans; eassumption.
  Qed.

  Section Validated.
    Hypothesis inv_step_H :
      forall k g o, Inv parse k g -> Inv parse k (snd (run_op parse fmt k g o)).
    Hypothesis cycle_check_H : cycle_check_statement parse.

    Lemma add_nodes_inv k : forall js g0 g1,
      Inv parse k g0 -> fold_left (add_node_step parse fmt k) js (Ok g0) = Ok g1 ->
      Inv parse k g1.
    Proof.
      induction js as [|j js IH]; intros g0 g1 HI; cbn [fold_left].
      - intros [= <-]; exact HI.
      - destruct (add_node_step parse fmt k (Ok g0) j) as [g0'|e] eqn:E.
        + apply IH. unfold add_node_step in E; cbn [bind] in E.
          destruct (decode_node parse k j) as [[[id vt] m]|]; cbn [bind] in E; [|discriminate].
          pose proof (inv_step_H (OAddNodeObj id vt m) HI) as HI'.
          cbn [run_op] in E, HI'. unfold lift in E, HI'.
          destruct (add_node_obj parse k g0 id vt m); simpl in E, HI'; [|discriminate].
          injection E as <-. exact HI'.
        + rewrite fold_err; [discriminate|]. intros; reflexivity.
    Qed.

    (** the validated core, generic in the class that reads the dictionary *)
    Lemma validated_core k' k g :
      Inv parse k g -> Acyclic g ->
      (k' = TS -> forall n, In n (gnodes g) -> parse (nid n) <> None) ->
      map (retag3 k') (v_nodes g) = v_nodes g ->
      (forall e, In e (gsrc g) -> exists a b,
         decode_edge parse k' (edge_json k g true None e)
         = Ok ((esrc e, Some a), (edst e, Some b), ety e, emeta e)) ->
      (k' = TS -> forall e, In e (gsrc g) -> exists ls ld,
         node_lag g (esrc e) = Some ls /\ node_lag g (edst e) = Some ld /\ (ls <= ld)%Z) ->
      exists g', from_dict parse fmt k' (dict_json k g true None true) true = Ok g'
        /\ deep_eq_state g g'.
    Proof.
      intros HI Hac Hparse Hretag Hdecode Hlags.
      set (J := fun (_ : list edge) (h : graph) =>
                  Inv parse k' h /\ forall a b, arc (dgraph h) a b -> arc (dgraph g) a b).
      destruct (@core_gen k' k g true None true J HI Hparse Hretag Hdecode Hlags)
        as (g' & E & B & _).
      - intros g1 E1. split.
        + eapply add_nodes_inv; [apply inv_empty|exact E1].
        + destruct (@nodes_stage k' k g (gmeta g) (inv_nodup_nodes HI) Hparse)
            as (g1' & E1' & _ & S1 & _).
          assert (g1' = g1) by congruence. subst g1'.
          intros a b. unfold arc, dgraph; cbn [arcs]. rewrite S1. intros [].
      - intros done h e [HIh Hsub] HB He Hun.
        rewrite retype_none in *.
        assert (HI' : Inv parse k' (insert_edge h e)).
        { unfold add_edge_step in Hun; cbn [bind] in Hun.
          destruct (decode_edge parse k' (edge_json k g true None e)) as [[[[sp dp] ty] m]|];
            cbn [bind] in Hun; [|discriminate].
          pose proof (inv_step_H (OAddEdge sp dp ty (Some m) false) HIh) as HI'.
          cbn [run_op] in Hun, HI'. rewrite (add_edge_fst_snd _ _ _ _ _ _ _ Hun) in HI'.
          exact HI'. }
        assert (Hsub' : forall a b, arc (dgraph (insert_edge h e)) a b -> arc (dgraph g) a b).
        { intros a b. unfold arc, dgraph; cbn [arcs insert_edge gsrc].
          rewrite filter_app, map_app, in_app_iff. intros [H|H].
          - apply Hsub, H.
          - cbn [filter] in H. destruct (etype_eqb (ety e) Dir) eqn:Ty; [|contradiction].
            destruct H as [<-|[]]. apply (in_map edge_key). apply filter_In; auto. }
        split; [|split; assumption].
        right.
        destruct HB as (HL & _).
        assert (Hd : In (edst e) (node_ids (insert_edge h e))).
        { unfold node_ids. rewrite <- map_id3_node3, insert_edge_node3, HL.
          apply v_nodes_ids. apply (inv_endpoints HI e He). }
        destruct (cycle_check_H (edst e) HI' Hd) as (b & Eb & Hb).
        destruct b; [|exact Eb].
        exfalso. apply (Hac (edst e)). eapply path_mono; [exact Hsub'|]. apply Hb; reflexivity.
      - exists g'. split; [exact E|].
        destruct (@built_views g g' None (gmeta g) B) as (Vn & Ve & Vm).
        rewrite map_retype_none in Ve.
        unfold deep_eq_state. rewrite Vn, Ve, Vm. auto.
    Qed.

    (** ** Theorem 2 (validate = True): an acyclic state round-trips through the default,
        validating [from_dict] *)
    Theorem roundtrip k g :
      Inv parse k g -> (k = TS -> TagsStable g) -> Acyclic g ->
      exists j g', to_dict k g true = Ok j
        /\ from_dict parse fmt k j true = Ok g' /\ deep_eq_state g g'.
    Proof.
      intros HI HT Hac.
      destruct (@validated_core k k g HI Hac) as (g' & E & D).
      - intros Ek n Hn. subst k.
        destruct (ts_nodeok (inv_ts HI eq_refl) n Hn) as (vv & l & P & _). congruence.
      - apply (@retag3_v_nodes k g HI HT).
      - intros e He. apply (@decode_edge_roundtrip k g None e HI He).
      - intros Ek e He. subst k. apply (ts_time (inv_ts HI eq_refl) e He).
      - exists (dict_json k g true None true), g'. split; [apply to_dict_inv; exact HI|]. auto.
    Qed.

    (** ** TimeSeriesCausalGraph -> CausalGraph through the dictionary
        ([CausalGraph.from_dict(ts.to_dict())], validating): everything is kept, the two tags
        included (they are ordinary metadata of the plain nodes) *)
    Theorem ts_to_cg_deep_eq g :
      Inv parse TS g -> Acyclic g ->
      exists g', ts_to_cg parse fmt g = Ok g' /\ deep_eq_state g g'.
    Proof.
      intros HI Hac. unfold ts_to_cg. rewrite (@to_dict_inv TS g true HI). cbn [bind].
      apply (@validated_core Plain TS g HI Hac).
      - discriminate.
      - rewrite (map_ext _ (fun t => t)); [apply map_id|]. intros [[a b] c]; reflexivity.
      - intros e He. destruct (inv_endpoints HI e He) as [Hs Hd].
        destruct (@get_node_in g _ Hs) as (ns & Gs & Ins & Es).
        destruct (@get_node_in g _ Hd) as (nd & Gd & Ind & Ed).
        rewrite (@decode_edge_json Plain TS g None e ns nd Gs Gd), !decode_node_json.
        pose proof (inv_ts HI eq_refl) as HT.
        destruct (ts_nodeok HT ns Ins) as (vs & ls & Ps & _).
        destruct (ts_nodeok HT nd Ind) as (vd & ld & Pd & _).
        rewrite Ps, Pd. cbn. rewrite Es, Ed. eexists; eexists; reflexivity.
      - discriminate.
    Qed.

    (** ** [roundtrip_class]: the class of the result.  In the model the class is the [kind]
        argument of [from_dict]; what it MEANS is that whatever [from_dict k] returns is a
        well-formed state of class [k] (for [TS]: every node carries the tags parsed from its
        identifier, the two lookup indexes list the nodes, no edge points backwards in time;
        for [Plain]: no time-series index), for any dictionary whatsoever. *)
    Lemma add_edges_inv k v : forall js g0 g1,
      Inv parse k g0 -> fold_left (add_edge_step parse fmt k v) js (Ok g0) = Ok g1 ->
      Inv parse k g1.
    Proof.
      induction js as [|j js IH]; intros g0 g1 HI; cbn [fold_left].
      - intros [= <-]; exact HI.
      - destruct (add_edge_step parse fmt k v (Ok g0) j) as [g0'|e] eqn:E.
        + apply IH. unfold add_edge_step in E; cbn [bind] in E.
          destruct (decode_edge parse k j) as [[[[sp dp] ty] m]|]; cbn [bind] in E; [|discriminate].
          pose proof (inv_step_H (OAddEdge sp dp ty (Some m) v) HI) as HI'.
          cbn [run_op] in E, HI'. rewrite (add_edge_fst_snd _ _ _ _ _ _ _ E) in HI'. exact HI'.
        + rewrite fold_err; [discriminate|]. intros; reflexivity.
    Qed.

    Lemma add_groups_inv k v : forall gs g0 g1,
      Inv parse k g0 -> fold_left (add_group_step parse fmt k v) gs (Ok g0) = Ok g1 ->
      Inv parse k g1.
    Proof.
      induction gs as [|gj gs IH]; intros g0 g1 HI; cbn [fold_left].
      - intros [= <-]; exact HI.
      - destruct (add_group_step parse fmt k v (Ok g0) gj) as [g0'|e] eqn:E.
        + apply IH. unfold add_group_step in E; cbn [bind] in E.
          destruct (jobj gj) as [dests|]; cbn [bind] in E; [|discriminate].
          eapply add_edges_inv; eassumption.
        + rewrite fold_err; [discriminate|]. intros; reflexivity.
    Qed.

    Theorem from_dict_inv k j v g' : from_dict parse fmt k j v = Ok g' -> Inv parse k g'.
    Proof.
      unfold from_dict.
      destruct (jget_opt s_meta j) as [mo|]; cbn [bind]; [|discriminate].
      destruct (meta_of mo) as [m|]; cbn [bind]; [|discriminate].
      destruct (jget s_nodes j) as [nj|]; cbn [bind]; [|discriminate].
      destruct (jobj nj) as [nodes|]; cbn [bind]; [|discriminate].
      destruct (fold_left (add_node_step parse fmt k) (map snd nodes) (Ok (empty_graph m)))
        as [g1|] eqn:E1; cbn [bind]; [|discriminate].
      destruct (jget s_edges j) as [ej|]; cbn [bind]; [|discriminate].
      destruct (jobj ej) as [groups|]; cbn [bind]; [|discriminate].
      apply add_groups_inv. eapply add_nodes_inv; [apply inv_empty|exact E1].
    Qed.

    Corollary roundtrip_class k g j v g' :
      to_dict k g true = Ok j -> from_dict parse fmt k j v = Ok g' -> Inv parse k g'.
    Proof. intros _; apply from_dict_inv. Qed.

    Lemma v_nodes_in g t : In t (v_nodes g) <-> exists n, In n (gnodes g) /\ node3 n = t.
    Proof.
      unfold v_nodes. rewrite in_map_iff. split; intros (n & A & B).
      - exists n. split; [apply nodes_sorted_in, B|exact A].
      - exists n. split; [exact B|apply nodes_sorted_in, A].
    Qed.

    Lemma lagp_node_lag g id l : Inv parse TS g -> node_lag g id = Some l -> lagp id = l.
    Proof.
      intros HI H. unfold node_lag in H. destruct (get_node g id) as [n|] eqn:G; [|discriminate].
      destruct (find_node_some _ _ G) as [Hn <-].
      destruct (ts_nodeok (inv_ts HI eq_refl) n Hn) as (v & l' & P & _ & Hl).
      unfold lagp. rewrite P. congruence.
    Qed.

    (** ** TS -> plain -> TS is the identity up to deep equality ([ts_to_cg_to_ts]) *)
    Theorem ts_to_cg_to_ts g :
      Inv parse TS g -> TagsStable g -> Acyclic g ->
      exists p g', ts_to_cg parse fmt g = Ok p
        /\ from_causal_graph parse fmt p = Ok g' /\ deep_eq_state g g'.
    Proof.
      intros HI HT Hac. destruct (ts_to_cg_deep_eq HI Hac) as (p & Ep & (Vn & Ve & Vm)).
      apply map_edge4_inj in Ve.
      assert (HIp : Inv parse Plain p).
      { unfold ts_to_cg in Ep. rewrite (@to_dict_inv TS g true HI) in Ep. cbn [bind] in Ep.
        apply from_dict_inv in Ep. exact Ep. }
      assert (HPp : all_parse p).
      { intros n Hn. assert (Hin : In (node3 n) (v_nodes p)) by (apply v_nodes_in; eauto).
        rewrite <- Vn in Hin. apply v_nodes_in in Hin. destruct Hin as (n' & Hn' & E3).
        assert (nid n' = nid n) by (unfold node3 in E3; congruence).
        destruct (ts_nodeok (inv_ts HI eq_refl) n' Hn') as (v & l & P & _). congruence. }
      assert (Htime : forall e, In e (gsrc p) -> (lagp (esrc e) <= lagp (edst e))%Z).
      { intros e He. apply sorted_edges_in in He. fold (v_edges p) in He. rewrite <- Ve in He.
        apply sorted_edges_in in He.
        destruct (ts_time (inv_ts HI eq_refl) e He) as (ls & ld & Ls & Ld & Hle).
        rewrite (lagp_node_lag _ HI Ls), (lagp_node_lag _ HI Ld). exact Hle. }
      destruct (@cg_to_ts p HIp HPp) as (g' & Eg & Vn' & Es' & _ & Em').
      { intros e He _. apply Htime, He. }
      exists p, g'. split; [exact Ep|]. split; [exact Eg|].
      assert (Hsrc : gsrc g' = sorted_edges g).
      { rewrite Es'. fold (v_edges p). rewrite <- Ve. unfold v_edges.
        rewrite (map_ext_in _ (fun e => e)); [apply map_id|].
        intros e He. apply ts_orient_spec. apply Htime.
        apply sorted_edges_in. fold (v_edges p). rewrite <- Ve. exact He. }
      split; [|split].
      - rewrite Vn', <- Vn. symmetry. apply (@retag3_v_nodes TS g HI (fun _ => HT)).
      - f_equal. unfold v_edges, sorted_edges. rewrite Hsrc. fold (sorted_edges g).
        symmetry. apply isort_sorted_id, sorted_edges_sorted.
      - congruence.
    Qed.
  End Validated.
End Proofs.

(** * Examples: non-vacuity of the hypotheses and behaviour pinned to the real library
    (evaluated with the verified name codec of Names.v) *)
From CG Require Names DigraphProofs.
Local Open Scope N_scope.

Ltac nodup_tac := repeat constructor; simpl; intuition discriminate.
Ltac in_cases H := simpl in H; repeat (destruct H as [H|H]; [subst|]); try contradiction.

(** A time-series graph: y (binary, user metadata), x lag(n=1) -> x with nested edge metadata,
    and the undirected edge given as y -- x lag(n=1), which the class stores earlier -> later. *)
Definition ex_ts_ops : list op :=
  [(OAddNode [121] VBin (Some [([97], (JInt (1)%Z))])); (OAddEdge ([120; 32; 108; 97; 103; 40; 110; 61; 49; 41], None) ([120], None) Dir (Some [([119], (JList [(JInt (1)%Z); (JObj [([113], JNull)])]))]) true); (OAddEdge ([121], None) ([120; 32; 108; 97; 103; 40; 110; 61; 49; 41], None) Und None true)].
(** json.loads(json.dumps(g.to_dict())) of the real library for that history (version substituted) *)
Definition ex_ts_dict_python : json :=
  (JObj [([110; 111; 100; 101; 115], (JObj [([120], (JObj [([105; 100; 101; 110; 116; 105; 102; 105; 101; 114], (JStr [120])); ([118; 97; 114; 105; 97; 98; 108; 101; 95; 116; 121; 112; 101], (JStr [117; 110; 115; 112; 101; 99; 105; 102; 105; 101; 100])); ([110; 111; 100; 101; 95; 99; 108; 97; 115; 115], (JStr [84; 105; 109; 101; 83; 101; 114; 105; 101; 115; 78; 111; 100; 101])); ([109; 101; 116; 97], (JObj [([116; 105; 109; 101; 95; 108; 97; 103], (JInt (0)%Z)); ([118; 97; 114; 105; 97; 98; 108; 101; 95; 110; 97; 109; 101], (JStr [120]))])); ([116; 105; 109; 101; 95; 108; 97; 103], (JInt (0)%Z)); ([118; 97; 114; 105; 97; 98; 108; 101; 95; 110; 97; 109; 101], (JStr [120]))])); ([120; 32; 108; 97; 103; 40; 110; 61; 49; 41], (JObj [([105; 100; 101; 110; 116; 105; 102; 105; 101; 114], (JStr [120; 32; 108; 97; 103; 40; 110; 61; 49; 41])); ([118; 97; 114; 105; 97; 98; 108; 101; 95; 116; 121; 112; 101], (JStr [117; 110; 115; 112; 101; 99; 105; 102; 105; 101; 100])); ([110; 111; 100; 101; 95; 99; 108; 97; 115; 115], (JStr [84; 105; 109; 101; 83; 101; 114; 105; 101; 115; 78; 111; 100; 101])); ([109; 101; 116; 97], (JObj [([116; 105; 109; 101; 95; 108; 97; 103], (JInt (-1)%Z)); ([118; 97; 114; 105; 97; 98; 108; 101; 95; 110; 97; 109; 101], (JStr [120]))])); ([116; 105; 109; 101; 95; 108; 97; 103], (JInt (-1)%Z)); ([118; 97; 114; 105; 97; 98; 108; 101; 95; 110; 97; 109; 101], (JStr [120]))])); ([121], (JObj [([105; 100; 101; 110; 116; 105; 102; 105; 101; 114], (JStr [121])); ([118; 97; 114; 105; 97; 98; 108; 101; 95; 116; 121; 112; 101], (JStr [98; 105; 110; 97; 114; 121])); ([110; 111; 100; 101; 95; 99; 108; 97; 115; 115], (JStr [84; 105; 109; 101; 83; 101; 114; 105; 101; 115; 78; 111; 100; 101])); ([109; 101; 116; 97], (JObj [([97], (JInt (1)%Z)); ([116; 105; 109; 101; 95; 108; 97; 103], (JInt (0)%Z)); ([118; 97; 114; 105; 97; 98; 108; 101; 95; 110; 97; 109; 101], (JStr [121]))])); ([116; 105; 109; 101; 95; 108; 97; 103], (JInt (0)%Z)); ([118; 97; 114; 105; 97; 98; 108; 101; 95; 110; 97; 109; 101], (JStr [121]))]))])); ([101; 100; 103; 101; 115], (JObj [([120; 32; 108; 97; 103; 40; 110; 61; 49; 41], (JObj [([120], (JObj [([115; 111; 117; 114; 99; 101], (JObj [([105; 100; 101; 110; 116; 105; 102; 105; 101; 114], (JStr [120; 32; 108; 97; 103; 40; 110; 61; 49; 41])); ([118; 97; 114; 105; 97; 98; 108; 101; 95; 116; 121; 112; 101], (JStr [117; 110; 115; 112; 101; 99; 105; 102; 105; 101; 100])); ([110; 111; 100; 101; 95; 99; 108; 97; 115; 115], (JStr [84; 105; 109; 101; 83; 101; 114; 105; 101; 115; 78; 111; 100; 101])); ([109; 101; 116; 97], (JObj [([116; 105; 109; 101; 95; 108; 97; 103], (JInt (-1)%Z)); ([118; 97; 114; 105; 97; 98; 108; 101; 95; 110; 97; 109; 101], (JStr [120]))])); ([116; 105; 109; 101; 95; 108; 97; 103], (JInt (-1)%Z)); ([118; 97; 114; 105; 97; 98; 108; 101; 95; 110; 97; 109; 101], (JStr [120]))])); ([100; 101; 115; 116; 105; 110; 97; 116; 105; 111; 110], (JObj [([105; 100; 101; 110; 116; 105; 102; 105; 101; 114], (JStr [120])); ([118; 97; 114; 105; 97; 98; 108; 101; 95; 116; 121; 112; 101], (JStr [117; 110; 115; 112; 101; 99; 105; 102; 105; 101; 100])); ([110; 111; 100; 101; 95; 99; 108; 97; 115; 115], (JStr [84; 105; 109; 101; 83; 101; 114; 105; 101; 115; 78; 111; 100; 101])); ([109; 101; 116; 97], (JObj [([116; 105; 109; 101; 95; 108; 97; 103], (JInt (0)%Z)); ([118; 97; 114; 105; 97; 98; 108; 101; 95; 110; 97; 109; 101], (JStr [120]))])); ([116; 105; 109; 101; 95; 108; 97; 103], (JInt (0)%Z)); ([118; 97; 114; 105; 97; 98; 108; 101; 95; 110; 97; 109; 101], (JStr [120]))])); ([101; 100; 103; 101; 95; 116; 121; 112; 101], (JStr [45; 62])); ([109; 101; 116; 97], (JObj [([119], (JList [(JInt (1)%Z); (JObj [([113], JNull)])]))]))])); ([121], (JObj [([115; 111; 117; 114; 99; 101], (JObj [([105; 100; 101; 110; 116; 105; 102; 105; 101; 114], (JStr [120; 32; 108; 97; 103; 40; 110; 61; 49; 41])); ([118; 97; 114; 105; 97; 98; 108; 101; 95; 116; 121; 112; 101], (JStr [117; 110; 115; 112; 101; 99; 105; 102; 105; 101; 100])); ([110; 111; 100; 101; 95; 99; 108; 97; 115; 115], (JStr [84; 105; 109; 101; 83; 101; 114; 105; 101; 115; 78; 111; 100; 101])); ([109; 101; 116; 97], (JObj [([116; 105; 109; 101; 95; 108; 97; 103], (JInt (-1)%Z)); ([118; 97; 114; 105; 97; 98; 108; 101; 95; 110; 97; 109; 101], (JStr [120]))])); ([116; 105; 109; 101; 95; 108; 97; 103], (JInt (-1)%Z)); ([118; 97; 114; 105; 97; 98; 108; 101; 95; 110; 97; 109; 101], (JStr [120]))])); ([100; 101; 115; 116; 105; 110; 97; 116; 105; 111; 110], (JObj [([105; 100; 101; 110; 116; 105; 102; 105; 101; 114], (JStr [121])); ([118; 97; 114; 105; 97; 98; 108; 101; 95; 116; 121; 112; 101], (JStr [98; 105; 110; 97; 114; 121])); ([110; 111; 100; 101; 95; 99; 108; 97; 115; 115], (JStr [84; 105; 109; 101; 83; 101; 114; 105; 101; 115; 78; 111; 100; 101])); ([109; 101; 116; 97], (JObj [([97], (JInt (1)%Z)); ([116; 105; 109; 101; 95; 108; 97; 103], (JInt (0)%Z)); ([118; 97; 114; 105; 97; 98; 108; 101; 95; 110; 97; 109; 101], (JStr [121]))])); ([116; 105; 109; 101; 95; 108; 97; 103], (JInt (0)%Z)); ([118; 97; 114; 105; 97; 98; 108; 101; 95; 110; 97; 109; 101], (JStr [121]))])); ([101; 100; 103; 101; 95; 116; 121; 112; 101], (JStr [45; 45])); ([109; 101; 116; 97], (JObj []))]))]))])); ([118; 101; 114; 115; 105; 111; 110], (JStr [36; 86; 69; 82; 83; 73; 79; 78])); ([109; 101; 116; 97], (JObj [([103; 109], (JBool true))]))]).
Definition ex_plain_ops : list op :=
  [(OAddNode [121] VOrd (Some [([116; 105; 109; 101; 95; 108; 97; 103], (JInt (7)%Z)); ([117], (JStr [115]))])); (OAddEdge ([120], None) ([120; 32; 108; 97; 103; 40; 110; 61; 50; 41], None) Und (Some [([119], (JInt (1)%Z))]) true); (OAddEdge ([120; 32; 108; 97; 103; 40; 110; 61; 50; 41], None) ([121], None) Dir None true)].

Definition ex_ts : graph :=
  run Names.parse Names.fmt TS ex_ts_ops (empty_graph [([103; 109], JBool true)]).

(** the model writes exactly the dictionary the library writes *)
Example ex_ts_to_dict : to_dict TS ex_ts true = Ok ex_ts_dict_python.
Proof. vm_compute. reflexivity. Qed.

Lemma ex_ts_inv : Inv Names.parse TS ex_ts.
Proof.
  constructor.
  - vm_compute. nodup_tac.
  - vm_compute. apply Permutation_refl.
  - vm_compute. nodup_tac.
  - intros e H. vm_compute in H. in_cases H; vm_compute; intuition.
  - intros e H. vm_compute in H. in_cases H; vm_compute; discriminate.
  - intros e H. vm_compute in H. in_cases H; vm_compute; intuition discriminate.
  - intros n H. vm_compute in H. in_cases H; vm_compute; apply Permutation_refl.
  - intros n H. vm_compute in H. in_cases H; vm_compute; apply Permutation_refl.
  - discriminate.
  - intros _. constructor.
    + intros n H. vm_compute in H.
      in_cases H; eexists; eexists; (split; [|split]); vm_compute; reflexivity.
    + vm_compute. repeat constructor.
    + vm_compute. repeat constructor.
    + intros e H. vm_compute in H.
      in_cases H; eexists; eexists; (split; [|split]);
        try (vm_compute; reflexivity); vm_compute; discriminate.
Qed.

Lemma ex_ts_tags_stable : TagsStable ex_ts.
Proof.
  apply tags_stable_sorted. intros n H. vm_compute in H.
  in_cases H; unfold meta_sorted; simpl; repeat constructor.
Qed.

Lemma ex_ts_acyclic : Acyclic ex_ts.
Proof.
  assert (Hwf : wf (dgraph ex_ts)).
  { split; [vm_compute; nodup_tac|].
    intros a b H. vm_compute in H. in_cases H. injection H as <- <-. vm_compute. intuition. }
  apply (proj1 (DigraphProofs.acyclicb_spec name_eqb name_eqb_spec Hwf)).
  vm_compute. reflexivity.
Qed.

(** the hypotheses of Theorems 1-3 hold of a non-trivial state, and the conclusions can be
    observed by evaluation *)
Example ex_ts_roundtrip :
  match from_dict Names.parse Names.fmt TS ex_ts_dict_python false with
  | Ok g' => deep_eqb ex_ts g' = true /\ to_dict TS g' true = Ok ex_ts_dict_python
  | Err _ => False
  end.
Proof. vm_compute. split; reflexivity. Qed.

Example ex_ts_roundtrip_validated :
  match from_dict Names.parse Names.fmt TS ex_ts_dict_python true with
  | Ok g' => deep_eqb ex_ts g' = true
  | Err _ => False
  end.
Proof. vm_compute. reflexivity. Qed.

(** same content, different construction order: same ordered dictionary (Theorem 1) *)
Definition ex_ts_ops_permuted : list op :=
  [OAddEdge ([120; 32; 108; 97; 103; 40; 110; 61; 49; 41], None) ([120], None) Dir
     (Some [([119], JList [JInt 1%Z; JObj [([113], JNull)]])]) true;
   OAddEdge ([121], None) ([120; 32; 108; 97; 103; 40; 110; 61; 49; 41], None) Und None true;
   OReplaceNode [121] None None None (Some VBin) (Some [([97], JInt 1%Z)])].
Definition ex_ts_permuted : graph :=
  run Names.parse Names.fmt TS ex_ts_ops_permuted (empty_graph [([103; 109], JBool true)]).

Example ex_ts_permuted_differs : gnodes ex_ts_permuted <> gnodes ex_ts.
Proof. vm_compute. discriminate. Qed.

Example ex_ts_permuted_same_content : same_content ex_ts ex_ts_permuted.
Proof.
  split; [|split].
  - vm_compute.
    match goal with |- Permutation [?a; ?b; ?c] [?b; ?c; ?a] =>
      apply (Permutation_trans (l' := [b; a; c])); [apply perm_swap|apply perm_skip, perm_swap]
    end.
  - vm_compute. apply Permutation_refl.
  - reflexivity.
Qed.

Example ex_ts_permuted_to_dict : to_dict TS ex_ts_permuted true = to_dict TS ex_ts true.
Proof. vm_compute. reflexivity. Qed.

(** the Skeleton view: every edge '--', no graph metadata; round trip through the validating
    [from_dict] of the same class *)
Example ex_ts_skeleton :
  match skeleton_to_dict TS ex_ts true with
  | Ok j =>
      match skeleton_from_dict Names.parse Names.fmt TS j with
      | Ok g' => skeleton_to_dict TS g' true = Ok j
                 /\ map ety (v_edges g') = [Und; Und] /\ gmeta g' = []
      | Err _ => False
      end
  | Err _ => False
  end.
Proof. vm_compute. repeat split; reflexivity. Qed.

(** A plain graph over time-series style names: x -- x lag(n=2) is given later -> earlier,
    x lag(n=2) -> y respects time, y carries a stale 'time_lag' entry in its metadata. *)
Definition ex_plain : graph :=
  run Names.parse Names.fmt Plain ex_plain_ops (empty_graph [([103; 109], JInt 1%Z)]).

Lemma ex_plain_inv : Inv Names.parse Plain ex_plain.
Proof.
  constructor.
  - vm_compute. nodup_tac.
  - vm_compute. apply Permutation_refl.
  - vm_compute. nodup_tac.
  - intros e H. vm_compute in H. in_cases H; vm_compute; intuition.
  - intros e H. vm_compute in H. in_cases H; vm_compute; discriminate.
  - intros e H. vm_compute in H. in_cases H; vm_compute; intuition discriminate.
  - intros n H. vm_compute in H. in_cases H; vm_compute; apply Permutation_refl.
  - intros n H. vm_compute in H. in_cases H; vm_compute; apply Permutation_refl.
  - intros _. vm_compute. split; reflexivity.
  - discriminate.
Qed.

Lemma ex_plain_all_parse : all_parse Names.parse ex_plain.
Proof. intros n H. vm_compute in H. in_cases H; vm_compute; discriminate. Qed.

Lemma ex_plain_time :
  forall e, In e (gsrc ex_plain) -> ety e = Dir ->
            (lagp Names.parse (esrc e) <= lagp Names.parse (edst e))%Z.
Proof. intros e H. vm_compute in H. in_cases H; vm_compute; discriminate. Qed.

(** observed on the library: from_causal_graph stores x lag(n=2) -- x (flipped) and
    x lag(n=2) -> y; the stale time_lag 7 of y is overwritten by 0, 'u' is kept *)
Example ex_cg_to_ts :
  match from_causal_graph Names.parse Names.fmt ex_plain with
  | Ok g' =>
      map edge4 (v_edges g')
      = [([120; 32; 108; 97; 103; 40; 110; 61; 50; 41], [120], Und, [([119], JInt 1%Z)]);
         ([120; 32; 108; 97; 103; 40; 110; 61; 50; 41], [121], Dir, [])]
      /\ v_nodes g'
         = [([120], VUnspec, set_tags [120] 0%Z []);
            ([120; 32; 108; 97; 103; 40; 110; 61; 50; 41], VUnspec, set_tags [120] (-2)%Z []);
            ([121], VOrd, [(k_time_lag, JInt 0%Z); ([117], JStr [115]);
                           (k_variable_name, JStr [121])])]
      /\ gmeta g' = [([103; 109], JInt 1%Z)]
  | Err _ => False
  end.
Proof. vm_compute. repeat split; reflexivity. Qed.

(** the directed edge x -> x lag(n=1) is refused with ValueError *)
Definition ex_plain_bad : graph :=
  run Names.parse Names.fmt Plain
    [OAddEdge ([120], None) ([120; 32; 108; 97; 103; 40; 110; 61; 49; 41], None) Dir None true]
    (empty_graph []).

Example ex_cg_to_ts_rejected : from_causal_graph Names.parse Names.fmt ex_plain_bad = Err EValue.
Proof. vm_compute. reflexivity. Qed.

Example ex_plain_bad_hyp :
  exists e, In e (gsrc ex_plain_bad) /\ ety e = Dir
            /\ (lagp Names.parse (edst e) < lagp Names.parse (esrc e))%Z.
Proof. eexists; split; [left; reflexivity|]. split; [reflexivity|vm_compute; reflexivity]. Qed.

(** [Inv] alone does not make the time-series round trip deep-equal: the metadata lists
    must be key-sorted (or come from [set_tags]).  A state satisfying [Inv] whose only node
    has its tags AFTER a larger user key is rebuilt with the tags duplicated in front. *)
Definition ex_unsorted : graph :=
  {| gnodes := [{| nid := [120]; nvt := VUnspec;
                   nmeta := [([122], JInt 1%Z); (k_time_lag, JInt 0%Z);
                             (k_variable_name, JStr [120])];
                   ninb := []; noutb := [] |}];
     gsrc := []; gdst := []; gmeta := [];
     glag := [(0%Z, [120])]; gvar := [([120], [120])] |}.

Lemma ex_unsorted_inv : Inv Names.parse TS ex_unsorted.
Proof.
  constructor.
  - vm_compute. nodup_tac.
  - apply Permutation_refl.
  - constructor.
  - intros e [].
  - intros e [].
  - intros e [].
  - intros n H. in_cases H. apply Permutation_refl.
  - intros n H. in_cases H. apply Permutation_refl.
  - discriminate.
  - intros _. constructor.
    + intros n H. in_cases H. eexists; eexists; (split; [|split]); vm_compute; reflexivity.
    + repeat constructor.
    + repeat constructor.
    + intros e [].
Qed.

Example ex_unsorted_not_stable :
  match to_dict TS ex_unsorted true with
  | Ok j => match from_dict Names.parse Names.fmt TS j false with
            | Ok g' => deep_eqb ex_unsorted g' = false
            | Err _ => False
            end
  | Err _ => False
  end.
Proof. vm_compute. reflexivity. Qed.

(** the theorems apply to these states (their hypotheses are jointly satisfiable) *)
Example ex_ts_apply_roundtrip :
  exists j g', to_dict TS ex_ts true = Ok j
    /\ from_dict Names.parse Names.fmt TS j false = Ok g' /\ deep_eq_state ex_ts g'.
Proof.
  exact (@roundtrip_novalidate Names.parse Names.fmt TS ex_ts ex_ts_inv
           (fun _ => ex_ts_tags_stable)).
Qed.

Example ex_ts_apply_idempotent :
  exists j g', to_dict TS ex_ts true = Ok j /\ from_dict Names.parse Names.fmt TS j false = Ok g'
    /\ to_dict TS g' true = Ok j /\ to_dict TS g' false = to_dict TS ex_ts false.
Proof.
  exact (@to_dict_idempotent Names.parse Names.fmt TS ex_ts ex_ts_inv
           (fun _ => ex_ts_tags_stable)).
Qed.

Example ex_ts_apply_order_independent :
  to_dict TS ex_ts true = to_dict TS ex_ts_permuted true.
Proof.
  apply to_dict_same_content.
  - exact (inv_nodup_nodes ex_ts_inv).
  - exact (inv_nodup_keys ex_ts_inv).
  - exact ex_ts_permuted_same_content.
Qed.

Example ex_plain_apply_cg_to_ts :
  exists g', from_causal_graph Names.parse Names.fmt ex_plain = Ok g'
    /\ v_nodes g' = map (retag3 Names.parse TS) (v_nodes ex_plain)
    /\ gsrc g' = map (ts_orient Names.parse) (sorted_edges ex_plain)
    /\ gdst g' = map (ts_orient Names.parse) (sorted_edges ex_plain)
    /\ gmeta g' = gmeta ex_plain.
Proof. exact (@cg_to_ts Names.parse Names.fmt ex_plain ex_plain_inv ex_plain_all_parse ex_plain_time). Qed.

Lemma ex_plain_bad_inv : Inv Names.parse Plain ex_plain_bad.
Proof.
  constructor.
  - vm_compute. nodup_tac.
  - vm_compute. apply Permutation_refl.
  - vm_compute. nodup_tac.
  - intros e H. vm_compute in H. in_cases H; vm_compute; intuition.
  - intros e H. vm_compute in H. in_cases H; vm_compute; discriminate.
  - intros e H. vm_compute in H. in_cases H; vm_compute; intuition discriminate.
  - intros n H. vm_compute in H. in_cases H; vm_compute; apply Permutation_refl.
  - intros n H. vm_compute in H. in_cases H; vm_compute; apply Permutation_refl.
  - intros _. vm_compute. split; reflexivity.
  - discriminate.
Qed.

Example ex_plain_bad_apply_rejects :
  from_causal_graph Names.parse Names.fmt ex_plain_bad = Err EValue.
Proof.
  apply cg_to_ts_rejects_directed_against_time.
  - exact ex_plain_bad_inv.
  - intros n H. vm_compute in H. in_cases H; vm_compute; discriminate.
  - exact ex_plain_bad_hyp.
Qed.

(** TS -> plain -> TS on the example, by evaluation *)
Example ex_ts_to_cg_to_ts :
  match ts_to_cg Names.parse Names.fmt ex_ts with
  | Ok p =>
      deep_eqb ex_ts p = true
      /\ match from_causal_graph Names.parse Names.fmt p with
         | Ok g' => deep_eqb ex_ts g' = true
         | Err _ => False
         end
  | Err _ => False
  end.
Proof. vm_compute. split; reflexivity. Qed.

(** an identifier with two lag markers does not parse: the conversion raises ValueError *)
Definition ex_plain_unparsable : graph :=
  run Names.parse Names.fmt Plain
    [OAddNode [98; 32; 108; 97; 103; 40; 110; 61; 49; 41; 32; 108; 97; 103; 40; 110; 61; 50; 41]
       VUnspec None]
    (empty_graph []).

Example ex_cg_to_ts_unparsable :
  from_causal_graph Names.parse Names.fmt ex_plain_unparsable = Err EValue
  /\ exists n, In n (gnodes ex_plain_unparsable) /\ Names.parse (nid n) = None.
Proof.
  split; [vm_compute; reflexivity|].
  eexists; split; [left; reflexivity|vm_compute; reflexivity].
Qed.
